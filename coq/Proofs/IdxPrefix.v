(* Proofs/IdxPrefix.v — C06: the BIT-FOR-BIT prefix law of the window-index drivers (rolling_apply_idx, both
   bodies; Model/Cmp.v : idx_run) for callbacks that re-read the series through `uget`, at EVERY carrier (no law
   of the numeric class is used, so the statements hold at Coq's binary64 `float`, whose evaluation the
   correspondence run compares with the Rust code).
   Generic rule (section RunPrefix / idx_run_prefix_gen): if
     - at every position e before the last one of the prefix both runs pass the same start index and the
       callback of the prefix run (which can only see xs[..k]) returns what the callback of the whole run returns
       ("reads the series only at positions <= e"), and
     - at the last position of the prefix — where the start index may differ: the two-phase body clamps the window
       to the length, and the cmp family clamps it itself — the prefix callback returns the same OUTPUT (its state
       is dropped),
   then   idx_run .. xs = Done out  ->  idx_run .. (firstn k xs) = Done (firstn k out).
   Instances: vext_cb (ts_vmin / ts_vmax), varg_cb (ts_vargmin / ts_vargmax), vrank_cb (ts_vrank), mmnorm_cb
   (ts_vminmaxnorm), resid_cb (ts_vregx_resid_{mean,std,skew}).  Stdlib only, axiom-free.                       *)
From Coq Require Import ZArith Lia List.
From Tevec Require Import Base.Prelude Base.Num Model.Driver Proofs.Driver Model.Features Model.Cmp
     Proofs.IdxRun Model.Norm Model.Binary Model.Reg Proofs.NoLookahead Proofs.NoLookahead2.
Import ListNotations.

(* ---- the sealed run -------------------------------------------------------------------------------- *)
Lemma collect_Ok_inv {O} (l : list (res O)) out : collect l = Ok out -> l = map Ok out.
Proof.
  revert out; induction l as [|[o|k] l IH]; intros out H; cbn in H.
  - injection H as <-. reflexivity.
  - destruct (collect l) as [l'|k]; [|discriminate]. injection H as <-. cbn. f_equal. apply IH. reflexivity.
  - discriminate.
Qed.

Definition idx_args {T} (body : bool) (w : nat) (xs : list T) : list (option nat * nat * T) :=
  mapi (fun i v => (start_of (eff_window body w (length xs)) i, i, v)) xs.

Lemma idx_run_unfold {T St O} body w (cb : St -> option nat * nat * T -> res (St * O)) s0 (xs : list T) :
  1 <= w -> idx_run body w cb s0 xs = seal (Done (run (lift_cb cb) (Ok s0) (idx_args body w xs))).
Proof.
  intros Hw. unfold idx_run, idx_args. destruct body; cbn [eff_window].
  - rewrite rolling_apply_idx_to_eq by exact Hw. reflexivity.
  - rewrite rolling_apply_idx_default_eq by exact Hw. reflexivity.
Qed.

Lemma idx_run_Done_iff {T St O} body w (cb : St -> option nat * nat * T -> res (St * O)) s0 (xs : list T) out :
  1 <= w ->
  (idx_run body w cb s0 xs = Done out <-> run (lift_cb cb) (Ok s0) (idx_args body w xs) = map Ok out).
Proof.
  intros Hw. rewrite idx_run_unfold by exact Hw. cbn [seal]. split.
  - destruct (collect (run (lift_cb cb) (Ok s0) (idx_args body w xs))) as [l'|pk] eqn:E; [|discriminate].
    intros H. injection H as <-. apply collect_Ok_inv. exact E.
  - intros ->. rewrite collect_map_Ok. reflexivity.
Qed.

Lemma idx_run_Done_length {T St O} body w (cb : St -> option nat * nat * T -> res (St * O)) s0 (xs : list T) out :
  1 <= w -> idx_run body w cb s0 xs = Done out -> length out = length xs.
Proof.
  intros Hw H. apply idx_run_Done_iff in H; [|exact Hw].
  apply (f_equal (@length _)) in H. rewrite run_length, map_length in H. unfold idx_args in H.
  rewrite mapi_length in H. symmetry. exact H.
Qed.

Lemma idx_run_nil_any {T St O} body w (cb : St -> option nat * nat * T -> res (St * O)) s0 :
  idx_run body w cb s0 [] = Done [].
Proof.
  unfold idx_run, rolling_apply_idx_to, rolling_apply_idx_default, bad_window. cbn [length Nat.eqb negb].
  rewrite Bool.andb_false_r. destruct body; [|reflexivity].
  unfold calls_to_idx. cbn [length]. rewrite Nat.min_0_r. reflexivity.
Qed.

Lemma lift_out_Ok {St X O} (cb : St -> X -> res (St * O)) s a o :
  snd (lift_cb cb (Ok s) a) = Ok o -> exists s', cb s a = Ok (s', o).
Proof.
  cbn. destruct (cb s a) as [[s' o']|pk]; cbn; intros H; [|discriminate].
  injection H as ->. exists s'. reflexivity.
Qed.

(* ---- the generic rule ------------------------------------------------------------------------------ *)
Section RunPrefix.
  Context {T St O : Type}.
  Variables cb1 cb2 : St -> option nat * nat * T -> res (St * O).   (* prefix run / whole run *)
  Variable xs : list T.
  Variable k : nat.
  Variables sf1 sf2 : nat -> option nat.                             (* the start index passed at position e *)
  Variable Inv : nat -> St -> Prop.                                  (* about the state BEFORE position e *)
  Variable s0 : St.
  Let n := Nat.min k (length xs).
  Hypothesis Inv0 : Inv 0 s0.
  Hypothesis Hinner : forall e v s, S e < n -> nth_error xs e = Some v -> Inv e s ->
    sf1 e = sf2 e /\ cb1 s (sf2 e, e, v) = cb2 s (sf2 e, e, v) /\
    (forall s' o, cb2 s (sf2 e, e, v) = Ok (s', o) -> Inv (S e) s').
  Hypothesis Hlast : forall e v s s2 o, S e = n -> nth_error xs e = Some v -> Inv e s ->
    cb2 s (sf2 e, e, v) = Ok (s2, o) -> exists s1, cb1 s (sf1 e, e, v) = Ok (s1, o).

  Let A1 := mapi (fun i v => (sf1 i, i, v)) (firstn k xs).
  Let A2 := mapi (fun i v => (sf2 i, i, v)) xs.
  Variable out : list O.
  Hypothesis Hrun : run (lift_cb cb2) (Ok s0) A2 = map Ok out.

  Lemma rp_out_len : length out = length xs.
  Proof.
    pose proof (f_equal (@length _) Hrun) as H. rewrite run_length, map_length in H. unfold A2 in H.
    rewrite mapi_length in H. symmetry. exact H.
  Qed.

  Lemma rp_A1_nth e v : e < n -> nth_error xs e = Some v -> nth_error A1 e = Some (sf1 e, e, v).
  Proof.
    intros He Hv. unfold A1. rewrite nth_error_mapi, nth_error_firstn.
    replace (e <? k) with true by (symmetry; apply Nat.ltb_lt; unfold n in He; lia). rewrite Hv. reflexivity.
  Qed.
  Lemma rp_A2_nth e v : nth_error xs e = Some v -> nth_error A2 e = Some (sf2 e, e, v).
  Proof. intros Hv. unfold A2. rewrite nth_error_mapi, Hv. reflexivity. Qed.

  (* the whole run succeeded at position e and produced out[e] *)
  Lemma rp_whole_step e v s :
    nth_error xs e = Some v -> state_after (lift_cb cb2) (Ok s0) (firstn e A2) = Ok s ->
    exists s' o, cb2 s (sf2 e, e, v) = Ok (s', o) /\ nth_error out e = Some o.
  Proof.
    intros Hv Hs.
    pose proof (run_nth (lift_cb cb2) (Ok s0) A2 e (rp_A2_nth e v Hv)) as H.
    rewrite Hrun, Hs, nth_error_map in H.
    destruct (nth_error out e) as [o|] eqn:Eo; [|discriminate]. cbn [option_map] in H.
    injection H as H. symmetry in H. destruct (lift_out_Ok cb2 s _ o H) as [s' Hs']. eauto.
  Qed.

  Lemma rp_steps : forall e, e < n -> exists s,
      state_after (lift_cb cb2) (Ok s0) (firstn e A2) = Ok s /\
      state_after (lift_cb cb1) (Ok s0) (firstn e A1) = Ok s /\ Inv e s /\
      run (lift_cb cb1) (Ok s0) (firstn e A1) = map Ok (firstn e out).
  Proof.
    induction e as [|e IH]; intros He.
    - exists s0. repeat split; try reflexivity. exact Inv0.
    - destruct IH as (s & H2 & H1 & HI & HR); [lia|].
      destruct (nth_error_Some_lt xs e) as [v Hv]; [unfold n in He; lia|].
      destruct (rp_whole_step e v s Hv H2) as (s' & o & Hcb & Ho).
      destruct (Hinner e v s He Hv HI) as (Esf & Ecb & HI').
      pose proof (rp_A1_nth e v ltac:(lia) Hv) as Ha1. rewrite Esf in Ha1.
      pose proof (rp_A2_nth e v Hv) as Ha2.
      exists s'. rewrite (firstn_S_nth _ _ _ Ha1), (firstn_S_nth _ _ _ Ha2), (firstn_S_nth _ _ _ Ho).
      rewrite !state_after_app, run_app, H1, H2, HR, map_app.
      cbn [state_after run lift_cb fst map]. rewrite Ecb, Hcb. cbn [fst].
      repeat split; try reflexivity. apply (HI' s' o). exact Hcb.
  Qed.

  Theorem run_prefix_gen : run (lift_cb cb1) (Ok s0) A1 = map Ok (firstn k out).
  Proof.
    pose proof rp_out_len as HL.
    destruct (Nat.eq_dec n 0) as [En|Hn0].
    - unfold n in En. assert (E : firstn k xs = [] /\ firstn k out = []).
      { destruct k as [|k']; [split; reflexivity|]. destruct xs as [|x xs']; [|cbn in En; lia].
        destruct out; [split; reflexivity|discriminate]. }
      destruct E as [E1 E2]. unfold A1. rewrite E1, E2. reflexivity.
    - assert (En : n = S (n - 1)) by lia. set (m := n - 1) in *.
      destruct (rp_steps m) as (s & H2 & H1 & HI & HR); [lia|].
      destruct (nth_error_Some_lt xs m) as [v Hv]; [unfold n in En; lia|].
      destruct (rp_whole_step m v s Hv H2) as (s' & o & Hcb & Ho).
      destruct (Hlast m v s s' o (eq_sym En) Hv HI Hcb) as (s1 & Hcb1).
      pose proof (rp_A1_nth m v ltac:(lia) Hv) as Ha1.
      assert (EA : firstn (S m) A1 = A1).
      { apply firstn_all2. unfold A1. rewrite mapi_length, firstn_length. unfold n in En. lia. }
      assert (EO : firstn (S m) out = firstn k out).
      { unfold n in En. destruct (Nat.le_gt_cases k (length xs)) as [Hk|Hk].
        - replace k with (S m) by lia. reflexivity.
        - rewrite !firstn_all2 by lia. reflexivity. }
      rewrite <- EA, <- EO, (firstn_S_nth _ _ _ Ha1), (firstn_S_nth _ _ _ Ho).
      rewrite run_app, H1, HR, map_app. cbn [run lift_cb map]. rewrite Hcb1. reflexivity.
  Qed.
End RunPrefix.

(* both driver bodies, two callbacks and two driver windows (the cmp family clamps its window to the length, so
   the prefix run and the whole run may be driven with different windows and different callback parameters) *)
Theorem idx_run_prefix_gen {T St O} (cb1 cb2 : St -> option nat * nat * T -> res (St * O))
        (xs : list T) (k : nat) (body : bool) (w1 w2 : nat) (Inv : nat -> St -> Prop) (s0 : St) (out : list O) :
  1 <= w1 -> 1 <= w2 ->
  let n := Nat.min k (length xs) in
  let sf1 := start_of (eff_window body w1 n) in
  let sf2 := start_of (eff_window body w2 (length xs)) in
  Inv 0 s0 ->
  (forall e v s, S e < n -> nth_error xs e = Some v -> Inv e s ->
     sf1 e = sf2 e /\ cb1 s (sf2 e, e, v) = cb2 s (sf2 e, e, v) /\
     (forall s' o, cb2 s (sf2 e, e, v) = Ok (s', o) -> Inv (S e) s')) ->
  (forall e v s s2 o, S e = n -> nth_error xs e = Some v -> Inv e s ->
     cb2 s (sf2 e, e, v) = Ok (s2, o) -> exists s1, cb1 s (sf1 e, e, v) = Ok (s1, o)) ->
  idx_run body w2 cb2 s0 xs = Done out -> idx_run body w1 cb1 s0 (firstn k xs) = Done (firstn k out).
Proof.
  intros Hw1 Hw2 n sf1 sf2 H0 Hin Hl Hrun.
  apply idx_run_Done_iff in Hrun; [|exact Hw2]. apply idx_run_Done_iff; [exact Hw1|].
  unfold idx_args in *. rewrite firstn_length. fold n. fold sf1. fold sf2 in Hrun.
  exact (run_prefix_gen cb1 cb2 xs k sf1 sf2 Inv s0 H0 Hin Hl out Hrun).
Qed.

(* the start indices of a prefix run and of the whole run: equal everywhere when the driver window fits into the
   prefix (or the cut is not a proper one); otherwise ("warm-up cut") every position of the prefix has start None
   in the whole run, and so has the prefix run except at its last position, where the start is Some 0 *)
Lemma start_of_fit W n len e : W <= n -> n <= len -> start_of (Nat.min W n) e = start_of (Nat.min W len) e.
Proof. intros H1 H2. rewrite !Nat.min_l by lia. reflexivity. Qed.

Lemma start_of_none W e : S e < W -> start_of W e = None.
Proof. intros H. unfold start_of. replace (e <? W - 1) with true by (symmetry; apply Nat.ltb_lt; lia). reflexivity. Qed.
Lemma start_of_last n : 1 <= n -> start_of n (n - 1) = Some 0.
Proof.
  intros H. unfold start_of. replace (n - 1 <? n - 1) with false by (symmetry; apply Nat.ltb_ge; lia).
  rewrite Nat.sub_diag. reflexivity.
Qed.

(* what a start index handed over by a driver satisfies *)
Definition start_le (st : option nat) (e : nat) : Prop := match st with Some j => j <= e | None => True end.
Lemma start_of_le W e : start_le (start_of W e) e.
Proof. unfold start_of, start_le. destruct (e <? W - 1); [exact I|lia]. Qed.

(* ---- the rule in the shape the families need ---------------------------------------------------------- *)
(* c1 / c2: the callback of the prefix run / of the whole run as functions of the series they may read.
   Either the two runs are driven alike (window fits into the prefix) and the callbacks agree, or the cut is a
   warm-up cut, where an invariant of the warm-up states must give the agreement of the OUTPUT of the last call
   (start Some 0 in the prefix run, None in the whole run). *)
Theorem family_prefix {T St O} (c1 c2 : list T -> St -> option nat * nat * T -> res (St * O))
        (xs : list T) (k : nat) (body : bool) (w1 w2 : nat) (Inv : nat -> St -> Prop) (s0 : St) (out : list O) :
  1 <= w1 -> 1 <= w2 ->
  let n := Nat.min k (length xs) in
  let W1 := eff_window body w1 n in
  let W2 := eff_window body w2 (length xs) in
  (forall s st e v, e < k -> start_le st e -> c1 (firstn k xs) s (st, e, v) = c1 xs s (st, e, v)) ->
  ((W1 = W2 /\ forall s st e v, e < n -> c1 xs s (st, e, v) = c2 xs s (st, e, v))
   \/
   (W1 = n /\ n < W2 /\ Inv 0 s0 /\
    (forall e v s, S e < n -> nth_error xs e = Some v -> Inv e s ->
       c1 xs s (None, e, v) = c2 xs s (None, e, v) /\
       (forall s' o, c2 xs s (None, e, v) = Ok (s', o) -> Inv (S e) s')) /\
    (forall e v s s2 o, S e = n -> nth_error xs e = Some v -> Inv e s ->
       c2 xs s (None, e, v) = Ok (s2, o) -> exists s1, c1 xs s (Some 0, e, v) = Ok (s1, o)))) ->
  idx_run body w2 (c2 xs) s0 xs = Done out ->
  idx_run body w1 (c1 (firstn k xs)) s0 (firstn k xs) = Done (firstn k out).
Proof.
  intros Hw1 Hw2 n W1 W2 Hloc Hcase Hrun.
  assert (Hnk : n <= k) by (unfold n; lia).
  destruct Hcase as [[EW Hag]|(EW & HW2 & H0 & Hin & Hl)].
  - apply (idx_run_prefix_gen (c1 (firstn k xs)) (c2 xs) xs k body w1 w2 (fun _ _ => True) s0 out Hw1 Hw2);
      [exact I| | |exact Hrun]; fold n; fold W1; fold W2; rewrite EW.
    + intros e v s He Hv _. split; [reflexivity|]. split; [|intros; exact I].
      rewrite Hloc by (try apply start_of_le; lia). apply Hag. lia.
    + intros e v s s2 o He Hv _ Hc. exists s2.
      rewrite Hloc by (try apply start_of_le; lia). rewrite Hag by lia. exact Hc.
  - apply (idx_run_prefix_gen (c1 (firstn k xs)) (c2 xs) xs k body w1 w2 Inv s0 out Hw1 Hw2);
      [exact H0| | |exact Hrun]; fold n; fold W1; fold W2; rewrite EW.
    + intros e v s He Hv HI. rewrite !start_of_none by lia. split; [reflexivity|].
      rewrite Hloc by (try exact I; lia). apply Hin; assumption.
    + intros e v s s2 o He Hv HI. rewrite (start_of_none W2) by lia.
      assert (E1 : start_of n e = Some 0) by (replace e with (n - 1) by lia; apply start_of_last; lia).
      rewrite E1. intros Hc.
      rewrite Hloc by (cbn [start_le]; lia). apply (Hl e v s s2 o He Hv HI Hc).
Qed.

(* ---- reads through uget at positions below the cut ---------------------------------------------------- *)
Lemma uget_firstn {T} (xs : list T) k i : i < k -> uget (firstn k xs) i = uget xs i.
Proof.
  intros H. unfold uget. rewrite nth_error_firstn.
  replace (i <? k) with true by (symmetry; apply Nat.ltb_lt; exact H). reflexivity.
Qed.

Lemma opt_lt_none a : opt_lt a None = false.
Proof. destruct a; reflexivity. Qed.

Section CmpLocal.
  Context {A : Type} {NA : Num A} {T : Type} {DT : IsNone T A}.
  Variable scmp : option A -> option A -> comparison.
  Variable xs : list T.
  Variable k : nat.

  Lemma rescan_firstn : forall cnt i m mi, i + cnt <= k ->
    rescan scmp (firstn k xs) i cnt m mi = rescan scmp xs i cnt m mi.
  Proof.
    induction cnt as [|c IH]; intros i m mi H; [reflexivity|]. cbn [rescan].
    rewrite uget_firstn by lia. destruct (uget xs i) as [v|pk]; [|reflexivity]. cbn [bind].
    destruct (takes (scmp (to_opt v) m)); apply IH; lia.
  Qed.

  Lemma ext_step_firstn s st e v : e < k -> start_le st e ->
    ext_step scmp (firstn k xs) s st e v = ext_step scmp xs s st e v.
  Proof.
    intros He Hs. destruct st as [j|]; [|reflexivity]. cbn [start_le] in Hs.
    unfold ext_step. cbv zeta. rewrite uget_firstn by lia.
    destruct (opt_lt _ _); [|reflexivity]. destruct (uget xs j) as [v0|pk]; [|reflexivity]. cbn [bind].
    rewrite rescan_firstn by lia. reflexivity.
  Qed.

  Lemma ext_post_firstn s st e : e < k -> start_le st e ->
    ext_post (firstn k xs) s st = ext_post xs s st.
  Proof.
    intros He Hs. destruct st as [j|]; [|reflexivity]. cbn [start_le] in Hs.
    unfold ext_post. rewrite uget_firstn by lia. reflexivity.
  Qed.

  Lemma vext_cb_firstn mp s st e v : e < k -> start_le st e ->
    vext_cb scmp mp (firstn k xs) s (st, e, v) = vext_cb scmp mp xs s (st, e, v).
  Proof.
    intros He Hs. unfold vext_cb. rewrite ext_step_firstn by assumption.
    destruct (ext_step scmp xs s st e v) as [s1|pk]; [|reflexivity]. cbn [bind].
    rewrite (ext_post_firstn s1 st e) by assumption. reflexivity.
  Qed.

  Lemma varg_cb_firstn mp s st e v : e < k -> start_le st e ->
    varg_cb scmp mp (firstn k xs) s (st, e, v) = varg_cb scmp mp xs s (st, e, v).
  Proof.
    intros He Hs. unfold varg_cb. rewrite ext_step_firstn by assumption.
    destruct (ext_step scmp xs s st e v) as [s1|pk]; [|reflexivity]. cbn [bind].
    rewrite (ext_post_firstn s1 st e) by assumption. reflexivity.
  Qed.
End CmpLocal.

Section RankLocal.
  Context {A : Type} {NA : Num A} {T : Type} {DT : IsNone T A} {B : Type} {NB : Num B}.
  Variable xs : list T.
  Variable k : nat.

  Lemma rank_loop_firstn x : forall cnt i (rank : B) nrep, i + cnt <= k ->
    rank_loop (firstn k xs) x i cnt rank nrep = rank_loop xs x i cnt rank nrep.
  Proof.
    induction cnt as [|c IH]; intros i rank nrep H; [reflexivity|]. cbn [rank_loop].
    rewrite uget_firstn by lia. destruct (uget xs i) as [a|pk]; [|reflexivity]. cbn [bind].
    destruct (not_none a); [|apply IH; lia].
    destruct (nltb (unwrap a) x); [apply IH; lia|]. destruct (neqb (unwrap a) x); apply IH; lia.
  Qed.

  Lemma vrank_cb_firstn mp wm1 pct rev (s : nat) st e v : e < k -> start_le st e ->
    vrank_cb (B := B) mp wm1 pct rev (firstn k xs) s (st, e, v) = vrank_cb mp wm1 pct rev xs s (st, e, v).
  Proof.
    intros He Hs. unfold vrank_cb.
    rewrite rank_loop_firstn by (destruct st; cbn [start_le] in Hs; lia).
    destruct st as [j|]; [|reflexivity]. cbn [start_le] in Hs. rewrite uget_firstn by lia. reflexivity.
  Qed.
End RankLocal.

Section NormLocal.
  Context {A : Type} {NA : Num A} {T : Type} {DT : IsNone T A}.
  Variables tmin tmax : A.
  Variable xs : list T.
  Variable k : nat.

  Lemma scan_max_firstn : forall cnt i mx mxi, i + cnt <= k ->
    scan_max (firstn k xs) i cnt mx mxi = scan_max xs i cnt mx mxi.
  Proof.
    induction cnt as [|c IH]; intros i mx mxi H; [reflexivity|]. cbn [scan_max].
    rewrite uget_firstn by lia. destruct (uget xs i) as [a|pk]; [|reflexivity]. cbn [bind].
    destruct (not_none a); [|apply IH; lia]. destruct (nleb mx (unwrap a)); apply IH; lia.
  Qed.
  Lemma scan_min_firstn : forall cnt i mn mni, i + cnt <= k ->
    scan_min (firstn k xs) i cnt mn mni = scan_min xs i cnt mn mni.
  Proof.
    induction cnt as [|c IH]; intros i mn mni H; [reflexivity|]. cbn [scan_min].
    rewrite uget_firstn by lia. destruct (uget xs i) as [a|pk]; [|reflexivity]. cbn [bind].
    destruct (not_none a); [|apply IH; lia]. destruct (nleb (unwrap a) mn); apply IH; lia.
  Qed.
  Lemma scan_both_firstn : forall cnt i mx mxi mn mni, i + cnt <= k ->
    scan_both (firstn k xs) i cnt mx mxi mn mni = scan_both xs i cnt mx mxi mn mni.
  Proof.
    induction cnt as [|c IH]; intros i mx mxi mn mni H; [reflexivity|]. cbn [scan_both].
    rewrite uget_firstn by lia. destruct (uget xs i) as [a|pk]; [|reflexivity]. cbn [bind].
    destruct (not_none a); [|apply IH; lia].
    destruct (nleb mx (unwrap a)), (nleb (unwrap a) mn); apply IH; lia.
  Qed.

  Lemma mm_research_firstn s st e : e < k -> start_le st e ->
    mm_research tmin tmax (firstn k xs) s st e = mm_research tmin tmax xs s st e.
  Proof.
    intros He Hs. destruct st as [j|]; [|reflexivity]. cbn [start_le] in Hs. unfold mm_research.
    rewrite scan_max_firstn, scan_min_firstn, scan_both_firstn by lia. reflexivity.
  Qed.

  Lemma mmnorm_cb_firstn mp s st e v : e < k -> start_le st e ->
    mmnorm_cb tmin tmax mp (firstn k xs) s (st, e, v) = mmnorm_cb tmin tmax mp xs s (st, e, v).
  Proof.
    intros He Hs. unfold mmnorm_cb. rewrite mm_research_firstn by assumption.
    destruct st as [j|]; [|reflexivity]. cbn [start_le] in Hs. rewrite uget_firstn by lia. reflexivity.
  Qed.
End NormLocal.

(* ---- warm-up cuts: the states reached while every start index was None -------------------------------- *)
(* `cnt_ok xs m`: the counter m is at least 1 when the first element of the series is non-null — what the
   post step of a call with start = Some 0 needs (n -= 1 on usize) *)
Definition cnt_ok {T A} {DT : IsNone T A} (xs : list T) (m : nat) : Prop :=
  forall v0, nth_error xs 0 = Some v0 -> not_none v0 = true -> 1 <= m.

Lemma uget_0_ok {T} (xs : list T) e v : nth_error xs e = Some v -> exists v0, nth_error xs 0 = Some v0.
Proof. intros H. destruct xs as [|x xs']; [destruct e; discriminate|]. exists x. reflexivity. Qed.

Section ExtWarm.
  Context {A : Type} {NA : Num A} {T : Type} {DT : IsNone T A}.
  Variable scmp : option A -> option A -> comparison.
  Hypothesis scmp_nn : takes (scmp None None) = true.
  Variable xs : list T.

  Definition inv_ext (e : nat) (s : @ext A) : Prop :=
    (e = 0 -> s = ext0) /\ (1 <= e -> x_idx s <> None /\ cnt_ok xs (x_n s)).

  (* the closure's first statements: count the new element, adopt it when nothing is cached *)
  Definition bump (s : @ext A) (e : nat) (v : T) : @ext A :=
    match to_opt v with
    | Some _ => match x_idx s with
                | None => {| x_val := to_opt v; x_idx := Some e; x_n := S (x_n s) |}
                | Some _ => {| x_val := x_val s; x_idx := x_idx s; x_n := S (x_n s) |}
                end
    | None => s
    end.
  Definition step_none (s : @ext A) (e : nat) (v : T) : @ext A :=
    if takes (scmp (to_opt v) (x_val (bump s e v)))
    then {| x_val := to_opt v; x_idx := Some e; x_n := x_n (bump s e v) |} else bump s e v.

  Lemma ext_step_none s e v : ext_step scmp xs s None e v = Ok (step_none s e v).
  Proof.
    unfold ext_step, step_none, bump. cbv zeta. rewrite opt_lt_none. match goal with |- context [takes ?c] => destruct (takes c) end; reflexivity.
  Qed.

  Lemma ext_step_some0 s e v : inv_ext e s -> nth_error xs e = Some v ->
    ext_step scmp xs s (Some 0) e v = Ok (step_none s e v).
  Proof.
    intros [I0 I1] Hv. unfold ext_step, step_none, bump. cbv zeta.
    destruct (to_opt v) as [a|] eqn:Ev.
    - destruct (x_idx s) as [j|] eqn:Ej; cbn [x_idx x_val x_n opt_lt].
      + replace (j <? 0) with false by (symmetry; apply Nat.ltb_ge; lia). match goal with |- context [takes ?c] => destruct (takes c) end; reflexivity.
      + replace (e <? 0) with false by (symmetry; apply Nat.ltb_ge; lia). match goal with |- context [takes ?c] => destruct (takes c) end; reflexivity.
    - destruct (x_idx s) as [j|] eqn:Ej; cbn [opt_lt].
      + replace (j <? 0) with false by (symmetry; apply Nat.ltb_ge; lia). match goal with |- context [takes ?c] => destruct (takes c) end; reflexivity.
      + destruct e as [|e]; [|exfalso; destruct (I1 ltac:(lia)) as [H _]; apply H; reflexivity].
        rewrite (I0 eq_refl) in *. cbn [x_val x_idx x_n ext0 Nat.sub rescan]. unfold uget. rewrite Hv. cbn [bind].
        rewrite Ev, scmp_nn. reflexivity.
  Qed.

  Lemma bump_n s e v : x_n s <= x_n (bump s e v) /\ (not_none v = true -> 1 <= x_n (bump s e v)).
  Proof.
    unfold bump, to_opt, not_none. destruct (is_none v); cbn [negb].
    - split; [lia|discriminate].
    - destruct (x_idx s); cbn [x_n]; split; lia.
  Qed.
  Lemma step_none_n s e v : x_n (step_none s e v) = x_n (bump s e v).
  Proof. unfold step_none. match goal with |- context [takes ?c] => destruct (takes c) end; reflexivity. Qed.

  Lemma inv_ext_step s e v : inv_ext e s -> nth_error xs e = Some v -> inv_ext (S e) (step_none s e v).
  Proof.
    intros [I0 I1] Hv. split; [discriminate|]. intros _. split.
    - unfold step_none. match goal with |- context [takes ?c] => destruct (takes c) eqn:Et end; [discriminate|]. unfold bump in *.
      destruct (to_opt v) as [a|] eqn:Ev.
      + destruct (x_idx s) eqn:Ej; cbn [x_idx]; discriminate.
      + destruct e as [|e]; [|apply I1; lia].
        rewrite (I0 eq_refl) in Et. cbn [x_val ext0] in Et. rewrite scmp_nn in Et. discriminate.
    - rewrite step_none_n. intros v0 H0 Hn0. destruct (bump_n s e v) as [B1 B2].
      destruct e as [|e].
      + rewrite Hv in H0. injection H0 as <-. apply B2. exact Hn0.
      + destruct (I1 ltac:(lia)) as [_ Hc]. specialize (Hc v0 H0 Hn0). lia.
  Qed.

  Lemma ext_post_some0 (s1 : @ext A) e v : nth_error xs e = Some v -> cnt_ok xs (x_n s1) ->
    exists s', ext_post xs s1 (Some 0) = Ok s'.
  Proof.
    intros Hv Hc. destruct (uget_0_ok xs e v Hv) as [v0 H0]. unfold ext_post, uget. rewrite H0. cbn [bind].
    destruct (not_none v0) eqn:En; [|eauto]. specialize (Hc v0 H0 En). unfold usub.
    replace (1 <=? x_n s1) with true by (symmetry; apply Nat.leb_le; exact Hc). cbn [bind]. eauto.
  Qed.

  (* what family_prefix asks for in a warm-up cut *)
  Lemma vext_warm_inner mp e v s : nth_error xs e = Some v -> inv_ext e s ->
    forall s' o, vext_cb scmp mp xs s (None, e, v) = Ok (s', o) -> inv_ext (S e) s'.
  Proof.
    intros Hv HI s' o H. unfold vext_cb in H. rewrite ext_step_none in H. cbn [bind ext_post] in H.
    injection H as <- _. apply inv_ext_step; assumption.
  Qed.
  Lemma vext_warm_last mp e v s s2 o : nth_error xs e = Some v -> inv_ext e s ->
    vext_cb scmp mp xs s (None, e, v) = Ok (s2, o) -> exists s1, vext_cb scmp mp xs s (Some 0, e, v) = Ok (s1, o).
  Proof.
    intros Hv HI H. unfold vext_cb in *. rewrite ext_step_none in H. rewrite (ext_step_some0 s e v HI Hv).
    cbn [bind ext_post] in H. cbn [bind]. injection H as _ <-.
    destruct (ext_post_some0 (step_none s e v) e v Hv) as [s' Hs'].
    { destruct (inv_ext_step s e v HI Hv) as [_ H1]. apply H1. lia. }
    rewrite Hs'. cbn [bind]. eauto.
  Qed.

  Lemma varg_warm_inner mp e v s : nth_error xs e = Some v -> inv_ext e s ->
    forall s' o, varg_cb scmp mp xs s (None, e, v) = Ok (s', o) -> inv_ext (S e) s'.
  Proof.
    intros Hv HI s' o H. unfold varg_cb in H. rewrite ext_step_none in H. cbn [bind ext_post] in H.
    destruct (_ : res (option nat)) as [oo|pk] in H; [|discriminate]. cbn [bind] in H.
    injection H as <- _. apply inv_ext_step; assumption.
  Qed.
  Lemma varg_warm_last mp e v s s2 o : nth_error xs e = Some v -> inv_ext e s ->
    varg_cb scmp mp xs s (None, e, v) = Ok (s2, o) -> exists s1, varg_cb scmp mp xs s (Some 0, e, v) = Ok (s1, o).
  Proof.
    intros Hv HI H. unfold varg_cb in *. rewrite ext_step_none in H. rewrite (ext_step_some0 s e v HI Hv).
    cbn [bind ext_post] in H. cbn [bind].
    destruct (_ : res (option nat)) as [oo|pk] in H |- *; [|discriminate]. cbn [bind] in *.
    injection H as _ <-.
    destruct (ext_post_some0 (step_none s e v) e v Hv) as [s' Hs'].
    { destruct (inv_ext_step s e v HI Hv) as [_ H1]. apply H1. lia. }
    rewrite Hs'. cbn [bind]. eauto.
  Qed.

  Lemma inv_ext_0 : inv_ext 0 ext0.
  Proof. split; [reflexivity|lia]. Qed.
End ExtWarm.

Section RankWarm.
  Context {A : Type} {NA : Num A} {T : Type} {DT : IsNone T A} {B : Type} {NB : Num B}.
  Variable xs : list T.

  Definition inv_cnt (e : nat) (m : nat) : Prop := 1 <= e -> cnt_ok xs m.

  (* the part of the closure before the removal: (new count, output) *)
  Definition rank_head (mp : nat) (pct rev : bool) (m : nat) (st : option nat) (e : nat) (v : T) : res (nat * B) :=
    do r <- (if not_none v then
               let from := match st with Some j => j | None => 0 end in
               do rr <- rank_loop xs (unwrap v) from (e - from) none 1;
               Ok (S m, fst rr, snd rr)
             else Ok (m, nnan, 1));
    let '(n1, rank, nrep) := r in Ok (n1, rank_out mp pct rev n1 rank nrep).

  Lemma vrank_cb_head mp wm1 pct rev m st e v :
    vrank_cb mp wm1 pct rev xs m (st, e, v) =
    do h <- rank_head mp pct rev m st e v;
    do n2 <- (if wm1 <=? e then
                match st with
                | None => Panic UnwrapNone
                | Some j => do v0 <- uget xs j; if not_none v0 then usub (fst h) 1 else Ok (fst h)
                end
              else Ok (fst h));
    Ok (n2, snd h).
  Proof.
    unfold vrank_cb, rank_head.
    destruct (not_none v); cbn [bind].
    - destruct (rank_loop _ _ _ _ _ _) as [rr|pk]; reflexivity.
    - reflexivity.
  Qed.

  Lemma rank_head_start mp pct rev m e v :
    rank_head mp pct rev m (Some 0) e v = rank_head mp pct rev m None e v.
  Proof. reflexivity. Qed.

  Lemma rank_head_n mp pct rev m st e v h :
    rank_head mp pct rev m st e v = Ok h -> m <= fst h /\ (not_none v = true -> 1 <= fst h).
  Proof.
    unfold rank_head. destruct (not_none v); cbn [bind].
    - destruct (rank_loop _ _ _ _ _ _) as [rr|pk]; cbn [bind]; [|discriminate].
      intros H. injection H as <-. cbn [fst]. split; lia.
    - intros H. injection H as <-. cbn [fst]. split; [lia|discriminate].
  Qed.

  Lemma inv_cnt_step mp pct rev m e v h : inv_cnt e m -> nth_error xs e = Some v ->
    rank_head mp pct rev m None e v = Ok h -> inv_cnt (S e) (fst h).
  Proof.
    intros HI Hv Hh _ v0 H0 Hn0. destruct (rank_head_n _ _ _ _ _ _ _ _ Hh) as [B1 B2].
    destruct e as [|e].
    - rewrite Hv in H0. injection H0 as <-. apply B2. exact Hn0.
    - specialize (HI ltac:(lia) v0 H0 Hn0). lia.
  Qed.

  (* inner positions of a warm-up cut: e is below both thresholds, so neither run removes anything *)
  Lemma vrank_warm_inner mp wa wb pct rev e v m : S e <= wa -> S e <= wb ->
    nth_error xs e = Some v -> inv_cnt e m ->
    vrank_cb (B := B) mp wa pct rev xs m (None, e, v) = vrank_cb mp wb pct rev xs m (None, e, v) /\
    forall s' o, vrank_cb (B := B) mp wb pct rev xs m (None, e, v) = Ok (s', o) -> inv_cnt (S e) s'.
  Proof.
    intros Ha Hb Hv HI. rewrite !vrank_cb_head.
    replace (wa <=? e) with false by (symmetry; apply Nat.leb_gt; lia).
    replace (wb <=? e) with false by (symmetry; apply Nat.leb_gt; lia).
    split; [reflexivity|]. intros s' o H.
    destruct (rank_head mp pct rev m None e v) as [h|pk] eqn:Eh; [|discriminate]. cbn [bind] in H.
    injection H as <- _. apply (inv_cnt_step mp pct rev m e v h HI Hv Eh).
  Qed.

  Lemma vrank_warm_last mp wb pct rev e v m s2 o : S e <= wb ->
    nth_error xs e = Some v -> inv_cnt e m ->
    vrank_cb (B := B) mp wb pct rev xs m (None, e, v) = Ok (s2, o) ->
    exists s1, vrank_cb (B := B) mp e pct rev xs m (Some 0, e, v) = Ok (s1, o).
  Proof.
    intros Hb Hv HI H. rewrite vrank_cb_head in *. rewrite rank_head_start.
    replace (wb <=? e) with false in H by (symmetry; apply Nat.leb_gt; lia).
    rewrite Nat.leb_refl.
    destruct (rank_head mp pct rev m None e v) as [h|pk] eqn:Eh; [|discriminate]. cbn [bind] in *.
    injection H as _ <-.
    destruct (uget_0_ok xs e v Hv) as [v0 H0]. unfold uget. rewrite H0. cbn [bind].
    destruct (not_none v0) eqn:En; [|cbn [bind]; eauto].
    pose proof (inv_cnt_step mp pct rev m e v h HI Hv Eh ltac:(lia) v0 H0 En) as Hc. unfold usub.
    replace (1 <=? fst h) with true by (symmetry; apply Nat.leb_le; exact Hc). cbn [bind]. eauto.
  Qed.

  Lemma inv_cnt_0 : inv_cnt 0 0.
  Proof. intros H. lia. Qed.
End RankWarm.

Section NormWarm.
  Context {A : Type} {NA : Num A} {T : Type} {DT : IsNone T A}.
  Variables tmin tmax : A.
  Variable xs : list T.
  Local Open Scope num_scope.

  Definition inv_mm (e : nat) (s : @mm A) : Prop := (1 <= e)%nat -> cnt_ok xs (mm_n s).

  (* the update by the current element and the output: no read of the series *)
  Definition mm_head (mp : nat) (s1 : @mm A) (e : nat) (v : T) : @mm A * A :=
    if not_none v then
      let x := unwrap v in
      let n := S (mm_n s1) in
      let '(mx, mxi) := if nleb (mm_max s1) x then (x, e) else (mm_max s1, mm_maxi s1) in
      let '(mn, mni) := if nleb x (mm_min s1) then (x, e) else (mm_min s1, mm_mini s1) in
      ({| mm_max := mx; mm_maxi := mxi; mm_min := mn; mm_mini := mni; mm_n := n |},
       if (mp <=? n)%nat && negb (neqb mx mn) then (x - mn) / (mx - mn) else nnan)
    else (s1, nnan).

  Lemma mm_head_n mp s1 e v : (mm_n s1 <= mm_n (fst (mm_head mp s1 e v)))%nat /\
                              (not_none v = true -> (1 <= mm_n (fst (mm_head mp s1 e v)))%nat).
  Proof.
    unfold mm_head. destruct (not_none v).
    - destruct (nleb (mm_max s1) (unwrap v)), (nleb (unwrap v) (mm_min s1)); cbn [fst mm_n]; split; lia.
    - cbn [fst]. split; [lia|discriminate].
  Qed.

  Lemma mmnorm_cb_none mp s e v :
    mmnorm_cb tmin tmax mp xs s (None, e, v) = Ok (mm_head mp s e v).
  Proof.
    unfold mmnorm_cb, mm_research, mm_head. cbn [bind].
    destruct (not_none v); [|reflexivity].
    destruct (nleb (mm_max s) (unwrap v)), (nleb (unwrap v) (mm_min s)); reflexivity.
  Qed.

  Lemma mm_research_some0 s e : mm_research tmin tmax xs s (Some 0) e = Ok s.
  Proof.
    unfold mm_research.
    replace (mm_maxi s <? 0)%nat with false by (symmetry; apply Nat.ltb_ge; lia).
    replace (mm_mini s <? 0)%nat with false by (symmetry; apply Nat.ltb_ge; lia). reflexivity.
  Qed.

  Lemma inv_mm_step mp s e v : inv_mm e s -> nth_error xs e = Some v -> inv_mm (S e) (fst (mm_head mp s e v)).
  Proof.
    intros HI Hv _ v0 H0 Hn0. destruct (mm_head_n mp s e v) as [B1 B2]. destruct e as [|e].
    - rewrite Hv in H0. injection H0 as <-. apply B2. exact Hn0.
    - specialize (HI ltac:(lia) v0 H0 Hn0). lia.
  Qed.

  Lemma mmnorm_warm_inner mp e v s : nth_error xs e = Some v -> inv_mm e s ->
    forall s' o, mmnorm_cb tmin tmax mp xs s (None, e, v) = Ok (s', o) -> inv_mm (S e) s'.
  Proof.
    intros Hv HI s' o H. rewrite mmnorm_cb_none in H. injection H as H.
    replace s' with (fst (mm_head mp s e v)) by (rewrite H; reflexivity). apply inv_mm_step; assumption.
  Qed.

  Lemma mmnorm_cb_some0 mp s e v :
    mmnorm_cb tmin tmax mp xs s (Some 0, e, v) =
    let h := mm_head mp s e v in
    do s3 <- (do v0 <- uget xs 0;
              if not_none v0 then
                do n' <- usub (mm_n (fst h)) 1;
                Ok {| mm_max := mm_max (fst h); mm_maxi := mm_maxi (fst h); mm_min := mm_min (fst h);
                      mm_mini := mm_mini (fst h); mm_n := n' |}
              else Ok (fst h));
    Ok (s3, snd h).
  Proof.
    unfold mmnorm_cb. rewrite mm_research_some0. unfold mm_head. cbn [bind].
    destruct (not_none v); [|reflexivity].
    destruct (nleb (mm_max s) (unwrap v)), (nleb (unwrap v) (mm_min s)); reflexivity.
  Qed.

  Lemma mmnorm_warm_last mp e v s s2 o : nth_error xs e = Some v -> inv_mm e s ->
    mmnorm_cb tmin tmax mp xs s (None, e, v) = Ok (s2, o) ->
    exists s1, mmnorm_cb tmin tmax mp xs s (Some 0, e, v) = Ok (s1, o).
  Proof.
    intros Hv HI H. rewrite mmnorm_cb_none in H. injection H as H.
    pose proof (inv_mm_step mp s e v HI Hv) as HI'.
    rewrite mmnorm_cb_some0. cbv zeta. rewrite H in *. cbn [fst snd] in *.
    destruct (uget_0_ok xs e v Hv) as [v0 H0]. unfold uget. rewrite H0. cbn [bind].
    destruct (not_none v0) eqn:En; [|cbn [bind]; eauto].
    pose proof (HI' ltac:(lia) v0 H0 En) as Hc. unfold usub.
    replace (1 <=? mm_n s2)%nat with true by (symmetry; apply Nat.leb_le; exact Hc). cbn [bind]. eauto.
  Qed.

  Lemma inv_mm_0 : inv_mm 0 (mm0 tmin tmax).
  Proof. intros H. lia. Qed.
End NormWarm.

(* ---- the prefix law of the entry points, every carrier ------------------------------------------------ *)
Lemma firstn_out_nil {X O} (xs : list X) (out : list O) k :
  length out = length xs -> Nat.min k (length xs) = 0 -> firstn k xs = [] /\ firstn k out = [].
Proof.
  intros HL H0. destruct k as [|k']; [split; reflexivity|].
  destruct xs as [|x xs']; [|cbn in H0; lia]. destruct out; [split; reflexivity|discriminate].
Qed.

Ltac cmp_cases n w len :=
  destruct (Nat.le_gt_cases w n) as [Hfit|Hwarm];
  [|destruct (Nat.eq_dec n len) as [Hall|Hcut]].

Section CmpPrefix.
  Context {A : Type} {NA : Num A} {T : Type} {DT : IsNone T A}.
  Variable scmp : option A -> option A -> comparison.
  Hypothesis scmp_nn : takes (scmp None None) = true.

  Theorem ts_vext_prefix body w mp (xs : list T) k out :
    1 <= w -> cmp_dom w mp (Nat.min k (length xs)) -> cmp_dom w mp (length xs) ->
    ts_vext scmp body w mp xs = Done out -> ts_vext scmp body w mp (firstn k xs) = Done (firstn k out).
  Proof.
    intros Hw D1 D2 H. unfold ts_vext in *.
    rewrite (cmp_mp_const w mp xs D2) in H.
    rewrite (cmp_mp_const w mp (firstn k xs)) by (rewrite firstn_length; exact D1).
    unfold cmp_window in *. rewrite firstn_length. set (n := Nat.min k (length xs)) in *.
    set (m := cmp_mp mp w) in *.
    destruct (Nat.eq_dec n 0) as [En|En].
    - assert (HL : length out = length xs).
      { destruct xs as [|x xs']; [rewrite idx_run_nil_any in H; injection H as <-; reflexivity|].
        eapply idx_run_Done_length; [|exact H]. cbn [length]. lia. }
      destruct (firstn_out_nil xs out k HL En) as [E1 E2]. rewrite E1, E2. apply idx_run_nil_any.
    - assert (Hlen : n <= length xs) by (unfold n; lia).
      apply (family_prefix (vext_cb scmp m) (vext_cb scmp m) xs k body (Nat.min n w) (Nat.min (length xs) w)
                           (inv_ext xs) ext0 out); try lia; try exact H; fold n.
      + intros s st e v He Hs. apply vext_cb_firstn; assumption.
      + cmp_cases n w (length xs).
        * left. split; [unfold eff_window; destruct body; lia|reflexivity].
        * left. split; [rewrite Hall; reflexivity|reflexivity].
        * right. split; [unfold eff_window; destruct body; lia|].
          split; [unfold eff_window; destruct body; lia|]. split; [exact (inv_ext_0 scmp scmp_nn xs)|]. split.
          -- intros e v s He Hv HI. split; [reflexivity|]. apply (vext_warm_inner scmp scmp_nn xs m e v s Hv HI).
          -- intros e v s s2 o He Hv HI Hc. apply (vext_warm_last scmp scmp_nn xs m e v s s2 o Hv HI Hc).
  Qed.

  Theorem ts_varg_prefix body w mp (xs : list T) k out :
    1 <= w -> cmp_dom w mp (Nat.min k (length xs)) -> cmp_dom w mp (length xs) ->
    ts_varg scmp body w mp xs = Done out -> ts_varg scmp body w mp (firstn k xs) = Done (firstn k out).
  Proof.
    intros Hw D1 D2 H. unfold ts_varg in *.
    rewrite (cmp_mp_const w mp xs D2) in H.
    rewrite (cmp_mp_const w mp (firstn k xs)) by (rewrite firstn_length; exact D1).
    unfold cmp_window in *. rewrite firstn_length. set (n := Nat.min k (length xs)) in *.
    set (m := cmp_mp mp w) in *.
    destruct (Nat.eq_dec n 0) as [En|En].
    - assert (HL : length out = length xs).
      { destruct xs as [|x xs']; [rewrite idx_run_nil_any in H; injection H as <-; reflexivity|].
        eapply idx_run_Done_length; [|exact H]. cbn [length]. lia. }
      destruct (firstn_out_nil xs out k HL En) as [E1 E2]. rewrite E1, E2. apply idx_run_nil_any.
    - assert (Hlen : n <= length xs) by (unfold n; lia).
      apply (family_prefix (varg_cb scmp m) (varg_cb scmp m) xs k body (Nat.min n w) (Nat.min (length xs) w)
                           (inv_ext xs) ext0 out); try lia; try exact H; fold n.
      + intros s st e v He Hs. apply varg_cb_firstn; assumption.
      + cmp_cases n w (length xs).
        * left. split; [unfold eff_window; destruct body; lia|reflexivity].
        * left. split; [rewrite Hall; reflexivity|reflexivity].
        * right. split; [unfold eff_window; destruct body; lia|].
          split; [unfold eff_window; destruct body; lia|]. split; [exact (inv_ext_0 scmp scmp_nn xs)|]. split.
          -- intros e v s He Hv HI. split; [reflexivity|]. apply (varg_warm_inner scmp scmp_nn xs m e v s Hv HI).
          -- intros e v s s2 o He Hv HI Hc. apply (varg_warm_last scmp scmp_nn xs m e v s s2 o Hv HI Hc).
  Qed.
End CmpPrefix.

Section EntryPrefix.
  Context {A : Type} {NA : Num A} {T : Type} {DT : IsNone T A}.

  Theorem ts_vmin_prefix_any body w mp (xs : list T) k out :
    1 <= w -> cmp_dom w mp (Nat.min k (length xs)) -> cmp_dom w mp (length xs) ->
    ts_vmin body w mp xs = Done out -> ts_vmin body w mp (firstn k xs) = Done (firstn k out).
  Proof. apply ts_vext_prefix. reflexivity. Qed.
  Theorem ts_vmax_prefix_any body w mp (xs : list T) k out :
    1 <= w -> cmp_dom w mp (Nat.min k (length xs)) -> cmp_dom w mp (length xs) ->
    ts_vmax body w mp xs = Done out -> ts_vmax body w mp (firstn k xs) = Done (firstn k out).
  Proof. apply ts_vext_prefix. reflexivity. Qed.
  Theorem ts_vargmin_prefix_any body w mp (xs : list T) k out :
    1 <= w -> cmp_dom w mp (Nat.min k (length xs)) -> cmp_dom w mp (length xs) ->
    ts_vargmin body w mp xs = Done out -> ts_vargmin body w mp (firstn k xs) = Done (firstn k out).
  Proof. apply ts_varg_prefix. reflexivity. Qed.
  Theorem ts_vargmax_prefix_any body w mp (xs : list T) k out :
    1 <= w -> cmp_dom w mp (Nat.min k (length xs)) -> cmp_dom w mp (length xs) ->
    ts_vargmax body w mp xs = Done out -> ts_vargmax body w mp (firstn k xs) = Done (firstn k out).
  Proof. apply ts_varg_prefix. reflexivity. Qed.

  Theorem ts_vrank_prefix_any {B : Type} {NB : Num B} body w mp pct rev (xs : list T) k (out : list B) :
    1 <= w -> cmp_dom w mp (Nat.min k (length xs)) -> cmp_dom w mp (length xs) ->
    ts_vrank body w mp pct rev xs = Done out -> ts_vrank body w mp pct rev (firstn k xs) = Done (firstn k out).
  Proof.
    intros Hw D1 D2 H. unfold ts_vrank in *.
    rewrite (cmp_mp_const w mp xs D2) in H.
    rewrite (cmp_mp_const w mp (firstn k xs)) by (rewrite firstn_length; exact D1).
    unfold cmp_window in *. rewrite firstn_length. set (n := Nat.min k (length xs)) in *.
    set (m := cmp_mp mp w) in *.
    destruct (Nat.eq_dec n 0) as [En|En].
    - assert (HL : length out = length xs).
      { destruct xs as [|x xs']; [rewrite idx_run_nil_any in H; injection H as <-; reflexivity|].
        eapply idx_run_Done_length; [|exact H]. cbn [length]. lia. }
      destruct (firstn_out_nil xs out k HL En) as [E1 E2]. rewrite E1, E2. apply idx_run_nil_any.
    - assert (Hlen : n <= length xs) by (unfold n; lia).
      apply (family_prefix (vrank_cb m (Nat.min n w - 1) pct rev)
                           (vrank_cb m (Nat.min (length xs) w - 1) pct rev) xs k body
                           (Nat.min n w) (Nat.min (length xs) w) (inv_cnt xs) 0 out); try lia; try exact H; fold n.
      + intros s st e v He Hs. apply vrank_cb_firstn; assumption.
      + cmp_cases n w (length xs).
        * left. split; [unfold eff_window; destruct body; lia|].
          intros s st e v He. replace (Nat.min n w) with (Nat.min (length xs) w) by lia. reflexivity.
        * left. split; [rewrite Hall; reflexivity|]. intros s st e v He. rewrite Hall. reflexivity.
        * right. split; [unfold eff_window; destruct body; lia|].
          split; [unfold eff_window; destruct body; lia|]. split; [apply inv_cnt_0|]. split.
          -- intros e v s He Hv HI. apply vrank_warm_inner; try assumption; lia.
          -- intros e v s s2 o He Hv HI Hc. replace (Nat.min n w - 1) with e by lia.
             apply (vrank_warm_last xs m (Nat.min (length xs) w - 1) pct rev e v s s2 o); try assumption; lia.
  Qed.

  Theorem ts_vminmaxnorm_prefix_any (tmin tmax : A) body w mp (xs : list T) k out :
    1 <= w ->
    ts_vminmaxnorm tmin tmax body w mp xs = Done out ->
    ts_vminmaxnorm tmin tmax body w mp (firstn k xs) = Done (firstn k out).
  Proof.
    intros Hw H. unfold ts_vminmaxnorm in *. set (n := Nat.min k (length xs)). set (m := mp_eff mp w 0) in *.
    destruct (Nat.eq_dec n 0) as [En|En].
    - pose proof (idx_run_Done_length _ _ _ _ _ _ Hw H) as HL.
      destruct (firstn_out_nil xs out k HL En) as [E1 E2]. rewrite E1, E2. apply idx_run_nil_any.
    - assert (Hlen : n <= length xs) by (unfold n; lia).
      apply (family_prefix (mmnorm_cb tmin tmax m) (mmnorm_cb tmin tmax m) xs k body w w
                           (inv_mm xs) (mm0 tmin tmax) out); try lia; try exact H; fold n.
      + intros s st e v He Hs. apply mmnorm_cb_firstn; assumption.
      + destruct body; [|left; split; reflexivity]. cbn [eff_window].
        cmp_cases n w (length xs).
        * left. split; [lia|reflexivity].
        * left. split; [rewrite Hall; reflexivity|reflexivity].
        * right. split; [lia|]. split; [lia|]. split; [apply inv_mm_0|]. split.
          -- intros e v s He Hv HI. split; [reflexivity|]. apply (mmnorm_warm_inner tmin tmax xs m e v s Hv HI).
          -- intros e v s s2 o He Hv HI Hc. apply (mmnorm_warm_last tmin tmax xs m e v s s2 o Hv HI Hc).
  Qed.
End EntryPrefix.

(* ---- the residual statistics: a pure callback over the zipped series ---------------------------------- *)
Lemma run_lift_pure {St X O} (cb : St -> X -> St * O) args : forall s0,
  run (lift_cb (fun s a => Ok (cb s a))) (Ok s0) args = map Ok (run cb s0 args).
Proof.
  induction args as [|a r IH]; intros s0; [reflexivity|]. cbn [run lift_cb].
  destruct (cb s0 a) as [s' o]. cbn [map]. rewrite IH. reflexivity.
Qed.

Lemma idx_run_pure {T St O} body w (cb : St -> option nat * nat * T -> St * O) s0 (zs : list T) :
  1 <= w ->
  idx_run body w (fun s a => Ok (cb s a)) s0 zs
  = if body then rolling_apply_idx_to w cb s0 zs else rolling_apply_idx_default w cb s0 zs.
Proof.
  intros Hw. rewrite idx_run_unfold by exact Hw. rewrite run_lift_pure. cbn [seal]. rewrite collect_map_Ok.
  unfold idx_args. destruct body; cbn [eff_window].
  - rewrite rolling_apply_idx_to_eq by exact Hw. reflexivity.
  - rewrite rolling_apply_idx_default_eq by exact Hw. reflexivity.
Qed.

Section ResidPrefix.
  Context {A : Type} {NA : Num A} {T1 : Type} {D1 : IsNone T1 A} {T2 : Type} {D2 : IsNone T2 A}.

  Lemma resid_cb_firstn (k : rstat) mp (zs : list (T1 * T2)) n s st e v : e < n -> start_le st e ->
    resid_cb k mp (firstn n zs) s (st, e, v) = resid_cb k mp zs s (st, e, v).
  Proof.
    intros He Hs. unfold resid_cb, resid_post, resid_emit. rewrite seg_firstn by lia. f_equal.
    destruct st as [j|]; [|reflexivity]. cbn [start_le] in Hs. rewrite nth_error_firstn.
    replace (j <? n) with true by (symmetry; apply Nat.ltb_lt; lia). reflexivity.
  Qed.

  Lemma resid_as_idx_run (k : rstat) body w mp (xs : list T1) (ys : list T2) :
    1 <= w -> length xs <= length ys ->
    ts_vregx_resid k body w mp xs ys
    = idx_run body w (fun s a => Ok (resid_cb k (mp_eff mp w 0) (combine xs ys) s a)) csum0 (combine xs ys).
  Proof.
    intros Hw Hl. rewrite idx_run_pure by exact Hw.
    unfold ts_vregx_resid. cbv zeta. rewrite rolling2_apply_idx_default_pos by exact Hw. unfold rolling2_apply_idx_to.
    replace (length ys <? length xs) with false by (symmetry; apply Nat.ltb_ge; lia). reflexivity.
  Qed.

  Theorem resid_prefix_any (k : rstat) body w mp (xs : list T1) (ys : list T2) n :
    1 <= w -> length xs <= length ys ->
    out_of (ts_vregx_resid k body w mp (firstn n xs) (firstn n ys))
    = firstn n (out_of (ts_vregx_resid k body w mp xs ys)).
  Proof.
    intros Hw Hl.
    rewrite !resid_as_idx_run by (try exact Hw; rewrite ?firstn_length; lia).
    rewrite combine_firstn. set (zs := combine xs ys). set (m := mp_eff mp w 0).
    set (c := fun (l : list (T1 * T2)) s a => Ok (resid_cb k m l s a)).
    change (out_of (idx_run body w (c (firstn n zs)) csum0 (firstn n zs))
            = firstn n (out_of (idx_run body w (c zs) csum0 zs))).
    assert (Hwhole : exists out, idx_run body w (c zs) csum0 zs = Done out).
    { unfold c. rewrite idx_run_pure by exact Hw. destruct body.
      - rewrite rolling_apply_idx_to_eq by exact Hw. eauto.
      - rewrite rolling_apply_idx_default_eq by exact Hw. eauto. }
    destruct Hwhole as [out Hout]. rewrite Hout. cbn [out_of].
    set (n' := Nat.min n (length zs)).
    destruct (Nat.eq_dec n' 0) as [En|En].
    { pose proof (idx_run_Done_length _ _ _ _ _ _ Hw Hout) as HL.
      destruct (firstn_out_nil zs out n HL En) as [E1 E2]. rewrite E1, E2, idx_run_nil_any. reflexivity. }
    assert (Hlen : n' <= length zs) by (unfold n'; lia).
    rewrite (family_prefix c c zs n body w w (fun _ _ => True) csum0 out); try lia; try exact Hout;
      [reflexivity| |]; fold n'.
    - intros s st e v He Hs. unfold c. rewrite resid_cb_firstn by assumption. reflexivity.
    - destruct body; [|left; split; reflexivity]. cbn [eff_window].
      cmp_cases n' w (length zs).
      + left. split; [lia|reflexivity].
      + left. split; [rewrite Hall; reflexivity|reflexivity].
      + right. split; [lia|]. split; [lia|]. split; [exact I|]. split.
        * intros e v s He Hv _. split; [reflexivity|intros; exact I].
        * intros e v s s2 o He Hv _ Hc. unfold c, resid_cb in *. injection Hc as _ <-. eexists. reflexivity.
  Qed.
End ResidPrefix.
