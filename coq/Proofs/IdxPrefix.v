(* Proofs/IdxPrefix.v — C06: the BIT-FOR-BIT prefix law of the window-index drivers (rolling_apply_idx, both
   bodies; Model/Cmp.v : idx_run) for callbacks that re-read the series through `uget`, at EVERY carrier (no law
   of the numeric class is used, so the statements hold at Coq's binary64 `float`, whose evaluation the
   correspondence run compares with the Rust code).
   Generic rule (section RunPrefix / idx_run_prefix_gen): if
     - at every position e before the last one of the prefix both runs pass the same start index and the
       callback of the prefix run (which can only see xs[..k]) returns what the callback of the whole run returns
       ("reads the series only at positions <= e"), and
     - at the last position of the prefix — where the start index may differ: the two-phase body clamps the window
       to the length, and the cmp family clamps it itself — the prefix callback returns the same OUTPUT (its state
       is dropped),
   then   idx_run .. xs = Done out  ->  idx_run .. (firstn k xs) = Done (firstn k out).
   Instances: vext_cb (ts_vmin / ts_vmax), varg_cb (ts_vargmin / ts_vargmax), vrank_cb (ts_vrank), mmnorm_cb
   (ts_vminmaxnorm), resid_cb (ts_vregx_resid_{mean,std,skew}).  Stdlib only, axiom-free.                       *)
From Coq Require Import ZArith Lia List.
From Tevec Require Import Base.Prelude Base.Num Model.Driver Proofs.Driver Model.Features Model.Cmp
     Proofs.IdxRun Model.Norm Model.Binary Model.Reg Proofs.NoLookahead Proofs.NoLookahead2.
Import ListNotations.

(* ---- the sealed run -------------------------------------------------------------------------------- *)
Lemma collect_Ok_inv {O} (l : list (res O)) out : collect l = Ok out -> l = map Ok out.
Proof.
  revert out; induction l as [|[o|k] l IH]; intros out H; cbn in H.
  - injection H as <-. reflexivity.
  - destruct (collect l) as [l'|k]; [|discriminate]. injection H as <-. cbn. f_equal. apply IH. reflexivity.
  - discriminate.
Qed.

Definition idx_args {T} (body : bool) (w : nat) (xs : list T) : list (option nat * nat * T) :=
  mapi (fun i v => (start_of (eff_window body w (length xs)) i, i, v)) xs.

Lemma idx_run_unfold {T St O} body w (cb : St -> option nat * nat * T -> res (St * O)) s0 (xs : list T) :
  1 <= w -> idx_run body w cb s0 xs = seal (Done (run (lift_cb cb) (Ok s0) (idx_args body w xs))).
Proof.
  intros Hw. unfold idx_run, idx_args. destruct body; cbn [eff_window].
  - rewrite rolling_apply_idx_to_eq by exact Hw. reflexivity.
  - rewrite rolling_apply_idx_default_eq by exact Hw. reflexivity.
Qed.

Lemma idx_run_Done_iff {T St O} body w (cb : St -> option nat * nat * T -> res (St * O)) s0 (xs : list T) out :
  1 <= w ->
  (idx_run body w cb s0 xs = Done out <-> run (lift_cb cb) (Ok s0) (idx_args body w xs) = map Ok out).
Proof.
  intros Hw. rewrite idx_run_unfold by exact Hw. cbn [seal]. split.
  - destruct (collect (run (lift_cb cb) (Ok s0) (idx_args body w xs))) as [l'|pk] eqn:E; [|discriminate].
    intros H. injection H as <-. apply collect_Ok_inv. exact E.
  - intros ->. rewrite collect_map_Ok. reflexivity.
Qed.

Lemma idx_run_Done_length {T St O} body w (cb : St -> option nat * nat * T -> res (St * O)) s0 (xs : list T) out :
  1 <= w -> idx_run body w cb s0 xs = Done out -> length out = length xs.
Proof.
  intros Hw H. apply idx_run_Done_iff in H; [|exact Hw].
  apply (f_equal (@length _)) in H. rewrite run_length, map_length in H. unfold idx_args in H.
  rewrite mapi_length in H. symmetry. exact H.
Qed.

Lemma idx_run_nil_any {T St O} body w (cb : St -> option nat * nat * T -> res (St * O)) s0 :
  idx_run body w cb s0 [] = Done [].
Proof.
  unfold idx_run, rolling_apply_idx_to, rolling_apply_idx_default, bad_window. cbn [length Nat.eqb negb].
  rewrite Bool.andb_false_r. destruct body; [|reflexivity].
  unfold calls_to_idx. cbn [length]. rewrite Nat.min_0_r. reflexivity.
Qed.

Lemma lift_out_Ok {St X O} (cb : St -> X -> res (St * O)) s a o :
  snd (lift_cb cb (Ok s) a) = Ok o -> exists s', cb s a = Ok (s', o).
Proof.
  cbn. destruct (cb s a) as [[s' o']|pk]; cbn; intros H; [|discriminate].
  injection H as ->. exists s'. reflexivity.
Qed.

(* ---- the generic rule ------------------------------------------------------------------------------ *)
Section RunPrefix.
  Context {T St O : Type}.
  Variables cb1 cb2 : St -> option nat * nat * T -> res (St * O).   (* prefix run / whole run *)
  Variable xs : list T.
  Variable k : nat.
  Variables sf1 sf2 : nat -> option nat.                             (* the start index passed at position e *)
  Variable Inv : nat -> St -> Prop.                                  (* about the state BEFORE position e *)
  Variable s0 : St.
  Let n := Nat.min k (length xs).
  Hypothesis Inv0 : Inv 0 s0.
  Hypothesis Hinner : forall e v s, S e < n -> nth_error xs e = Some v -> Inv e s ->
    sf1 e = sf2 e /\ cb1 s (sf2 e, e, v) = cb2 s (sf2 e, e, v) /\
    (forall s' o, cb2 s (sf2 e, e, v) = Ok (s', o) -> Inv (S e) s').
  Hypothesis Hlast : forall e v s s2 o, S e = n -> nth_error xs e = Some v -> Inv e s ->
    cb2 s (sf2 e, e, v) = Ok (s2, o) -> exists s1, cb1 s (sf1 e, e, v) = Ok (s1, o).

  Let A1 := mapi (fun i v => (sf1 i, i, v)) (firstn k xs).
  Let A2 := mapi (fun i v => (sf2 i, i, v)) xs.
  Variable out : list O.
  Hypothesis Hrun : run (lift_cb cb2) (Ok s0) A2 = map Ok out.

  Lemma rp_out_len : length out = length xs.
  Proof.
    pose proof (f_equal (@length _) Hrun) as H. rewrite run_length, map_length in H. unfold A2 in H.
    rewrite mapi_length in H. symmetry. exact H.
  Qed.

  Lemma rp_A1_nth e v : e < n -> nth_error xs e = Some v -> nth_error A1 e = Some (sf1 e, e, v).
  Proof.
    intros He Hv. unfold A1. rewrite nth_error_mapi, nth_error_firstn.
    replace (e <? k) with true by (symmetry; apply Nat.ltb_lt; unfold n in He; lia). rewrite Hv. reflexivity.
  Qed.
  Lemma rp_A2_nth e v : nth_error xs e = Some v -> nth_error A2 e = Some (sf2 e, e, v).
  Proof. intros Hv. unfold A2. rewrite nth_error_mapi, Hv. reflexivity. Qed.

  (* the whole run succeeded at position e and produced out[e] *)
  Lemma rp_whole_step e v s :
    nth_error xs e = Some v -> state_after (lift_cb cb2) (Ok s0) (firstn e A2) = Ok s ->
    exists s' o, cb2 s (sf2 e, e, v) = Ok (s', o) /\ nth_error out e = Some o.
  Proof.
    intros Hv Hs.
    pose proof (run_nth (lift_cb cb2) (Ok s0) A2 e (rp_A2_nth e v Hv)) as H.
    rewrite Hrun, Hs, nth_error_map in H.
    destruct (nth_error out e) as [o|] eqn:Eo; [|discriminate]. cbn [option_map] in H.
    injection H as H. symmetry in H. destruct (lift_out_Ok cb2 s _ o H) as [s' Hs']. eauto.
  Qed.

  Lemma rp_steps : forall e, e < n -> exists s,
      state_after (lift_cb cb2) (Ok s0) (firstn e A2) = Ok s /\
      state_after (lift_cb cb1) (Ok s0) (firstn e A1) = Ok s /\ Inv e s /\
      run (lift_cb cb1) (Ok s0) (firstn e A1) = map Ok (firstn e out).
  Proof.
    induction e as [|e IH]; intros He.
    - exists s0. repeat split; try reflexivity. exact Inv0.
    - destruct IH as (s & H2 & H1 & HI & HR); [lia|].
      destruct (nth_error_Some_lt xs e) as [v Hv]; [unfold n in He; lia|].
      destruct (rp_whole_step e v s Hv H2) as (s' & o & Hcb & Ho).
      destruct (Hinner e v s He Hv HI) as (Esf & Ecb & HI').
      pose proof (rp_A1_nth e v ltac:(lia) Hv) as Ha1. rewrite Esf in Ha1.
      pose proof (rp_A2_nth e v Hv) as Ha2.
      exists s'. rewrite (firstn_S_nth _ _ _ Ha1), (firstn_S_nth _ _ _ Ha2), (firstn_S_nth _ _ _ Ho).
      rewrite !state_after_app, run_app, H1, H2, HR, map_app.
      cbn [state_after run lift_cb fst map]. rewrite Ecb, Hcb. cbn [fst].
      repeat split; try reflexivity. apply (HI' s' o). exact Hcb.
  Qed.

  Theorem run_prefix_gen : run (lift_cb cb1) (Ok s0) A1 = map Ok (firstn k out).
  Proof.
    pose proof rp_out_len as HL.
    destruct (Nat.eq_dec n 0) as [En|Hn0].
    - unfold n in En. assert (E : firstn k xs = [] /\ firstn k out = []).
      { destruct k as [|k']; [split; reflexivity|]. destruct xs as [|x xs']; [|cbn in En; lia].
        destruct out; [split; reflexivity|discriminate]. }
      destruct E as [E1 E2]. unfold A1. rewrite E1, E2. reflexivity.
    - assert (En : n = S (n - 1)) by lia. set (m := n - 1) in *.
      destruct (rp_steps m) as (s & H2 & H1 & HI & HR); [lia|].
      destruct (nth_error_Some_lt xs m) as [v Hv]; [unfold n in En; lia|].
      destruct (rp_whole_step m v s Hv H2) as (s' & o & Hcb & Ho).
      destruct (Hlast m v s s' o (eq_sym En) Hv HI Hcb) as (s1 & Hcb1).
      pose proof (rp_A1_nth m v ltac:(lia) Hv) as Ha1.
      assert (EA : firstn (S m) A1 = A1).
      { apply firstn_all2. unfold A1. rewrite mapi_length, firstn_length. unfold n in En. lia. }
      assert (EO : firstn (S m) out = firstn k out).
      { unfold n in En. destruct (Nat.le_gt_cases k (length xs)) as [Hk|Hk].
        - replace k with (S m) by lia. reflexivity.
        - rewrite !firstn_all2 by lia. reflexivity. }
      rewrite <- EA, <- EO, (firstn_S_nth _ _ _ Ha1), (firstn_S_nth _ _ _ Ho).
      rewrite run_app, H1, HR, map_app. cbn [run lift_cb map]. rewrite Hcb1. reflexivity.
  Qed.
End RunPrefix.

(* both driver bodies, two callbacks and two driver windows (the cmp family clamps its window to the length, so
   the prefix run and the whole run may be driven with different windows and different callback parameters) *)
Theorem idx_run_prefix_gen {T St O} (cb1 cb2 : St -> option nat * nat * T -> res (St * O))
        (xs : list T) (k : nat) (body : bool) (w1 w2 : nat) (Inv : nat -> St -> Prop) (s0 : St) (out : list O) :
  1 <= w1 -> 1 <= w2 ->
  let n := Nat.min k (length xs) in
  let sf1 := start_of (eff_window body w1 n) in
  let sf2 := start_of (eff_window body w2 (length xs)) in
  Inv 0 s0 ->
  (forall e v s, S e < n -> nth_error xs e = Some v -> Inv e s ->
     sf1 e = sf2 e /\ cb1 s (sf2 e, e, v) = cb2 s (sf2 e, e, v) /\
     (forall s' o, cb2 s (sf2 e, e, v) = Ok (s', o) -> Inv (S e) s')) ->
  (forall e v s s2 o, S e = n -> nth_error xs e = Some v -> Inv e s ->
     cb2 s (sf2 e, e, v) = Ok (s2, o) -> exists s1, cb1 s (sf1 e, e, v) = Ok (s1, o)) ->
  idx_run body w2 cb2 s0 xs = Done out -> idx_run body w1 cb1 s0 (firstn k xs) = Done (firstn k out).
Proof.
  intros Hw1 Hw2 n sf1 sf2 H0 Hin Hl Hrun.
  apply idx_run_Done_iff in Hrun; [|exact Hw2]. apply idx_run_Done_iff; [exact Hw1|].
  unfold idx_args in *. rewrite firstn_length. fold n. fold sf1. fold sf2 in Hrun.
  exact (run_prefix_gen cb1 cb2 xs k sf1 sf2 Inv s0 H0 Hin Hl out Hrun).
Qed.

(* the start indices of a prefix run and of the whole run: equal everywhere when the driver window fits into the
   prefix (or the cut is not a proper one); otherwise ("warm-up cut") every position of the prefix has start None
   in the whole run, and so has the prefix run except at its last position, where the start is Some 0 *)
Lemma start_of_fit W n len e : W <= n -> n <= len -> start_of (Nat.min W n) e = start_of (Nat.min W len) e.
Proof. intros H1 H2. rewrite !Nat.min_l by lia. reflexivity. Qed.

Lemma start_of_none W e : S e < W -> start_of W e = None.
Proof. intros H. unfold start_of. replace (e <? W - 1) with true by (symmetry; apply Nat.ltb_lt; lia). reflexivity. Qed.
Lemma start_of_last n : 1 <= n -> start_of n (n - 1) = Some 0.
Proof.
  intros H. unfold start_of. replace (n - 1 <? n - 1) with false by (symmetry; apply Nat.ltb_ge; lia).
  rewrite Nat.sub_diag. reflexivity.
Qed.

(* what a start index handed over by a driver satisfies *)
Definition start_le (st : option nat) (e : nat) : Prop := match st with Some j => j <= e | None => True end.
Lemma start_of_le W e : start_le (start_of W e) e.
Proof. unfold start_of, start_le. destruct (e <? W - 1); [exact I|lia]. Qed.

(* ---- the rule in the shape the families need ---------------------------------------------------------- *)
(* c1 / c2: the callback of the prefix run / of the whole run as functions of the series they may read.
   Either the two runs are driven alike (window fits into the prefix) and the callbacks agree, or the cut is a
   warm-up cut, where an invariant of the warm-up states must give the agreement of the OUTPUT of the last call
   (start Some 0 in the prefix run, None in the whole run). *)
Theorem family_prefix {T St O} (c1 c2 : list T -> St -> option nat * nat * T -> res (St * O))
        (xs : list T) (k : nat) (body : bool) (w1 w2 : nat) (Inv : nat -> St -> Prop) (s0 : St) (out : list O) :
  1 <= w1 -> 1 <= w2 ->
  let n := Nat.min k (length xs) in
  let W1 := eff_window body w1 n in
  let W2 := eff_window body w2 (length xs) in
  (forall s st e v, e < k -> start_le st e -> c1 (firstn k xs) s (st, e, v) = c1 xs s (st, e, v)) ->
  ((W1 = W2 /\ forall s st e v, e < n -> c1 xs s (st, e, v) = c2 xs s (st, e, v))
   \/
   (W1 = n /\ n < W2 /\ Inv 0 s0 /\
    (forall e v s, S e < n -> nth_error xs e = Some v -> Inv e s ->
       c1 xs s (None, e, v) = c2 xs s (None, e, v) /\
       (forall s' o, c2 xs s (None, e, v) = Ok (s', o) -> Inv (S e) s')) /\
    (forall e v s s2 o, S e = n -> nth_error xs e = Some v -> Inv e s ->
       c2 xs s (None, e, v) = Ok (s2, o) -> exists s1, c1 xs s (Some 0, e, v) = Ok (s1, o)))) ->
  idx_run body w2 (c2 xs) s0 xs = Done out ->
  idx_run body w1 (c1 (firstn k xs)) s0 (firstn k xs) = Done (firstn k out).
Proof.
  intros Hw1 Hw2 n W1 W2 Hloc Hcase Hrun.
  assert (Hnk : n <= k) by (unfold n; lia).
  destruct Hcase as [[EW Hag]|(EW & HW2 & H0 & Hin & Hl)].
  - apply (idx_run_prefix_gen (c1 (firstn k xs)) (c2 xs) xs k body w1 w2 (fun _ _ => True) s0 out Hw1 Hw2);
      [exact I| | |exact Hrun]; fold n; fold W1; fold W2; rewrite EW.
    + intros e v s He Hv _. split; [reflexivity|]. split; [|intros; exact I].
      rewrite Hloc by (try apply start_of_le; lia). apply Hag. lia.
    + intros e v s s2 o He Hv _ Hc. exists s2.
      rewrite Hloc by (try apply start_of_le; lia). rewrite Hag by lia. exact Hc.
  - apply (idx_run_prefix_gen (c1 (firstn k xs)) (c2 xs) xs k body w1 w2 Inv s0 out Hw1 Hw2);
      [exact H0| | |exact Hrun]; fold n; fold W1; fold W2; rewrite EW.
    + intros e v s He Hv HI. rewrite !start_of_none by lia. split; [reflexivity|].
      rewrite Hloc by (try exact I; lia). apply Hin; assumption.
    + intros e v s s2 o He Hv HI. rewrite (start_of_none W2) by lia.
      assert (E1 : start_of n e = Some 0) by (replace e with (n - 1) by lia; apply start_of_last; lia).
      rewrite E1. intros Hc.
      rewrite Hloc by (cbn [start_le]; lia). apply (Hl e v s s2 o He Hv HI Hc).
Qed.

(* ---- reads through uget at positions below the cut ---------------------------------------------------- *)
Lemma uget_firstn {T} (xs : list T) k i : i < k -> uget (firstn k xs) i = uget xs i.
Proof.
  intros H. unfold uget. rewrite nth_error_firstn.
  replace (i <? k) with true by (symmetry; apply Nat.ltb_lt; exact H). reflexivity.
Qed.

Lemma opt_lt_none a : opt_lt a None = false.
Proof. destruct a; reflexivity. Qed.

Section CmpLocal.
  Context {A : Type} {NA : Num A} {T : Type} {DT : IsNone T A}.
  Variable scmp : option A -> option A -> comparison.
  Variable xs : list T.
  Variable k : nat.

  Lemma rescan_firstn : forall cnt i m mi, i + cnt <= k ->
    rescan scmp (firstn k xs) i cnt m mi = rescan scmp xs i cnt m mi.
  Proof.
    induction cnt as [|c IH]; intros i m mi H; [reflexivity|]. cbn [rescan].
    rewrite uget_firstn by lia. destruct (uget xs i) as [v|pk]; [|reflexivity]. cbn [bind].
    destruct (takes (scmp (to_opt v) m)); apply IH; lia.
  Qed.

  Lemma ext_step_firstn s st e v : e < k -> start_le st e ->
    ext_step scmp (firstn k xs) s st e v = ext_step scmp xs s st e v.
  Proof.
    intros He Hs. destruct st as [j|]; [|reflexivity]. cbn [start_le] in Hs.
    unfold ext_step. cbv zeta. rewrite uget_firstn by lia.
    destruct (opt_lt _ _); [|reflexivity]. destruct (uget xs j) as [v0|pk]; [|reflexivity]. cbn [bind].
    rewrite rescan_firstn by lia. reflexivity.
  Qed.

  Lemma ext_post_firstn s st e : e < k -> start_le st e ->
    ext_post (firstn k xs) s st = ext_post xs s st.
  Proof.
    intros He Hs. destruct st as [j|]; [|reflexivity]. cbn [start_le] in Hs.
    unfold ext_post. rewrite uget_firstn by lia. reflexivity.
  Qed.

  Lemma vext_cb_firstn mp s st e v : e < k -> start_le st e ->
    vext_cb scmp mp (firstn k xs) s (st, e, v) = vext_cb scmp mp xs s (st, e, v).
  Proof.
    intros He Hs. unfold vext_cb. rewrite ext_step_firstn by assumption.
    destruct (ext_step scmp xs s st e v) as [s1|pk]; [|reflexivity]. cbn [bind].
    rewrite (ext_post_firstn s1 st e) by assumption. reflexivity.
  Qed.

  Lemma varg_cb_firstn mp s st e v : e < k -> start_le st e ->
    varg_cb scmp mp (firstn k xs) s (st, e, v) = varg_cb scmp mp xs s (st, e, v).
  Proof.
    intros He Hs. unfold varg_cb. rewrite ext_step_firstn by assumption.
    destruct (ext_step scmp xs s st e v) as [s1|pk]; [|reflexivity]. cbn [bind].
    rewrite (ext_post_firstn s1 st e) by assumption. reflexivity.
  Qed.
End CmpLocal.

Section RankLocal.
  Context {A : Type} {NA : Num A} {T : Type} {DT : IsNone T A} {B : Type} {NB : Num B}.
  Variable xs : list T.
  Variable k : nat.

  Lemma rank_loop_firstn x : forall cnt i (rank : B) nrep, i + cnt <= k ->
    rank_loop (firstn k xs) x i cnt rank nrep = rank_loop xs x i cnt rank nrep.
  Proof.
    induction cnt as [|c IH]; intros i rank nrep H; [reflexivity|]. cbn [rank_loop].
    rewrite uget_firstn by lia. destruct (uget xs i) as [a|pk]; [|reflexivity]. cbn [bind].
    destruct (not_none a); [|apply IH; lia].
    destruct (nltb (unwrap a) x); [apply IH; lia|]. destruct (neqb (unwrap a) x); apply IH; lia.
  Qed.

  Lemma vrank_cb_firstn mp wm1 pct rev (s : nat) st e v : e < k -> start_le st e ->
    vrank_cb (B := B) mp wm1 pct rev (firstn k xs) s (st, e, v) = vrank_cb mp wm1 pct rev xs s (st, e, v).
  Proof.
    intros He Hs. unfold vrank_cb.
    rewrite rank_loop_firstn by (destruct st; cbn [start_le] in Hs; lia).
    destruct st as [j|]; [|reflexivity]. cbn [start_le] in Hs. rewrite uget_firstn by lia. reflexivity.
  Qed.
End RankLocal.

Section NormLocal.
  Context {A : Type} {NA : Num A} {T : Type} {DT : IsNone T A}.
  Variables tmin tmax : A.
  Variable xs : list T.
  Variable k : nat.

  Lemma scan_max_firstn : forall cnt i mx mxi, i + cnt <= k ->
    scan_max (firstn k xs) i cnt mx mxi = scan_max xs i cnt mx mxi.
  Proof.
    induction cnt as [|c IH]; intros i mx mxi H; [reflexivity|]. cbn [scan_max].
    rewrite uget_firstn by lia. destruct (uget xs i) as [a|pk]; [|reflexivity]. cbn [bind].
    destruct (not_none a); [|apply IH; lia]. destruct (nleb mx (unwrap a)); apply IH; lia.
  Qed.
  Lemma scan_min_firstn : forall cnt i mn mni, i + cnt <= k ->
    scan_min (firstn k xs) i cnt mn mni = scan_min xs i cnt mn mni.
  Proof.
    induction cnt as [|c IH]; intros i mn mni H; [reflexivity|]. cbn [scan_min].
    rewrite uget_firstn by lia. destruct (uget xs i) as [a|pk]; [|reflexivity]. cbn [bind].
    destruct (not_none a); [|apply IH; lia]. destruct (nleb (unwrap a) mn); apply IH; lia.
  Qed.
  Lemma scan_both_firstn : forall cnt i mx mxi mn mni, i + cnt <= k ->
    scan_both (firstn k xs) i cnt mx mxi mn mni = scan_both xs i cnt mx mxi mn mni.
  Proof.
    induction cnt as [|c IH]; intros i mx mxi mn mni H; [reflexivity|]. cbn [scan_both].
    rewrite uget_firstn by lia. destruct (uget xs i) as [a|pk]; [|reflexivity]. cbn [bind].
    destruct (not_none a); [|apply IH; lia].
    destruct (nleb mx (unwrap a)), (nleb (unwrap a) mn); apply IH; lia.
  Qed.

  Lemma mm_research_firstn s st e : e < k -> start_le st e ->
    mm_research tmin tmax (firstn k xs) s st e = mm_research tmin tmax xs s st e.
  Proof.
    intros He Hs. destruct st as [j|]; [|reflexivity]. cbn [start_le] in Hs. unfold mm_research.
    rewrite scan_max_firstn, scan_min_firstn, scan_both_firstn by lia. reflexivity.
  Qed.

  Lemma mmnorm_cb_firstn mp s st e v : e < k -> start_le st e ->
    mmnorm_cb tmin tmax mp (firstn k xs) s (st, e, v) = mmnorm_cb tmin tmax mp xs s (st, e, v).
  Proof.
    intros He Hs. unfold mmnorm_cb. rewrite mm_research_firstn by assumption.
    destruct st as [j|]; [|reflexivity]. cbn [start_le] in Hs. rewrite uget_firstn by lia. reflexivity.
  Qed.
End NormLocal.
