(* Proofs/Audit07.v — audit YB of property C07: the clauses of the statement that had no theorem.
   (1) list laws the accessors are phrased with (reverse iteration, sub-slicing, element-wise views);
   (2) VecDeque under the relaxed well-formedness `ring_wf0` (also the deque without allocation), iteration through
       as_slices(), completeness of try_as_slice, slicing, a freshly collected deque;
   (3) ndarray views: slicing (any stride), the reversed view, stepped views, completeness of try_as_slice, owned arrays;
   (4) Polars: slicing as chunks, reverse iteration;  (5) Arc / option view over every container;
   (6) a view is determined by (len, uget);  (7) the MaybeUninit output buffer: uninit / uset / assume_init laws,
       writes in any order;  (8) the returned / caller-buffer paths for EVERY window.          Axiom-free.            *)
From Coq Require Import ZArith Lia Permutation.
From Tevec Require Import Base.Prelude Model.Driver Proofs.Driver Model.Features Proofs.Generic
     Model.Containers Proofs.Containers Model.Create Model.Collect Proofs.Collect.

(* ================================================================================================================= *)
(* (1) list laws                                                                                                      *)
(* ================================================================================================================= *)
Lemma nth_error_rev {A} (l : list A) i :
  nth_error (rev l) i = if i <? length l then nth_error l (length l - 1 - i) else None.
Proof.
  destruct (i <? length l) eqn:E.
  - apply Nat.ltb_lt in E. destruct (nth_error l (length l - 1 - i)) eqn:En.
    + rewrite (nth_error_nth' (rev l) a) by (rewrite rev_length; exact E).
      rewrite rev_nth by exact E. f_equal.
      replace (length l - S i) with (length l - 1 - i) by lia.
      apply nth_error_nth with (d := a) in En. exact En.
    + apply nth_error_None in En. lia.
  - apply Nat.ltb_ge in E. apply nth_error_None. rewrite rev_length. exact E.
Qed.

Lemma seg_length_min {A} a b (l : list A) : length (seg a b l) = Nat.min (b - a) (length l - a).
Proof. unfold seg. rewrite firstn_length, skipn_length. reflexivity. Qed.

Lemma seg_seg {A} a b a' b' (l : list A) : a + b' <= b -> seg a' b' (seg a b l) = seg (a + a') (a + b') l.
Proof.
  intros H. apply nth_error_ext. intros i. rewrite !nth_error_seg.
  replace (a + b' - (a + a')) with (b' - a') by lia.
  destruct (i <? b' - a') eqn:E; [|reflexivity]. apply Nat.ltb_lt in E.
  replace (a' + i <? b - a) with true by (symmetry; apply Nat.ltb_lt; lia).
  f_equal. lia.
Qed.

Lemma seg_map {A B} (f : A -> B) a b (l : list A) : seg a b (map f l) = map f (seg a b l).
Proof. unfold seg. rewrite skipn_map, firstn_map. reflexivity. Qed.

Lemma seg_rev {A} a b (l : list A) : a <= b -> b <= length l ->
  seg a b (rev l) = rev (seg (length l - b) (length l - a) l).
Proof.
  intros Hab Hb. apply nth_error_ext. intros i.
  rewrite nth_error_seg, !nth_error_rev, seg_length by lia. rewrite nth_error_seg.
  replace (length l - a - (length l - b)) with (b - a) by lia.
  destruct (i <? b - a) eqn:E; [|reflexivity]. apply Nat.ltb_lt in E.
  replace (a + i <? length l) with true by (symmetry; apply Nat.ltb_lt; lia).
  replace (b - a - 1 - i <? b - a) with true by (symmetry; apply Nat.ltb_lt; lia).
  f_equal. lia.
Qed.

Lemma seg_out_of_range {A} a b (l : list A) : length l <= a -> seg a b l = [].
Proof. intros H. unfold seg. rewrite skipn_all2 by exact H. apply firstn_nil. Qed.

(* ================================================================================================================= *)
(* (2) VecDeque                                                                                                       *)
(* ================================================================================================================= *)
Section Ring0.
  Context {A : Type}.
  Variable r : ring A.
  Hypothesis Hwf : ring_wf0 r.

  Lemma ring_wf0_cases : ring_wf r \/ rhead r = rcap r.
  Proof. destruct Hwf as [Hl Hh]. unfold ring_wf. lia. Qed.

  Lemma ring_full_head_to_list : rhead r = rcap r -> ring_to_list r = firstn (rlen r) (rbuf r).
  Proof.
    intros E. unfold ring_to_list, rcap in *. rewrite E, skipn_all, firstn_all. reflexivity.
  Qed.

  Lemma ring0_to_list_length : length (ring_to_list r) = rlen r.
  Proof.
    destruct ring_wf0_cases as [H|E]; [apply ring_to_list_length; exact H|].
    rewrite ring_full_head_to_list by exact E. rewrite firstn_length. destruct Hwf. unfold rcap in *. lia.
  Qed.

  Lemma ring0_get_to_list i : nth_error (ring_to_list r) i = ring_get r i.
  Proof.
    destruct ring_wf0_cases as [H|E]; [apply ring_get_to_list; exact H|].
    rewrite ring_full_head_to_list by exact E. unfold ring_get. rewrite nth_error_firstn.
    destruct (i <? rlen r) eqn:Ei; [|reflexivity]. apply Nat.ltb_lt in Ei. f_equal.
    destruct Hwf as [Hl _]. rewrite E.
    replace (rcap r + i) with (i + 1 * rcap r) by lia. rewrite Nat.mod_add by lia.
    symmetry. apply Nat.mod_small. lia.
  Qed.

  Lemma ring0_try_as_slice_sound l : ring_try_as_slice r = Some l -> l = ring_to_list r.
  Proof.
    destruct ring_wf0_cases as [H|E]; [apply ring_try_as_slice_sound; exact H|].
    destruct Hwf as [Hl _]. rewrite ring_full_head_to_list by exact E.
    unfold ring_try_as_slice, ring_slices. rewrite E.
    destruct (rcap r + rlen r <=? rcap r) eqn:Ec.
    - apply Nat.leb_le in Ec. assert (rlen r = 0) as -> by lia. intros H. injection H as <-.
      rewrite Nat.add_0_r, seg_nil. reflexivity.
    - destruct (seg 0 (rcap r + rlen r - rcap r) (rbuf r)) eqn:Es; [|discriminate].
      intros H. injection H as <-. apply Nat.leb_gt in Ec.
      apply (f_equal (@length A)) in Es. rewrite seg_length in Es by (unfold rcap in *; lia). cbn in Es. lia.
  Qed.

  (* the two halves of as_slices() have the lengths VecDeque documents and concatenate to the logical sequence *)
  Lemma ring_iter_spec : ring_iter r = ring_to_list r.
  Proof.
    destruct Hwf as [Hl Hh]. unfold ring_iter, ring_slices, ring_to_list, rcap in *.
    destruct (rhead r + rlen r <=? length (rbuf r)) eqn:E; cbn [fst snd].
    - apply Nat.leb_le in E. rewrite app_nil_r. apply nth_error_ext. intros i.
      rewrite nth_error_seg, nth_error_firstn.
      replace (rhead r + rlen r - rhead r) with (rlen r) by lia.
      destruct (i <? rlen r) eqn:Ei; [|reflexivity]. apply Nat.ltb_lt in Ei.
      rewrite nth_error_app, skipn_length.
      replace (i <? length (rbuf r) - rhead r) with true by (symmetry; apply Nat.ltb_lt; lia).
      rewrite nth_error_skipn. reflexivity.
    - apply Nat.leb_gt in E. apply nth_error_ext. intros i.
      rewrite nth_error_firstn, !nth_error_app, skipn_length, seg_length by lia.
      rewrite !nth_error_seg, nth_error_skipn, nth_error_firstn. cbn [plus].
      destruct (i <? length (rbuf r) - rhead r) eqn:E1.
      + apply Nat.ltb_lt in E1. replace (i <? rlen r) with true by (symmetry; apply Nat.ltb_lt; lia). reflexivity.
      + apply Nat.ltb_ge in E1. rewrite Nat.sub_0_r.
        destruct (i <? rlen r) eqn:E2.
        * apply Nat.ltb_lt in E2.
          replace (i - (length (rbuf r) - rhead r) <? rhead r + rlen r - length (rbuf r)) with true
            by (symmetry; apply Nat.ltb_lt; lia).
          replace (i - (length (rbuf r) - rhead r) <? rhead r) with true by (symmetry; apply Nat.ltb_lt; lia).
          reflexivity.
        * apply Nat.ltb_ge in E2.
          replace (i - (length (rbuf r) - rhead r) <? rhead r + rlen r - length (rbuf r)) with false
            by (symmetry; apply Nat.ltb_ge; lia).
          reflexivity.
  Qed.

  Lemma ring_slices_lengths :
    length (fst (ring_slices r)) = Nat.min (rlen r) (rcap r - rhead r) /\
    length (snd (ring_slices r)) = rlen r - (rcap r - rhead r).
  Proof.
    destruct Hwf as [Hl Hh]. unfold ring_slices, rcap in *.
    destruct (rhead r + rlen r <=? length (rbuf r)) eqn:E; cbn [fst snd length].
    - apply Nat.leb_le in E. rewrite seg_length by lia. lia.
    - apply Nat.leb_gt in E. rewrite !seg_length by lia. lia.
  Qed.

  (* try_as_slice is offered EXACTLY when the deque has not wrapped *)
  Lemma ring_try_as_slice_offered_iff : ring_try_as_slice r = None <-> rcap r < rhead r + rlen r.
  Proof.
    destruct Hwf as [Hl Hh]. unfold ring_try_as_slice, ring_slices, rcap in *.
    destruct (rhead r + rlen r <=? length (rbuf r)) eqn:E.
    - apply Nat.leb_le in E. split; [discriminate|lia].
    - apply Nat.leb_gt in E. split; [intros _; exact E|intros _].
      destruct (seg 0 (rhead r + rlen r - length (rbuf r)) (rbuf r)) eqn:Es; [|reflexivity].
      apply (f_equal (@length A)) in Es. rewrite seg_length in Es by lia. cbn in Es. lia.
  Qed.

  Lemma ring_try_as_slice_complete : rhead r + rlen r <= rcap r -> ring_try_as_slice r = Some (ring_to_list r).
  Proof.
    intros H. destruct (ring_try_as_slice r) as [l|] eqn:E.
    - f_equal. apply ring0_try_as_slice_sound. exact E.
    - apply ring_try_as_slice_offered_iff in E. lia.
  Qed.

  (* slice(a, b) = VecDeque::range(a..b): logical positions a .. b *)
  Lemma ring_range_nth a b i :
    nth_error (ring_range r a b) i = if i <? b - a then ring_get r (a + i) else None.
  Proof. unfold ring_range. rewrite nth_error_seg, ring0_get_to_list. reflexivity. Qed.

  Lemma ring_range_length a b : a <= b -> b <= rlen r -> length (ring_range r a b) = b - a.
  Proof. intros Hab Hb. unfold ring_range. apply seg_length. rewrite ring0_to_list_length. exact Hb. Qed.

  Lemma ring_range_all : ring_range r 0 (rlen r) = ring_to_list r.
  Proof. unfold ring_range. rewrite <- ring0_to_list_length. apply seg_all. Qed.

  (* the checked accessor of view.rs over the deque's own uget *)
  Lemma ring_checked_get i :
    checked_get (rlen r) (ring_get r) i
    = match nth_error (ring_to_list r) i with Some x => Ok x | None => Panic OtherPanic end.
  Proof.
    rewrite ring0_get_to_list. unfold checked_get, ring_get.
    destruct (i <? rlen r) eqn:E; [|reflexivity]. reflexivity.
  Qed.

  (* reverse iteration: position i from the back is logical position len - 1 - i *)
  Lemma ring_rev_nth i :
    nth_error (rev (ring_to_list r)) i = if i <? rlen r then ring_get r (rlen r - 1 - i) else None.
  Proof. rewrite nth_error_rev, ring0_to_list_length, ring0_get_to_list. reflexivity. Qed.

  Lemma ring_view_seq : view_seq (rlen r) (ring_get r) = ring_to_list r.
  Proof.
    apply nth_error_ext. intros i.
    rewrite (tabulate_nth (ring_get r) (rlen r)).
    - rewrite ring0_get_to_list. unfold ring_get. destruct (i <? rlen r); reflexivity.
    - intros j Hj E. rewrite <- ring0_get_to_list in E. apply nth_error_None in E.
      rewrite ring0_to_list_length in E. lia.
  Qed.
End Ring0.

Lemma ring_wf_wf0 {A} (r : ring A) : ring_wf r -> ring_wf0 r.
Proof. unfold ring_wf, ring_wf0. lia. Qed.

(* the deque WITHOUT allocation is well-formed in the relaxed sense only *)
Lemma ring_empty_wf0 {A} : ring_wf0 {| rbuf := @nil A; rhead := 0; rlen := 0 |} /\
                           ~ ring_wf {| rbuf := @nil A; rhead := 0; rlen := 0 |}.
Proof. unfold ring_wf0, ring_wf, rcap. cbn. lia. Qed.

(* a freshly collected deque *)
Lemma ring_of_list_spec {A} (l : list A) :
  ring_wf0 (ring_of_list l) /\ ring_to_list (ring_of_list l) = l /\ ring_try_as_slice (ring_of_list l) = Some l.
Proof.
  assert (Hwf : ring_wf0 (ring_of_list l)) by (unfold ring_wf0, ring_of_list, rcap; cbn; lia).
  assert (Hl : ring_to_list (ring_of_list l) = l).
  { unfold ring_to_list, ring_of_list. cbn [rbuf rhead rlen skipn firstn]. rewrite app_nil_r. apply firstn_all. }
  split; [exact Hwf|]. split; [exact Hl|].
  rewrite (ring_try_as_slice_complete (ring_of_list l) Hwf) by (unfold ring_of_list, rcap; cbn; lia).
  rewrite Hl. reflexivity.
Qed.

(* ================================================================================================================= *)
(* (6, first half) a view is determined by (len, uget)                                                                *)
(* ================================================================================================================= *)
Lemma view_seq_ext {A} len (g1 g2 : nat -> option A) :
  (forall i, i < len -> g1 i = g2 i) -> view_seq len g1 = view_seq len g2.
Proof.
  intros H. unfold view_seq. apply flat_map_ext_in. intros i Hi. apply in_seq in Hi. rewrite H by lia. reflexivity.
Qed.

Lemma view_seq_list {A} (l : list A) : view_seq (length l) (nth_error l) = l.
Proof.
  apply nth_error_ext. intros i. rewrite (tabulate_nth (nth_error l) (length l)).
  - destruct (i <? length l) eqn:E; [reflexivity|]. apply Nat.ltb_ge in E. symmetry. apply nth_error_None. exact E.
  - intros j Hj E. apply nth_error_None in E. lia.
Qed.

(* ================================================================================================================= *)
(* (3) ndarray views                                                                                                  *)
(* ================================================================================================================= *)
Section StridedAudit.
  Context {A : Type}.
  Variable s : strided A.
  Hypothesis Hwf : strided_wf s.

  Lemma spos_nonneg i : i < slen s -> (0 <= spos s i)%Z.
  Proof. intros Hi. specialize (Hwf i Hi). lia. Qed.

  (* ---- slice(a, b) = s![a..b]: same memory, same stride, offset moved by a strides ---- *)
  Lemma strided_slice_pos a b i : a <= b -> b <= slen s -> i < b - a ->
    spos (strided_slice s a b) i = spos s (a + i).
  Proof.
    intros Hab Hb Hi. unfold strided_slice, spos at 1. cbn [soff sstep].
    rewrite Z2Nat.id by (apply spos_nonneg; lia). unfold spos. lia.
  Qed.

  Lemma strided_slice_wf a b : a <= b -> b <= slen s -> strided_wf (strided_slice s a b).
  Proof.
    intros Hab Hb i Hi. cbn [strided_slice slen sbase] in *.
    rewrite strided_slice_pos by lia. apply Hwf. lia.
  Qed.

  Lemma strided_slice_get a b i : a <= b -> b <= slen s ->
    strided_get (strided_slice s a b) i = if i <? b - a then strided_get s (a + i) else None.
  Proof.
    intros Hab Hb. unfold strided_get at 1. cbn [slen strided_slice]. fold (strided_slice s a b).
    destruct (i <? b - a) eqn:E; [|reflexivity]. apply Nat.ltb_lt in E.
    rewrite strided_slice_pos by lia. cbn [sbase strided_slice]. unfold strided_get.
    replace (a + i <? slen s) with true by (symmetry; apply Nat.ltb_lt; lia). reflexivity.
  Qed.

  Lemma strided_slice_to_list a b : a <= b -> b <= slen s ->
    strided_to_list (strided_slice s a b) = seg a b (strided_to_list s).
  Proof.
    intros Hab Hb. apply nth_error_ext. intros i.
    rewrite (strided_to_list_nth _ (strided_slice_wf a b Hab Hb)), strided_slice_get by assumption.
    rewrite nth_error_seg, (strided_to_list_nth s Hwf). reflexivity.
  Qed.

  Lemma strided_slice_len a b : slen (strided_slice s a b) = b - a.
  Proof. reflexivity. Qed.

  (* ---- the reversed view ---- *)
  Lemma strided_rev_pos i : i < slen s -> spos (strided_rev s) i = spos s (slen s - 1 - i).
  Proof.
    intros Hi. unfold strided_rev, spos at 1. cbn [soff sstep].
    rewrite Z2Nat.id by (apply spos_nonneg; lia). unfold spos.
    replace (Z.of_nat (slen s - 1 - i)) with (Z.of_nat (slen s - 1) - Z.of_nat i)%Z by lia. lia.
  Qed.

  Lemma strided_rev_wf : strided_wf (strided_rev s).
  Proof.
    intros i Hi. cbn [strided_rev slen sbase] in *. rewrite strided_rev_pos by exact Hi. apply Hwf. lia.
  Qed.

  Lemma strided_rev_get i :
    strided_get (strided_rev s) i = if i <? slen s then strided_get s (slen s - 1 - i) else None.
  Proof.
    unfold strided_get at 1. cbn [slen strided_rev]. fold (strided_rev s).
    destruct (i <? slen s) eqn:E; [|reflexivity]. apply Nat.ltb_lt in E.
    rewrite strided_rev_pos by exact E. cbn [sbase strided_rev]. unfold strided_get.
    replace (slen s - 1 - i <? slen s) with true by (symmetry; apply Nat.ltb_lt; lia). reflexivity.
  Qed.

  Lemma strided_rev_to_list : strided_to_list (strided_rev s) = rev (strided_to_list s).
  Proof.
    apply nth_error_ext. intros i.
    rewrite (strided_to_list_nth _ strided_rev_wf), strided_rev_get.
    rewrite nth_error_rev, (strided_to_list_length s Hwf), (strided_to_list_nth s Hwf). reflexivity.
  Qed.

  (* reverse iteration over the view itself *)
  Lemma strided_rev_iter_nth i :
    nth_error (rev (strided_to_list s)) i = if i <? slen s then strided_get s (slen s - 1 - i) else None.
  Proof. rewrite <- strided_rev_to_list, (strided_to_list_nth _ strided_rev_wf). apply strided_rev_get. Qed.

  (* ---- the stepped view s![..;k] ---- *)
  Lemma strided_step_bound k i : 1 <= k -> i < (slen s + k - 1) / k -> i * k < slen s.
  Proof.
    intros Hk Hi. pose proof (Nat.mul_div_le (slen s + k - 1) k ltac:(lia)) as H.
    assert (k * (i + 1) <= k * ((slen s + k - 1) / k)) by (apply Nat.mul_le_mono_l; lia). nia.
  Qed.

  Lemma strided_step_pos k i : spos (strided_step s k) i = spos s (i * k).
  Proof. unfold strided_step, spos. cbn [soff sstep]. rewrite Nat2Z.inj_mul. lia. Qed.

  Lemma strided_step_wf k : 1 <= k -> strided_wf (strided_step s k).
  Proof.
    intros Hk i Hi. cbn [strided_step slen sbase] in *. rewrite strided_step_pos. apply Hwf.
    apply strided_step_bound; assumption.
  Qed.

  Lemma strided_step_get k i : 1 <= k ->
    strided_get (strided_step s k) i = if i <? (slen s + k - 1) / k then strided_get s (i * k) else None.
  Proof.
    intros Hk. unfold strided_get at 1. cbn [slen strided_step]. fold (strided_step s k).
    destruct (i <? (slen s + k - 1) / k) eqn:E; [|reflexivity]. apply Nat.ltb_lt in E.
    rewrite strided_step_pos. cbn [sbase strided_step]. unfold strided_get.
    replace (i * k <? slen s) with true by (symmetry; apply Nat.ltb_lt; apply strided_step_bound; assumption).
    reflexivity.
  Qed.

  Lemma strided_step_to_list_nth k i : 1 <= k ->
    nth_error (strided_to_list (strided_step s k)) i
    = if i <? (slen s + k - 1) / k then nth_error (strided_to_list s) (i * k) else None.
  Proof.
    intros Hk. rewrite (strided_to_list_nth _ (strided_step_wf k Hk)), strided_step_get by exact Hk.
    rewrite (strided_to_list_nth s Hwf). reflexivity.
  Qed.

  Lemma strided_step_one : strided_to_list (strided_step s 1) = strided_to_list s.
  Proof.
    apply nth_error_ext. intros i. rewrite strided_step_to_list_nth by lia.
    replace ((slen s + 1 - 1) / 1) with (slen s) by (rewrite Nat.div_1_r; lia).
    rewrite Nat.mul_1_r. destruct (i <? slen s) eqn:E; [reflexivity|].
    apply Nat.ltb_ge in E. symmetry. apply nth_error_None. rewrite (strided_to_list_length s Hwf). exact E.
  Qed.

  (* ---- try_as_slice: offered exactly for the standard layout, and then it is the logical sequence ---- *)
  Lemma strided_try_as_slice_complete :
    (sstep s = 1%Z \/ slen s <= 1) -> strided_try_as_slice s = Some (strided_to_list s).
  Proof.
    intros H. destruct (strided_try_as_slice s) as [l|] eqn:E.
    - f_equal. apply (strided_try_as_slice_sound s Hwf). exact E.
    - unfold strided_try_as_slice in E. destruct (orb _ _) eqn:Eo; [discriminate|].
      apply Bool.orb_false_iff in Eo. destruct Eo as [E1 E2]. apply Z.eqb_neq in E1. apply Nat.leb_gt in E2. lia.
  Qed.

  Lemma strided_checked_get i :
    checked_get (slen s) (strided_get s) i
    = match nth_error (strided_to_list s) i with Some x => Ok x | None => Panic OtherPanic end.
  Proof.
    rewrite (strided_to_list_nth s Hwf). unfold checked_get, strided_get. destruct (i <? slen s); reflexivity.
  Qed.

  Lemma strided_view_seq : view_seq (slen s) (strided_get s) = strided_to_list s.
  Proof.
    unfold strided_to_list. apply view_seq_ext. intros i Hi. unfold strided_get.
    replace (i <? slen s) with true by (symmetry; apply Nat.ltb_lt; exact Hi). reflexivity.
  Qed.
End StridedAudit.

Lemma strided_try_as_slice_offered_iff {A} (s : strided A) :
  strided_try_as_slice s = None <-> (sstep s <> 1%Z /\ 2 <= slen s).
Proof.
  unfold strided_try_as_slice. destruct (orb _ _) eqn:E.
  - apply Bool.orb_true_iff in E. split; [discriminate|]. intros [H1 H2].
    destruct E as [E|E]; [apply Z.eqb_eq in E; contradiction|apply Nat.leb_le in E; lia].
  - apply Bool.orb_false_iff in E. destruct E as [E1 E2]. apply Z.eqb_neq in E1. apply Nat.leb_gt in E2.
    split; [intros _; split; [exact E1|lia]|reflexivity].
Qed.

(* reversing twice gives the view back (a non-empty view) *)
Lemma strided_rev_involutive {A} (s : strided A) : strided_wf s -> 1 <= slen s ->
  strided_rev (strided_rev s) = s.
Proof.
  intros Hwf Hl. destruct s as [base off step len]. unfold strided_rev. cbn [sbase soff sstep slen] in *.
  f_equal; [|lia].
  pose proof (Hwf (len - 1) ltac:(cbn; lia)) as H1. unfold spos in *. cbn [soff sstep sbase slen] in *.
  rewrite Z2Nat.id by lia. rewrite <- (Nat2Z.id off) at 2. f_equal. lia.
Qed.

(* an owned array *)
Lemma strided_of_list_spec {A} (l : list A) :
  strided_wf (strided_of_list l) /\ strided_to_list (strided_of_list l) = l
  /\ strided_try_as_slice (strided_of_list l) = Some l.
Proof.
  assert (Hwf : strided_wf (strided_of_list l)).
  { intros i Hi. unfold strided_of_list, spos in *. cbn [soff sstep sbase slen] in *. lia. }
  assert (Hl : strided_to_list (strided_of_list l) = l).
  { rewrite <- (view_seq_list l) at 2. unfold strided_to_list. apply view_seq_ext. intros i Hi.
    unfold strided_of_list, spos. cbn [soff sstep sbase slen]. do 2 f_equal. lia. }
  split; [exact Hwf|]. split; [exact Hl|].
  rewrite (strided_try_as_slice_complete _ Hwf) by (left; reflexivity). rewrite Hl. reflexivity.
Qed.

(* ================================================================================================================= *)
(* (4) Polars chunked arrays                                                                                          *)
(* ================================================================================================================= *)
Lemma chunked_skip_spec {A} (c : chunked A) a : chunked_to_list (chunked_skip c a) = skipn a (chunked_to_list c).
Proof.
  unfold chunked_to_list. revert a. induction c as [|ch rest IH]; intros a; [destruct a; reflexivity|].
  cbn [chunked_skip concat]. destruct (a <? length ch) eqn:E.
  - apply Nat.ltb_lt in E. cbn [concat]. rewrite skipn_app.
    replace (a - length ch) with 0 by lia. reflexivity.
  - apply Nat.ltb_ge in E. rewrite IH, skipn_app. rewrite (skipn_all2 ch) by exact E. reflexivity.
Qed.

Lemma chunked_take_spec {A} (c : chunked A) n : chunked_to_list (chunked_take c n) = firstn n (chunked_to_list c).
Proof.
  unfold chunked_to_list. revert n. induction c as [|ch rest IH]; intros n; [destruct n; reflexivity|].
  cbn [chunked_take concat]. destruct (n <=? length ch) eqn:E.
  - apply Nat.leb_le in E. cbn [concat]. rewrite app_nil_r, firstn_app.
    replace (n - length ch) with 0 by lia. cbn [firstn]. rewrite app_nil_r. reflexivity.
  - apply Nat.leb_gt in E. cbn [concat]. rewrite IH, firstn_app. rewrite (firstn_all2 ch) by lia. reflexivity.
Qed.

Lemma chunked_slice_chunks_spec {A} (c : chunked A) a b :
  chunked_to_list (chunked_slice_chunks c a b) = chunked_slice c a b.
Proof. unfold chunked_slice_chunks, chunked_slice, seg. rewrite chunked_take_spec, chunked_skip_spec. reflexivity. Qed.

Lemma chunked_slice_nth {A} (c : chunked A) a b i :
  nth_error (chunked_slice c a b) i = if i <? b - a then chunked_get c (a + i) else None.
Proof. unfold chunked_slice. rewrite nth_error_seg, chunked_get_spec. reflexivity. Qed.

Lemma chunked_rev_nth {A} (c : chunked A) i :
  nth_error (rev (chunked_to_list c)) i = if i <? chunked_len c then chunked_get c (chunked_len c - 1 - i) else None.
Proof. rewrite nth_error_rev, chunked_len_spec, chunked_get_spec. reflexivity. Qed.

Lemma chunked_checked_get {A} (c : chunked A) i :
  checked_get (chunked_len c) (chunked_get c) i
  = match nth_error (chunked_to_list c) i with Some x => Ok x | None => Panic OtherPanic end.
Proof.
  rewrite <- chunked_get_spec. unfold checked_get. destruct (i <? chunked_len c) eqn:E; [reflexivity|].
  apply Nat.ltb_ge in E. rewrite chunked_len_spec in E. apply nth_error_None in E.
  rewrite chunked_get_spec, E. reflexivity.
Qed.

Lemma chunked_view_seq {A} (c : chunked A) : view_seq (chunked_len c) (chunked_get c) = chunked_to_list c.
Proof.
  rewrite chunked_len_spec. transitivity (view_seq (length (chunked_to_list c)) (nth_error (chunked_to_list c))).
  - apply view_seq_ext. intros i _. apply chunked_get_spec.
  - apply view_seq_list.
Qed.

(* empty chunks are invisible *)
Lemma chunked_empty_chunk {A} (c1 c2 : chunked A) : chunked_to_list (c1 ++ [] :: c2) = chunked_to_list (c1 ++ c2).
Proof. unfold chunked_to_list. rewrite !concat_app. reflexivity. Qed.

(* ================================================================================================================= *)
(* (5) Arc and the option view, over every container                                                                  *)
(* ================================================================================================================= *)
Lemma optview_nth {T I} (to_opt : T -> option I) (l : list T) i :
  nth_error (optview_to_list to_opt l) i = option_map to_opt (nth_error l i).
Proof. apply nth_error_map. Qed.

Lemma optview_length {T I} (to_opt : T -> option I) (l : list T) : length (optview_to_list to_opt l) = length l.
Proof. apply map_length. Qed.

Lemma optview_slice {T I} (to_opt : T -> option I) (l : list T) a b :
  seg a b (optview_to_list to_opt l) = optview_to_list to_opt (seg a b l).
Proof. apply seg_map. Qed.

Lemma optview_rev {T I} (to_opt : T -> option I) (l : list T) :
  rev (optview_to_list to_opt l) = optview_to_list to_opt (rev l).
Proof. unfold optview_to_list. symmetry. apply map_rev. Qed.

Lemma optview_is_to_opt_iter {T I} (to_opt : T -> option I) (l : list T) :
  optview_to_list to_opt l = to_opt_iter_m to_opt l.
Proof. reflexivity. Qed.

Lemma optview_vget {T I} (to_opt : T -> option I) (l : list T) i :
  nth_error (optview_to_list to_opt l) i
  = if i <? length l then Some (valid_get to_opt (length l) (nth_error l) i) else None.
Proof. apply to_opt_iter_nth. Qed.

(* the option view of each backend: uget(i) = view.uget(i).to_opt() *)
Lemma optview_ring {T I} (to_opt : T -> option I) (r : ring T) i : ring_wf0 r ->
  nth_error (optview_to_list to_opt (ring_to_list r)) i = option_map to_opt (ring_get r i).
Proof. intros H. rewrite optview_nth, (ring0_get_to_list r H). reflexivity. Qed.
Lemma optview_strided {T I} (to_opt : T -> option I) (s : strided T) i : strided_wf s ->
  nth_error (optview_to_list to_opt (strided_to_list s)) i = option_map to_opt (strided_get s i).
Proof. intros H. rewrite optview_nth, (strided_to_list_nth s H). reflexivity. Qed.
Lemma optview_chunked {T I} (to_opt : option T -> option I) (c : chunked T) i :
  nth_error (optview_to_list to_opt (chunked_to_list c)) i = option_map to_opt (chunked_get c i).
Proof. rewrite optview_nth, chunked_get_spec. reflexivity. Qed.

Lemma arc_transparent {A} (l : list A) i a b :
  arc_to_list l = l /\ length (arc_to_list l) = length l /\ nth_error (arc_to_list l) i = nth_error l i
  /\ seg a b (arc_to_list l) = seg a b l /\ rev (arc_to_list l) = rev l.
Proof. repeat split. Qed.

(* ================================================================================================================= *)
(* (6) two containers of ANY kinds with the same length and pointwise equal get have the same logical sequence        *)
(* ================================================================================================================= *)
Lemma view_determined {A} (len : nat) (g1 g2 : nat -> option A) (l1 l2 : list A) :
  view_seq len g1 = l1 -> view_seq len g2 = l2 -> (forall i, i < len -> g1 i = g2 i) -> l1 = l2.
Proof. intros <- <- H. apply view_seq_ext. exact H. Qed.

Lemma ring_strided_same_sequence {A} (r : ring A) (s : strided A) :
  ring_wf0 r -> rlen r = slen s -> (forall i, i < rlen r -> ring_get r i = strided_get s i) ->
  ring_to_list r = strided_to_list s.
Proof.
  intros Hr Hl H. apply (view_determined (rlen r) (ring_get r) (strided_get s)).
  - apply ring_view_seq. exact Hr.
  - rewrite Hl. apply strided_view_seq.
  - exact H.
Qed.

Lemma ring_chunked_same_sequence {A} (r : ring (option A)) (c : chunked A) :
  ring_wf0 r -> rlen r = chunked_len c -> (forall i, i < rlen r -> ring_get r i = chunked_get c i) ->
  ring_to_list r = chunked_to_list c.
Proof.
  intros Hr Hl H. apply (view_determined (rlen r) (ring_get r) (chunked_get c)).
  - apply ring_view_seq. exact Hr.
  - rewrite Hl. apply chunked_view_seq.
  - exact H.
Qed.

Lemma strided_chunked_same_sequence {A} (s : strided (option A)) (c : chunked A) :
  slen s = chunked_len c -> (forall i, i < slen s -> strided_get s i = chunked_get c i) ->
  strided_to_list s = chunked_to_list c.
Proof.
  intros Hl H. apply (view_determined (slen s) (strided_get s) (chunked_get c)).
  - apply strided_view_seq.
  - rewrite Hl. apply chunked_view_seq.
  - exact H.
Qed.

(* ================================================================================================================= *)
(* (7) the MaybeUninit output buffer (Vec / VecDeque / Array1 as OUTPUT; Model/Driver.v set_nth / assume_init):       *)
(*     uninit(len), uset(i, v), assume_init                                                                           *)
(* ================================================================================================================= *)
Lemma set_nth_length {O} i (v : O) buf : length (set_nth i v buf) = length buf.
Proof. revert i. induction buf as [|c buf IH]; intros i; [destruct i; reflexivity|]. destruct i; cbn; [reflexivity|]. rewrite IH. reflexivity. Qed.

Lemma set_nth_nth {O} i (v : O) buf j :
  nth_error (set_nth i v buf) j = if (j =? i) && (i <? length buf) then Some (Some v) else nth_error buf j.
Proof.
  revert i j. induction buf as [|c buf IH]; intros i j.
  - destruct i; cbn; rewrite Bool.andb_false_r; reflexivity.
  - destruct i as [|i], j as [|j]; cbn [set_nth nth_error length]; try reflexivity.
    rewrite IH. reflexivity.
Qed.

Lemma set_nth_comm {O} i j (v w : O) buf : i <> j -> set_nth i v (set_nth j w buf) = set_nth j w (set_nth i v buf).
Proof.
  intros Hij. apply nth_error_ext. intros k. rewrite !set_nth_nth, !set_nth_length.
  destruct (k =? i) eqn:E1, (k =? j) eqn:E2; cbn [andb]; try reflexivity.
  apply Nat.eqb_eq in E1. apply Nat.eqb_eq in E2. lia.
Qed.

(* assume_init exposes the buffer exactly when every slot was written, and then returns the written values *)
Lemma assume_init_Some_iff {O} (buf : list (option O)) l : assume_init buf = Some l <-> buf = map Some l.
Proof.
  split.
  - revert l. induction buf as [|c buf IH]; intros l H.
    + cbn in H. injection H as <-. reflexivity.
    + destruct c as [v|]; cbn in H; [|discriminate].
      destruct (assume_init buf) as [l'|] eqn:E; [|discriminate]. injection H as <-.
      cbn. f_equal. apply IH. reflexivity.
  - intros ->. apply assume_init_map_Some.
Qed.

Lemma assume_init_None_iff {O} (buf : list (option O)) :
  assume_init buf = None <-> exists j, nth_error buf j = Some None.
Proof.
  induction buf as [|c buf IH].
  - cbn. split; [discriminate|]. intros [j H]. destruct j; discriminate.
  - destruct c as [v|]; cbn [assume_init].
    + destruct (assume_init buf) as [l|] eqn:E.
      * split; [discriminate|]. intros [j H]. destruct j as [|j]; [discriminate|].
        cbn in H. assert (@None (list O) = None) as _ by reflexivity.
        destruct IH as [_ IH]. specialize (IH (ex_intro _ j H)). discriminate.
      * split; [intros _|reflexivity]. destruct IH as [IH _]. destruct (IH eq_refl) as [j H].
        exists (S j). exact H.
    + split; [intros _; exists 0; reflexivity|reflexivity].
Qed.

(* uninit(len): nothing is written yet, so only the empty buffer may be exposed *)
Lemma uninit_assume_init {O} n : assume_init (repeat (@None O) n) = if n =? 0 then Some [] else None.
Proof. destruct n; reflexivity. Qed.

Lemma finish_cases {O} (buf : list (option O)) :
  (exists l, finish buf = Done l /\ buf = map Some l) \/ (finish buf = Uninit buf /\ exists j, nth_error buf j = Some None).
Proof.
  unfold finish. destruct (assume_init buf) as [l|] eqn:E.
  - left. exists l. split; [reflexivity|]. apply assume_init_Some_iff. exact E.
  - right. split; [reflexivity|]. apply assume_init_None_iff. exact E.
Qed.

(* ---- stores in ANY order, any number of times (Collect.apply_writes = the uset calls in order) ---- *)
Definition last_write {O} (j : nat) (ws : list (nat * O)) : option O :=
  option_map snd (find (fun w => fst w =? j) (rev ws)).

Lemma apply_writes_snoc {O} (ws : list (nat * O)) w buf :
  apply_writes (ws ++ [w]) buf = set_nth (fst w) (snd w) (apply_writes ws buf).
Proof. unfold apply_writes. rewrite fold_left_app. reflexivity. Qed.

Lemma apply_writes_length {O} (ws : list (nat * O)) buf : length (apply_writes ws buf) = length buf.
Proof.
  induction ws as [|w ws IH] using rev_ind; [reflexivity|]. rewrite apply_writes_snoc, set_nth_length. exact IH.
Qed.

Lemma apply_writes_nth {O} (ws : list (nat * O)) buf j :
  nth_error (apply_writes ws buf) j
  = match last_write j ws with
    | Some v => if j <? length buf then Some (Some v) else None
    | None => nth_error buf j
    end.
Proof.
  induction ws as [|w ws IH] using rev_ind; [reflexivity|].
  rewrite apply_writes_snoc, set_nth_nth, apply_writes_length. unfold last_write in *.
  rewrite rev_app_distr. cbn [rev app find]. rewrite (Nat.eqb_sym j (fst w)).
  destruct (fst w =? j) eqn:E; cbn [andb option_map].
  - apply Nat.eqb_eq in E. subst j. destruct (fst w <? length buf) eqn:E2; [reflexivity|].
    rewrite IH. destruct (option_map snd _); [reflexivity|].
    apply Nat.ltb_ge in E2. apply nth_error_None. exact E2.
  - exact IH.
Qed.

Lemma last_write_In {O} j (ws : list (nat * O)) : In j (map fst ws) -> last_write j ws <> None.
Proof.
  intros Hin H. unfold last_write in H. destruct (find _ (rev ws)) eqn:E; [discriminate|].
  apply in_map_iff in Hin. destruct Hin as (w & Hw & Hi).
  pose proof (find_none _ _ E w ltac:(apply -> in_rev; exact Hi)) as Hf. cbn in Hf.
  apply Nat.eqb_neq in Hf. contradiction.
Qed.

Lemma last_write_not_In {O} j (ws : list (nat * O)) : ~ In j (map fst ws) -> last_write j ws = None.
Proof.
  intros Hn. unfold last_write. destruct (find _ (rev ws)) as [w|] eqn:E; [|reflexivity].
  apply find_some in E. destruct E as [Hi Hf]. apply Nat.eqb_eq in Hf. exfalso. apply Hn.
  apply in_map_iff. exists w. split; [exact Hf|]. apply in_rev. exact Hi.
Qed.

Lemma last_write_mem {O} j (ws : list (nat * O)) v : last_write j ws = Some v -> In (j, v) ws.
Proof.
  unfold last_write. destruct (find _ (rev ws)) as [w|] eqn:E; [|discriminate].
  intros H. injection H as <-. apply find_some in E. destruct E as [Hi Hf]. apply Nat.eqb_eq in Hf.
  apply in_rev in Hi. destruct w as [k x]. cbn in *. subst k. exact Hi.
Qed.

Lemma NoDup_fst_functional {O} (ws : list (nat * O)) j v v' :
  NoDup (map fst ws) -> In (j, v) ws -> In (j, v') ws -> v = v'.
Proof.
  induction ws as [|[k x] ws IH]; intros Hnd H1 H2; [destruct H1|].
  cbn [map fst] in Hnd. inversion Hnd as [|? ? Hnot Hnd']; subst.
  destruct H1 as [H1|H1], H2 as [H2|H2].
  - congruence.
  - injection H1 as -> ->. exfalso. apply Hnot. apply in_map_iff. exists (j, v'). split; [reflexivity|exact H2].
  - injection H2 as -> ->. exfalso. apply Hnot. apply in_map_iff. exists (j, v). split; [reflexivity|exact H1].
  - apply IH; assumption.
Qed.

Lemma all_written_is_map_Some {O} (buf : list (option O)) :
  (forall j, j < length buf -> exists v, nth_error buf j = Some (Some v)) -> exists l, buf = map Some l.
Proof.
  induction buf as [|c buf IH]; intros H; [exists []; reflexivity|].
  destruct (H 0 ltac:(cbn; lia)) as [v Hv]. cbn in Hv. injection Hv as ->.
  destruct IH as [l Hl]. { intros j Hj. apply (H (S j)). cbn. lia. }
  exists (v :: l). cbn. f_equal. exact Hl.
Qed.

(* every slot stored at least once: the buffer is exposed, complete, and slot j holds the LAST value stored there *)
Lemma writes_cover_all {O} (ws : list (nat * O)) n :
  (forall j, j < n -> In j (map fst ws)) ->
  exists l, finish (apply_writes ws (repeat None n)) = Done l /\ length l = n /\
            forall j, j < n -> nth_error l j = last_write j ws.
Proof.
  intros Hall. set (buf := apply_writes ws (repeat None n)).
  assert (Hlen : length buf = n) by (unfold buf; rewrite apply_writes_length; apply repeat_length).
  assert (Hslot : forall j, j < n -> nth_error buf j = option_map Some (last_write j ws) /\ last_write j ws <> None).
  { intros j Hj. pose proof (last_write_In j ws (Hall j Hj)) as Hne. split; [|exact Hne].
    unfold buf. rewrite apply_writes_nth, repeat_length.
    replace (j <? n) with true by (symmetry; apply Nat.ltb_lt; exact Hj).
    destruct (last_write j ws); [reflexivity|contradiction]. }
  destruct (all_written_is_map_Some buf) as [l Hl].
  { intros j Hj. rewrite Hlen in Hj. destruct (Hslot j Hj) as [H1 H2].
    destruct (last_write j ws) as [v|]; [|contradiction]. exists v. exact H1. }
  exists l. split; [|split].
  - unfold finish. rewrite Hl, assume_init_map_Some. reflexivity.
  - rewrite <- Hlen, Hl, map_length. reflexivity.
  - intros j Hj. destruct (Hslot j Hj) as [H1 _]. rewrite Hl, nth_error_map in H1.
    destruct (nth_error l j), (last_write j ws); cbn in H1; congruence.
Qed.

(* every slot exactly once, in any order (a permutation of 0..n-1 — e.g. vrank's uset order): slot j holds THE value
   stored at j *)
Lemma writes_permutation {O} (ws : list (nat * O)) n :
  Permutation (map fst ws) (seq 0 n) ->
  exists l, finish (apply_writes ws (repeat None n)) = Done l /\ length l = n /\
            forall j v, In (j, v) ws -> nth_error l j = Some v.
Proof.
  intros Hp.
  assert (Hnd : NoDup (map fst ws)) by (apply (Permutation_NoDup (Permutation_sym Hp)); apply seq_NoDup).
  assert (Hall : forall j, j < n -> In j (map fst ws)).
  { intros j Hj. apply (Permutation_in _ (Permutation_sym Hp)). apply in_seq. lia. }
  destruct (writes_cover_all ws n Hall) as (l & Hf & Hl & Hs). exists l. split; [exact Hf|]. split; [exact Hl|].
  intros j v Hin.
  assert (Hj : j < n).
  { assert (In j (seq 0 n)) as H by (apply (Permutation_in _ Hp); apply in_map_iff; exists (j, v); split; [reflexivity|exact Hin]).
    apply in_seq in H. lia. }
  specialize (Hs j Hj). destruct (last_write j ws) as [v'|] eqn:E.
  - apply last_write_mem in E. rewrite (NoDup_fst_functional ws j v v' Hnd Hin E). exact Hs.
  - exfalso. apply (last_write_In j ws (Hall j Hj)). exact E.
Qed.

(* a slot that is never stored keeps the buffer from being exposed as initialised *)
Lemma missing_slot_uninit {O} (ws : list (nat * O)) n j :
  j < n -> ~ In j (map fst ws) ->
  finish (apply_writes ws (repeat None n)) = Uninit (apply_writes ws (repeat None n)).
Proof.
  intros Hj Hn. unfold finish.
  assert (H : assume_init (apply_writes ws (repeat None n)) = None).
  { apply assume_init_None_iff. exists j. rewrite apply_writes_nth, (last_write_not_In j ws Hn).
    rewrite nth_error_repeat. replace (j <? n) with true by (symmetry; apply Nat.ltb_lt; exact Hj). reflexivity. }
  rewrite H. reflexivity.
Qed.

(* an out-of-range store is dropped by the model buffer (it is what C10 forbids) — it never changes a slot *)
Lemma set_nth_out_of_range {O} i (v : O) buf : length buf <= i -> set_nth i v buf = buf.
Proof.
  intros H. apply nth_error_ext. intros j. rewrite set_nth_nth.
  replace (i <? length buf) with false by (symmetry; apply Nat.ltb_ge; exact H). rewrite Bool.andb_false_r. reflexivity.
Qed.

(* the output container does not matter: the collected sequence read back from a Vec / VecDeque / Array1 / one chunk *)
Lemma output_container_irrelevant {A} (l : list A) (lo : list (option A)) :
  ring_to_list (ring_of_list l) = l /\ strided_to_list (strided_of_list l) = l /\ arc_to_list l = l
  /\ chunked_to_list [lo] = lo.
Proof.
  split; [apply ring_of_list_spec|]. split; [apply strided_of_list_spec|]. split; [reflexivity|].
  unfold chunked_to_list. cbn. apply app_nil_r.
Qed.

(* ================================================================================================================= *)
(* (8) returned path / caller-buffer path for EVERY window                                                            *)
(* ================================================================================================================= *)
Section Paths.
  Context {T St O : Type}.

  Lemma ts_run_out_path_any_window (F : feat T St O) (w : nat) (xs : list T) :
    ts_run F true w xs = ts_run F false w xs.
  Proof.
    destruct (bad_window_cases w xs) as [(Hb & _)|(Hb & [Hw| ->])].
    - unfold ts_run, rolling_apply_to, rolling_apply_default. rewrite Hb. reflexivity.
    - rewrite !ts_run_iter by exact Hw. reflexivity.
    - rewrite !ts_run_empty. reflexivity.
  Qed.

  (* total description: rejected exactly for window 0 on a non-empty series, otherwise complete *)
  Lemma ts_run_outcome (F : feat T St O) (w : nat) (xs : list T) (body : bool) :
    if bad_window w xs then ts_run F body w xs = Panicked AssertFail
    else exists out, ts_run F body w xs = Done out /\ length out = length xs.
  Proof.
    destruct (bad_window_cases w xs) as [(Hb & _)|(Hb & [Hw| ->])]; rewrite Hb.
    - unfold ts_run, rolling_apply_to, rolling_apply_default. rewrite Hb. destruct body; reflexivity.
    - apply ts_run_total. exact Hw.
    - exists []. rewrite ts_run_empty. split; reflexivity.
  Qed.

  (* slice form: the caller-buffer body (rolling_custom_to; also the Vec / ndarray override of the returned path) and
     the lazy body (rolling_custom_iter collected) agree for every window >= 1 ... *)
  Lemma custom_paths_agree (w : nat) (f : St -> list T -> St * O) (s0 : St) (xs : list T) :
    1 <= w -> rolling_custom_to w f s0 xs = rolling_custom_default w f s0 xs.
  Proof. intros Hw. rewrite rolling_custom_to_eq, rolling_custom_default_eq by exact Hw. reflexivity. Qed.

  (* ... and at window 0 they DIFFER for every series: the lazy body computes `window - 1` first *)
  Lemma custom_paths_window0 (f : St -> list T -> St * O) (s0 : St) (xs : list T) :
    rolling_custom_default 0 f s0 xs = Panicked Underflow /\
    rolling_custom_to 0 f s0 xs = (if length xs =? 0 then Done [] else Panicked AssertFail) /\
    rolling_custom_to 0 f s0 xs <> rolling_custom_default 0 f s0 xs.
  Proof.
    rewrite rolling_custom_default_total, rolling_custom_to_total. cbn [Nat.eqb].
    destruct xs as [|x xs]; cbn; repeat split; discriminate.
  Qed.

  (* remove/add and window-index forms: the two bodies reject the same inputs with the same panic, every window *)
  Lemma apply_paths_reject_alike (w : nat) (f : St -> option T * T -> St * O) (s0 : St) (xs : list T) :
    (rolling_apply_to w f s0 xs = Panicked AssertFail <-> bad_window w xs = true) /\
    (rolling_apply_default w f s0 xs = Panicked AssertFail <-> bad_window w xs = true).
  Proof.
    rewrite rolling_apply_to_total, rolling_apply_default_total.
    destruct (bad_window w xs); split; split; intros H; try reflexivity; discriminate.
  Qed.

  Lemma apply_idx_paths_reject_alike (w : nat) (f : St -> option nat * nat * T -> St * O) (s0 : St) (xs : list T) :
    (rolling_apply_idx_to w f s0 xs = Panicked AssertFail <-> bad_window w xs = true) /\
    (rolling_apply_idx_default w f s0 xs = Panicked AssertFail <-> bad_window w xs = true).
  Proof.
    rewrite rolling_apply_idx_to_total, rolling_apply_idx_default_total.
    destruct (bad_window w xs); split; split; intros H; try reflexivity; discriminate.
  Qed.
End Paths.

(* the lazy slice form collected by a trusted-length collector / written through write_trust_iter into a buffer of
   the series' length: the announced length is the number of items, so both give the sequence the iterator yields *)
Lemma lazy_collected_and_written {O} (items : list O) :
  collect_trusted (length items) items = Done items /\
  (let r := write_trust_iter (length items) (exact_iter items) in
   fst r = WOk /\ map fst (snd r) = seq 0 (length items)
   /\ finish (apply_writes (snd r) (repeat None (length items))) = Done items).
Proof.
  split.
  - pose proof (collect_from_trusted_exact BRaw items) as H. exact H.
  - cbv zeta. pose proof (write_trust_iter_spec (repeat None (length items)) items) as H. cbv zeta in H.
    rewrite repeat_length in H. destruct H as (H & _). destruct (H eq_refl) as (H1 & H2 & H3).
    split; [exact H1|]. split; [exact H2|]. rewrite H3. unfold finish. rewrite assume_init_map_Some. reflexivity.
Qed.
