(* Proofs/Audit13.v — audit of property C13 (notes/C13.md, "Audit matrix"): the clauses that had no
   theorem, a hypothesis that could be weakened to exactly what the code rejects, what must NOT change,
   and the degenerate / rejected inputs.  Part 1: axiom-free (lists, Z).  Part 2 (end of file): the two
   numeric carriers — exact reals with a null (option R) and Coq's primitive binary64.            *)
From Coq Require Import ZArith List Lia Bool.
From Tevec Require Import Base.Prelude Model.MapOps Spec.MapOps Proofs.MapOps.
Import ListNotations.
Local Open Scope Z_scope.

(* ================================================================================================ *)
(* (A) i32 lag arithmetic: what `n.unsigned_abs() as usize` is, and why the model may use Z.abs        *)
(* ================================================================================================ *)
(* two's complement i32 / u32 (core::num): wrapping_neg, wrapping_abs, `as u32`, unsigned_abs *)
Definition i32_min : Z := - 2 ^ 31.
Definition i32_max : Z := 2 ^ 31 - 1.
Definition in_i32 (n : Z) : Prop := i32_min <= n <= i32_max.
Definition wrap_i32 (z : Z) : Z := (z + 2 ^ 31) mod 2 ^ 32 - 2 ^ 31.
Definition as_u32 (z : Z) : Z := z mod 2 ^ 32.
Definition i32_wrapping_abs (n : Z) : Z := if n <? 0 then wrap_i32 (- n) else n.
Definition i32_unsigned_abs (n : Z) : Z := as_u32 (i32_wrapping_abs n).
(* `-n` / `n.abs()` on i32 in a debug build *)
Definition i32_checked_neg (n : Z) : res Z := if - n <=? i32_max then Ok (- n) else Panic Overflow.

Lemma i32_unsigned_abs_spec n : in_i32 n -> i32_unsigned_abs n = Z.abs n.
Proof.
  unfold in_i32, i32_min, i32_max, i32_unsigned_abs, i32_wrapping_abs, as_u32, wrap_i32. intros H.
  destruct (n <? 0) eqn:E.
  - apply Z.ltb_lt in E.
    destruct (Z.eq_dec n (- 2 ^ 31)) as [->|Hne]; [reflexivity|].
    rewrite (Z.mod_small (- n + 2 ^ 31)) by lia.
    rewrite Z.mod_small by lia. lia.
  - apply Z.ltb_ge in E. rewrite Z.mod_small by lia. lia.
Qed.

(* the lag as a usize: never more than 2^31, so the cast `as usize` (>= 32 bits) is lossless *)
Lemma i32_unsigned_abs_range n : in_i32 n -> 0 <= i32_unsigned_abs n <= 2 ^ 31.
Proof. intros H. rewrite i32_unsigned_abs_spec by exact H. unfold in_i32, i32_min, i32_max in H. lia. Qed.

(* at i32::MIN the signed negation is not available: `-n` overflows (debug panic), the wrapping one
   returns i32::MIN itself; unsigned_abs is the only way to 2^31 *)
Lemma i32_min_neg : i32_checked_neg i32_min = Panic Overflow /\ i32_wrapping_abs i32_min = i32_min /\
                    i32_unsigned_abs i32_min = 2 ^ 31 /\ i32_unsigned_abs i32_max = 2 ^ 31 - 1.
Proof. repeat split; reflexivity. Qed.

(* ================================================================================================ *)
(* (B) shift / vshift: lag 0 is the identity, |n| >= len is all fill, missing fill                    *)
(* ================================================================================================ *)
Section ShiftAudit.
  Context {T : Type}.

  Lemma shift_zero (v : T) xs : shift 0 v xs = Ok xs.
  Proof.
    unfold shift. cbn [Z.abs]. destruct (Z.of_nat (length xs) <=? 0) eqn:E; [|reflexivity].
    apply Z.leb_le in E. destruct xs; [reflexivity|cbn [length] in E; lia].
  Qed.

  Lemma shift_beyond n (v : T) xs :
    Z.of_nat (length xs) <= Z.abs n -> shift n v xs = Ok (repeat v (length xs)).
  Proof. intros H. unfold shift. rewrite (proj2 (Z.leb_le _ _) H). reflexivity. Qed.

  (* the i32 extremes are ordinary lags: anything shorter than 2^31 elements becomes all fill *)
  Lemma shift_extreme n (v : T) xs :
    n = i32_min \/ n = i32_max -> Z.of_nat (length xs) < 2 ^ 31 -> shift n v xs = Ok (repeat v (length xs)).
  Proof. intros [-> | ->] H; apply shift_beyond; unfold i32_min, i32_max; lia. Qed.

  Lemma shift_length n (v : T) xs r : shift n v xs = Ok r -> length r = length xs.
  Proof.
    intros H. destruct (shift_positional n v xs) as (r' & Hr & Hl & _). rewrite Hr in H. injection H as <-. exact Hl.
  Qed.

  Context {I : Type} (d : NullDict T I).

  (* vshift is decided by the fill alone: it returns iff the effective fill value exists *)
  Lemma vshift_total_iff n value xs :
    (exists r, vshift d n value xs = Ok r) <-> (exists v, or_none d value = Ok v).
  Proof.
    unfold vshift. destruct (or_none d value) as [v|k]; cbn [bind].
    - destruct (shift_positional n v xs) as (r & Hr & _). split; intros _; eauto.
    - split; intros (x & Hx); discriminate.
  Qed.

  Lemma vshift_panic_iff n value xs k :
    vshift d n value xs = Panic k <-> (value = None /\ none d = Panic k).
  Proof.
    unfold vshift, or_none. destruct value as [v|].
    - cbn [bind]. destruct (shift_positional n v xs) as (r & Hr & _). rewrite Hr.
      split; [discriminate|intros (H & _); discriminate].
    - destruct (none d) as [v|k'] eqn:E; cbn [bind].
      + destruct (shift_positional n v xs) as (r & Hr & _). rewrite Hr.
        split; [discriminate|intros (_ & H); discriminate].
      + split; [intros H; injection H as ->; auto|intros (_ & H); injection H as ->; reflexivity].
  Qed.

  Lemma vshift_length n value xs r : vshift d n value xs = Ok r -> length r = length xs.
  Proof.
    unfold vshift. destruct (or_none d value) as [v|k]; cbn [bind]; [apply shift_length|discriminate].
  Qed.

  Lemma vshift_zero value v xs : or_none d value = Ok v -> vshift d 0 value xs = Ok xs.
  Proof. intros H. unfold vshift. rewrite H. cbn [bind]. apply shift_zero. Qed.
End ShiftAudit.

(* ================================================================================================ *)
(* (C) vdiff / vpct_change: length with no hypothesis, lag 0, |n| >= len, missing fill               *)
(* ================================================================================================ *)
Section DiffAudit.
  Context {T I : Type} (d : NullDict T I) (sub : T -> T -> T).

  Lemma vdiff_length n value xs r : vdiff d sub n value xs = Ok r -> length r = length xs.
  Proof.
    intros H. unfold vdiff in H. destruct (or_none d value) as [v|k] eqn:Hv; [|discriminate].
    destruct (vdiff_positional d sub n value xs Hv) as (r' & Hr & Hl & _).
    unfold vdiff in Hr. rewrite Hv in Hr. rewrite Hr in H. injection H as <-. exact Hl.
  Qed.

  Lemma vdiff_panic_iff n value xs k :
    vdiff d sub n value xs = Panic k <-> (value = None /\ none d = Panic k).
  Proof.
    destruct (or_none d value) as [v|k'] eqn:Hv.
    - destruct (vdiff_positional d sub n value xs Hv) as (r & Hr & _). rewrite Hr.
      split; [discriminate|]. intros (-> & H). cbn in Hv. congruence.
    - assert (Hp : vdiff d sub n value xs = Panic k') by (unfold vdiff; rewrite Hv; reflexivity).
      rewrite Hp. unfold or_none in Hv. destruct value as [v|]; [discriminate|].
      split; [intros H; injection H as ->; auto|intros (_ & H); congruence].
  Qed.

  (* lag 0: x[i] - x[i] at every position, the fill value is not used *)
  Lemma vdiff_zero value v xs :
    or_none d value = Ok v -> vdiff d sub 0 value xs = Ok (map (fun x => sub x x) xs).
  Proof.
    intros Hv. unfold vdiff. rewrite Hv. cbn [bind Z.abs].
    destruct (Z.of_nat (length xs) <=? 0) eqn:E.
    - apply Z.leb_le in E. destruct xs; [reflexivity|cbn [length] in E; lia].
    - cbn [Z.ltb Z.compare Z.to_nat skipn repeat]. rewrite app_nil_r. f_equal.
      clear E. induction xs as [|x xs IH]; [reflexivity|]. cbn [combine map fst snd]. f_equal. exact IH.
  Qed.

  Lemma vdiff_beyond n value v xs :
    or_none d value = Ok v -> Z.of_nat (length xs) <= Z.abs n ->
    vdiff d sub n value xs = Ok (repeat v (length xs)).
  Proof.
    intros Hv H. unfold vdiff. rewrite Hv. cbn [bind]. rewrite (proj2 (Z.leb_le _ _) H). reflexivity.
  Qed.
End DiffAudit.

Section PctAudit.
  Context {T I F : Type} (d : NullDict T I) (o : FOps F) (cast : T -> F).

  (* vpct_change never panics and always returns len items: no assumption on the float operations *)
  Lemma vpct_change_total n xs : exists r, vpct_change d o cast n xs = Ok r /\ length r = length xs.
  Proof.
    unfold vpct_change. destruct (Z.of_nat (length xs) <=? Z.abs n) eqn:Hg.
    - eexists. split; [reflexivity|apply repeat_length].
    - apply Z.leb_gt in Hg. destruct (0 <? n) eqn:Hp.
      + unfold usub. rewrite (proj2 (Nat.leb_le _ _)) by lia. cbn [bind].
        eexists. split; [reflexivity|].
        rewrite map_length, combine_length, app_length, repeat_length, map_length, firstn_length. lia.
      + eexists. split; [reflexivity|].
        rewrite app_length, map_length, combine_length, skipn_length, repeat_length. lia.
  Qed.

  Lemma vpct_change_length n xs r : vpct_change d o cast n xs = Ok r -> length r = length xs.
  Proof. intros H. destruct (vpct_change_total n xs) as (r' & Hr & Hl). rewrite Hr in H. injection H as <-. exact Hl. Qed.

  Lemma vpct_change_beyond n xs :
    Z.of_nat (length xs) <= Z.abs n -> vpct_change d o cast n xs = Ok (repeat (fnanv o) (length xs)).
  Proof. intros H. unfold vpct_change. rewrite (proj2 (Z.leb_le _ _) H). reflexivity. Qed.

  (* lag 0: x/x - 1 on a non-null, non-zero element, null elsewhere; no cast-law needed *)
  Lemma vpct_change_zero xs :
    vpct_change d o cast 0 xs = Ok (map (fun x => pct_neg d o cast x x) xs).
  Proof.
    unfold vpct_change. cbn [Z.abs].
    destruct (Z.of_nat (length xs) <=? 0) eqn:E.
    - apply Z.leb_le in E. destruct xs; [reflexivity|cbn [length] in E; lia].
    - cbn [Z.ltb Z.compare Z.to_nat skipn repeat]. rewrite app_nil_r. f_equal.
      clear E. induction xs as [|x xs IH]; [reflexivity|]. cbn [combine map fst snd]. f_equal. exact IH.
  Qed.
End PctAudit.

(* ================================================================================================ *)
(* (D) ffill / bfill: the default is needed exactly at a masked head (tail); that is the only panic    *)
(* ================================================================================================ *)
Section FillAudit.
  Context {T I : Type} (d : NullDict T I).

  Lemma last_valid_head_unmasked (mask : T -> bool) x l :
    mask x = false -> last_valid mask (x :: l) <> None.
  Proof.
    intros Hx E. pose proof (proj1 (last_valid_none_earlier mask (x :: l) (length (x :: l)))) as H.
    rewrite firstn_all in H. specialize (H E 0%nat x). cbn [length nth_error] in H.
    rewrite H in Hx by (try lia; reflexivity). discriminate.
  Qed.

  (* head unmasked (or empty series): the run never asks for the default, whatever `value` is *)
  Lemma ffill_run_head (mask : T -> bool) value dv xs :
    (forall x, hd_error xs = Some x -> mask x = false) ->
    run (ffill_step d mask value) None xs = map (@Ok T) (mapi (ffill_at mask dv xs) xs).
  Proof.
    intros Hh. apply nth_error_ext. intros i.
    rewrite nth_error_map, nth_error_mapi.
    destruct (nth_error xs i) as [x|] eqn:Hx.
    - rewrite (run_nth _ _ _ _ Hx), ffill_state. cbn [option_map]. f_equal.
      unfold ffill_step, ffill_at. destruct (mask x) eqn:Hm; [|reflexivity]. cbn [snd].
      destruct (last_valid mask (firstn i xs)) as [y|] eqn:El; [reflexivity|exfalso].
      destruct xs as [|x0 xs']; [destruct i; discriminate|].
      specialize (Hh x0 eq_refl).
      destruct i as [|i]; [cbn in Hx; injection Hx as ->; congruence|].
      cbn [firstn] in El. exact (last_valid_head_unmasked mask x0 _ Hh El).
    - cbn [option_map]. apply nth_error_None. rewrite run_length. apply nth_error_None. exact Hx.
  Qed.

  Theorem ffill_mask_head_unmasked (mask : T -> bool) value dv xs :
    (forall x, hd_error xs = Some x -> mask x = false) ->
    ffill_mask d mask value xs = Ok (mapi (ffill_at mask dv xs) xs).
  Proof. intros H. unfold ffill_mask. rewrite (ffill_run_head _ value dv _ H). apply sequence_map_Ok. Qed.

  (* head masked: the first item is the default; if there is none, that is the panic *)
  Lemma ffill_mask_head_masked_panics (mask : T -> bool) x xs k :
    mask x = true -> none d = Panic k -> ffill_mask d mask None (x :: xs) = Panic k.
  Proof.
    intros Hm Hn. unfold ffill_mask. cbn [run]. unfold ffill_step at 1. rewrite Hm, Hn. reflexivity.
  Qed.

  (* exactly which inputs ffill_mask rejects, and with which panic *)
  Theorem ffill_mask_panic_iff (mask : T -> bool) value xs k :
    ffill_mask d mask value xs = Panic k <->
    (value = None /\ none d = Panic k /\ exists x, hd_error xs = Some x /\ mask x = true).
  Proof.
    split.
    - intros Hp.
      destruct (or_none d value) as [dv|k'] eqn:Hv.
      { rewrite (ffill_mask_spec d mask value xs Hv) in Hp. discriminate. }
      unfold or_none in Hv. destruct value as [v|]; [discriminate|].
      destruct xs as [|x xs].
      { cbn in Hp. discriminate. }
      destruct (mask x) eqn:Hm.
      + rewrite (ffill_mask_head_masked_panics mask x xs k' Hm Hv) in Hp. injection Hp as ->.
        split; [reflexivity|]. split; [exact Hv|]. exists x. split; [reflexivity|exact Hm].
      + assert (Hh : forall y, hd_error (x :: xs) = Some y -> mask y = false)
          by (intros y Hy; cbn in Hy; injection Hy as <-; exact Hm).
        rewrite (ffill_mask_head_unmasked mask None x (x :: xs) Hh) in Hp. discriminate.
    - intros (-> & Hn & x & Hx & Hm). destruct xs as [|x0 xs]; [discriminate|].
      cbn in Hx. injection Hx as ->. apply ffill_mask_head_masked_panics; assumption.
  Qed.

  (* bfill_mask is ffill_mask on the reversed series, reversed back *)
  Lemma bfill_mask_rev (mask : T -> bool) value xs :
    bfill_mask d mask value xs = (do l <- ffill_mask d mask value (rev xs); Ok (rev l)).
  Proof. reflexivity. Qed.

  Theorem bfill_mask_panic_iff (mask : T -> bool) value xs k :
    bfill_mask d mask value xs = Panic k <->
    (value = None /\ none d = Panic k /\ exists x, hd_error (rev xs) = Some x /\ mask x = true).
  Proof.
    rewrite bfill_mask_rev, <- ffill_mask_panic_iff.
    destruct (ffill_mask d mask value (rev xs)); cbn [bind]; split; intros H; try discriminate; exact H.
  Qed.

  Theorem bfill_mask_tail_unmasked (mask : T -> bool) value dv xs :
    (forall x, hd_error (rev xs) = Some x -> mask x = false) ->
    bfill_mask d mask value xs = Ok (mapi (bfill_at mask dv xs) xs).
  Proof.
    intros Hh.
    (* the result does not depend on `value`: compare with the run that has the default Some dv *)
    assert (E : ffill_mask d mask value (rev xs) = ffill_mask d mask (Some dv) (rev xs)).
    { rewrite (ffill_mask_head_unmasked mask value dv (rev xs) Hh).
      rewrite (ffill_mask_head_unmasked mask (Some dv) dv (rev xs) Hh). reflexivity. }
    rewrite bfill_mask_rev, E, <- bfill_mask_rev. apply bfill_mask_spec. reflexivity.
  Qed.

  (* ---- where nulls remain after ffill / bfill ---- *)
  Lemma find_some_unmasked (mask : T -> bool) l y :
    find (fun v => negb (mask v)) l = Some y -> mask y = false.
  Proof. intros H. apply find_some in H. destruct H as (_ & H). destruct (mask y); [discriminate|reflexivity]. Qed.

  Lemma find_none_all_masked (mask : T -> bool) l :
    find (fun v => negb (mask v)) l = None <-> forallb mask l = true.
  Proof.
    induction l as [|x l IH]; [cbn; tauto|]. cbn [find forallb].
    destruct (mask x); cbn [negb andb]; [exact IH|split; discriminate].
  Qed.

  Lemma forallb_rev {A} (f : A -> bool) l : forallb f (rev l) = forallb f l.
  Proof.
    induction l as [|x l IH]; [reflexivity|]. cbn [rev forallb].
    rewrite forallb_app, IH. cbn [forallb]. rewrite andb_true_r. apply andb_comm.
  Qed.

  (* a place is still masked (null) after the forward fill exactly when it was masked, everything before
     it was masked, and the default is masked too *)
  Theorem ffill_at_masked_iff (mask : T -> bool) dv xs i x :
    mask (ffill_at mask dv xs i x) = mask x && forallb mask (firstn i xs) && mask dv.
  Proof.
    unfold ffill_at. destruct (mask x) eqn:Hx; [|rewrite Hx; reflexivity]. cbn [andb].
    unfold last_valid. destruct (find (fun v => negb (mask v)) (rev (firstn i xs))) as [y|] eqn:E.
    - rewrite (find_some_unmasked mask _ y E).
      destruct (forallb mask (firstn i xs)) eqn:F; [|reflexivity].
      rewrite <- forallb_rev in F. apply find_none_all_masked in F. congruence.
    - apply find_none_all_masked in E. rewrite forallb_rev in E. rewrite E. reflexivity.
  Qed.

  Theorem bfill_at_masked_iff (mask : T -> bool) dv xs i x :
    mask (bfill_at mask dv xs i x) = mask x && forallb mask (skipn (S i) xs) && mask dv.
  Proof.
    unfold bfill_at. destruct (mask x) eqn:Hx; [|rewrite Hx; reflexivity]. cbn [andb].
    unfold next_valid. destruct (find (fun v => negb (mask v)) (skipn (S i) xs)) as [y|] eqn:E.
    - rewrite (find_some_unmasked mask _ y E).
      destruct (forallb mask (skipn (S i) xs)) eqn:F; [|reflexivity].
      apply find_none_all_masked in F. congruence.
    - apply find_none_all_masked in E. rewrite E. reflexivity.
  Qed.

  (* an unmasked (non-null) place is never touched, by either direction *)
  Lemma ffill_at_unmasked (mask : T -> bool) dv xs i x : mask x = false -> ffill_at mask dv xs i x = x.
  Proof. intros H. unfold ffill_at. rewrite H. reflexivity. Qed.
  Lemma bfill_at_unmasked (mask : T -> bool) dv xs i x : mask x = false -> bfill_at mask dv xs i x = x.
  Proof. intros H. unfold bfill_at. rewrite H. reflexivity. Qed.

  (* ---- fill ---- *)
  Lemma fill_mask_idempotent (mask : T -> bool) v xs :
    fill_mask mask v (fill_mask mask v xs) = fill_mask mask v xs.
  Proof.
    unfold fill_mask. rewrite map_map. apply map_ext. intros x.
    destruct (mask x) eqn:Hx; [|rewrite Hx; reflexivity]. destruct (mask v); reflexivity.
  Qed.

  Lemma fill_no_nulls_left v xs :
    is_none d v = false -> Forall (fun y => is_none d y = false) (fill d v xs).
  Proof.
    intros Hv. unfold fill, fill_mask. apply Forall_forall. intros y Hy.
    apply in_map_iff in Hy. destruct Hy as (x & <- & _). destruct (is_none d x) eqn:Hx; [exact Hv|exact Hx].
  Qed.

  Lemma fill_mask_unmasked (mask : T -> bool) v xs :
    (forall x, In x xs -> mask x = false) -> fill_mask mask v xs = xs.
  Proof.
    intros H. unfold fill_mask. rewrite <- (map_id xs) at 2. apply map_ext_in. intros x Hx.
    rewrite (H x Hx). reflexivity.
  Qed.

  (* fill changes the number of nulls to 0 or keeps every null a null: the null pattern afterwards *)
  Lemma fill_nullness v xs i x :
    nth_error xs i = Some x ->
    exists y, nth_error (fill d v xs) i = Some y /\ is_none d y = is_none d x && is_none d v.
  Proof.
    intros Hx. unfold fill. rewrite fill_mask_positional, Hx. cbn [option_map].
    eexists. split; [reflexivity|]. destruct (is_none d x) eqn:E; [reflexivity|exact E].
  Qed.
End FillAudit.

(* ================================================================================================ *)
(* (E) vclip: null bounds, reversed bounds, unordered (NaN-like) bounds                                *)
(* ================================================================================================ *)
Section ClipAudit.
  Context {T I : Type} (d : NullDict T I) (inner : T -> I) (ltb : I -> I -> bool).

  (* both bounds null: the series itself, for EVERY dictionary (no unwrap is evaluated) *)
  Lemma vclip_null_bounds lower upper xs :
    is_none d lower = true -> is_none d upper = true -> vclip d ltb lower upper xs = Ok xs.
  Proof. intros Hl Hu. unfold vclip. rewrite Hl, Hu. reflexivity. Qed.

  (* one bound null: the other side alone *)
  Lemma clip_elem_lower_only lower upper x :
    is_none d upper = true -> is_none d x = false -> is_none d lower = false ->
    clip_elem d inner ltb lower upper x = if ltb (inner x) (inner lower) then lower else x.
  Proof. intros Hu Hx Hl. unfold clip_elem. rewrite Hx, Hl, Hu. cbn [negb andb]. reflexivity. Qed.
  Lemma clip_elem_upper_only lower upper x :
    is_none d lower = true -> is_none d x = false -> is_none d upper = false ->
    clip_elem d inner ltb lower upper x = if ltb (inner upper) (inner x) then upper else x.
  Proof. intros Hl Hx Hu. unfold clip_elem. rewrite Hx, Hl, Hu. cbn [negb andb]. reflexivity. Qed.

  (* a bound that compares false with everything (Some(NaN), excluded by DESIGN 5.4 but accepted by the
     code): that side does nothing *)
  Lemma clip_elem_unordered_bounds lower upper x :
    (forall a, ltb a (inner lower) = false) -> (forall a, ltb (inner upper) a = false) ->
    clip_elem d inner ltb lower upper x = x.
  Proof.
    intros Hl Hu. unfold clip_elem. rewrite Hl, Hu, !andb_false_r. destruct (is_none d x); reflexivity.
  Qed.

  (* lower > upper: accepted silently; every non-null element becomes one of the two bounds, the result
     is outside [upper, lower]-order containment and a second application swaps the bounds *)
  Hypothesis ltb_irrefl : forall a, ltb a a = false.
  Hypothesis ltb_cotrans : forall a b c, ltb a b = true -> ltb a c = true \/ ltb c b = true.

  Theorem clip_elem_reversed lower upper x :
    is_none d lower = false -> is_none d upper = false -> ltb (inner upper) (inner lower) = true ->
    is_none d x = false ->
    clip_elem d inner ltb lower upper x = (if ltb (inner x) (inner lower) then lower else upper) /\
    clip_elem d inner ltb lower upper (clip_elem d inner ltb lower upper x)
    = (if ltb (inner x) (inner lower) then upper else lower).
  Proof.
    intros Hl Hu Hrev Hx.
    assert (E1 : clip_elem d inner ltb lower upper x = if ltb (inner x) (inner lower) then lower else upper).
    { unfold clip_elem. rewrite Hx, Hl, Hu. cbn [negb andb].
      destruct (ltb (inner x) (inner lower)) eqn:E; [reflexivity|].
      destruct (ltb_cotrans _ _ (inner x) Hrev) as [H|H]; [rewrite H; reflexivity|congruence]. }
    split; [exact E1|]. rewrite E1.
    destruct (ltb (inner x) (inner lower)).
    - unfold clip_elem. rewrite Hl, Hu. cbn [negb andb]. rewrite ltb_irrefl, Hrev. reflexivity.
    - unfold clip_elem. rewrite Hl, Hu. cbn [negb andb]. rewrite Hrev. reflexivity.
  Qed.
End ClipAudit.

(* over Z: the reversed-bounds behaviour is not idempotent and not contained (witness) *)
Lemma clip_reversed_Z_witness :
  let c := clip_elem dict_int (fun v : Z => v) Z.ltb 5 1 in
  c 0 = 5 /\ c (c 0) = 1 /\ c (c 0) <> c 0 /\ leb_of Z.ltb (c 0) 1 = false.
Proof. vm_compute. repeat split; discriminate. Qed.

Lemma Zltb_cotrans a b c : (a <? b) = true -> (a <? c) = true \/ (c <? b) = true.
Proof. intros H. apply Z.ltb_lt in H. destruct (Z.ltb_spec a c); [left; reflexivity|right; apply Z.ltb_lt; lia]. Qed.

(* ================================================================================================ *)
(* (F) abs / vabs over Z: |x|, non-negative, idempotent                                               *)
(* ================================================================================================ *)
Lemma vabs_Z_spec xs : vabs dict_int Z.abs xs = Ok (map Z.abs xs) /\ Forall (fun y => 0 <= y) (map Z.abs xs).
Proof.
  split; [apply vabs_int|]. apply Forall_forall. intros y Hy. apply in_map_iff in Hy.
  destruct Hy as (x & <- & _). apply Z.abs_nonneg.
Qed.

(* ================================================================================================ *)
(* Part 2 — numeric carriers                                                                          *)
(* ================================================================================================ *)
(* ---- (G) exact reals with one null: XR = option R.  The hypotheses of the generic theorems about the
        arithmetic (subtraction propagates nulls; a cast is null exactly when its argument is) are
        DISCHARGED here, and the values are the textbook x[i] - x[i-n] and x[i] / x[i-n] - 1.  ---- *)
From Coq Require Import Reals.
From Tevec Require Import Base.XR.

Definition d_xr : NullDict XR XR := dict_float xisnan None.
Definition xr_sub : XR -> XR -> XR := xlift2 Rminus.
Definition xr_ops : FOps XR :=
  {| fnanv := None; fisnan := xisnan; fis0 := fun a => xeqb a (Some 0%R);
     fdiv := xdiv; fsub := xlift2 Rminus; fone := Some 1%R |}.

(* the effective fill of an f64-like series: `value.unwrap_or(NaN)` *)
Lemma or_none_xr value : or_none d_xr value = Ok (match value with Some v => v | None => None end).
Proof. destruct value; reflexivity. Qed.

Definition diff_real (n : Z) (v : XR) (xs : list XR) (i : nat) : XR :=
  if in_range (length xs) (src n i) then
    match nth i xs None, nth (Z.to_nat (src n i)) xs None with
    | Some b, Some a => Some (b - a)%R
    | _, _ => None
    end
  else v.

Lemma in_range_lt len j : in_range len j = true -> (Z.to_nat j < len)%nat.
Proof. unfold in_range. intros H. apply andb_prop in H. destruct H as [H1 H2]. lia. Qed.

Lemma diff_at_real n v xs i : (i < length xs)%nat -> diff_at xr_sub n v xs i = diff_real n v xs i.
Proof.
  intros Hi. unfold diff_at, diff_real. destruct (in_range (length xs) (src n i)) eqn:E; [|reflexivity].
  apply in_range_lt in E.
  rewrite (nth_indep xs v None Hi), (nth_indep xs v None E).
  destruct (nth i xs None), (nth (Z.to_nat (src n i)) xs None); reflexivity.
Qed.

Theorem vdiff_real n value xs :
  exists r, vdiff d_xr xr_sub n value xs = Ok r /\ length r = length xs /\
    forall i, (i < length xs)%nat ->
      nth_error r i = Some (diff_real n (match value with Some v => v | None => None end) xs i).
Proof.
  destruct (vdiff_positional d_xr xr_sub n value xs (or_none_xr value)) as (r & Hr & Hl & Hp).
  exists r. split; [exact Hr|]. split; [exact Hl|]. intros i Hi. rewrite (Hp i Hi), diff_at_real by exact Hi.
  reflexivity.
Qed.

Definition pct_real (n : Z) (xs : list XR) (i : nat) : XR :=
  if in_range (length xs) (src n i) then
    match nth (Z.to_nat (src n i)) xs None, nth i xs None with
    | Some a, Some b => if Req_EM_T a 0 then None else Some (b / a - 1)%R
    | _, _ => None
    end
  else None.

Lemma pct_formula_real (a b : XR) :
  pct_formula d_xr xr_ops (fun x => x) a b =
  match a, b with Some a, Some b => if Req_EM_T a 0 then None else Some (b / a - 1)%R | _, _ => None end.
Proof.
  destruct a as [a|], b as [b|]; try reflexivity.
  unfold pct_formula. cbn [is_none d_xr dict_float xisnan negb andb fis0 xr_ops xeqb fdiv fsub fone fnanv xdiv].
  destruct (Req_EM_T a 0); reflexivity.
Qed.

Theorem vpct_change_real n xs :
  exists r, vpct_change d_xr xr_ops (fun x => x) n xs = Ok r /\ length r = length xs /\
    forall i, (i < length xs)%nat -> nth_error r i = Some (pct_real n xs i).
Proof.
  destruct (vpct_change_positional d_xr xr_ops (fun x => x) (fun v => eq_refl) eq_refl n xs) as (r & Hr & Hl & Hp).
  exists r. split; [exact Hr|]. split; [exact Hl|]. intros i Hi. rewrite (Hp i Hi). f_equal.
  unfold pct_at, pct_real. destruct (in_range (length xs) (src n i)) eqn:E; [|reflexivity].
  apply in_range_lt in E.
  rewrite (nth_error_nth' xs None E), (nth_error_nth' xs None Hi). apply pct_formula_real.
Qed.

(* clip over the reals: max(lo, min(hi, x)) *)
Lemma xltb_irrefl (a : XR) : xltb a a = false.
Proof. destruct a as [a|]; [|reflexivity]. cbn. destruct (Rlt_dec a a) as [H|H]; [exfalso; exact (Rlt_irrefl a H)|reflexivity]. Qed.

Lemma clip_elem_real (lo hi x : R) :
  (lo <= hi)%R ->
  clip_elem d_xr (fun v => v) xltb (Some lo) (Some hi) (Some x) = Some (Rmax lo (Rmin hi x)).
Proof.
  intros H. unfold clip_elem. cbn [is_none d_xr dict_float xisnan negb andb xltb].
  unfold Rmax, Rmin.
  destruct (Rlt_dec x lo) as [H1|H1].
  - destruct (Rle_dec hi x) as [H2|H2]; [exfalso; apply (Rlt_irrefl x); apply Rlt_le_trans with lo; [exact H1|];
                                          apply Rle_trans with hi; assumption|].
    destruct (Rle_dec lo x) as [H3|H3]; [exfalso; exact (Rlt_irrefl x (Rlt_le_trans _ _ _ H1 H3))|reflexivity].
  - destruct (Rlt_dec hi x) as [H2|H2].
    + destruct (Rle_dec hi x) as [H3|H3]; [|exfalso; apply H3; left; exact H2].
      destruct (Rle_dec lo hi) as [H4|H4]; [reflexivity|contradiction].
    + destruct (Rle_dec hi x) as [H3|H3].
      * assert (E : x = hi) by (apply Rle_antisym; [apply Rnot_lt_le; exact H2|exact H3]). subst x.
        destruct (Rle_dec lo hi); [reflexivity|contradiction].
      * destruct (Rle_dec lo x) as [H4|H4]; [reflexivity|exfalso; apply H4; apply Rnot_lt_le; exact H1].
Qed.

(* ---- (H) Coq's primitive binary64 (`float`), the instance the correspondence run executes.  From the
        standard library's specification of the primitive operations (Floats.FloatAxioms: eqb_spec,
        ltb_spec, sub_spec, abs_spec).  ---- *)
From Coq Require Import Floats.

Lemma SFcompare_refl s : s <> S754_nan -> SFcompare s s = Some Eq.
Proof.
  destruct s as [b|b| |b m e]; try congruence; intros _; cbn [SFcompare].
  - reflexivity.
  - destruct b; reflexivity.
  - rewrite Z.compare_refl. change (Pos.compare_cont Eq m m) with (Pos.compare m m).
    rewrite Pos.compare_refl. destruct b; reflexivity.
Qed.

Lemma f64_is_nan_iff (a : float) : is_nan a = true <-> Prim2SF a = S754_nan.
Proof.
  unfold is_nan. rewrite FloatAxioms.eqb_spec. unfold SFeqb.
  destruct (Prim2SF a) as [b|b| |b m e] eqn:E.
  - cbn. split; discriminate.
  - rewrite SFcompare_refl by discriminate. cbn. split; discriminate.
  - cbn. split; reflexivity.
  - rewrite SFcompare_refl by discriminate. cbn. split; discriminate.
Qed.

Lemma f64_ltb_irrefl (a : float) : (a <? a)%float = false.
Proof.
  rewrite FloatAxioms.ltb_spec. unfold SFltb.
  destruct (Prim2SF a) as [b|b| |b m e] eqn:E; try reflexivity.
  - rewrite SFcompare_refl by discriminate. reflexivity.
  - rewrite SFcompare_refl by discriminate. reflexivity.
Qed.

(* IEEE subtraction propagates NaN: the premise of C13_vdiff_null_operand at binary64 *)
Lemma f64_sub_nan (a b : float) : is_nan a = true \/ is_nan b = true -> is_nan (b - a)%float = true.
Proof.
  intros H. apply f64_is_nan_iff. rewrite FloatAxioms.sub_spec. unfold SF64sub, SFsub.
  destruct H as [H|H]; apply f64_is_nan_iff in H; rewrite H.
  - destruct (Prim2SF b); reflexivity.
  - reflexivity.
Qed.

(* |NaN| is NaN and |x| is not NaN otherwise: the premise of C13_vabs_preserves_nullness at binary64 *)
Lemma f64_abs_nan (a : float) : is_nan (abs a) = is_nan a.
Proof.
  destruct (is_nan a) eqn:E.
  - apply f64_is_nan_iff. rewrite FloatAxioms.abs_spec. apply f64_is_nan_iff in E. rewrite E. reflexivity.
  - destruct (is_nan (abs a)) eqn:E2; [|reflexivity].
    apply f64_is_nan_iff in E2. rewrite FloatAxioms.abs_spec in E2.
    destruct (Prim2SF a) eqn:Ea; try discriminate.
    assert (is_nan a = true) by (apply f64_is_nan_iff; exact Ea). congruence.
Qed.

Definition d_f64 : NullDict float float := dict_float is_nan nan.
Definition f64_fops : FOps float :=
  {| fnanv := nan; fisnan := is_nan; fis0 := fun a => (a =? 0)%float;
     fdiv := PrimFloat.div; fsub := PrimFloat.sub; fone := one |}.

Theorem vdiff_null_operand_f64 (n : Z) (v : float) (xs : list float) (i : nat) :
  in_range (length xs) (src n i) = true ->
  is_nan (nth i xs v) = true \/ is_nan (nth (Z.to_nat (src n i)) xs v) = true ->
  is_nan (diff_at PrimFloat.sub n v xs i) = true.
Proof.
  intros Hr H. apply (diff_at_null d_f64 PrimFloat.sub n v xs i); [|exact Hr|exact H].
  intros a b Hab. apply f64_sub_nan. exact Hab.
Qed.

Theorem vpct_change_f64 (n : Z) (xs : list float) :
  exists r, vpct_change d_f64 f64_fops (fun x => x) n xs = Ok r /\ length r = length xs /\
    forall i, (i < length xs)%nat -> nth_error r i = Some (pct_at d_f64 f64_fops (fun x => x) n xs i).
Proof. apply vpct_change_positional; [intros v; reflexivity|reflexivity]. Qed.

Theorem clip_f64 (lower upper x : float) :
  (is_nan lower = false -> is_nan upper = false -> (upper <? lower)%float = false) ->
  let c := clip_elem d_f64 (fun v => v) PrimFloat.ltb lower upper in
  c (c x) = c x /\ is_nan (c x) = is_nan x /\
  (is_nan x = false ->
   (is_nan lower = false -> (c x <? lower)%float = false) /\
   (is_nan upper = false -> (upper <? c x)%float = false)).
Proof.
  intros Hle c. split; [|split].
  - apply (clip_elem_idempotent d_f64 (fun v => v) PrimFloat.ltb f64_ltb_irrefl lower upper x).
    intros Hl Hu. unfold leb_of. rewrite (Hle Hl Hu). reflexivity.
  - apply (clip_elem_nullness d_f64 (fun v => v) PrimFloat.ltb lower upper x).
  - intros Hx.
    destruct (clip_elem_contained d_f64 (fun v => v) PrimFloat.ltb f64_ltb_irrefl lower upper x) as [H1 H2].
    + intros Hl Hu. unfold leb_of. rewrite (Hle Hl Hu). reflexivity.
    + exact Hx.
    + unfold leb_of in H1, H2. split; intros Hb.
      * specialize (H1 Hb). fold c in H1. destruct (c x <? lower)%float; [discriminate|reflexivity].
      * specialize (H2 Hb). fold c in H2. destruct (upper <? c x)%float; [discriminate|reflexivity].
Qed.

Theorem vabs_f64 (xs : list float) :
  vabs d_f64 abs xs = Ok (map abs xs) /\
  forall i x, nth_error xs i = Some x ->
    exists y, nth_error (map abs xs) i = Some y /\ is_nan y = is_nan x.
Proof.
  split; [apply vabs_float|]. intros i x Hx. exists (abs x). split; [|apply f64_abs_nan].
  rewrite nth_error_map, Hx. reflexivity.
Qed.

(* the operation record above is the one Run/RunC13.v executes against the real code *)
From Tevec Require Run.RunC13.
Lemma f64_fops_is_run_ops : f64_fops = Tevec.Run.RunC13.f64ops.
Proof. reflexivity. Qed.
Lemma d_f64_is_run_dict : d_f64 = Tevec.Run.RunC13.dict Tevec.Run.RunC13.pF.
Proof. reflexivity. Qed.
