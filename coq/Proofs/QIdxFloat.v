(* Proofs/QIdxFloat.v — the quantile index law at binary64.
   `vquantile` (tea-agg/src/vec_valid.rs; Model/Quantile.v) computes  h = (n-1) as f64 * q  in binary64 and
   selects at floor(h) / ceil(h) (q > 0.5: the same with fl(1 - q)).  Here, for Coq's primitive `float`
   (carrier NumF64 of Base/F64.v, floor/ceil of Run/RunC12.v), through Flocq's specification of IEEE 754:
     (A) the model's `f64_floorZ` / `f64_ceilZ` ARE the mathematical floor / ceiling of the real value;
     (B) `(n-1) as f64` is exact for n-1 < 2^53; fl((n-1) q) lies in [0, n-1] for 0 <= q <= 1 (rounding to
         nearest is monotone and fixes representable numbers); fl(1 - q) lies in [0, 1];
     (C) hence 0 <= floor <= ceil <= n-1 for both products and every q in [0, 1] when n-1 < 2^53
         (`qidx_f64_in_range`); beyond 2^53 the cast may round UP (2^53+3 becomes 2^53+4) and fl((n-1) q) <= n-1
         fails for q = 1 (`naive_product_out_of_range`) — but the code multiplies by q only when q <= 0.5 and by
         fl(1 - q) <= 0.5 otherwise, and half of the rounded length is at most n-1: the index law
         `TransQuantile.QIdxLaw` holds at binary64 for EVERY n (`qidx_f64_in_range_all`, `qidx_law_f64`);
     (D) the consequences for the model: vquantile / vmedian never panic, null transparency is an outright
         equality; (E) every non-NaN float equals itself (premise of ts_vargmin / ts_vargmax safety).
   Assumptions: the Reals axioms and the standard library's specification of the primitive float operations
   (Floats.FloatAxioms), listed per theorem in notes/C12.md.  Flocq declares none.                          *)
From Coq Require Import Reals Lra Lia ZArith List Floats Bool Psatz.
From Flocq Require Import Core BinarySingleNaN.
From Flocq Require PrimFloat.
From Tevec Require Import Base.Prelude Base.Num Base.XR Base.F64 Spec.Stats Model.Driver Model.Cmp Model.NullView
     Model.SortCmp Model.Quantile Spec.ExtremaOrd Proofs.SortCmp Proofs.TransQuantile Proofs.Kernels3 Proofs.KernelsMap
     Proofs.CmpOrd Proofs.CmpOrdFloat Proofs.RoundSum.
From Tevec Require Run.RunC12.
Import ListNotations.
Local Open Scope R_scope.

Module FP := Flocq.IEEE754.PrimFloat.
Module CF := Coq.Floats.PrimFloat.

(* ===================================================================================================== *)
(* (A) floor and ceiling                                                                                 *)
(* ===================================================================================================== *)
(* the NumFloor instance of the execution runs, restated (Run/RunC12.v is not edited) *)
Definition f64_floorZ (f : float) : Z :=
  match Prim2SF f with
  | S754_finite s m e =>
      let mz := Zpos m in
      if (0 <=? e)%Z then (if s then - (mz * 2 ^ e) else mz * 2 ^ e)%Z
      else let d := (2 ^ (- e))%Z in
           if s then (- ((mz + d - 1) / d))%Z else (mz / d)%Z
  | _ => 0%Z
  end.
Definition f64_ceilZ (f : float) : Z := (- f64_floorZ (- f)%float)%Z.
Definition NumFloorF64 : NumFloor float := {| nfloorZ := f64_floorZ; nceilZ := f64_ceilZ |}.

Lemma NumFloorF64_is_the_run_instance : NumFloorF64 = Run.RunC12.NumFloorF64.
Proof. reflexivity. Qed.

Lemma Zdiv_neg_ceil (m d : Z) : (0 < d)%Z -> (- m / d = - ((m + d - 1) / d))%Z.
Proof.
  intros Hd. symmetry. apply (Z.div_unique_pos _ _ _ (d - 1 - (m + d - 1) mod d)).
  - pose proof (Z.mod_pos_bound (m + d - 1) d Hd). lia.
  - pose proof (Z_div_mod_eq_full (m + d - 1) d). lia.
Qed.

(* the model's floor is the floor of the real value, for every finite float *)
Lemma f64_floorZ_spec (x : float) : ffin x = true -> f64_floorZ x = Zfloor (f2r x).
Proof.
  rewrite ffin_equiv. unfold f64_floorZ, f2r. rewrite <- FP.B2SF_Prim2B.
  destruct (FP.Prim2B x) as [s|s| |s m e Hb]; cbn [B2SF B2R is_finite]; try discriminate; intros _.
  - symmetry. apply (Zfloor_IZR 0).
  - unfold F2R. cbn [Fnum Fexp]. destruct (0 <=? e)%Z eqn:E.
    + apply Z.leb_le in E. rewrite <- (IZR_Zpower radix2) by exact E. rewrite <- mult_IZR, Zfloor_IZR.
      change (radix2 : Z) with 2%Z. destruct s; cbn [cond_Zopp]; lia.
    + apply Z.leb_gt in E.
      assert (Hp : bpow radix2 e = / IZR (2 ^ (- e))).
      { rewrite <- (Z.opp_involutive e) at 1. rewrite bpow_opp, <- (IZR_Zpower radix2) by lia. reflexivity. }
      rewrite Hp.
      assert (Hd : (0 < 2 ^ (- e))%Z) by (apply Z.pow_pos_nonneg; lia).
      fold (Rdiv (IZR (cond_Zopp s (Z.pos m))) (IZR (2 ^ (- e)))). rewrite Zfloor_div by lia.
      destruct s; cbn [cond_Zopp]; [|reflexivity].
      change (Z.neg m) with (- Z.pos m)%Z. symmetry. apply Zdiv_neg_ceil, Hd.
Qed.

Lemma f64_ceilZ_spec (x : float) : ffin x = true -> f64_ceilZ x = Zceil (f2r x).
Proof.
  intros H. unfold f64_ceilZ, Zceil. rewrite f64_floorZ_spec by (rewrite ffin_opp; exact H).
  rewrite f2r_opp. reflexivity.
Qed.

(* ===================================================================================================== *)
(* (B) the arithmetic of the index: (n-1) as f64, fl((n-1) q), fl(1 - q)                                 *)
(* ===================================================================================================== *)
Lemma rnd64_mono x y : x <= y -> rnd64 x <= rnd64 y.
Proof. intros H. apply round_le; [apply FLT_exp_valid; exact prec64_gt_0|apply valid_rnd_N|exact H]. Qed.
Lemma rnd64_0 : rnd64 0 = 0.
Proof. apply rnd64_id, fmt64_0. Qed.

Lemma f2r_lt_emax x : Rabs (f2r x) < bpow radix2 1024.
Proof. unfold f2r. apply (abs_B2R_lt_emax 53 1024). Qed.

(* an integer below 2^53 in magnitude is a binary64 number *)
Lemma fmt64_IZR (z : Z) : (Z.abs z < 2 ^ 53)%Z -> fmt64 (IZR z).
Proof.
  intros H. apply (grid_fmt 0); [lia|exists z; cbn [bpow]; ring|].
  rewrite <- abs_IZR. change (bpow radix2 (0 + 53)) with (IZR (2 ^ 53)). apply IZR_lt, H.
Qed.

(* `(m as f64)` is exact for m < 2^53 *)
Lemma nofnat_f64_exact (m : nat) :
  (Z.of_nat m < 2 ^ 53)%Z ->
  ffin (nofnat (A := float) m) = true /\ f2r (nofnat (A := float) m) = IZR (Z.of_nat m).
Proof.
  intros Hm. unfold nofnat. cbn [nofZ NumF64]. unfold f64_ofZ.
  set (z := Z.of_nat m) in *. assert (H0 : (0 <= z)%Z) by (unfold z; lia).
  rewrite Z.abs_eq by exact H0. destruct (Z.ltb_spec z 0) as [Hneg|_]; [lia|].
  rewrite ffin_equiv. unfold f2r. rewrite FP.of_int63_equiv.
  rewrite Uint63.of_Z_spec, Z.mod_small by (change Uint63.wB with (2 ^ 63)%Z; lia).
  pose proof (binary_normalize_correct FloatOps.prec FloatOps.emax FP.Hprec FP.Hmax mode_NE z 0 false) as HC.
  cbv zeta in HC.
  assert (Hx : F2R (Float radix2 z 0) = IZR z) by (unfold F2R; cbn [Fnum Fexp bpow]; ring).
  rewrite Hx in HC.
  match type of HC with context [round ?a ?b ?c ?d] =>
    assert (Hr : round a b c d = d) by (apply (rnd64_id d), fmt64_IZR; lia); rewrite Hr in HC end.
  rewrite Rlt_bool_true in HC.
  - destruct HC as (H1 & H2 & _). split; assumption.
  - rewrite <- abs_IZR. apply Rlt_trans with (IZR (2 ^ 53)); [apply IZR_lt; lia|].
    change (IZR (2 ^ 53)) with (bpow radix2 53). apply bpow_lt. reflexivity.
Qed.

(* fl(a * q) for a >= 0 and 0 <= q <= 1: finite, and between 0 and a *)
Lemma mul_unit_bounded (a q : float) :
  ffin a = true -> ffin q = true -> 0 <= f2r a -> 0 <= f2r q <= 1 ->
  ffin (a * q)%float = true /\ 0 <= f2r (a * q)%float <= f2r a.
Proof.
  intros Fa Fq Ha Hq. rewrite ffin_equiv in *. unfold f2r in *. rewrite FP.mul_equiv.
  pose proof (Bmult_correct FloatOps.prec FloatOps.emax FP.Hprec FP.Hmax mode_NE (FP.Prim2B a) (FP.Prim2B q)) as HC.
  set (ra := B2R (FP.Prim2B a)) in *. set (rq := B2R (FP.Prim2B q)) in *.
  assert (Hlo : 0 <= ra * rq) by (apply Rmult_le_pos; lra).
  assert (Hhi : ra * rq <= ra) by nra.
  assert (Hfa : fmt64 ra) by apply fmt64_f2r.
  match type of HC with context [round ?r ?f ?c ?d] =>
    change (round r f c d) with (rnd64 d) in HC end.
  assert (R0 : 0 <= rnd64 (ra * rq)) by (rewrite <- rnd64_0; apply rnd64_mono, Hlo).
  assert (R1 : rnd64 (ra * rq) <= ra) by (rewrite <- (rnd64_id ra Hfa) at 2; apply rnd64_mono, Hhi).
  rewrite Rlt_bool_true in HC.
  - destruct HC as (H1 & H2 & _). rewrite H1, H2, Fa, Fq. split; [reflexivity|split; assumption].
  - rewrite Rabs_pos_eq by exact R0. eapply Rle_lt_trans; [exact R1|].
    eapply Rle_lt_trans; [apply Rle_abs|]. apply (f2r_lt_emax a).
Qed.

Lemma f2r_one : f2r one = 1.
Proof. unfold f2r. rewrite FP.one_equiv, FP.Prim2B_B2Prim. apply Bone_correct. Qed.
Lemma ffin_one : ffin one = true.
Proof. reflexivity. Qed.

(* fl(1 - q) for 0 <= q <= 1: finite, and between 0 and 1 (the mirrored branch) *)
Lemma one_minus_bounded (q : float) :
  ffin q = true -> 0 <= f2r q <= 1 ->
  ffin (one - q)%float = true /\ 0 <= f2r (one - q)%float <= 1.
Proof.
  intros Fq Hq. pose proof ffin_one as F1. pose proof f2r_one as E1.
  rewrite ffin_equiv in *. unfold f2r in *. rewrite FP.sub_equiv.
  pose proof (Bminus_correct FloatOps.prec FloatOps.emax FP.Hprec FP.Hmax mode_NE (FP.Prim2B one) (FP.Prim2B q) F1 Fq) as HC.
  rewrite E1 in HC. set (rq := B2R (FP.Prim2B q)) in *.
  match type of HC with context [round ?r ?f ?c ?d] =>
    change (round r f c d) with (rnd64 d) in HC end.
  assert (Hf1 : fmt64 1) by (apply (fmt64_IZR 1); reflexivity).
  assert (R0 : 0 <= rnd64 (1 - rq)) by (rewrite <- rnd64_0; apply rnd64_mono; lra).
  assert (R1 : rnd64 (1 - rq) <= 1) by (rewrite <- (rnd64_id 1 Hf1) at 2; apply rnd64_mono; lra).
  rewrite Rlt_bool_true in HC.
  - destruct HC as (H1 & H2 & _). rewrite H1, H2. split; [reflexivity|split; assumption].
  - rewrite Rabs_pos_eq by exact R0. eapply Rle_lt_trans; [exact R1|].
    change 1 with (bpow radix2 0). apply bpow_lt. reflexivity.
Qed.

(* the guard of vquantile, `0 <= q && q <= 1` in binary64 comparisons, says: q is finite and its value is in [0, 1] *)
Lemma Prim2SF_one : Prim2SF one = S754_finite false 4503599627370496 (-52).
Proof. vm_compute. reflexivity. Qed.
Lemma Prim2SF_zero : Prim2SF zero = S754_zero false.
Proof. vm_compute. reflexivity. Qed.

Lemma unit_guard_f64 (q : float) :
  nleb (A := float) nzero q && nleb q none = true -> ffin q = true /\ 0 <= f2r q <= 1.
Proof.
  cbn [nleb nzero none NumF64]. intros H. apply andb_prop in H. destruct H as [H0 H1].
  assert (Fq : ffin q = true).
  { rewrite ffin_equiv. rewrite FloatAxioms.leb_spec in H0, H1.
    rewrite Prim2SF_zero in H0. rewrite Prim2SF_one in H1. rewrite <- FP.B2SF_Prim2B in H0, H1.
    destruct (FP.Prim2B q) as [s|s| |s m e Hb]; cbn [B2SF is_finite] in *; try reflexivity.
    - destruct s; [discriminate H0|discriminate H1].
    - discriminate H0. }
  split; [exact Fq|].
  rewrite FP.leb_equiv in H0, H1. rewrite ffin_equiv in Fq.
  rewrite Bleb_correct in H0, H1; try assumption; try (rewrite <- ffin_equiv; reflexivity).
  fold (f2r zero) in H0. fold (f2r q) in H0, H1. fold (f2r one) in H1. rewrite f2r_zero in H0. rewrite f2r_one in H1.
  split; [revert H0|revert H1]; case Rle_bool_spec; intros; try discriminate; assumption.
Qed.

(* ===================================================================================================== *)
(* (C) the index law                                                                                     *)
(* ===================================================================================================== *)
Lemma floor_ceil_between (x : R) (L : Z) :
  0 <= x <= IZR L -> (0 <= Zfloor x <= Zceil x)%Z /\ (Zceil x <= L)%Z /\ (Zceil x - Zfloor x <= 1)%Z.
Proof.
  intros [H0 H1]. pose proof (Zfloor_lb x) as Fl. pose proof (Zfloor_ub x) as Fu. pose proof (Zceil_ub x) as Cu.
  repeat split.
  - apply Zfloor_lub. exact H0.
  - apply le_IZR. lra.
  - apply Zceil_glb. exact H1.
  - assert (Zceil x <= Zfloor x + 1)%Z; [|lia]. apply Zceil_glb. rewrite plus_IZR. lra.
Qed.

(* what the selection needs from a computed fractional index h when there are n valid elements *)
Definition idx_in_range (h : float) (n : nat) : Prop :=
  ffin h = true /\ (0 <= f64_floorZ h <= f64_ceilZ h)%Z /\ (f64_ceilZ h <= Z.of_nat n - 1)%Z /\
  (f64_ceilZ h - f64_floorZ h <= 1)%Z.

Lemma idx_in_range_of_real (h : float) (n : nat) :
  ffin h = true -> 0 <= f2r h <= IZR (Z.of_nat n - 1) -> idx_in_range h n.
Proof.
  intros Fh Hh. unfold idx_in_range. rewrite (f64_floorZ_spec h Fh), (f64_ceilZ_spec h Fh).
  destruct (floor_ceil_between _ _ Hh) as (H1 & H2 & H3). repeat split; try assumption; lia.
Qed.

(* both branches, every q in [0, 1], every n with n - 1 < 2^53 (where `(n-1) as f64` is exact) *)
Theorem qidx_f64_in_range (n : nat) (q : float) :
  (1 <= n)%nat -> (Z.of_nat n <= 2 ^ 53)%Z -> nleb (A := float) nzero q && nleb q none = true ->
  idx_in_range (nmul (nofnat (n - 1)) q) n /\ idx_in_range (nmul (nofnat (n - 1)) (nsub none q)) n.
Proof.
  intros Hn HN Hg. destruct (unit_guard_f64 q Hg) as [Fq Hq].
  destruct (nofnat_f64_exact (n - 1)) as [Fa Ea]; [lia|].
  assert (Ez : Z.of_nat (n - 1) = (Z.of_nat n - 1)%Z) by lia. rewrite Ez in Ea.
  assert (Ha : 0 <= f2r (nofnat (A := float) (n - 1))) by (rewrite Ea; apply IZR_le; lia).
  cbn [nmul nsub none NumF64]. split.
  - destruct (mul_unit_bounded _ q Fa Fq Ha Hq) as [Fh Hh]. rewrite Ea in Hh.
    apply idx_in_range_of_real; assumption.
  - destruct (one_minus_bounded q Fq Hq) as [Fq' Hq'].
    destruct (mul_unit_bounded _ _ Fa Fq' Ha Hq') as [Fh Hh]. rewrite Ea in Hh.
    apply idx_in_range_of_real; assumption.
Qed.

(* the selected index is below n *)
Theorem q_idx_ok_f64_bounded (q : float) (n : nat) :
  (Z.of_nat n <= 2 ^ 53)%Z -> q_idx_ok (NF := NumFloorF64) q n.
Proof.
  intros HN Hg Hn. destruct (qidx_f64_in_range n q ltac:(lia) HN Hg) as [(_ & A1 & A2 & _) (_ & B1 & B2 & _)].
  unfold qsel_index. cbn [nceilZ NumFloorF64]. destruct (nleb q nhalf); lia.
Qed.

(* ---- the law for EVERY n ----------------------------------------------------------------------------
   Beyond 2^53, `(n-1) as f64` may round UP (2^53+3 becomes 2^53+4), so fl((n-1) q) <= n-1 can fail for q
   close to 1.  The code never multiplies by such a q: the branch q <= 0.5 uses q, the branch q > 0.5 uses
   fl(1 - q) <= 0.5 — and half of the rounded length is at most n-1.  (The model's `nofZ` goes through a
   63-bit integer, as `usize as f64` does for every length a Rust slice can have; the statement below holds
   even where it wraps.)                                                                                  *)
Lemma mul_bounded_by (a q : float) (K : R) :
  ffin a = true -> ffin q = true -> 0 <= f2r a -> 0 <= f2r q -> f2r a * f2r q <= K -> fmt64 K ->
  K < bpow radix2 1024 ->
  ffin (a * q)%float = true /\ 0 <= f2r (a * q)%float <= K.
Proof.
  intros Fa Fq Ha Hq HK FK BK. rewrite ffin_equiv in *. unfold f2r in *. rewrite FP.mul_equiv.
  pose proof (Bmult_correct FloatOps.prec FloatOps.emax FP.Hprec FP.Hmax mode_NE (FP.Prim2B a) (FP.Prim2B q)) as HC.
  set (ra := B2R (FP.Prim2B a)) in *. set (rq := B2R (FP.Prim2B q)) in *.
  assert (Hlo : 0 <= ra * rq) by (apply Rmult_le_pos; lra).
  match type of HC with context [round ?r ?f ?c ?d] =>
    change (round r f c d) with (rnd64 d) in HC end.
  assert (R0 : 0 <= rnd64 (ra * rq)) by (rewrite <- rnd64_0; apply rnd64_mono, Hlo).
  assert (R1 : rnd64 (ra * rq) <= K) by (rewrite <- (rnd64_id K FK); apply rnd64_mono, HK).
  rewrite Rlt_bool_true in HC.
  - destruct HC as (H1 & H2 & _). rewrite H1, H2, Fa, Fq. split; [reflexivity|split; assumption].
  - rewrite Rabs_pos_eq by exact R0. eapply Rle_lt_trans; [exact R1|exact BK].
Qed.

Lemma fmt64_pow2 (k : Z) : (0 <= k)%Z -> fmt64 (IZR (2 ^ k)).
Proof.
  intros Hk. rewrite (IZR_Zpower radix2) by exact Hk. apply generic_format_FLT_bpow; [exact prec64_gt_0|lia].
Qed.

(* an integer 0 <= z < 2^63 rounds to at most twice a power of two K <= z *)
Lemma rnd64_int_le_twice (z : Z) :
  (0 <= z < 2 ^ 63)%Z ->
  exists K : Z, (0 <= K <= z)%Z /\ fmt64 (IZR K) /\ 0 <= rnd64 (IZR z) <= 2 * IZR K.
Proof.
  intros [H0 H1]. destruct (Z.eq_dec z 0) as [->|Hz].
  - exists 0%Z. split; [lia|]. split; [apply fmt64_0|]. rewrite rnd64_0. lra.
  - assert (Hp : (0 < z)%Z) by lia. pose proof (Z.log2_spec z Hp) as [L1 L2].
    pose proof (Z.log2_nonneg z) as Lk. set (k := Z.log2 z) in *.
    exists (2 ^ k)%Z. split; [split; [apply Z.pow_nonneg; lia|exact L1]|]. split; [apply fmt64_pow2, Lk|].
    split; [rewrite <- rnd64_0; apply rnd64_mono, IZR_le; lia|].
    replace (2 * IZR (2 ^ k)) with (IZR (2 ^ Z.succ k)) by (rewrite Z.pow_succ_r by exact Lk; rewrite mult_IZR; reflexivity).
    rewrite <- (rnd64_id (IZR (2 ^ Z.succ k))) by (apply fmt64_pow2; lia).
    apply rnd64_mono, IZR_le. lia.
Qed.

(* `m as f64` for every m: the correctly rounded value of m mod 2^63 *)
Lemma nofnat_f64_general (m : nat) :
  ffin (nofnat (A := float) m) = true /\
  f2r (nofnat (A := float) m) = rnd64 (IZR (Z.of_nat m mod 2 ^ 63)).
Proof.
  unfold nofnat. cbn [nofZ NumF64]. unfold f64_ofZ.
  set (z0 := Z.of_nat m). assert (H0 : (0 <= z0)%Z) by (unfold z0; lia).
  rewrite Z.abs_eq by exact H0. destruct (Z.ltb_spec z0 0) as [Hneg|_]; [lia|].
  rewrite ffin_equiv. unfold f2r. rewrite FP.of_int63_equiv.
  rewrite Uint63.of_Z_spec. change Uint63.wB with (2 ^ 63)%Z.
  pose proof (Z.mod_pos_bound z0 (2 ^ 63) eq_refl) as Hz. set (z := (z0 mod 2 ^ 63)%Z) in *.
  pose proof (binary_normalize_correct FloatOps.prec FloatOps.emax FP.Hprec FP.Hmax mode_NE z 0 false) as HC.
  cbv zeta in HC.
  assert (Hx : F2R (Float radix2 z 0) = IZR z) by (unfold F2R; cbn [Fnum Fexp bpow]; ring).
  rewrite Hx in HC.
  match type of HC with context [round ?r ?f ?c ?d] =>
    change (round r f c d) with (rnd64 d) in HC end.
  rewrite Rlt_bool_true in HC.
  - destruct HC as (H1 & H2 & _). split; assumption.
  - assert (R0 : 0 <= rnd64 (IZR z)) by (rewrite <- rnd64_0; apply rnd64_mono, IZR_le; lia).
    rewrite Rabs_pos_eq by exact R0.
    apply Rle_lt_trans with (IZR (2 ^ 63)).
    + rewrite <- (rnd64_id (IZR (2 ^ 63))) by (apply fmt64_pow2; lia). apply rnd64_mono, IZR_le. lia.
    + change (IZR (2 ^ 63)) with (bpow radix2 63). apply bpow_lt. reflexivity.
Qed.

(* the literal 0.5 *)
Lemma f2r_of_SF (x : float) s m e : Prim2SF x = S754_finite s m e -> f2r x = F2R (Float radix2 (cond_Zopp s (Zpos m)) e).
Proof.
  unfold f2r. rewrite <- FP.B2SF_Prim2B. destruct (FP.Prim2B x); cbn [B2SF]; try discriminate.
  intros [= -> -> ->]. reflexivity.
Qed.
Lemma f2r_half : f2r (nhalf (A := float)) = / 2.
Proof.
  rewrite (f2r_of_SF _ false 4503599627370496 (-53)) by (vm_compute; reflexivity).
  unfold F2R. cbn [Fnum Fexp cond_Zopp].
  change (bpow radix2 (-53)) with (/ IZR (2 ^ 53)). change (2 ^ 53)%Z with (2 * 4503599627370496)%Z.
  rewrite mult_IZR. field; apply IZR_neq; discriminate.
Qed.
Lemma ffin_half : ffin (nhalf (A := float)) = true.
Proof. vm_compute. reflexivity. Qed.

(* the factor the code multiplies the length by is in [0, 0.5] on both branches *)
Definition qfactor (q : float) : float := if nleb q nhalf then q else nsub none q.

Lemma qfactor_half (q : float) :
  nleb (A := float) nzero q && nleb q none = true ->
  ffin (qfactor q) = true /\ 0 <= f2r (qfactor q) <= / 2.
Proof.
  intros Hg. destruct (unit_guard_f64 q Hg) as [Fq Hq]. unfold qfactor.
  assert (Hb : nleb q (nhalf (A := float)) = Rle_bool (f2r q) (/ 2)).
  { cbn [nleb NumF64]. rewrite FP.leb_equiv, Bleb_correct; try (rewrite <- ffin_equiv; assumption || apply ffin_half).
    fold (f2r q). fold (f2r (nhalf (A := float))). rewrite f2r_half. reflexivity. }
  rewrite Hb. destruct (Rle_bool_spec (f2r q) (/ 2)) as [Hle|Hgt].
  - split; [exact Fq|lra].
  - cbn [nsub none NumF64]. pose proof ffin_one as F1. pose proof f2r_one as E1.
    rewrite ffin_equiv in *. unfold f2r in *. rewrite FP.sub_equiv.
    pose proof (Bminus_correct FloatOps.prec FloatOps.emax FP.Hprec FP.Hmax mode_NE (FP.Prim2B one) (FP.Prim2B q) F1 Fq) as HC.
    rewrite E1 in HC. set (rq := B2R (FP.Prim2B q)) in *.
    match type of HC with context [round ?r ?f ?c ?d] =>
      change (round r f c d) with (rnd64 d) in HC end.
    assert (Hfh : fmt64 (/ 2)) by (rewrite <- f2r_half; apply fmt64_f2r).
    assert (R0 : 0 <= rnd64 (1 - rq)) by (rewrite <- rnd64_0; apply rnd64_mono; lra).
    assert (R1 : rnd64 (1 - rq) <= / 2) by (rewrite <- (rnd64_id (/ 2) Hfh); apply rnd64_mono; lra).
    rewrite Rlt_bool_true in HC.
    + destruct HC as (H1 & H2 & _). rewrite H1, H2. split; [reflexivity|split; assumption].
    + rewrite Rabs_pos_eq by exact R0. eapply Rle_lt_trans; [exact R1|].
      apply Rlt_trans with 1; [lra|]. change 1 with (bpow radix2 0). apply bpow_lt. reflexivity.
Qed.

Lemma qsel_index_qfactor (q : float) (n : nat) :
  qsel_index (NF := NumFloorF64) q n = Z.to_nat (f64_ceilZ (nmul (nofnat (n - 1)) (qfactor q))).
Proof. unfold qsel_index, qfactor. destruct (nleb q nhalf); reflexivity. Qed.

(* both indices, every q in [0, 1], EVERY n >= 1 *)
Theorem qidx_f64_in_range_all (q : float) (n : nat) :
  nleb (A := float) nzero q && nleb q none = true -> (1 <= n)%nat ->
  idx_in_range (nmul (nofnat (n - 1)) (qfactor q)) n.
Proof.
  intros Hg Hn.
  destruct (qfactor_half q Hg) as [Ff Hf]. set (f := qfactor q) in *.
  destruct (nofnat_f64_general (n - 1)) as [Fa Ea].
  pose proof (Z.mod_pos_bound (Z.of_nat (n - 1)) (2 ^ 63) eq_refl) as Hz.
  assert (Hzle : (Z.of_nat (n - 1) mod 2 ^ 63 <= Z.of_nat (n - 1))%Z) by (apply Z.mod_le; lia).
  set (z := (Z.of_nat (n - 1) mod 2 ^ 63)%Z) in *.
  destruct (rnd64_int_le_twice z Hz) as (K & HK & FK & R0 & R1). rewrite <- Ea in R0, R1.
  set (a := nofnat (A := float) (n - 1)) in *.
  destruct (mul_bounded_by a f (IZR K) Fa Ff R0 (proj1 Hf)) as [Fh Hh].
  - nra.
  - exact FK.
  - apply Rlt_trans with (IZR (2 ^ 63)); [apply IZR_lt; lia|].
    change (IZR (2 ^ 63)) with (bpow radix2 63). apply bpow_lt. reflexivity.
  - cbn [nmul NumF64]. apply idx_in_range_of_real; [exact Fh|].
    split; [exact (proj1 Hh)|]. eapply Rle_trans; [exact (proj2 Hh)|]. apply IZR_le. lia.
Qed.

(* TransQuantile.QIdxLaw at binary64: every q, EVERY n *)
Theorem qidx_law_f64 : QIdxLaw (A := float) (NF := NumFloorF64).
Proof.
  intros q n Hg Hn. rewrite qsel_index_qfactor.
  destruct (qidx_f64_in_range_all q n Hg ltac:(lia)) as (_ & H1 & H2 & _). lia.
Qed.

(* why the branch matters: with n - 1 = 2^53 + 3 valid-minus-one elements and q = 1, the product the code does NOT
   form, fl((n-1) as f64 * 1) = 2^53 + 4, is an index outside 0 .. n-1 *)
Lemma naive_product_out_of_range :
  exists (n : nat) (q : float),
    nleb (A := float) nzero q && nleb q none = true /\ (2 <= n)%nat /\
    (Z.of_nat n - 1 < f64_ceilZ (nmul (nofnat (n - 1)) q))%Z.
Proof.
  exists (Z.to_nat (2 ^ 53 + 4)), one. split; [vm_compute; reflexivity|]. split; [lia|].
  unfold nofnat. replace (Z.of_nat (Z.to_nat (2 ^ 53 + 4) - 1)) with 9007199254740995%Z by lia.
  rewrite Z2Nat.id by lia. vm_compute. reflexivity.
Qed.

(* ===================================================================================================== *)
(* (D) consequences for the model at binary64 (every null dictionary over float: f64 with NaN as the    *)
(*     null, Option<f64>, the never-null dictionary of integer series cast to f64)                       *)
(* ===================================================================================================== *)
Lemma half_in_range_f64 : nleb (A := float) nzero nhalf && nleb (nhalf (A := float)) none = true.
Proof. vm_compute. reflexivity. Qed.

Section Consequences.
  Context {T : Type} {DT : IsNone T float}.

  Theorem vquantile_index_in_range_f64 (q : float) (xs : list T) :
    nleb (A := float) nzero q && nleb q none = true -> (2 <= count_valid xs)%nat ->
    (qsel_index (NF := NumFloorF64) q (count_valid xs) < length xs)%nat.
  Proof. apply (vquantile_index_in_range qidx_law_f64). Qed.

  Theorem vquantile_never_panics_f64 (q : float) (m : qmethod) (xs : list T) :
    exists r, vquantile (NF := NumFloorF64) q m xs = Ok r /\
              (r = None <-> nleb (A := float) nzero q && nleb q none = false).
  Proof. apply (vquantile_never_panics qidx_law_f64). Qed.

  Theorem vmedian_never_panics_f64 (xs : list T) : exists v, vmedian (NF := NumFloorF64) xs = Ok v.
  Proof. apply (vmedian_never_panics qidx_law_f64 half_in_range_f64). Qed.

  Theorem vquantile_null_transparent_f64 (q : float) (m : qmethod) (xs ys : list T) :
    NullInsert xs ys ->
    vquantile (NF := NumFloorF64) q m ys = vquantile (NF := NumFloorF64) q m xs /\
    vmedian (NF := NumFloorF64) ys = vmedian (NF := NumFloorF64) xs.
  Proof. apply (vquantile_insert_law qidx_law_f64). Qed.
End Consequences.

(* ===================================================================================================== *)
(* (E) every non-NaN float equals itself: the premise of the ts_vargmin / ts_vargmax safety theorems      *)
(* ===================================================================================================== *)
Lemma self_eq_on_ord {A T} {NA : Num A} {DT : IsNone T A} (OL : OrdLaws A) (xs : list T) :
  valid_not_nan xs -> self_eq_on xs.
Proof.
  destruct OL as [Hasym _ Heqb _].
  intros H i v Hv Hn. assert (Hok : num_ok (unwrap v)) by (apply H; [eapply nth_error_In; exact Hv|exact Hn]).
  assert (Hlt : nltb (unwrap v) (unwrap v) = false).
  { destruct (nltb (unwrap v) (unwrap v)) eqn:E; [|reflexivity].
    pose proof (Hasym _ _ Hok Hok E) as H'. congruence. }
  split; [exact Hlt|]. rewrite (Heqb _ _ Hok Hok), Hlt. reflexivity.
Qed.

Lemma f64_self_eq (x : float) : CF.is_nan x = false -> CF.ltb x x = false /\ CF.eqb x x = true.
Proof.
  intros H. destruct (self_eq_on_ord (DT := IsNoneF64) ordlaws_F64 [x]) with (i := 0%nat) (v := x) as [H1 H2].
  - intros v [<-|[]] Hv. exact Hv.
  - reflexivity.
  - exact H.
  - split; assumption.
Qed.

Lemma self_eq_on_f64 (xs : list float) : self_eq_on (DT := IsNoneF64) xs.
Proof. apply (self_eq_on_ord ordlaws_F64). intros v _ H. exact H. Qed.

Lemma self_eq_on_optf64 (xs : list (option float)) :
  valid_not_nan (DT := IsNoneOptF64) xs -> self_eq_on (DT := IsNoneOptF64) xs.
Proof. apply (self_eq_on_ord ordlaws_F64). Qed.

Theorem ts_varg_safe_f64 body w mp (xs : list float) :
  kernel_safe w xs (ts_vargmin (DT := IsNoneF64) body w mp xs) /\
  kernel_safe w xs (ts_vargmax (DT := IsNoneF64) body w mp xs).
Proof. split; [apply ts_vargmin_safe|apply ts_vargmax_safe]; apply self_eq_on_f64. Qed.

Theorem ts_varg_safe_optf64 body w mp (xs : list (option float)) :
  valid_not_nan (DT := IsNoneOptF64) xs ->
  kernel_safe w xs (ts_vargmin (DT := IsNoneOptF64) body w mp xs) /\
  kernel_safe w xs (ts_vargmax (DT := IsNoneOptF64) body w mp xs).
Proof. intros H. split; [apply ts_vargmin_safe|apply ts_vargmax_safe]; apply self_eq_on_optf64, H. Qed.

Print Assumptions f64_floorZ_spec.
Print Assumptions qidx_f64_in_range.
Print Assumptions qidx_law_f64.
Print Assumptions vquantile_null_transparent_f64.
Print Assumptions ts_varg_safe_optf64.
