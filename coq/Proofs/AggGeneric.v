(* Proofs/AggGeneric.v — facts about the aggregation folds that hold for every carrier and every null
   dictionary: the null-skipping folds are plain folds over the non-null elements; counts; first / last
   valid; any / all; the valid family is the plain family applied to the non-null elements.
   Axiom-free.                                                                                          *)
From Coq Require Import Lia List Permutation Bool.
From Tevec Require Import Base.Prelude Base.Num Model.Agg.
Import ListNotations.
Set Implicit Arguments.

Section Generic.
  Context {A T : Type} {DT : IsNone T A}.

  (* the non-null elements, in order: as elements, and unwrapped *)
  Definition valid_elems (xs : list T) : list T := filter (fun v => not_none v) xs.
  Definition vals (xs : list T) : list A := map unwrap (valid_elems xs).

  Lemma valid_elems_app xs ys : valid_elems (xs ++ ys) = valid_elems xs ++ valid_elems ys.
  Proof. apply filter_app. Qed.
  Lemma vals_app xs ys : vals (xs ++ ys) = vals xs ++ vals ys.
  Proof. unfold vals. rewrite valid_elems_app, map_app. reflexivity. Qed.
  Lemma vals_cons v xs : vals (v :: xs) = if not_none v then unwrap v :: vals xs else vals xs.
  Proof. unfold vals, valid_elems. cbn [filter]. destruct (not_none v); reflexivity. Qed.

  Lemma valid_elems_perm xs ys : Permutation xs ys -> Permutation (valid_elems xs) (valid_elems ys).
  Proof.
    induction 1 as [|x l l' _ IH|x y l|l l' l'' _ IH1 _ IH2]; unfold valid_elems in *; cbn [filter].
    - constructor.
    - destruct (not_none x); [constructor|]; exact IH.
    - destruct (not_none x), (not_none y); try apply Permutation_refl. apply perm_swap.
    - eapply Permutation_trans; eassumption.
  Qed.
  Lemma vals_perm xs ys : Permutation xs ys -> Permutation (vals xs) (vals ys).
  Proof. intros H. unfold vals. apply Permutation_map, valid_elems_perm, H. Qed.

  (* ---- iter_traits.rs ---- *)
  Lemma vfold_spec {U} (f : U -> T -> U) init xs : vfold f init xs = fold_left f (valid_elems xs) init.
  Proof.
    unfold vfold, valid_elems. revert init. induction xs as [|v xs IH]; intros init; [reflexivity|].
    cbn [fold_left filter]. destruct (not_none v); cbn [fold_left]; apply IH.
  Qed.

  Lemma vfold_n_gen {U} (f : U -> A -> U) xs n0 init :
    fold_left (fun na v => if not_none v then (S (fst na), f (snd na) (unwrap v)) else na) xs (n0, init)
    = (n0 + length (vals xs), fold_left f (vals xs) init).
  Proof.
    revert n0 init. induction xs as [|v xs IH]; intros n0 init.
    - cbn. f_equal. lia.
    - cbn [fold_left]. rewrite vals_cons. destruct (not_none v).
      + cbn [fst snd]. rewrite IH. cbn [length fold_left]. f_equal. lia.
      + apply IH.
  Qed.
  Lemma vfold_n_spec {U} (f : U -> A -> U) init xs :
    vfold_n f init xs = (length (vals xs), fold_left f (vals xs) init).
  Proof. unfold vfold_n. rewrite vfold_n_gen. reflexivity. Qed.
  Lemma vapply_n_spec {U} (f : U -> A -> U) init xs :
    vapply_n f init xs = (length (vals xs), fold_left f (vals xs) init).
  Proof. apply vfold_n_spec. Qed.

  (* ---- counts ---- *)
  Lemma count_valid_spec xs : count_valid xs = length (vals xs).
  Proof. unfold count_valid. rewrite vfold_n_spec. reflexivity. Qed.

  Lemma count_none_gen xs n0 :
    fold_left (fun n v => if is_none v then S n else n) xs n0
    = n0 + length (filter (fun v => is_none v) xs).
  Proof.
    revert n0. induction xs as [|v xs IH]; intros n0; cbn [fold_left filter]; [cbn; lia|].
    rewrite IH. destruct (is_none v); cbn [length]; lia.
  Qed.
  Lemma count_none_spec xs : count_none xs = length (filter (fun v => is_none v) xs).
  Proof. unfold count_none. rewrite count_none_gen. reflexivity. Qed.

  Lemma count_valid_plus_none xs : count_valid xs + count_none xs = length xs.
  Proof.
    rewrite count_valid_spec, count_none_spec. unfold vals, valid_elems, not_none. rewrite map_length.
    induction xs as [|v xs IH]; [reflexivity|]. cbn [filter length].
    destruct (is_none v); cbn [negb length]; lia.
  Qed.

  Lemma count_valid_perm xs ys : Permutation xs ys -> count_valid xs = count_valid ys.
  Proof. intros H. rewrite !count_valid_spec. apply Permutation_length, vals_perm, H. Qed.
  Lemma count_none_perm xs ys : Permutation xs ys -> count_none xs = count_none ys.
  Proof.
    intros H. pose proof (count_valid_plus_none xs). pose proof (count_valid_plus_none ys).
    pose proof (count_valid_perm H). pose proof (Permutation_length H). lia.
  Qed.

  (* ---- first / last valid ---- *)
  Lemma vfirst_spec xs : vfirst xs = hd_error (valid_elems xs).
  Proof.
    unfold vfirst, valid_elems. induction xs as [|v xs IH]; [reflexivity|].
    cbn [find filter]. destruct (not_none v); [reflexivity|exact IH].
  Qed.
  Lemma valid_elems_rev xs : valid_elems (rev xs) = rev (valid_elems xs).
  Proof.
    unfold valid_elems. induction xs as [|v xs IH]; [reflexivity|]. cbn [rev filter].
    rewrite filter_app, IH. cbn [filter]. destruct (not_none v); [reflexivity|apply app_nil_r].
  Qed.
  Lemma vlast_spec xs : vlast xs = hd_error (rev (valid_elems xs)).
  Proof. unfold vlast. fold (vfirst (rev xs)). rewrite vfirst_spec, valid_elems_rev. reflexivity. Qed.

  (* positional reading: the first valid element is valid, and everything before it is null *)
  Lemma vfirst_some xs v :
    vfirst xs = Some v <->
    exists pre post, xs = pre ++ v :: post /\ not_none v = true /\ Forall (fun u => is_none u = true) pre.
  Proof.
    unfold vfirst. split.
    - induction xs as [|u xs IH]; [discriminate|]. cbn [find]. destruct (not_none u) eqn:E.
      + intros [= ->]. exists [], xs. repeat split; [exact E|constructor].
      + intros H. destruct (IH H) as (pre & post & -> & Hv & Hpre). exists (u :: pre), post.
        repeat split; [exact Hv|]. constructor; [|exact Hpre].
        unfold not_none in E. destruct (is_none u); [reflexivity|discriminate].
    - intros (pre & post & -> & Hv & Hpre). induction Hpre as [|u pre Hu _ IH]; cbn [app find].
      + rewrite Hv. reflexivity.
      + unfold not_none at 1. rewrite Hu. cbn [negb]. exact IH.
  Qed.
  Lemma vfirst_none xs : vfirst xs = None <-> vals xs = [].
  Proof.
    rewrite vfirst_spec. unfold vals. destruct (valid_elems xs); cbn; split; intros; try discriminate; reflexivity.
  Qed.
  Lemma vlast_some xs v :
    vlast xs = Some v <->
    exists pre post, xs = pre ++ v :: post /\ not_none v = true /\ Forall (fun u => is_none u = true) post.
  Proof.
    unfold vlast. fold (vfirst (rev xs)). rewrite vfirst_some. split.
    - intros (pre & post & Hrev & Hv & Hpre). exists (rev post), (rev pre).
      repeat split; [|exact Hv|apply Forall_rev; exact Hpre].
      rewrite <- (rev_involutive xs), Hrev, rev_app_distr. cbn [rev]. rewrite <- app_assoc. reflexivity.
    - intros (pre & post & -> & Hv & Hpost). exists (rev post), (rev pre).
      repeat split; [|exact Hv|apply Forall_rev; exact Hpost].
      rewrite rev_app_distr. cbn [rev]. rewrite <- app_assoc. reflexivity.
  Qed.
  Lemma vlast_none xs : vlast xs = None <-> vals xs = [].
  Proof.
    rewrite vlast_spec. unfold vals. destruct (valid_elems xs) as [|a l]; cbn [rev map hd_error].
    - split; reflexivity.
    - split; [|discriminate]. destruct (rev l ++ [a]) eqn:E; [|discriminate].
      apply app_eq_nil in E. destruct E; discriminate.
  Qed.
End Generic.

(* ---- counting a value ------------------------------------------------------------------------------- *)
Section CountValue.
  Context {A : Type} {NA : Num A} {T : Type} {DT : IsNone T A}.

  Lemma count_fold_gen {X} (p : X -> bool) (l : list X) n0 :
    fold_left (fun acc x => if p x then S acc else acc) l n0 = n0 + length (filter p l).
  Proof.
    revert n0. induction l as [|x l IH]; intros n0; cbn [fold_left filter]; [cbn; lia|].
    rewrite IH. destruct (p x); cbn [length]; lia.
  Qed.

  (* plain family: the number of elements equal to the value *)
  Lemma count_value_spec (value : A) xs : count_value value xs = length (filter (fun x => neqb x value) xs).
  Proof. unfold count_value. rewrite count_fold_gen. reflexivity. Qed.

  (* valid family: a non-null value counts the valid elements equal to it, a null value counts the nulls *)
  Lemma vcount_value_spec (value : T) xs :
    vcount_value value xs =
    if not_none value then count_value (unwrap value) (vals xs) else count_none xs.
  Proof.
    unfold vcount_value. destruct (not_none value).
    - rewrite vfold_spec, count_value_spec. unfold vals.
      rewrite (count_fold_gen (fun x => neqb (unwrap x) (unwrap value))). cbn [plus].
      induction (valid_elems xs) as [|v l IH]; [reflexivity|]. cbn [filter map].
      destruct (neqb (unwrap v) (unwrap value)); cbn [length]; rewrite IH; reflexivity.
    - reflexivity.
  Qed.

  Lemma count_value_perm (value : A) xs ys : Permutation xs ys -> count_value value xs = count_value value ys.
  Proof.
    intros H. rewrite !count_value_spec. apply Permutation_length.
    induction H as [|x l l' _ IH|x y l|l l' l'' _ IH1 _ IH2]; cbn [filter].
    - constructor.
    - destruct (neqb x value); [constructor|]; exact IH.
    - destruct (neqb x value), (neqb y value); try apply Permutation_refl. apply perm_swap.
    - eapply Permutation_trans; eassumption.
  Qed.
  Lemma vcount_value_perm (value : T) xs ys : Permutation xs ys -> vcount_value value xs = vcount_value value ys.
  Proof.
    intros H. rewrite !vcount_value_spec. destruct (not_none value).
    - apply count_value_perm, vals_perm, H.
    - apply count_none_perm, H.
  Qed.
End CountValue.

(* ---- booleans ------------------------------------------------------------------------------------- *)
Section BoolAggProofs.
  Context {TB : Type} {DB : IsNone TB bool}.

  Lemma vany_spec xs : vany xs = existsb (fun b => b) (vals xs).
  Proof.
    unfold vany. rewrite vfold_spec. unfold vals.
    assert (G : forall l acc, fold_left (fun acc (x : TB) => acc || unwrap x) l acc
                              = acc || existsb (fun b => b) (map unwrap l)).
    { induction l as [|v l IH]; intros acc; cbn [fold_left map existsb]; [rewrite orb_false_r; reflexivity|].
      rewrite IH, orb_assoc. reflexivity. }
    rewrite G. reflexivity.
  Qed.
  Lemma vall_spec xs : vall xs = forallb (fun b => b) (vals xs).
  Proof.
    unfold vall. rewrite vfold_spec. unfold vals.
    assert (G : forall l acc, fold_left (fun acc (x : TB) => acc && unwrap x) l acc
                              = acc && forallb (fun b => b) (map unwrap l)).
    { induction l as [|v l IH]; intros acc; cbn [fold_left map forallb]; [rewrite andb_true_r; reflexivity|].
      rewrite IH, andb_assoc. reflexivity. }
    rewrite G. reflexivity.
  Qed.

  (* textbook reading *)
  Lemma vany_true xs : vany xs = true <-> exists v, In v xs /\ not_none v = true /\ unwrap v = true.
  Proof.
    rewrite vany_spec, existsb_exists. unfold vals, valid_elems. split.
    - intros (b & Hin & Hb). apply in_map_iff in Hin. destruct Hin as (v & Hv & Hin).
      apply filter_In in Hin. exists v. subst b. tauto.
    - intros (v & Hin & Hn & Hb). exists true. split; [|reflexivity].
      apply in_map_iff. exists v. split; [exact Hb|]. apply filter_In. tauto.
  Qed.
  Lemma vall_true xs : vall xs = true <-> forall v, In v xs -> not_none v = true -> unwrap v = true.
  Proof.
    rewrite vall_spec, forallb_forall. unfold vals, valid_elems. split.
    - intros H v Hin Hn. apply (H (unwrap v)). apply in_map_iff. exists v. split; [reflexivity|].
      apply filter_In. tauto.
    - intros H b Hin. apply in_map_iff in Hin. destruct Hin as (v & <- & Hin).
      apply filter_In in Hin. apply H; tauto.
  Qed.

  Lemma bool_eq_iff (a b : bool) : (a = true <-> b = true) -> a = b.
  Proof. destruct a, b; intuition congruence. Qed.
  Lemma vany_perm xs ys : Permutation xs ys -> vany xs = vany ys.
  Proof.
    intros H. apply bool_eq_iff. rewrite !vany_true. split; intros (v & Hin & R); exists v; split; try exact R.
    - eapply Permutation_in; eassumption.
    - eapply Permutation_in; [apply Permutation_sym|]; eassumption.
  Qed.
  Lemma vall_perm xs ys : Permutation xs ys -> vall xs = vall ys.
  Proof.
    intros H. apply bool_eq_iff. rewrite !vall_true. split; intros Hall v Hin; apply Hall.
    - eapply Permutation_in; [apply Permutation_sym|]; eassumption.
    - eapply Permutation_in; eassumption.
  Qed.
End BoolAggProofs.

(* plain any / all are existsb / forallb by definition; on null-free input the valid family agrees *)
Lemma vany_plain (xs : list bool) : vany (DB := IsNone_plain) xs = any_plain xs.
Proof.
  rewrite vany_spec. unfold vals, valid_elems, any_plain. cbn.
  induction xs as [|x xs IH]; [reflexivity|]. cbn. rewrite IH. reflexivity.
Qed.
Lemma vall_plain (xs : list bool) : vall (DB := IsNone_plain) xs = all_plain xs.
Proof.
  rewrite vall_spec. unfold vals, valid_elems, all_plain. cbn.
  induction xs as [|x xs IH]; [reflexivity|]. cbn. rewrite IH. reflexivity.
Qed.

(* ---- the valid family is the plain family on the non-null elements ------------------------------------ *)
Section ValidIsPlain.
  Context {A : Type} {NA : Num A} {T : Type} {DT : IsNone T A} {F : Type} {NF : Num F}.
  Variable tof : A -> F.

  Lemma n_sum_fold (xs : list A) n0 a0 :
    fold_left (fun na x => (S (fst na), nadd (snd na) x)) xs (n0, a0)
    = (n0 + length xs, fold_left nadd xs a0).
  Proof.
    revert n0 a0. induction xs as [|x xs IH]; intros n0 a0; cbn [fold_left length fst snd]; [f_equal; lia|].
    rewrite IH. f_equal. lia.
  Qed.
  Lemma n_sum_spec (xs : list A) :
    n_sum xs = (length xs, if 1 <=? length xs then Some (fold_left nadd xs nzero) else None).
  Proof. unfold n_sum. rewrite n_sum_fold. cbn [fst snd plus]. destruct (1 <=? length xs); reflexivity. Qed.

  Theorem vsum_is_plain_sum xs : vsum xs = sum (vals xs).
  Proof.
    unfold vsum, sum. rewrite vfold_n_spec, n_sum_spec. cbn [fst snd]. reflexivity.
  Qed.
  Theorem vmean_is_plain_mean xs :
    vmean tof xs = match mean tof (vals xs) with Some m => m | None => nnan end.
  Proof.
    unfold vmean, mean. rewrite vfold_n_spec, n_sum_spec. cbn [fst snd].
    destruct (1 <=? length (vals xs)); reflexivity.
  Qed.
  Theorem vmax_is_plain_max xs : vmax xs = pmax (vals xs).
  Proof.
    unfold vmax, pmax. rewrite vfold_spec. unfold vals. generalize (@None A).
    induction (valid_elems xs) as [|v l IH]; intros acc; [reflexivity|]. cbn [fold_left map]. apply IH.
  Qed.
  Theorem vmin_is_plain_min xs : vmin xs = pmin (vals xs).
  Proof.
    unfold vmin, pmin. rewrite vfold_spec. unfold vals. generalize (@None A).
    induction (valid_elems xs) as [|v l IH]; intros acc; [reflexivity|]. cbn [fold_left map]. apply IH.
  Qed.

  (* masked sum / mean = vsum / vmean of the selected sub-series *)
  Context {U : Type} {DU : IsNone U bool}.
  Theorem n_vsum_filter_spec xs (mask : list U) :
    n_vsum_filter xs mask =
    (count_valid (mask_filter xs mask), fold_left nadd (vals (mask_filter xs mask)) nzero).
  Proof. unfold n_vsum_filter. rewrite vfold_n_spec, count_valid_spec. reflexivity. Qed.
  Theorem n_sum_filter_is_vsum xs (mask : list U) : n_sum_filter xs mask = vsum (mask_filter xs mask).
  Proof. reflexivity. Qed.
  Theorem vmean_filter_is_vmean mp xs (mask : list U) :
    vmean_filter tof mp xs mask =
    if mp <=? count_valid (mask_filter xs mask)
    then (if 1 <=? count_valid (mask_filter xs mask) then vmean tof (mask_filter xs mask)
          else ndiv (tof nzero) (nofnat 0))
    else nnan.
  Proof.
    unfold vmean_filter, vmean, n_vsum_filter. rewrite count_valid_spec, vfold_n_spec. cbn [fst snd].
    destruct (mp <=? length (vals (mask_filter xs mask))); [|reflexivity].
    destruct (1 <=? length (vals (mask_filter xs mask))) eqn:E; [reflexivity|].
    apply Nat.leb_gt in E. destruct (vals (mask_filter xs mask)); [reflexivity|cbn in E; lia].
  Qed.

  (* the selected sub-series: element i is kept iff its flag is present, valid and true *)
  Lemma mask_filter_spec xs (mask : list U) :
    mask_filter xs mask =
    map fst (filter (fun p : T * U => not_none (snd p) && unwrap (snd p)) (combine xs mask)).
  Proof.
    unfold mask_filter. induction (combine xs mask) as [|[v f] l IH]; [reflexivity|].
    cbn [flat_map filter fst snd]. rewrite IH. destruct (not_none f); [destruct (unwrap f)|]; reflexivity.
  Qed.
End ValidIsPlain.
