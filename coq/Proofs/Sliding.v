(* Proofs/Sliding.v — the generic add -> emit -> remove invariant (DESIGN.md 2.2).
   If an abstraction relation `Abs state window` is established by the initial state on the empty
   window, preserved by adding an element at the end and by removing the element at the front, then at
   emit time of EVERY step i of EVERY series the state abstracts exactly the window
   positions max(0,i-w+1)..=i.  "Never drifts, however long the history" is this induction.       *)
From Tevec Require Import Base.Prelude Model.Driver Proofs.Driver Model.Features.

Section Sliding.
  Context {T St O : Type}.
  Variable F : feat T St O.
  Variable Abs : St -> list T -> Prop.
  Hypothesis Abs_init : Abs (f_init F) [].
  Hypothesis Abs_pre : forall s l v, Abs s l -> Abs (f_pre F s v) (l ++ [v]).
  Hypothesis Abs_post : forall s x l, Abs s (x :: l) -> Abs (f_post F s (Some x)) l.
  Hypothesis post_none : forall s, f_post F s None = s.

  Variable w : nat.
  Hypothesis Hw : 1 <= w.
  Variable xs : list T.

  Let args := mapi (fun i v => (removed w xs i, v)) xs.

  Lemma firstn_S_args k a :
    nth_error args k = Some a -> firstn (S k) args = firstn k args ++ [a].
  Proof.
    intros Ha. apply nth_error_ext. intros j.
    rewrite nth_error_firstn, nth_error_app, firstn_length, nth_error_firstn.
    assert (Hk : k < length args) by (apply nth_error_Some; congruence).
    replace (Nat.min k (length args)) with k by lia.
    destruct (j <? k) eqn:E1.
    - apply Nat.ltb_lt in E1. replace (j <? S k) with true by (symmetry; apply Nat.ltb_lt; lia).
      reflexivity.
    - apply Nat.ltb_ge in E1. destruct (j - k) as [|d] eqn:Ed.
      + assert (j = k) by lia. subst j.
        replace (k <? S k) with true by (symmetry; apply Nat.ltb_lt; lia). exact Ha.
      + replace (j <? S k) with false by (symmetry; apply Nat.ltb_ge; lia).
        cbn. destruct d; reflexivity.
  Qed.

  (* after k steps the state abstracts the last min(k, w-1) elements *)
  Lemma state_after_abs k :
    k <= length xs ->
    Abs (state_after (feat_cb F) (f_init F) (firstn k args)) (seg (k - (w - 1)) k xs).
  Proof.
    induction k as [|k IH]; intros Hk.
    - rewrite Nat.sub_0_l, seg_nil. cbn. exact Abs_init.
    - specialize (IH ltac:(lia)).
      destruct (nth_error xs k) as [v|] eqn:Hv; [|apply nth_error_None in Hv; lia].
      assert (Ha : nth_error args k = Some (removed w xs k, v)).
      { unfold args. rewrite nth_error_mapi, Hv. reflexivity. }
      rewrite (firstn_S_args k _ Ha), state_after_app. cbn [state_after feat_cb fst snd].
      set (s := state_after (feat_cb F) (f_init F) (firstn k args)) in *.
      assert (Hpre : Abs (f_pre F s v) (seg (k - (w - 1)) (S k) xs)).
      { rewrite (@seg_snoc _ (k - (w - 1)) k xs v) by (try lia; exact Hv). apply Abs_pre. exact IH. }
      unfold removed. destruct (k <? w - 1) eqn:E.
      + apply Nat.ltb_lt in E. rewrite post_none.
        replace (S k - (w - 1)) with (k - (w - 1)) by lia. exact Hpre.
      + apply Nat.ltb_ge in E.
        destruct (nth_error xs (k - (w - 1))) as [x|] eqn:Hx;
          [|apply nth_error_None in Hx; lia].
        rewrite (@seg_cons _ (k - (w - 1)) (S k) xs x) in Hpre by (try lia; exact Hx).
        replace (S k - (w - 1)) with (S (k - (w - 1))) by lia.
        apply Abs_post. exact Hpre.
  Qed.

  (* the state at emit time of step i abstracts win w i xs *)
  Theorem sliding_emit i v :
    nth_error xs i = Some v ->
    exists s, Abs s (win w i xs) /\
              nth_error (run (feat_cb F) (f_init F) args) i = Some (f_emit F s).
  Proof.
    intros Hv.
    assert (Hi : i < length xs) by (apply nth_error_Some; congruence).
    exists (f_pre F (state_after (feat_cb F) (f_init F) (firstn i args)) v). split.
    - rewrite win_seg. unfold wstart. replace (S i - w) with (i - (w - 1)) by lia.
      rewrite (@seg_snoc _ (i - (w - 1)) i xs v) by (try lia; exact Hv).
      apply Abs_pre. apply state_after_abs. lia.
    - rewrite (@run_nth _ _ _ (feat_cb F) (f_init F) args i (removed w xs i, v)).
      + reflexivity.
      + unfold args. rewrite nth_error_mapi, Hv. reflexivity.
  Qed.

  (* both driver bodies *)
  Theorem sliding_ts_run body :
    exists out, ts_run F body w xs = Done out /\ length out = length xs /\
      forall i v, nth_error xs i = Some v ->
        exists s, Abs s (win w i xs) /\ nth_error out i = Some (f_emit F s).
  Proof.
    exists (run (feat_cb F) (f_init F) args). split; [|split].
    - unfold ts_run. destruct body.
      + change (feat_cb F) with (aer (f_pre F) (f_emit F) (f_post F)).
        rewrite rolling_apply_bodies_agree by exact Hw.
        rewrite rolling_apply_default_eq by exact Hw. reflexivity.
      + rewrite rolling_apply_default_eq by exact Hw. reflexivity.
    - rewrite run_length. unfold args. apply mapi_length.
    - intros i v Hv. apply (sliding_emit i v). exact Hv.
  Qed.
End Sliding.
