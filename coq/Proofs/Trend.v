(* Proofs/Trend.v — the time-trend regressions of reg.rs (ts_vreg, ts_vtsf, ts_vreg_slope, ts_vreg_intercept,
   ts_vreg_resid_mean) at XR: the accumulator holds (n, sum x, sum t*x, sum x^2) of the non-null window with
   t = 1..n, and the closed forms are ordinary least squares of the window's values on 1..n.          *)
From Coq Require Import Reals Lra Lia List.
From Tevec Require Import Base.Prelude Base.Num Base.XR Spec.Stats Spec.Ols Model.Driver Proofs.Driver
     Model.Features Proofs.Sliding Proofs.Features Model.Binary Model.Reg Proofs.Ols.
Import ListNotations.
Local Open Scope R_scope.

Definition tr_abs (s : @tr_st XR) (l : list XR) : Prop :=
  t_n s = nv l /\ t_sum s = Some (sumR (valid l)) /\ t_xt s = Some (lwsum (valid l)) /\
  t_xx s = Some (psum 2 (valid l)).

Lemma tr_abs_init : tr_abs tr0 [].
Proof. unfold tr_abs, tr0, nv, psum, lwsum. cbn. repeat split; reflexivity. Qed.

Lemma tr_abs_pre s l v : tr_abs s l -> tr_abs (tr_pre s v) (l ++ [v]).
Proof.
  intros (Hn & Hs & Hx & Hq). unfold tr_pre, not_none.
  destruct v as [r|]; cbn [is_none IsNoneXR IsNone_float nisnan NumXR xisnan negb unwrap].
  - unfold tr_abs, nv. rewrite valid_app. cbn [valid flat_map app t_n t_sum t_xt t_xx].
    rewrite Hs, Hx, Hq, xofnat, !xmul_some, !xadd_some, sumR_app, psum_app, psum_single, app_length, Hn.
    unfold nv. cbn [length sumR fold_right]. split; [lia|]. split; [f_equal; ring|]. split; [|f_equal; ring].
    f_equal. unfold lwsum. rewrite lwsum_from_snoc. cbn [plus]. ring.
  - unfold tr_abs, nv. rewrite valid_app. cbn [valid flat_map app]. rewrite app_nil_r.
    repeat split; assumption.
Qed.

Lemma tr_abs_post s x l : tr_abs s (x :: l) -> tr_abs (tr_post s (Some x)) l.
Proof.
  intros (Hn & Hs & Hx & Hq). unfold tr_post, not_none.
  destruct x as [r|]; cbn [is_none IsNoneXR IsNone_float nisnan NumXR xisnan negb unwrap].
  - unfold tr_abs, nv in *. cbn [valid flat_map app] in *. fold (valid l) in *.
    cbn [t_n t_sum t_xt t_xx]. rewrite Hs, Hx, Hq, xmul_some, !xsub_some, Hn, psum_cons.
    cbn [length sumR fold_right]. fold (sumR (valid l)). rewrite Nat.sub_succ, Nat.sub_0_r.
    split; [reflexivity|]. split; [f_equal; ring|]. split; [|f_equal; ring].
    f_equal. unfold lwsum. cbn [lwsum_from]. rewrite lwsum_from_shift. cbn [INR]. ring.
  - unfold tr_abs, nv in *. cbn [valid flat_map app] in *. fold (valid l) in *.
    repeat split; assumption.
Qed.

Theorem tr_state_tracks_window (emit : @tr_st XR -> XR) body (w : nat) (xs : list XR) :
  (1 <= w)%nat ->
  exists out, ts_run (tr_feat emit) body w xs = Done out /\ length out = length xs /\
    forall i v, nth_error xs i = Some v ->
      exists s, tr_abs s (win w i xs) /\ nth_error out i = Some (emit s).
Proof.
  intros Hw. apply (sliding_ts_run (tr_feat emit) tr_abs); try assumption.
  - exact tr_abs_init.
  - exact tr_abs_pre.
  - exact tr_abs_post.
  - reflexivity.
Qed.

Lemma tr_entry (emit : @tr_st XR -> XR) (G : list R -> XR) body (w : nat) (xs : list XR) :
  (1 <= w)%nat ->
  (forall s W, tr_abs s W -> emit s = G (valid W)) ->
  exists out, ts_run (tr_feat emit) body w xs = Done out /\ length out = length xs /\
    forall i, (i < length xs)%nat -> nth_error out i = Some (G (valid (win w i xs))).
Proof.
  intros Hw HG. destruct (tr_state_tracks_window emit body w xs Hw) as (out & Hrun & Hlen & Hout).
  exists out. split; [exact Hrun|]. split; [exact Hlen|]. intros i Hi.
  destruct (nth_error xs i) as [v|] eqn:Hv; [|apply nth_error_None in Hv; lia].
  destruct (Hout i v Hv) as (s & Habs & Hnth). rewrite Hnth. f_equal. apply HG. exact Habs.
Qed.

(* ---- closed forms ---------------------------------------------------------------------- *)
Section ClosedForms.
  Variable s : @tr_st XR.
  Variable W : list XR.
  Hypothesis HA : tr_abs s W.
  Let V := valid W.
  Let n := length V.
  Let P := trend_pairs V.

  Lemma tr_n : t_n s = n. Proof. destruct HA as (H & _). exact H. Qed.
  Lemma tr_sum : t_sum s = Some (SA P).
  Proof. destruct HA as (_ & H & _). unfold P, trend_pairs. rewrite trend_SA. exact H. Qed.
  Lemma tr_xt : t_xt s = Some (SAB P).
  Proof. destruct HA as (_ & _ & H & _). unfold P, trend_pairs. rewrite trend_SAB. exact H. Qed.
  Lemma tr_xx : t_xx s = Some (SAA P).
  Proof. destruct HA as (_ & _ & _ & H). unfold P, trend_pairs. rewrite trend_SAA. exact H. Qed.
  Lemma tr_nP : nP P = INR n.
  Proof. unfold P, trend_pairs. rewrite trend_nP. reflexivity. Qed.

  Lemma tr_sum_t_some : tr_sum_t n = Some (SB P).
  Proof.
    unfold tr_sum_t, tr_nn. rewrite xofnat. f_equal.
    replace (n * n + n)%nat with (n * (n + 1))%nat by lia. rewrite half_nn1.
    unfold P. rewrite trend_SB1. reflexivity.
  Qed.
  Lemma tr_sum_tt_some : tr_sum_tt n = Some (nP P * SBB P).
  Proof.
    unfold tr_sum_tt, tr_nn. rewrite xofnat. change (@six XR NumXR) with (Some 6).
    rewrite xdiv_some by lra. f_equal.
    rewrite !mult_INR, !plus_INR, !mult_INR. rewrite tr_nP. unfold P. rewrite trend_SBB1.
    unfold nR. fold n. cbn [INR]. field.
  Qed.
  Lemma tr_divisor_some : tr_divisor n = Some (detB P).
  Proof. unfold tr_divisor. rewrite tr_sum_tt_some, tr_sum_t_some, powi_some, xsub_some. reflexivity. Qed.

  Lemma tr_slope_spec : tr_slope s = ols_x P (fun _ be => be).
  Proof.
    unfold tr_slope. rewrite tr_n, tr_xt, tr_sum, tr_sum_t_some, tr_divisor_some, xofnat, !xmul_some, xsub_some.
    unfold ols_x. cbn [ndiv NumXR xdiv].
    destruct (Req_EM_T (detB P) 0) as [E|E]; [reflexivity|]. f_equal.
    unfold ols_beta. rewrite tr_nP. field. exact E.
  Qed.

  Lemma tr_intercept_spec : tr_intercept s = ols_x P (fun al _ => al).
  Proof.
    unfold tr_intercept. rewrite tr_slope_spec, tr_n, tr_sum, tr_sum_t_some, xofnat. unfold ols_x.
    destruct (Req_EM_T (detB P) 0) as [E|E]; [reflexivity|].
    pose proof (det_nonzero_n P E) as Hn. rewrite tr_nP in Hn.
    cbn [nneg NumXR xlift1]. rewrite xmul_some, xadd_some, xdiv_some by exact Hn. f_equal.
    unfold ols_alpha. rewrite tr_nP. field. exact Hn.
  Qed.

  Lemma emit_slope_spec mp :
    emit_slope mp s = if (mp <=? n)%nat then ols_x P (fun _ be => be) else None.
  Proof. unfold emit_slope. rewrite tr_n, tr_slope_spec. reflexivity. Qed.
  Lemma emit_intercept_spec mp :
    emit_intercept mp s = if (mp <=? n)%nat then ols_x P (fun al _ => al) else None.
  Proof. unfold emit_intercept. rewrite tr_n, tr_intercept_spec. reflexivity. Qed.

  (* fitted value at the last point t = n *)
  Lemma emit_reg_spec mp :
    emit_reg mp s = if (mp <=? n)%nat then ols_x P (fun al be => al + be * nP P) else None.
  Proof.
    unfold emit_reg. rewrite tr_n, tr_slope_spec, tr_intercept_spec, xofnat.
    destruct (mp <=? n)%nat; [|reflexivity]. unfold ols_x.
    destruct (Req_EM_T (detB P) 0) as [E|E]; [reflexivity|].
    rewrite xmul_some, xadd_some, tr_nP. f_equal. ring.
  Qed.
  (* one-step-ahead forecast t = n + 1 *)
  Lemma emit_tsf_spec mp :
    emit_tsf mp s = if (mp <=? n)%nat then ols_x P (fun al be => al + be * (nP P + 1)) else None.
  Proof.
    unfold emit_tsf. rewrite tr_n, tr_slope_spec, tr_intercept_spec, xofnat.
    destruct (mp <=? n)%nat; [|reflexivity]. unfold ols_x.
    destruct (Req_EM_T (detB P) 0) as [E|E]; [reflexivity|].
    rewrite xmul_some, xadd_some, tr_nP, plus_INR. cbn [INR]. f_equal. ring.
  Qed.
  (* mean squared residual *)
  Lemma emit_resid_mean_spec mp :
    emit_resid_mean mp s =
    if (mp <=? n)%nat then ols_x P (fun al be => sse al be P / nP P) else None.
  Proof.
    unfold emit_resid_mean. rewrite tr_n. destruct (mp <=? n)%nat; [|reflexivity]. cbv zeta.
    rewrite tr_slope_spec, tr_intercept_spec, tr_sum, tr_xt, tr_xx, tr_sum_t_some, tr_sum_tt_some, xofnat.
    unfold ols_x. destruct (Req_EM_T (detB P) 0) as [E|E]; [reflexivity|].
    pose proof (det_nonzero_n P E) as Hn. rewrite tr_nP in Hn.
    change (@ntwo XR NumXR) with (Some 2).
    rewrite !xmul_some. rewrite xdiv_some by exact Hn. rewrite !xsub_some, !xadd_some.
    rewrite xdiv_some by exact Hn. f_equal. rewrite sse_expand, tr_nP. field. exact Hn.
  Qed.
End ClosedForms.

(* ---- a perfect line over the ranks 1..n ------------------------------------------------------ *)
Definition line (c d : R) (n : nat) : list R := map (fun t => c + d * INR t) (seq 1 n).
Lemma line_length c d n : length (line c d n) = n.
Proof. unfold line. rewrite map_length, seq_length. reflexivity. Qed.

Lemma perfect_line_fit c d n :
  (2 <= n)%nat ->
  let P := trend_pairs (line c d n) in
  detB P <> 0 /\ ols_alpha P = c /\ ols_beta P = d /\ sse (ols_alpha P) (ols_beta P) P = 0.
Proof.
  intros Hn P.
  assert (HD : detB P <> 0).
  { intros E. apply trend_det_zero_iff in E. rewrite line_length in E. lia. }
  assert (HL : Forall (fun p => fst p = c + d * snd p) P) by apply trend_line_from.
  destruct (perfect_fit c d P HD HL) as (Ha & Hb & Hs & _).
  split; [exact HD|]. split; [exact Ha|]. split; [exact Hb|exact Hs].
Qed.

(* any statistic f(alpha, beta) of the trend fit, on a window whose non-null values are a perfect line *)
Lemma perfect_line_stat c d n mp (f : R -> R -> R) :
  (2 <= n)%nat -> (mp <= n)%nat ->
  (if (mp <=? length (line c d n))%nat then ols_x (trend_pairs (line c d n)) f else None) = Some (f c d).
Proof.
  intros Hn Hmp. rewrite line_length.
  replace (mp <=? n)%nat with true by (symmetry; apply Nat.leb_le; exact Hmp).
  destruct (perfect_line_fit c d n Hn) as (HD & Ha & Hb & _). unfold ols_x.
  destruct (Req_EM_T (detB (trend_pairs (line c d n))) 0) as [E|_]; [contradiction|].
  rewrite Ha, Hb. reflexivity.
Qed.
