(* Proofs/SrcTablesOk.v — conformance of the hand-written time model with the tables GENERATED from the Rust source
   (coq/Gen/SrcTables.v, written by tools/gen_tables.py from /repo's working tree on every run of C16 / C17 / C18).
   The source tables are given a semantics here (what each recognised arm computes) and shown equal to the model's
   functions for EVERY argument; the unit pairs / unit names are finite, the timestamps are universally quantified.
   If an arm, a constant, an operator or a guard changes in the source, the generated file changes and these proofs no
   longer go through: the proof obligation breaks before any test input is run.                                      *)
From Coq Require Import ZArith List String Ascii Lia.
From Tevec Require Import Base.Prelude Model.Time Model.Parse Gen.SrcTables.
Import ListNotations.
Open Scope Z_scope.

(* ---- into_unit ------------------------------------------------------------------------------------------------- *)
Definition wrap64 (z : Z) : Z := (z + 2 ^ 63) mod 2 ^ 64 - 2 ^ 63.

(* what one recognised arm computes on the raw tick count (K > 0 in every arm) *)
Definition src_eval (op : src_op) (k x : Z) : res Z :=
  match op with
  | OpDivEuclid => Ok (x / k)              (* i64::div_euclid by a positive constant = floor division *)
  | OpMul => Time.chk64 (x * k)            (* `*` on i64, debug build: overflow panics *)
  | OpDivTrunc => Ok (Z.quot x k)          (* `/` truncates toward zero *)
  | OpWrapMul => Ok (wrap64 (x * k))
  end.

Definition src_arm (u t : tunit) : option (src_op * Z) :=
  option_map (fun a => (snd (fst a), snd a))
             (find (fun a => unit_eqb (fst (fst (fst a))) u && unit_eqb (snd (fst (fst a))) t) src_into_unit).

Definition src_into_unit_fn (u t : tunit) (x : Z) : res Z :=
  if src_into_unit_same_unit_is_identity && unit_eqb u t then Ok x
  else if src_into_unit_nat_guard && Time.is_nat x then Ok Time.NaT
  else match src_arm u t with
       | Some (op, k) => src_eval op k x
       | None => Panic OtherPanic            (* the catch-all `unimplemented!` arm *)
       end.

Theorem src_into_unit_conforms :
  forall (u t : tunit) (x : Z), src_into_unit_fn u t x = Time.into_unit u t x.
Proof.
  intros u t x. unfold src_into_unit_fn, Time.into_unit.
  destruct u, t;
    match goal with
    | |- context [src_arm ?a ?b] => let v := eval vm_compute in (src_arm a b) in change (src_arm a b) with v
    end;
    cbv [src_into_unit_same_unit_is_identity src_into_unit_nat_guard unit_eqb andb src_eval];
    try reflexivity; destruct (Time.is_nat x); reflexivity.
Qed.

(* every arm of the source divides / multiplies by a positive constant and every ordered pair of distinct units has
   exactly one arm *)
Theorem src_into_unit_table_shape :
  length src_into_unit = 12%nat /\
  forallb (fun a => 0 <? snd a) src_into_unit = true /\
  forallb (fun u => forallb (fun t => if unit_eqb u t then true else
             Nat.eqb (length (filter (fun a => unit_eqb (fst (fst (fst a))) u && unit_eqb (snd (fst (fst a))) t) src_into_unit)) 1)
           [Sec; Milli; Micro; Nano]) [Sec; Milli; Micro; Nano] = true.
Proof. vm_compute. repeat split; reflexivity. Qed.

(* the named constants of convert.rs are the model's *)
Definition const_of (n : string) : option Z := option_map snd (find (fun c => String.eqb (fst c) n) src_consts).
Theorem src_consts_conform :
  const_of "NANOS_PER_MICRO" = Some Time.NANOS_PER_MICRO /\ const_of "NANOS_PER_MILLI" = Some Time.NANOS_PER_MILLI /\
  const_of "NANOS_PER_SEC" = Some Time.NANOS_PER_SEC /\ const_of "MICROS_PER_MILLI" = Some Time.MICROS_PER_MILLI /\
  const_of "MICROS_PER_SEC" = Some Time.MICROS_PER_SEC /\ const_of "MILLIS_PER_SEC" = Some Time.MILLIS_PER_SEC /\
  const_of "SECS_PER_MINUTE" = Some Time.SECS_PER_MINUTE /\ const_of "SECS_PER_HOUR" = Some Time.SECS_PER_HOUR /\
  const_of "SECS_PER_DAY" = Some Time.SECS_PER_DAY.
Proof. vm_compute. repeat split; reflexivity. Qed.

(* ---- the unit arms of TimeDelta::parse ---------------------------------------------------------------------------- *)
Definition codes (s : string) : Parse.str := map (fun c => Z.of_nat (nat_of_ascii c)) (list_ascii_of_string s).

(* what one recognised arm `"<unit>" => <acc> = add_iNN(<acc>, n, K)` does to the three accumulators *)
Definition src_apply (acc : src_acc) (add : src_add) (k n : Z) (a : Parse.accs) : option Parse.accs :=
  let f := match add with AddI64 => Parse.add_i64 | AddI32 => Parse.add_i32 end in
  match acc with
  | AccNsecs => option_map (fun v => Parse.mk_accs v (Parse.a_secs a) (Parse.a_months a)) (f (Parse.a_nsecs a) n k)
  | AccSecs => option_map (fun v => Parse.mk_accs (Parse.a_nsecs a) v (Parse.a_months a)) (f (Parse.a_secs a) n k)
  | AccMonths => option_map (fun v => Parse.mk_accs (Parse.a_nsecs a) (Parse.a_secs a) v) (f (Parse.a_months a) n k)
  end.

Definition src_unit (s : Parse.str) : option (src_acc * src_add * Z) :=
  option_map (fun e => (snd (fst (fst e)), snd (fst e), snd e))
             (find (fun e => Parse.str_eqb s (codes (fst (fst (fst e))))) src_parse_units).

(* the source recognises exactly the unit texts of the model, in the same order ... *)
Theorem src_parse_unit_names_conform :
  map (fun e => codes (fst (fst (fst e)))) src_parse_units = map Parse.unit_str Parse.all_units.
Proof. vm_compute. reflexivity. Qed.

(* ... and each arm updates the accumulators exactly as the model's apply_unit, for every number and accumulator state *)
Theorem src_parse_units_conform :
  forall (u : Parse.unit_kind) (n : Z) (a : Parse.accs),
    match src_unit (Parse.unit_str u) with
    | Some (acc, add, k) => src_apply acc add k n a = Parse.apply_unit u n a
    | None => False
    end.
Proof.
  intros u n a.
  destruct u;
    match goal with
    | |- context [src_unit ?s] => let v := eval vm_compute in (src_unit s) in change (src_unit s) with v
    end; cbv beta iota; reflexivity.
Qed.

Print Assumptions src_into_unit_conforms.
Print Assumptions src_parse_units_conform.

(* ---- the date-time formats ------------------------------------------------------------------------------------------ *)
From Tevec Require Import Model.ParseDT.

(* tokenizer of the strftime items these formats use; None on anything else *)
Fixpoint fmt_items (l : list ascii) : option (list ParseDT.item) :=
  match l with
  | [] => Some []
  | "%"%char :: c :: r =>
      match (if Ascii.eqb c "Y" then Some IY else if Ascii.eqb c "m" then Some Imon else if Ascii.eqb c "d" then Some Iday
             else if Ascii.eqb c "H" then Some IH else if Ascii.eqb c "M" then Some IM else if Ascii.eqb c "S" then Some IS
             else if Ascii.eqb c "f" then Some If else None), fmt_items r with
      | Some i, Some t => Some (i :: t)
      | _, _ => None
      end
  | c :: r =>
      if Ascii.eqb c "%" then None
      else match fmt_items r with
           | Some t => Some ((if Ascii.eqb c " " then ISp else ILit (Z.of_nat (nat_of_ascii c))) :: t)
           | None => None
           end
  end.
Definition fmt_of (s : string) : option (list ParseDT.item) := fmt_items (list_ascii_of_string s).

(* the source's rule list is the model's, format by format and in the same order; the default format too *)
Theorem src_time_rules_conform : map fmt_of src_time_rules = map Some ParseDT.rules.
Proof. vm_compute. reflexivity. Qed.
Theorem src_strftime_default_conforms : fmt_of src_strftime_default = Some ParseDT.fmt_default.
Proof. vm_compute. reflexivity. Qed.
