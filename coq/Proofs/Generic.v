(* Proofs/Generic.v — facts that hold for EVERY add-emit-remove rolling feature, for every carrier
   (no law of the numeric class is used, so they hold bit for bit at the float instance too):
   output length (C05), prefix law / no look-ahead (C06), independence of the null encoding (C08). *)
From Tevec Require Import Base.Prelude Base.Num Model.Driver Proofs.Driver Model.Features.

Definition ts_out {T St O} (F : feat T St O) (body : bool) (w : nat) (xs : list T) : list O :=
  match ts_run F body w xs with Done l => l | _ => [] end.

Section Generic.
  Context {T St O : Type}.
  Variable F : feat T St O.

  Lemma ts_run_iter (w : nat) (xs : list T) body :
    1 <= w ->
    ts_run F body w xs = Done (run (feat_cb F) (f_init F) (mapi (fun i v => (removed w xs i, v)) xs)).
  Proof.
    intros Hw. unfold ts_run. destruct body.
    - change (feat_cb F) with (aer (f_pre F) (f_emit F) (f_post F)).
      rewrite rolling_apply_bodies_agree by exact Hw. apply rolling_apply_default_eq. exact Hw.
    - apply rolling_apply_default_eq. exact Hw.
  Qed.

  (* C05: exactly one output per input element, never a panic, never an unwritten slot *)
  Theorem ts_run_total (w : nat) (xs : list T) body :
    1 <= w -> exists out, ts_run F body w xs = Done out /\ length out = length xs.
  Proof.
    intros Hw. rewrite ts_run_iter by exact Hw. eexists. split; [reflexivity|].
    rewrite run_length. apply mapi_length.
  Qed.

  Theorem ts_run_empty (w : nat) body : ts_run F body w [] = Done [].
  Proof.
    unfold ts_run. destruct body.
    - apply empty_to.
    - apply empty_default.
  Qed.

  (* C06: evaluating on a prefix yields the prefix of the result on the whole series *)
  Lemma removed_firstn (w : nat) (xs : list T) k i :
    i < k -> removed w (firstn k xs) i = removed w xs i.
  Proof.
    intros Hi. unfold removed. destruct (i <? w - 1); [reflexivity|].
    rewrite nth_error_firstn. replace (i - (w - 1) <? k) with true by (symmetry; apply Nat.ltb_lt; lia).
    reflexivity.
  Qed.

  Theorem ts_out_prefix (w : nat) (xs : list T) body k :
    1 <= w -> ts_out F body w (firstn k xs) = firstn k (ts_out F body w xs).
  Proof.
    intros Hw. unfold ts_out. rewrite !ts_run_iter by exact Hw.
    rewrite <- run_firstn. f_equal. rewrite <- mapi_firstn. apply mapi_ext.
    intros i v Hv. f_equal. apply removed_firstn.
    rewrite nth_error_firstn in Hv. destruct (i <? k) eqn:E; [apply Nat.ltb_lt; exact E|discriminate].
  Qed.
End Generic.

(* ---- C08: the result does not depend on how nulls are encoded ---------------------------- *)
Lemma run_rel {St X1 X2 O} (R : X1 -> X2 -> Prop) (g1 : St -> X1 -> St * O) (g2 : St -> X2 -> St * O) :
  (forall s a1 a2, R a1 a2 -> g1 s a1 = g2 s a2) ->
  forall args1 args2, Forall2 R args1 args2 -> forall s, run g1 s args1 = run g2 s args2.
Proof.
  intros Hg args1 args2 HF. induction HF as [|a1 a2 r1 r2 Ha _ IH]; intros s; [reflexivity|].
  cbn [run]. rewrite (Hg s a1 a2 Ha). destruct (g2 s a2) as [s' o]. f_equal. apply IH.
Qed.

Lemma Forall2_nth_error {X Y} (R : X -> Y -> Prop) l1 l2 :
  Forall2 R l1 l2 ->
  forall i, match nth_error l1 i, nth_error l2 i with
            | Some a, Some b => R a b | None, None => True | _, _ => False end.
Proof.
  intros HF. induction HF as [|a b r1 r2 Hab _ IH]; intros i.
  - destruct i; exact I.
  - destruct i as [|i]; [exact Hab|]. cbn. apply IH.
Qed.

Lemma mapi_cons {X Y} (h : nat -> X -> Y) a l : mapi h (a :: l) = h 0 a :: mapi (fun i => h (S i)) l.
Proof.
  apply nth_error_ext. intros i. rewrite nth_error_mapi. destruct i as [|i]; [reflexivity|].
  cbn [nth_error]. rewrite nth_error_mapi. reflexivity.
Qed.

Lemma Forall2_mapi {X1 X2 Y1 Y2} (R : X1 -> X2 -> Prop) (Q : Y1 -> Y2 -> Prop)
      (h1 : nat -> X1 -> Y1) (h2 : nat -> X2 -> Y2) l1 l2 :
  Forall2 R l1 l2 ->
  (forall i a b, nth_error l1 i = Some a -> nth_error l2 i = Some b -> R a b -> Q (h1 i a) (h2 i b)) ->
  Forall2 Q (mapi h1 l1) (mapi h2 l2).
Proof.
  intros HF. revert h1 h2.
  induction HF as [|a b r1 r2 Hab HF IH]; intros h1 h2 Hh; [constructor|].
  rewrite !mapi_cons. constructor.
  - apply (Hh 0 a b); [reflexivity|reflexivity|exact Hab].
  - apply (IH (fun i => h1 (S i)) (fun i => h2 (S i))).
    intros i x y Hx Hy Hxy. apply (Hh (S i)); assumption.
Qed.

(* a feature family indexed by the null dictionary whose add / remove steps see an element only
   through its option view (not_none + unwrap = to_opt) *)
Section Encoding.
  Context {A St O : Type}.
  Variable Fam : forall (T : Type) (D : IsNone T A), feat T St O.
  Variable pre' : St -> option A -> St.
  Variable post' : St -> option (option A) -> St.
  Hypothesis Fam_init : forall T1 D1 T2 D2, f_init (Fam T1 D1) = f_init (Fam T2 D2).
  Hypothesis Fam_emit : forall T1 D1 T2 D2 s, f_emit (Fam T1 D1) s = f_emit (Fam T2 D2) s.
  Hypothesis Fam_pre : forall T D s v, f_pre (Fam T D) s v = pre' s (to_opt v).
  Hypothesis Fam_post : forall T D s rm, f_post (Fam T D) s rm = post' s (option_map to_opt rm).

  Theorem encoding_independent {T1 T2} (D1 : IsNone T1 A) (D2 : IsNone T2 A)
          (xs1 : list T1) (xs2 : list T2) (w : nat) body :
    1 <= w -> Forall2 (fun a b => to_opt a = to_opt b) xs1 xs2 ->
    ts_run (Fam T1 D1) body w xs1 = ts_run (Fam T2 D2) body w xs2.
  Proof.
    intros Hw HF. rewrite !ts_run_iter by exact Hw. f_equal. rewrite (Fam_init T1 D1 T2 D2).
    apply (run_rel (fun (a1 : option T1 * T1) (a2 : option T2 * T2) =>
                      to_opt (snd a1) = to_opt (snd a2) /\
                      option_map to_opt (fst a1) = option_map to_opt (fst a2))).
    - intros s [rm1 v1] [rm2 v2] [Hv Hrm]. cbn [fst snd] in *. unfold feat_cb. cbn [fst snd].
      rewrite !Fam_pre, !Fam_post, Hv, Hrm. rewrite (Fam_emit T1 D1 T2 D2). reflexivity.
    - apply (Forall2_mapi (fun a b => to_opt a = to_opt b)); [exact HF|].
      intros i a b Ha Hb Hab. cbn [fst snd]. split; [exact Hab|].
      unfold removed. destruct (i <? w - 1); [reflexivity|].
      pose proof (Forall2_nth_error _ _ _ HF (i - (w - 1))) as Hn.
      destruct (nth_error xs1 (i - (w - 1))), (nth_error xs2 (i - (w - 1))); cbn;
        try contradiction; [f_equal; exact Hn|reflexivity].
  Qed.
End Encoding.

(* the three accumulator families of features.rs are option-view determined *)
Section EncodingInstances.
  Context {A : Type} `{NA : Num A}.

  Definition mom_pre' (s : @mom A) (o : option A) : mom :=
    match o with Some x => mom_add s x | None => s end.
  Definition mom_post' (s : @mom A) (rm : option (option A)) : mom :=
    match rm with Some (Some x) => mom_sub s x | _ => s end.

  Theorem mom_encoding_independent (emit : @mom A -> A) {T1 T2} (D1 : IsNone T1 A) (D2 : IsNone T2 A)
          (xs1 : list T1) (xs2 : list T2) (w : nat) body :
    1 <= w -> Forall2 (fun a b => to_opt a = to_opt b) xs1 xs2 ->
    ts_run (mom_feat (DT := D1) emit) body w xs1 = ts_run (mom_feat (DT := D2) emit) body w xs2.
  Proof.
    apply (encoding_independent (fun T D => mom_feat (DT := D) emit) mom_pre' mom_post');
      try reflexivity.
    - intros T D s v. cbn [f_pre mom_feat]. unfold mom_pre, to_opt, not_none, mom_pre'.
      destruct (is_none v); reflexivity.
    - intros T D s rm. cbn [f_post mom_feat]. unfold mom_post, to_opt, not_none, mom_post'.
      destruct rm as [v|]; [|reflexivity]. cbn [option_map]. destruct (is_none v); reflexivity.
  Qed.

  Theorem ewm_encoding_independent (w0 : nat) mp {T1 T2} (D1 : IsNone T1 A) (D2 : IsNone T2 A)
          (xs1 : list T1) (xs2 : list T2) (w : nat) body :
    1 <= w -> Forall2 (fun a b => to_opt a = to_opt b) xs1 xs2 ->
    ts_run (ts_vewm_f (DT := D1) w0 mp) body w xs1 = ts_run (ts_vewm_f (DT := D2) w0 mp) body w xs2.
  Proof.
    apply (encoding_independent (fun T D => ts_vewm_f (DT := D) w0 mp)
             (fun s o => match o with
                         | Some x => {| e_n := S (e_n s); e_q := nadd (e_q s) (nsub x (nmul (ewm_alpha w0) (e_q s))) |}
                         | None => s end)
             (fun s rm => match rm with
                          | Some (Some x) => let n' := e_n s - 1 in
                                             {| e_n := n'; e_q := nsub (e_q s) (nmul x (powi (ewm_oma w0) n')) |}
                          | _ => s end));
      try reflexivity.
    - intros T D s v. cbn [f_pre ts_vewm_f]. unfold ewm_pre, to_opt, not_none.
      destruct (is_none v); reflexivity.
    - intros T D s rm. cbn [f_post ts_vewm_f]. unfold ewm_post, to_opt, not_none.
      destruct rm as [v|]; [|reflexivity]. cbn [option_map]. destruct (is_none v); reflexivity.
  Qed.

  Theorem wma_encoding_independent (w0 : nat) mp {T1 T2} (D1 : IsNone T1 A) (D2 : IsNone T2 A)
          (xs1 : list T1) (xs2 : list T2) (w : nat) body :
    1 <= w -> Forall2 (fun a b => to_opt a = to_opt b) xs1 xs2 ->
    ts_run (ts_vwma_f (DT := D1) w0 mp) body w xs1 = ts_run (ts_vwma_f (DT := D2) w0 mp) body w xs2.
  Proof.
    apply (encoding_independent (fun T D => ts_vwma_f (DT := D) w0 mp)
             (fun s o => match o with
                         | Some x => let n' := S (w_n s) in
                                     {| w_n := n'; w_sum := nadd (w_sum s) x; w_xt := nadd (w_xt s) (nmul (nofnat n') x) |}
                         | None => s end)
             (fun s rm => match rm with
                          | Some (Some x) => {| w_n := w_n s - 1; w_xt := nsub (w_xt s) (w_sum s); w_sum := nsub (w_sum s) x |}
                          | _ => s end));
      try reflexivity.
    - intros T D s v. cbn [f_pre ts_vwma_f]. unfold wma_pre, to_opt, not_none.
      destruct (is_none v); reflexivity.
    - intros T D s rm. cbn [f_post ts_vwma_f]. unfold wma_post, to_opt, not_none.
      destruct rm as [v|]; [|reflexivity]. cbn [option_map]. destruct (is_none v); reflexivity.
  Qed.
End EncodingInstances.
