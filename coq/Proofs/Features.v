(* Proofs/Features.v — the rolling moment family at the proof instance XR = option R:
   state invariant (power sums of the valid window), closed forms = textbook statistics.      *)
From Coq Require Import Reals Lra Lia List.
From Tevec Require Import Base.Prelude Base.Num Base.XR Spec.Stats Model.Driver Proofs.Driver
     Model.Features Proofs.Sliding.
Import ListNotations.
Local Open Scope R_scope.

(* ---- the invariant: the accumulator holds the power sums of the valid window ---- *)
Definition mom_abs (s : @mom XR) (l : list XR) : Prop :=
  m_n s = nv l /\
  m_s1 s = Some (psum 1 (valid l)) /\ m_s2 s = Some (psum 2 (valid l)) /\
  m_s3 s = Some (psum 3 (valid l)) /\ m_s4 s = Some (psum 4 (valid l)).

Lemma mom_abs_init : mom_abs mom0 [].
Proof. unfold mom_abs, mom0, nv, psum. cbn. repeat split; reflexivity. Qed.

Lemma mom_abs_pre s l v : mom_abs s l -> mom_abs (mom_pre s v) (l ++ [v]).
Proof.
  intros (Hn & H1 & H2 & H3 & H4). unfold mom_pre, not_none. destruct v as [r|]; cbn [is_none IsNoneXR IsNone_float nisnan NumXR xisnan negb unwrap].
  - unfold mom_abs, nv. rewrite valid_app. cbn [valid flat_map app].
    unfold mom_add. cbn [m_n m_s1 m_s2 m_s3 m_s4].
    rewrite H1, H2, H3, H4, !xmul_some, !xadd_some, !psum_app, !psum_single, app_length, Hn.
    unfold nv. cbn [length]. repeat split; try (f_equal; ring); try lia.
  - unfold mom_abs, nv. rewrite valid_app. cbn [valid flat_map app]. rewrite app_nil_r.
    repeat split; assumption.
Qed.

Lemma mom_abs_post s x l : mom_abs s (x :: l) -> mom_abs (mom_post s (Some x)) l.
Proof.
  intros (Hn & H1 & H2 & H3 & H4). unfold mom_post, not_none. destruct x as [r|]; cbn [is_none IsNoneXR IsNone_float nisnan NumXR xisnan negb unwrap].
  - unfold mom_abs, nv in *. cbn [valid flat_map app] in *. fold (valid l) in *.
    unfold mom_sub. cbn [m_n m_s1 m_s2 m_s3 m_s4].
    rewrite H1, H2, H3, H4, !xmul_some, !xsub_some, !psum_cons, Hn. cbn [length].
    repeat split; try (f_equal; ring); try lia.
  - unfold mom_abs, nv in *. cbn [valid flat_map app] in *. fold (valid l) in *.
    repeat split; assumption.
Qed.

(* every entry point of the family: at every position the emitted value is `emit` of a state that
   holds exactly the power sums of the valid elements of the window *)
Theorem mom_state_tracks_window (emit : @mom XR -> XR) body (w : nat) (xs : list XR) :
  (1 <= w)%nat ->
  exists out, ts_run (mom_feat emit) body w xs = Done out /\ length out = length xs /\
    forall i v, nth_error xs i = Some v ->
      exists s, mom_abs s (win w i xs) /\ nth_error out i = Some (emit s).
Proof.
  intros Hw. apply (sliding_ts_run (mom_feat emit) mom_abs); try assumption.
  - exact mom_abs_init.
  - exact mom_abs_pre.
  - exact mom_abs_post.
  - reflexivity.
Qed.

(* ---- closed forms ----------------------------------------------------- *)
Section ClosedForms.
  Variable s : @mom XR.
  Variable W : list XR.
  Hypothesis HA : mom_abs s W.
  Let V := valid W.
  Let n := length V.

  Lemma mom_n : m_n s = n. Proof. destruct HA as (Hn & _). exact Hn. Qed.

  Lemma emit_sum_spec mp :
    emit_sum mp s = if (mp <=? n)%nat then Some (sumR V) else None.
  Proof.
    unfold emit_sum. rewrite mom_n. destruct HA as (_ & H1 & _). rewrite H1, psum_1. reflexivity.
  Qed.

  Lemma emit_mean_spec mp :
    emit_mean mp s =
    if (mp <=? n)%nat then (if (n =? 0)%nat then None else Some (meanR V)) else None.
  Proof.
    unfold emit_mean. rewrite mom_n. destruct HA as (_ & H1 & _). rewrite H1, psum_1, xofnat.
    destruct (mp <=? n)%nat; [|reflexivity].
    destruct (n =? 0)%nat eqn:E.
    - apply Nat.eqb_eq in E. rewrite E. cbn [INR]. apply xdiv_zero.
    - apply Nat.eqb_neq in E. rewrite xdiv_some by (apply not_0_INR; exact E). reflexivity.
  Qed.

  (* sum2/n - (sum/n)^2 is the population variance *)
  Lemma popvar_identity :
    n <> 0%nat -> psum 2 V / INR n - (psum 1 V / INR n) ^ 2 = popvarR V.
  Proof.
    intros Hn. unfold popvarR, cmom, meanR, nR. fold n. rewrite devsum2_expand. unfold nR. fold n.
    rewrite <- psum_1. assert (INR n <> 0) by (apply not_0_INR; exact Hn). field. assumption.
  Qed.

  Lemma popvar_of_spec : n <> 0%nat -> popvar_of s = Some (popvarR V).
  Proof.
    intros Hn. unfold popvar_of. rewrite mom_n. destruct HA as (_ & H1 & H2 & _).
    rewrite H1, H2, xofnat. assert (INR n <> 0) by (apply not_0_INR; exact Hn).
    rewrite !xdiv_some by assumption. rewrite powi_some, xsub_some. f_equal.
    apply popvar_identity. exact Hn.
  Qed.

  Lemma sample_from_pop : (2 <= n)%nat -> popvarR V * INR n / INR (n - 1) = samplevarR V.
  Proof.
    intros Hn. unfold popvarR, cmom, samplevarR, nR. fold n. rewrite minus_INR by lia. cbn [INR].
    assert (INR n <> 0) by (apply not_0_INR; lia).
    assert (INR n - 1 <> 0). { assert (2 <= INR n) by (apply (le_INR 2); lia). lra. }
    field. split; assumption.
  Qed.

  Lemma emit_var_spec mp :
    (2 <= mp)%nat ->
    emit_var mp s =
    if (mp <=? n)%nat then (if Rlt_dec EPS (popvarR V) then Some (samplevarR V) else Some 0) else None.
  Proof.
    intros Hmp. unfold emit_var. rewrite mom_n.
    destruct (mp <=? n)%nat eqn:E; [|reflexivity]. apply Nat.leb_le in E.
    rewrite popvar_of_spec by lia. change neps with (Some EPS). change nzero with (Some 0).
    cbn [nltb NumXR xltb]. destruct (Rlt_dec EPS (popvarR V)); [|reflexivity].
    rewrite !xofnat, xmul_some.
    rewrite xdiv_some by (apply not_0_INR; lia). f_equal. apply sample_from_pop. lia.
  Qed.

  Lemma samplevar_nonneg : (2 <= n)%nat -> 0 <= samplevarR V.
  Proof.
    intros Hn. unfold samplevarR. apply Rmult_le_pos; [apply devsum2_nonneg|].
    apply Rlt_le, Rinv_0_lt_compat. unfold nR. fold n.
    assert (2 <= INR n) by (apply (le_INR 2); lia). lra.
  Qed.

  Lemma emit_std_spec mp :
    (2 <= mp)%nat ->
    emit_std mp s =
    if (mp <=? n)%nat then (if Rlt_dec EPS (popvarR V) then Some (samplestdR V) else Some 0) else None.
  Proof.
    intros Hmp. unfold emit_std. rewrite mom_n.
    destruct (mp <=? n)%nat eqn:E; [|reflexivity]. apply Nat.leb_le in E.
    rewrite popvar_of_spec by lia. change neps with (Some EPS). change nzero with (Some 0).
    cbn [nltb NumXR xltb]. destruct (Rlt_dec EPS (popvarR V)); [|reflexivity].
    rewrite !xofnat, xmul_some.
    rewrite xdiv_some by (apply not_0_INR; lia). rewrite sample_from_pop by lia.
    rewrite xsqrt_some by (apply samplevar_nonneg; lia). reflexivity.
  Qed.
  (* third and fourth central moments from the power sums *)
  Lemma cmom3_identity :
    n <> 0%nat ->
    let c := psum 1 V / INR n in
    psum 3 V / INR n - 3 * c * (psum 2 V / INR n - c ^ 2) - c ^ 3 = cmom 3 V.
  Proof.
    intros Hn c. unfold cmom, meanR, nR. fold n. rewrite devsum3_expand. unfold nR. fold n.
    rewrite <- psum_1. fold c. assert (HN : INR n <> 0) by (apply not_0_INR; exact Hn).
    replace (psum 1 V) with (c * INR n) by (unfold c; field; exact HN).
    set (S2 := psum 2 V). set (S3 := psum 3 V). clearbody S2 S3 c. field. exact HN.
  Qed.

  Lemma cmom4_identity :
    n <> 0%nat ->
    let c := psum 1 V / INR n in
    psum 4 V / INR n - 4 * c * (psum 3 V / INR n) + 6 * c ^ 2 * (psum 2 V / INR n - c ^ 2) + 3 * c ^ 4
    = cmom 4 V.
  Proof.
    intros Hn c. unfold cmom, meanR, nR. fold n. rewrite devsum4_expand. unfold nR. fold n.
    rewrite <- psum_1. fold c. assert (HN : INR n <> 0) by (apply not_0_INR; exact Hn).
    replace (psum 1 V) with (c * INR n) by (unfold c; field; exact HN).
    set (S2 := psum 2 V). set (S3 := psum 3 V). set (S4 := psum 4 V). clearbody S2 S3 S4 c.
    field. exact HN.
  Qed.

  Lemma emit_skew_spec mp :
    (3 <= mp)%nat ->
    emit_skew mp s =
    if (mp <=? n)%nat then (if Rle_dec (popvarR V) EPS then Some 0 else Some (skewR V)) else None.
  Proof.
    intros Hmp. unfold emit_skew. rewrite mom_n.
    destruct (mp <=? n)%nat eqn:E; [|reflexivity]. apply Nat.leb_le in E.
    assert (Hn0 : n <> 0%nat) by lia.
    rewrite popvar_of_spec by exact Hn0. change neps with (Some EPS). change nzero with (Some 0).
    cbn [nleb NumXR xleb]. destruct (Rle_dec (popvarR V) EPS) as [Hle|Hgt]; [reflexivity|].
    assert (Hvar : 0 < popvarR V) by (pose proof EPS_pos; lra).
    destruct HA as (_ & H1 & _ & H3 & _).
    assert (HN : INR n <> 0) by (apply not_0_INR; exact Hn0).
    rewrite H1, H3, !xofnat, !xdiv_some by exact HN.
    rewrite (xsqrt_some (popvarR V)) by lra.
    assert (Hs : sqrt (popvarR V) <> 0).
    { intros Hz. apply sqrt_eq_0 in Hz; lra. }
    rewrite xdiv_some by exact Hs.
    rewrite (xsqrt_some (INR (n * (n - 1)))) by apply pos_INR.
    assert (Hn2 : INR (n - 2) <> 0) by (apply not_0_INR; lia).
    rewrite xdiv_some by exact Hn2.
    rewrite !powi_some.
    assert (Hs3 : sqrt (popvarR V) ^ 3 <> 0) by (apply pow_nonzero; exact Hs).
    rewrite xdiv_some by exact Hs3.
    unfold three. cbn [nofZ NumXR]. rewrite !xmul_some, !xsub_some, xmul_some. f_equal.
    unfold skewR, nR. fold n.
    rewrite mult_INR, !minus_INR by lia. cbn [INR]. replace (1 + 1) with 2 by ring.
    f_equal.
    (* the bracket *)
    set (sg := sqrt (popvarR V)) in *.
    assert (Hsq : sg * sg = popvarR V) by (unfold sg; apply sqrt_sqrt; lra).
    pose proof (cmom3_identity Hn0) as K. cbv zeta in K.
    rewrite (popvar_identity Hn0) in K. fold (popvarR V). unfold popvarR in Hsq |- *.
    fold (popvarR V) in Hsq. change (cmom 2 V) with (popvarR V). fold sg.
    rewrite <- K. rewrite <- Hsq. fold V.
    set (c := psum 1 V / INR n). set (e3 := psum 3 V / INR n). clearbody c e3 sg.
    field. exact Hs.
  Qed.

  Lemma emit_kurt_spec mp :
    (4 <= mp)%nat ->
    emit_kurt mp s =
    if (mp <=? n)%nat then (if Rle_dec (popvarR V) EPS then Some 0 else Some (kurtR V)) else None.
  Proof.
    intros Hmp. unfold emit_kurt. rewrite mom_n.
    destruct (mp <=? n)%nat eqn:E; [|reflexivity]. apply Nat.leb_le in E.
    assert (Hn0 : n <> 0%nat) by lia.
    rewrite popvar_of_spec by exact Hn0. change neps with (Some EPS). change nzero with (Some 0).
    cbn [nleb NumXR xleb]. destruct (Rle_dec (popvarR V) EPS) as [Hle|Hgt]; [reflexivity|].
    assert (Hvar : 0 < popvarR V) by (pose proof EPS_pos; lra).
    destruct HA as (_ & H1 & _ & H3 & H4).
    assert (HN : INR n <> 0) by (apply not_0_INR; exact Hn0).
    rewrite H1, H3, H4, !xofnat, !xdiv_some by exact HN.
    unfold four, six, three. cbn [nofZ NumXR]. change none with (Some 1).
    rewrite !xmul_some, xsub_some.
    assert (Hv2 : popvarR V * popvarR V <> 0) by nra.
    assert (Hd : INR ((n - 2) * (n - 3)) <> 0) by (apply not_0_INR; nia).
    rewrite (xdiv_some _ (INR ((n - 2) * (n - 3)))) by exact Hd.
    rewrite (xdiv_some _ (popvarR V * popvarR V)) by exact Hv2.
    rewrite (xdiv_some _ (popvarR V)) by lra.
    rewrite powi_some, !xmul_some, !xadd_some.
    rewrite !xmul_some, xsub_some, xmul_some. f_equal.
    unfold kurtR, nR. fold n. change (cmom 2 V) with (popvarR V).
    pose proof (cmom4_identity Hn0) as K. cbv zeta in K.
    rewrite (popvar_identity Hn0) in K. rewrite <- K.
    rewrite !mult_INR, !minus_INR by nia. rewrite !mult_INR. cbn [INR]. 
    replace (1 + 1 + 1) with 3 by ring. replace (1 + 1) with 2 by ring.
    assert (HN4 : 4 <= INR n). { pose proof (le_INR 4 n ltac:(lia)) as Hq. simpl in Hq. lra. }
    assert (HN2 : INR n - 2 <> 0) by lra.
    assert (HN3 : INR n - 3 <> 0) by lra.
    fold V.
    set (c := psum 1 V / INR n). set (e3 := psum 3 V / INR n). set (e4 := psum 4 V / INR n).
    set (v := popvarR V) in *. set (N := INR n) in *. clearbody c e3 e4 v N.
    field. repeat split; lra.
  Qed.
End ClosedForms.

(* the EPS floor is a rounding device: below it the textbook value is itself tiny *)
Lemma eps_floor_bounded (V : list R) :
  (2 <= length V)%nat -> ~ EPS < popvarR V -> samplevarR V <= 2 * EPS.
Proof.
  intros Hn Hle. unfold popvarR, cmom, samplevarR, nR in *.
  set (D := devsum 2 (meanR V) V) in *. set (m := INR (length V)) in *.
  assert (Hm : 2 <= m) by (apply (le_INR 2); exact Hn).
  assert (HD : 0 <= D) by apply devsum2_nonneg.
  assert (Hle' : D / m <= EPS) by lra.
  assert (D <= EPS * m).
  { apply (Rmult_le_compat_r m) in Hle'; [|lra]. unfold Rdiv in Hle'.
    rewrite Rmult_assoc, Rinv_l, Rmult_1_r in Hle' by lra. exact Hle'. }
  apply (Rmult_le_reg_r (m - 1)); [lra|]. unfold Rdiv. rewrite Rmult_assoc, Rinv_l, Rmult_1_r by lra.
  pose proof EPS_pos. nra.
Qed.

(* ---- exponentially weighted mean ---------------------------------------- *)
Section Ewm.
  Variable w : nat.
  Hypothesis Hw : (1 <= w)%nat.
  Let alpha : R := 2 / INR w.
  Let oma : R := 1 - alpha.

  Lemma INRw_neq0 : INR w <> 0. Proof. apply not_0_INR. lia. Qed.
  Lemma ewm_alpha_some : ewm_alpha w = Some alpha.
  Proof. unfold ewm_alpha. rewrite xofnat. change ntwo with (Some 2).
         rewrite xdiv_some by exact INRw_neq0. reflexivity. Qed.
  Lemma ewm_oma_some : ewm_oma w = Some oma.
  Proof. unfold ewm_oma. rewrite ewm_alpha_some. reflexivity. Qed.

  Definition ewm_abs (s : @ewm_st XR) (l : list XR) : Prop :=
    e_n s = nv l /\ e_q s = Some (ewsum oma (valid l)).

  Lemma ewm_abs_pre s l v : ewm_abs s l -> ewm_abs (ewm_pre w s v) (l ++ [v]).
  Proof.
    intros (Hn & Hq). unfold ewm_pre, not_none.
    destruct v as [r|]; cbn [is_none IsNoneXR IsNone_float nisnan NumXR xisnan negb unwrap].
    - unfold ewm_abs, nv. rewrite valid_app. cbn [valid flat_map app e_n e_q].
      rewrite ewm_alpha_some, Hq, xmul_some, xsub_some, xadd_some, ewsum_snoc, app_length, Hn.
      unfold nv. cbn [length]. split; [lia|]. f_equal. unfold oma. ring.
    - unfold ewm_abs, nv. rewrite valid_app. cbn [valid flat_map app]. rewrite app_nil_r.
      split; assumption.
  Qed.

  Lemma ewm_abs_post s x l : ewm_abs s (x :: l) -> ewm_abs (ewm_post w s (Some x)) l.
  Proof.
    intros (Hn & Hq). unfold ewm_post, not_none.
    destruct x as [r|]; cbn [is_none IsNoneXR IsNone_float nisnan NumXR xisnan negb unwrap].
    - unfold ewm_abs, nv in *. cbn [valid flat_map app] in *. fold (valid l) in *.
      cbn [e_n e_q]. rewrite ewm_oma_some, powi_some, Hq, xmul_some, xsub_some, Hn.
      cbn [length ewsum]. rewrite Nat.sub_succ, Nat.sub_0_r. split; [reflexivity|]. f_equal. ring.
    - unfold ewm_abs, nv in *. cbn [valid flat_map app] in *. fold (valid l) in *.
      split; assumption.
  Qed.

  Lemma ewm_emit_spec mp s W :
    ewm_abs s W ->
    let V := valid W in let n := length V in
    ewm_emit w mp s =
    if (mp <=? n)%nat then
      (if Req_EM_T (1 - oma ^ n) 0 then None else Some (ewsum oma V * alpha / (1 - oma ^ n)))
    else None.
  Proof.
    intros (Hn & Hq) V n. unfold ewm_emit. rewrite Hn. unfold nv. fold V. fold n.
    destruct (mp <=? n)%nat; [|reflexivity].
    rewrite Hq, ewm_alpha_some, ewm_oma_some, powi_some, xmul_some. change none with (Some 1).
    rewrite xsub_some. fold V. cbn [ndiv NumXR xdiv]. reflexivity.
  Qed.

  (* ... which is the normalised exponentially weighted average whenever alpha <> 0 *)
  Lemma ewm_normalised V :
    1 - oma ^ (length V) <> 0 ->
    ewsum oma V * alpha / (1 - oma ^ (length V)) = ewmR oma V.
  Proof.
    intros Hd. unfold ewmR.
    pose proof (geomsum_closed oma (length V)) as Hg. replace (1 - oma) with alpha in Hg by (unfold oma; ring).
    assert (Ha : alpha <> 0). { intros E. rewrite E in Hg. rewrite Rmult_0_l in Hg. lra. }
    assert (Hgs : geomsum oma (length V) <> 0). { intros E. rewrite E, Rmult_0_r in Hg. lra. }
    rewrite <- Hg. field. split; assumption.
  Qed.

  Theorem ewm_state_tracks_window mp body (xs : list XR) :
    exists out, ts_run (ts_vewm_f w mp) body w xs = Done out /\ length out = length xs /\
      forall i v, nth_error xs i = Some v ->
        exists s, ewm_abs s (win w i xs) /\ nth_error out i = Some (ewm_emit w (mp_eff mp w 0) s).
  Proof.
    apply (sliding_ts_run (ts_vewm_f w mp) ewm_abs); try assumption.
    - split; reflexivity.
    - exact ewm_abs_pre.
    - exact ewm_abs_post.
    - reflexivity.
  Qed.
End Ewm.

(* ---- linearly weighted mean --------------------------------------------- *)
Definition wma_abs (s : @wma_st XR) (l : list XR) : Prop :=
  w_n s = nv l /\ w_sum s = Some (sumR (valid l)) /\ w_xt s = Some (lwsum (valid l)).

Lemma wma_abs_pre s l v : wma_abs s l -> wma_abs (wma_pre s v) (l ++ [v]).
Proof.
  intros (Hn & Hs & Hx). unfold wma_pre, not_none.
  destruct v as [r|]; cbn [is_none IsNoneXR IsNone_float nisnan NumXR xisnan negb unwrap].
  - unfold wma_abs, nv. rewrite valid_app. cbn [valid flat_map app w_n w_sum w_xt].
    rewrite Hs, Hx, xofnat, xmul_some, !xadd_some, sumR_app, app_length, Hn. unfold nv.
    cbn [length sumR fold_right]. split; [lia|]. split; [f_equal; ring|]. f_equal.
    unfold lwsum. rewrite lwsum_from_snoc. cbn [plus]. ring.
  - unfold wma_abs, nv. rewrite valid_app. cbn [valid flat_map app]. rewrite app_nil_r.
    repeat split; assumption.
Qed.

Lemma wma_abs_post s x l : wma_abs s (x :: l) -> wma_abs (wma_post s (Some x)) l.
Proof.
  intros (Hn & Hs & Hx). unfold wma_post, not_none.
  destruct x as [r|]; cbn [is_none IsNoneXR IsNone_float nisnan NumXR xisnan negb unwrap].
  - unfold wma_abs, nv in *. cbn [valid flat_map app] in *. fold (valid l) in *.
    cbn [w_n w_sum w_xt]. rewrite Hs, Hx, !xsub_some, Hn. cbn [length sumR fold_right].
    fold (sumR (valid l)). rewrite Nat.sub_succ, Nat.sub_0_r. split; [reflexivity|]. split; [f_equal; ring|].
    f_equal. unfold lwsum. cbn [lwsum_from]. rewrite lwsum_from_shift. cbn [INR]. ring.
  - unfold wma_abs, nv in *. cbn [valid flat_map app] in *. fold (valid l) in *.
    repeat split; assumption.
Qed.

Lemma half_nn1 n : INR ((n * (n + 1)) / 2) = INR n * (INR n + 1) / 2.
Proof.
  assert (H : (n * (n + 1) = 2 * ((n * (n + 1)) / 2))%nat).
  { assert (Hm : ((n * (n + 1)) mod 2 = 0)%nat).
    { induction n as [|k IH]; [reflexivity|].
      replace (S k * (S k + 1))%nat with (k * (k + 1) + 2 * (k + 1))%nat by lia.
      rewrite Nat.add_mod, IH by lia. rewrite Nat.mul_comm, Nat.mod_mul by lia. reflexivity. }
    pose proof (Nat.div_mod (n * (n + 1)) 2 ltac:(lia)). lia. }
  apply (f_equal INR) in H. rewrite !mult_INR, plus_INR in H. cbn [INR] in H. lra.
Qed.

Lemma wma_emit_spec mp s W :
  wma_abs s W ->
  let V := valid W in let n := length V in
  wma_emit mp s = if (mp <=? n)%nat then (if (n =? 0)%nat then None else Some (wmaR V)) else None.
Proof.
  intros (Hn & Hs & Hx) V n. unfold wma_emit. rewrite Hn. unfold nv. fold V. fold n.
  destruct (mp <=? n)%nat; [|reflexivity].
  rewrite Hx, xofnat, half_nn1. fold V.
  destruct (n =? 0)%nat eqn:E.
  - apply Nat.eqb_eq in E. rewrite E. cbn [INR]. replace (0 * (0 + 1) / 2) with 0 by field. apply xdiv_zero.
  - apply Nat.eqb_neq in E. assert (0 < INR n) by (apply lt_0_INR; lia).
    rewrite xdiv_some by nra. reflexivity.
Qed.

Theorem wma_state_tracks_window mp body (w : nat) (xs : list XR) :
  (1 <= w)%nat ->
  exists out, ts_run (ts_vwma_f w mp) body w xs = Done out /\ length out = length xs /\
    forall i v, nth_error xs i = Some v ->
      exists s, wma_abs s (win w i xs) /\ nth_error out i = Some (wma_emit (mp_eff mp w 0) s).
Proof.
  intros Hw. apply (sliding_ts_run (ts_vwma_f w mp) wma_abs); try assumption.
  - repeat split; reflexivity.
  - exact wma_abs_pre.
  - exact wma_abs_post.
  - reflexivity.
Qed.

(* ---- per-entry-point corollaries: output i = G (valid (win w i xs)) ------------------ *)
Lemma mom_entry (emit : @mom XR -> XR) (G : list R -> XR) body (w : nat) (xs : list XR) :
  (1 <= w)%nat ->
  (forall s W, mom_abs s W -> emit s = G (valid W)) ->
  exists out, ts_run (mom_feat emit) body w xs = Done out /\ length out = length xs /\
    forall i, (i < length xs)%nat -> nth_error out i = Some (G (valid (win w i xs))).
Proof.
  intros Hw HG. destruct (mom_state_tracks_window emit body w xs Hw) as (out & Hrun & Hlen & Hout).
  exists out. split; [exact Hrun|]. split; [exact Hlen|]. intros i Hi.
  destruct (nth_error xs i) as [v|] eqn:Hv; [|apply nth_error_None in Hv; lia].
  destruct (Hout i v Hv) as (s & Habs & Hnth). rewrite Hnth. f_equal. apply HG. exact Habs.
Qed.

Lemma mp_eff_ge mp w k : (k <= mp_eff mp w k)%nat.
Proof. unfold mp_eff. lia. Qed.

(* ---- the plain family (never-null dictionary) coincides with the null-aware one on null-free input *)
Lemma run_ext_in {St X O} (g1 g2 : St -> X -> St * O) (args : list X) :
  (forall s a, In a args -> g1 s a = g2 s a) -> forall s, run g1 s args = run g2 s args.
Proof.
  induction args as [|a r IH]; intros H s; [reflexivity|]. cbn [run].
  rewrite (H s a (or_introl eq_refl)). destruct (g2 s a) as [s' o]. f_equal.
  apply IH. intros s0 a0 Ha0. apply H. right. exact Ha0.
Qed.

Definition all_some (a : option XR * XR) : Prop :=
  (exists r, snd a = Some r) /\ (fst a = None \/ exists r, fst a = Some (Some r)).

Lemma ts_run_ext {St O} (F G : feat XR St O) body (w : nat) (rs : list R) :
  (1 <= w)%nat -> f_init F = f_init G ->
  (forall s a, all_some a -> feat_cb F s a = feat_cb G s a) ->
  ts_run F body w (map Some rs) = ts_run G body w (map Some rs).
Proof.
  intros Hw Hinit Hcb.
  assert (Hargs : forall args,
    (forall a, In a args -> all_some a) ->
    run (feat_cb F) (f_init F) args = run (feat_cb G) (f_init G) args).
  { intros args Hall. rewrite Hinit. apply run_ext_in. intros s a Ha. apply Hcb. apply Hall. exact Ha. }
  assert (Hall : forall rem, (forall i, rem i = None \/ exists r, rem i = Some (Some r)) ->
    forall a, In a (mapi (fun i v => (rem i, v)) (map (@Some R) rs)) -> all_some a).
  { intros rem Hrem a Ha. apply In_nth_error in Ha. destruct Ha as [i Hi].
    rewrite nth_error_mapi, nth_error_map in Hi.
    destruct (nth_error rs i) as [r|]; [|discriminate]. cbn in Hi. injection Hi as <-.
    split; [exists r; reflexivity|]. cbn [fst]. apply Hrem. }
  unfold ts_run. destruct body.
  - rewrite !rolling_apply_to_eq by exact Hw. f_equal. apply Hargs. unfold args_to. apply Hall.
    intros i. unfold removed_to, removed. destruct (_ <? _); [left; reflexivity|].
    rewrite nth_error_map. destruct (nth_error rs _) as [r|]; [right; exists r; reflexivity|left; reflexivity].
  - rewrite !rolling_apply_default_eq by exact Hw. f_equal. apply Hargs. apply Hall.
    intros i. unfold removed. destruct (_ <? _); [left; reflexivity|].
    rewrite nth_error_map. destruct (nth_error rs _) as [r|]; [right; exists r; reflexivity|left; reflexivity].
Qed.

Theorem plain_family_mom (emit : @mom XR -> XR) body (w : nat) (rs : list R) :
  (1 <= w)%nat ->
  ts_run (mom_feat (DT := IsNone_never) emit) body w (map Some rs)
  = ts_run (mom_feat (DT := IsNoneXR) emit) body w (map Some rs).
Proof.
  intros Hw. apply ts_run_ext; [exact Hw|reflexivity|].
  intros s a ((r & Hr) & Hrm). destruct a as [rm v]. cbn [fst snd] in *. subst v.
  unfold feat_cb. cbn [fst snd f_pre f_post f_emit mom_feat].
  destruct Hrm as [->|(r' & ->)]; reflexivity.
Qed.

Theorem plain_family_ewm (w : nat) mp body (rs : list R) :
  (1 <= w)%nat ->
  ts_run (ts_vewm_f (DT := IsNone_never) w mp) body w (map Some rs)
  = ts_run (ts_vewm_f (DT := IsNoneXR) w mp) body w (map Some rs).
Proof.
  intros Hw. apply ts_run_ext; [exact Hw|reflexivity|].
  intros s a ((r & Hr) & Hrm). destruct a as [rm v]. cbn [fst snd] in *. subst v.
  unfold feat_cb. cbn [fst snd f_pre f_post f_emit ts_vewm_f].
  destruct Hrm as [->|(r' & ->)]; reflexivity.
Qed.

Theorem plain_family_wma (w : nat) mp body (rs : list R) :
  (1 <= w)%nat ->
  ts_run (ts_vwma_f (DT := IsNone_never) w mp) body w (map Some rs)
  = ts_run (ts_vwma_f (DT := IsNoneXR) w mp) body w (map Some rs).
Proof.
  intros Hw. apply ts_run_ext; [exact Hw|reflexivity|].
  intros s a ((r & Hr) & Hrm). destruct a as [rm v]. cbn [fst snd] in *. subst v.
  unfold feat_cb. cbn [fst snd f_pre f_post f_emit ts_vwma_f].
  destruct Hrm as [->|(r' & ->)]; reflexivity.
Qed.
