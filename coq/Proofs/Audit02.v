(* Proofs/Audit02.v — audit of property C02 (YA): the clauses of the statement that had no theorem of
   their own, hypotheses dropped, the backend dispatch, the lazy iterator, the corner cases
   (window = 1, len = 0, window > len) spelled out.  Stdlib only, axiom-free.                        *)
From Tevec Require Import Base.Prelude Model.Driver Model.DriverDispatch Proofs.Driver.

(* ================================================================================================ *)
(* 1. number, order and arguments of the invocations, as an observation of ANY callback             *)
(* ================================================================================================ *)
(* wrap a callback so that it also keeps (and returns) the list of the arguments it has received *)
Definition logged {St X O} (f : St -> X -> St * O) (sl : St * list X) (a : X) : (St * list X) * (O * list X) :=
  let '(s', o) := f (fst sl) a in ((s', snd sl ++ [a]), (o, snd sl ++ [a])).

Lemma run_logged {St X O} (f : St -> X -> St * O) : forall (args : list X) (s0 : St) (l : list X),
  run (logged f) (s0, l) args
  = combine (run f s0 args) (map (fun k => l ++ firstn (S k) args) (seq 0 (length args))).
Proof.
  induction args as [|a r IH]; intros s0 l; [reflexivity|].
  cbn [run length seq map]. unfold logged at 1. cbn [fst snd].
  destruct (f s0 a) as [s' o] eqn:E. cbn [combine firstn]. f_equal.
  rewrite IH. f_equal. rewrite <- seq_shift, map_map. apply map_ext. intros k.
  cbn [firstn]. rewrite <- app_assoc. reflexivity.
Qed.

(* the k-th result is computed having seen exactly the first k+1 arguments, in order; the results
   themselves are those of the unwrapped callback *)
Lemma logged_nth {St X O} (f : St -> X -> St * O) (args : list X) s0 i a :
  nth_error args i = Some a ->
  nth_error (run (logged f) (s0, []) args) i
  = Some (snd (f (state_after f s0 (firstn i args)) a), firstn (S i) args).
Proof.
  intros Ha. rewrite run_logged, nth_error_combine, (run_nth f s0 args i Ha), nth_error_map, nth_error_seq.
  assert (Hi : i < length args) by (apply nth_error_Some; congruence).
  replace (i <? length args) with true by (symmetry; apply Nat.ltb_lt; exact Hi). reflexivity.
Qed.

Lemma map_fst_combine {A B} : forall (l : list A) (m : list B), length l <= length m -> map fst (combine l m) = l.
Proof.
  induction l as [|x l IH]; intros [|b m] H; try reflexivity; [cbn in H; lia|].
  cbn. f_equal. apply IH. cbn in H. lia.
Qed.

Lemma logged_results {St X O} (f : St -> X -> St * O) (args : list X) s0 l :
  map fst (run (logged f) (s0, l) args) = run f s0 args.
Proof.
  rewrite run_logged. apply map_fst_combine. rewrite map_length, seq_length, run_length. lia.
Qed.

(* ================================================================================================ *)
(* 2. small list facts                                                                              *)
(* ================================================================================================ *)
Lemma mapi_snoc {X Y} (h : nat -> X -> Y) (xs : list X) x : mapi h (xs ++ [x]) = mapi h xs ++ [h (length xs) x].
Proof.
  apply nth_error_ext. intros i.
  rewrite nth_error_mapi, !nth_error_app, mapi_length, nth_error_mapi.
  destruct (i <? length xs) eqn:E; [reflexivity|]. apply Nat.ltb_ge in E.
  destruct (i - length xs) as [|j] eqn:Ej.
  - assert (i = length xs) by lia. subst i. reflexivity.
  - cbn. destruct j; reflexivity.
Qed.

Lemma firstn_seq_min k : forall a n, firstn k (seq a n) = seq a (Nat.min k n).
Proof.
  induction k as [|k IH]; intros a n; [reflexivity|]. destruct n as [|n]; [reflexivity|].
  cbn [seq firstn Nat.min]. f_equal. apply IH.
Qed.

Lemma run_stateless {St X O} (h : X -> O) (args : list X) (s : St) :
  run (fun s a => (s, h a)) s args = map h args.
Proof. induction args as [|a r IH]; [reflexivity|]. cbn. f_equal. exact IH. Qed.

Lemma mapi_const_map {X Y} (h : X -> Y) (xs : list X) : mapi (fun _ v => h v) xs = map h xs.
Proof.
  apply nth_error_ext. intros i. rewrite nth_error_mapi, nth_error_map. reflexivity.
Qed.

(* ================================================================================================ *)
(* 3. the window: exactly the positions max(0, i+1-w) ..= i                                         *)
(* ================================================================================================ *)
Lemma win_exact {X} w i (xs : list X) :
  1 <= w -> i < length xs ->
  length (win w i xs) = Nat.min w (S i) /\
  (forall j, j < Nat.min w (S i) -> nth_error (win w i xs) j = nth_error xs (S i - Nat.min w (S i) + j)) /\
  (forall j, Nat.min w (S i) <= j -> nth_error (win w i xs) j = None).
Proof.
  intros Hw Hi. rewrite win_seg. unfold wstart.
  assert (Hl : length (seg (S i - w) (S i) xs) = Nat.min w (S i)) by (rewrite seg_length by lia; lia).
  split; [exact Hl|]. split.
  - intros j Hj. rewrite nth_error_seg.
    replace (j <? S i - (S i - w)) with true by (symmetry; apply Nat.ltb_lt; lia).
    f_equal. lia.
  - intros j Hj. apply nth_error_None. rewrite Hl. exact Hj.
Qed.

Lemma win_prefix {X} w i (xs : list X) : S i <= w -> win w i xs = firstn (S i) xs.
Proof.
  intros H. unfold win, wstart. replace (S i - w) with 0 by lia. cbn [skipn]. rewrite Nat.sub_0_r. reflexivity.
Qed.

Lemma win_one {X} i (xs : list X) x : nth_error xs i = Some x -> win 1 i xs = [x].
Proof.
  intros Hx. rewrite win_seg. unfold wstart. replace (S i - 1) with i by lia.
  rewrite (@seg_cons _ i (S i) xs x) by (auto; lia). rewrite seg_nil. reflexivity.
Qed.

Lemma windows_one {X} (xs : list X) : windows 1 xs = map (fun v => [v]) xs.
Proof.
  unfold windows. apply nth_error_ext. intros i. rewrite !nth_error_map, nth_error_seq.
  destruct (i <? length xs) eqn:E.
  - apply Nat.ltb_lt in E. destruct (nth_error_Some_lt xs i E) as [v Hv]. rewrite Hv. cbn.
    f_equal. apply win_one. exact Hv.
  - apply Nat.ltb_ge in E. apply nth_error_None in E. rewrite E. reflexivity.
Qed.

Lemma windows_longer {X} w (xs : list X) :
  length xs <= w -> windows w xs = map (fun i => firstn (S i) xs) (seq 0 (length xs)).
Proof.
  intros H. unfold windows. apply map_ext_in. intros i Hi. apply in_seq in Hi. apply win_prefix. lia.
Qed.

Lemma windows_length {X} w (xs : list X) : length (windows w xs) = length xs.
Proof. unfold windows. rewrite map_length, seq_length. reflexivity. Qed.

(* ================================================================================================ *)
(* 4. the removed argument at the corners                                                           *)
(* ================================================================================================ *)
Section Corners.
  Context {T : Type}.

  Lemma removed_one (xs : list T) i : removed 1 xs i = nth_error xs i.
  Proof. unfold removed. cbn [Nat.sub Nat.ltb Nat.leb]. rewrite Nat.sub_0_r. reflexivity. Qed.

  Lemma removed_to_one (xs : list T) i v : nth_error xs i = Some v -> removed_to 1 xs i = Some v.
  Proof.
    intros Hv. assert (Hi : i < length xs) by (apply nth_error_Some; congruence).
    unfold removed_to. rewrite Nat.min_l by lia. rewrite removed_one. exact Hv.
  Qed.

  Lemma removed_longer w (xs : list T) i : length xs < w -> i < length xs -> removed w xs i = None.
  Proof.
    intros Hw Hi. unfold removed. replace (i <? w - 1) with true by (symmetry; apply Nat.ltb_lt; lia). reflexivity.
  Qed.

  (* the two-phase body clamps the window to the length: at the last position it reports element 0 *)
  Lemma removed_to_longer w (xs : list T) i :
    length xs <= w -> i < length xs ->
    removed_to w xs i = if S i =? length xs then nth_error xs 0 else None.
  Proof.
    intros Hw Hi. unfold removed_to, removed. rewrite Nat.min_r by lia.
    destruct (S i =? length xs) eqn:E.
    - apply Nat.eqb_eq in E. replace (i <? length xs - 1) with false by (symmetry; apply Nat.ltb_ge; lia).
      f_equal. lia.
    - apply Nat.eqb_neq in E. replace (i <? length xs - 1) with true by (symmetry; apply Nat.ltb_lt; lia).
      reflexivity.
  Qed.

  Lemma start_of_one i : start_of 1 i = Some i.
  Proof. unfold start_of. cbn [Nat.sub Nat.ltb Nat.leb]. rewrite Nat.sub_0_r. reflexivity. Qed.

  Lemma start_of_longer w len i : len < w -> i < len -> start_of w i = None.
  Proof.
    intros Hw Hi. unfold start_of. replace (i <? w - 1) with true by (symmetry; apply Nat.ltb_lt; lia). reflexivity.
  Qed.

  Lemma start_of_clamped_longer w len i :
    len <= w -> i < len -> start_of (Nat.min w len) i = if S i =? len then Some 0 else None.
  Proof.
    intros Hw Hi. unfold start_of. rewrite Nat.min_r by lia.
    destruct (S i =? len) eqn:E.
    - apply Nat.eqb_eq in E. replace (i <? len - 1) with false by (symmetry; apply Nat.ltb_ge; lia).
      f_equal. lia.
    - apply Nat.eqb_neq in E. replace (i <? len - 1) with true by (symmetry; apply Nat.ltb_lt; lia).
      reflexivity.
  Qed.

  (* where exactly the two bodies report something different: w > len >= 1, final position *)
  Lemma removed_bodies_differ_iff w (xs : list T) i :
    1 <= w -> i < length xs ->
    (removed_to w xs i <> removed w xs i <-> length xs < w /\ S i = length xs).
  Proof.
    intros Hw Hi. split.
    - intros Hne. destruct (Nat.le_gt_cases w (length xs)) as [Hle|Hgt].
      + exfalso. apply Hne. apply removed_to_eq; auto.
      + split; [exact Hgt|]. destruct (Nat.eq_dec (S i) (length xs)) as [E|E]; [exact E|].
        exfalso. apply Hne. apply removed_to_eq; [exact Hi|right; lia].
    - intros [Hgt E]. rewrite removed_to_longer, removed_longer by lia.
      replace (S i =? length xs) with true by (symmetry; apply Nat.eqb_eq; exact E).
      destruct xs as [|x xs]; [cbn in Hi; lia|]. cbn. discriminate.
  Qed.

  (* two series: the removed pair is the pair of the removed elements *)
  Lemma removed_combine {T2} w (xs : list T) (ys : list T2) i :
    removed w (combine xs ys) i =
    match removed w xs i, removed w ys i with Some a, Some b => Some (a, b) | _, _ => None end.
  Proof. unfold removed. destruct (i <? w - 1); [reflexivity|]. apply nth_error_combine. Qed.
End Corners.

(* ================================================================================================ *)
(* 5. one-series entry points: window = 1, len = 0, window > len                                    *)
(* ================================================================================================ *)
Section EntryCorners.
  Context {T St O : Type}.

  Lemma rolling_apply_window1 (f : St -> option T * T -> St * O) s0 xs :
    rolling_apply_default 1 f s0 xs = Done (run f s0 (map (fun v => (Some v, v)) xs)) /\
    rolling_apply_to 1 f s0 xs = Done (run f s0 (map (fun v => (Some v, v)) xs)).
  Proof.
    split.
    - rewrite rolling_apply_default_eq by lia. do 2 f_equal. rewrite <- mapi_const_map.
      apply mapi_ext. intros i v Hv. rewrite removed_one, Hv. reflexivity.
    - rewrite rolling_apply_to_eq by lia. do 2 f_equal. unfold args_to. rewrite <- mapi_const_map.
      apply mapi_ext. intros i v Hv. rewrite (removed_to_one xs i v Hv). reflexivity.
  Qed.

  Lemma rolling_apply_idx_window1 (f : St -> option nat * nat * T -> St * O) s0 xs :
    rolling_apply_idx_default 1 f s0 xs = Done (run f s0 (mapi (fun i v => (Some i, i, v)) xs)) /\
    rolling_apply_idx_to 1 f s0 xs = Done (run f s0 (mapi (fun i v => (Some i, i, v)) xs)).
  Proof.
    split.
    - rewrite rolling_apply_idx_default_eq by lia. do 2 f_equal.
      apply mapi_ext. intros i v _. rewrite start_of_one. reflexivity.
    - rewrite rolling_apply_idx_to_eq by lia. do 2 f_equal. unfold args_to_idx.
      apply mapi_ext. intros i v Hv. assert (Hi : i < length xs) by (apply nth_error_Some; congruence).
      rewrite Nat.min_l by lia. rewrite start_of_one. reflexivity.
  Qed.

  Lemma rolling_custom_window1 (f : St -> list T -> St * O) s0 xs :
    rolling_custom_default 1 f s0 xs = Done (run f s0 (map (fun v => [v]) xs)) /\
    rolling_custom_to 1 f s0 xs = Done (run f s0 (map (fun v => [v]) xs)).
  Proof.
    rewrite rolling_custom_default_eq, rolling_custom_to_eq by lia. rewrite windows_one. split; reflexivity.
  Qed.

  (* the empty series: nothing is evaluated, whatever the window - except that the returned slice
     form computes `window - 1` before looking at the series *)
  Lemma rolling_empty w (f : St -> option T * T -> St * O) (g : St -> option nat * nat * T -> St * O)
        (h : St -> list T -> St * O) s0 :
    rolling_apply_default w f s0 [] = Done [] /\ rolling_apply_to w f s0 [] = Done [] /\
    rolling_apply_idx_default w g s0 [] = Done [] /\ rolling_apply_idx_to w g s0 [] = Done [] /\
    rolling_custom_to w h s0 [] = Done [] /\
    rolling_custom_default w h s0 [] = (if w =? 0 then Panicked Underflow else Done []).
  Proof.
    repeat split; try apply empty_default; try apply empty_to; try apply empty_idx_default;
      try apply empty_idx_to; try apply empty_custom_to.
  Qed.

  (* a window longer than the series: the iterator body never reports a removed element; the two-phase
     body (window clamped to len) reports element 0 / index 0 at the FINAL position and nothing before *)
  Lemma rolling_apply_longer w (f : St -> option T * T -> St * O) s0 xs :
    length xs < w ->
    rolling_apply_default w f s0 xs = Done (run f s0 (map (fun v => (None, v)) xs)) /\
    rolling_apply_to w f s0 xs
    = Done (run f s0 (mapi (fun i v => (if S i =? length xs then nth_error xs 0 else None, v)) xs)).
  Proof.
    intros Hw. split.
    - rewrite rolling_apply_default_eq by lia. do 2 f_equal. rewrite <- mapi_const_map.
      apply mapi_ext. intros i v Hv. rewrite removed_longer; [reflexivity|exact Hw|].
      apply nth_error_Some. congruence.
    - rewrite rolling_apply_to_eq by lia. do 2 f_equal. unfold args_to.
      apply mapi_ext. intros i v Hv. rewrite removed_to_longer; [reflexivity|lia|].
      apply nth_error_Some. congruence.
  Qed.

  Lemma rolling_apply_idx_longer w (f : St -> option nat * nat * T -> St * O) s0 xs :
    length xs < w ->
    rolling_apply_idx_default w f s0 xs = Done (run f s0 (mapi (fun i v => (None, i, v)) xs)) /\
    rolling_apply_idx_to w f s0 xs
    = Done (run f s0 (mapi (fun i v => (if S i =? length xs then Some 0 else None, i, v)) xs)).
  Proof.
    intros Hw. split.
    - rewrite rolling_apply_idx_default_eq by lia. do 2 f_equal.
      apply mapi_ext. intros i v Hv. rewrite (start_of_longer w (length xs)); [reflexivity|exact Hw|].
      apply nth_error_Some. congruence.
    - rewrite rolling_apply_idx_to_eq by lia. do 2 f_equal. unfold args_to_idx.
      apply mapi_ext. intros i v Hv. rewrite start_of_clamped_longer; [reflexivity|lia|].
      apply nth_error_Some. congruence.
  Qed.

  Lemma rolling_custom_longer w (f : St -> list T -> St * O) s0 xs :
    1 <= w -> length xs <= w ->
    rolling_custom_default w f s0 xs = Done (run f s0 (map (fun i => firstn (S i) xs) (seq 0 (length xs)))) /\
    rolling_custom_to w f s0 xs = Done (run f s0 (map (fun i => firstn (S i) xs) (seq 0 (length xs)))).
  Proof.
    intros H1 Hw. rewrite rolling_custom_default_eq, rolling_custom_to_eq by exact H1.
    rewrite windows_longer by exact Hw. split; reflexivity.
  Qed.

  (* for EVERY callback (not only add-emit-remove ones) the two bodies perform the same calls as soon
     as the window fits into the series (or the series is empty) *)
  Lemma rolling_apply_bodies_equal_fit w (f : St -> option T * T -> St * O) s0 xs :
    w <= length xs \/ xs = [] -> rolling_apply_to w f s0 xs = rolling_apply_default w f s0 xs.
  Proof.
    intros [Hle | ->]; [|rewrite empty_to, empty_default; reflexivity].
    rewrite rolling_apply_to_total, rolling_apply_default_total. destruct (bad_window w xs); [reflexivity|].
    do 2 f_equal. unfold args_to. apply mapi_ext. intros i v Hv. f_equal.
    apply removed_to_eq; [apply nth_error_Some; congruence | left; exact Hle].
  Qed.

  Lemma rolling_apply_idx_bodies_equal_fit w (f : St -> option nat * nat * T -> St * O) s0 xs :
    w <= length xs \/ xs = [] -> rolling_apply_idx_to w f s0 xs = rolling_apply_idx_default w f s0 xs.
  Proof.
    intros [Hle | ->]; [|rewrite empty_idx_to, empty_idx_default; reflexivity].
    rewrite rolling_apply_idx_to_total, rolling_apply_idx_default_total. destruct (bad_window w xs); [reflexivity|].
    do 2 f_equal. unfold args_to_idx. rewrite Nat.min_l by exact Hle. reflexivity.
  Qed.

  Lemma rolling_custom_bodies_equal w (f : St -> list T -> St * O) s0 xs :
    1 <= w -> rolling_custom_to w f s0 xs = rolling_custom_default w f s0 xs.
  Proof. intros Hw. rewrite rolling_custom_to_eq, rolling_custom_default_eq by exact Hw. reflexivity. Qed.
End EntryCorners.

(* ... and when the window is longer than a non-empty series a callback CAN tell them apart: the one that
   returns what it was told to remove *)
Lemma rolling_apply_bodies_differ_longer {T} w (xs : list T) :
  length xs < w -> xs <> [] ->
  rolling_apply_to w (fun (s : unit) (a : option T * T) => (s, fst a)) tt xs
  <> rolling_apply_default w (fun (s : unit) (a : option T * T) => (s, fst a)) tt xs.
Proof.
  intros Hw Hne. rewrite rolling_apply_to_eq, rolling_apply_default_eq by lia.
  rewrite !(run_stateless (@fst (option T) T)). unfold args_to. rewrite !map_mapi. intros H. injection H as H.
  assert (Hn : 0 < length xs) by (destruct xs; [congruence|cbn; lia]).
  apply (f_equal (fun l => nth_error l (length xs - 1))) in H.
  rewrite !nth_error_mapi in H.
  destruct (nth_error_Some_lt xs (length xs - 1)) as [v Hv]; [lia|]. rewrite Hv in H.
  cbn [option_map fst] in H. injection H as H.
  assert (H1 : 1 <= w) by lia. assert (H2 : length xs - 1 < length xs) by lia.
  assert (H3 : S (length xs - 1) = length xs) by lia.
  exact (proj2 (removed_bodies_differ_iff w xs (length xs - 1) H1 H2) (conj Hw H3) H).
Qed.

(* ================================================================================================ *)
(* 6. index form, add-emit-remove callbacks: the hypothesis `w <= len` of the existing theorems is   *)
(*    not needed                                                                                    *)
(* ================================================================================================ *)
Section IdxAgree.
  Context {T St O : Type}.
  Variable pre : St -> nat -> T -> St.
  Variable emit : St -> O.
  Variable post : St -> option nat -> St.

  Lemma run_aer_idx_last_start_irrelevant s (A : list (option nat * nat * T)) st1 st2 e v :
    run (aer_idx pre emit post) s (A ++ [(st1, e, v)]) = run (aer_idx pre emit post) s (A ++ [(st2, e, v)]).
  Proof. rewrite !run_app. f_equal. Qed.

  Lemma rolling_apply_idx_bodies_agree_every_window w s0 (xs : list T) :
    rolling_apply_idx_to w (aer_idx pre emit post) s0 xs
    = rolling_apply_idx_default w (aer_idx pre emit post) s0 xs.
  Proof.
    destruct (Nat.le_gt_cases w (length xs)) as [Hle|Hgt].
    { apply rolling_apply_idx_bodies_equal_fit. left. exact Hle. }
    rewrite rolling_apply_idx_to_eq, rolling_apply_idx_default_eq by lia. f_equal. unfold args_to_idx.
    destruct xs as [|x0 xs'] using rev_ind; [reflexivity|]. clear IHxs'.
    set (len := length (xs' ++ [x0])).
    assert (Hlen : len = S (length xs')) by (unfold len; rewrite app_length; cbn; lia).
    rewrite !mapi_snoc.
    replace (mapi (fun i v => (start_of (Nat.min w len) i, i, v)) xs')
      with (mapi (fun i v => (start_of w i, i, v)) xs').
    - apply run_aer_idx_last_start_irrelevant.
    - apply mapi_ext. intros i v Hv. assert (Hi : i < length xs') by (apply nth_error_Some; congruence).
      f_equal. f_equal. symmetry. apply start_of_min_eq; [lia|right; lia].
  Qed.
End IdxAgree.

Lemma rolling2_apply_idx_bodies_agree_every_window {T1 T2 St O} (pre : St -> nat -> T1 * T2 -> St)
      (emit : St -> O) (post : St -> option nat -> St) w s0 (xs : list T1) (ys : list T2) :
  length xs <= length ys ->
  rolling2_apply_idx_to w (aer_idx pre emit post) s0 xs ys
  = rolling2_apply_idx_default w (aer_idx pre emit post) s0 xs ys.
Proof.
  intros Hle. unfold rolling2_apply_idx_to.
  replace (length ys <? length xs) with false by (symmetry; apply Nat.ltb_ge; exact Hle).
  rewrite rolling2_apply_idx_default_le by exact Hle.
  apply rolling_apply_idx_bodies_agree_every_window.
Qed.

(* ================================================================================================ *)
(* 7. every backend x both output paths                                                             *)
(* ================================================================================================ *)
Section Dispatch.
  Context {T St O : Type}.

  Lemma rolling_apply_on_total b out w (f : St -> option T * T -> St * O) s0 xs :
    rolling_apply_on b out w f s0 xs =
    if bad_window w xs then Panicked AssertFail
    else Done (run f s0 (mapi (fun i v => (if fast b || out then removed_to w xs i else removed w xs i, v)) xs)).
  Proof.
    unfold rolling_apply_on. destruct (fast b), out; cbn [orb];
      first [apply rolling_apply_to_total | apply rolling_apply_default_total].
  Qed.

  Lemma rolling_apply_idx_on_total b out w (f : St -> option nat * nat * T -> St * O) s0 xs :
    rolling_apply_idx_on b out w f s0 xs =
    if bad_window w xs then Panicked AssertFail
    else Done (run f s0 (mapi (fun i v => (start_of (if fast b || out then Nat.min w (length xs) else w) i, i, v)) xs)).
  Proof.
    unfold rolling_apply_idx_on. destruct (fast b), out; cbn [orb];
      first [apply rolling_apply_idx_to_total | apply rolling_apply_idx_default_total].
  Qed.

  Lemma rolling_custom_on_total b out w (f : St -> list T -> St * O) s0 xs :
    rolling_custom_on b out w f s0 xs =
    if fast b then (if bad_window w xs then Panicked AssertFail else Done (run f s0 (windows w xs)))
    else (if w =? 0 then Panicked Underflow else Done (run f s0 (windows w xs))).
  Proof.
    unfold rolling_custom_on. destruct (fast b);
      [apply rolling_custom_to_total | apply rolling_custom_default_total].
  Qed.

  (* Arc<V> behaves as V; the output path is irrelevant on the fast backends *)
  Lemma rolling_on_arc b out w (f : St -> option T * T -> St * O) (g : St -> option nat * nat * T -> St * O)
        (h : St -> list T -> St * O) s0 xs :
    rolling_apply_on (BArc b) out w f s0 xs = rolling_apply_on b out w f s0 xs /\
    rolling_apply_idx_on (BArc b) out w g s0 xs = rolling_apply_idx_on b out w g s0 xs /\
    rolling_custom_on (BArc b) out w h s0 xs = rolling_custom_on b out w h s0 xs.
  Proof. repeat split. Qed.

  Lemma rolling_on_fast_path_irrelevant b w (f : St -> option T * T -> St * O)
        (g : St -> option nat * nat * T -> St * O) (h : St -> list T -> St * O) s0 xs :
    fast b = true ->
    rolling_apply_on b false w f s0 xs = rolling_apply_on b true w f s0 xs /\
    rolling_apply_idx_on b false w g s0 xs = rolling_apply_idx_on b true w g s0 xs /\
    rolling_custom_on b false w h s0 xs = rolling_custom_on b true w h s0 xs.
  Proof.
    intros Hb. unfold rolling_apply_on, rolling_apply_idx_on, rolling_custom_on. rewrite Hb. repeat split.
  Qed.

  (* all backends, both paths: the same calls for EVERY callback when the window fits *)
  Lemma rolling_apply_on_agree_fit b1 o1 b2 o2 w (f : St -> option T * T -> St * O) s0 xs :
    w <= length xs \/ xs = [] ->
    rolling_apply_on b1 o1 w f s0 xs = rolling_apply_on b2 o2 w f s0 xs.
  Proof.
    intros H. unfold rolling_apply_on. rewrite !(rolling_apply_bodies_equal_fit w f s0 xs H).
    destruct (fast b1), o1, (fast b2), o2; reflexivity.
  Qed.

  Lemma rolling_apply_idx_on_agree_fit b1 o1 b2 o2 w (f : St -> option nat * nat * T -> St * O) s0 xs :
    w <= length xs \/ xs = [] ->
    rolling_apply_idx_on b1 o1 w f s0 xs = rolling_apply_idx_on b2 o2 w f s0 xs.
  Proof.
    intros H. unfold rolling_apply_idx_on. rewrite !(rolling_apply_idx_bodies_equal_fit w f s0 xs H).
    destruct (fast b1), o1, (fast b2), o2; reflexivity.
  Qed.

  (* slice form: every backend and path performs the same calls at every window >= 1; window 0 is where
     the fast backends assert (or return [] on the empty series) and the default ones underflow *)
  Lemma rolling_custom_on_agree b1 o1 b2 o2 w (f : St -> list T -> St * O) s0 xs :
    1 <= w -> rolling_custom_on b1 o1 w f s0 xs = rolling_custom_on b2 o2 w f s0 xs.
  Proof.
    intros Hw. unfold rolling_custom_on. rewrite (rolling_custom_bodies_equal w f s0 xs Hw).
    destruct (fast b1), (fast b2); reflexivity.
  Qed.

  Lemma rolling_custom_on_window0 b out (f : St -> list T -> St * O) s0 xs :
    rolling_custom_on b out 0 f s0 xs =
    if fast b then (match xs with [] => Done [] | _ => Panicked AssertFail end) else Panicked Underflow.
  Proof.
    rewrite rolling_custom_on_total. destruct (fast b); [|reflexivity].
    destruct xs; reflexivity.
  Qed.
End Dispatch.

Section DispatchAer.
  Context {T St O : Type}.

  Lemma rolling_apply_on_agree_aer (pre : St -> T -> St) (emit : St -> O) (post : St -> option T -> St)
        b1 o1 b2 o2 w s0 (xs : list T) :
    rolling_apply_on b1 o1 w (aer pre emit post) s0 xs = rolling_apply_on b2 o2 w (aer pre emit post) s0 xs.
  Proof.
    unfold rolling_apply_on. rewrite !rolling_apply_bodies_agree_total.
    destruct (fast b1), o1, (fast b2), o2; reflexivity.
  Qed.

  Lemma rolling_apply_idx_on_agree_aer (pre : St -> nat -> T -> St) (emit : St -> O) (post : St -> option nat -> St)
        b1 o1 b2 o2 w s0 (xs : list T) :
    rolling_apply_idx_on b1 o1 w (aer_idx pre emit post) s0 xs
    = rolling_apply_idx_on b2 o2 w (aer_idx pre emit post) s0 xs.
  Proof.
    unfold rolling_apply_idx_on. rewrite !rolling_apply_idx_bodies_agree_every_window.
    destruct (fast b1), o1, (fast b2), o2; reflexivity.
  Qed.
End DispatchAer.

Section Dispatch2.
  Context {T1 T2 St O : Type}.

  Lemma rolling2_apply_on_total b out w (f : St -> option (T1 * T2) * (T1 * T2) -> St * O) s0 xs ys :
    rolling2_apply_on b out w f s0 xs ys =
    if fast b || out then
      (if length ys <? length xs then Panicked AssertFail
       else if bad_window w xs then Panicked AssertFail
       else Done (run f s0 (mapi (fun i v => (removed_to w (combine xs ys) i, v)) (combine xs ys))))
    else
      (if bad_window w xs then Panicked AssertFail
       else Done (run f s0 (mapi (fun i v => (removed w (combine xs ys) i, v)) (combine xs ys)))).
  Proof.
    unfold rolling2_apply_on. destruct (fast b), out; cbn [orb];
      first [apply rolling2_apply_to_total | apply rolling2_apply_default_total].
  Qed.

  Lemma rolling2_apply_idx_on_total b out w (f : St -> option nat * nat * (T1 * T2) -> St * O) s0 xs ys :
    rolling2_apply_idx_on b out w f s0 xs ys =
    if fast b || out then
      (if length ys <? length xs then Panicked AssertFail
       else if bad_window w xs then Panicked AssertFail
       else Done (run f s0 (mapi (fun i v => (start_of (Nat.min w (length (combine xs ys))) i, i, v)) (combine xs ys))))
    else
      (if bad_window w xs then Panicked AssertFail
       else Done (run f s0 (mapi (fun i v => (start_of w i, i, v)) (combine xs ys)))).
  Proof.
    unfold rolling2_apply_idx_on. destruct (fast b), out; cbn [orb];
      first [apply rolling2_apply_idx_to_total | apply rolling2_apply_idx_default_total].
  Qed.

  Lemma rolling2_custom_on_total b out w (f : St -> list T1 * list T2 -> St * O) s0 xs ys :
    rolling2_custom_on b out w f s0 xs ys =
    if length ys <? length xs then Panicked AssertFail
    else if w =? 0 then Panicked Underflow
    else Done (run f s0 (map (fun i => (win w i xs, win w i ys)) (seq 0 (length xs)))).
  Proof. apply rolling2_custom_default_total. Qed.

  (* add-emit-remove callbacks, second series not shorter: every backend and path gives the same output *)
  Lemma rolling2_apply_on_agree_aer (pre : St -> T1 * T2 -> St) (emit : St -> O)
        (post : St -> option (T1 * T2) -> St) b1 o1 b2 o2 w s0 xs ys :
    length xs <= length ys ->
    rolling2_apply_on b1 o1 w (aer pre emit post) s0 xs ys = rolling2_apply_on b2 o2 w (aer pre emit post) s0 xs ys.
  Proof.
    intros Hle. unfold rolling2_apply_on. rewrite !(rolling2_apply_bodies_agree pre emit post w s0 xs ys Hle).
    destruct (fast b1), o1, (fast b2), o2; reflexivity.
  Qed.

  Lemma rolling2_apply_idx_on_agree_aer (pre : St -> nat -> T1 * T2 -> St) (emit : St -> O)
        (post : St -> option nat -> St) b1 o1 b2 o2 w s0 xs ys :
    length xs <= length ys ->
    rolling2_apply_idx_on b1 o1 w (aer_idx pre emit post) s0 xs ys
    = rolling2_apply_idx_on b2 o2 w (aer_idx pre emit post) s0 xs ys.
  Proof.
    intros Hle. unfold rolling2_apply_idx_on.
    rewrite !(rolling2_apply_idx_bodies_agree_every_window pre emit post w s0 xs ys Hle).
    destruct (fast b1), o1, (fast b2), o2; reflexivity.
  Qed.
End Dispatch2.

(* ================================================================================================ *)
(* 8. the lazy iterator                                                                             *)
(* ================================================================================================ *)
Section Lazy.
  Context {T St O : Type}.

  (* pulling k items runs the callback on the first k windows, in order, and nothing else *)
  Lemma rolling_custom_iter_take_total k w (f : St -> list T -> St * O) s0 xs :
    rolling_custom_iter_take k w f s0 xs =
    if w =? 0 then Panicked Underflow else Done (run f s0 (firstn k (windows w xs))).
  Proof.
    unfold rolling_custom_iter_take. destruct w as [|w]; [reflexivity|]. cbn [Nat.eqb].
    rewrite slices_iter_spec by lia. rewrite map_map. reflexivity.
  Qed.

  Lemma rolling_custom_iter_take_prefix k w (f : St -> list T -> St * O) s0 xs :
    1 <= w ->
    rolling_custom_iter_take k w f s0 xs = Done (firstn k (run f s0 (windows w xs))) /\
    length (firstn k (run f s0 (windows w xs))) = Nat.min k (length xs).
  Proof.
    intros Hw. rewrite rolling_custom_iter_take_total.
    replace (w =? 0) with false by (symmetry; apply Nat.eqb_neq; lia).
    rewrite run_firstn. split; [reflexivity|]. rewrite firstn_length, run_length, windows_length. reflexivity.
  Qed.

  (* draining it is the returned slice form *)
  Lemma rolling_custom_iter_take_all k w (f : St -> list T -> St * O) s0 xs :
    length xs <= k -> rolling_custom_iter_take k w f s0 xs = rolling_custom_default w f s0 xs.
  Proof.
    intros Hk. rewrite rolling_custom_iter_take_total, rolling_custom_default_total.
    rewrite firstn_all2 by (rewrite windows_length; exact Hk). reflexivity.
  Qed.

  (* the callback state after k pulls is the state after the first k windows *)
  Lemma lazy_state_after k w (f : St -> list T -> St * O) s0 xs :
    state_after f s0 (firstn k (windows w xs))
    = state_after f s0 (map (fun i => win w i xs) (seq 0 (Nat.min k (length xs)))).
  Proof.
    f_equal. unfold windows. rewrite firstn_map. f_equal. rewrite firstn_seq_min. reflexivity.
  Qed.
End Lazy.

(* ================================================================================================ *)
(* 9. output placement, per entry point                                                             *)
(* ================================================================================================ *)
Section Shape.
  Context {T St O : Type}.

  Lemma rolling_apply_on_shape b out w (f : St -> option T * T -> St * O) s0 xs :
    (bad_window w xs = true /\ rolling_apply_on b out w f s0 xs = Panicked AssertFail) \/
    (bad_window w xs = false /\ exists l args, rolling_apply_on b out w f s0 xs = Done l /\
       length args = length xs /\ length l = length xs /\
       (forall i v, nth_error xs i = Some v -> exists r, nth_error args i = Some (r, v)) /\
       (forall i a, nth_error args i = Some a ->
          nth_error l i = Some (snd (f (state_after f s0 (firstn i args)) a)))).
  Proof.
    rewrite rolling_apply_on_total. destruct (bad_window w xs); [left; auto|]. right. split; [reflexivity|].
    eexists. eexists. split; [reflexivity|]. split; [apply mapi_length|].
    split; [rewrite run_length; apply mapi_length|]. split.
    - intros i v Hv. rewrite nth_error_mapi, Hv. cbn [option_map]. eexists. reflexivity.
    - intros i a Ha. apply run_nth. exact Ha.
  Qed.
End Shape.
