(* Proofs/RollRankOrd.v — ts_vrank (Model/Cmp.v) for EVERY ordered input carrier (Spec/ExtremaOrd.OrdLaws as a
   Section hypothesis), output arithmetic in XR = option R: Proofs/RollRank.v generalised from Z.
   For every series whose valid elements are not NaN, window, min_periods, pct / rev flag, position and both
   driver bodies the output is the average rank of the current element among the valid elements of its window,
       #{a in V' : a < x} + 1 + #{a in V' : a == x} / 2      (V' = valid window without the current element,
                                                               <, == the carrier's own nltb, neqb)
   in the reversed form (n + 1) - that, divided by n = |V'| + 1 with pct; null when x is null or masked.   *)
From Coq Require Import ZArith List Lia Bool Reals Lra.
From Tevec Require Import Base.Prelude Base.Num Base.XR Model.Driver Proofs.Driver Model.Cmp Proofs.IdxRun
     Spec.ExtremaOrd Proofs.CmpOrd Proofs.RollRank.
Import ListNotations.

Section RankG.
  Context {A : Type} {NA : Num A} {T : Type} {DT : IsNone T A}.
  Hypothesis OL : OrdLaws A.
  Variable xs : list T.
  Hypothesis Hxs : forall v, In v xs -> okv (to_opt v).
  Notation gov := (gov xs).
  Notation govs := (govs xs).
  Notation gcount := (gcount xs).

  (* the recount loop over positions [i, i + cnt) *)
  Lemma g_rank_loop_spec (x : A) : num_ok x -> forall cnt i (r : R) nrep,
    i + cnt <= length xs ->
    rank_loop (B := XR) xs x i cnt (Some r) nrep =
    Ok (Some (r + INR (gcount_lt x (gvalid (seg i (i + cnt) govs))))%R,
        nrep + gcount_eq x (gvalid (seg i (i + cnt) govs))).
  Proof.
    intros Hx. induction cnt as [|cnt IH]; intros i r nrep Hlen.
    - rewrite Nat.add_0_r, seg_nil. cbn. rewrite Rplus_0_r, Nat.add_0_r. reflexivity.
    - destruct (nth_error_Some_lt xs i) as [v Hv]; [lia|].
      assert (Hseg : gvalid (seg i (i + S cnt) govs) = gvalid [to_opt v] ++ gvalid (seg (S i) (S i + cnt) govs)).
      { rewrite (@seg_cons _ i (i + S cnt) govs (to_opt v)); [|lia|rewrite govs_nth, Hv; reflexivity].
        replace (i + S cnt) with (S i + cnt) by lia.
        change (to_opt v :: seg (S i) (S i + cnt) govs) with ([to_opt v] ++ seg (S i) (S i + cnt) govs).
        apply gvalid_app. }
      rewrite Hseg, gcount_lt_app, gcount_eq_app.
      cbn [rank_loop]. rewrite (g_uget_ok xs i v Hv). cbn [bind].
      assert (Hvok : okv (to_opt v)) by (apply Hxs; apply nth_error_In with i; exact Hv).
      destruct (not_none v) eqn:Ev.
      + rewrite (g_to_opt_valid v Ev) in Hvok |- *. cbn in Hvok. cbn [gvalid flat_map app].
        unfold gcount_lt at 1, gcount_eq at 1. cbn [filter]. cbv zeta.
        rewrite (ol_eqb OL (unwrap v) x Hvok Hx).
        destruct (nltb (unwrap v) x) eqn:Hlt.
        * change (@nadd XR NumXR (Some r) (@none XR NumXR)) with (Some (r + 1)%R). rewrite IH by lia.
          cbn [negb andb length]. rewrite plus_INR. f_equal. apply f_equal2; [f_equal; cbn [INR]; lra|lia].
        * cbn [negb andb]. destruct (nltb x (unwrap v)); cbn [negb].
          -- rewrite IH by lia. cbn [length]. f_equal.
          -- rewrite IH by lia. cbn [length]. f_equal. apply f_equal2; [f_equal; cbn [INR]; lra|lia].
      + rewrite (g_to_opt_null v Ev). cbn [gvalid flat_map app]. rewrite IH by lia.
        unfold gcount_lt at 2, gcount_eq at 2. cbn. reflexivity.
  Qed.

  Variable wd : nat.
  Hypothesis Hwd : 1 <= wd.
  Variables (mp : nat) (pct rev : bool).

  (* what the closure computes at position k, as a function of the window *)
  Definition g_rank_at (k : nat) : XR :=
    match gov k with
    | Some x =>
        let V' := gvalid (seg (wstart wd k) k govs) in
        rank_out (B := XR) mp pct rev (gcount (wstart wd k) (S k))
                 (Some (1 + INR (gcount_lt x V'))%R) (1 + gcount_eq x V')
    | None => rank_out (B := XR) mp pct rev (gcount (wstart wd k) (S k)) None 1
    end.

  Lemma g_vrank_cb_step k v n :
    nth_error xs k = Some v -> n = gcount (wstart wd k) k ->
    exists n' o, vrank_cb (B := XR) mp (wd - 1) pct rev xs n (start_of wd k, k, v) = Ok (n', o) /\
                 n' = gcount (wstart wd (S k)) (S k) /\ o = g_rank_at k.
  Proof.
    intros Hv Hn.
    assert (Hk : k < length xs) by (apply nth_error_Some; congruence).
    assert (Hcnt : gcount (wstart wd k) (S k) = gcount (wstart wd k) k + gisv v)
      by (apply gcount_snoc; [unfold wstart; lia|exact Hv]).
    assert (Hfrom : match start_of wd k with Some st => st | None => 0 end = wstart wd k).
    { rewrite (g_start_of_wstart wd Hwd). destruct (k <? wd - 1) eqn:E; [|reflexivity].
      apply Nat.ltb_lt in E. unfold wstart. lia. }
    unfold vrank_cb. rewrite Hfrom.
    (* the post step, for any n1 = count of the full window *)
    assert (Hpost : forall o : XR, exists n',
              (do n2 <- (if wd - 1 <=? k then
                           match start_of wd k with
                           | None => Panic UnwrapNone
                           | Some st => do v0 <- uget xs st;
                                        if not_none v0 then usub (gcount (wstart wd k) (S k)) 1
                                        else Ok (gcount (wstart wd k) (S k))
                           end
                         else Ok (gcount (wstart wd k) (S k)));
               Ok (n2, o)) = Ok (n', o) /\ n' = gcount (wstart wd (S k)) (S k)).
    { intros o. rewrite (g_start_of_wstart wd Hwd).
      destruct (k <? wd - 1) eqn:E.
      - apply Nat.ltb_lt in E. replace (wd - 1 <=? k) with false by (symmetry; apply Nat.leb_gt; lia).
        cbn [bind]. eexists. split; [reflexivity|]. f_equal. unfold wstart. lia.
      - apply Nat.ltb_ge in E. replace (wd - 1 <=? k) with true by (symmetry; apply Nat.leb_le; lia).
        destruct (nth_error_Some_lt xs (wstart wd k)) as [v0 Hv0]; [unfold wstart; lia|].
        rewrite (g_uget_ok xs _ _ Hv0). cbn [bind].
        assert (Hc : gcount (wstart wd k) (S k) = gisv v0 + gcount (wstart wd (S k)) (S k)).
        { replace (wstart wd (S k)) with (S (wstart wd k)) by (unfold wstart; lia).
          apply gcount_cons; [unfold wstart; lia|exact Hv0]. }
        unfold gisv in Hc. destruct (not_none v0).
        + unfold usub. replace (1 <=? gcount (wstart wd k) (S k)) with true
            by (symmetry; apply Nat.leb_le; lia).
          cbn [bind]. eexists. split; [reflexivity|]. lia.
        + cbn [bind]. eexists. split; [reflexivity|]. lia. }
    unfold g_rank_at. rewrite (gov_nth xs k v Hv).
    assert (Hvok : okv (to_opt v)) by (apply Hxs; apply nth_error_In with k; exact Hv).
    destruct (not_none v) eqn:Ev.
    - rewrite (g_to_opt_valid v Ev) in Hvok |- *. cbn in Hvok.
      pose proof (g_rank_loop_spec (unwrap v) Hvok (k - wstart wd k) (wstart wd k) 1 1) as HL.
      replace (wstart wd k + (k - wstart wd k)) with k in HL by (unfold wstart; lia).
      change (@none XR NumXR) with (Some 1%R). rewrite HL by lia. cbn [bind fst snd].
      unfold gisv in Hcnt. rewrite Ev in Hcnt.
      replace (S n) with (gcount (wstart wd k) (S k)) by lia.
      destruct (Hpost (rank_out mp pct rev (gcount (wstart wd k) (S k))
                         (Some (1 + INR (gcount_lt (unwrap v) (gvalid (seg (wstart wd k) k govs))))%R)
                         (1 + gcount_eq (unwrap v) (gvalid (seg (wstart wd k) k govs))))) as (n' & H1 & H2).
      exists n'. eexists. split; [exact H1|]. split; [exact H2|reflexivity].
    - rewrite (g_to_opt_null v Ev). cbn [bind].
      unfold gisv in Hcnt. rewrite Ev in Hcnt.
      replace n with (gcount (wstart wd k) (S k)) by lia.
      destruct (Hpost (rank_out (B := XR) mp pct rev (gcount (wstart wd k) (S k)) nnan 1)) as (n' & H1 & H2).
      exists n'. eexists. split; [exact H1|]. split; [exact H2|reflexivity].
  Qed.
End RankG.

(* ---- the closed form ------------------------------------------------------------------------------ *)
(* average rank of x among V' ∪ {x}: ascending, descending, as a fraction of n = |V'| + 1 *)
Definition g_avg_rank {A} {NA : Num A} (pct rev : bool) (x : A) (V' : list A) : R :=
  let n := S (length V') in
  let asc := (1 + INR (gcount_lt x V') + INR (gcount_eq x V') / 2)%R in
  let r := if rev then (INR (n + 1) - asc)%R else asc in
  if pct then (r / INR n)%R else r.

Section RankFinalG.
  Context {A : Type} {NA : Num A} {T : Type} {DT : IsNone T A}.
  Hypothesis OL : OrdLaws A.

  Theorem ts_vrank_ord body w mp pct rev (xs : list T) :
    valid_not_nan xs -> 1 <= w -> 1 <= length xs ->
    exists out, ts_vrank (B := XR) body w mp pct rev xs = Done out /\ length out = length xs /\
      forall i, i < length xs ->
        nth_error out i =
        Some (match nth_error (map to_opt xs) i with
              | Some (Some x) =>
                  let V' := gvalid (seg (wstart w i) i (map to_opt xs)) in
                  if cmp_mp mp (cmp_window w xs) <=? S (length V') then Some (g_avg_rank pct rev x V')
                  else None
              | _ => None
              end).
  Proof.
    intros Hnan Hw Hlen. pose proof (valid_not_nan_okv xs Hnan) as Hxs.
    unfold ts_vrank. set (wd := cmp_window w xs). set (m := cmp_mp mp wd).
    assert (Hwd : 1 <= wd) by (unfold wd, cmp_window; lia).
    assert (Heff : eff_window body wd (length xs) = wd)
      by (unfold eff_window, wd, cmp_window; destruct body; lia).
    destruct (@idx_run_spec T nat XR (vrank_cb m (wd - 1) pct rev xs) xs body wd
                (fun k n => n = gcount xs (wstart wd k) k)
                (fun k o => o = g_rank_at xs wd m pct rev k) 0 Hwd) as (out & H1 & H2 & H3).
    { assert (H0 : wstart wd 0 = 0) by (unfold wstart; lia). rewrite H0, gcount_nil. reflexivity. }
    { intros k v n Hv Hn. rewrite Heff. apply g_vrank_cb_step; assumption. }
    exists out. split; [exact H1|]. split; [exact H2|].
    apply g_nth_from_rel with (P := fun k o => o = g_rank_at xs wd m pct rev k); [exact H2|exact H3|].
    intros i o Hi ->. unfold g_rank_at. fold (govs xs). rewrite govs_nth.
    unfold wd, cmp_window. rewrite g_wstart_clamp by exact Hi. fold (cmp_window w xs). fold wd.
    unfold gov. destruct (nth_error xs i) as [v|] eqn:Ev; [|apply nth_error_None in Ev; lia].
    cbn [option_map]. destruct (to_opt v) as [x|] eqn:Ex.
    - assert (Hc : gcount xs (wstart w i) (S i) = S (length (gvalid (seg (wstart w i) i (govs xs))))).
      { rewrite (gcount_snoc xs (wstart w i) i v); [|unfold wstart; lia|exact Ev].
        unfold gcount, gisv. rewrite g_to_opt_not_none, Ex. lia. }
      rewrite Hc, rank_out_valid by lia. reflexivity.
    - apply rank_out_null.
  Qed.
End RankFinalG.

(* the descending form is the ascending rank from the other end: #greater + 1 + #equal / 2 *)
Lemma g_avg_rank_rev_gt {A} {NA : Num A} (x : A) (V' : list A) :
  OrdLaws A -> num_ok x -> Forall num_ok V' ->
  g_avg_rank false true x V' = (1 + INR (gcount_gt x V') + INR (gcount_eq x V') / 2)%R.
Proof.
  intros OL Hx HV. unfold g_avg_rank. pose proof (gcount_partition x V' OL Hx HV) as HP.
  replace (S (length V') + 1) with (gcount_lt x V' + gcount_eq x V' + gcount_gt x V' + 2) by lia.
  rewrite !plus_INR. cbn [INR]. lra.
Qed.
