(* Proofs/TimeCal2.v — C17, the order-theoretic half of the calendar and of duration_trunc:
     * days_of_civil is strictly monotone for the lexicographic order on valid dates (hence an order
       isomorphism between valid dates and day numbers);
     * the month-truncated instant is <= x, is the first instant of a year-aligned period of m months
       (m | 12), and is the greatest such instant <= x; x lies before the first instant of the next period;
     * month-free truncation never moves forward (also for d not a whole number of units);
     * known-finding class 1 is tight: every member of the class loses exactly one unit.
   Axiom-free. *)
From Coq Require Import ZArith List Bool Lia ZifyBool.
From Tevec Require Import Base.Prelude Spec.Calendar Model.Time Proofs.Time Proofs.Calendar Proofs.TimeCal.
Local Open Scope Z_scope.

Local Ltac zdm := Z.div_mod_to_equations; lia.

(* decide the closed boolean tests left by a concrete month number *)
Local Ltac simp_ifs :=
  repeat match goal with
  | |- context [if ?b then _ else _] =>
      let v := eval vm_compute in b in
      match v with true => idtac | false => idtac end; change b with v; cbv iota
  end.

(* ------------------------------------------------------------------ month starts *)
(* first day of the month with index t = 12 * year + (month - 1) *)
Definition month_start (t : Z) : Z := days_of_civil (t / 12, t mod 12 + 1, 1).

Lemma days_of_civil_day y m d : days_of_civil (y, m, d) = days_of_civil (y, m, 1) + (d - 1).
Proof. unfold days_of_civil, doe_of_parts. cbv zeta. lia. Qed.

Lemma is_leap_cases y :
  (is_leap y = true /\ (y mod 4 = 0 /\ y mod 100 <> 0 \/ y mod 400 = 0))
  \/ (is_leap y = false /\ (y mod 4 <> 0 \/ y mod 100 = 0) /\ y mod 400 <> 0).
Proof. unfold is_leap. lia. Qed.

(* the day number of the first of the next month = this month's + its length (Hinnant's era arithmetic,
   month by month; the only year-dependent step is February -> March) *)
Lemma month_start_step_ym y m :
  1 <= m <= 12 ->
  days_of_civil (if m =? 12 then y + 1 else y, if m =? 12 then 1 else m + 1, 1)
  = days_of_civil (y, m, 1) + days_in_month y m.
Proof.
  intros Hm.
  assert (Hc : m = 1 \/ m = 2 \/ m = 3 \/ m = 4 \/ m = 5 \/ m = 6 \/ m = 7 \/ m = 8 \/ m = 9
               \/ m = 10 \/ m = 11 \/ m = 12) by lia.
  destruct Hc as [->|[->|[->|[->|[->|[->|[->|[->|[->|[->|[->| ->]]]]]]]]]]];
    unfold days_of_civil, doe_of_parts, days_in_month; cbv zeta; simp_ifs; try zdm.
  (* February: the shifted year changes from y - 1 to y *)
  destruct (is_leap_cases y) as [[-> H]|[-> H]]; zdm.
Qed.

Lemma month_start_succ t :
  month_start (t + 1) = month_start t + days_in_month (t / 12) (t mod 12 + 1).
Proof.
  unfold month_start.
  pose proof (Z.mod_pos_bound t 12 ltac:(lia)) as Hr.
  rewrite <- (month_start_step_ym (t / 12) (t mod 12 + 1)) by lia.
  destruct (Z.eqb_spec (t mod 12 + 1) 12) as [E|E].
  - replace ((t + 1) / 12) with (t / 12 + 1) by zdm.
    replace ((t + 1) mod 12 + 1) with 1 by zdm. reflexivity.
  - replace ((t + 1) / 12) with (t / 12) by zdm.
    replace ((t + 1) mod 12 + 1) with (t mod 12 + 1 + 1) by zdm. reflexivity.
Qed.

Lemma month_start_lt_succ t : month_start t + 28 <= month_start (t + 1).
Proof. rewrite month_start_succ. pose proof (days_in_month_bounds (t / 12) (t mod 12 + 1)). lia. Qed.

Lemma month_start_add t n : 0 <= n -> month_start t + 28 * n <= month_start (t + n).
Proof.
  intros Hn. pattern n. apply natlike_ind; [| |exact Hn].
  - replace (t + 0) with t by lia. lia.
  - intros k Hk IH. replace (t + Z.succ k) with (t + k + 1) by lia.
    pose proof (month_start_lt_succ (t + k)). lia.
Qed.

Lemma month_start_mono a b : a < b -> month_start a < month_start b.
Proof.
  intros H. pose proof (month_start_add a (b - a) ltac:(lia)) as H1.
  replace (a + (b - a)) with b in H1 by lia. lia.
Qed.

Lemma month_start_mono_le a b : a <= b -> month_start a <= month_start b.
Proof.
  intros H. destruct (Z.eq_dec a b) as [->|Hne]; [lia|].
  pose proof (month_start_mono a b ltac:(lia)). lia.
Qed.

Lemma month_start_reflect a b : month_start a < month_start b -> a < b.
Proof.
  intros H. destruct (Z_lt_le_dec a b) as [Hlt|Hge]; [exact Hlt|].
  pose proof (month_start_mono_le b a Hge). lia.
Qed.

Lemma month_start_of_ym y m : 1 <= m <= 12 -> month_start (y * 12 + (m - 1)) = days_of_civil (y, m, 1).
Proof.
  intros Hm. unfold month_start.
  replace ((y * 12 + (m - 1)) / 12) with y by zdm.
  replace ((y * 12 + (m - 1)) mod 12 + 1) with m by zdm. reflexivity.
Qed.

(* the day number of a valid date lies inside its month *)
Lemma days_of_civil_in_month y m d :
  valid_civil (y, m, d) ->
  month_start (y * 12 + (m - 1)) <= days_of_civil (y, m, d) < month_start (y * 12 + (m - 1) + 1).
Proof.
  intros Hv. apply valid_civil_iff in Hv. destruct Hv as [Hm Hd].
  rewrite month_start_succ, (month_start_of_ym y m Hm), (days_of_civil_day y m d).
  replace ((y * 12 + (m - 1)) / 12) with y by zdm.
  replace ((y * 12 + (m - 1)) mod 12 + 1) with m by zdm. lia.
Qed.

(* ------------------------------------------------------------------ monotonicity of days_of_civil *)
Definition civil_lt (a b : civil) : Prop :=
  let '(y1, m1, d1) := a in let '(y2, m2, d2) := b in
  y1 < y2 \/ (y1 = y2 /\ (m1 < m2 \/ (m1 = m2 /\ d1 < d2))).

Theorem days_of_civil_mono a b :
  valid_civil a -> valid_civil b -> civil_lt a b -> days_of_civil a < days_of_civil b.
Proof.
  destruct a as [[y1 m1] d1], b as [[y2 m2] d2]. intros Ha Hb Hlt. unfold civil_lt in Hlt.
  pose proof (days_of_civil_in_month _ _ _ Ha) as Ia. pose proof (days_of_civil_in_month _ _ _ Hb) as Ib.
  apply valid_civil_iff in Ha, Hb. destruct Ha as [Hm1 Hd1], Hb as [Hm2 Hd2].
  destruct (Z.eq_dec (y1 * 12 + (m1 - 1)) (y2 * 12 + (m2 - 1))) as [E|E].
  - assert (y1 = y2 /\ m1 = m2) as [-> ->] by lia.
    rewrite (days_of_civil_day y2 m2 d1), (days_of_civil_day y2 m2 d2). lia.
  - assert (Ht : y1 * 12 + (m1 - 1) + 1 <= y2 * 12 + (m2 - 1)) by lia.
    pose proof (month_start_mono_le _ _ Ht). lia.
Qed.

(* ... and it reflects the order (the lexicographic order is total on triples) *)
Theorem days_of_civil_lt_iff a b :
  valid_civil a -> valid_civil b -> (days_of_civil a < days_of_civil b <-> civil_lt a b).
Proof.
  intros Ha Hb. split; [|apply days_of_civil_mono; assumption].
  intros H. destruct a as [[y1 m1] d1], b as [[y2 m2] d2].
  assert (T : civil_lt (y1, m1, d1) (y2, m2, d2) \/ (y1, m1, d1) = (y2, m2, d2) \/ civil_lt (y2, m2, d2) (y1, m1, d1)).
  { unfold civil_lt. destruct (Z.lt_total y1 y2) as [?|[->|?]]; [lia| |lia].
    destruct (Z.lt_total m1 m2) as [?|[->|?]]; [lia| |lia].
    destruct (Z.lt_total d1 d2) as [?|[->|?]]; [lia| |lia]. auto. }
  destruct T as [T|[T|T]]; [exact T| |].
  - rewrite T in H. lia.
  - pose proof (days_of_civil_mono _ _ Hb Ha T). lia.
Qed.

(* civil_of_days is monotone as well (it is the inverse) *)
Corollary civil_of_days_mono z1 z2 : z1 < z2 -> civil_lt (civil_of_days z1) (civil_of_days z2).
Proof.
  intros H. apply days_of_civil_lt_iff; try apply civil_of_days_valid.
  rewrite !days_civil_days. exact H.
Qed.

#[local] Opaque days_of_civil civil_of_days.

(* ------------------------------------------------------------------ instants and fields *)
Definition DAY_NS : Z := 86400000000000.

Lemma as_cr_instant u x c :
  as_cr u x = Some c ->
  instant_ns u x = (cr_day c * 86400 + cr_sod c) * 1000000000 + cr_nanos c
  /\ 0 <= cr_sod c < 86400 /\ 0 <= cr_nanos c < 1000000000.
Proof.
  intros H. destruct (as_cr_total _ _ _ H) as [-> _].
  unfold instant_ns, cr_day, cr_sod, cr_of_total_ns, SECS_PER_DAY. cbn [cr_secs cr_nanos].
  set (T := x * unit_ns u). clearbody T. repeat split; zdm.
Qed.

Lemma as_cr_day_civil u x c yr mo dd :
  as_cr u x = Some c -> cr_civil c = (yr, mo, dd) ->
  valid_civil (yr, mo, dd) /\ cr_day c = days_of_civil (yr, mo, dd).
Proof.
  intros _ E. unfold cr_civil in E. split.
  - rewrite <- E. apply civil_of_days_valid.
  - rewrite <- E. symmetry. apply days_civil_days.
Qed.

(* first instant (ns since the epoch) of the month with index t *)
Definition month_instant (t : Z) : Z := month_start t * DAY_NS.

(* a year-aligned period of m months starts at month index yr * 12 + k * m *)
Definition is_period_start (m T : Z) : Prop :=
  exists yr k, 0 <= k /\ k * m < 12 /\ T = days_of_civil (yr, k * m + 1, 1) * DAY_NS.

Lemma period_start_range mo m : divides12 m -> 1 <= mo <= 12 ->
  1 <= period_start mo m <= mo /\ (period_start mo m - 1) mod m = 0 /\ mo - period_start mo m < m.
Proof.
  intros Hm Hmo. unfold period_start.
  destruct Hm as [->|[->|[->|[->|[->| ->]]]]]; zdm.
Qed.

(* the truncated instant in closed form *)
Lemma month_trunc_instant u x m y :
  x <> NaT -> divides12 m -> dt_trunc u x (mktd m 0) = Ok y -> y <> NaT ->
  exists c yr mo dd, as_cr u x = Some c /\ cr_civil c = (yr, mo, dd)
    /\ instant_ns u y = days_of_civil (yr, period_start mo m, 1) * DAY_NS.
Proof.
  intros Hx Hm H Hy. unfold dt_trunc in H. rewrite (proj2 (is_nat_false x) Hx) in H.
  destruct (as_cr u x) as [c|] eqn:Ec; [|discriminate]. cbn [unwrap bind td_months td_ns] in H. cbv zeta in H.
  assert (Hm0 : (m =? 0) = false /\ (m <? 0) = false) by (destruct Hm as [->|[->|[->|[->|[->| ->]]]]]; auto).
  destruct Hm0 as [Hm1 Hm2]. rewrite Hm1, Hm2 in H. cbn [negb] in H.
  destruct (trunc_months c m) as [c'|] eqn:Et; [|discriminate]. cbn [bind] in H.
  change (num_ns 0) with (Some 0) in H. cbv iota in H.
  pose proof (trunc_months_spec calendar_lawful _ _ _ Hm Et) as HS.
  destruct (cr_civil c) as [[yr mo] dd] eqn:Ecv. destruct HS as (S1 & S2 & S3).
  exists c, yr, mo, dd. split; [reflexivity|]. split; [exact Ecv|].
  assert (Hw : cr_wf c') by (unfold cr_wf; rewrite S3; lia).
  rewrite <- (cr_of_total_total _ Hw) in H.
  apply from_cr_of_total_val in H; [|exact Hy].
  assert (Hday : cr_day c' = days_of_civil (yr, period_start mo m, 1)).
  { unfold cr_civil in S1. rewrite <- S1. symmetry. apply days_civil_days. }
  assert (Hsecs : cr_secs c' = cr_day c' * 86400 + cr_sod c').
  { unfold cr_day, cr_sod, SECS_PER_DAY. zdm. }
  unfold cr_total_ns in H. rewrite S3, Hsecs, S2, Hday in H.
  unfold instant_ns, DAY_NS. subst y.
  set (D := days_of_civil (yr, period_start mo m, 1)). clearbody D.
  destruct u; cbn [unit_ns]; zdm.
Qed.

(* (1) the truncated instant is not after x *)
Theorem month_trunc_le u x m y :
  x <> NaT -> divides12 m -> dt_trunc u x (mktd m 0) = Ok y -> y <> NaT ->
  instant_ns u y <= instant_ns u x /\ y <= x.
Proof.
  intros Hx Hm H Hy.
  destruct (month_trunc_instant u x m y Hx Hm H Hy) as (c & yr & mo & dd & Ec & Ecv & Ey).
  destruct (as_cr_instant _ _ _ Ec) as (Ex & Hsod & Hnanos).
  destruct (as_cr_day_civil _ _ _ _ _ _ Ec Ecv) as [Hv Hday].
  pose proof (days_of_civil_in_month _ _ _ Hv) as Hin.
  apply valid_civil_iff in Hv. destruct Hv as [Hmo Hdd].
  destruct (period_start_range mo m Hm Hmo) as (Hps & _ & _).
  assert (Hle : days_of_civil (yr, period_start mo m, 1) <= cr_day c).
  { rewrite Hday, <- (month_start_of_ym yr (period_start mo m)) by lia.
    pose proof (month_start_mono_le (yr * 12 + (period_start mo m - 1)) (yr * 12 + (mo - 1)) ltac:(lia)). lia. }
  assert (Hns : instant_ns u y <= instant_ns u x).
  { rewrite Ey, Ex. unfold DAY_NS. nia. }
  split; [exact Hns|]. unfold instant_ns in Hns. pose proof (unit_ns_pos u). nia.
Qed.

(* (2) it is the first instant of a year-aligned period of m months, the greatest one not after x, and
       x lies before the first instant of the next period *)
Theorem month_trunc_greatest u x m y :
  x <> NaT -> divides12 m -> dt_trunc u x (mktd m 0) = Ok y -> y <> NaT ->
  is_period_start m (instant_ns u y)
  /\ instant_ns u y <= instant_ns u x
  /\ (forall T, is_period_start m T -> T <= instant_ns u x -> T <= instant_ns u y).
Proof.
  intros Hx Hm H Hy.
  pose proof (month_trunc_le u x m y Hx Hm H Hy) as [Hle _].
  destruct (month_trunc_instant u x m y Hx Hm H Hy) as (c & yr & mo & dd & Ec & Ecv & Ey).
  destruct (as_cr_instant _ _ _ Ec) as (Ex & Hsod & Hnanos).
  destruct (as_cr_day_civil _ _ _ _ _ _ Ec Ecv) as [Hv Hday].
  pose proof (days_of_civil_in_month _ _ _ Hv) as Hin.
  apply valid_civil_iff in Hv. destruct Hv as [Hmo Hdd].
  destruct (period_start_range mo m Hm Hmo) as (Hps & Hpm & Hpd).
  assert (Hm0 : 0 < m) by (destruct Hm as [->|[->|[->|[->|[->| ->]]]]]; lia).
  split; [|split; [exact Hle|]].
  - exists yr, ((period_start mo m - 1) / m). rewrite Ey.
    assert (E : (period_start mo m - 1) / m * m + 1 = period_start mo m).
    { pose proof (Z.div_mod (period_start mo m - 1) m ltac:(lia)). lia. }
    rewrite E. split; [apply Z.div_pos; lia|]. split; [lia|reflexivity].
  - intros T (yr' & k & Hk0 & Hk & ->) HT.
    rewrite Ey. apply Z.mul_le_mono_nonneg_r; [unfold DAY_NS; lia|].
    rewrite <- (month_start_of_ym yr' (k * m + 1)) by lia.
    rewrite <- (month_start_of_ym yr (period_start mo m)) by lia.
    apply month_start_mono_le.
    (* the candidate starts no later than x's month ... *)
    assert (Hlt : month_start (yr' * 12 + (k * m + 1 - 1)) < month_start (yr * 12 + (mo - 1) + 1)).
    { rewrite (month_start_of_ym yr' (k * m + 1)) by lia.
      rewrite Ex in HT. unfold DAY_NS in HT. nia. }
    apply month_start_reflect in Hlt.
    (* ... and both indices are multiples of m *)
    unfold period_start in *.
    destruct Hm as [->|[->|[->|[->|[->| ->]]]]]; zdm.
Qed.

Theorem month_trunc_next u x m y :
  x <> NaT -> divides12 m -> dt_trunc u x (mktd m 0) = Ok y -> y <> NaT ->
  exists c yr mo dd, as_cr u x = Some c /\ cr_civil c = (yr, mo, dd)
    /\ instant_ns u y = days_of_civil (yr, period_start mo m, 1) * DAY_NS
    /\ instant_ns u y <= instant_ns u x
       < days_of_civil (add_months (yr, period_start mo m, 1) m) * DAY_NS.
Proof.
  intros Hx Hm H Hy.
  pose proof (month_trunc_le u x m y Hx Hm H Hy) as [Hle _].
  destruct (month_trunc_instant u x m y Hx Hm H Hy) as (c & yr & mo & dd & Ec & Ecv & Ey).
  exists c, yr, mo, dd. split; [exact Ec|]. split; [exact Ecv|]. split; [exact Ey|]. split; [exact Hle|].
  destruct (as_cr_instant _ _ _ Ec) as (Ex & Hsod & Hnanos).
  destruct (as_cr_day_civil _ _ _ _ _ _ Ec Ecv) as [Hv Hday].
  pose proof (days_of_civil_in_month _ _ _ Hv) as Hin.
  apply valid_civil_iff in Hv. destruct Hv as [Hmo Hdd].
  destruct (period_start_range mo m Hm Hmo) as (Hps & Hpm & Hpd).
  unfold add_months.
  set (t := yr * 12 + (period_start mo m - 1) + m).
  pose proof (days_in_month_bounds (t / 12) (t mod 12 + 1)).
  rewrite Z.min_l by lia.
  change (days_of_civil (t / 12, t mod 12 + 1, 1)) with (month_start t).
  pose proof (month_start_mono_le (yr * 12 + (mo - 1) + 1) t ltac:(subst t; lia)).
  rewrite Ex. unfold DAY_NS. nia.
Qed.

(* ------------------------------------------------------------------ month-free truncation never moves forward *)
(* for every month-free d > 0 (not only whole numbers of units): y <= x, and x is less than d plus one
   unit after y *)
Theorem dt_trunc_monthfree_le u x d y :
  x <> NaT -> td_months d = 0 -> 0 < td_ns d -> dt_trunc u x d = Ok y -> y <> NaT ->
  instant_ns u y <= td_ns d * (instant_ns u x / td_ns d) <= instant_ns u x
  /\ instant_ns u x < instant_ns u y + unit_ns u + td_ns d
  /\ y <= x.
Proof.
  intros Hx Hm Hd H Hy. apply dt_trunc_monthfree in H; try assumption.
  pose proof (unit_ns_pos u) as HU. unfold instant_ns in *.
  set (n := td_ns d) in *. set (T := x * unit_ns u) in *.
  pose proof (Z.mul_div_le T n Hd) as H1. pose proof (Z.mul_succ_div_gt T n Hd) as H2.
  set (F := n * (T / n)) in *.
  pose proof (Z.mul_div_le F (unit_ns u) HU) as H3. pose proof (Z.mul_succ_div_gt F (unit_ns u) HU) as H4.
  rewrite <- H in H3, H4.
  assert (Hyx : y * unit_ns u <= x * unit_ns u) by (fold T; lia).
  repeat split; try lia. nia.
Qed.

(* ------------------------------------------------------------------ class 1 is tight *)
(* every member of known-finding class 1 fails, and always in the same way: the round trip returns x - 1 *)
Theorem add_sub_class1_loses_one_unit u x d y z :
  x <> NaT -> td_months d = 0 -> kf_subunit u d = true ->
  dt_add u x d = Ok y -> y <> NaT -> dt_sub u y d = Ok z -> z <> NaT ->
  z = x - 1.
Proof.
  intros Hx Hm Hk Ha Hy Hs Hz.
  unfold kf_subunit in Hk. apply negb_true_iff in Hk. apply Z.eqb_neq in Hk.
  pose proof (unit_ns_pos u) as HU.
  destruct (dt_add_monthfree _ _ _ _ Hm Ha Hx) as (c & r & Hc & Hr & Hf).
  apply as_cr_total in Hc. destruct Hc as [-> _].
  apply cr_add_ns_inv in Hr. destruct Hr as [-> _]. rewrite cr_total_of_total in Hf.
  apply from_cr_of_total_val in Hf; [|exact Hy].
  destruct (dt_sub_monthfree _ _ _ _ Hm Hs Hy) as (c2 & r2 & Hc2 & Hr2 & Hf2).
  apply as_cr_total in Hc2. destruct Hc2 as [-> _].
  apply cr_add_ns_inv in Hr2. destruct Hr2 as [-> _]. rewrite cr_total_of_total in Hf2.
  apply from_cr_of_total_val in Hf2; [|exact Hz].
  subst y z. set (U := unit_ns u) in *. set (n := td_ns d) in *. clearbody U n.
  replace (x * U + n) with (n + x * U) by lia. rewrite Z.div_add by lia.
  replace ((n / U + x) * U + - n) with (- (n mod U) + x * U) by (pose proof (Z.div_mod n U ltac:(lia)); lia).
  rewrite Z.div_add by lia.
  pose proof (Z.mod_pos_bound n U HU).
  replace (- (n mod U) / U) with (-1)
    by (apply (Z.div_unique_pos _ _ (-1) (U - n mod U)); lia).
  lia.
Qed.

Corollary add_sub_class1_always_fails u x d y z :
  x <> NaT -> td_months d = 0 -> kf_subunit u d = true ->
  dt_add u x d = Ok y -> y <> NaT -> dt_sub u y d = Ok z -> z <> NaT -> z <> x.
Proof. intros. rewrite (add_sub_class1_loses_one_unit u x d y z) by assumption. lia. Qed.
