(* Proofs/Kernels2.v — C10: the rescanning callbacks of cmp.rs / norm.rs / reg.rs inside the trace model.
   For the traced texts of Model/Kernels.v (vext_cb_tr, varg_cb_tr, vrank_cb_tr, mmnorm_cb_tr, resid_cb_tr):
     (E) erasure: the second component is the model callback of Model/Cmp.v / Norm.v (/ Reg.v under the driver);
     (R) every access of the first component is an unchecked read at an index of start.unwrap_or(0) ..= end,
         for every state, every series and every carrier — no law of the numeric class is used;
     (T) hence the access trace of a whole call (both driver bodies, every window, every min_periods) is in
         bounds, unconditionally, and its writes are the slots 0..len-1 once each whenever the call returns.
   Stdlib only, axiom-free.                                                                               *)
From Coq Require Import ZArith Lia List.
From Tevec Require Import Base.Prelude Base.Num Model.Driver Proofs.Driver Model.Features Model.Cmp
     Model.Norm Model.Binary Model.Reg Model.Kernels Proofs.Kernels Proofs.IdxRun Proofs.IdxPrefix.
Import ListNotations.

(* ---- the traced monad ------------------------------------------------------------------------------ *)
Lemma snd_tbind {X Y} (m : tr X) (f : X -> tr Y) : snd (tbind m f) = bind (snd m) (fun x => snd (f x)).
Proof. unfold tbind. destruct (snd m); reflexivity. Qed.
Lemma snd_tget {T} view (xs : list T) i : snd (tget view xs i) = uget xs i.
Proof. reflexivity. Qed.
Lemma snd_tget2 {T} (zs : list T) i : snd (tget2 zs i) = uget zs i.
Proof. reflexivity. Qed.
Lemma snd_tret {X} (x : X) : snd (tret x) = Ok x.
Proof. reflexivity. Qed.
Lemma snd_tpure {X} (r : res X) : snd (tpure r) = r.
Proof. reflexivity. Qed.

Lemma rw_nil lo hi : reads_within lo hi [].
Proof. constructor. Qed.
Lemma rw_app lo hi t1 t2 : reads_within lo hi t1 -> reads_within lo hi t2 -> reads_within lo hi (t1 ++ t2).
Proof. intros H1 H2. apply Forall_app. split; assumption. Qed.
Lemma rw_tret {X} lo hi (x : X) : reads_within lo hi (fst (tret x)).
Proof. constructor. Qed.
Lemma rw_tpure {X} lo hi (r : res X) : reads_within lo hi (fst (tpure r)).
Proof. constructor. Qed.
Lemma rw_tget {T} view (xs : list T) i lo hi : lo <= i -> i <= hi -> reads_within lo hi (fst (tget view xs i)).
Proof. intros H1 H2. repeat constructor; assumption. Qed.
Lemma rw_tget2 {T} (zs : list T) i lo hi : lo <= i -> i <= hi -> reads_within lo hi (fst (tget2 zs i)).
Proof. intros H1 H2. repeat constructor; assumption. Qed.
Lemma rw_tbind {X Y} lo hi (m : tr X) (f : X -> tr Y) :
  reads_within lo hi (fst m) -> (forall x, reads_within lo hi (fst (f x))) ->
  reads_within lo hi (fst (tbind m f)).
Proof.
  intros H1 H2. unfold tbind. destruct (snd m) as [x|pk]; cbn [fst]; [|exact H1].
  apply rw_app; [exact H1|apply H2].
Qed.
Lemma rw_no_writes lo hi t : reads_within lo hi t -> writes_of t = [].
Proof.
  induction 1 as [|a t Ha _ IH]; [reflexivity|]. destruct a; try contradiction. cbn. exact IH.
Qed.
Lemma rw_acc_ok lo hi len len2 t :
  hi < len -> len <= len2 -> reads_within lo hi t -> Forall (acc_ok len len2) t.
Proof.
  intros Hh Hl H. eapply Forall_impl; [|exact H]. intros a Ha. destruct a as [view i| | |]; try contradiction.
  destruct view as [|view]; cbn; lia.
Qed.

Ltac rw_step :=
  first [ apply rw_tret | apply rw_tpure | apply rw_tget; lia | apply rw_tget2; lia
        | apply rw_tbind; [|intros ?] ].

(* ---- cmp.rs ---------------------------------------------------------------------------------------- *)
Section CmpTrace.
  Context {A : Type} {NA : Num A} {T : Type} {DT : IsNone T A}.
  Variable scmp : option A -> option A -> comparison.
  Variable xs : list T.

  Lemma rescan_tr_erase : forall cnt i m mi,
    snd (rescan_tr scmp xs i cnt m mi) = rescan scmp xs i cnt m mi.
  Proof.
    induction cnt as [|c IH]; intros i m mi; [reflexivity|]. cbn [rescan_tr rescan].
    rewrite snd_tbind, snd_tget. destruct (uget xs i) as [v|pk]; [|reflexivity]. cbn [bind].
    destruct (takes (scmp (to_opt v) m)); apply IH.
  Qed.
  Lemma rescan_tr_reads lo hi : forall cnt i m mi, lo <= i -> i + cnt <= S hi ->
    reads_within lo hi (fst (rescan_tr scmp xs i cnt m mi)).
  Proof.
    induction cnt as [|c IH]; intros i m mi H1 H2; [apply rw_tret|]. cbn [rescan_tr].
    apply rw_tbind; [apply rw_tget; lia|]. intros v.
    destruct (takes (scmp (to_opt v) m)); apply IH; lia.
  Qed.

  Lemma ext_step_tr_erase s st e v : snd (ext_step_tr scmp xs s st e v) = ext_step scmp xs s st e v.
  Proof.
    unfold ext_step_tr, ext_step. cbv zeta.
    match goal with |- context [opt_lt ?a st] => destruct (opt_lt a st) end.
    - destruct st as [j|]; [|reflexivity]. rewrite snd_tbind, snd_tget.
      destruct (uget xs j) as [v0|pk]; [|reflexivity]. cbn [bind].
      rewrite snd_tbind, rescan_tr_erase.
      match goal with |- context [rescan ?a ?b ?c ?d ?e ?f] => destruct (rescan a b c d e f) end; reflexivity.
    - match goal with |- context [takes ?c] => destruct (takes c) end; reflexivity.
  Qed.
  Lemma ext_step_tr_reads s st e v : start_le st e ->
    reads_within (start_or_0 st) e (fst (ext_step_tr scmp xs s st e v)).
  Proof.
    intros Hs. unfold ext_step_tr. cbv zeta.
    match goal with |- context [opt_lt ?a st] => destruct (opt_lt a st) end.
    - destruct st as [j|]; [|apply rw_tpure]. cbn [start_le start_or_0] in *.
      apply rw_tbind; [apply rw_tget; lia|]. intros v0.
      apply rw_tbind; [apply rescan_tr_reads; lia|]. intros r. apply rw_tret.
    - match goal with |- context [takes ?c] => destruct (takes c) end; apply rw_tret.
  Qed.

  Lemma ext_post_tr_erase s st : snd (ext_post_tr xs s st) = ext_post xs s st.
  Proof.
    unfold ext_post_tr, ext_post. destruct st as [j|]; [|reflexivity].
    rewrite snd_tbind, snd_tget. destruct (uget xs j) as [v0|pk]; [|reflexivity]. cbn [bind].
    destruct (not_none v0); [|reflexivity]. rewrite snd_tbind, snd_tpure.
    destruct (usub (x_n s) 1); reflexivity.
  Qed.
  Lemma ext_post_tr_reads s st e : start_le st e ->
    reads_within (start_or_0 st) e (fst (ext_post_tr xs s st)).
  Proof.
    intros Hs. unfold ext_post_tr. destruct st as [j|]; [|apply rw_tret]. cbn [start_le start_or_0] in *.
    apply rw_tbind; [apply rw_tget; lia|]. intros v0. destruct (not_none v0); [|apply rw_tret].
    apply rw_tbind; [apply rw_tpure|]. intros n'. apply rw_tret.
  Qed.

  Theorem vext_cb_tr_erase mp s a : snd (vext_cb_tr scmp mp xs s a) = vext_cb scmp mp xs s a.
  Proof.
    destruct a as [[st e] v]. unfold vext_cb_tr, vext_cb. rewrite snd_tbind, ext_step_tr_erase.
    destruct (ext_step scmp xs s st e v) as [s1|pk]; [|reflexivity]. cbn [bind].
    rewrite snd_tbind, ext_post_tr_erase. destruct (ext_post xs s1 st); reflexivity.
  Qed.
  Theorem vext_cb_tr_reads mp s st e v : start_le st e ->
    reads_within (start_or_0 st) e (fst (vext_cb_tr scmp mp xs s (st, e, v))).
  Proof.
    intros Hs. unfold vext_cb_tr. apply rw_tbind; [apply ext_step_tr_reads; exact Hs|]. intros s1.
    apply rw_tbind; [apply ext_post_tr_reads; exact Hs|]. intros s2. apply rw_tret.
  Qed.

  Theorem varg_cb_tr_erase mp s a : snd (varg_cb_tr scmp mp xs s a) = varg_cb scmp mp xs s a.
  Proof.
    destruct a as [[st e] v]. unfold varg_cb_tr, varg_cb. rewrite snd_tbind, ext_step_tr_erase.
    destruct (ext_step scmp xs s st e v) as [s1|pk]; [|reflexivity]. cbn [bind].
    rewrite snd_tbind, snd_tpure.
    match goal with |- bind ?r _ = bind ?r _ => destruct r as [o|pk] end; [|reflexivity]. cbn [bind].
    rewrite snd_tbind, ext_post_tr_erase. destruct (ext_post xs s1 st); reflexivity.
  Qed.
  Theorem varg_cb_tr_reads mp s st e v : start_le st e ->
    reads_within (start_or_0 st) e (fst (varg_cb_tr scmp mp xs s (st, e, v))).
  Proof.
    intros Hs. unfold varg_cb_tr. apply rw_tbind; [apply ext_step_tr_reads; exact Hs|]. intros s1.
    apply rw_tbind; [apply rw_tpure|]. intros o.
    apply rw_tbind; [apply ext_post_tr_reads; exact Hs|]. intros s2. apply rw_tret.
  Qed.
End CmpTrace.

Section RankTrace.
  Context {A : Type} {NA : Num A} {T : Type} {DT : IsNone T A} {B : Type} {NB : Num B}.
  Variable xs : list T.

  Lemma rank_loop_tr_erase x : forall cnt i (rank : B) nrep,
    snd (rank_loop_tr xs x i cnt rank nrep) = Cmp.rank_loop xs x i cnt rank nrep.
  Proof.
    induction cnt as [|c IH]; intros i rank nrep; [reflexivity|]. cbn [rank_loop_tr Cmp.rank_loop].
    rewrite snd_tbind, snd_tget. destruct (uget xs i) as [a|pk]; [|reflexivity]. cbn [bind].
    destruct (not_none a); [|apply IH].
    destruct (nltb (unwrap a) x); [apply IH|]. destruct (neqb (unwrap a) x); apply IH.
  Qed.
  Lemma rank_loop_tr_reads x lo hi : forall cnt i (rank : B) nrep, lo <= i -> i + cnt <= S hi ->
    reads_within lo hi (fst (rank_loop_tr xs x i cnt rank nrep)).
  Proof.
    induction cnt as [|c IH]; intros i rank nrep H1 H2; [apply rw_tret|]. cbn [rank_loop_tr].
    apply rw_tbind; [apply rw_tget; lia|]. intros a.
    destruct (not_none a); [|apply IH; lia].
    destruct (nltb (unwrap a) x); [apply IH; lia|]. destruct (neqb (unwrap a) x); apply IH; lia.
  Qed.

  Theorem vrank_cb_tr_erase mp wm1 pct rev (n : nat) a :
    snd (vrank_cb_tr (B := B) mp wm1 pct rev xs n a) = vrank_cb mp wm1 pct rev xs n a.
  Proof.
    destruct a as [[st e] v]. unfold vrank_cb_tr, vrank_cb. rewrite snd_tbind.
    destruct (not_none v).
    - rewrite snd_tbind, rank_loop_tr_erase.
      destruct (Cmp.rank_loop xs (unwrap v) _ _ _ _) as [rr|pk]; [|reflexivity]. cbn [bind snd tret].
      rewrite snd_tbind. destruct (wm1 <=? e); [|reflexivity].
      destruct st as [j|]; [|reflexivity]. rewrite snd_tbind, snd_tget.
      destruct (uget xs j) as [v0|pk]; [|reflexivity]. cbn [bind].
      destruct (not_none v0); cbn [snd tpure tret bind]; [|reflexivity].
      destruct (usub (S n) 1); reflexivity.
    - cbn [bind snd tret]. rewrite snd_tbind. destruct (wm1 <=? e); [|reflexivity].
      destruct st as [j|]; [|reflexivity]. rewrite snd_tbind, snd_tget.
      destruct (uget xs j) as [v0|pk]; [|reflexivity]. cbn [bind].
      destruct (not_none v0); cbn [snd tpure tret bind]; [|reflexivity].
      destruct (usub n 1); reflexivity.
  Qed.
  Theorem vrank_cb_tr_reads mp wm1 pct rev (n : nat) st e v : start_le st e ->
    reads_within (start_or_0 st) e (fst (vrank_cb_tr (B := B) mp wm1 pct rev xs n (st, e, v))).
  Proof.
    intros Hs. unfold vrank_cb_tr. apply rw_tbind.
    - destruct (not_none v); [|apply rw_tret]. apply rw_tbind; [|intros rr; apply rw_tret].
      apply rank_loop_tr_reads; destruct st; cbn [start_le start_or_0] in *; lia.
    - intros [[n1 rank] nrep]. apply rw_tbind; [|intros n2; apply rw_tret].
      destruct (wm1 <=? e); [|apply rw_tret]. destruct st as [j|]; [|apply rw_tpure].
      cbn [start_le start_or_0] in *. apply rw_tbind; [apply rw_tget; lia|]. intros v0.
      destruct (not_none v0); [apply rw_tpure|apply rw_tret].
  Qed.
End RankTrace.

Section NormTrace.
  Context {A : Type} {NA : Num A} {T : Type} {DT : IsNone T A}.
  Variables tmin tmax : A.
  Variable xs : list T.

  Lemma scan_max_tr_erase : forall cnt i mx mxi, snd (scan_max_tr xs i cnt mx mxi) = scan_max xs i cnt mx mxi.
  Proof.
    induction cnt as [|c IH]; intros i mx mxi; [reflexivity|]. cbn [scan_max_tr scan_max].
    rewrite snd_tbind, snd_tget. destruct (uget xs i) as [a|pk]; [|reflexivity]. cbn [bind].
    destruct (not_none a); [|apply IH]. destruct (nleb mx (unwrap a)); apply IH.
  Qed.
  Lemma scan_min_tr_erase : forall cnt i mn mni, snd (scan_min_tr xs i cnt mn mni) = scan_min xs i cnt mn mni.
  Proof.
    induction cnt as [|c IH]; intros i mn mni; [reflexivity|]. cbn [scan_min_tr scan_min].
    rewrite snd_tbind, snd_tget. destruct (uget xs i) as [a|pk]; [|reflexivity]. cbn [bind].
    destruct (not_none a); [|apply IH]. destruct (nleb (unwrap a) mn); apply IH.
  Qed.
  Lemma scan_both_tr_erase : forall cnt i mx mxi mn mni,
    snd (scan_both_tr xs i cnt mx mxi mn mni) = scan_both xs i cnt mx mxi mn mni.
  Proof.
    induction cnt as [|c IH]; intros i mx mxi mn mni; [reflexivity|]. cbn [scan_both_tr scan_both].
    rewrite snd_tbind, snd_tget. destruct (uget xs i) as [a|pk]; [|reflexivity]. cbn [bind].
    destruct (not_none a); [|apply IH]. destruct (nleb mx (unwrap a)), (nleb (unwrap a) mn); apply IH.
  Qed.
  Lemma scan_max_tr_reads lo hi : forall cnt i mx mxi, lo <= i -> i + cnt <= S hi ->
    reads_within lo hi (fst (scan_max_tr xs i cnt mx mxi)).
  Proof.
    induction cnt as [|c IH]; intros i mx mxi H1 H2; [apply rw_tret|]. cbn [scan_max_tr].
    apply rw_tbind; [apply rw_tget; lia|]. intros a.
    destruct (not_none a); [|apply IH; lia]. destruct (nleb mx (unwrap a)); apply IH; lia.
  Qed.
  Lemma scan_min_tr_reads lo hi : forall cnt i mn mni, lo <= i -> i + cnt <= S hi ->
    reads_within lo hi (fst (scan_min_tr xs i cnt mn mni)).
  Proof.
    induction cnt as [|c IH]; intros i mn mni H1 H2; [apply rw_tret|]. cbn [scan_min_tr].
    apply rw_tbind; [apply rw_tget; lia|]. intros a.
    destruct (not_none a); [|apply IH; lia]. destruct (nleb (unwrap a) mn); apply IH; lia.
  Qed.
  Lemma scan_both_tr_reads lo hi : forall cnt i mx mxi mn mni, lo <= i -> i + cnt <= S hi ->
    reads_within lo hi (fst (scan_both_tr xs i cnt mx mxi mn mni)).
  Proof.
    induction cnt as [|c IH]; intros i mx mxi mn mni H1 H2; [apply rw_tret|]. cbn [scan_both_tr].
    apply rw_tbind; [apply rw_tget; lia|]. intros a.
    destruct (not_none a); [|apply IH; lia].
    destruct (nleb mx (unwrap a)), (nleb (unwrap a) mn); apply IH; lia.
  Qed.

  Lemma mm_research_tr_erase s st e :
    snd (mm_research_tr tmin tmax xs s st e) = mm_research tmin tmax xs s st e.
  Proof.
    unfold mm_research_tr, mm_research. destruct st as [j|]; [|reflexivity].
    destruct (mm_maxi s <? j), (mm_mini s <? j); try reflexivity; rewrite snd_tbind.
    - rewrite scan_both_tr_erase. destruct (scan_both _ _ _ _ _ _ _); reflexivity.
    - rewrite scan_max_tr_erase. destruct (scan_max _ _ _ _ _); reflexivity.
    - rewrite scan_min_tr_erase. destruct (scan_min _ _ _ _ _); reflexivity.
  Qed.
  Lemma mm_research_tr_reads s st e : start_le st e ->
    reads_within (start_or_0 st) e (fst (mm_research_tr tmin tmax xs s st e)).
  Proof.
    intros Hs. unfold mm_research_tr. destruct st as [j|]; [|apply rw_tret]. cbn [start_le start_or_0] in *.
    destruct (mm_maxi s <? j), (mm_mini s <? j); try apply rw_tret;
      (apply rw_tbind; [|intros r; apply rw_tret]).
    - apply scan_both_tr_reads; lia.
    - apply scan_max_tr_reads; lia.
    - apply scan_min_tr_reads; lia.
  Qed.

  Theorem mmnorm_cb_tr_erase mp s a :
    snd (mmnorm_cb_tr tmin tmax mp xs s a) = mmnorm_cb tmin tmax mp xs s a.
  Proof.
    destruct a as [[st e] v]. unfold mmnorm_cb_tr, mmnorm_cb. rewrite snd_tbind, mm_research_tr_erase.
    destruct (mm_research tmin tmax xs s st e) as [s1|pk]; [|reflexivity]. cbn [bind].
    match goal with |- snd (let '(s2, out) := ?p in _) = _ => destruct p as [s2 out] end.
    rewrite snd_tbind. destruct st as [j|]; [|reflexivity]. rewrite snd_tbind, snd_tget.
    destruct (uget xs j) as [v0|pk]; [|reflexivity]. cbn [bind].
    destruct (not_none v0); [|reflexivity]. rewrite snd_tbind, snd_tpure.
    destruct (usub (mm_n s2) 1); reflexivity.
  Qed.
  Theorem mmnorm_cb_tr_reads mp s st e v : start_le st e ->
    reads_within (start_or_0 st) e (fst (mmnorm_cb_tr tmin tmax mp xs s (st, e, v))).
  Proof.
    intros Hs. unfold mmnorm_cb_tr. apply rw_tbind; [apply mm_research_tr_reads; exact Hs|]. intros s1.
    match goal with |- reads_within _ _ (fst (let '(s2, out) := ?p in _)) => destruct p as [s2 out] end.
    apply rw_tbind; [|intros s3; apply rw_tret].
    destruct st as [j|]; [|apply rw_tret]. cbn [start_le start_or_0] in *.
    apply rw_tbind; [apply rw_tget; lia|]. intros v0. destruct (not_none v0); [|apply rw_tret].
    apply rw_tbind; [apply rw_tpure|]. intros n'. apply rw_tret.
  Qed.
End NormTrace.

(* ---- reg.rs: reads of the checked residual callback (unconditional) ---------------------------------- *)
Section ResidTrace.
  Context {A : Type} {NA : Num A} {T1 : Type} {D1 : IsNone T1 A} {T2 : Type} {D2 : IsNone T2 A}.
  Variable zs : list (T1 * T2).

  Lemma read_pairs_tr_reads lo hi : forall cnt i, lo <= i -> i + cnt <= S hi ->
    reads_within lo hi (fst (read_pairs_tr zs i cnt)).
  Proof.
    induction cnt as [|c IH]; intros i H1 H2; [apply rw_tret|]. cbn [read_pairs_tr].
    apply rw_tbind; [apply rw_tget2; lia|]. intros p.
    apply rw_tbind; [apply IH; lia|]. intros r. apply rw_tret.
  Qed.

  Theorem resid_cb_tr_reads (k : rstat) mp (s : @csum A) st e v : start_le st e ->
    reads_within (start_or_0 st) e (fst (resid_cb_tr k mp zs s (st, e, v))).
  Proof.
    intros Hs. unfold resid_cb_tr. cbv zeta. apply rw_tbind.
    - destruct (mp <=? c_n (csum_pre s v)); [|apply rw_tret].
      apply rw_tbind; [|intros l; apply rw_tret]. apply read_pairs_tr_reads; [lia|].
      destruct st; cbn [start_le start_or_0] in *; lia.
    - intros out. apply rw_tbind; [|intros s2; apply rw_tret].
      destruct st as [j|]; [|apply rw_tret]. cbn [start_le start_or_0] in *.
      apply rw_tbind; [apply rw_tget2; lia|]. intros p. destruct (both p); [|apply rw_tret].
      apply rw_tbind; [apply rw_tpure|]. intros n'. apply rw_tret.
  Qed.
End ResidTrace.

(* ---- the trace of a whole call ------------------------------------------------------------------------- *)
Definition kcalls {T} (body : bool) (w : nat) (xs : list T) : list (nat * (option nat * nat * T)) :=
  mapi (fun i v => (i, (start_of (eff_window body w (length xs)) i, i, v))) xs.

Lemma kernel_trace_unfold {T St O} body two w (cbt : St -> option nat * nat * T -> tr (St * O)) s0 (xs : list T) :
  1 <= w ->
  kernel_trace body two w cbt s0 xs
  = trace_calls cbt (if body then drv_reads two else fun _ => []) body s0 (kcalls body w xs).
Proof.
  intros Hw. unfold kernel_trace, kcalls. rewrite bad_window_false by exact Hw. destruct body; cbn [eff_window].
  - rewrite calls_to_idx_spec by exact Hw. reflexivity.
  - rewrite args_iter_idx_mapi by exact Hw.
    rewrite (mapi_slot_combine (fun i v => (start_of w i, i, v)) xs), mapi_length. reflexivity.
Qed.

Lemma kernel_trace_w0 {T St O} body two (cbt : St -> option nat * nat * T -> tr (St * O)) s0 (xs : list T) :
  kernel_trace body two 0 cbt s0 xs = [].
Proof.
  unfold kernel_trace, bad_window. destruct xs as [|x xs]; [|reflexivity]. cbn. destruct body; reflexivity.
Qed.

Definition call_ok {T} (len : nat) (c : nat * (option nat * nat * T)) : Prop :=
  fst c < len /\ snd (fst (snd c)) < len /\ start_le (fst (fst (snd c))) (snd (fst (snd c))).

Lemma kcalls_ok {T} body w (xs : list T) : Forall (call_ok (length xs)) (kcalls body w xs).
Proof.
  apply Forall_forall. intros c Hc. unfold kcalls in Hc. apply In_mapi in Hc.
  destruct Hc as (i & v & Hv & ->). unfold call_ok. cbn [fst snd].
  assert (i < length xs) by (apply nth_error_Some; congruence).
  repeat split; try assumption. apply start_of_le.
Qed.

Section KernelTraceFacts.
  Context {T St O : Type}.
  Variable cbt : St -> option nat * nat * T -> tr (St * O).
  Hypothesis Hcb : forall s st e v, start_le st e -> reads_within (start_or_0 st) e (fst (cbt s (st, e, v))).

  Lemma trace_calls_ok drv wr len len2 : len <= len2 ->
    (forall e, e < len -> Forall (acc_ok len len2) (drv e)) ->
    forall calls s, Forall (call_ok len) calls -> Forall (acc_ok len len2) (trace_calls cbt drv wr s calls).
  Proof.
    intros Hl Hd. induction calls as [|[slot [[st e] v]] rest IH]; intros s Hc; [constructor|].
    inversion Hc as [|? ? [H1 [H2 H3]] Hc']; subst. cbn [fst snd] in *. cbn [trace_calls fst snd].
    apply Forall_app; split; [apply Hd; exact H2|]. apply Forall_app; split.
    - eapply rw_acc_ok; [exact H2|exact Hl|apply Hcb; exact H3].
    - destruct (snd (cbt s (st, e, v))) as [[s' o]|pk]; [|constructor].
      apply Forall_app; split; [destruct wr; repeat constructor; exact H1|apply IH; exact Hc'].
  Qed.

  (* (T) in bounds, unconditionally: every window (0 and > len included), both bodies, one or two series *)
  Theorem kernel_trace_ok body two w s0 (xs : list T) len2 :
    length xs <= len2 -> Forall (acc_ok (length xs) len2) (kernel_trace body two w cbt s0 xs).
  Proof.
    intros Hl. destruct w as [|w]; [rewrite kernel_trace_w0; constructor|].
    rewrite kernel_trace_unfold by lia. apply trace_calls_ok; [exact Hl| |apply kcalls_ok].
    intros e He. destruct body; [|constructor]. unfold drv_reads.
    destruct two; repeat constructor; cbn; lia.
  Qed.

  Variable cb : St -> option nat * nat * T -> res (St * O).
  Hypothesis Herase : forall s a, snd (cbt s a) = cb s a.

  Lemma trace_calls_writes drv len : (forall e, writes_of (drv e) = []) ->
    forall calls s outs, Forall (call_ok len) calls ->
      run (lift_cb cb) (Ok s) (map snd calls) = map Ok outs ->
      writes_of (trace_calls cbt drv true s calls) = map fst calls.
  Proof.
    intros Hd. induction calls as [|[slot [[st e] v]] rest IH]; intros s outs Hc Hrun; [reflexivity|].
    inversion Hc as [|? ? [H1 [H2 H3]] Hc']; subst. cbn [fst snd] in *.
    cbn [trace_calls map fst snd run lift_cb] in *. rewrite !writes_of_app, Hd.
    rewrite (rw_no_writes _ _ _ (Hcb s st e v H3)). rewrite Herase.
    destruct (cb s (st, e, v)) as [[s' o]|pk].
    - destruct outs as [|o' outs]; [discriminate|]. cbn [map] in Hrun. injection Hrun as _ Hrun.
      rewrite writes_of_app. cbn [app]. change (writes_of [AUset slot]) with [slot]. cbn [app]. f_equal.
      apply (IH s' outs Hc' Hrun).
    - destruct outs; discriminate.
  Qed.

  (* every output slot is written exactly once, in order, whenever the call returns *)
  Theorem kernel_trace_writes two w s0 (xs : list T) out :
    idx_run true w cb s0 xs = Done out ->
    writes_of (kernel_trace true two w cbt s0 xs) = seq 0 (length xs).
  Proof.
    intros Hrun. destruct w as [|w].
    - rewrite kernel_trace_w0. destruct xs as [|x xs]; [reflexivity|].
      unfold idx_run, rolling_apply_idx_to, bad_window in Hrun. cbn in Hrun. discriminate.
    - apply idx_run_Done_iff in Hrun; [|lia]. rewrite kernel_trace_unfold by lia.
      rewrite (trace_calls_writes (drv_reads two) (length xs)) with (outs := out).
      + unfold kcalls. rewrite map_mapi. cbn [fst]. apply mapi_fst_seq.
      + intros e. unfold drv_reads. destruct two; reflexivity.
      + apply kcalls_ok.
      + unfold kcalls. rewrite map_mapi. cbn [snd]. exact Hrun.
  Qed.
End KernelTraceFacts.
