(* Proofs/SrcTablesMapPart.v — translator tie (DESIGN 10.2) for the order-statistic half of C12: conformance of
   Model/Partition.v and Model/Rank.v with the decision tables GENERATED from the text of tea-map/src/vec_map.rs
   (coq/Gen/SrcTables.v, section (c), written by tools/gen_tables_map.py on every run of the C12 check).

   vpartition / varg_partition: the guards `(n == kth + 1) && !sort` and `n <= kth + 1` (operator and constant), which arm of
   the short path pads with what (`repeat(T::none())` evaluated eagerly, `repeat_with(T::none)` lazily, `repeat(-1)`) and takes
   how many, the comparator per value of `rev` in every place it is chosen, the index given to select_nth_unstable_by and the
   length given to truncate, the `if sort` re-sort.  vrank: the comparator per value of `rev`, the length-1 early return, and
   per value of `pct` the expression written at each of the three places a tie group gets its average rank and at the place a
   single element gets its rank.

   Every theorem: FOR ALL carriers, null dictionaries, series, kth, flags — the model function IS the function read out of
   the source table.  `n <= kth + 1` -> `n < kth + 1`, `truncate(kth + 1)` -> `truncate(kth)`, swapped comparators,
   `(repeat_num * not_none_count)` -> `repeat_num`: the table changes and the theorem named in the error message no longer
   compiles.  Axiom-free.                                                                                                 *)
From Coq Require Import ZArith List String PeanoNat Bool.
From Tevec Require Import Base.Prelude Base.Num Model.SortCmp Model.Partition Model.Rank Gen.SrcTables
                          Proofs.SrcTablesMapBase.
Import ListNotations.
Local Open Scope string_scope.
Local Open Scope nat_scope.

Ltac eval_part_tables :=
  repeat match goal with
         | |- context [blookup ?b ?t] => let v := eval vm_compute in (blookup b t) in change (blookup b t) with v
         | |- context [src_vpartition_exact] => let v := eval vm_compute in src_vpartition_exact in change src_vpartition_exact with v
         | |- context [src_vpartition_small] => let v := eval vm_compute in src_vpartition_small in change src_vpartition_small with v
         | |- context [src_vpartition_select] => let v := eval vm_compute in src_vpartition_select in change src_vpartition_select with v
         | |- context [src_varg_partition_small] =>
             let v := eval vm_compute in src_varg_partition_small in change src_varg_partition_small with v
         | |- context [src_vrank_len1] => let v := eval vm_compute in src_vrank_len1 in change src_vrank_len1 with v
         end.

Section PartConf.
  Context {A : Type} `{NA : Num A} {T : Type} `{DT : IsNone T A} `{DX : IsNoneX T A}.

  (* `if !rev { sort_cmp } else { sort_cmp_rev }` as the table spells it *)
  Definition dir_of (tbl : list (bool * src_sortcmp)) (rev : bool) : T -> T -> comparison :=
    match blookup rev tbl with
    | Some s => sortcmp_pick s (sort_cmp (T := T)) (sort_cmp_rev (T := T))
    | None => fun _ _ => Eq
    end.

  Theorem src_partition_dirs_conform : forall rev,
    dir_of src_vpartition_dir rev = cmp_dir rev /\ dir_of src_vpartition_small_dir rev = cmp_dir rev /\
    dir_of src_varg_partition_small_dir rev = cmp_dir rev /\ dir_of src_vrank_dir rev = cmp_dir rev.
  Proof.
    conformance "src_partition_dirs_conform"
      (intros rev; unfold dir_of; destruct rev; eval_part_tables; repeat split; reflexivity).
  Qed.

  (* ---- vpartition ---- *)
  Definition src_vpartition (kth : nat) (sort rev : bool) (xs : list T) : res (list T) :=
    let n := count_valid xs in
    let '(c1, k1, k1') := src_vpartition_exact in
    let '(c2, k2) := src_vpartition_small in
    let '(s, t, t') := src_vpartition_select in
    (* `.to_trust(len)` announces a length: it has to be the length the pipeline has *)
    if mcmp_nat c1 n (kth + k1) && negb sort then (if k1 =? k1' then Ok (filter not_none xs) else Panic OtherPanic) else
    if mcmp_nat c2 n (kth + k2) then
      match blookup sort src_vpartition_small_arms with
      | Some (pad, tk, tk') =>
          let v := if sort then isort (dir_of src_vpartition_small_dir rev) xs else filter not_none xs in
          if negb (tk =? tk') then Panic OtherPanic else
          match pad with
          | PadEager => do p <- tnone; Ok (pad_take (kth + tk) p v)               (* repeat(T::none()): evaluated eagerly *)
          | PadLazy => if length v <? kth + tk then do p <- tnone; Ok (pad_take (kth + tk) p v)
                       else Ok (firstn (kth + tk) v)                                (* repeat_with(T::none): only when needed *)
          end
      | None => Panic OtherPanic
      end
    else
      let cmp := dir_of src_vpartition_dir rev in
      (* select_nth_unstable_by(kth + s) orders the first kth + s + 1 elements as a set: truncating there is a sorted prefix *)
      if (s + 1 =? t) && (t =? t') then
        let tt := firstn (kth + t) (isort cmp xs) in Ok (if sort then isort cmp tt else tt)
      else Panic OtherPanic.

  Theorem src_vpartition_conforms : forall kth sort rev xs, src_vpartition kth sort rev xs = vpartition kth sort rev xs.
  Proof.
    conformance "src_vpartition_conforms"
      (intros kth sort rev xs; unfold src_vpartition, vpartition, dir_of; destruct sort, rev; eval_part_tables; reflexivity).
  Qed.

  (* ---- varg_partition ---- *)
  Definition src_varg_partition (kth : nat) (sort rev : bool) (xs : list T) : list Z :=
    let n := count_valid xs in
    let '(c2, k2) := src_varg_partition_small in
    if mcmp_nat c2 n (kth + k2) then
      match blookup sort src_varg_partition_small_arms with
      | Some (p, tk, tk') =>
          let pad := (- Z.of_nat p)%Z in
          if negb (tk =? tk') then [] else
          if sort then
            pad_take (kth + tk) pad
              (map Z.of_nat (firstn n (isort (cmp_idx (dir_of src_varg_partition_small_dir rev) xs) (seq 0 (length xs)))))
          else pad_take (kth + tk) pad (valid_idx xs)
      | None => []
      end
    else
      match blookup rev src_varg_partition_general with
      | Some (sc, s, t, t') =>
          let cmpi := cmp_idx (sortcmp_pick sc (sort_cmp (T := T)) (sort_cmp_rev (T := T))) xs in
          if (s + 1 =? t) && (t =? t') then
            let tt := firstn (kth + t) (isort cmpi (seq 0 (length xs))) in map Z.of_nat (if sort then isort cmpi tt else tt)
          else []
      | None => []
      end.

  Theorem src_varg_partition_conforms : forall kth sort rev xs,
    src_varg_partition kth sort rev xs = varg_partition kth sort rev xs.
  Proof.
    conformance "src_varg_partition_conforms"
      (intros kth sort rev xs; unfold src_varg_partition, varg_partition, dir_of; destruct sort, rev; eval_part_tables;
       reflexivity).
  Qed.

  (* ---- vrank ---- *)
  Record rk_env := { e_sum : nat; e_rep : nat; e_cur : nat; e_nn : nat }.
  Definition rk_role (e : rk_env) (r : src_rk_role) : nat :=
    match r with RkSum => e_sum e | RkRep => e_rep e | RkCur => e_cur e | RkNotNoneCount => e_nn e end.
  Fixpoint rk_nat (e : rk_env) (n : src_rk_nat) : nat :=
    match n with RkN r => rk_role e r | RkNMul a b => rk_nat e a * rk_nat e b end.
  Fixpoint rk_eval (e : rk_env) (x : src_rk_expr) : A :=
    match x with RkF n => nofnat (rk_nat e n) | RkDiv a b => ndiv (rk_eval e a) (rk_eval e b) end.

  Definition rk_missing : src_rk_expr := RkDiv (RkF (RkN RkCur)) (RkF (RkN RkCur)).
  (* the i-th (0, 1, 2) place the average rank of a tie group is written: before the break at the first null, at the end of a
     run inside the loop, after the loop *)
  Definition rk_site (pct : bool) (i : nat) : src_rk_expr :=
    match blookup pct src_vrank_exprs with Some (l, _) => nth i l rk_missing | None => rk_missing end.
  Definition rk_single (pct : bool) : src_rk_expr :=
    match blookup pct src_vrank_exprs with Some (_, x) => x | None => rk_missing end.
  Definition rk_sites (pct : bool) : nat :=
    match blookup pct src_vrank_exprs with Some (l, _) => length l | None => 0 end.

  Theorem src_rk_avg_conforms : forall site, site < 3 -> forall pct nn sum rep cur,
    rk_eval {| e_sum := sum; e_rep := rep; e_cur := cur; e_nn := nn |} (rk_site pct site) = rk_avg pct nn sum rep.
  Proof.
    conformance "src_rk_avg_conforms"
      (intros site Hs pct nn sum rep cur; unfold rk_site, rk_avg;
       destruct site as [|[|[|site]]]; [| | |exfalso; apply (Nat.nlt_0_r site); do 3 apply Nat.succ_lt_mono in Hs; exact Hs];
       destruct pct; eval_part_tables; reflexivity).
  Qed.
  Theorem src_rk_one_conforms : forall pct nn sum rep cur,
    rk_eval {| e_sum := sum; e_rep := rep; e_cur := cur; e_nn := nn |} (rk_single pct) = rk_one pct nn cur.
  Proof.
    conformance "src_rk_one_conforms"
      (intros pct nn sum rep cur; unfold rk_single, rk_one; destruct pct; eval_part_tables; reflexivity).
  Qed.
  Theorem src_rk_site_count : rk_sites false = 3 /\ rk_sites true = 3.
  Proof. conformance "src_rk_site_count" (vm_compute; split; reflexivity). Qed.

  (* the length-1 early return: `O::full(len, if v.is_none() { OT::none() } else { (1.).cast() })` *)
  Definition src_len1 (null : bool) : A :=
    let '(f, lit) := src_vrank_len1 in
    if null then (if String.eqb f "none" then nnan else nzero)
    else if String.eqb lit "1" then none else if String.eqb lit "0" then nzero else nnan.

  Definition src_vrank (pct rev : bool) (xs : list T) : list (option A) :=
    let len := length xs in
    if len =? 0 then [] else
    if len =? 1 then [Some (src_len1 (get_is_none xs 0))] else
    let idx_sorted := isort (cmp_idx (dir_of src_vrank_dir rev) xs) (seq 0 len) in
    if get_is_none xs (nth 0 idx_sorted 0) then repeat (Some nnan) len else
    let nn := count_valid xs in
    rank_finish pct nn idx_sorted len
      (rank_loop pct nn xs idx_sorted (seq 0 (len - 1)) {| r_rep := 1; r_cur := 1; r_sum := 0; r_out := repeat None len |}).

  (* the tie-group arithmetic inside rank_loop / rank_finish is `rk_avg` / `rk_one`: tied to the source by the two theorems above *)
  Theorem src_vrank_conforms : forall pct rev xs, src_vrank pct rev xs = vrank pct rev xs.
  Proof.
    conformance "src_vrank_conforms"
      (intros pct rev xs; unfold src_vrank, vrank, src_len1, dir_of; destruct rev; eval_part_tables;
       destruct (get_is_none xs 0); reflexivity).
  Qed.
End PartConf.

(* non-vacuity: the table semantics is exercised on its closed parts — the guards, the padding, the lengths, the rank operands *)
Example src_part_examples :
  mcmp_nat (fst src_vpartition_small) 3 (2 + snd src_vpartition_small) = true /\
  mcmp_nat (fst src_vpartition_small) 4 (2 + snd src_vpartition_small) = false /\
  mcmp_nat (fst (fst src_vpartition_exact)) 3 (2 + snd (fst src_vpartition_exact)) = true /\
  blookup false src_vpartition_small_arms = Some (PadEager, 1, 1) /\
  blookup true src_varg_partition_general = Some (SrcSortCmpRev, 0, 1, 1) /\
  rk_nat {| e_sum := 5; e_rep := 2; e_cur := 7; e_nn := 10 |} (RkNMul (RkN RkRep) (RkN RkNotNoneCount)) = 20.
Proof. vm_compute. repeat split; reflexivity. Qed.

Print Assumptions src_partition_dirs_conform.
Print Assumptions src_vpartition_conforms.
Print Assumptions src_varg_partition_conforms.
Print Assumptions src_rk_avg_conforms.
Print Assumptions src_rk_one_conforms.
Print Assumptions src_vrank_conforms.
