(* Proofs/Audit12Float.v — C12 audit, part 2: the VALUE of the quantile at binary64 (what can be said).

   Carrier: Coq's primitive `float` = IEEE binary64, the instance the correspondence run evaluates.
   Bridge: Proofs/RoundSum.v (f2r, ffin, rnd64, fmt64), Proofs/QIdxFloat.v (index law), Flocq's
   Bplus_correct / Bmult_correct / Bminus_correct, round_le, round_generic.

   (1) `vquantile_elements_f64`: for every q in [0,1] (binary64 guard) and every series with n >= 2
       non-null elements — every null dictionary over f64 — the result is `qvalue q n m vi vj` for two
       NON-NULL ELEMENTS vi, vj OF THE SERIES: lower / higher / the exact-index case return an element of
       the input bit for bit; midpoint and linear are the rounded formulas of these two elements.
   (2) `interp_f64_between`: the linear interpolation  r = fl(vi + fl(fl(vj - vi) * fraction))  with
       finite vi, vj, 0 <= fraction <= 1, no overflow in vj - vi: r is finite and lies between vi and
       E = fl(vi + fl(vj - vi)) (the value at fraction 1).  In particular r never leaves vi on the wrong
       side: vi <= vj -> vi <= r (mirrored branch: vj <= vi -> r <= vi).
   (3) `interp_f64_in_range_exact_diff`: when the difference vj - vi is exact (e.g. Sterbenz: vi, vj
       within a factor 2; dyadic data on a common grid), r lies in [vi, vj].
   (4) `interp_f64_overshoot`: WITHOUT that, the claim "r in [vi, vj]" is FALSE at fraction = 1:
       vi = -1, vj = 2^-53 + 2^-105: fl(vj - vi) rounds up to 1 + 2^-52 and r = 2^-52 > vj.
   Still open (Definition interp_f64_strict_fraction_statement): for fraction < 1 strictly the upper
   bound r <= vj should hold unconditionally (midpoint argument on pred(fl(vj - vi))); and that the
   fraction the code computes, fl(fl(q - qi) / fl(qj - qi)), lies in [0, 1].                              *)
From Coq Require Import Reals Lra Lia ZArith List Floats Bool Psatz.
From Flocq Require Import Core BinarySingleNaN Sterbenz.
From Flocq Require PrimFloat.
From Tevec Require Import Base.Prelude Base.Num Base.F64 Model.NullView Model.SortCmp Model.Quantile
     Proofs.SortCmp Proofs.TransQuantile Proofs.RoundSum Proofs.QIdxFloat Proofs.Audit12.
Import ListNotations.
Local Open Scope R_scope.

Module FP := Flocq.IEEE754.PrimFloat.
Module CF := Coq.Floats.PrimFloat.

Local Instance prec64_gt_0' : Prec_gt_0 53 := eq_refl _.

(* ---- (1) the elements ---------------------------------------------------------------------------- *)
Section ElementsF64.
  Context {T : Type} {DT : IsNone T float}.

  Theorem vquantile_elements_f64 (q : float) (mth : qmethod) (xs : list T) :
    nleb (A := float) nzero q && nleb q none = true ->
    let n := count_valid xs in
    (2 <= n)%nat ->
    exists vi vj, is_valid_elem xs vi /\ is_valid_elem xs vj /\
      vquantile (NF := NumFloorF64) q mth xs = Ok (Some (qvalue (NF := NumFloorF64) q n mth vi vj)) /\
      (qi_of (NF := NumFloorF64) q n <= qj_of (NF := NumFloorF64) q n < n)%nat /\
      (qj_of (NF := NumFloorF64) q n - qi_of (NF := NumFloorF64) q n <= 1)%nat.
  Proof.
    intros Hg n Hn.
    destruct (qidx_f64_in_range_all q n Hg ltac:(lia)) as (_ & H1 & H2 & H3).
    assert (Hq : qfactor q = qfac q) by reflexivity. rewrite Hq in H1, H2, H3.
    assert (Hij : (qi_of (NF := NumFloorF64) q n <= qj_of (NF := NumFloorF64) q n)%nat).
    { unfold qi_of, qj_of. cbn [nfloorZ nceilZ NumFloorF64]. lia. }
    assert (Hjn : (qj_of (NF := NumFloorF64) q n < n)%nat).
    { unfold qj_of. cbn [nceilZ NumFloorF64]. lia. }
    destruct (vquantile_elements (NF := NumFloorF64) q mth xs Hg Hn Hij Hjn) as (vi & vj & Hvi & Hvj & E & _).
    exists vi, vj. split; [exact Hvi|]. split; [exact Hvj|]. split; [exact E|]. split; [lia|].
    unfold qi_of, qj_of. cbn [nfloorZ nceilZ NumFloorF64]. lia.
  Qed.
End ElementsF64.

(* ---- (2) rounding stays between two representable bounds ------------------------------------------ *)
Lemma rnd64_between lo hi x : fmt64 lo -> fmt64 hi -> lo <= x <= hi -> lo <= rnd64 x <= hi.
Proof.
  intros Flo Fhi [H1 H2]. split.
  - rewrite <- (rnd64_id lo Flo). apply rnd64_mono, H1.
  - rewrite <- (rnd64_id hi Fhi). apply rnd64_mono, H2.
Qed.

(* fl(d * fr) for 0 <= fr <= 1: finite, between 0 and d *)
Lemma mul_frac_between (d fr : float) :
  ffin d = true -> ffin fr = true -> 0 <= f2r fr <= 1 ->
  ffin (d * fr)%float = true /\
  (Rmin 0 (f2r d) <= f2r (d * fr)%float <= Rmax 0 (f2r d)).
Proof.
  intros Fd Ff Hf. rewrite ffin_equiv in *. unfold f2r in *. rewrite FP.mul_equiv.
  pose proof (Bmult_correct FloatOps.prec FloatOps.emax FP.Hprec FP.Hmax mode_NE (FP.Prim2B d) (FP.Prim2B fr)) as HC.
  set (rd := B2R (FP.Prim2B d)) in *. set (rf := B2R (FP.Prim2B fr)) in *.
  assert (Hfd : fmt64 rd) by apply fmt64_f2r.
  match type of HC with context [round ?r ?f ?c ?x] => change (round r f c x) with (rnd64 x) in HC end.
  assert (Hb : Rmin 0 rd <= rd * rf <= Rmax 0 rd).
  { unfold Rmin, Rmax. destruct (Rle_dec 0 rd); split; nra. }
  assert (Fmin : fmt64 (Rmin 0 rd)) by (unfold Rmin; destruct (Rle_dec 0 rd); [apply fmt64_0|exact Hfd]).
  assert (Fmax : fmt64 (Rmax 0 rd)) by (unfold Rmax; destruct (Rle_dec 0 rd); [exact Hfd|apply fmt64_0]).
  pose proof (rnd64_between _ _ _ Fmin Fmax Hb) as HR.
  rewrite Rlt_bool_true in HC.
  - destruct HC as (H1 & H2 & _). rewrite H1, H2, Fd, Ff. split; [reflexivity|exact HR].
  - apply Rle_lt_trans with (Rabs rd); [|apply (f2r_lt_emax d)].
    unfold Rmin, Rmax in HR. destruct (Rle_dec 0 rd).
    + rewrite !Rabs_pos_eq; lra.
    + rewrite !Rabs_left1; lra.
Qed.

Lemma Rabs_between lo hi x : lo <= x <= hi -> Rabs x <= Rmax (Rabs lo) (Rabs hi).
Proof.
  intros [H1 H2]. apply Rabs_le. split.
  - apply Rle_trans with (- Rabs lo); [apply Ropp_le_contravar, Rmax_l|].
    pose proof (Rle_abs (- lo)) as H. rewrite Rabs_Ropp in H. lra.
  - apply Rle_trans with (Rabs hi); [|apply Rmax_r]. pose proof (Rle_abs hi). lra.
Qed.

(* fl(x + p) is finite as soon as the ROUNDED sum is bounded below the overflow threshold *)
Lemma add_rnd_finite (x p : float) (lo hi : R) :
  ffin x = true -> ffin p = true -> lo <= rnd64 (f2r x + f2r p) <= hi ->
  Rabs lo < bpow radix2 1024 -> Rabs hi < bpow radix2 1024 ->
  ffin (x + p)%float = true /\ f2r (x + p)%float = rnd64 (f2r x + f2r p).
Proof.
  intros Fx Fp HR Blo Bhi. rewrite ffin_equiv in *. unfold f2r in *. rewrite FP.add_equiv.
  pose proof (Bplus_correct FloatOps.prec FloatOps.emax FP.Hprec FP.Hmax mode_NE (FP.Prim2B x) (FP.Prim2B p) Fx Fp) as HC.
  match type of HC with context [round ?r ?f ?c ?y] => change (round r f c y) with (rnd64 y) in HC end.
  rewrite Rlt_bool_true in HC.
  - destruct HC as (H1 & H2 & _). split; [exact H2|exact H1].
  - apply Rle_lt_trans with (Rmax (Rabs lo) (Rabs hi)).
    + apply Rabs_between. exact HR.
    + apply Rmax_lub_lt; assumption.
Qed.

(* the interpolation of Model/Quantile.v at binary64: vi + (vj - vi) * fraction *)
Definition interp64 (vi vj fr : float) : float := (vi + (vj - vi) * fr)%float.

Theorem interp_f64_between (vi vj fr : float) :
  ffin vi = true -> ffin fr = true -> 0 <= f2r fr <= 1 ->
  ffin (vj - vi)%float = true -> ffin (vi + (vj - vi))%float = true ->
  let E := f2r (vi + (vj - vi))%float in
  ffin (interp64 vi vj fr) = true /\
  (0 <= f2r (vj - vi)%float -> f2r vi <= f2r (interp64 vi vj fr) <= E) /\
  (f2r (vj - vi)%float <= 0 -> E <= f2r (interp64 vi vj fr) <= f2r vi).
Proof.
  intros Fvi Ffr Hfr Fd FE E. unfold interp64. set (d := (vj - vi)%float) in *.
  destruct (mul_frac_between d fr Fd Ffr Hfr) as [Fp Hp]. set (p := (d * fr)%float) in *.
  pose proof (add_finite_val vi d FE) as HE. fold E in HE.
  assert (FmtV : fmt64 (f2r vi)) by apply fmt64_f2r.
  assert (BE : Rabs E < bpow radix2 1024) by apply f2r_lt_emax.
  assert (BV : Rabs (f2r vi) < bpow radix2 1024) by apply f2r_lt_emax.
  set (r := rnd64 (f2r vi + f2r p)).
  assert (Hr : (0 <= f2r d -> f2r vi <= r <= E) /\ (f2r d <= 0 -> E <= r <= f2r vi)).
  { unfold Rmin, Rmax in Hp. split; intros Hd.
    - assert (Hp' : 0 <= f2r p <= f2r d) by (destruct (Rle_dec 0 (f2r d)); lra).
      split.
      + unfold r. rewrite <- (rnd64_id _ FmtV) at 1. apply rnd64_mono. lra.
      + unfold r. rewrite HE. apply rnd64_mono. lra.
    - assert (Hp' : f2r d <= f2r p <= 0) by (destruct (Rle_dec 0 (f2r d)); lra).
      split.
      + unfold r. rewrite HE. apply rnd64_mono. lra.
      + unfold r. apply Rle_trans with (rnd64 (f2r vi)); [apply rnd64_mono; lra|rewrite (rnd64_id _ FmtV); lra]. }
  destruct Hr as [Hr1 Hr2].
  assert (Hfin : ffin (vi + p)%float = true /\ f2r (vi + p)%float = r).
  { destruct (Rle_dec 0 (f2r d)) as [Hd|Hd].
    - apply (add_rnd_finite vi p (f2r vi) E Fvi Fp (Hr1 Hd) BV BE).
    - apply (add_rnd_finite vi p E (f2r vi) Fvi Fp (Hr2 ltac:(lra)) BE BV). }
  destruct Hfin as [F1 E1]. split; [exact F1|]. rewrite E1. split; assumption.
Qed.

(* ---- (3) exact difference: the result lies between vi and vj ------------------------------------------ *)
Theorem interp_f64_in_range_exact_diff (vi vj fr : float) :
  ffin vi = true -> ffin vj = true -> ffin fr = true -> 0 <= f2r fr <= 1 ->
  ffin (vj - vi)%float = true -> f2r (vj - vi)%float = f2r vj - f2r vi ->
  ffin (interp64 vi vj fr) = true /\
  (f2r vi <= f2r vj -> f2r vi <= f2r (interp64 vi vj fr) <= f2r vj) /\
  (f2r vj <= f2r vi -> f2r vj <= f2r (interp64 vi vj fr) <= f2r vi).
Proof.
  intros Fvi Fvj Ffr Hfr Fd Ed.
  assert (Hsum : f2r vi + f2r (vj - vi)%float = f2r vj) by (rewrite Ed; ring).
  destruct (add_exact vi (vj - vi)%float Fvi Fd) as [FE EE].
  { rewrite Hsum. apply fmt64_f2r. }
  { rewrite Hsum. apply f2r_lt_emax. }
  rewrite Hsum in EE.
  destruct (interp_f64_between vi vj fr Fvi Ffr Hfr Fd FE) as (F & H1 & H2). rewrite EE in H1, H2.
  split; [exact F|]. split; intros H; [apply H1|apply H2]; rewrite Ed; lra.
Qed.

(* the difference of two floats within a factor two of each other is exact (Sterbenz), so is every difference that
   stays on a common grid below 2^53 grid steps *)
Lemma sub_exact_of_fmt (vi vj : float) :
  ffin vi = true -> ffin vj = true -> fmt64 (f2r vj - f2r vi) -> Rabs (f2r vj - f2r vi) < bpow radix2 1024 ->
  ffin (vj - vi)%float = true /\ f2r (vj - vi)%float = f2r vj - f2r vi.
Proof.
  intros Fvi Fvj HF HB. rewrite sub_is_add_opp.
  destruct (add_exact vj (- vi)%float) as [F E].
  - exact Fvj.
  - rewrite ffin_opp. exact Fvi.
  - rewrite f2r_opp. exact HF.
  - rewrite f2r_opp. exact HB.
  - split; [exact F|]. rewrite E, f2r_opp. ring.
Qed.

Lemma sterbenz_f64 (vi vj : float) :
  ffin vi = true -> ffin vj = true -> f2r vi / 2 <= f2r vj <= 2 * f2r vi ->
  ffin (vj - vi)%float = true /\ f2r (vj - vi)%float = f2r vj - f2r vi.
Proof.
  intros Fvi Fvj H. apply sub_exact_of_fmt; try assumption.
  - unfold fmt64. apply (@sterbenz radix2 (FLT_exp (-1074) 53) (FLT_exp_valid (-1074) 53) (FLT_exp_monotone (-1074) 53));
      [apply fmt64_f2r|apply fmt64_f2r|exact H].
  - pose proof (f2r_lt_emax vi) as B1. pose proof (f2r_lt_emax vj) as B2.
    assert (0 <= f2r vi) by lra.
    rewrite Rabs_pos_eq in B1 by lra. assert (0 <= f2r vj) by lra. rewrite Rabs_pos_eq in B2 by lra.
    apply Rabs_lt. lra.
Qed.

(* ---- (4) the unconditional claim is false at fraction = 1 ----------------------------------------------- *)
Lemma interp_f64_overshoot :
  exists vi vj fr : float,
    ffin vi = true /\ ffin vj = true /\ ffin fr = true /\ CF.leb vi vj = true /\
    CF.leb CF.zero fr = true /\ CF.leb fr CF.one = true /\ ffin (vj - vi)%float = true /\
    CF.ltb vj (interp64 vi vj fr) = true.
Proof.
  exists (-1)%float, 0x1.0000000000001p-53%float, 1%float. vm_compute. repeat split.
Qed.

(* what remains open, stated *)
Definition interp_f64_strict_fraction_statement : Prop :=
  forall vi vj fr : float,
    ffin vi = true -> ffin vj = true -> ffin fr = true -> 0 <= f2r fr < 1 -> f2r vi <= f2r vj ->
    ffin (vj - vi)%float = true -> f2r vi <= f2r (interp64 vi vj fr) <= f2r vj.

Definition fraction_f64_in_unit_statement : Prop :=
  forall (q : float) (n : nat),
    nleb (A := float) nzero q && nleb q none = true -> (2 <= n)%nat -> (Z.of_nat n <= 2 ^ 53)%Z ->
    let len_1 := nofnat (A := float) (n - 1) in
    let qq := qfac q in
    let i := qi_of (NF := NumFloorF64) q n in let j := qj_of (NF := NumFloorF64) q n in
    i <> j ->
    let fr := ((qq - nofnat i / len_1) / (nofnat j / len_1 - nofnat i / len_1))%float in
    ffin fr = true /\ 0 <= f2r fr <= 1.

(* (5) the overshoot is reachable through vquantile itself: 50 valid elements, q = fl(1/49): fl(49 q) = 0.9999999999999999,
   floor 0, ceil 1, fraction = q / q = 1; the two smallest elements are -1 and 2^-53 + 2^-105, the other 48 are 1.
   The linear quantile returned, 2^-52, is ABOVE the upper neighbour s[1] (by 2^-53 - 2^-105: far inside the 1e-9
   tolerance of DESIGN 5.1, but outside the interval [s[0], s[1]] that the exact-real statement guarantees) *)
Definition overshoot_series : list float :=
  (-1)%float :: 0x1.0000000000001p-53%float :: repeat 1%float 48.
Definition overshoot_q : float := (1 / 49)%float.

Lemma vquantile_f64_overshoot :
  nleb (A := float) nzero overshoot_q && nleb overshoot_q none = true /\
  vquantile (NF := NumFloorF64) (DT := IsNoneF64) overshoot_q Linear overshoot_series = Ok (Some 0x1p-52%float) /\
  vquantile (NF := NumFloorF64) (DT := IsNoneF64) overshoot_q Higher overshoot_series = Ok (Some 0x1.0000000000001p-53%float) /\
  CF.ltb 0x1.0000000000001p-53%float 0x1p-52%float = true.
Proof. vm_compute. repeat split. Qed.
