(* Proofs/KernelsMap2.v — C10: the writes of the checked `vrank` text are a permutation of 0..len-1 (every output
   slot is written exactly once) on the uninitialised-buffer path, and there are none on the `O::full` / `O::empty`
   paths.  Every carrier; stdlib only, axiom-free.                                                          *)
From Coq Require Import ZArith Lia List Permutation.
From Tevec Require Import Base.Prelude Base.Num Model.Driver Proofs.Driver Model.Cmp Model.Kernels Proofs.Kernels
     Proofs.Kernels2 Model.SortCmp Proofs.SortCmp Model.Rank Model.KernelsMap Proofs.KernelsMap.
Import ListNotations.

Definition Wr {X} (m : tr X) : list nat := writes_of (fst m).
Lemma Wr_bind {X Y} (m : tr X) (f : X -> tr Y) x : snd m = Ok x -> Wr (tbind m f) = Wr m ++ Wr (f x).
Proof. intros H. unfold Wr, tbind. rewrite H. cbn [fst]. apply writes_of_app. Qed.
Lemma Wr_get {T} view (xs : list T) i : Wr (tget view xs i) = [].
Proof. reflexivity. Qed.
Lemma Wr_pure {X} (r : res X) : Wr (tpure r) = [].
Proof. reflexivity. Qed.
Lemma Wr_ret {X} (x : X) : Wr (tret x) = [].
Proof. reflexivity. Qed.
Lemma Wr_set {X} slot (v : X) out : Wr (tset slot v out) = [slot].
Proof. reflexivity. Qed.

(* positions i, i-1, .., i-rep+1 are the positions i-rep+1 .. i *)
Lemma run_positions i : forall rep, rep <= S i ->
  Permutation (map (fun j => i - j) (seq 0 rep)) (seq (S i - rep) rep).
Proof.
  induction rep as [|r IH]; intros H; [constructor|].
  rewrite seq_S, map_app. cbn [map plus].
  replace (S i - S r) with (i - r) by lia. cbn [seq]. replace (S (i - r)) with (S i - r) by lia.
  eapply Permutation_trans; [apply Permutation_sym, Permutation_cons_append|].
  apply perm_skip. apply IH. lia.
Qed.

Lemma map_nth_seq (p : list nat) : map (fun t => nth t p 0) (seq 0 (length p)) = p.
Proof.
  apply nth_error_ext. intros i. rewrite nth_error_map, nth_error_seq.
  destruct (i <? length p) eqn:E.
  - apply Nat.ltb_lt in E. cbn. symmetry. apply nth_error_nth'. exact E.
  - apply Nat.ltb_ge in E. cbn. symmetry. apply nth_error_None. exact E.
Qed.

Section RankWrites.
  Context {A : Type} {NA : Num A} {T : Type} {DT : IsNone T A} {DX : IsNoneX T A}.
  Variables (pct : bool) (nn : nat) (xs : list T) (p : list nat).
  Let len := length xs.
  Hypothesis Hplen : length p = len.
  Hypothesis Hpr : forall i, In i p -> i < len.
  Notation Pf := (fun t => nth t p 0).

  Lemma get_p_snd t : t < len -> snd (tget 2 p t) = Ok (nth t p 0).
  Proof. intros H. cbn. unfold uget. rewrite (proj1 (p_nth xs p Hplen Hpr t H)). reflexivity. Qed.

  Lemma write_run_tr_writes i (v : A) : i < len -> forall js out, (forall j, In j js -> j <= i) ->
    Wr (write_run_tr p i v js out) = map (fun j => nth (i - j) p 0) js.
  Proof.
    intros Hi. induction js as [|j r IH]; intros out Hjs; cbn [write_run_tr map]; [reflexivity|].
    rewrite (Wr_bind _ _ (i - j)) by (cbn; apply usub_ok, Hjs; left; reflexivity).
    rewrite (Wr_bind _ _ (nth (i - j) p 0)) by (apply get_p_snd; lia).
    rewrite (Wr_bind _ _ (uset (nth (i - j) p 0) v out)) by reflexivity.
    rewrite IH by (intros j' Hj'; apply Hjs; right; exact Hj'). reflexivity.
  Qed.

  Lemma fill_tr_writes (v : A) : forall is out, (forall i, In i is -> i < len) ->
    Wr (fill_tr p v is out) = map (fun i => nth i p 0) is.
  Proof.
    induction is as [|i r IH]; intros out His; cbn [fill_tr map]; [reflexivity|].
    rewrite (Wr_bind _ _ (nth i p 0)) by (apply get_p_snd, His; left; reflexivity).
    rewrite (Wr_bind _ _ (uset (nth i p 0) v out)) by reflexivity.
    rewrite IH by (intros i' Hi'; apply His; right; exact Hi'). reflexivity.
  Qed.

  Lemma run_then_rest i0 rep : rep <= S i0 -> S i0 <= len ->
    Permutation (map (fun j => nth (i0 - j) p 0) (seq 0 rep) ++ map Pf (seq (S i0) (len - S i0)))
                (map Pf (seq (S i0 - rep) (len - (S i0 - rep)))).
  Proof.
    intros H1 H2. replace (len - (S i0 - rep)) with (rep + (len - S i0)) by lia.
    rewrite seq_app, map_app. replace (S i0 - rep + rep) with (S i0) by lia.
    apply Permutation_app_tail.
    change (map (fun j => nth (i0 - j) p 0) (seq 0 rep)) with (map (fun j => Pf ((fun j => i0 - j) j)) (seq 0 rep)).
    rewrite <- (map_map (fun j => i0 - j) Pf). apply Permutation_map. apply run_positions. exact H1.
  Qed.

  (* positions below i + 1 - repeat_num are written when iteration i starts; the rest of the loop and the final
     loop write exactly the remaining positions *)
  Lemma loop_finish_writes : forall m i0 st, S (i0 + m) = len -> 1 <= r_rep st -> r_rep st <= S i0 ->
    Permutation (Wr (rank_loop_tr pct nn xs p (seq i0 m) st) ++
                 Wr (rank_finish_tr pct nn p len (Rank.rank_loop pct nn xs p (seq i0 m) st)))
                (map Pf (seq (S i0 - r_rep st) (len - (S i0 - r_rep st)))).
  Proof.
    induction m as [|m IH]; intros i0 st Hm H1 Hrep.
    - cbn [seq rank_loop_tr Rank.rank_loop rank_finish_tr]. cbv zeta.
      rewrite (Wr_bind _ _ (len - r_rep st)) by (cbn; apply usub_ok; lia).
      rewrite fill_tr_writes by (intros i Hi; apply in_seq in Hi; lia).
      rewrite Wr_ret, Wr_pure. cbn [app].
      replace (S i0 - r_rep st) with (len - r_rep st) by lia.
      replace (len - (len - r_rep st)) with (r_rep st) by lia. apply Permutation_refl.
    - cbn [seq rank_loop_tr Rank.rank_loop].
      destruct (xs_at xs p Hplen Hpr i0 ltac:(lia)) as [v Hv].
      destruct (xs_at xs p Hplen Hpr (S i0) ltac:(lia)) as [v1 Hv1].
      rewrite (Wr_bind _ _ (nth i0 p 0)) by (apply get_p_snd; lia).
      rewrite (Wr_bind _ _ (nth (S i0) p 0)) by (apply get_p_snd; lia).
      rewrite (Wr_bind _ _ v) by (cbn; unfold uget; rewrite Hv; reflexivity).
      rewrite (Wr_bind _ _ v1) by (cbn; unfold uget; rewrite Hv1; reflexivity).
      rewrite !Wr_get. cbn [app]. cbv zeta. unfold get_is_none, get_eq. rewrite Hv, Hv1.
      assert (Hjs : forall j, In j (seq 0 (r_rep st)) -> j <= i0) by (intros j Hj; apply in_seq in Hj; lia).
      destruct (is_none v1).
      + destruct (write_run_tr_spec xs p Hplen Hpr i0
                    (rk_avg pct nn (r_sum st + r_cur st) (r_rep st)) ltac:(lia) (seq 0 (r_rep st)) (r_out st) Hjs)
          as [_ (o & Ho & ->)].
        rewrite (Wr_bind _ _ _ Ho), write_run_tr_writes by (try lia; exact Hjs).
        rewrite Wr_ret, app_nil_r. cbn [rank_finish_tr].
        rewrite fill_tr_writes by (intros i Hi; apply in_seq in Hi; lia).
        apply run_then_rest; lia.
      + destruct (teqb v v1).
        * specialize (IH (S i0) {| r_rep := S (r_rep st); r_cur := S (r_cur st);
                                   r_sum := r_sum st + r_cur st; r_out := r_out st |}
                         ltac:(lia) ltac:(cbn [r_rep]; lia) ltac:(cbn [r_rep]; lia)).
          cbn [r_rep] in IH. exact IH.
        * destruct (r_rep st =? 1) eqn:E1.
          -- apply Nat.eqb_eq in E1.
             rewrite (Wr_bind _ _ (uset (nth i0 p 0) (rk_one pct nn (r_cur st)) (r_out st))) by reflexivity.
             rewrite Wr_set. cbn [app].
             specialize (IH (S i0) {| r_rep := r_rep st; r_cur := S (r_cur st); r_sum := r_sum st;
                                      r_out := uset (nth i0 p 0) (rk_one pct nn (r_cur st)) (r_out st) |}
                            ltac:(lia) ltac:(cbn [r_rep]; lia) ltac:(cbn [r_rep]; lia)).
             cbn [r_rep] in IH. rewrite E1 in *.
             replace (S (S i0) - 1) with (S i0) in IH by lia.
             replace (S i0 - 1) with i0 by lia. replace (len - i0) with (S (len - S i0)) by lia.
             cbn [seq map]. apply perm_skip. exact IH.
          -- destruct (write_run_tr_spec xs p Hplen Hpr i0
                         (rk_avg pct nn (r_sum st + r_cur st) (r_rep st)) ltac:(lia) (seq 0 (r_rep st)) (r_out st) Hjs)
               as [_ (o & Ho & ->)].
             rewrite (Wr_bind _ _ _ Ho), write_run_tr_writes by (try lia; exact Hjs).
             rewrite <- app_assoc.
             match goal with |- Permutation (_ ++ Wr (rank_loop_tr _ _ _ _ _ ?st') ++ _) _ =>
               specialize (IH (S i0) st' ltac:(lia) ltac:(cbn [r_rep]; lia) ltac:(cbn [r_rep]; lia)) end.
             cbn [r_rep] in IH. replace (S (S i0) - 1) with (S i0) in IH by lia.
             eapply Permutation_trans; [apply Permutation_app_head; exact IH|].
             apply run_then_rest; lia.
  Qed.
End RankWrites.

Section RankWritesEntry.
  Context {A : Type} {NA : Num A} {T : Type} {DT : IsNone T A} {DX : IsNoneX T A}.

  (* the uninitialised-buffer path (len >= 2, first sorted element non-null): every slot exactly once *)
  Theorem vrank_tr_writes_perm pct rev (xs : list T) :
    2 <= length xs ->
    get_is_none xs (nth 0 (isort (cmp_idx (cmp_dir rev) xs) (seq 0 (length xs))) 0) = false ->
    Permutation (writes_of (fst (vrank_tr pct rev xs))) (seq 0 (length xs)).
  Proof.
    intros Hlen Hfirst. change (writes_of (fst (vrank_tr pct rev xs))) with (Wr (vrank_tr pct rev xs)).
    unfold vrank_tr. cbv zeta.
    replace (length xs =? 0) with false by (symmetry; apply Nat.eqb_neq; lia).
    replace (length xs =? 1) with false by (symmetry; apply Nat.eqb_neq; lia).
    set (p := isort (cmp_idx (cmp_dir rev) xs) (seq 0 (length xs))) in *.
    assert (Hperm : Permutation p (seq 0 (length xs))) by apply isort_perm.
    assert (Hplen : length p = length xs) by (unfold p; rewrite isort_length, seq_length; reflexivity).
    assert (Hpr : forall i, In i p -> i < length xs).
    { intros i Hi. apply (Permutation_in _ Hperm) in Hi. apply in_seq in Hi. lia. }
    destruct (xs_at xs p Hplen Hpr 0 ltac:(lia)) as [v0 Hv0].
    rewrite (Wr_bind _ _ (nth 0 p 0)) by (apply (get_p_snd xs p Hplen Hpr); lia).
    rewrite (Wr_bind _ _ v0) by (cbn; unfold uget; rewrite Hv0; reflexivity).
    rewrite !Wr_get. cbn [app]. unfold get_is_none in Hfirst. rewrite Hv0 in Hfirst. rewrite Hfirst.
    destruct (rank_loop_tr_spec pct (count_valid xs) xs p Hplen Hpr (length xs - 1) 0
                {| r_rep := 1; r_cur := 1; r_sum := 0; r_out := repeat None (length xs) |}
                ltac:(lia) ltac:(cbn [r_rep]; lia)) as [_ (r & Hr & ->)].
    rewrite (Wr_bind _ _ _ Hr).
    eapply Permutation_trans;
      [apply (loop_finish_writes pct (count_valid xs) xs p Hplen Hpr (length xs - 1) 0); cbn [r_rep]; lia|].
    cbn [r_rep]. replace (1 - 1) with 0 by lia. rewrite Nat.sub_0_r, <- Hplen, map_nth_seq, Hplen. exact Hperm.
  Qed.

  (* the other paths return `O::empty()` / `O::full(len, ..)`: an initialised allocation, no `uset` *)
  Theorem vrank_tr_writes_none pct rev (xs : list T) :
    length xs <= 1 \/ get_is_none xs (nth 0 (isort (cmp_idx (cmp_dir rev) xs) (seq 0 (length xs))) 0) = true ->
    writes_of (fst (vrank_tr pct rev xs)) = [] /\
    (length xs <= 1 \/ vrank pct rev xs = repeat (Some nnan) (length xs)).
  Proof.
    intros H. change (writes_of (fst (vrank_tr pct rev xs))) with (Wr (vrank_tr pct rev xs)).
    unfold vrank_tr, vrank. cbv zeta.
    destruct (length xs =? 0) eqn:E0; [apply Nat.eqb_eq in E0; split; [reflexivity|left; lia]|].
    destruct (length xs =? 1) eqn:E1.
    { apply Nat.eqb_eq in E1. split; [|left; lia]. destruct xs as [|x [|? ?]]; try discriminate. reflexivity. }
    apply Nat.eqb_neq in E0. apply Nat.eqb_neq in E1. destruct H as [H|H]; [lia|].
    set (p := isort (cmp_idx (cmp_dir rev) xs) (seq 0 (length xs))) in *.
    assert (Hplen : length p = length xs) by (unfold p; rewrite isort_length, seq_length; reflexivity).
    assert (Hpr : forall i, In i p -> i < length xs).
    { intros i Hi. unfold p in Hi. apply (Permutation_in _ (isort_perm _ _)) in Hi. apply in_seq in Hi. lia. }
    destruct (xs_at xs p Hplen Hpr 0 ltac:(lia)) as [v0 Hv0].
    rewrite (Wr_bind _ _ (nth 0 p 0)) by (apply (get_p_snd xs p Hplen Hpr); lia).
    rewrite (Wr_bind _ _ v0) by (cbn; unfold uget; rewrite Hv0; reflexivity).
    rewrite H. unfold get_is_none in H. rewrite Hv0 in H. rewrite H. split; [reflexivity|right; reflexivity].
  Qed.
End RankWritesEntry.
