(* Proofs/Containers.v — every accessor of every container model describes the same logical sequence. *)
From Coq Require Import ZArith Lia.
From Tevec Require Import Base.Prelude Model.Containers.

(* ---- ring buffer ------------------------------------------------------------------------------ *)
Section Ring.
  Context {A : Type}.
  Variable r : ring A.
  Hypothesis Hwf : ring_wf r.

  Lemma rot_length : length (skipn (rhead r) (rbuf r) ++ firstn (rhead r) (rbuf r)) = rcap r.
  Proof. destruct Hwf as [_ Hh]. unfold rcap in *. rewrite app_length, skipn_length, firstn_length. lia. Qed.

  Lemma ring_to_list_length : length (ring_to_list r) = rlen r.
  Proof. unfold ring_to_list. rewrite firstn_length, rot_length. destruct Hwf. lia. Qed.

  Lemma ring_get_to_list i : nth_error (ring_to_list r) i = ring_get r i.
  Proof.
    destruct Hwf as [Hl Hh]. unfold ring_to_list, ring_get, rcap in *. rewrite nth_error_firstn.
    destruct (i <? rlen r) eqn:E; [|reflexivity]. apply Nat.ltb_lt in E.
    rewrite nth_error_app, skipn_length.
    destruct (i <? length (rbuf r) - rhead r) eqn:E2.
    - apply Nat.ltb_lt in E2. rewrite nth_error_skipn. f_equal.
      symmetry. apply Nat.mod_small. lia.
    - apply Nat.ltb_ge in E2. rewrite nth_error_firstn.
      replace (i - (length (rbuf r) - rhead r) <? rhead r) with true by (symmetry; apply Nat.ltb_lt; lia).
      f_equal. 
      assert (Hm : (rhead r + i) mod length (rbuf r) = rhead r + i - length (rbuf r)).
      { replace (rhead r + i) with ((rhead r + i - length (rbuf r)) + 1 * length (rbuf r)) at 1 by lia.
        rewrite Nat.mod_add by lia. apply Nat.mod_small. lia. }
      rewrite Hm. lia.
  Qed.

  Lemma ring_try_as_slice_sound l : ring_try_as_slice r = Some l -> l = ring_to_list r.
  Proof.
    destruct Hwf as [Hl Hh]. unfold ring_try_as_slice, ring_slices, rcap in *.
    destruct (rhead r + rlen r <=? length (rbuf r)) eqn:E.
    - apply Nat.leb_le in E. intros H. injection H as <-. unfold ring_to_list.
      apply nth_error_ext. intros i. rewrite nth_error_seg, nth_error_firstn.
      replace (rhead r + rlen r - rhead r) with (rlen r) by lia.
      destruct (i <? rlen r) eqn:E2; [|reflexivity]. apply Nat.ltb_lt in E2.
      rewrite nth_error_app, skipn_length.
      replace (i <? length (rbuf r) - rhead r) with true by (symmetry; apply Nat.ltb_lt; lia).
      rewrite nth_error_skipn. reflexivity.
    - apply Nat.leb_gt in E.
      destruct (seg 0 (rhead r + rlen r - length (rbuf r)) (rbuf r)) eqn:Es; [|discriminate].
      exfalso. apply (f_equal (@length A)) in Es. rewrite seg_length in Es by lia. cbn in Es. lia.
  Qed.

  Lemma ring_range_spec a b : ring_range r a b = seg a b (ring_to_list r).
  Proof. reflexivity. Qed.
End Ring.

(* ---- a sequence given by a partial index function that is total below n ------------------------- *)
Definition tabulate {A} (g : nat -> option A) (n : nat) : list A :=
  flat_map (fun i => match g i with Some x => [x] | None => [] end) (seq 0 n).

Lemma tabulate_length {A} (g : nat -> option A) n :
  (forall i, i < n -> g i <> None) -> length (tabulate g n) = n.
Proof.
  unfold tabulate. induction n as [|n IH]; intros H; [reflexivity|].
  rewrite seq_S, flat_map_app, app_length, IH by (intros i Hi; apply H; lia).
  cbn. destruct (g n) eqn:E; [cbn; lia|]. exfalso. apply (H n); [lia|exact E].
Qed.

Lemma tabulate_nth {A} (g : nat -> option A) n i :
  (forall j, j < n -> g j <> None) -> nth_error (tabulate g n) i = if i <? n then g i else None.
Proof.
  induction n as [|n IH]; intros H; [destruct i; reflexivity|].
  unfold tabulate. rewrite seq_S, flat_map_app. fold (tabulate g n). cbn [plus flat_map].
  rewrite nth_error_app, tabulate_length by (intros j Hj; apply H; lia).
  destruct (i <? n) eqn:E.
  - rewrite IH by (intros j Hj; apply H; lia). rewrite ?E.
    apply Nat.ltb_lt in E. replace (i <? S n) with true by (symmetry; apply Nat.ltb_lt; lia). reflexivity.
  - apply Nat.ltb_ge in E. destruct (g n) eqn:Eg; [|exfalso; apply (H n); [lia|exact Eg]].
    rewrite app_nil_r. destruct (i - n) as [|d] eqn:Ed.
    + assert (i = n) by lia. subst i.
      replace (n <? S n) with true by (symmetry; apply Nat.ltb_lt; lia). cbn. symmetry. exact Eg.
    + replace (i <? S n) with false by (symmetry; apply Nat.ltb_ge; lia). cbn. destruct d; reflexivity.
Qed.

(* ---- strided view ---------------------------------------------------------------------------------- *)
Section Strided.
  Context {A : Type}.
  Variable s : strided A.
  Hypothesis Hwf : strided_wf s.

  Lemma strided_pos_some i : i < slen s -> nth_error (sbase s) (Z.to_nat (spos s i)) <> None.
  Proof.
    intros Hi E. specialize (Hwf i Hi). apply nth_error_None in E. lia.
  Qed.

  Lemma strided_to_list_length : length (strided_to_list s) = slen s.
  Proof. apply (tabulate_length (fun i => nth_error (sbase s) (Z.to_nat (spos s i)))). exact strided_pos_some. Qed.

  Lemma strided_to_list_nth i : nth_error (strided_to_list s) i = strided_get s i.
  Proof.
    unfold strided_get.
    apply (tabulate_nth (fun i => nth_error (sbase s) (Z.to_nat (spos s i)))). exact strided_pos_some.
  Qed.

  Lemma strided_try_as_slice_sound l : strided_try_as_slice s = Some l -> l = strided_to_list s.
  Proof.
    unfold strided_try_as_slice. destruct (orb _ _) eqn:E; [|discriminate]. intros H. injection H as <-.
    apply nth_error_ext. intros i. rewrite strided_to_list_nth, nth_error_seg. unfold strided_get.
    replace (soff s + slen s - soff s) with (slen s) by lia.
    destruct (i <? slen s) eqn:Ei; [|reflexivity]. apply Nat.ltb_lt in Ei. f_equal.
    apply Bool.orb_true_iff in E. destruct E as [E|E].
    - apply Z.eqb_eq in E. unfold spos. rewrite E. lia.
    - apply Nat.leb_le in E. assert (i = 0) by lia. subst i. unfold spos. lia.
  Qed.
End Strided.

(* the defect that was repaired: the memory-order accessor reverses a stride -1 view *)
Lemma strided_memory_order_refuted :
  exists s : strided nat, strided_wf s /\
    strided_memory_order s = Some [1; 2; 3; 4] /\ strided_to_list s = [4; 3; 2; 1].
Proof.
  exists {| sbase := [1; 2; 3; 4]; soff := 3; sstep := (-1)%Z; slen := 4 |}. split; [|split; reflexivity].
  intros i Hi. unfold spos. cbn [soff sstep sbase slen length] in *. lia.
Qed.

(* ---- chunked array ------------------------------------------------------------------------------------ *)
Lemma chunked_get_spec {A} (c : chunked A) i : chunked_get c i = nth_error (chunked_to_list c) i.
Proof.
  revert i; induction c as [|ch rest IH]; intros i; [destruct i; reflexivity|].
  cbn [chunked_get chunked_to_list concat]. rewrite nth_error_app.
  destruct (i <? length ch); [reflexivity|]. apply IH.
Qed.

Lemma chunked_len_spec {A} (c : chunked A) : chunked_len c = length (chunked_to_list c).
Proof.
  induction c as [|ch rest IH]; [reflexivity|]. cbn [chunked_len chunked_to_list concat fold_right].
  rewrite app_length. f_equal. exact IH.
Qed.

(* re-chunking does not change the logical sequence *)
Lemma chunked_rechunk {A} (c1 c2 : chunked A) i :
  chunked_to_list c1 = chunked_to_list c2 -> chunked_get c1 i = chunked_get c2 i.
Proof. intros H. rewrite !chunked_get_spec, H. reflexivity. Qed.

(* ---- checked get of view.rs ---------------------------------------------------------------------------- *)
Lemma checked_get_spec {A} (l : list A) i :
  checked_get (length l) (nth_error l) i = match nth_error l i with Some x => Ok x | None => Panic OtherPanic end.
Proof.
  unfold checked_get. destruct (i <? length l) eqn:E; [reflexivity|].
  apply Nat.ltb_ge in E. apply nth_error_None in E. rewrite E. reflexivity.
Qed.
