(* Proofs/Containers.v — every accessor of every container model describes the same logical sequence. *)
From Coq Require Import ZArith Lia.
From Tevec Require Import Base.Prelude Model.Containers.

(* ---- ring buffer ------------------------------------------------------------------------------ *)
Section Ring.
  Context {A : Type}.
  Variable r : ring A.
  Hypothesis Hwf : ring_wf r.

  Lemma rot_length : length (skipn (rhead r) (rbuf r) ++ firstn (rhead r) (rbuf r)) = rcap r.
  Proof. destruct Hwf as [_ Hh]. unfold rcap in *. rewrite app_length, skipn_length, firstn_length. lia. Qed.

  Lemma ring_to_list_length : length (ring_to_list r) = rlen r.
  Proof. unfold ring_to_list. rewrite firstn_length, rot_length. destruct Hwf. lia. Qed.

  Lemma ring_get_to_list i : nth_error (ring_to_list r) i = ring_get r i.
  Proof.
    destruct Hwf as [Hl Hh]. unfold ring_to_list, ring_get, rcap in *. rewrite nth_error_firstn.
    destruct (i <? rlen r) eqn:E; [|reflexivity]. apply Nat.ltb_lt in E.
    rewrite nth_error_app, skipn_length.
    destruct (i <? length (rbuf r) - rhead r) eqn:E2.
    - apply Nat.ltb_lt in E2. rewrite nth_error_skipn. f_equal.
      symmetry. apply Nat.mod_small. lia.
    - apply Nat.ltb_ge in E2. rewrite nth_error_firstn.
      replace (i - (length (rbuf r) - rhead r) <? rhead r) with true by (symmetry; apply Nat.ltb_lt; lia).
      f_equal. 
      assert (Hm : (rhead r + i) mod length (rbuf r) = rhead r + i - length (rbuf r)).
      { replace (rhead r + i) with ((rhead r + i - length (rbuf r)) + 1 * length (rbuf r)) at 1 by lia.
        rewrite Nat.mod_add by lia. apply Nat.mod_small. lia. }
      rewrite Hm. lia.
  Qed.

  Lemma ring_try_as_slice_sound l : ring_try_as_slice r = Some l -> l = ring_to_list r.
  Proof.
    destruct Hwf as [Hl Hh]. unfold ring_try_as_slice, ring_slices, rcap in *.
    destruct (rhead r + rlen r <=? length (rbuf r)) eqn:E.
    - apply Nat.leb_le in E. intros H. injection H as <-. unfold ring_to_list.
      apply nth_error_ext. intros i. rewrite nth_error_seg, nth_error_firstn.
      replace (rhead r + rlen r - rhead r) with (rlen r) by lia.
      destruct (i <? rlen r) eqn:E2; [|reflexivity]. apply Nat.ltb_lt in E2.
      rewrite nth_error_app, skipn_length.
      replace (i <? length (rbuf r) - rhead r) with true by (symmetry; apply Nat.ltb_lt; lia).
      rewrite nth_error_skipn. reflexivity.
    - apply Nat.leb_gt in E.
      destruct (seg 0 (rhead r + rlen r - length (rbuf r)) (rbuf r)) eqn:Es; [|discriminate].
      exfalso. apply (f_equal (@length A)) in Es. rewrite seg_length in Es by lia. cbn in Es. lia.
  Qed.

  Lemma ring_range_spec a b : ring_range r a b = seg a b (ring_to_list r).
  Proof. reflexivity. Qed.
End Ring.

(* ---- a sequence given by a partial index function that is total below n ------------------------- *)
Definition tabulate {A} (g : nat -> option A) (n : nat) : list A :=
  flat_map (fun i => match g i with Some x => [x] | None => [] end) (seq 0 n).

Lemma tabulate_length {A} (g : nat -> option A) n :
  (forall i, i < n -> g i <> None) -> length (tabulate g n) = n.
Proof.
  unfold tabulate. induction n as [|n IH]; intros H; [reflexivity|].
  rewrite seq_S, flat_map_app, app_length, IH by (intros i Hi; apply H; lia).
  cbn. destruct (g n) eqn:E; [cbn; lia|]. exfalso. apply (H n); [lia|exact E].
Qed.

Lemma tabulate_nth {A} (g : nat -> option A) n i :
  (forall j, j < n -> g j <> None) -> nth_error (tabulate g n) i = if i <? n then g i else None.
Proof.
  induction n as [|n IH]; intros H; [destruct i; reflexivity|].
  unfold tabulate. rewrite seq_S, flat_map_app. fold (tabulate g n). cbn [plus flat_map].
  rewrite nth_error_app, tabulate_length by (intros j Hj; apply H; lia).
  destruct (i <? n) eqn:E.
  - rewrite IH by (intros j Hj; apply H; lia). rewrite ?E.
    apply Nat.ltb_lt in E. replace (i <? S n) with true by (symmetry; apply Nat.ltb_lt; lia). reflexivity.
  - apply Nat.ltb_ge in E. destruct (g n) eqn:Eg; [|exfalso; apply (H n); [lia|exact Eg]].
    rewrite app_nil_r. destruct (i - n) as [|d] eqn:Ed.
    + assert (i = n) by lia. subst i.
      replace (n <? S n) with true by (symmetry; apply Nat.ltb_lt; lia). cbn. symmetry. exact Eg.
    + replace (i <? S n) with false by (symmetry; apply Nat.ltb_ge; lia). cbn. destruct d; reflexivity.
Qed.

(* ---- strided view ---------------------------------------------------------------------------------- *)
Section Strided.
  Context {A : Type}.
  Variable s : strided A.
  Hypothesis Hwf : strided_wf s.

  Lemma strided_pos_some i : i < slen s -> nth_error (sbase s) (Z.to_nat (spos s i)) <> None.
  Proof.
    intros Hi E. specialize (Hwf i Hi). apply nth_error_None in E. lia.
  Qed.

  Lemma strided_to_list_length : length (strided_to_list s) = slen s.
  Proof. apply (tabulate_length (fun i => nth_error (sbase s) (Z.to_nat (spos s i)))). exact strided_pos_some. Qed.

  Lemma strided_to_list_nth i : nth_error (strided_to_list s) i = strided_get s i.
  Proof.
    unfold strided_get.
    apply (tabulate_nth (fun i => nth_error (sbase s) (Z.to_nat (spos s i)))). exact strided_pos_some.
  Qed.

  Lemma strided_try_as_slice_sound l : strided_try_as_slice s = Some l -> l = strided_to_list s.
  Proof.
    unfold strided_try_as_slice. destruct (orb _ _) eqn:E; [|discriminate]. intros H. injection H as <-.
    apply nth_error_ext. intros i. rewrite strided_to_list_nth, nth_error_seg. unfold strided_get.
    replace (soff s + slen s - soff s) with (slen s) by lia.
    destruct (i <? slen s) eqn:Ei; [|reflexivity]. apply Nat.ltb_lt in Ei. f_equal.
    apply Bool.orb_true_iff in E. destruct E as [E|E].
    - apply Z.eqb_eq in E. unfold spos. rewrite E. lia.
    - apply Nat.leb_le in E. assert (i = 0) by lia. subst i. unfold spos. lia.
  Qed.
End Strided.

(* the defect that was repaired: the memory-order accessor reverses a stride -1 view *)
Lemma strided_memory_order_refuted :
  exists s : strided nat, strided_wf s /\
    strided_memory_order s = Some [1; 2; 3; 4] /\ strided_to_list s = [4; 3; 2; 1].
Proof.
  exists {| sbase := [1; 2; 3; 4]; soff := 3; sstep := (-1)%Z; slen := 4 |}. split; [|split; reflexivity].
  intros i Hi. unfold spos. cbn [soff sstep sbase slen length] in *. lia.
Qed.

(* ---- chunked array ------------------------------------------------------------------------------------ *)
Lemma chunked_get_spec {A} (c : chunked A) i : chunked_get c i = nth_error (chunked_to_list c) i.
Proof.
  revert i; induction c as [|ch rest IH]; intros i; [destruct i; reflexivity|].
  cbn [chunked_get chunked_to_list concat]. rewrite nth_error_app.
  destruct (i <? length ch); [reflexivity|]. apply IH.
Qed.

Lemma chunked_len_spec {A} (c : chunked A) : chunked_len c = length (chunked_to_list c).
Proof.
  induction c as [|ch rest IH]; [reflexivity|]. cbn [chunked_len chunked_to_list concat fold_right].
  rewrite app_length. f_equal. exact IH.
Qed.

(* re-chunking does not change the logical sequence *)
Lemma chunked_rechunk {A} (c1 c2 : chunked A) i :
  chunked_to_list c1 = chunked_to_list c2 -> chunked_get c1 i = chunked_get c2 i.
Proof. intros H. rewrite !chunked_get_spec, H. reflexivity. Qed.

(* ---- checked get of view.rs ---------------------------------------------------------------------------- *)
Lemma checked_get_spec {A} (l : list A) i :
  checked_get (length l) (nth_error l) i = match nth_error l i with Some x => Ok x | None => Panic OtherPanic end.
Proof.
  unfold checked_get. destruct (i <? length l) eqn:E; [reflexivity|].
  apply Nat.ltb_ge in E. apply nth_error_None in E. rewrite E. reflexivity.
Qed.

(* ==== mutable accessors and the valid-get family ==================================================================== *)

(* ---- update ------------------------------------------------------------------------------------------------------- *)
Lemma update_length {A} (l : list A) i v : length (update l i v) = length l.
Proof. revert i; induction l as [|h t IH]; intros [|i]; cbn; auto. Qed.

Lemma nth_error_update {A} (l : list A) i v j :
  nth_error (update l i v) j = if andb (j =? i) (i <? length l) then Some v else nth_error l j.
Proof.
  revert i j; induction l as [|h t IH]; intros i j.
  - cbn. rewrite Bool.andb_false_r. destruct i; reflexivity.
  - destruct i as [|i], j as [|j]; cbn [update nth_error length]; try reflexivity.
    rewrite IH. reflexivity.
Qed.

Lemma update_oob {A} (l : list A) i v : length l <= i -> update l i v = l.
Proof.
  intros H. apply nth_error_ext. intros j. rewrite nth_error_update.
  replace (i <? length l) with false by (symmetry; apply Nat.ltb_ge; exact H).
  rewrite Bool.andb_false_r. reflexivity.
Qed.

Lemma update_same {A} (l : list A) i x : nth_error l i = Some x -> update l i x = l.
Proof.
  intros H. apply nth_error_ext. intros j. rewrite nth_error_update.
  destruct (j =? i) eqn:E; [|reflexivity]. apply Nat.eqb_eq in E. subst j.
  destruct (i <? length l); cbn; congruence.
Qed.

Lemma update_update {A} (l : list A) i v w : update (update l i v) i w = update l i w.
Proof.
  apply nth_error_ext. intros j. rewrite !nth_error_update, update_length.
  destruct (andb (j =? i) (i <? length l)); reflexivity.
Qed.

Lemma update_comm {A} (l : list A) i j v w : i <> j ->
  update (update l i v) j w = update (update l j w) i v.
Proof.
  intros Hn. apply nth_error_ext. intros k. rewrite !nth_error_update, !update_length.
  destruct (k =? j) eqn:E1, (k =? i) eqn:E2; cbn [andb]; try reflexivity.
  apply Nat.eqb_eq in E1, E2. congruence.
Qed.

(* writing through a list position that a map projects: used for the logical/physical transfer below *)
Lemma map_update {A B} (f : A -> B) (l : list A) i v : map f (update l i v) = update (map f l) i (f v).
Proof. revert i; induction l as [|h t IH]; intros [|i]; cbn; try rewrite IH; reflexivity. Qed.

(* ---- Vec ------------------------------------------------------------------------------------------------------------ *)
Lemma list_uset_spec {A} (l : list A) i v :
  list_uset l i v = if i <? length l then Some (update l i v) else None.
Proof. reflexivity. Qed.

Lemma checked_set_list {A} (l : list A) i v :
  checked_set (length l) (list_uset l) i v = if i <? length l then Some (update l i v) else None.
Proof. unfold checked_set, list_uset. destruct (i <? length l); reflexivity. Qed.

(* ---- ring buffer ------------------------------------------------------------------------------------------------------ *)
Section RingMut.
  Context {A : Type}.
  Variable r : ring A.
  Hypothesis Hwf : ring_wf r.

  Lemma ring_uset_wf i v r' : ring_uset r i v = Some r' -> ring_wf r'.
  Proof.
    unfold ring_uset. destruct (i <? rlen r); [|discriminate]. intros H. injection H as <-.
    unfold ring_wf, rcap in *. cbn [rbuf rhead rlen]. rewrite update_length. exact Hwf.
  Qed.

  Lemma ring_uset_layout i v r' : ring_uset r i v = Some r' ->
    rhead r' = rhead r /\ rlen r' = rlen r /\ rcap r' = rcap r.
  Proof.
    unfold ring_uset. destruct (i <? rlen r); [|discriminate]. intros H. injection H as <-.
    unfold rcap. cbn [rbuf rhead rlen]. rewrite update_length. auto.
  Qed.

  (* the physical slot of a logical position; injective below len *)
  Lemma ring_slot_inj i j : i < rlen r -> j < rlen r ->
    (rhead r + i) mod rcap r = (rhead r + j) mod rcap r -> i = j.
  Proof.
    destruct Hwf as [Hl Hh]. intros Hi Hj.
    assert (Hm : forall k, k < rlen r ->
              (rhead r + k) mod rcap r = if rhead r + k <? rcap r then rhead r + k else rhead r + k - rcap r).
    { intros k Hk. destruct (rhead r + k <? rcap r) eqn:E.
      - apply Nat.ltb_lt in E. apply Nat.mod_small. exact E.
      - apply Nat.ltb_ge in E.
        replace (rhead r + k) with ((rhead r + k - rcap r) + 1 * rcap r) at 1 by lia.
        rewrite Nat.mod_add by lia. apply Nat.mod_small. lia. }
    rewrite (Hm i Hi), (Hm j Hj).
    destruct (rhead r + i <? rcap r) eqn:E1, (rhead r + j <? rcap r) eqn:E2;
      try apply Nat.ltb_lt in E1; try apply Nat.ltb_lt in E2;
      try apply Nat.ltb_ge in E1; try apply Nat.ltb_ge in E2; lia.
  Qed.

  Lemma ring_slot_lt i : (rhead r + i) mod rcap r < rcap r.
  Proof. destruct Hwf. apply Nat.mod_upper_bound. lia. Qed.

  (* a write at logical index i is a write at index i of the logical sequence; out of range is rejected *)
  Lemma ring_uset_to_list i v :
    option_map (@ring_to_list A) (ring_uset r i v)
    = if i <? rlen r then Some (update (ring_to_list r) i v) else None.
  Proof.
    destruct (ring_uset r i v) as [r'|] eqn:E.
    - pose proof (ring_uset_wf _ _ _ E) as Hwf'. pose proof (ring_uset_layout _ _ _ E) as (Hh & Hl & Hc).
      unfold ring_uset in E. destruct (i <? rlen r) eqn:Ei; [|discriminate]. apply Nat.ltb_lt in Ei.
      cbn [option_map]. f_equal. apply nth_error_ext. intros j.
      rewrite (ring_get_to_list _ Hwf'), nth_error_update, (ring_to_list_length _ Hwf), (ring_get_to_list _ Hwf).
      unfold ring_get. rewrite Hl, Hh, Hc. injection E as <-. cbn [rbuf].
      replace (i <? rlen r) with true by (symmetry; apply Nat.ltb_lt; exact Ei). rewrite Bool.andb_true_r.
      destruct (j <? rlen r) eqn:Ej.
      + apply Nat.ltb_lt in Ej. rewrite nth_error_update.
        replace ((rhead r + i) mod rcap r <? length (rbuf r)) with true
          by (symmetry; apply Nat.ltb_lt; apply ring_slot_lt).
        rewrite Bool.andb_true_r.
        destruct (j =? i) eqn:Eji.
        * apply Nat.eqb_eq in Eji. subst j. rewrite Nat.eqb_refl. reflexivity.
        * apply Nat.eqb_neq in Eji.
          replace ((rhead r + j) mod rcap r =? (rhead r + i) mod rcap r) with false; [reflexivity|].
          symmetry. apply Nat.eqb_neq. intros Hs. apply Eji. apply ring_slot_inj; assumption.
      + apply Nat.ltb_ge in Ej. replace (j =? i) with false by (symmetry; apply Nat.eqb_neq; lia). reflexivity.
    - unfold ring_uset in E. destruct (i <? rlen r); [discriminate|]. reflexivity.
  Qed.

  (* get_mut of view_mut.rs over the ring *)
  Lemma ring_checked_set_to_list i v :
    option_map (@ring_to_list A) (checked_set (rlen r) (ring_uset r) i v)
    = if i <? rlen r then Some (update (ring_to_list r) i v) else None.
  Proof.
    unfold checked_set. destruct (i <? rlen r) eqn:E; [|reflexivity]. rewrite ring_uset_to_list, E. reflexivity.
  Qed.

  (* the mutable slice is offered exactly when the immutable one is *)
  Lemma ring_slice_mut_offered k v :
    ring_slice_mut_set r k v = None <-> ring_try_as_slice r = None.
  Proof.
    destruct Hwf as [Hl Hh]. unfold ring_slice_mut_set, ring_try_as_slice, ring_slices, rcap in *.
    destruct (rhead r + rlen r <=? length (rbuf r)) eqn:E.
    - split; discriminate.
    - apply Nat.leb_gt in E. split; [intros _|reflexivity].
      destruct (seg 0 (rhead r + rlen r - length (rbuf r)) (rbuf r)) eqn:Es; [|reflexivity].
      exfalso. apply (f_equal (@length A)) in Es. rewrite seg_length in Es by lia. cbn in Es. lia.
  Qed.

  (* a write through the mutable slice at index k IS the write at logical index k *)
  Lemma ring_slice_mut_is_uset k v w : ring_slice_mut_set r k v = Some w -> w = ring_uset r k v.
  Proof.
    destruct Hwf as [Hl Hh]. unfold ring_slice_mut_set, ring_uset.
    destruct (rhead r + rlen r <=? rcap r) eqn:E; [|discriminate]. apply Nat.leb_le in E.
    intros H. injection H as <-. destruct (k <? rlen r) eqn:Ek; [|reflexivity]. apply Nat.ltb_lt in Ek.
    rewrite (Nat.mod_small (rhead r + k)) by lia. reflexivity.
  Qed.

  Lemma ring_slice_mut_to_list k v w : ring_slice_mut_set r k v = Some w ->
    option_map (@ring_to_list A) w = if k <? rlen r then Some (update (ring_to_list r) k v) else None.
  Proof. intros H. rewrite (ring_slice_mut_is_uset _ _ _ H). apply ring_uset_to_list. Qed.

  (* the slice has the whole length: every logical index can be written through it *)
  Lemma ring_slice_mut_total k v w : ring_slice_mut_set r k v = Some w -> k < rlen r -> w <> None.
  Proof.
    unfold ring_slice_mut_set. destruct (_ <=? _); [|discriminate]. intros H Hk. injection H as <-.
    replace (k <? rlen r) with true by (symmetry; apply Nat.ltb_lt; exact Hk). discriminate.
  Qed.
End RingMut.

(* ---- strided view ----------------------------------------------------------------------------------------------------- *)
Section StridedMut.
  Context {A : Type}.
  Variable s : strided A.
  Hypothesis Hwf : strided_wf s.
  (* a mutable view never aliases two logical positions (ndarray offers stride 0 only for immutable broadcasts) *)
  Hypothesis Hstep : (sstep s <> 0)%Z.

  Lemma strided_uset_wf i v s' : strided_uset s i v = Some s' -> strided_wf s'.
  Proof.
    unfold strided_uset. destruct (i <? slen s); [|discriminate]. intros H. injection H as <-.
    unfold strided_wf, spos in *. cbn [sbase soff sstep slen]. rewrite update_length. exact Hwf.
  Qed.

  Lemma strided_slot_inj i j : i < slen s -> j < slen s ->
    Z.to_nat (spos s i) = Z.to_nat (spos s j) -> i = j.
  Proof.
    intros Hi Hj H. pose proof (Hwf i Hi) as Bi. pose proof (Hwf j Hj) as Bj.
    assert (E : spos s i = spos s j) by lia. unfold spos in E.
    assert (E2 : ((Z.of_nat i - Z.of_nat j) * sstep s = 0)%Z) by lia.
    apply Z.mul_eq_0 in E2. destruct E2 as [E2|E2]; [lia|contradiction].
  Qed.

  Lemma strided_uset_to_list i v :
    option_map (@strided_to_list A) (strided_uset s i v)
    = if i <? slen s then Some (update (strided_to_list s) i v) else None.
  Proof.
    destruct (strided_uset s i v) as [s'|] eqn:E.
    - pose proof (strided_uset_wf _ _ _ E) as Hwf'.
      unfold strided_uset in E. destruct (i <? slen s) eqn:Ei; [|discriminate]. apply Nat.ltb_lt in Ei.
      cbn [option_map]. f_equal. apply nth_error_ext. intros j.
      rewrite (strided_to_list_nth _ Hwf'), nth_error_update, (strided_to_list_length _ Hwf), (strided_to_list_nth _ Hwf).
      injection E as <-. unfold strided_get, spos. cbn [sbase soff sstep slen]. fold (spos s j). fold (spos s i).
      replace (i <? slen s) with true by (symmetry; apply Nat.ltb_lt; exact Ei). rewrite Bool.andb_true_r.
      destruct (j <? slen s) eqn:Ej.
      + apply Nat.ltb_lt in Ej. rewrite nth_error_update.
        pose proof (Hwf i Ei) as Bi.
        replace (Z.to_nat (spos s i) <? length (sbase s)) with true by (symmetry; apply Nat.ltb_lt; lia).
        rewrite Bool.andb_true_r.
        destruct (j =? i) eqn:Eji.
        * apply Nat.eqb_eq in Eji. subst j. rewrite Nat.eqb_refl. reflexivity.
        * apply Nat.eqb_neq in Eji.
          replace (Z.to_nat (spos s j) =? Z.to_nat (spos s i)) with false; [reflexivity|].
          symmetry. apply Nat.eqb_neq. intros Hs. apply Eji. apply strided_slot_inj; assumption.
      + apply Nat.ltb_ge in Ej. replace (j =? i) with false by (symmetry; apply Nat.eqb_neq; lia). reflexivity.
    - unfold strided_uset in E. destruct (i <? slen s); [discriminate|]. reflexivity.
  Qed.

  Lemma strided_checked_set_to_list i v :
    option_map (@strided_to_list A) (checked_set (slen s) (strided_uset s) i v)
    = if i <? slen s then Some (update (strided_to_list s) i v) else None.
  Proof.
    unfold checked_set. destruct (i <? slen s) eqn:E; [|reflexivity]. rewrite strided_uset_to_list, E. reflexivity.
  Qed.

  Lemma strided_slice_mut_offered k v :
    strided_slice_mut_set s k v = None <-> strided_try_as_slice s = None.
  Proof.
    unfold strided_slice_mut_set, strided_try_as_slice. destruct (orb _ _); split; intros H; try discriminate; reflexivity.
  Qed.

  (* a write through the mutable slice at index k IS the write at logical index k — for every stride for which
     the slice is offered; in particular a reversed view offers none *)
  Lemma strided_slice_mut_is_uset k v w : strided_slice_mut_set s k v = Some w -> w = strided_uset s k v.
  Proof.
    clear Hwf Hstep.
    unfold strided_slice_mut_set, strided_uset. destruct (orb _ _) eqn:E; [|discriminate].
    intros H. injection H as <-. destruct (k <? slen s) eqn:Ek; [|reflexivity]. apply Nat.ltb_lt in Ek.
    f_equal. f_equal. f_equal.
    apply Bool.orb_true_iff in E. destruct E as [E|E].
    - apply Z.eqb_eq in E. unfold spos. rewrite E. lia.
    - apply Nat.leb_le in E. assert (k = 0) by lia. subst k. unfold spos. lia.
  Qed.

  Lemma strided_slice_mut_to_list k v w : strided_slice_mut_set s k v = Some w ->
    option_map (@strided_to_list A) w = if k <? slen s then Some (update (strided_to_list s) k v) else None.
  Proof. intros H. rewrite (strided_slice_mut_is_uset _ _ _ H). apply strided_uset_to_list. Qed.

  Lemma strided_reversed_no_slice_mut k v : (sstep s < 0)%Z -> 2 <= slen s -> strided_slice_mut_set s k v = None.
  Proof.
    clear Hwf Hstep. intros Hneg Hl. unfold strided_slice_mut_set.
    replace (sstep s =? 1)%Z with false by (symmetry; apply Z.eqb_neq; lia).
    replace (slen s <=? 1) with false by (symmetry; apply Nat.leb_gt; lia). reflexivity.
  Qed.
End StridedMut.

(* the defect class that was NOT present: a memory-order mutable slice would write the wrong logical element *)
Lemma strided_memory_order_mut_refuted :
  exists (s : strided nat) w, strided_wf s /\ (sstep s <> 0)%Z /\
    strided_memory_order_mut_set s 0 9 = Some (Some w) /\
    strided_to_list s = [4; 3; 2; 1] /\ strided_to_list w = [4; 3; 2; 9] /\
    update (strided_to_list s) 0 9 = [9; 3; 2; 1].
Proof.
  exists {| sbase := [1; 2; 3; 4]; soff := 3; sstep := (-1)%Z; slen := 4 |}.
  eexists. split; [|split; [cbn; lia|split; [reflexivity|repeat split]]].
  intros i Hi. unfold spos. cbn [soff sstep sbase slen length] in *. lia.
Qed.

(* ---- get after set: the lens laws, for any container whose to_list/get/set satisfy the two characterisations ------------ *)
Lemma get_update_same {A} (l : list A) i v : i < length l -> nth_error (update l i v) i = Some v.
Proof.
  intros H. rewrite nth_error_update, Nat.eqb_refl.
  replace (i <? length l) with true by (symmetry; apply Nat.ltb_lt; exact H). reflexivity.
Qed.
Lemma get_update_other {A} (l : list A) i j v : j <> i -> nth_error (update l i v) j = nth_error l j.
Proof.
  intros H. rewrite nth_error_update. replace (j =? i) with false by (symmetry; apply Nat.eqb_neq; exact H). reflexivity.
Qed.

Lemma ring_get_uset {A} (r r' : ring A) i v j : ring_wf r -> ring_uset r i v = Some r' ->
  ring_get r' j = if j =? i then Some v else ring_get r j.
Proof.
  intros Hwf E. pose proof (ring_uset_wf _ Hwf _ _ _ E) as Hwf'.
  pose proof (ring_uset_to_list _ Hwf i v) as H. rewrite E in H. cbn [option_map] in H.
  assert (Ei : i <? rlen r = true) by (unfold ring_uset in E; destruct (i <? rlen r); [reflexivity|discriminate]).
  rewrite Ei in H. injection H as H.
  rewrite <- (ring_get_to_list _ Hwf'), H, nth_error_update, (ring_to_list_length _ Hwf), Ei, Bool.andb_true_r,
    (ring_get_to_list _ Hwf). reflexivity.
Qed.

Lemma strided_get_uset {A} (s s' : strided A) i v j : strided_wf s -> (sstep s <> 0)%Z -> strided_uset s i v = Some s' ->
  strided_get s' j = if j =? i then Some v else strided_get s j.
Proof.
  intros Hwf Hst E. pose proof (strided_uset_wf _ Hwf _ _ _ E) as Hwf'.
  pose proof (strided_uset_to_list _ Hwf Hst i v) as H. rewrite E in H. cbn [option_map] in H.
  assert (Ei : i <? slen s = true) by (unfold strided_uset in E; destruct (i <? slen s); [reflexivity|discriminate]).
  rewrite Ei in H. injection H as H.
  rewrite <- (strided_to_list_nth _ Hwf'), H, nth_error_update, (strided_to_list_length _ Hwf), Ei, Bool.andb_true_r,
    (strided_to_list_nth _ Hwf). reflexivity.
Qed.

(* the slice view after a write is the updated slice view (layout is not disturbed by a write) *)
Lemma ring_try_as_slice_uset {A} (r r' : ring A) i v : ring_wf r -> ring_uset r i v = Some r' ->
  ring_try_as_slice r' = option_map (fun l => update l i v) (ring_try_as_slice r).
Proof.
  intros Hwf E. pose proof (ring_uset_wf _ Hwf _ _ _ E) as Hwf'. pose proof (ring_uset_layout _ _ _ _ E) as (Hh & Hl & Hc).
  pose proof (ring_uset_to_list _ Hwf i v) as H. rewrite E in H. cbn [option_map] in H.
  assert (Ei : i <? rlen r = true) by (unfold ring_uset in E; destruct (i <? rlen r); [reflexivity|discriminate]).
  rewrite Ei in H. injection H as H.
  destruct (ring_try_as_slice r) as [l|] eqn:E1, (ring_try_as_slice r') as [l'|] eqn:E2; cbn [option_map].
  - rewrite (ring_try_as_slice_sound _ Hwf' _ E2), (ring_try_as_slice_sound _ Hwf _ E1), H. reflexivity.
  - exfalso. apply (ring_slice_mut_offered _ Hwf' 0 v) in E2. unfold ring_slice_mut_set in E2. rewrite Hh, Hl, Hc in E2.
    assert (E3 : ring_slice_mut_set r 0 v = None) by (unfold ring_slice_mut_set; destruct (_ <=? _); [discriminate|reflexivity]).
    apply (ring_slice_mut_offered _ Hwf) in E3. congruence.
  - exfalso. apply (ring_slice_mut_offered _ Hwf 0 v) in E1. unfold ring_slice_mut_set in E1. rewrite <- Hh, <- Hl, <- Hc in E1.
    assert (E3 : ring_slice_mut_set r' 0 v = None) by (unfold ring_slice_mut_set; destruct (_ <=? _); [discriminate|reflexivity]).
    apply (ring_slice_mut_offered _ Hwf') in E3. congruence.
  - reflexivity.
Qed.

(* ---- valid get (vget / uvget) and the element-wise iterators ------------------------------------------------------------- *)
Lemma valid_get_spec {T I} (to_opt : T -> option I) (l : list T) i :
  valid_get to_opt (length l) (nth_error l) i = match nth_error l i with Some x => to_opt x | None => None end.
Proof.
  unfold valid_get, uvalid_get. destruct (i <? length l) eqn:E; [reflexivity|].
  apply Nat.ltb_ge in E. apply nth_error_None in E. rewrite E. reflexivity.
Qed.

Lemma uvalid_get_spec {T I} (to_opt : T -> option I) (l : list T) i :
  i < length l -> uvalid_get to_opt (nth_error l) i = valid_get to_opt (length l) (nth_error l) i.
Proof. intros H. unfold valid_get. replace (i <? length l) with true by (symmetry; apply Nat.ltb_lt; exact H). reflexivity. Qed.

Lemma ring_valid_get {T I} (to_opt : T -> option I) (r : ring T) i : ring_wf r ->
  valid_get to_opt (rlen r) (ring_get r) i
  = match nth_error (ring_to_list r) i with Some x => to_opt x | None => None end.
Proof.
  intros Hwf. rewrite (ring_get_to_list _ Hwf). unfold valid_get, uvalid_get, ring_get.
  destruct (i <? rlen r); reflexivity.
Qed.

Lemma strided_valid_get {T I} (to_opt : T -> option I) (s : strided T) i : strided_wf s ->
  valid_get to_opt (slen s) (strided_get s) i
  = match nth_error (strided_to_list s) i with Some x => to_opt x | None => None end.
Proof.
  intros Hwf. rewrite (strided_to_list_nth _ Hwf). unfold valid_get, uvalid_get, strided_get.
  destruct (i <? slen s); reflexivity.
Qed.

Lemma chunked_valid_get {T I} (to_opt : option T -> option I) (c : chunked T) i :
  valid_get to_opt (chunked_len c) (chunked_get c) i
  = match nth_error (chunked_to_list c) i with Some x => to_opt x | None => None end.
Proof.
  rewrite chunked_len_spec. unfold valid_get, uvalid_get. rewrite chunked_get_spec.
  destruct (i <? length (chunked_to_list c)) eqn:E; [reflexivity|].
  apply Nat.ltb_ge in E. apply nth_error_None in E. rewrite E. reflexivity.
Qed.

(* position i of to_opt_iter is vget(i) *)
Lemma to_opt_iter_nth {T I} (to_opt : T -> option I) (l : list T) i :
  nth_error (to_opt_iter_m to_opt l) i
  = if i <? length l then Some (valid_get to_opt (length l) (nth_error l) i) else None.
Proof.
  unfold to_opt_iter_m. rewrite nth_error_map, valid_get_spec.
  destruct (i <? length l) eqn:E.
  - apply Nat.ltb_lt in E. destruct (nth_error l i) eqn:En; [reflexivity|]. apply nth_error_None in En. lia.
  - apply Nat.ltb_ge in E. apply nth_error_None in E. rewrite E. reflexivity.
Qed.

Lemma iter_cast_nth {T U} (cast : T -> U) (l : list T) i :
  nth_error (iter_cast_m cast l) i = option_map cast (nth_error l i).
Proof. apply nth_error_map. Qed.

Lemma opt_iter_cast_spec {T I U} (to_opt : T -> option I) (cast : I -> U) (l : list T) :
  opt_iter_cast_m to_opt cast l = map (option_map cast) (to_opt_iter_m to_opt l).
Proof. unfold opt_iter_cast_m, to_opt_iter_m. rewrite map_map. reflexivity. Qed.

Lemma opt_iter_cast_nth {T I U} (to_opt : T -> option I) (cast : I -> U) (l : list T) i :
  nth_error (opt_iter_cast_m to_opt cast l) i
  = if i <? length l then Some (option_map cast (valid_get to_opt (length l) (nth_error l) i)) else None.
Proof.
  rewrite opt_iter_cast_spec, nth_error_map, to_opt_iter_nth. destruct (i <? length l); reflexivity.
Qed.

Lemma elementwise_lengths {T I U V} (to_opt : T -> option I) (cast : T -> U) (cast' : I -> V) (l : list T) :
  length (to_opt_iter_m to_opt l) = length l /\ length (iter_cast_m cast l) = length l
  /\ length (opt_iter_cast_m to_opt cast' l) = length l.
Proof. unfold to_opt_iter_m, iter_cast_m, opt_iter_cast_m. rewrite !map_length. auto. Qed.

(* a write is seen by the valid-get: vget after set *)
Lemma valid_get_update {T I} (to_opt : T -> option I) (l : list T) i v j : i < length l ->
  valid_get to_opt (length (update l i v)) (nth_error (update l i v)) j
  = if j =? i then to_opt v else valid_get to_opt (length l) (nth_error l) j.
Proof.
  intros Hi. rewrite !valid_get_spec, nth_error_update.
  replace (i <? length l) with true by (symmetry; apply Nat.ltb_lt; exact Hi). rewrite Bool.andb_true_r.
  destruct (j =? i); reflexivity.
Qed.
