(* Proofs/Audit03.v — clause-by-clause audit of C03 (notes/C03.md, "Audit matrix"): what the existing theorems left open.
   Part 1 (any carrier, axiom-free): the seven entry points TOTALLY (window 0, the empty series — the hypotheses `1 <= w`,
           `1 <= length xs` of Props/C03.v are exactly what is not rejected / not trivial), windows beyond the length,
           omitted min_periods = (min len w)/2, min_periods above the clamped window, what glast_pos / last_pos mean
           (ties: the MOST RECENT position), the average rank lies in [1, n].
   Part 2 (option R): ts_vminmaxnorm — the cached indices are the LAST positions of the extremes, hence the
           both-expired arm of the lazy re-search (norm.rs:140-155) only ever scans windows without a valid element: its
           loop body (norm.rs:146-151, never reached by the correspondence run) is dead code.                         *)
From Coq Require Import ZArith List Lia Bool Reals Lra.
From Tevec Require Import Base.Prelude Base.Num Base.XR Spec.Stats Model.Driver Proofs.Driver Model.Features Model.Cmp
     Model.Norm Spec.Extrema Spec.ExtremaOrd Proofs.IdxRun Proofs.Cmp Proofs.CmpOrd Proofs.RollRank Proofs.RollRankOrd
     Proofs.CmpOrdInst Proofs.Norm Proofs.MinMax.
Import ListNotations.

(* ================================================================================================= *)
(* Part 1 — any carrier                                                                               *)
(* ================================================================================================= *)
Lemma seal_done_nil {O} : seal (Done (@nil (res O))) = Done [].
Proof. reflexivity. Qed.

(* the window-index runner, totally at the two rejected / trivial inputs *)
Lemma idx_run_empty {T St O} body w (cb : St -> option nat * nat * T -> res (St * O)) s0 :
  idx_run body w cb s0 [] = Done [].
Proof.
  unfold idx_run. destruct body; [rewrite empty_idx_to|rewrite empty_idx_default]; reflexivity.
Qed.
Lemma idx_run_window0 {T St O} body (cb : St -> option nat * nat * T -> res (St * O)) s0 (xs : list T) :
  xs <> [] -> idx_run body 0 cb s0 xs = Panicked AssertFail.
Proof.
  intros Hx. unfold idx_run.
  assert (Hb : bad_window 0 xs = true) by (apply bad_window_true_iff; split; [reflexivity|exact Hx]).
  destruct body; [rewrite rolling_apply_idx_to_total|rewrite rolling_apply_idx_default_total]; rewrite Hb; reflexivity.
Qed.

Section AnyCarrier.
  Context {A : Type} {NA : Num A} {T : Type} {DT : IsNone T A}.

  Lemma cmp_window_nil w : cmp_window w (@nil T) = 0.
  Proof. reflexivity. Qed.
  Lemma cmp_window_0 (xs : list T) : cmp_window 0 xs = 0.
  Proof. unfold cmp_window. apply Nat.min_0_r. Qed.

  (* (1) the five cmp.rs entry points: empty series -> empty result (both bodies, every window, 0 included: the clamped
     window is 0 and `assert!(window > 0 || len == 0)` passes); window 0 on a non-empty series -> the assertion fails *)
  Theorem cmp_family_empty (scmp : option A -> option A -> comparison) body w mp :
    ts_vext scmp body w mp (@nil T) = Done [] /\ ts_varg scmp body w mp (@nil T) = Done [].
  Proof. unfold ts_vext, ts_varg. cbv zeta. rewrite cmp_window_nil. split; apply idx_run_empty. Qed.
  Theorem cmp_family_window0 (scmp : option A -> option A -> comparison) body mp (xs : list T) :
    xs <> [] ->
    ts_vext scmp body 0 mp xs = Panicked AssertFail /\ ts_varg scmp body 0 mp xs = Panicked AssertFail.
  Proof.
    intros Hx. unfold ts_vext, ts_varg. cbv zeta. rewrite cmp_window_0. split; apply idx_run_window0; exact Hx.
  Qed.

  Theorem vrank_empty {B} {NB : Num B} body w mp pct rev : ts_vrank (B := B) body w mp pct rev (@nil T) = Done [].
  Proof. unfold ts_vrank. cbv zeta. rewrite cmp_window_nil. apply idx_run_empty. Qed.
  Theorem vrank_window0 {B} {NB : Num B} body mp pct rev (xs : list T) :
    xs <> [] -> ts_vrank (B := B) body 0 mp pct rev xs = Panicked AssertFail.
  Proof. intros Hx. unfold ts_vrank. cbv zeta. rewrite cmp_window_0. apply idx_run_window0; exact Hx. Qed.

  (* ts_vminmaxnorm (window NOT clamped) *)
  Theorem minmaxnorm_empty (tmin tmax : A) body w mp : ts_vminmaxnorm tmin tmax body w mp (@nil T) = Done [].
  Proof. unfold ts_vminmaxnorm. apply idx_run_empty. Qed.
  Theorem minmaxnorm_window0 (tmin tmax : A) body mp (xs : list T) :
    xs <> [] -> ts_vminmaxnorm tmin tmax body 0 mp xs = Panicked AssertFail.
  Proof. intros Hx. unfold ts_vminmaxnorm. apply idx_run_window0; exact Hx. Qed.

  (* ts_vzscore (remove/add driver) *)
  Theorem zscore_total body (w : nat) mp (xs : list T) :
    ts_vzscore body w mp xs =
    if bad_window w xs then Panicked AssertFail
    else Done (run (feat_cb (ts_vzscore_f w mp)) zs0 (mapi (fun i v => (removed w xs i, v)) xs)).
  Proof.
    unfold ts_vzscore, ts_run. destruct body.
    - change (feat_cb (ts_vzscore_f w mp)) with (aer (f_pre (ts_vzscore_f w mp)) (f_emit (ts_vzscore_f w mp)) (f_post (ts_vzscore_f w mp))).
      rewrite rolling_apply_bodies_agree_total. apply rolling_apply_default_total.
    - apply rolling_apply_default_total.
  Qed.

  (* (2) a window at least as long as the series IS the series length for the cmp family (the clamp): the outcome does
     not depend on how much longer it is — for EVERY min_periods, omitted included *)
  Theorem cmp_family_window_clamped (scmp : option A -> option A -> comparison) body w mp (xs : list T) :
    length xs <= w ->
    ts_vext scmp body w mp xs = ts_vext scmp body (length xs) mp xs /\
    ts_varg scmp body w mp xs = ts_varg scmp body (length xs) mp xs.
  Proof.
    intros H. unfold ts_vext, ts_varg, cmp_window. cbv zeta.
    rewrite (Nat.min_l (length xs) w) by exact H. rewrite Nat.min_id. split; reflexivity.
  Qed.
  Theorem vrank_window_clamped {B} {NB : Num B} body w mp pct rev (xs : list T) :
    length xs <= w -> ts_vrank (B := B) body w mp pct rev xs = ts_vrank (B := B) body (length xs) mp pct rev xs.
  Proof.
    intros H. unfold ts_vrank, cmp_window. cbv zeta.
    rewrite (Nat.min_l (length xs) w) by exact H. rewrite Nat.min_id. reflexivity.
  Qed.

  (* (3) omitted min_periods IS Some ((min len w) / 2) (DESIGN 5.3): for len >= w that is w / 2, for len < w it is len / 2 *)
  Theorem cmp_family_default_min_periods (scmp : option A -> option A -> comparison) body w (xs : list T) :
    ts_vext scmp body w None xs = ts_vext scmp body w (Some (Nat.min (length xs) w / 2)) xs /\
    ts_varg scmp body w None xs = ts_varg scmp body w (Some (Nat.min (length xs) w / 2)) xs.
  Proof. split; reflexivity. Qed.
  Theorem vrank_default_min_periods {B} {NB : Num B} body w pct rev (xs : list T) :
    ts_vrank (B := B) body w None pct rev xs = ts_vrank (B := B) body w (Some (Nat.min (length xs) w / 2)) pct rev xs.
  Proof. reflexivity. Qed.
  Lemma cmp_mp_cases (mp : option nat) (w : nat) (xs : list T) :
    cmp_mp (Some 0) (cmp_window w xs) = 0 /\
    (w <= length xs -> cmp_mp None (cmp_window w xs) = w / 2) /\
    (length xs <= w -> cmp_mp None (cmp_window w xs) = length xs / 2) /\
    (forall m, cmp_mp (Some m) (cmp_window w xs) = m).
  Proof.
    unfold cmp_mp, cmp_window. split; [reflexivity|]. split; [intros H; rewrite Nat.min_r by exact H; reflexivity|].
    split; [intros H; rewrite Nat.min_l by exact H; reflexivity|reflexivity].
  Qed.
End AnyCarrier.

(* (4) min_periods above the clamped window (NOT clamped in this family, unlike features.rs / norm.rs): every output is
   null.  Any ordered carrier, any dictionary. *)
Lemma gvalid_length_le {A} (l : list (option A)) : length (gvalid l) <= length l.
Proof.
  induction l as [|a l IH]; [apply le_n|]. change (a :: l) with ([a] ++ l).
  rewrite gvalid_app, app_length. destruct a; cbn [gvalid flat_map app length]; lia.
Qed.
Lemma win_length_le {T} (w i : nat) (xs : list T) : 1 <= w -> i < length xs -> length (win w i xs) <= Nat.min (length xs) w.
Proof. intros Hw Hi. rewrite win_seg, seg_length by lia. unfold wstart. lia. Qed.

Section AboveWindow.
  Context {A : Type} {NA : Num A} (OL : OrdLaws A) {T : Type} {DT : IsNone T A}.

  Lemma all_none_of {O} (out : list (option O)) (n : nat) :
    length out = n -> (forall i, i < n -> nth_error out i = Some None) -> out = repeat None n.
  Proof.
    intros Hl H. apply nth_error_ext. intros i. rewrite nth_error_repeat. destruct (i <? n) eqn:E.
    - apply Nat.ltb_lt in E. apply H. exact E.
    - apply Nat.ltb_ge in E. apply nth_error_None. lia.
  Qed.

  Theorem min_periods_above_window_all_null body w m (xs : list T) :
    valid_not_nan xs -> 1 <= w -> 1 <= length xs -> cmp_window w xs < m ->
    ts_vmin body w (Some m) xs = Done (repeat None (length xs)) /\
    ts_vmax body w (Some m) xs = Done (repeat None (length xs)) /\
    ts_vargmin body w (Some m) xs = Done (repeat None (length xs)) /\
    ts_vargmax body w (Some m) xs = Done (repeat None (length xs)).
  Proof.
    intros Hv Hw Hl Hm.
    assert (Hc : forall i, i < length xs -> (m <=? length (gvalid (win w i (map to_opt xs)))) = false).
    { intros i Hi. apply Nat.leb_gt. pose proof (gvalid_length_le (win w i (map to_opt xs))).
      pose proof (win_length_le w i (map to_opt xs) Hw ltac:(rewrite map_length; exact Hi)) as H1.
      rewrite map_length in H1. unfold cmp_window in Hm. lia. }
    repeat split.
    - destruct (ts_vmin_ord OL body w (Some m) xs Hv Hw Hl) as (out & E & L & H). rewrite E. f_equal.
      apply all_none_of; [exact L|]. intros i Hi. rewrite (H i Hi). cbv zeta. cbn [cmp_mp]. rewrite Hc by exact Hi. reflexivity.
    - destruct (ts_vmax_ord OL body w (Some m) xs Hv Hw Hl) as (out & E & L & H). rewrite E. f_equal.
      apply all_none_of; [exact L|]. intros i Hi. rewrite (H i Hi). cbv zeta. cbn [cmp_mp]. rewrite Hc by exact Hi. reflexivity.
    - destruct (ts_vargmin_ord OL body w (Some m) xs Hv Hw Hl) as (out & E & L & H). rewrite E. f_equal.
      apply all_none_of; [exact L|]. intros i Hi. rewrite (H i Hi). cbv zeta. cbn [cmp_mp]. rewrite Hc by exact Hi. reflexivity.
    - destruct (ts_vargmax_ord OL body w (Some m) xs Hv Hw Hl) as (out & E & L & H). rewrite E. f_equal.
      apply all_none_of; [exact L|]. intros i Hi. rewrite (H i Hi). cbv zeta. cbn [cmp_mp]. rewrite Hc by exact Hi. reflexivity.
  Qed.
End AboveWindow.

(* (5) ties: what `glast_pos m W = Some o` says — position o holds a valid element equivalent to m and NO LATER position
   does (so the arg-extrema name the MOST RECENT position of the extreme).  Any carrier; at Z and option R equivalence is
   equality. *)
Section LastPos.
  Context {A : Type} {NA : Num A}.

  Lemma glast_pos_sound : forall (W : list (option A)) (m : A) (o : nat),
    glast_pos m W = Some o ->
    (exists x, nth_error W o = Some (Some x) /\ neqb x m = true) /\
    (forall j x, o < j -> nth_error W j = Some (Some x) -> neqb x m = false).
  Proof.
    induction W as [|a r IH]; intros m o H; [discriminate|]. cbn [glast_pos] in H.
    destruct (glast_pos m r) as [j0|] eqn:Er.
    - injection H as <-. destruct (IH m j0 Er) as ((x & Hx & Hxm) & Hlast). split.
      + exists x. split; assumption.
      + intros j x' Hj Hx'. destruct j as [|j]; [lia|]. cbn in Hx'. apply (Hlast j x'); [lia|exact Hx'].
    - assert (Habs : forall j x, nth_error r j = Some (Some x) -> neqb x m = false).
      { clear -Er. revert Er. induction r as [|b r IHr]; intros Er j x Hj; [destruct j; discriminate|].
        cbn [glast_pos] in Er. destruct (glast_pos m r) as [k|] eqn:Ek; [discriminate|].
        destruct j as [|j].
        - cbn in Hj. injection Hj as ->. destruct (neqb x m); [discriminate|reflexivity].
        - cbn in Hj. apply (IHr eq_refl j x Hj). }
      destruct a as [x|]; [|discriminate]. destruct (neqb x m) eqn:Exm; [|discriminate]. injection H as <-. split.
      + exists x. split; [reflexivity|exact Exm].
      + intros j x' Hj Hx'. destruct j as [|j]; [lia|]. cbn in Hx'. apply (Habs j x' Hx').
  Qed.
End LastPos.

Lemma last_pos_sound (W : list (option Z)) (m : Z) (o : nat) :
  last_pos m W = Some o ->
  nth_error W o = Some (Some m) /\ forall j, o < j -> nth_error W j <> Some (Some m).
Proof.
  intros H. rewrite <- glast_pos_Z in H. destruct (glast_pos_sound W m o H) as ((x & Hx & Hxm) & Hlast).
  cbn in Hxm. apply Z.eqb_eq in Hxm. subst x. split; [exact Hx|].
  intros j Hj Hc. specialize (Hlast j m Hj Hc). cbn in Hlast. rewrite Z.eqb_refl in Hlast. discriminate.
Qed.

(* the arg-maximum, like the arg-minimum of C03_argmin_spec_meaning *)
Lemma argmax_spec_meaning (W : list (option Z)) (o : nat) :
  argmax_spec W = Some o ->
  exists m, list_max (validZ W) = Some m /\ 1 <= o /\ last_pos m W = Some (o - 1).
Proof.
  intros H. unfold argmax_spec in H. destruct (list_max (validZ W)) as [m|]; [|discriminate].
  exists m. split; [reflexivity|]. destruct (last_pos m W) as [j|]; [|discriminate].
  cbn in H. injection H as <-. split; [apply le_n_S, Nat.le_0_l|]. cbn. rewrite Nat.sub_0_r. reflexivity.
Qed.
Lemma gargmax_spec_meaning {A} {NA : Num A} (W : list (option A)) (o : nat) :
  gargmax_spec W = Some o ->
  exists m, ExtremaOrd.gmax (gvalid W) = Some m /\ 1 <= o /\ glast_pos m W = Some (o - 1).
Proof.
  intros H. unfold gargmax_spec in H. destruct (ExtremaOrd.gmax (gvalid W)) as [m|]; [|discriminate].
  exists m. split; [reflexivity|]. destruct (glast_pos m W) as [j|]; [|discriminate].
  cbn in H. injection H as <-. split; [apply le_n_S, Nat.le_0_l|]. cbn. rewrite Nat.sub_0_r. reflexivity.
Qed.

(* the offset is inside the window: 1 <= o <= |W| *)
Lemma glast_pos_lt {A} {NA : Num A} (W : list (option A)) (m : A) (o : nat) : glast_pos m W = Some o -> o < length W.
Proof.
  intros H. destruct (glast_pos_sound W m o H) as ((x & Hx & _) & _). apply nth_error_Some. congruence.
Qed.
Lemma garg_offsets_in_window {A} {NA : Num A} (W : list (option A)) (o : nat) :
  (gargmin_spec W = Some o \/ gargmax_spec W = Some o) -> 1 <= o <= length W.
Proof.
  intros [H|H].
  - unfold gargmin_spec in H. destruct (ExtremaOrd.gmin (gvalid W)) as [m|]; [|discriminate].
    destruct (glast_pos m W) as [j|] eqn:E; [|discriminate]. cbn in H. injection H as <-.
    apply glast_pos_lt in E. lia.
  - unfold gargmax_spec in H. destruct (ExtremaOrd.gmax (gvalid W)) as [m|]; [|discriminate].
    destruct (glast_pos m W) as [j|] eqn:E; [|discriminate]. cbn in H. injection H as <-.
    apply glast_pos_lt in E. lia.
Qed.

(* ================================================================================================= *)
(* Part 2 — ts_vminmaxnorm: the both-expired arm of the lazy re-search                                 *)
(* ================================================================================================= *)
(* two callbacks that agree on every state the run can reach give the same call *)
Section RunAgree.
  Context {T St O : Type}.
  Variables cb cb' : St -> option nat * nat * T -> res (St * O).
  Variable xs : list T.
  Variable Pre : nat -> St -> Prop.

  Lemma run_lift_agree (sf : nat -> option nat) :
    (forall k v s, nth_error xs k = Some v -> Pre k s ->
       exists s' o, cb s (sf k, k, v) = Ok (s', o) /\ Pre (S k) s' /\ cb' s (sf k, k, v) = Ok (s', o)) ->
    forall l k s, skipn k xs = l -> Pre k s ->
      run (lift_cb cb) (Ok s) (map (fun p => (sf (fst p), fst p, snd p)) (combine (seq k (length l)) l))
      = run (lift_cb cb') (Ok s) (map (fun p => (sf (fst p), fst p, snd p)) (combine (seq k (length l)) l)).
  Proof.
    intros step. induction l as [|v l IH]; intros k s Hl HP; [reflexivity|].
    destruct (@skipn_cons_nth T k xs v l Hl) as [Hv Hl'].
    destruct (step k v s Hv HP) as (s' & o & Hcb & HP' & Hcb').
    cbn [length seq combine map run fst snd lift_cb]. rewrite Hcb, Hcb'. f_equal. apply IH; assumption.
  Qed.

  Lemma idx_run_agree body w s0 :
    Pre 0 s0 ->
    (forall k v s, nth_error xs k = Some v -> Pre k s ->
       exists s' o, cb s (start_of (eff_window body w (length xs)) k, k, v) = Ok (s', o) /\ Pre (S k) s' /\
                    cb' s (start_of (eff_window body w (length xs)) k, k, v) = Ok (s', o)) ->
    idx_run body w cb s0 xs = idx_run body w cb' s0 xs.
  Proof.
    intros H0 step. unfold idx_run.
    destruct (bad_window_cases w xs) as [(Hb & _)|(Hb & [Hw| ->])].
    - destruct body; rewrite ?rolling_apply_idx_to_total, ?rolling_apply_idx_default_total, Hb; reflexivity.
    - pose proof (run_lift_agree (start_of (eff_window body w (length xs))) step xs 0 s0 eq_refl H0) as Hrun.
      destruct body; cbn [eff_window] in Hrun.
      + rewrite !rolling_apply_idx_to_eq by exact Hw. unfold args_to_idx, mapi. rewrite Hrun. reflexivity.
      + rewrite !rolling_apply_idx_default_eq by exact Hw. unfold mapi. rewrite Hrun. reflexivity.
    - destruct body; rewrite ?empty_idx_to, ?empty_idx_default; reflexivity.
  Qed.
End RunAgree.

(* ---- "the cached index is the LAST position of the cached extreme", one direction -------------------- *)
Section DirLast.
  Variable xs : list XR.
  Variable geb : XR -> XR -> bool.

  (* no valid element after mi inside [a, b) would replace the cached value *)
  Definition LastB (a b : nat) (m : XR) (mi : nat) : Prop :=
    forall j x, a <= j < b -> mi < j -> xv xs j = Some x -> geb m (Some x) = false.

  Lemma LastB_shrink a0 a b m mi : LastB a0 b m mi -> a0 <= a -> LastB a b m mi.
  Proof. intros H Ha j x Hj Hm Hx. apply (H j x); [lia|exact Hm|exact Hx]. Qed.
  Lemma LastB_empty a m mi : LastB a a m mi.
  Proof. intros j x Hj. lia. Qed.

  Lemma upd_last a i m mi v :
    LastB a i m mi -> nth_error xs i = Some v ->
    LastB a (S i) (fst (upd geb m mi i v)) (snd (upd geb m mi i v)).
  Proof.
    intros HL Hv. pose proof (xv_nth xs i v Hv) as Hxi. unfold upd.
    destruct v as [x|]; cbn [not_none is_none IsNoneXR IsNone_float nisnan NumXR xisnan negb unwrap].
    - destruct (geb m (Some x)) eqn:E; cbn [fst snd].
      + intros j y Hj Hm. lia.
      + intros j y Hj Hm Hy. destruct (Nat.eq_dec j i) as [->|Hne].
        * rewrite Hxi in Hy. injection Hy as <-. exact E.
        * apply (HL j y); [lia|exact Hm|exact Hy].
    - cbn [fst snd]. intros j y Hj Hm Hy. destruct (Nat.eq_dec j i) as [->|Hne].
      + rewrite Hxi in Hy. discriminate.
      + apply (HL j y); [lia|exact Hm|exact Hy].
  Qed.

  Lemma scan_gen_last : forall cnt i m mi a m' mi',
    LastB a i m mi -> i + cnt <= length xs ->
    scan_gen xs geb i cnt m mi = Ok (m', mi') -> LastB a (i + cnt) m' mi'.
  Proof.
    induction cnt as [|cnt IH]; intros i m mi a m' mi' HL Hlen H.
    - cbn in H. injection H as <- <-. rewrite Nat.add_0_r. exact HL.
    - destruct (nth_error_Some_lt xs i) as [v Hv]; [lia|].
      rewrite (scan_gen_step xs geb i cnt m mi v Hv) in H.
      replace (i + S cnt) with (S i + cnt) by lia.
      eapply IH; [apply upd_last; eassumption|lia|exact H].
  Qed.

  (* a scan over positions that hold no valid element changes nothing *)
  Lemma scan_gen_all_null : forall cnt i m mi,
    i + cnt <= length xs -> (forall j, i <= j < i + cnt -> xv xs j = None) ->
    scan_gen xs geb i cnt m mi = Ok (m, mi).
  Proof.
    induction cnt as [|cnt IH]; intros i m mi Hlen Hn; [reflexivity|].
    destruct (nth_error_Some_lt xs i) as [v Hv]; [lia|].
    rewrite (scan_gen_step xs geb i cnt m mi v Hv).
    assert (v = None) by (rewrite <- (xv_nth xs i v Hv); apply Hn; lia). subst v.
    cbn [upd not_none is_none IsNoneXR IsNone_float nisnan NumXR xisnan negb fst snd].
    apply IH; [lia|]. intros j Hj. apply Hn. lia.
  Qed.
End DirLast.

Section MMDead.
  Variables lo hi : R.
  Variable xs : list XR.
  Hypothesis Hb : forall r, In (Some r) xs -> (lo <= r <= hi)%R.
  Variable wd : nat.
  Hypothesis Hwd : 1 <= wd.
  Variable mp : nat.

  Let tmin : XR := Some lo.
  Let tmax : XR := Some hi.

  (* the model with the loop body of the both-expired arm removed: `(max, min) = (min_(), max_())`, indices untouched *)
  Definition mm_research_nd (s : @mm XR) (start : option nat) (e : nat) : res (@mm XR) :=
    match start with
    | None => Ok s
    | Some st =>
        match mm_maxi s <? st, mm_mini s <? st with
        | true, true =>
            Ok {| mm_max := tmin; mm_maxi := mm_maxi s; mm_min := tmax; mm_mini := mm_mini s; mm_n := mm_n s |}
        | _, _ => mm_research tmin tmax xs s start e
        end
    end.

  Definition LastMM (k : nat) (s : @mm XR) : Prop :=
    LastB xs gmax (wstart wd (k - 1)) k (mm_max s) (mm_maxi s) /\
    LastB xs gmin (wstart wd (k - 1)) k (mm_min s) (mm_mini s).

  (* the re-search, one direction at a time *)
  Definition research_dir (geb : XR -> XR -> bool) (sent : XR) (st e : nat) (m : XR) (mi : nat) : res (XR * nat) :=
    if mi <? st then scan_gen xs geb st (e - st) sent mi else Ok (m, mi).

  Lemma mm_research_dirs (s : @mm XR) st e :
    mm_research tmin tmax xs s (Some st) e =
    do r1 <- research_dir gmax tmin st e (mm_max s) (mm_maxi s);
    do r2 <- research_dir gmin tmax st e (mm_min s) (mm_mini s);
    Ok {| mm_max := fst r1; mm_maxi := snd r1; mm_min := fst r2; mm_mini := snd r2; mm_n := mm_n s |}.
  Proof.
    unfold mm_research, research_dir. destruct (mm_maxi s <? st), (mm_mini s <? st).
    - rewrite scan_both_split. destruct (scan_gen xs gmax st (e - st) tmin (mm_maxi s)) as [r1|]; [|reflexivity].
      cbn [bind]. destruct (scan_gen xs gmin st (e - st) tmax (mm_mini s)) as [r2|]; reflexivity.
    - rewrite scan_max_gen. destruct (scan_gen xs gmax st (e - st) tmin (mm_maxi s)) as [r1|]; reflexivity.
    - rewrite scan_min_gen. cbn [bind fst snd].
      destruct (scan_gen xs gmin st (e - st) tmax (mm_mini s)) as [r2|]; reflexivity.
    - cbn [bind fst snd]. destruct s; reflexivity.
  Qed.

  Lemma research_dir_last geb sent a0 a e m mi m' mi' :
    LastB xs geb a0 e m mi -> a0 <= a <= e -> e <= length xs ->
    research_dir geb sent a e m mi = Ok (m', mi') -> LastB xs geb a e m' mi'.
  Proof.
    intros HL Ha He. unfold research_dir. destruct (mi <? a).
    - intros H. replace e with (a + (e - a)) by lia.
      apply (scan_gen_last xs geb (e - a) a sent mi a m' mi'); [apply LastB_empty|lia|exact H].
    - intros H. injection H as <- <-. apply (LastB_shrink xs geb a0); [exact HL|lia].
  Qed.

  (* the fields of the state after one call of the closure *)
  Lemma mmnorm_cb_fields (s : @mm XR) start k v s' o :
    mmnorm_cb tmin tmax mp xs s (start, k, v) = Ok (s', o) ->
    exists s1, mm_research tmin tmax xs s start k = Ok s1 /\
      (mm_max s', mm_maxi s') = upd gmax (mm_max s1) (mm_maxi s1) k v /\
      (mm_min s', mm_mini s') = upd gmin (mm_min s1) (mm_mini s1) k v.
  Proof.
    unfold mmnorm_cb. destruct (mm_research tmin tmax xs s start k) as [s1|]; [|discriminate].
    cbn [bind]. intros H. exists s1. split; [reflexivity|]. unfold upd, gmax, gmin.
    destruct (not_none v).
    - destruct (nleb (mm_max s1) (unwrap v)), (nleb (unwrap v) (mm_min s1));
        (destruct start as [st|]; [destruct (uget xs st) as [v0|]; [|discriminate]; cbn [bind] in H;
           destruct (not_none v0); [cbn [mm_n] in H; match type of H with context [usub ?a ?b] => destruct (usub a b) end;
                                    [|discriminate]|]|];
         cbn [bind] in H; injection H as <- _; split; reflexivity).
    - destruct start as [st|]; [destruct (uget xs st) as [v0|]; [|discriminate]; cbn [bind] in H;
           destruct (not_none v0); [match type of H with context [usub ?a ?b] => destruct (usub a b) end;
                                    [|discriminate]|]|];
         cbn [bind] in H; injection H as <- _; split; reflexivity.
  Qed.

  Lemma mmnorm_cb_last k v s s' o :
    nth_error xs k = Some v -> LastMM k s ->
    mmnorm_cb tmin tmax mp xs s (start_of wd k, k, v) = Ok (s', o) -> LastMM (S k) s'.
  Proof.
    intros Hv (HLM & HLm) H.
    assert (Hk : k < length xs) by (apply nth_error_Some; congruence).
    destruct (mmnorm_cb_fields s _ k v s' o H) as (s1 & Hs1 & HM & Hm).
    assert (Hmono : wstart wd (k - 1) <= wstart wd k <= k) by (unfold wstart; lia).
    (* after the re-search both pairs are "last" on [wstart wd k, k) *)
    assert (H1 : LastB xs gmax (wstart wd k) k (mm_max s1) (mm_maxi s1) /\
                 LastB xs gmin (wstart wd k) k (mm_min s1) (mm_mini s1)).
    { rewrite (start_of_wstart wd Hwd) in Hs1. destruct (k <? wd - 1) eqn:Ew.
      - cbn [mm_research] in Hs1. injection Hs1 as <-.
        apply Nat.ltb_lt in Ew. replace (wstart wd k) with (wstart wd (k - 1)) by (unfold wstart; lia).
        split; assumption.
      - rewrite mm_research_dirs in Hs1.
        destruct (research_dir gmax tmin (wstart wd k) k (mm_max s) (mm_maxi s)) as [[m1 i1]|] eqn:E1; [|discriminate].
        cbn [bind] in Hs1.
        destruct (research_dir gmin tmax (wstart wd k) k (mm_min s) (mm_mini s)) as [[m2 i2]|] eqn:E2; [|discriminate].
        cbn [bind fst snd] in Hs1. injection Hs1 as <-. cbn [mm_max mm_maxi mm_min mm_mini]. split.
        + apply (research_dir_last gmax tmin (wstart wd (k - 1)) (wstart wd k) k _ _ _ _ HLM); [lia|lia|exact E1].
        + apply (research_dir_last gmin tmax (wstart wd (k - 1)) (wstart wd k) k _ _ _ _ HLm); [lia|lia|exact E2]. }
    destruct H1 as (H1M & H1m). unfold LastMM. cbn [Nat.sub]. rewrite Nat.sub_0_r.
    pose proof (upd_last xs gmax (wstart wd k) k _ _ v H1M Hv) as HM'. rewrite <- HM in HM'.
    pose proof (upd_last xs gmin (wstart wd k) k _ _ v H1m Hv) as Hm'. rewrite <- Hm in Hm'.
    split; assumption.
  Qed.

  (* DEAD ARM: when both cached indices have expired, the positions the arm would scan hold no valid element *)
  Lemma both_expired_window_is_null k (s : @mm XR) a :
    k <= length xs -> PreMM lo hi xs wd k s -> LastMM k s ->
    start_of wd k = Some a -> mm_maxi s < a -> mm_mini s < a ->
    forall j, a <= j < k -> xv xs j = None.
  Proof.
    intros Hk (_ & HOM & HOm) (HLM & HLm) Hst HeM Hem j Hj.
    rewrite (start_of_wstart wd Hwd) in Hst. destruct (k <? wd - 1) eqn:Ew; [discriminate|].
    injection Hst as <-. apply Nat.ltb_ge in Ew.
    set (a0 := wstart wd (k - 1)) in *.
    assert (Ha : a0 <= wstart wd k <= a0 + 1) by (unfold a0, wstart; lia).
    destruct (xv xs j) as [r'|] eqn:Exj; [exfalso|reflexivity].
    destruct HOM as [(r & EM & HiM & HxM & HubM)|(_ & HnM)]; [|rewrite HnM in Exj by lia; discriminate].
    destruct HOm as [(q & Em & Him & Hxm & Hlbm)|(_ & Hnm)]; [|rewrite Hnm in Exj by lia; discriminate].
    assert (mm_maxi s = a0) by lia. assert (mm_mini s = a0) by lia.
    assert (r = q) by congruence. subst q.
    pose proof (HLM j r' ltac:(lia) ltac:(lia) Exj) as F1. rewrite EM in F1.
    pose proof (HLm j r' ltac:(lia) ltac:(lia) Exj) as F2. rewrite Em in F2.
    assert (G1 : ~ (r <= r')%R) by (intros C; apply gmax_le in C; congruence).
    assert (G2 : ~ (r' <= r)%R) by (intros C; apply gmin_le in C; congruence).
    lra.
  Qed.

  (* the closure with the reduced re-search (verbatim copy of Model/Norm.v: mmnorm_cb otherwise) *)
  Definition mmnorm_cb_nd (s : @mm XR) (a : option nat * nat * XR) : res (@mm XR * XR) :=
    let '(start, e, v) := a in
    do s1 <- mm_research_nd s start e;
    let '(s2, out) :=
      if not_none v then
        let x := unwrap v in
        let n := S (mm_n s1) in
        let '(mx, mxi) := if nleb (mm_max s1) x then (x, e) else (mm_max s1, mm_maxi s1) in
        let '(mn, mni) := if nleb x (mm_min s1) then (x, e) else (mm_min s1, mm_mini s1) in
        ({| mm_max := mx; mm_maxi := mxi; mm_min := mn; mm_mini := mni; mm_n := n |},
         if (mp <=? n) && negb (neqb mx mn) then ndiv (nsub x mn) (nsub mx mn) else nnan)
      else (s1, nnan) in
    do s3 <- (match start with
              | None => Ok s2
              | Some st =>
                  do v0 <- uget xs st;
                  if not_none v0 then
                    do n' <- usub (mm_n s2) 1;
                    Ok {| mm_max := mm_max s2; mm_maxi := mm_maxi s2; mm_min := mm_min s2;
                          mm_mini := mm_mini s2; mm_n := n' |}
                  else Ok s2
              end);
    Ok (s3, out).

  Lemma mmnorm_cb_nd_eq s start e v :
    mm_research tmin tmax xs s start e = mm_research_nd s start e ->
    mmnorm_cb tmin tmax mp xs s (start, e, v) = mmnorm_cb_nd s (start, e, v).
  Proof. intros H. unfold mmnorm_cb, mmnorm_cb_nd. rewrite H. reflexivity. Qed.

  (* on every reachable state the two re-searches coincide *)
  Lemma research_nd_agrees k (s : @mm XR) :
    k <= length xs -> PreMM lo hi xs wd k s -> LastMM k s ->
    mm_research tmin tmax xs s (start_of wd k) k = mm_research_nd s (start_of wd k) k.
  Proof.
    intros Hk HP HL. unfold mm_research_nd. destruct (start_of wd k) as [a|] eqn:Est; [|reflexivity].
    destruct (mm_maxi s <? a) eqn:EM; [|reflexivity]. destruct (mm_mini s <? a) eqn:Em; [|reflexivity].
    apply Nat.ltb_lt in EM, Em.
    pose proof (both_expired_window_is_null k s a Hk HP HL Est EM Em) as Hnull.
    assert (Hak : a <= k).
    { rewrite (start_of_wstart wd Hwd) in Est. destruct (k <? wd - 1); [discriminate|]. injection Est as <-. unfold wstart. lia. }
    unfold mm_research. apply Nat.ltb_lt in EM, Em. rewrite EM, Em. rewrite scan_both_split.
    rewrite (scan_gen_all_null xs gmax (k - a) a tmin (mm_maxi s)) by (try lia; intros j Hj; apply Hnull; lia).
    cbn [bind].
    rewrite (scan_gen_all_null xs gmin (k - a) a tmax (mm_mini s)) by (try lia; intros j Hj; apply Hnull; lia).
    reflexivity.
  Qed.

  Lemma LastMM_init : LastMM 0 (mm0 tmin tmax).
  Proof. split; intros j x Hj; lia. Qed.
End MMDead.

Definition ts_vminmaxnorm_nd (lo hi : R) (body : bool) (w : nat) (mp : option nat) (xs : list XR) : outcome XR :=
  idx_run body w (mmnorm_cb_nd lo hi xs (mp_eff mp w 0)) (mm0 (Some lo) (Some hi)) xs.

(* THE THEOREM: for every series within the sentinels, every window (0 included), min_periods and both bodies, the model
   with the loop body of the both-expired arm deleted returns exactly what the model of the code returns *)
Theorem minmaxnorm_both_expired_arm_is_dead (lo hi : R) body (w : nat) (mp : option nat) (xs : list XR) :
  (forall r, In (Some r) xs -> (lo <= r <= hi)%R) ->
  ts_vminmaxnorm (Some lo) (Some hi) body w mp xs = ts_vminmaxnorm_nd lo hi body w mp xs.
Proof.
  intros Hb. unfold ts_vminmaxnorm, ts_vminmaxnorm_nd.
  destruct (Nat.eq_dec w 0) as [->|Hw0].
  { destruct xs as [|x xs]; [rewrite !idx_run_empty; reflexivity|].
    rewrite !idx_run_window0 by discriminate. reflexivity. }
  destruct xs as [|x0 xs0] eqn:Exs; [rewrite !idx_run_empty; reflexivity|]. rewrite <- Exs in *.
  assert (Hlen : 1 <= length xs) by (rewrite Exs; cbn; lia).
  set (wd := eff_window body w (length xs)).
  assert (Hwd : 1 <= wd) by (unfold wd, eff_window; destruct body; lia).
  apply (idx_run_agree _ _ xs (fun k s => k <= length xs /\ PreMM lo hi xs wd k s /\ LastMM xs wd k s)).
  - split; [lia|]. split; [apply PreMM_init; exact Hwd|apply LastMM_init; exact Hwd].
  - intros k v s Hv (Hk & HP & HL). fold wd.
    assert (Hk' : k < length xs) by (apply nth_error_Some; congruence).
    destruct (mmnorm_cb_step lo hi xs Hb wd Hwd (mp_eff mp w 0) k v s Hv HP) as (s' & o & Hcb & HP' & _).
    exists s', o. split; [exact Hcb|]. split.
    + split; [lia|]. split; [exact HP'|]. apply (mmnorm_cb_last lo hi xs wd Hwd (mp_eff mp w 0) k v s s' o Hv HL Hcb).
    + rewrite <- Hcb. symmetry. apply mmnorm_cb_nd_eq. apply research_nd_agrees; try assumption; lia.
Qed.

(* ================================================================================================= *)
(* Part 3 — ts_vzscore on EVERY carrier (binary64 included): where the output is the carrier's NaN      *)
(* ================================================================================================= *)
From Tevec Require Import Proofs.Sliding Proofs.Audit01.
Section ZscoreAnyCarrier.
  Context {A : Type} {NA : Num A} {T : Type} {DT : IsNone T A}.

  (* count of the valid elements of the window, and the current (= last) element as the closure saw it *)
  Definition zs_abs_any (s : @zs A) (l : list T) : Prop :=
    z_n s = cnt_valid l /\
    forall l0 v, l = l0 ++ [v] -> z_cur s = (if not_none v then Some (unwrap v) else None).

  Lemma zs_abs_any_pre s l v : zs_abs_any s l -> zs_abs_any (zs_pre s v) (l ++ [v]).
  Proof.
    intros (Hn & _). unfold zs_pre. split.
    - rewrite cnt_valid_snoc. destruct (not_none v); cbn [z_n]; lia.
    - intros l0 v0 E. apply app_inj_tail in E. destruct E as [_ <-]. destruct (not_none v); reflexivity.
  Qed.
  Lemma zs_abs_any_post s x l : zs_abs_any s (x :: l) -> zs_abs_any (zs_post s (Some x)) l.
  Proof.
    intros (Hn & Hc). rewrite cnt_valid_cons in Hn. split.
    - cbn [zs_post]. destruct (not_none x); cbn [z_n]; lia.
    - intros l0 v E. subst l. specialize (Hc (x :: l0) v eq_refl).
      cbn [zs_post]. destruct (not_none x); cbn [z_cur]; exact Hc.
  Qed.

  (* every carrier, both bodies: a null current element or fewer than min(min_periods or w/2, w) valid elements in the
     window give the carrier's NaN *)
  Theorem zscore_nan_every_carrier body (w : nat) (mp : option nat) (xs : list T) :
    1 <= w ->
    exists out, ts_vzscore body w mp xs = Done out /\ length out = length xs /\
      forall i v, nth_error xs i = Some v ->
        (not_none v = false \/ cnt_valid (win w i xs) < mp_eff mp w 0) -> nth_error out i = Some nnan.
  Proof.
    intros Hw. unfold ts_vzscore.
    destruct (sliding_ts_run (ts_vzscore_f w mp) zs_abs_any) with (w := w) (xs := xs) (body := body)
      as (out & H1 & H2 & H3); try exact Hw.
    - split; [reflexivity|]. intros l0 v E. destruct l0; discriminate.
    - exact zs_abs_any_pre.
    - exact zs_abs_any_post.
    - reflexivity.
    - exists out. split; [exact H1|]. split; [exact H2|]. intros i v Hv Hc.
      destruct (H3 i v Hv) as (s & (Hn & Hcur) & Ho). rewrite Ho. f_equal.
      assert (Hi : i < length xs) by (apply nth_error_Some; congruence).
      assert (Hwin : win w i xs = seg (wstart w i) i xs ++ [v]).
      { rewrite win_seg. apply seg_snoc; [unfold wstart; lia|exact Hv]. }
      specialize (Hcur _ _ Hwin). cbn [f_emit ts_vzscore_f]. unfold zs_emit. rewrite Hcur.
      destruct Hc as [Hc|Hc].
      + rewrite Hc. reflexivity.
      + destruct (not_none v); [|reflexivity].
        replace (mp_eff mp w 0 <=? z_n s) with false by (symmetry; apply Nat.leb_gt; lia). reflexivity.
  Qed.
End ZscoreAnyCarrier.
