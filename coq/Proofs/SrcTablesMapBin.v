(* Proofs/SrcTablesMapBin.v — translator tie (DESIGN 10.2) for C14: conformance of Model/Binning.v with the decision tables
   GENERATED from the text of tea-map/src/valid_iter.rs (coq/Gen/SrcTables.v, section (a), written by
   tools/gen_tables_map.py on every run of the C14 check).

   vcut: the label-count guard per value of add_bounds (which side carries the `+ 1`, which operator), the materialised
   edge vector (which sentinel where), and for each of the two closures (`right` / not) the comparison operators of the lower
   and the upper test, the bound each one reads, which test `add_bounds` switches off at which position, what a null value and
   an unmatched value yield.  vsorted_unique_idx: per arm of `match keep` how `last_value` starts, whether the sentinel
   `chain(once(None))` is there, the run test, and what is emitted / stored in each of the three cases.  vsorted_unique: the same.

   Each table gets a semantics; each theorem says FOR ALL inputs (element type, comparison functions, edges, labels,
   series) that the model function IS the function read out of the source table.  `bound.0 < value` -> `<=`, `i + 1 == n_labels`
   -> `i == n_labels`, dropping the sentinel, `==` -> `!=` in the run test: the table changes and the theorem named in the error
   message no longer compiles.  Axiom-free.                                                                               *)
From Coq Require Import List String PeanoNat Bool Lia.
From Tevec Require Import Base.Prelude Model.Binning Gen.SrcTables Proofs.SrcTablesMapBase.
Import ListNotations.
Local Open Scope string_scope.
Local Open Scope nat_scope.

(* ---- table access (closed terms: evaluated by vm_compute inside the proofs) ------------------------------------------- *)
Definition vcut_test_entry (right : bool) : (nat * nat * src_cmp) * (nat * src_cmp * nat) * string * string :=
  match blookup right src_vcut_tests with Some e => e | None => ((0, 0, CNe), (0, CNe, 0), "", "") end.
Definition vcut_guard_entry (ab : bool) : nat * src_cmp * nat :=
  match blookup ab src_vcut_count_guards with Some e => e | None => (0, CEq, 0) end.
(* 0 = the given edges, 1 = T::Inner::min_(), 2 = T::Inner::max_(), 3 = anything else *)
Definition part_kind (p : src_vc_part) : nat :=
  match p with
  | VcBins => 0
  | VcSentinel n => if String.eqb n "min_" then 1 else if String.eqb n "max_" then 2 else 3
  end.
Definition vcut_edge_kinds (ab : bool) : list nat :=
  match blookup ab src_vcut_edges with Some ps => map part_kind ps | None => [3] end.
(* true = the null label `T2::none()` / the error path `ok_or_else(|| terr!(..))` *)
Definition vcut_null_is_none (right : bool) : bool := String.eqb (snd (fst (vcut_test_entry right))) "none".
Definition vcut_unmatched_is_err (right : bool) : bool := String.eqb (snd (vcut_test_entry right)) "ok_or_else".

Fixpoint keep_lookup {V} (k : src_keep) (l : list (src_keep * V)) : option V :=
  match l with
  | [] => None
  | (k', v) :: r => match k, k' with KeepFirst, KeepFirst | KeepLast, KeepLast => Some v | _, _ => keep_lookup k r end
  end.
Definition uq_entry (k : src_keep) :=
  match keep_lookup k src_unique_idx with
  | Some e => e
  | None => (UqInitNone, false, CLt, (UqEmitNone, UqKeep), (UqEmitNone, UqKeep), (UqEmitNone, UqKeep))
  end.

Ltac eval_bin_tables :=
  repeat match goal with
         | |- context [vcut_test_entry ?b] => let v := eval vm_compute in (vcut_test_entry b) in change (vcut_test_entry b) with v
         | |- context [vcut_guard_entry ?b] => let v := eval vm_compute in (vcut_guard_entry b) in change (vcut_guard_entry b) with v
         | |- context [vcut_edge_kinds ?b] => let v := eval vm_compute in (vcut_edge_kinds b) in change (vcut_edge_kinds b) with v
         | |- context [vcut_null_is_none ?b] => let v := eval vm_compute in (vcut_null_is_none b) in change (vcut_null_is_none b) with v
         | |- context [vcut_unmatched_is_err ?b] => let v := eval vm_compute in (vcut_unmatched_is_err b) in change (vcut_unmatched_is_err b) with v
         | |- context [uq_entry ?k] => let v := eval vm_compute in (uq_entry k) in change (uq_entry k) with v
         | |- context [src_sorted_unique] => let v := eval vm_compute in src_sorted_unique in change src_sorted_unique with v
         end.

(* ---- vcut ---------------------------------------------------------------------------------------------------------------- *)
Section CutConf.
  Context {A L : Type}.
  Variables ltb leb : A -> A -> bool.
  Variables tmin tmax : A.

  (* `a <op> b` on T::Inner through the two comparison functions of the model (`a > b` is `b < a`) *)
  Definition vc_cmp (c : src_cmp) (a b : A) : bool :=
    match c with CLt => ltb a b | CLe => leb a b | CGt => ltb b a | CGe => leb b a | _ => false end.
  Definition vc_bound (k : nat) (w : A * A) : A := match k with 0 => fst w | _ => snd w end.

  Definition src_bin_test (right ab : bool) (nlab i : nat) (w : A * A) (v : A) : bool :=
    let '((a0, abx, ac), (b0, bc, bb), _, _) := vcut_test_entry right in
    let above := (ab && (i =? a0)) || vc_cmp ac (vc_bound abx w) v in
    let below := (ab && (b0 + i =? nlab)) || vc_cmp bc v (vc_bound bb w) in
    above && below.

  Theorem src_bin_test_conforms : forall right ab nlab i w v,
    src_bin_test right ab nlab i w v = bin_test ltb leb right ab nlab i w v.
  Proof.
    conformance "src_bin_test_conforms"
      (intros right ab nlab i w v; unfold src_bin_test, bin_test; destruct right; eval_bin_tables; reflexivity).
  Qed.

  Fixpoint src_scan (right ab : bool) (nlab : nat) (v : A) (i : nat) (ws : list ((A * A) * L)) : option L :=
    match ws with
    | [] => None
    | (w, lab) :: r => if src_bin_test right ab nlab i w v then Some lab else src_scan right ab nlab v (S i) r
    end.
  Lemma src_scan_conforms : forall right ab nlab v ws i,
    src_scan right ab nlab v i ws = scan ltb leb right ab nlab v i ws.
  Proof.
    intros right ab nlab v ws; induction ws as [|[w lab] r IH]; intros i; [reflexivity|].
    cbn [src_scan scan]. rewrite src_bin_test_conforms, IH. reflexivity.
  Qed.

  (* the edge vector: which sentinel at which end *)
  Definition kind_eval (edges : list A) (k : nat) : list A :=
    match k with 0 => edges | 1 => [tmin] | 2 => [tmax] | _ => [] end.
  Definition src_mat_bins (ab : bool) (edges : list A) : list A := flat_map (kind_eval edges) (vcut_edge_kinds ab).
  Theorem src_mat_bins_conforms : forall ab edges, src_mat_bins ab edges = mat_bins tmin tmax ab edges.
  Proof.
    conformance "src_mat_bins_conforms"
      (intros ab edges; unfold src_mat_bins, mat_bins; destruct ab; eval_bin_tables; cbn [flat_map kind_eval app];
       rewrite ?app_nil_r; reflexivity).
  Qed.

  (* the label-count guard: Err when `labels.len() + k1 <op> bins.len() + k2` *)
  Definition src_count_ok {E} (ab : bool) (edges : list E) (labels : list L) : bool :=
    let '(k1, c, k2) := vcut_guard_entry ab in
    negb (mcmp_nat c (length labels + k1) (length edges + k2)).
  Theorem src_count_ok_conforms : forall {E} ab (edges : list E) labels,
    src_count_ok ab edges labels = count_ok ab edges labels.
  Proof.
    conformance "src_count_ok_conforms"
      (intros E ab edges labels; unfold src_count_ok, count_ok; destruct ab; eval_bin_tables; cbn [mcmp_nat];
       rewrite ?Nat.add_0_r, ?negb_involutive; reflexivity).
  Qed.

  (* one element: a null value, the scan, an unmatched value *)
  Definition src_null_item (right : bool) : item L := if vcut_null_is_none right then NullLab else ErrItem.
  Definition src_unmatched_item (right : bool) : item L := if vcut_unmatched_is_err right then ErrItem else NullLab.
  Definition src_cut1 (right ab : bool) (edges : list A) (labels : list L) (x : option A) : item L :=
    match x with
    | None => src_null_item right
    | Some v =>
        match src_scan right ab (length labels) v 0 (combine (windows (src_mat_bins ab edges)) labels) with
        | Some lab => Lab lab
        | None => src_unmatched_item right
        end
    end.
  Theorem src_cut1_conforms : forall right ab edges labels x,
    src_cut1 right ab edges labels x = cut1 ltb leb tmin tmax right ab edges labels x.
  Proof.
    conformance "src_cut1_conforms"
      (intros right ab edges labels x; unfold src_cut1, cut1, src_null_item, src_unmatched_item;
       rewrite src_mat_bins_conforms; destruct x as [v|];
       [rewrite src_scan_conforms|]; destruct right; eval_bin_tables; reflexivity).
  Qed.

  Definition src_vcut (right ab : bool) (edges : list A) (labels : list L) (xs : list (option A)) : option (list (item L)) :=
    if src_count_ok ab edges labels then Some (map (src_cut1 right ab edges labels) xs) else None.
  Theorem src_vcut_conforms : forall right ab edges labels xs,
    src_vcut right ab edges labels xs = vcut ltb leb tmin tmax right ab edges labels xs.
  Proof.
    intros right ab edges labels xs. unfold src_vcut, vcut. rewrite src_count_ok_conforms.
    destruct (count_ok ab edges labels); [|reflexivity]. f_equal. apply map_ext. intros x. apply src_cut1_conforms.
  Qed.

  (* the entry point as the code receives the edges (Option edges unwrap at call time): same guard, same closure *)
  Theorem src_vcut_call_conforms : forall right ab (edges : list (option A)) labels xs,
    vcut_call ltb leb tmin tmax right ab edges labels xs =
    if src_count_ok ab edges labels then
      match unwrap_all edges with
      | Some es => Ok (Some (map (src_cut1 right ab es labels) xs))
      | None => Panic UnwrapNone
      end
    else Ok None.
  Proof.
    intros right ab edges labels xs. unfold vcut_call. rewrite src_count_ok_conforms.
    destruct (count_ok ab edges labels); [|reflexivity]. destruct (unwrap_all edges) as [es|]; [|reflexivity].
    do 2 f_equal. apply map_ext. intros x. symmetry. apply src_cut1_conforms.
  Qed.
End CutConf.

(* ---- vsorted_unique_idx / vsorted_unique ---------------------------------------------------------------------------------- *)
Section UniqueConf.
  Context {A : Type}.
  Variable eqb : A -> A -> bool.

  (* `last_value <op> Some(v.clone())` *)
  Definition uq_test (c : src_cmp) (last : option A) (v : A) : bool :=
    match c with CEq => last_is eqb last v | CNe => negb (last_is eqb last v) | _ => false end.
  Definition uq_emit (e : src_uq_emit) (last : option A) (i : nat) : list nat :=
    match e with UqEmitNone => [] | UqEmitIdx => [i] | UqEmitIfLastSome => if is_some last then [i] else [] end.
  Definition uq_set (s : src_uq_set) (last y : option A) : option A :=
    match s with UqKeep => last | UqSetValue => y | UqSetNone => None end.

  (* enumerate().filter_map(closure) with the captured last_value *)
  Fixpoint uq_go (c : src_cmp) (a_t a_e a_n : src_uq_emit * src_uq_set) (last : option A) (i : nat) (ys : list (option A))
    : list nat :=
    match ys with
    | [] => []
    | y :: r =>
        let act := match y with Some v => if uq_test c last v then a_t else a_e | None => a_n end in
        uq_emit (fst act) last i ++ uq_go c a_t a_e a_n (uq_set (snd act) last y) (S i) r
    end.

  Definition src_uidx (k : src_keep) (xs : list (option A)) : list nat :=
    let '(init, sentinel, c, a_t, a_e, a_n) := uq_entry k in
    let '(last0, rest) :=
      match init with
      | UqInitNone => (None, xs)
      | UqInitFirstElement => match xs with [] => (None, []) | x :: r => (x, r) end
      end in
    uq_go c a_t a_e a_n last0 0 (if sentinel then rest ++ [None] else rest).

  Lemma src_uidx_first_go : forall xs last i,
    (let '(_, _, c, a_t, a_e, a_n) := uq_entry KeepFirst in uq_go c a_t a_e a_n last i xs) = uidx_first_go eqb last i xs.
  Proof.
    conformance "src_uidx_first_conforms"
      (eval_bin_tables; induction xs as [|[v|] r IH]; intros last i; cbn [uq_go uidx_first_go uq_test];
       [reflexivity | destruct (last_is eqb last v); cbn [fst snd uq_emit uq_set app]; rewrite IH; reflexivity
        | cbn [fst snd uq_emit uq_set app]; apply IH]).
  Qed.
  Theorem src_uidx_first_conforms : forall xs, src_uidx KeepFirst xs = uidx_first eqb xs.
  Proof.
    conformance "src_uidx_first_conforms"
      (intros xs; unfold uidx_first; rewrite <- src_uidx_first_go; unfold src_uidx; eval_bin_tables; reflexivity).
  Qed.

  Lemma src_uidx_last_go : forall ys last i,
    (let '(_, _, c, a_t, a_e, a_n) := uq_entry KeepLast in uq_go c a_t a_e a_n last i ys) = uidx_last_go eqb last i ys.
  Proof.
    conformance "src_uidx_last_conforms"
      (eval_bin_tables; induction ys as [|[v|] r IH]; intros last i; cbn [uq_go uidx_last_go uq_test];
       [reflexivity | destruct (last_is eqb last v); cbn [fst snd uq_emit uq_set app]; rewrite IH; reflexivity
        | cbn [fst snd uq_emit uq_set]; rewrite IH; reflexivity]).
  Qed.
  Theorem src_uidx_last_conforms : forall xs, src_uidx KeepLast xs = uidx_last eqb xs.
  Proof.
    conformance "src_uidx_last_conforms"
      (intros xs; unfold uidx_last; destruct xs as [|x r]; rewrite <- src_uidx_last_go; unfold src_uidx; eval_bin_tables;
       reflexivity).
  Qed.

  (* vsorted_unique: `v <op> last_v.clone()` *)
  Definition uv_test (c : src_cmp) (v lv : A) : bool :=
    match c with CEq => eqb v lv | CNe => negb (eqb v lv) | _ => false end.
  Definition uv_emit (e : src_uv_emit) (v : A) : list A := match e with UvEmitNone => [] | UvEmitValue => [v] end.
  Definition uv_set (s : src_uv_set) (value : option A) (v : A) : option A :=
    match s with UvKeep => value | UvSetValue => Some v end.
  Fixpoint uv_go (c : src_cmp) (a_t a_e a_f : src_uv_emit * src_uv_set) (value : option A) (xs : list (option A)) : list A :=
    match xs with
    | [] => []
    | Some v :: r =>
        let act := match value with Some lv => if uv_test c v lv then a_t else a_e | None => a_f end in
        uv_emit (fst act) v ++ uv_go c a_t a_e a_f (uv_set (snd act) value v) r
    | None :: r => uv_go c a_t a_e a_f value r
    end.
  Definition src_vsorted_unique (xs : list (option A)) : list A :=
    let '(c, a_t, a_e, a_f) := src_sorted_unique in uv_go c a_t a_e a_f None xs.

  Lemma src_uniq_go : forall xs value,
    (let '(c, a_t, a_e, a_f) := src_sorted_unique in uv_go c a_t a_e a_f value xs) = uniq_go eqb value xs.
  Proof.
    conformance "src_vsorted_unique_conforms"
      (eval_bin_tables; induction xs as [|[v|] r IH]; intros value; cbn [uv_go uniq_go uv_test];
       [reflexivity
       | destruct value as [lv|]; [destruct (eqb v lv)|]; cbn [negb fst snd uv_emit uv_set app]; rewrite IH; reflexivity
       | apply IH]).
  Qed.
  Theorem src_vsorted_unique_conforms : forall xs, src_vsorted_unique xs = vsorted_unique eqb xs.
  Proof. intros xs. unfold src_vsorted_unique, vsorted_unique. apply src_uniq_go. Qed.
End UniqueConf.

(* nothing is left unread: two guards, two edge vectors, two closures, two Keep arms *)
Theorem src_bin_table_shape :
  map fst src_vcut_count_guards = [true; false] /\ map fst src_vcut_edges = [true; false] /\
  map fst src_vcut_tests = [true; false] /\ length src_unique_idx = 2.
Proof. conformance "src_bin_table_shape" (vm_compute; repeat split; reflexivity). Qed.

(* non-vacuity: the table semantics computes labels, errors and indices on concrete inputs (Z-free: nat elements) *)
Example src_bin_examples :
  src_vcut Nat.ltb Nat.leb 0 99 true false [1; 5; 9] ["a"; "b"] [Some 5; Some 6; None; Some 1] =
    Some [Lab "a"; Lab "b"; NullLab; ErrItem] /\
  src_vcut Nat.ltb Nat.leb 0 99 false true [5] ["a"; "b"] [Some 5; Some 4; Some 1000] = Some [Lab "b"; Lab "a"; Lab "b"] /\
  src_vcut Nat.ltb Nat.leb 0 99 true true [5] ["a"] [Some 5] = None /\
  src_uidx Nat.eqb KeepFirst [Some 1; Some 1; None; Some 2; Some 2] = [0; 3] /\
  src_uidx Nat.eqb KeepLast [Some 1; Some 1; None; Some 2; Some 2] = [1; 4] /\
  src_vsorted_unique Nat.eqb [Some 1; Some 1; None; Some 2; Some 2] = [1; 2].
Proof. vm_compute. repeat split; reflexivity. Qed.

Print Assumptions src_bin_test_conforms.
Print Assumptions src_vcut_conforms.
Print Assumptions src_vcut_call_conforms.
Print Assumptions src_uidx_first_conforms.
Print Assumptions src_uidx_last_conforms.
Print Assumptions src_vsorted_unique_conforms.
