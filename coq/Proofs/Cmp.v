(* Proofs/Cmp.v — the cached-extreme state machines of Model/Cmp.v at the integer carrier:
   for EVERY series (any null dictionary), window, min_periods and position, both driver bodies,
     - no panic, every slot written;
     - after every step the cached (value, index) pair is the LAST position of the null-last extreme of the
       window (invariant `lm`), the count is the number of valid elements of the window;
     - ts_vmin / ts_vmax = least / greatest valid element (None when there is none), subject to the mask;
     - ts_vargmin / ts_vargmax = 1-based offset of the last position holding it.
   Maxima are minima under the key x |-> -x (sort_cmp_rev a b = sort_cmp (-a) (-b)).
   Stdlib only, axiom-free.                                                                        *)
From Coq Require Import ZArith List Lia Bool.
From Tevec Require Import Base.Prelude Base.Num Model.Driver Proofs.Driver Model.Cmp Proofs.IdxRun
     Spec.Extrema.
Import ListNotations.

(* ---- the null-last order on option Z ------------------------------------------------------------ *)
Definition ocmp (a b : option Z) : comparison :=
  match a, b with
  | Some x, Some y => (x ?= y)%Z
  | None, None => Eq
  | None, Some _ => Gt
  | Some _, None => Lt
  end.
Definition ole (a b : option Z) : Prop := ocmp a b <> Gt.

Lemma sort_cmp_Z (a b : option Z) : sort_cmp a b = ocmp a b.
Proof.
  destruct a as [x|], b as [y|]; cbn; try reflexivity. unfold pcmp. cbn.
  destruct (Z.ltb_spec x y) as [H|H]; [symmetry; apply Z.compare_lt_iff; exact H|].
  destruct (Z.eqb_spec x y) as [->|Hne]; [symmetry; apply Z.compare_refl|].
  destruct (Z.ltb_spec y x) as [H2|H2]; [symmetry; apply Z.compare_gt_iff; exact H2|lia].
Qed.

Lemma sort_cmp_rev_Z (a b : option Z) :
  sort_cmp_rev a b = ocmp (option_map Z.opp a) (option_map Z.opp b).
Proof.
  destruct a as [x|], b as [y|]; cbn; try reflexivity. unfold pcmp. cbn.
  rewrite Z.compare_opp.
  destruct (Z.ltb_spec x y) as [H|H]; [cbn; symmetry; apply Z.compare_gt_iff; exact H|].
  destruct (Z.eqb_spec x y) as [->|Hne]; [cbn; symmetry; apply Z.compare_refl|].
  destruct (Z.ltb_spec y x) as [H2|H2]; [cbn; symmetry; apply Z.compare_lt_iff; exact H2|lia].
Qed.

Lemma takes_ole a b : takes (ocmp a b) = true <-> ole a b.
Proof. unfold ole. destruct (ocmp a b); cbn; split; intros H; try reflexivity; try discriminate; congruence. Qed.
Lemma takes_not_ole a b : takes (ocmp a b) = false <-> ~ ole a b.
Proof. rewrite <- takes_ole. destruct (takes (ocmp a b)); split; intros H; congruence. Qed.

Ltac zcmp :=
  repeat match goal with |- context [(?a ?= ?b)%Z] => destruct (Z.compare_spec a b) end;
  intros; try discriminate; try congruence; try (exfalso; lia);
  try (match goal with H : ?x <> ?x -> False |- _ => idtac end).

Lemma ole_refl a : ole a a.
Proof. unfold ole. destruct a as [x|]; cbn; [rewrite Z.compare_refl|]; discriminate. Qed.
Lemma ole_trans a b c : ole a b -> ole b c -> ole a c.
Proof. unfold ole. destruct a as [x|], b as [y|], c as [z|]; cbn; zcmp. Qed.
Lemma not_ole_ole a b : ~ ole a b -> ole b a.
Proof.
  unfold ole. destruct a as [x|], b as [y|]; cbn; zcmp;
    match goal with H : ~ _ |- _ => exfalso; apply H; discriminate end.
Qed.
Section ExtZ.
  Context {T : Type} {DT : IsNone T Z}.
  Variable scmp : option Z -> option Z -> comparison.
  Variable key : Z -> Z.
  Hypothesis scmp_key : forall a b, scmp a b = ocmp (option_map key a) (option_map key b).
  Variable xs : list T.

  (* the element at position i as an optional integer (None: null, or out of range) *)
  Definition ov (i : nat) : option Z := match nth_error xs i with Some v => to_opt v | None => None end.
  Definition okey (i : nat) : option Z := option_map key (ov i).
  Definition ovs : list (option Z) := map to_opt xs.

  Lemma ovs_nth i : nth_error ovs i = option_map to_opt (nth_error xs i).
  Proof. unfold ovs. apply nth_error_map. Qed.
  Lemma ov_nth i v : nth_error xs i = Some v -> ov i = to_opt v.
  Proof. intros H. unfold ov. rewrite H. reflexivity. Qed.
  Lemma uget_ok i v : nth_error xs i = Some v -> uget xs i = Ok v.
  Proof. intros H. unfold uget. rewrite H. reflexivity. Qed.
  Lemma some_lt i : i < length xs -> exists v, nth_error xs i = Some v.
  Proof. apply nth_error_Some_lt. Qed.

  (* p is the LAST position of the null-last minimum (under key) of the positions [a, b) *)
  Definition lm (a b p : nat) : Prop :=
    a <= p < b /\ (forall j, a <= j < b -> ole (okey p) (okey j)) /\
    (forall j, p < j < b -> ~ ole (okey j) (okey p)).

  Lemma lm_single i : lm i (S i) i.
  Proof. split; [lia|]. split; intros j Hj; [replace j with i by lia; apply ole_refl|lia]. Qed.
  Lemma lm_drop a a' b p : lm a b p -> a <= a' <= p -> lm a' b p.
  Proof. intros (H1 & H2 & H3) Ha. split; [lia|]. split; intros j Hj; [apply H2|apply H3]; lia. Qed.
  Lemma lm_snoc_take a i p : lm a i p -> ole (okey i) (okey p) -> lm a (S i) i.
  Proof.
    intros (H1 & H2 & H3) Hle. split; [lia|]. split; intros j Hj; [|lia].
    destruct (Nat.eq_dec j i) as [->|Hne]; [apply ole_refl|].
    apply ole_trans with (okey p); [exact Hle|apply H2; lia].
  Qed.
  Lemma lm_snoc_keep a i p : lm a i p -> ~ ole (okey i) (okey p) -> lm a (S i) p.
  Proof.
    intros (H1 & H2 & H3) Hn. split; [lia|]. split; intros j Hj.
    - destruct (Nat.eq_dec j i) as [->|Hne]; [apply not_ole_ole; exact Hn|apply H2; lia].
    - destruct (Nat.eq_dec j i) as [->|Hne]; [exact Hn|apply H3; lia].
  Qed.

  (* the rescan loop continues a last-minimum of [a, i) to one of [a, i + cnt) *)
  Lemma rescan_from : forall cnt i p a,
    lm a i p -> i + cnt <= length xs ->
    exists p', rescan scmp xs i cnt (ov p) (Some p) = Ok (ov p', Some p') /\ lm a (i + cnt) p'.
  Proof.
    induction cnt as [|cnt IH]; intros i p a Hlm Hlen.
    - exists p. rewrite Nat.add_0_r. split; [reflexivity|exact Hlm].
    - destruct (some_lt i) as [v Hv]; [lia|].
      cbn [rescan]. rewrite (uget_ok i v Hv). cbn [bind]. rewrite <- (ov_nth i v Hv), scmp_key.
      fold (okey i) (okey p). replace (i + S cnt) with (S i + cnt) by lia.
      destruct (takes (ocmp (okey i) (okey p))) eqn:E.
      + apply takes_ole in E. apply IH; [|lia]. apply lm_snoc_take with p; assumption.
      + apply takes_not_ole in E. apply IH; [|lia]. apply lm_snoc_keep; assumption.
  Qed.

  (* the whole re-search: min = uget(start); for i in start..=end *)
  Lemma rescan_spec st e v0 mi :
    st <= e -> e < length xs -> nth_error xs st = Some v0 ->
    exists p', rescan scmp xs st (S e - st) (to_opt v0) mi = Ok (ov p', Some p') /\ lm st (S e) p'.
  Proof.
    intros Hse He Hv0. replace (S e - st) with (S (e - st)) by lia.
    cbn [rescan]. rewrite (uget_ok st v0 Hv0). cbn [bind]. rewrite scmp_key.
    assert (Ht : takes (ocmp (option_map key (to_opt v0)) (option_map key (to_opt v0))) = true)
      by (apply takes_ole, ole_refl).
    rewrite Ht, <- (ov_nth st v0 Hv0).
    destruct (rescan_from (e - st) (S st) st st (lm_single st)) as (p' & H1 & H2); [lia|].
    exists p'. split; [exact H1|]. replace (S e) with (S st + (e - st)) by lia. exact H2.
  Qed.

  (* ---- the count of valid elements ------------------------------------------------------------- *)
  Definition count (a b : nat) : nat := length (validZ (seg a b ovs)).

  Definition isv (v : T) : nat := if not_none v then 1 else 0.
  Lemma to_opt_not_none (v : T) : not_none v = match to_opt v with Some _ => true | None => false end.
  Proof. unfold not_none, to_opt. destruct (is_none v); reflexivity. Qed.

  Lemma count_snoc a k v : a <= k -> nth_error xs k = Some v -> count a (S k) = count a k + isv v.
  Proof.
    intros Hak Hv. unfold count.
    rewrite (@seg_snoc _ a k ovs (to_opt v)); [|exact Hak|rewrite ovs_nth, Hv; reflexivity].
    rewrite validZ_app, app_length. f_equal. unfold isv. rewrite to_opt_not_none.
    destruct (to_opt v); reflexivity.
  Qed.
  Lemma count_cons a b v0 : a < b -> nth_error xs a = Some v0 -> count a b = isv v0 + count (S a) b.
  Proof.
    intros Hab Hv. unfold count.
    rewrite (@seg_cons _ a b ovs (to_opt v0)); [|exact Hab|rewrite ovs_nth, Hv; reflexivity].
    change (to_opt v0 :: seg (S a) b ovs) with ([to_opt v0] ++ seg (S a) b ovs).
    rewrite validZ_app, app_length. f_equal. unfold isv. rewrite to_opt_not_none.
    destruct (to_opt v0); reflexivity.
  Qed.
  Lemma count_nil a : count a a = 0.
  Proof. unfold count. rewrite seg_nil. reflexivity. Qed.

  (* ---- the state invariant ----------------------------------------------------------------------- *)
  Variable wd : nat.
  Hypothesis Hwd : 1 <= wd.

  (* state before step k *)
  Definition PreExt (k : nat) (s : ext) : Prop :=
    x_n s = count (wstart wd k) k /\
    ((k = 0 /\ x_val s = None /\ x_idx s = None) \/
     (0 < k /\ exists p, x_idx s = Some p /\ x_val s = ov p /\ lm (wstart wd (k - 1)) k p)).

  (* state at emit time of step k *)
  Definition MidExt (k : nat) (s : ext) : Prop :=
    x_n s = count (wstart wd k) (S k) /\
    exists p, x_idx s = Some p /\ x_val s = ov p /\ lm (wstart wd k) (S k) p.

  Lemma start_of_wstart k :
    start_of wd k = if k <? wd - 1 then None else Some (wstart wd k).
  Proof.
    unfold start_of, wstart. destruct (k <? wd - 1) eqn:E; [reflexivity|].
    apply Nat.ltb_ge in E. f_equal. lia.
  Qed.

  Lemma MidExt_intro k val p n :
    n = count (wstart wd k) (S k) -> val = ov p -> lm (wstart wd k) (S k) p ->
    MidExt k {| x_val := val; x_idx := Some p; x_n := n |}.
  Proof. intros H1 H2 H3. split; [exact H1|]. exists p. auto. Qed.

  Lemma ext_step_spec k v s :
    nth_error xs k = Some v -> PreExt k s ->
    exists s1, ext_step scmp xs s (start_of wd k) k v = Ok s1 /\ MidExt k s1.
  Proof.
    intros Hv [Hn Hst].
    assert (Hk : k < length xs) by (apply nth_error_Some; congruence).
    assert (Hcnt : count (wstart wd k) (S k) = count (wstart wd k) k + isv v)
      by (apply count_snoc; [unfold wstart; lia|exact Hv]).
    unfold ext_step. rewrite start_of_wstart.
    (* the state after counting the newcomer *)
    set (s1 := match to_opt v with
               | Some _ => match x_idx s with
                           | None => {| x_val := to_opt v; x_idx := Some k; x_n := S (x_n s) |}
                           | Some _ => {| x_val := x_val s; x_idx := x_idx s; x_n := S (x_n s) |}
                           end
               | None => s end).
    assert (Hn1 : x_n s1 = count (wstart wd k) (S k)).
    { rewrite Hcnt, <- Hn. unfold s1, isv. rewrite to_opt_not_none.
      destruct (to_opt v); [destruct (x_idx s); cbn; lia|lia]. }
    destruct Hst as [(-> & Hval & Hidx)|(Hk0 & p & Hidx & Hval & Hlm)].
    - (* first step *)
      assert (Hw0 : wstart wd 0 = 0) by (unfold wstart; lia).
      destruct (to_opt v) as [x|] eqn:Ev.
      + (* valid first element: initialised, then the comparison is Equal *)
        assert (Hs1 : s1 = {| x_val := Some x; x_idx := Some 0; x_n := S (x_n s) |})
          by (unfold s1; rewrite Hidx; reflexivity).
        rewrite Hs1 in Hn1 |- *. cbn [x_idx x_val x_n] in Hn1 |- *. rewrite Hw0.
        assert (Hno : opt_lt (Some 0) (if 0 <? wd - 1 then None else Some 0) = false)
          by (destruct (0 <? wd - 1); reflexivity).
        rewrite Hno, scmp_key.
        assert (Ht : takes (ocmp (option_map key (Some x)) (option_map key (Some x))) = true)
          by (apply takes_ole, ole_refl).
        rewrite Ht. eexists. split; [reflexivity|].
        apply MidExt_intro; [exact Hn1|rewrite (ov_nth 0 v Hv); symmetry; exact Ev|rewrite Hw0; apply lm_single].
      + assert (Hs1 : s1 = s) by reflexivity. rewrite Hs1 in Hn1 |- *. rewrite Hidx, Hval, Hw0.
        destruct (0 <? wd - 1) eqn:Ew; cbn [opt_lt].
        * rewrite scmp_key. cbn [option_map ocmp takes].
          eexists. split; [reflexivity|].
          apply MidExt_intro; [exact Hn1|rewrite (ov_nth 0 v Hv), Ev; reflexivity|rewrite Hw0; apply lm_single].
        * rewrite (uget_ok 0 v Hv). cbn [bind].
          destruct (rescan_spec 0 0 v None (le_n 0) Hk Hv) as (p' & Hr & Hlm).
          cbn [Nat.sub] in Hr |- *. rewrite Hr. cbn [bind fst snd].
          eexists. split; [reflexivity|].
          apply MidExt_intro; [exact Hn1|reflexivity|rewrite Hw0; exact Hlm].
    - (* later steps: the cache describes the previous window *)
      assert (Hs1 : x_val s1 = ov p /\ x_idx s1 = Some p).
      { unfold s1. destruct (to_opt v); [rewrite Hidx|]; cbn [x_val x_idx]; split; try assumption; try reflexivity. }
      destruct Hs1 as [Hv1 Hi1]. rewrite Hi1, Hv1.
      assert (Hmono : wstart wd (k - 1) <= wstart wd k) by (unfold wstart; lia).
      replace k with (S (k - 1)) in Hlm at 2 by lia.
      assert (Hlm' : lm (wstart wd (k - 1)) k p) by (replace k with (S (k - 1)) at 2 by lia; exact Hlm).
      clear Hlm. rename Hlm' into Hlm.
      assert (Hcmp : forall a, a <= p -> wstart wd (k - 1) <= a ->
                exists s2, (if takes (scmp (to_opt v) (ov p))
                            then Ok {| x_val := to_opt v; x_idx := Some k; x_n := x_n s1 |}
                            else Ok s1) = Ok s2 /\
                           x_n s2 = count (wstart wd k) (S k) /\
                           exists p', x_idx s2 = Some p' /\ x_val s2 = ov p' /\ lm a (S k) p').
      { intros a Hap Ha. rewrite scmp_key, <- (ov_nth k v Hv). fold (okey k) (okey p).
        pose proof (lm_drop _ _ _ _ Hlm (conj Ha Hap)) as Hl.
        destruct (takes (ocmp (okey k) (okey p))) eqn:E.
        - apply takes_ole in E. eexists. split; [reflexivity|]. split; [cbn; exact Hn1|].
          exists k. cbn. split; [reflexivity|]. split; [reflexivity|].
          apply lm_snoc_take with p; assumption.
        - apply takes_not_ole in E. exists s1. split; [reflexivity|]. split; [exact Hn1|].
          exists p. split; [exact Hi1|]. split; [exact Hv1|]. apply lm_snoc_keep; assumption. }
      destruct (k <? wd - 1) eqn:Ew; cbn [opt_lt].
      + (* warm-up: no start index, the window still starts at 0 *)
        apply Nat.ltb_lt in Ew.
        assert (H0 : wstart wd k = 0 /\ wstart wd (k - 1) = 0) by (unfold wstart; lia).
        destruct H0 as [H0 H0'].
        destruct (Hcmp 0) as (s2 & Hs2 & Hn2 & p' & Hp1 & Hp2 & Hp3); [lia|lia|].
        exists s2. split; [exact Hs2|]. split; [exact Hn2|].
        exists p'. rewrite H0. auto.
      + apply Nat.ltb_ge in Ew.
        destruct (p <? wstart wd k) eqn:Ep.
        * (* the cached extreme has expired: full re-search *)
          destruct (some_lt (wstart wd k)) as [v0 Hv0]; [unfold wstart; lia|].
          rewrite (uget_ok _ _ Hv0). cbn [bind].
          destruct (rescan_spec (wstart wd k) k v0 (Some p)) as (p' & Hr & Hl);
            [unfold wstart; lia|exact Hk|exact Hv0|].
          rewrite Hr. cbn [bind fst snd].
          eexists. split; [reflexivity|]. split; [cbn; exact Hn1|].
          exists p'. cbn. auto.
        * apply Nat.ltb_ge in Ep.
          destruct (Hcmp (wstart wd k)) as (s2 & Hs2 & Hn2 & p' & Hp1 & Hp2 & Hp3); [exact Ep|exact Hmono|].
          exists s2. split; [exact Hs2|]. split; [exact Hn2|]. exists p'. auto.
  Qed.

  Lemma ext_post_spec k s1 :
    k < length xs -> MidExt k s1 ->
    exists s2, ext_post xs s1 (start_of wd k) = Ok s2 /\ PreExt (S k) s2.
  Proof.
    intros Hk (Hn & p & Hi & Hv & Hlm).
    assert (Hpre : forall s2, x_idx s2 = x_idx s1 -> x_val s2 = x_val s1 ->
                     x_n s2 = count (wstart wd (S k)) (S k) -> PreExt (S k) s2).
    { intros s2 E1 E2 E3. split; [exact E3|]. right. split; [lia|].
      exists p. rewrite E1, E2. cbn [Nat.sub]. rewrite Nat.sub_0_r. auto. }
    unfold ext_post. rewrite start_of_wstart.
    destruct (k <? wd - 1) eqn:Ew.
    - apply Nat.ltb_lt in Ew. exists s1. split; [reflexivity|]. apply Hpre; try reflexivity.
      rewrite Hn. f_equal. unfold wstart. lia.
    - apply Nat.ltb_ge in Ew.
      destruct (some_lt (wstart wd k)) as [v0 Hv0]; [unfold wstart; lia|].
      rewrite (uget_ok _ _ Hv0). cbn [bind].
      assert (Hc : count (wstart wd k) (S k) = isv v0 + count (wstart wd (S k)) (S k)).
      { replace (wstart wd (S k)) with (S (wstart wd k)) by (unfold wstart; lia).
        apply count_cons; [unfold wstart; lia|exact Hv0]. }
      unfold isv in Hc. destruct (not_none v0).
      + unfold usub. replace (1 <=? x_n s1) with true by (symmetry; apply Nat.leb_le; lia).
        cbn [bind]. eexists. split; [reflexivity|]. apply Hpre; cbn [x_n x_idx x_val]; try reflexivity. lia.
      + exists s1. split; [reflexivity|]. apply Hpre; try reflexivity. lia.
  Qed.

  Lemma PreExt_init : PreExt 0 ext0.
  Proof.
    assert (H0 : wstart wd 0 = 0) by (unfold wstart; lia).
    split; [rewrite H0, count_nil; reflexivity|]. left. auto.
  Qed.

  (* ---- the two callbacks ---------------------------------------------------------------------- *)
  Variable mp : nat.

  Definition OutVal (k : nat) (o : option Z) : Prop :=
    exists p, lm (wstart wd k) (S k) p /\
              o = if mp <=? count (wstart wd k) (S k) then ov p else None.
  Definition OutArg (k : nat) (o : option nat) : Prop :=
    exists p, lm (wstart wd k) (S k) p /\
              o = if (mp <=? count (wstart wd k) (S k)) && (match ov p with Some _ => true | None => false end)
                  then Some (p - wstart wd k + 1) else None.

  Lemma vext_cb_step k v s :
    nth_error xs k = Some v -> PreExt k s ->
    exists s' o, vext_cb scmp mp xs s (start_of wd k, k, v) = Ok (s', o) /\ PreExt (S k) s' /\ OutVal k o.
  Proof.
    intros Hv HP.
    assert (Hk : k < length xs) by (apply nth_error_Some; congruence).
    destruct (ext_step_spec k v s Hv HP) as (s1 & Hs1 & HM).
    destruct (ext_post_spec k s1 Hk HM) as (s2 & Hs2 & HP2).
    unfold vext_cb. rewrite Hs1. cbn [bind]. rewrite Hs2. cbn [bind].
    eexists. eexists. split; [reflexivity|]. split; [exact HP2|].
    destruct HM as (Hn & p & Hi & Hval & Hlm). exists p. split; [exact Hlm|]. rewrite Hn, Hval. reflexivity.
  Qed.

  Lemma varg_cb_step k v s :
    nth_error xs k = Some v -> PreExt k s ->
    exists s' o, varg_cb scmp mp xs s (start_of wd k, k, v) = Ok (s', o) /\ PreExt (S k) s' /\ OutArg k o.
  Proof.
    intros Hv HP.
    assert (Hk : k < length xs) by (apply nth_error_Some; congruence).
    destruct (ext_step_spec k v s Hv HP) as (s1 & Hs1 & HM).
    destruct (ext_post_spec k s1 Hk HM) as (s2 & Hs2 & HP2).
    unfold varg_cb. rewrite Hs1. cbn [bind].
    destruct HM as (Hn & p & Hi & Hval & Hlm). rewrite Hn, Hval, Hi.
    assert (Hst : match start_of wd k with Some st => st | None => 0 end = wstart wd k).
    { rewrite start_of_wstart. destruct (k <? wd - 1) eqn:E; [|reflexivity].
      apply Nat.ltb_lt in E. unfold wstart. lia. }
    rewrite Hst.
    destruct ((mp <=? count (wstart wd k) (S k)) && match ov p with Some _ => true | None => false end) eqn:Eb.
    - unfold usub. destruct Hlm as (Hp & Hrest).
      replace (wstart wd k <=? p) with true by (symmetry; apply Nat.leb_le; lia).
      cbn [bind]. rewrite Hs2. cbn [bind].
      eexists. eexists. split; [reflexivity|]. split; [exact HP2|].
      exists p. split; [split; assumption|]. rewrite Eb. reflexivity.
    - cbn [bind]. rewrite Hs2. cbn [bind].
      eexists. eexists. split; [reflexivity|]. split; [exact HP2|].
      exists p. split; [exact Hlm|]. rewrite Eb. reflexivity.
  Qed.
End ExtZ.

(* ---- from the positional invariant to the window specification ---------------------------------- *)
Lemma ole_some x y : ole (Some x) (Some y) <-> (x <= y)%Z.
Proof. unfold ole. cbn. symmetry. apply Z.compare_le_iff. Qed.
Lemma ole_none_some y : ~ ole None (Some y).
Proof. unfold ole. cbn. intros H. apply H. reflexivity. Qed.

Section Extreme.
  Context {T : Type} {DT : IsNone T Z}.
  Variable key : Z -> Z.
  Variable xs : list T.
  Notation ov := (ov xs).
  Notation ovs := (ovs xs).

  Lemma ov_ovs j x : ov j = Some x <-> nth_error ovs j = Some (Some x).
  Proof.
    rewrite ovs_nth. unfold Cmp.ov. destruct (nth_error xs j); cbn; split; intros H; congruence.
  Qed.

  Lemma In_valid_seg a b x :
    In x (validZ (seg a b ovs)) <-> exists j, a <= j < b /\ ov j = Some x.
  Proof.
    rewrite In_validZ. split.
    - intros H. apply In_nth_error in H. destruct H as [o Ho].
      rewrite nth_error_seg in Ho. destruct (o <? b - a) eqn:E; [|discriminate].
      apply Nat.ltb_lt in E. exists (a + o). split; [lia|]. apply ov_ovs. exact Ho.
    - intros (j & Hj & Hx). apply ov_ovs in Hx.
      apply nth_error_In with (n := j - a). rewrite nth_error_seg.
      replace (j - a <? b - a) with true by (symmetry; apply Nat.ltb_lt; lia).
      replace (a + (j - a)) with j by lia. exact Hx.
  Qed.

  Lemma lm_extreme a b p :
    lm key xs a b p ->
    let W := seg a b ovs in
    match ov p with
    | Some m => In m (validZ W) /\ (forall x, In x (validZ W) -> (key m <= key x)%Z) /\
                nth_error W (p - a) = Some (Some m) /\
                (forall j, p - a < j -> nth_error W j <> Some (Some m))
    | None => validZ W = []
    end.
  Proof.
    intros (Hp & Hmin & Hlast) W. destruct (ov p) as [m|] eqn:Em.
    - split; [apply In_valid_seg; exists p; split; [lia|exact Em]|].
      split; [|split].
      + intros x Hx. apply In_valid_seg in Hx. destruct Hx as (j & Hj & Hxj).
        specialize (Hmin j Hj). unfold okey in Hmin. rewrite Em, Hxj in Hmin. cbn in Hmin.
        apply ole_some. exact Hmin.
      + unfold W. rewrite nth_error_seg.
        replace (p - a <? b - a) with true by (symmetry; apply Nat.ltb_lt; lia).
        replace (a + (p - a)) with p by lia. apply ov_ovs. exact Em.
      + intros j Hj Hnth. unfold W in Hnth. rewrite nth_error_seg in Hnth.
        destruct (j <? b - a) eqn:E; [|discriminate]. apply Nat.ltb_lt in E.
        apply ov_ovs in Hnth. apply (Hlast (a + j)); [lia|].
        unfold okey. rewrite Em, Hnth. apply ole_refl.
    - destruct (validZ W) as [|x r] eqn:EV; [reflexivity|]. exfalso.
      assert (Hx : In x (validZ W)) by (rewrite EV; left; reflexivity).
      apply In_valid_seg in Hx. destruct Hx as (j & Hj & Hxj).
      specialize (Hmin j Hj). unfold okey in Hmin. rewrite Em, Hxj in Hmin. cbn in Hmin.
      exact (ole_none_some _ Hmin).
  Qed.
End Extreme.

Lemma lm_list_min {T} {DT : IsNone T Z} (xs : list T) a b p :
  lm (fun x => x) xs a b p -> ov xs p = list_min (validZ (seg a b (ovs xs))).
Proof.
  intros H. pose proof (lm_extreme _ _ _ _ _ H) as HE. cbv zeta in HE. destruct (ov xs p) as [m|].
  - destruct HE as (H1 & H2 & _). symmetry. apply list_min_spec; assumption.
  - rewrite HE. reflexivity.
Qed.
Lemma lm_list_max {T} {DT : IsNone T Z} (xs : list T) a b p :
  lm Z.opp xs a b p -> ov xs p = list_max (validZ (seg a b (ovs xs))).
Proof.
  intros H. pose proof (lm_extreme _ _ _ _ _ H) as HE. cbv zeta in HE. destruct (ov xs p) as [m|].
  - destruct HE as (H1 & H2 & _). symmetry. apply list_max_spec; [exact H1|].
    intros x Hx. specialize (H2 x Hx). lia.
  - rewrite HE. reflexivity.
Qed.

Lemma lm_last_pos {T} {DT : IsNone T Z} key (xs : list T) a b p m :
  lm key xs a b p -> ov xs p = Some m -> last_pos m (seg a b (ovs xs)) = Some (p - a).
Proof.
  intros H Em. pose proof (lm_extreme _ _ _ _ _ H) as HE. cbv zeta in HE. rewrite Em in HE.
  destruct HE as (_ & _ & H3 & H4). apply last_pos_spec; assumption.
Qed.

(* ---- entry points --------------------------------------------------------------------------------- *)
Lemma wstart_clamp w len i : i < len -> wstart (Nat.min len w) i = wstart w i.
Proof. intros Hi. unfold wstart. lia. Qed.

Section Entry.
  Context {T : Type} {DT : IsNone T Z}.
  Variable scmp : option Z -> option Z -> comparison.
  Variable key : Z -> Z.
  Hypothesis scmp_key : forall a b, scmp a b = ocmp (option_map key a) (option_map key b).

  Lemma ts_vext_inv body w mp (xs : list T) :
    1 <= w -> 1 <= length xs ->
    exists out, ts_vext scmp body w mp xs = Done out /\ length out = length xs /\
      forall i o, nth_error out i = Some o ->
        OutVal key xs (cmp_window w xs) (cmp_mp mp (cmp_window w xs)) i o.
  Proof.
    intros Hw Hlen. unfold ts_vext. set (wd := cmp_window w xs).
    assert (Hwd : 1 <= wd) by (unfold wd, cmp_window; lia).
    assert (Heff : eff_window body wd (length xs) = wd)
      by (unfold eff_window, wd, cmp_window; destruct body; lia).
    apply idx_run_spec with (Pre := PreExt key xs wd); [exact Hwd|apply PreExt_init; exact Hwd|].
    intros k v s Hv HP. rewrite Heff. apply vext_cb_step; assumption.
  Qed.

  Lemma ts_varg_inv body w mp (xs : list T) :
    1 <= w -> 1 <= length xs ->
    exists out, ts_varg scmp body w mp xs = Done out /\ length out = length xs /\
      forall i o, nth_error out i = Some o ->
        OutArg key xs (cmp_window w xs) (cmp_mp mp (cmp_window w xs)) i o.
  Proof.
    intros Hw Hlen. unfold ts_varg. set (wd := cmp_window w xs).
    assert (Hwd : 1 <= wd) by (unfold wd, cmp_window; lia).
    assert (Heff : eff_window body wd (length xs) = wd)
      by (unfold eff_window, wd, cmp_window; destruct body; lia).
    apply idx_run_spec with (Pre := PreExt key xs wd); [exact Hwd|apply PreExt_init; exact Hwd|].
    intros k v s Hv HP. rewrite Heff. apply varg_cb_step; assumption.
  Qed.
End Entry.

(* turn "forall i o, nth_error out i = Some o -> P i o" + a functional reading of P into an equation *)
Lemma nth_from_rel {O} (out : list O) n (P : nat -> O -> Prop) (f : nat -> O) :
  length out = n -> (forall i o, nth_error out i = Some o -> P i o) ->
  (forall i o, i < n -> P i o -> o = f i) ->
  forall i, i < n -> nth_error out i = Some (f i).
Proof.
  intros Hl HP Hf i Hi. destruct (nth_error out i) as [o|] eqn:E.
  - f_equal. apply Hf; [exact Hi|apply HP; exact E].
  - apply nth_error_None in E. lia.
Qed.

Section Final.
  Context {T : Type} {DT : IsNone T Z}.

  Theorem ts_vmin_spec body w mp (xs : list T) :
    1 <= w -> 1 <= length xs ->
    exists out, ts_vmin body w mp xs = Done out /\ length out = length xs /\
      forall i, i < length xs ->
        nth_error out i =
        Some (let V := validZ (win w i (map to_opt xs)) in
              if cmp_mp mp (cmp_window w xs) <=? length V then list_min V else None).
  Proof.
    intros Hw Hlen.
    destruct (@ts_vext_inv T DT sort_cmp (fun x => x)) with (body := body) (w := w) (mp := mp) (xs := xs)
      as (out & H1 & H2 & H3); [|exact Hw|exact Hlen|].
    { intros a b. rewrite sort_cmp_Z. destruct a, b; reflexivity. }
    exists out. split; [exact H1|]. split; [exact H2|].
    apply nth_from_rel with (P := OutVal (fun x => x) xs (cmp_window w xs) (cmp_mp mp (cmp_window w xs)));
      [exact H2|exact H3|].
    intros i o Hi (p & Hlm & ->). cbv zeta. rewrite win_seg. unfold cmp_window in *.
    rewrite wstart_clamp in * by exact Hi. unfold count. fold (ovs xs).
    rewrite (lm_list_min _ _ _ _ Hlm). reflexivity.
  Qed.

  Theorem ts_vmax_spec body w mp (xs : list T) :
    1 <= w -> 1 <= length xs ->
    exists out, ts_vmax body w mp xs = Done out /\ length out = length xs /\
      forall i, i < length xs ->
        nth_error out i =
        Some (let V := validZ (win w i (map to_opt xs)) in
              if cmp_mp mp (cmp_window w xs) <=? length V then list_max V else None).
  Proof.
    intros Hw Hlen.
    destruct (@ts_vext_inv T DT sort_cmp_rev Z.opp) with (body := body) (w := w) (mp := mp) (xs := xs)
      as (out & H1 & H2 & H3); [|exact Hw|exact Hlen|].
    { intros a b. apply sort_cmp_rev_Z. }
    exists out. split; [exact H1|]. split; [exact H2|].
    apply nth_from_rel with (P := OutVal Z.opp xs (cmp_window w xs) (cmp_mp mp (cmp_window w xs)));
      [exact H2|exact H3|].
    intros i o Hi (p & Hlm & ->). cbv zeta. rewrite win_seg. unfold cmp_window in *.
    rewrite wstart_clamp in * by exact Hi. unfold count. fold (ovs xs).
    rewrite (lm_list_max _ _ _ _ Hlm). reflexivity.
  Qed.

  Theorem ts_vargmin_spec body w mp (xs : list T) :
    1 <= w -> 1 <= length xs ->
    exists out, ts_vargmin body w mp xs = Done out /\ length out = length xs /\
      forall i, i < length xs ->
        nth_error out i =
        Some (let W := win w i (map to_opt xs) in
              if cmp_mp mp (cmp_window w xs) <=? length (validZ W) then argmin_spec W else None).
  Proof.
    intros Hw Hlen.
    destruct (@ts_varg_inv T DT sort_cmp (fun x => x)) with (body := body) (w := w) (mp := mp) (xs := xs)
      as (out & H1 & H2 & H3); [|exact Hw|exact Hlen|].
    { intros a b. rewrite sort_cmp_Z. destruct a, b; reflexivity. }
    exists out. split; [exact H1|]. split; [exact H2|].
    apply nth_from_rel with (P := OutArg (fun x => x) xs (cmp_window w xs) (cmp_mp mp (cmp_window w xs)));
      [exact H2|exact H3|].
    intros i o Hi (p & Hlm & ->). cbv zeta. rewrite win_seg. unfold cmp_window in *.
    rewrite wstart_clamp in * by exact Hi. unfold count. fold (ovs xs).
    unfold argmin_spec. rewrite <- (lm_list_min _ _ _ _ Hlm).
    destruct (cmp_mp mp (Nat.min (length xs) w) <=? length (validZ (seg (wstart w i) (S i) (ovs xs))));
      [|reflexivity]. cbn [andb].
    destruct (ov xs p) as [m|] eqn:Em; [|reflexivity].
    rewrite (lm_last_pos _ _ _ _ _ _ Hlm Em). cbn [option_map]. f_equal. lia.
  Qed.

  Theorem ts_vargmax_spec body w mp (xs : list T) :
    1 <= w -> 1 <= length xs ->
    exists out, ts_vargmax body w mp xs = Done out /\ length out = length xs /\
      forall i, i < length xs ->
        nth_error out i =
        Some (let W := win w i (map to_opt xs) in
              if cmp_mp mp (cmp_window w xs) <=? length (validZ W) then argmax_spec W else None).
  Proof.
    intros Hw Hlen.
    destruct (@ts_varg_inv T DT sort_cmp_rev Z.opp) with (body := body) (w := w) (mp := mp) (xs := xs)
      as (out & H1 & H2 & H3); [|exact Hw|exact Hlen|].
    { intros a b. apply sort_cmp_rev_Z. }
    exists out. split; [exact H1|]. split; [exact H2|].
    apply nth_from_rel with (P := OutArg Z.opp xs (cmp_window w xs) (cmp_mp mp (cmp_window w xs)));
      [exact H2|exact H3|].
    intros i o Hi (p & Hlm & ->). cbv zeta. rewrite win_seg. unfold cmp_window in *.
    rewrite wstart_clamp in * by exact Hi. unfold count. fold (ovs xs).
    unfold argmax_spec. rewrite <- (lm_list_max _ _ _ _ Hlm).
    destruct (cmp_mp mp (Nat.min (length xs) w) <=? length (validZ (seg (wstart w i) (S i) (ovs xs))));
      [|reflexivity]. cbn [andb].
    destruct (ov xs p) as [m|] eqn:Em; [|reflexivity].
    rewrite (lm_last_pos _ _ _ _ _ _ Hlm Em). cbn [option_map]. f_equal. lia.
  Qed.
End Final.

(* ---- the cached-extreme invariant, as a statement about the state BETWEEN the steps -------------- *)
Section CacheInvariant.
  Context {T : Type} {DT : IsNone T Z}.
  Variable scmp : option Z -> option Z -> comparison.
  Variable key : Z -> Z.
  Hypothesis scmp_key : forall a b, scmp a b = ocmp (option_map key a) (option_map key b).

  (* after k steps (k <= len) of either extreme function: the count is that of the positions the next
     window keeps, and the cache is the last extreme position of the window just left *)
  Theorem ext_cache_invariant w mp (xs : list T) k :
    1 <= w -> 1 <= length xs -> k <= length xs ->
    let wd := cmp_window w xs in
    exists s,
      state_after (lift_cb (vext_cb scmp (cmp_mp mp wd) xs)) (Ok ext0)
                  (firstn k (mapi (fun i v => (start_of wd i, i, v)) xs)) = Ok s /\
      PreExt key xs wd k s.
  Proof.
    intros Hw Hlen Hk wd.
    assert (Hwd : 1 <= wd) by (unfold wd, cmp_window; lia).
    apply (state_lift (vext_cb scmp (cmp_mp mp wd) xs) xs (start_of wd) (PreExt key xs wd)
                      (OutVal key xs wd (cmp_mp mp wd))).
    - intros j v s Hv HP. apply vext_cb_step; assumption.
    - apply PreExt_init. exact Hwd.
    - exact Hk.
  Qed.

  (* "fresh or stale": before step k the cached index is either inside the new window — then it is still the
     last extreme of what remains of it — or strictly before its start, which is exactly the expiry test *)
  Lemma cache_fresh_or_stale (xs : list T) wd k s :
    1 <= wd -> 0 < k -> PreExt key xs wd k s ->
    exists p, x_idx s = Some p /\ x_val s = ov xs p /\
              ((wstart wd k <= p /\ lm key xs (wstart wd k) k p) \/
               (p < wstart wd k /\ opt_lt (x_idx s) (start_of wd k) = true)).
  Proof.
    intros Hwd Hk [_ [(H0 & _)|(_ & p & Hi & Hv & Hlm)]]; [lia|].
    exists p. split; [exact Hi|]. split; [exact Hv|].
    destruct (Nat.le_gt_cases (wstart wd k) p) as [Hle|Hgt].
    - left. split; [exact Hle|]. apply lm_drop with (wstart wd (k - 1)); [exact Hlm|].
      split; [unfold wstart; lia|exact Hle].
    - right. split; [exact Hgt|]. rewrite Hi, (start_of_wstart wd Hwd).
      destruct (k <? wd - 1) eqn:E.
      + apply Nat.ltb_lt in E. unfold wstart in Hgt. lia.
      + cbn. apply Nat.ltb_lt. exact Hgt.
  Qed.
End CacheInvariant.
