(* Proofs/MapOps.v — lemmas about Model/MapOps.v (property C13). *)
From Tevec Require Import Base.Prelude Model.MapOps.
Set Implicit Arguments.

Lemma fill_mask_length {T} (mask : T -> bool) v (xs : list T) : length (fill_mask mask v xs) = length xs.
Proof. unfold fill_mask. apply map_length. Qed.
