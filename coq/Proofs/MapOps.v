(* Proofs/MapOps.v — the models of Model/MapOps.v meet the positional definitions of Spec/MapOps.v
   (property C13).  Stdlib only, axiom-free.                                                       *)
From Coq Require Import ZifyBool.
From Tevec Require Import Base.Prelude Model.MapOps Spec.MapOps.
Set Implicit Arguments.
Local Open Scope Z_scope.

(* ------------------------------------------------------------------------------------------------ *)
(* generic list facts *)

Lemma nth_error_tabulate {A} (f : nat -> A) n i :
  nth_error (tabulate f n) i = if (i <? n)%nat then Some (f i) else None.
Proof.
  unfold tabulate. rewrite nth_error_map, nth_error_seq.
  destruct (i <? n)%nat; reflexivity.
Qed.

Lemma tabulate_length {A} (f : nat -> A) n : length (tabulate f n) = n.
Proof. unfold tabulate. rewrite map_length, seq_length. reflexivity. Qed.

Lemma nth_error_Some_lt {A} (l : list A) i x : nth_error l i = Some x -> (i < length l)%nat.
Proof. intros H. apply nth_error_Some. rewrite H. discriminate. Qed.

Lemma nth_error_rev {A} (l : list A) i :
  (i < length l)%nat -> nth_error (rev l) i = nth_error l (length l - S i).
Proof.
  induction l as [|a l IH]; intros Hi; [cbn in Hi; lia|].
  cbn [rev length]. cbn [length] in Hi.
  destruct (Nat.eq_dec i (length l)) as [->|Hne].
  - rewrite nth_error_app2 by (rewrite rev_length; lia).
    rewrite rev_length, !Nat.sub_diag. reflexivity.
  - rewrite nth_error_app1 by (rewrite rev_length; lia).
    rewrite IH by lia.
    replace (S (length l) - S i)%nat with (S (length l - S i)) by lia. reflexivity.
Qed.

Lemma ltb_true a b : (a < b)%nat -> (a <? b)%nat = true.
Proof. intros. apply Nat.ltb_lt. assumption. Qed.
Lemma ltb_false a b : (b <= a)%nat -> (a <? b)%nat = false.
Proof. intros. apply Nat.ltb_ge. assumption. Qed.

(* ------------------------------------------------------------------------------------------------ *)
(* sequence / mapM *)

Lemma sequence_map_Ok {A} (l : list A) : sequence (map (@Ok A) l) = Ok l.
Proof. induction l as [|a l IH]; [reflexivity|]. cbn. rewrite IH. reflexivity. Qed.

Lemma sequence_length {A} (l : list (res A)) r : sequence l = Ok r -> length r = length l.
Proof.
  revert r; induction l as [|a l IH]; intros r H; cbn in H.
  - injection H as <-. reflexivity.
  - destruct a as [a|k]; cbn in H; [|discriminate].
    destruct (sequence l) as [t|k]; cbn in H; [|discriminate].
    injection H as <-. cbn. f_equal. apply IH. reflexivity.
Qed.

Lemma mapM_pointwise {A B} (f : A -> res B) (g : A -> B) (l : list A) :
  (forall x, In x l -> f x = Ok (g x)) -> mapM f l = Ok (map g l).
Proof.
  intros H. unfold mapM. rewrite <- sequence_map_Ok. f_equal.
  rewrite map_map. apply map_ext_in. exact H.
Qed.

Lemma mapM_length {A B} (f : A -> res B) (l : list A) r : mapM f l = Ok r -> length r = length l.
Proof. unfold mapM. intros H. apply sequence_length in H. rewrite map_length in H. exact H. Qed.

(* ------------------------------------------------------------------------------------------------ *)
(* shift / vshift *)

Section ShiftProofs.
  Context {T : Type}.

  Lemma shift_spec (n : Z) (v : T) (xs : list T) :
    shift n v xs = Ok (tabulate (shift_at n v xs) (length xs)).
  Proof.
    unfold shift.
    destruct (Z.of_nat (length xs) <=? Z.abs n) eqn:Hguard.
    - (* |n| >= len: all fill *)
      f_equal. apply nth_error_ext. intros i.
      rewrite nth_error_repeat, nth_error_tabulate.
      destruct (i <? length xs)%nat eqn:Hi; [|reflexivity].
      apply Nat.ltb_lt in Hi. f_equal. unfold shift_at, in_range, src.
      destruct ((0 <=? Z.of_nat i - n) && (Z.of_nat i - n <? Z.of_nat (length xs))) eqn:E; [|reflexivity].
      lia.
    - apply Z.leb_gt in Hguard.
      destruct (0 <? n) eqn:Hpos.
      + (* n > 0 *)
        apply Z.ltb_lt in Hpos. unfold usub.
        rewrite (proj2 (Nat.leb_le _ _)) by lia. cbn [bind]. f_equal.
        apply nth_error_ext. intros i.
        rewrite nth_error_app, repeat_length, nth_error_repeat, nth_error_firstn, nth_error_tabulate.
        unfold shift_at, in_range, src.
        destruct (i <? Z.to_nat (Z.abs n))%nat eqn:Hik.
        * apply Nat.ltb_lt in Hik. rewrite ltb_true by lia. f_equal.
          destruct ((0 <=? Z.of_nat i - n) && (Z.of_nat i - n <? Z.of_nat (length xs))) eqn:E; [lia|reflexivity].
        * apply Nat.ltb_ge in Hik.
          destruct (i <? length xs)%nat eqn:Hi.
          -- apply Nat.ltb_lt in Hi. rewrite ltb_true by lia.
             replace ((0 <=? Z.of_nat i - n) && (Z.of_nat i - n <? Z.of_nat (length xs))) with true by lia.
             replace (Z.to_nat (Z.of_nat i - n)) with (i - Z.to_nat (Z.abs n))%nat by lia.
             apply nth_error_nth'. lia.
          -- apply Nat.ltb_ge in Hi. rewrite ltb_false by lia. reflexivity.
      + apply Z.ltb_ge in Hpos.
        destruct (n <? 0) eqn:Hneg.
        * (* n < 0 *)
          apply Z.ltb_lt in Hneg. f_equal.
          apply nth_error_ext. intros i.
          rewrite nth_error_app, skipn_length, nth_error_skipn, nth_error_repeat, nth_error_tabulate.
          unfold shift_at, in_range, src.
          destruct (i <? length xs - Z.to_nat (Z.abs n))%nat eqn:Hik.
          -- apply Nat.ltb_lt in Hik. rewrite ltb_true by lia.
             replace ((0 <=? Z.of_nat i - n) && (Z.of_nat i - n <? Z.of_nat (length xs))) with true by lia.
             replace (Z.to_nat (Z.of_nat i - n)) with (Z.to_nat (Z.abs n) + i)%nat by lia.
             apply nth_error_nth'. lia.
          -- apply Nat.ltb_ge in Hik.
             destruct (i <? length xs)%nat eqn:Hi.
             ++ apply Nat.ltb_lt in Hi. rewrite ltb_true by lia. f_equal.
                destruct ((0 <=? Z.of_nat i - n) && (Z.of_nat i - n <? Z.of_nat (length xs))) eqn:E;
                  [lia|reflexivity].
             ++ apply Nat.ltb_ge in Hi. rewrite ltb_false by lia. reflexivity.
        * (* n = 0 *)
          apply Z.ltb_ge in Hneg. assert (n = 0) by lia. subst n. f_equal.
          apply nth_error_ext. intros i. rewrite nth_error_tabulate.
          unfold shift_at, in_range, src.
          destruct (i <? length xs)%nat eqn:Hi.
          -- apply Nat.ltb_lt in Hi.
             replace ((0 <=? Z.of_nat i - 0) && (Z.of_nat i - 0 <? Z.of_nat (length xs))) with true by lia.
             replace (Z.to_nat (Z.of_nat i - 0)) with i by lia.
             apply nth_error_nth'. lia.
          -- apply Nat.ltb_ge in Hi. apply nth_error_None. lia.
  Qed.

  (* the statement of the property: total, length-preserving, positional *)
  Theorem shift_positional (n : Z) (v : T) (xs : list T) :
    exists r, shift n v xs = Ok r /\ length r = length xs /\
      forall i, (i < length xs)%nat -> nth_error r i = Some (shift_at n v xs i).
  Proof.
    exists (tabulate (shift_at n v xs) (length xs)). split; [apply shift_spec|]. split.
    - apply tabulate_length.
    - intros i Hi. rewrite nth_error_tabulate, ltb_true by lia. reflexivity.
  Qed.

  Theorem vshift_positional {I} (d : NullDict T I) (n : Z) (value : option T) (v : T) (xs : list T) :
    or_none d value = Ok v ->
    exists r, vshift d n value xs = Ok r /\ length r = length xs /\
      forall i, (i < length xs)%nat -> nth_error r i = Some (shift_at n v xs i).
  Proof. intros Hv. unfold vshift. rewrite Hv. cbn [bind]. apply shift_positional. Qed.

  Lemma vshift_none_panics {I} (d : NullDict T I) (n : Z) (xs : list T) k :
    none d = Panic k -> vshift d n None xs = Panic k.
  Proof. intros H. unfold vshift, or_none. rewrite H. reflexivity. Qed.

  (* reading shift_at: moved by n places, fill in the vacated places *)
  Lemma shift_at_moved n (v : T) xs (j : nat) :
    (j < length xs)%nat -> 0 <= Z.of_nat j + n < Z.of_nat (length xs) ->
    shift_at n v xs (Z.to_nat (Z.of_nat j + n)) = nth j xs v.
  Proof.
    intros Hj Hr. unfold shift_at, in_range, src.
    replace (Z.of_nat (Z.to_nat (Z.of_nat j + n)) - n) with (Z.of_nat j) by lia.
    replace ((0 <=? Z.of_nat j) && (Z.of_nat j <? Z.of_nat (length xs))) with true by lia.
    rewrite Nat2Z.id. reflexivity.
  Qed.

  Lemma shift_at_vacated n (v : T) xs (i : nat) :
    (Z.of_nat i < n \/ Z.of_nat (length xs) + n <= Z.of_nat i) -> shift_at n v xs i = v.
  Proof.
    intros H. unfold shift_at, in_range, src.
    destruct ((0 <=? Z.of_nat i - n) && (Z.of_nat i - n <? Z.of_nat (length xs))) eqn:E; [lia|reflexivity].
  Qed.
End ShiftProofs.

(* ------------------------------------------------------------------------------------------------ *)
(* vdiff *)

Section DiffProofs.
  Context {T I : Type} (d : NullDict T I) (sub : T -> T -> T).

  Lemma nth_error_map_combine {A B C} (f : A * B -> C) (l1 : list A) (l2 : list B) i :
    nth_error (map f (combine l1 l2)) i =
    match nth_error l1 i, nth_error l2 i with Some a, Some b => Some (f (a, b)) | _, _ => None end.
  Proof.
    rewrite nth_error_map, nth_error_combine.
    destruct (nth_error l1 i), (nth_error l2 i); reflexivity.
  Qed.

  Lemma vdiff_spec (n : Z) (value : option T) (v : T) (xs : list T) :
    or_none d value = Ok v ->
    vdiff d sub n value xs = Ok (tabulate (diff_at sub n v xs) (length xs)).
  Proof.
    intros Hv. unfold vdiff. rewrite Hv. cbn [bind].
    destruct (Z.of_nat (length xs) <=? Z.abs n) eqn:Hguard.
    - f_equal. apply nth_error_ext. intros i.
      rewrite nth_error_repeat, nth_error_tabulate.
      destruct (i <? length xs)%nat eqn:Hi; [|reflexivity].
      apply Nat.ltb_lt in Hi. f_equal. unfold diff_at, in_range, src.
      destruct ((0 <=? Z.of_nat i - n) && (Z.of_nat i - n <? Z.of_nat (length xs))) eqn:E; [|reflexivity].
      lia.
    - apply Z.leb_gt in Hguard.
      destruct (0 <? n) eqn:Hpos.
      + apply Z.ltb_lt in Hpos. unfold usub.
        rewrite (proj2 (Nat.leb_le _ _)) by lia. cbn [bind]. f_equal.
        apply nth_error_ext. intros i.
        rewrite nth_error_app, repeat_length, nth_error_repeat, nth_error_map_combine,
          nth_error_firstn, nth_error_skipn, nth_error_tabulate.
        unfold diff_at, in_range, src. cbn [fst snd].
        destruct (i <? Z.to_nat (Z.abs n))%nat eqn:Hik.
        * apply Nat.ltb_lt in Hik. rewrite ltb_true by lia. f_equal.
          destruct ((0 <=? Z.of_nat i - n) && (Z.of_nat i - n <? Z.of_nat (length xs))) eqn:E; [lia|reflexivity].
        * apply Nat.ltb_ge in Hik.
          destruct (i <? length xs)%nat eqn:Hi.
          -- apply Nat.ltb_lt in Hi. rewrite ltb_true by lia.
             replace ((0 <=? Z.of_nat i - n) && (Z.of_nat i - n <? Z.of_nat (length xs))) with true by lia.
             replace (Z.to_nat (Z.of_nat i - n)) with (i - Z.to_nat (Z.abs n))%nat by lia.
             replace (Z.to_nat (Z.abs n) + (i - Z.to_nat (Z.abs n)))%nat with i by lia.
             rewrite (nth_error_nth' xs v (n:=i - Z.to_nat (Z.abs n))) by lia.
             rewrite (nth_error_nth' xs v (n:=i)) by lia. reflexivity.
          -- apply Nat.ltb_ge in Hi. rewrite ltb_false by lia. reflexivity.
      + apply Z.ltb_ge in Hpos. f_equal.
        apply nth_error_ext. intros i.
        rewrite nth_error_app, map_length, combine_length, skipn_length, nth_error_map_combine,
          nth_error_skipn, nth_error_repeat, nth_error_tabulate.
        unfold diff_at, in_range, src. cbn [fst snd].
        replace (Nat.min (length xs - Z.to_nat (Z.abs n)) (length xs)) with (length xs - Z.to_nat (Z.abs n))%nat by lia.
        destruct (i <? length xs - Z.to_nat (Z.abs n))%nat eqn:Hik.
        * apply Nat.ltb_lt in Hik. rewrite ltb_true by lia.
          replace ((0 <=? Z.of_nat i - n) && (Z.of_nat i - n <? Z.of_nat (length xs))) with true by lia.
          replace (Z.to_nat (Z.of_nat i - n)) with (Z.to_nat (Z.abs n) + i)%nat by lia.
          rewrite (nth_error_nth' xs v (n:=Z.to_nat (Z.abs n) + i)) by lia.
          rewrite (nth_error_nth' xs v (n:=i)) by lia. reflexivity.
        * apply Nat.ltb_ge in Hik.
          destruct (i <? length xs)%nat eqn:Hi.
          -- apply Nat.ltb_lt in Hi. rewrite ltb_true by lia. f_equal.
             destruct ((0 <=? Z.of_nat i - n) && (Z.of_nat i - n <? Z.of_nat (length xs))) eqn:E;
               [lia|reflexivity].
          -- apply Nat.ltb_ge in Hi. rewrite ltb_false by lia. reflexivity.
  Qed.

  Theorem vdiff_positional (n : Z) (value : option T) (v : T) (xs : list T) :
    or_none d value = Ok v ->
    exists r, vdiff d sub n value xs = Ok r /\ length r = length xs /\
      forall i, (i < length xs)%nat -> nth_error r i = Some (diff_at sub n v xs i).
  Proof.
    intros Hv. exists (tabulate (diff_at sub n v xs) (length xs)).
    split; [apply vdiff_spec; exact Hv|]. split.
    - apply tabulate_length.
    - intros i Hi. rewrite nth_error_tabulate, ltb_true by lia. reflexivity.
  Qed.

  Lemma vdiff_none_panics (n : Z) (xs : list T) k :
    none d = Panic k -> vdiff d sub n None xs = Panic k.
  Proof. intros H. unfold vdiff, or_none. rewrite H. reflexivity. Qed.

  (* a null operand gives a null result whenever subtraction propagates nulls (NaN arithmetic) *)
  Lemma diff_at_null (n : Z) (v : T) (xs : list T) (i : nat) :
    (forall a b, is_none d a = true \/ is_none d b = true -> is_none d (sub b a) = true) ->
    in_range (length xs) (src n i) = true ->
    is_none d (nth i xs v) = true \/ is_none d (nth (Z.to_nat (src n i)) xs v) = true ->
    is_none d (diff_at sub n v xs i) = true.
  Proof.
    intros Hsub Hr Hn. unfold diff_at. rewrite Hr. apply Hsub. tauto.
  Qed.

  Lemma diff_at_out (n : Z) (v : T) (xs : list T) (i : nat) :
    in_range (length xs) (src n i) = false -> diff_at sub n v xs i = v.
  Proof. intros Hr. unfold diff_at. rewrite Hr. reflexivity. Qed.
End DiffProofs.

(* the exact integer instance: x[i] - x[i-n] *)
Lemma diff_at_Z (n v : Z) (xs : list Z) (i : nat) :
  in_range (length xs) (src n i) = true ->
  diff_at Z.sub n v xs i = nth i xs v - nth (Z.to_nat (src n i)) xs v.
Proof. intros Hr. unfold diff_at. rewrite Hr. reflexivity. Qed.

(* ------------------------------------------------------------------------------------------------ *)
(* vpct_change *)

Section PctProofs.
  Context {T I F : Type} (d : NullDict T I) (o : FOps F) (cast : T -> F).
  (* the two facts about f64 and Cast<f64> the n > 0 branch relies on *)
  Hypothesis cast_null : forall v, fisnan o (cast v) = is_none d v.
  Hypothesis nan_null : fisnan o (fnanv o) = true.

  Lemma pct_neg_formula a b : pct_neg d o cast a b = pct_formula d o cast a b.
  Proof.
    unfold pct_neg, pct_formula.
    destruct (is_none d a), (is_none d b), (fis0 o (cast a)); reflexivity.
  Qed.
  Lemma pct_pos_formula a b : pct_pos d o cast (cast a) b = pct_formula d o cast a b.
  Proof. unfold pct_pos, pct_formula. rewrite cast_null. reflexivity. Qed.
  Lemma pct_pos_nan b : pct_pos d o cast (fnanv o) b = fnanv o.
  Proof. unfold pct_pos. rewrite nan_null. reflexivity. Qed.

  Lemma vpct_change_spec (n : Z) (xs : list T) :
    vpct_change d o cast n xs = Ok (tabulate (pct_at d o cast n xs) (length xs)).
  Proof.
    unfold vpct_change.
    destruct (Z.of_nat (length xs) <=? Z.abs n) eqn:Hguard.
    - f_equal. apply nth_error_ext. intros i.
      rewrite nth_error_repeat, nth_error_tabulate.
      destruct (i <? length xs)%nat eqn:Hi; [|reflexivity].
      apply Nat.ltb_lt in Hi. f_equal. unfold pct_at, in_range, src.
      destruct ((0 <=? Z.of_nat i - n) && (Z.of_nat i - n <? Z.of_nat (length xs))) eqn:E; [|reflexivity].
      lia.
    - apply Z.leb_gt in Hguard.
      destruct (0 <? n) eqn:Hpos.
      + apply Z.ltb_lt in Hpos. unfold usub.
        rewrite (proj2 (Nat.leb_le _ _)) by lia. cbn [bind]. f_equal.
        apply nth_error_ext. intros i.
        rewrite nth_error_map_combine, nth_error_app, repeat_length, nth_error_repeat, nth_error_map,
          nth_error_firstn, nth_error_tabulate.
        unfold pct_at, in_range, src. cbn [fst snd].
        destruct (i <? length xs)%nat eqn:Hi.
        * apply Nat.ltb_lt in Hi.
          destruct (nth_error xs i) as [b|] eqn:Hb; [|apply nth_error_None in Hb; lia].
          destruct (i <? Z.to_nat (Z.abs n))%nat eqn:Hik.
          -- apply Nat.ltb_lt in Hik. rewrite pct_pos_nan. f_equal.
             destruct ((0 <=? Z.of_nat i - n) && (Z.of_nat i - n <? Z.of_nat (length xs))) eqn:E;
               [lia|reflexivity].
          -- apply Nat.ltb_ge in Hik. rewrite ltb_true by lia.
             replace ((0 <=? Z.of_nat i - n) && (Z.of_nat i - n <? Z.of_nat (length xs))) with true by lia.
             replace (Z.to_nat (Z.of_nat i - n)) with (i - Z.to_nat (Z.abs n))%nat by lia.
             destruct (nth_error xs (i - Z.to_nat (Z.abs n))) as [a|] eqn:Ha;
               [|apply nth_error_None in Ha; lia].
             cbn [option_map]. rewrite pct_pos_formula. reflexivity.
        * apply Nat.ltb_ge in Hi.
          assert (Hb : nth_error xs i = None) by (apply nth_error_None; lia). rewrite Hb.
          destruct (if (i <? Z.to_nat (Z.abs n))%nat then _ else _); reflexivity.
      + apply Z.ltb_ge in Hpos. f_equal.
        apply nth_error_ext. intros i.
        rewrite nth_error_app, map_length, combine_length, skipn_length, nth_error_map_combine,
          nth_error_skipn, nth_error_repeat, nth_error_tabulate.
        unfold pct_at, in_range, src. cbn [fst snd].
        replace (Nat.min (length xs - Z.to_nat (Z.abs n)) (length xs)) with (length xs - Z.to_nat (Z.abs n))%nat by lia.
        destruct (i <? length xs - Z.to_nat (Z.abs n))%nat eqn:Hik.
        * apply Nat.ltb_lt in Hik. rewrite ltb_true by lia.
          replace ((0 <=? Z.of_nat i - n) && (Z.of_nat i - n <? Z.of_nat (length xs))) with true by lia.
          replace (Z.to_nat (Z.of_nat i - n)) with (Z.to_nat (Z.abs n) + i)%nat by lia.
          destruct (nth_error xs (Z.to_nat (Z.abs n) + i)) as [a|] eqn:Ha;
            [|apply nth_error_None in Ha; lia].
          destruct (nth_error xs i) as [b|] eqn:Hb; [|apply nth_error_None in Hb; lia].
          rewrite pct_neg_formula. reflexivity.
        * apply Nat.ltb_ge in Hik.
          destruct (i <? length xs)%nat eqn:Hi.
          -- apply Nat.ltb_lt in Hi. rewrite ltb_true by lia. f_equal.
             destruct ((0 <=? Z.of_nat i - n) && (Z.of_nat i - n <? Z.of_nat (length xs))) eqn:E;
               [lia|reflexivity].
          -- apply Nat.ltb_ge in Hi. rewrite ltb_false by lia. reflexivity.
  Qed.

  Theorem vpct_change_positional (n : Z) (xs : list T) :
    exists r, vpct_change d o cast n xs = Ok r /\ length r = length xs /\
      forall i, (i < length xs)%nat -> nth_error r i = Some (pct_at d o cast n xs i).
  Proof.
    exists (tabulate (pct_at d o cast n xs) (length xs)).
    split; [apply vpct_change_spec|]. split.
    - apply tabulate_length.
    - intros i Hi. rewrite nth_error_tabulate, ltb_true by lia. reflexivity.
  Qed.

  (* reading pct_formula *)
  Lemma pct_formula_defined a b :
    is_none d a = false -> is_none d b = false -> fis0 o (cast a) = false ->
    pct_formula d o cast a b = fsub o (fdiv o (cast b) (cast a)) (fone o).
  Proof. intros Ha Hb H0. unfold pct_formula. rewrite Ha, Hb, H0. reflexivity. Qed.
  Lemma pct_formula_null a b :
    is_none d a = true \/ is_none d b = true \/ fis0 o (cast a) = true ->
    pct_formula d o cast a b = fnanv o.
  Proof.
    intros H. unfold pct_formula.
    destruct (is_none d a), (is_none d b), (fis0 o (cast a)); try reflexivity.
    destruct H as [H|[H|H]]; discriminate.
  Qed.
End PctProofs.

(* ------------------------------------------------------------------------------------------------ *)
(* ffill / bfill / fill *)

Section FillProofs.
  Context {T I : Type} (d : NullDict T I).

  Lemma last_valid_snoc (mask : T -> bool) l v :
    last_valid mask (l ++ [v]) = if mask v then last_valid mask l else Some v.
  Proof.
    unfold last_valid. rewrite rev_app_distr. cbn [rev app find].
    destruct (mask v); reflexivity.
  Qed.

  (* the closure state is the nearest earlier unmasked element *)
  Lemma ffill_state (mask : T -> bool) value l :
    state_after (ffill_step d mask value) None l = last_valid mask l.
  Proof.
    induction l as [|v l IH] using rev_ind; [reflexivity|].
    rewrite state_after_app, IH, last_valid_snoc. cbn [state_after]. unfold ffill_step.
    destruct (mask v); reflexivity.
  Qed.

  Lemma ffill_run (mask : T -> bool) value dv xs :
    or_none d value = Ok dv ->
    run (ffill_step d mask value) None xs = map (@Ok T) (mapi (ffill_at mask dv xs) xs).
  Proof.
    intros Hv. apply nth_error_ext. intros i.
    rewrite nth_error_map, nth_error_mapi.
    destruct (nth_error xs i) as [x|] eqn:Hx.
    - rewrite (run_nth _ _ _ _ Hx), ffill_state. cbn [option_map]. f_equal.
      unfold ffill_step, ffill_at. destruct (mask x); [|reflexivity]. cbn [snd].
      destruct (last_valid mask (firstn i xs)); [reflexivity|].
      unfold or_none in Hv. exact Hv.
    - cbn [option_map]. apply nth_error_None. rewrite run_length. apply nth_error_None. exact Hx.
  Qed.

  Theorem ffill_mask_spec (mask : T -> bool) value dv xs :
    or_none d value = Ok dv ->
    ffill_mask d mask value xs = Ok (mapi (ffill_at mask dv xs) xs).
  Proof. intros Hv. unfold ffill_mask. rewrite (ffill_run _ _ _ Hv). apply sequence_map_Ok. Qed.

  (* when nothing is selected by the mask (e.g. is_none on an integer series) the default is never
     needed: identity, even where `none()` would panic *)
  Lemma ffill_run_unmasked (mask : T -> bool) value xs s :
    (forall x, In x xs -> mask x = false) ->
    run (ffill_step d mask value) s xs = map (@Ok T) xs.
  Proof.
    revert s; induction xs as [|x xs IH]; intros s H; [reflexivity|].
    cbn [run map]. unfold ffill_step at 1. rewrite (H x) by (left; reflexivity).
    f_equal. apply IH. intros y Hy. apply H. right. exact Hy.
  Qed.

  Theorem ffill_mask_unmasked (mask : T -> bool) value xs :
    (forall x, In x xs -> mask x = false) -> ffill_mask d mask value xs = Ok xs.
  Proof. intros H. unfold ffill_mask. rewrite ffill_run_unmasked by exact H. apply sequence_map_Ok. Qed.

  Theorem bfill_mask_unmasked (mask : T -> bool) value xs :
    (forall x, In x xs -> mask x = false) -> bfill_mask d mask value xs = Ok xs.
  Proof.
    intros H. unfold bfill_mask. rewrite ffill_run_unmasked.
    - rewrite sequence_map_Ok. cbn [bind]. rewrite rev_involutive. reflexivity.
    - intros x Hx. apply H. apply in_rev. exact Hx.
  Qed.

  Theorem bfill_mask_spec (mask : T -> bool) value dv xs :
    or_none d value = Ok dv ->
    bfill_mask d mask value xs = Ok (mapi (bfill_at mask dv xs) xs).
  Proof.
    intros Hv. unfold bfill_mask.
    change (sequence (run (ffill_step d mask value) None (rev xs))) with (ffill_mask d mask value (rev xs)).
    rewrite (ffill_mask_spec _ _ _ Hv). cbn [bind]. f_equal.
    apply nth_error_ext. intros i.
    destruct (i <? length xs)%nat eqn:Hi.
    - apply Nat.ltb_lt in Hi.
      rewrite nth_error_rev by (rewrite mapi_length, rev_length; exact Hi).
      rewrite mapi_length, rev_length, !nth_error_mapi.
      rewrite nth_error_rev by lia.
      replace (length xs - S (length xs - S i))%nat with i by lia.
      destruct (nth_error xs i) as [x|] eqn:Hx; [|reflexivity]. cbn [option_map]. f_equal.
      unfold ffill_at, bfill_at. destruct (mask x); [|reflexivity].
      rewrite firstn_rev.
      replace (length xs - (length xs - S i))%nat with (S i) by lia.
      unfold last_valid, next_valid. rewrite rev_involutive. reflexivity.
    - apply Nat.ltb_ge in Hi.
      transitivity (@None T); [|symmetry]; apply nth_error_None.
      + rewrite rev_length, mapi_length, rev_length. exact Hi.
      + rewrite mapi_length. exact Hi.
  Qed.

  (* positional form, with the length *)
  Theorem ffill_mask_positional (mask : T -> bool) value dv xs :
    or_none d value = Ok dv ->
    exists r, ffill_mask d mask value xs = Ok r /\ length r = length xs /\
      forall i x, nth_error xs i = Some x -> nth_error r i = Some (ffill_at mask dv xs i x).
  Proof.
    intros Hv. exists (mapi (ffill_at mask dv xs) xs). split; [apply ffill_mask_spec; exact Hv|].
    split; [apply mapi_length|]. intros i x Hx. rewrite nth_error_mapi, Hx. reflexivity.
  Qed.
  Theorem bfill_mask_positional (mask : T -> bool) value dv xs :
    or_none d value = Ok dv ->
    exists r, bfill_mask d mask value xs = Ok r /\ length r = length xs /\
      forall i x, nth_error xs i = Some x -> nth_error r i = Some (bfill_at mask dv xs i x).
  Proof.
    intros Hv. exists (mapi (bfill_at mask dv xs) xs). split; [apply bfill_mask_spec; exact Hv|].
    split; [apply mapi_length|]. intros i x Hx. rewrite nth_error_mapi, Hx. reflexivity.
  Qed.

  (* whenever they return at all, the length is the input's *)
  Lemma ffill_mask_length (mask : T -> bool) value xs r :
    ffill_mask d mask value xs = Ok r -> length r = length xs.
  Proof. unfold ffill_mask. intros H. apply sequence_length in H. rewrite run_length in H. exact H. Qed.
  Lemma bfill_mask_length (mask : T -> bool) value xs r :
    bfill_mask d mask value xs = Ok r -> length r = length xs.
  Proof.
    unfold bfill_mask. intros H.
    destruct (sequence (run (ffill_step d mask value) None (rev xs))) as [l|k] eqn:E; [|discriminate].
    cbn in H. injection H as <-. apply sequence_length in E.
    rewrite run_length, rev_length in E. rewrite rev_length. exact E.
  Qed.

  (* what last_valid / next_valid mean: the NEAREST earlier / later unmasked element *)
  Lemma next_valid_Some (mask : T -> bool) l y :
    next_valid mask l = Some y <->
    exists j, nth_error l j = Some y /\ mask y = false /\
              forall k x, (k < j)%nat -> nth_error l k = Some x -> mask x = true.
  Proof.
    unfold next_valid. induction l as [|a l IH]; cbn [find].
    - split; [discriminate|]. intros (j & Hj & _). destruct j; discriminate.
    - destruct (mask a) eqn:Ha; cbn [negb].
      + rewrite IH. split.
        * intros (j & Hj & Hy & Hall). exists (S j). split; [exact Hj|]. split; [exact Hy|].
          intros k x Hk Hx. destruct k as [|k]; [cbn in Hx; injection Hx as <-; exact Ha|].
          apply (Hall k x); [lia|exact Hx].
        * intros (j & Hj & Hy & Hall). destruct j as [|j].
          -- cbn in Hj. injection Hj as ->. congruence.
          -- exists j. split; [exact Hj|]. split; [exact Hy|].
             intros k x Hk Hx. apply (Hall (S k) x); [lia|exact Hx].
      + split.
        * intros H. injection H as ->. exists 0%nat. split; [reflexivity|]. split; [exact Ha|].
          intros k x Hk. lia.
        * intros (j & Hj & Hy & Hall). destruct j as [|j].
          -- cbn in Hj. exact Hj.
          -- specialize (Hall 0%nat a ltac:(lia) eq_refl). congruence.
  Qed.

  Lemma next_valid_None (mask : T -> bool) l :
    next_valid mask l = None <-> forall x, In x l -> mask x = true.
  Proof.
    unfold next_valid. split.
    - intros H x Hx. apply (find_none _ _ H) in Hx. destruct (mask x); [reflexivity|discriminate].
    - intros H. destruct (find _ l) as [y|] eqn:E; [|reflexivity].
      apply find_some in E. destruct E as [Hin Hy]. rewrite (H y Hin) in Hy. discriminate.
  Qed.

  (* later positions of xs: the nearest j > i *)
  Theorem next_valid_nearest (mask : T -> bool) xs i y :
    next_valid mask (skipn (S i) xs) = Some y <->
    exists j, (i < j)%nat /\ nth_error xs j = Some y /\ mask y = false /\
              forall k x, (i < k < j)%nat -> nth_error xs k = Some x -> mask x = true.
  Proof.
    rewrite next_valid_Some. split.
    - intros (j & Hj & Hy & Hall). exists (S i + j)%nat. rewrite nth_error_skipn in Hj.
      split; [lia|]. split; [exact Hj|]. split; [exact Hy|].
      intros k x Hk Hx. apply (Hall (k - S i)%nat x); [lia|].
      rewrite nth_error_skipn. replace (S i + (k - S i))%nat with k by lia. exact Hx.
    - intros (j & Hij & Hj & Hy & Hall). exists (j - S i)%nat.
      rewrite nth_error_skipn. replace (S i + (j - S i))%nat with j by lia.
      split; [exact Hj|]. split; [exact Hy|].
      intros k x Hk Hx. rewrite nth_error_skipn in Hx. apply (Hall (S i + k)%nat x); [lia|exact Hx].
  Qed.

  Theorem next_valid_none_later (mask : T -> bool) xs i :
    next_valid mask (skipn (S i) xs) = None <->
    forall k x, (i < k)%nat -> nth_error xs k = Some x -> mask x = true.
  Proof.
    rewrite next_valid_None. split.
    - intros H k x Hk Hx. apply H. apply (nth_error_In _ (k - S i)).
      rewrite nth_error_skipn. replace (S i + (k - S i))%nat with k by lia. exact Hx.
    - intros H x Hx. apply In_nth_error in Hx. destruct Hx as [k Hk].
      rewrite nth_error_skipn in Hk. apply (H (S i + k)%nat x); [lia|exact Hk].
  Qed.

  (* earlier positions: the nearest j < i *)
  Theorem last_valid_nearest (mask : T -> bool) xs i y :
    (i <= length xs)%nat ->
    last_valid mask (firstn i xs) = Some y <->
    exists j, (j < i)%nat /\ nth_error xs j = Some y /\ mask y = false /\
              forall k x, (j < k < i)%nat -> nth_error xs k = Some x -> mask x = true.
  Proof.
    intros Hi. unfold last_valid.
    change (find (fun v => negb (mask v)) (rev (firstn i xs))) with (next_valid mask (rev (firstn i xs))).
    rewrite next_valid_Some.
    assert (Hlen : length (firstn i xs) = i) by (rewrite firstn_length; lia).
    split.
    - intros (j & Hj & Hy & Hall).
      assert (Hji : (j < i)%nat).
      { apply nth_error_Some_lt in Hj. rewrite rev_length, Hlen in Hj. exact Hj. }
      rewrite nth_error_rev in Hj by lia. rewrite Hlen, nth_error_firstn, ltb_true in Hj by lia.
      exists (i - S j)%nat. split; [lia|]. split; [exact Hj|]. split; [exact Hy|].
      intros k x Hk Hx. apply (Hall (i - S k)%nat x); [lia|].
      rewrite nth_error_rev by lia. rewrite Hlen, nth_error_firstn, ltb_true by lia.
      replace (i - S (i - S k))%nat with k by lia. exact Hx.
    - intros (j & Hji & Hj & Hy & Hall). exists (i - S j)%nat.
      rewrite nth_error_rev by lia. rewrite Hlen, nth_error_firstn, ltb_true by lia.
      replace (i - S (i - S j))%nat with j by lia.
      split; [exact Hj|]. split; [exact Hy|].
      intros k x Hk Hx.
      assert (Hki : (k < i)%nat) by lia.
      rewrite nth_error_rev in Hx by lia. rewrite Hlen, nth_error_firstn, ltb_true in Hx by lia.
      apply (Hall (i - S k)%nat x); [lia|exact Hx].
  Qed.

  Theorem last_valid_none_earlier (mask : T -> bool) xs i :
    last_valid mask (firstn i xs) = None <->
    forall k x, (k < i)%nat -> nth_error xs k = Some x -> mask x = true.
  Proof.
    unfold last_valid.
    change (find (fun v => negb (mask v)) (rev (firstn i xs))) with (next_valid mask (rev (firstn i xs))).
    rewrite next_valid_None. split.
    - intros H k x Hk Hx. apply H. apply -> in_rev. apply (nth_error_In _ k).
      rewrite nth_error_firstn, ltb_true by lia. exact Hx.
    - intros H x Hx. apply in_rev in Hx. apply In_nth_error in Hx. destruct Hx as [k Hk].
      rewrite nth_error_firstn in Hk. destruct (k <? i)%nat eqn:E; [|discriminate].
      apply Nat.ltb_lt in E. apply (H k x E Hk).
  Qed.

  (* fill: acts on each element alone and touches only the masked (null) ones *)
  Theorem fill_mask_positional (mask : T -> bool) v xs i :
    nth_error (fill_mask mask v xs) i = option_map (fun x => if mask x then v else x) (nth_error xs i).
  Proof. unfold fill_mask. apply nth_error_map. Qed.

  Lemma fill_mask_length (mask : T -> bool) v (xs : list T) : length (fill_mask mask v xs) = length xs.
  Proof. unfold fill_mask. apply map_length. Qed.

  Theorem fill_only_nulls v xs i x :
    nth_error xs i = Some x ->
    nth_error (fill d v xs) i = Some (if is_none d x then v else x) /\
    (is_none d x = false -> nth_error (fill d v xs) i = Some x).
  Proof.
    intros Hx. unfold fill. rewrite fill_mask_positional, Hx. cbn [option_map]. split; [reflexivity|].
    intros Hn. rewrite Hn. reflexivity.
  Qed.
End FillProofs.

(* ------------------------------------------------------------------------------------------------ *)
(* vclip *)

Section ClipProofs.
  Context {T I : Type} (d : NullDict T I) (inner : T -> I) (ltb : I -> I -> bool).
  (* the one law of the dictionary vclip relies on: unwrap of a non-null element succeeds *)
  Hypothesis unwrap_ok : forall v, is_none d v = false -> unwrap d v = Ok (inner v).

  Theorem vclip_spec (lower upper : T) (xs : list T) :
    vclip d ltb lower upper xs = Ok (map (clip_elem d inner ltb lower upper) xs).
  Proof.
    unfold vclip.
    destruct (is_none d lower) eqn:Hl, (is_none d upper) eqn:Hu; cbn [negb].
    - (* no bound *)
      f_equal. symmetry. rewrite <- (map_id xs) at 2. apply map_ext. intros x.
      unfold clip_elem. rewrite Hl, Hu. cbn [negb andb]. destruct (is_none d x); reflexivity.
    - (* upper only *)
      rewrite (unwrap_ok _ Hu). cbn [bind]. apply mapM_pointwise. intros x _.
      unfold clip_hi, clip_elem. rewrite Hl, Hu. cbn [negb andb].
      destruct (is_none d x) eqn:Hx; cbn [negb]; [reflexivity|].
      rewrite (unwrap_ok _ Hx). reflexivity.
    - (* lower only *)
      rewrite (unwrap_ok _ Hl). cbn [bind]. apply mapM_pointwise. intros x _.
      unfold clip_lo, clip_elem. rewrite Hl, Hu. cbn [negb andb].
      destruct (is_none d x) eqn:Hx; cbn [negb]; [reflexivity|].
      rewrite (unwrap_ok _ Hx). cbn [bind]. destruct (ltb (inner x) (inner lower)); reflexivity.
    - (* both *)
      rewrite (unwrap_ok _ Hl), (unwrap_ok _ Hu). cbn [bind]. apply mapM_pointwise. intros x _.
      unfold clip2, clip_elem. rewrite Hl, Hu. cbn [negb andb].
      destruct (is_none d x) eqn:Hx; cbn [negb]; [reflexivity|].
      rewrite (unwrap_ok _ Hx). reflexivity.
  Qed.

  Theorem vclip_positional (lower upper : T) (xs : list T) :
    exists r, vclip d ltb lower upper xs = Ok r /\ length r = length xs /\
      forall i, nth_error r i = option_map (clip_elem d inner ltb lower upper) (nth_error xs i).
  Proof.
    exists (map (clip_elem d inner ltb lower upper) xs). split; [apply vclip_spec|].
    split; [apply map_length|]. intros i. apply nth_error_map.
  Qed.

  (* nulls stay null, non-nulls stay non-null *)
  Lemma clip_elem_null lower upper x :
    is_none d x = true -> clip_elem d inner ltb lower upper x = x.
  Proof. intros H. unfold clip_elem. rewrite H. reflexivity. Qed.

  Lemma clip_elem_nullness lower upper x :
    is_none d (clip_elem d inner ltb lower upper x) = is_none d x.
  Proof.
    unfold clip_elem. destruct (is_none d x) eqn:Hx; [exact Hx|].
    destruct (is_none d lower) eqn:Hl; cbn [negb andb].
    - destruct (is_none d upper) eqn:Hu; cbn [negb andb]; [exact Hx|].
      destruct (ltb (inner upper) (inner x)); [exact Hu|exact Hx].
    - destruct (ltb (inner x) (inner lower)); [exact Hl|].
      destruct (is_none d upper) eqn:Hu; cbn [negb andb]; [exact Hx|].
      destruct (ltb (inner upper) (inner x)); [exact Hu|exact Hx].
  Qed.

  (* with a strict order (only irreflexivity is needed) and lower <= upper:
     idempotent, and every non-null result lies inside the non-null bounds *)
  Hypothesis ltb_irrefl : forall a, ltb a a = false.

  Lemma clip_elem_fixed lower upper y :
    (is_none d y = false ->
     (is_none d lower = false -> ltb (inner y) (inner lower) = false) /\
     (is_none d upper = false -> ltb (inner upper) (inner y) = false)) ->
    clip_elem d inner ltb lower upper y = y.
  Proof.
    intros H. unfold clip_elem. destruct (is_none d y) eqn:Hy; [reflexivity|].
    destruct (H eq_refl) as [H1 H2].
    destruct (is_none d lower) eqn:Hl; cbn [negb andb].
    - destruct (is_none d upper) eqn:Hu; cbn [negb andb]; [reflexivity|].
      rewrite (H2 eq_refl). reflexivity.
    - rewrite (H1 eq_refl).
      destruct (is_none d upper) eqn:Hu; cbn [negb andb]; [reflexivity|].
      rewrite (H2 eq_refl). reflexivity.
  Qed.

  Lemma clip_elem_cases lower upper x :
    is_none d x = false ->
    let y := clip_elem d inner ltb lower upper x in
    (y = x /\ (is_none d lower = false -> ltb (inner x) (inner lower) = false)
           /\ (is_none d upper = false -> ltb (inner upper) (inner x) = false))
    \/ (y = lower /\ is_none d lower = false)
    \/ (y = upper /\ is_none d upper = false).
  Proof.
    intros Hx. cbv zeta. unfold clip_elem. rewrite Hx.
    destruct (is_none d lower) eqn:Hl; cbn [negb andb].
    - destruct (is_none d upper) eqn:Hu; cbn [negb andb].
      + left. split; [reflexivity|]. split; discriminate.
      + destruct (ltb (inner upper) (inner x)) eqn:E.
        * right. right. split; reflexivity.
        * left. split; [reflexivity|]. split; [discriminate|intros _; reflexivity].
    - destruct (ltb (inner x) (inner lower)) eqn:E1.
      + right. left. split; reflexivity.
      + destruct (is_none d upper) eqn:Hu; cbn [negb andb].
        * left. split; [reflexivity|]. split; [intros _; reflexivity|discriminate].
        * destruct (ltb (inner upper) (inner x)) eqn:E2.
          -- right. right. split; reflexivity.
          -- left. split; [reflexivity|]. split; intros _; reflexivity.
  Qed.

  Theorem clip_elem_idempotent lower upper x :
    (is_none d lower = false -> is_none d upper = false ->
     leb_of ltb (inner lower) (inner upper) = true) ->
    clip_elem d inner ltb lower upper (clip_elem d inner ltb lower upper x)
    = clip_elem d inner ltb lower upper x.
  Proof.
    intros Hle. unfold leb_of in Hle.
    destruct (is_none d x) eqn:Hx.
    { rewrite (clip_elem_null lower upper x Hx). apply clip_elem_null. exact Hx. }
    destruct (clip_elem_cases lower upper x Hx) as [(Hy & H1 & H2)|[(Hy & Hl)|(Hy & Hu)]]; rewrite Hy.
    - apply clip_elem_fixed. intros _. split; assumption.
    - apply clip_elem_fixed. intros _. split; [intros _; apply ltb_irrefl|].
      intros Hu. specialize (Hle Hl Hu). destruct (ltb (inner upper) (inner lower)); [discriminate|reflexivity].
    - apply clip_elem_fixed. intros _. split; [|intros _; apply ltb_irrefl].
      intros Hl. specialize (Hle Hl Hu). destruct (ltb (inner upper) (inner lower)); [discriminate|reflexivity].
  Qed.

  Theorem clip_elem_contained lower upper x :
    (is_none d lower = false -> is_none d upper = false ->
     leb_of ltb (inner lower) (inner upper) = true) ->
    is_none d x = false ->
    (is_none d lower = false ->
     leb_of ltb (inner lower) (inner (clip_elem d inner ltb lower upper x)) = true) /\
    (is_none d upper = false ->
     leb_of ltb (inner (clip_elem d inner ltb lower upper x)) (inner upper) = true).
  Proof.
    intros Hle Hx. unfold leb_of in *.
    destruct (clip_elem_cases lower upper x Hx) as [(Hy & H1 & H2)|[(Hy & Hl)|(Hy & Hu)]]; rewrite Hy.
    - split; intros Hb; [rewrite (H1 Hb)|rewrite (H2 Hb)]; reflexivity.
    - split; [intros _; rewrite ltb_irrefl; reflexivity|]. intros Hu. apply Hle; assumption.
    - split; [|intros _; rewrite ltb_irrefl; reflexivity]. intros Hl. apply Hle; assumption.
  Qed.
End ClipProofs.

(* the three instance families satisfy the unwrap law *)
Lemma unwrap_ok_float {A} (inan : A -> bool) nanv v :
  is_none (dict_float inan nanv) v = false -> unwrap (dict_float inan nanv) v = Ok ((fun x => x) v).
Proof. reflexivity. Qed.
Lemma unwrap_ok_int {A} (v : A) :
  is_none dict_int v = false -> unwrap dict_int v = Ok ((fun x => x) v).
Proof. reflexivity. Qed.
Definition opt_inner {A} (dflt : A) (o : option A) : A := match o with Some v => v | None => dflt end.
Lemma unwrap_ok_opt {A} (inan : A -> bool) (dflt : A) v :
  is_none (dict_opt inan) v = false -> unwrap (dict_opt inan) v = Ok (opt_inner dflt v).
Proof. destruct v; [reflexivity|discriminate]. Qed.

(* integers: the textbook clip *)
Lemma clip_elem_Z (lo hi x : Z) :
  lo <= hi ->
  clip_elem dict_int (fun v => v) Z.ltb lo hi x = Z.max lo (Z.min hi x).
Proof.
  intros H. unfold clip_elem. cbn.
  destruct (x <? lo) eqn:E1; [lia|]. destruct (hi <? x) eqn:E2; lia.
Qed.

(* ------------------------------------------------------------------------------------------------ *)
(* abs / vabs *)

Section AbsProofs.
  Context {A : Type} (aabs : A -> A).

  Lemma abs_map_positional xs i : nth_error (abs_map aabs xs) i = option_map aabs (nth_error xs i).
  Proof. apply nth_error_map. Qed.
  Lemma abs_map_length xs : length (abs_map aabs xs) = length xs.
  Proof. apply map_length. Qed.

  (* plain integers *)
  Theorem vabs_int xs : vabs dict_int aabs xs = Ok (map aabs xs).
  Proof. unfold vabs. apply mapM_pointwise. reflexivity. Qed.

  (* float-like: |NaN| is NaN is the only fact needed for "nulls stay null" *)
  Variable inan : A -> bool.
  Theorem vabs_float nanv xs : vabs (dict_float inan nanv) aabs xs = Ok (map aabs xs).
  Proof. unfold vabs. apply mapM_pointwise. reflexivity. Qed.

  (* Option: None stays None; Some v becomes Some |v| (a null |v| would be canonicalised to None) *)
  Definition vabs_opt_elem (o : option A) : option A :=
    match o with Some v => if inan (aabs v) then None else Some (aabs v) | None => None end.
  Theorem vabs_opt xs : vabs (dict_opt inan) aabs xs = Ok (map vabs_opt_elem xs).
  Proof. unfold vabs. apply mapM_pointwise. intros [v|] _; reflexivity. Qed.

  Hypothesis abs_nan : forall v, inan (aabs v) = inan v.

  Lemma vabs_opt_elem_canonical o :
    (forall v, o = Some v -> inan v = false) -> vabs_opt_elem o = option_map aabs o.
  Proof.
    intros H. destruct o as [v|]; [|reflexivity]. cbn. rewrite abs_nan, (H v eq_refl). reflexivity.
  Qed.

  Lemma vabs_opt_nullness o :
    (forall v, o = Some v -> inan v = false) ->
    is_none (dict_opt inan) (vabs_opt_elem o) = is_none (dict_opt inan) o.
  Proof. intros H. rewrite vabs_opt_elem_canonical by exact H. destruct o; reflexivity. Qed.

  Lemma vabs_float_nullness nanv v :
    is_none (dict_float inan nanv) (aabs v) = is_none (dict_float inan nanv) v.
  Proof. cbn. apply abs_nan. Qed.
End AbsProofs.

Lemma vabs_length {T I} (d : NullDict T I) (iabs : I -> I) xs r :
  vabs d iabs xs = Ok r -> length r = length xs.
Proof. apply mapM_length. Qed.
Lemma vclip_length {T I} (d : NullDict T I) ltb lower upper xs r :
  vclip d ltb lower upper xs = Ok r -> length r = length xs.
Proof.
  unfold vclip.
  destruct (negb (is_none d lower)), (negb (is_none d upper)).
  - destruct (unwrap d lower); cbn; [|discriminate]. destruct (unwrap d upper); cbn; [|discriminate].
    apply mapM_length.
  - destruct (unwrap d lower); cbn; [|discriminate]. apply mapM_length.
  - destruct (unwrap d upper); cbn; [|discriminate]. apply mapM_length.
  - intros H. injection H as <-. reflexivity.
Qed.
