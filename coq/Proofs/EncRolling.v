(* Proofs/EncRolling.v — C08 for the rolling families: the result does not depend on how nulls are encoded.
   Every carrier, every pair of null dictionaries, both driver bodies, EVERY window (0 included), every
   min_periods.  No law of the numeric class is used, so the statements hold bit for bit at binary64.
     * ts_run_rel  : any two add-emit-remove features whose steps agree on related elements (generalises
       Proofs/Generic.v: encoding_independent to an arbitrary relation, e.g. on pairs of two series);
     * idx_run_rel : the same for the window-index driver (callbacks that read the series through uget);
     * instances: moments, ewm, wma (Generic.v), z-score, trend regressions, cov / corr / regx (two series,
       each series with its own dictionary), rolling extrema / arg-extrema, rank, min-max normalisation,
       regx residual statistics.                                                                          *)
From Coq Require Import Lia List Bool.
From Tevec Require Import Base.Prelude Base.Num Model.Driver Proofs.Driver Model.Features Model.Cmp Model.Norm
     Model.Binary Model.Reg Model.Fdiff Model.NullView Proofs.Generic Proofs.ViewBase.
Import ListNotations.
Set Implicit Arguments.

Definition opt_rel {X Y} (R : X -> Y -> Prop) (a : option X) (b : option Y) : Prop :=
  match a, b with Some x, Some y => R x y | None, None => True | _, _ => False end.

(* ---- add-emit-remove features ------------------------------------------------------------------------ *)
Section RunRel.
  Context {T1 T2 St O : Type} (R : T1 -> T2 -> Prop) (F1 : feat T1 St O) (F2 : feat T2 St O).
  Hypothesis Hinit : f_init F1 = f_init F2.
  Hypothesis Hemit : forall s, f_emit F1 s = f_emit F2 s.
  Hypothesis Hpre : forall s a b, R a b -> f_pre F1 s a = f_pre F2 s b.
  Hypothesis Hpost0 : forall s, f_post F1 s None = f_post F2 s None.
  Hypothesis Hpost : forall s a b, R a b -> f_post F1 s (Some a) = f_post F2 s (Some b).

  Lemma bad_window_rel w (xs1 : list T1) (xs2 : list T2) :
    Forall2 R xs1 xs2 -> bad_window w xs1 = bad_window w xs2.
  Proof. intros HF. unfold bad_window. rewrite (Forall2_len HF). reflexivity. Qed.

  Theorem ts_run_rel xs1 xs2 w body : Forall2 R xs1 xs2 -> ts_run F1 body w xs1 = ts_run F2 body w xs2.
  Proof.
    intros HF. destruct w as [|w].
    - (* window 0: rejected unless the series is empty *)
      destruct HF as [|a b r1 r2 Hab HF]; [destruct body; reflexivity|].
      unfold ts_run, rolling_apply_to, rolling_apply_default, bad_window. cbn [Nat.eqb length andb negb].
      destruct body; reflexivity.
    - assert (Hw : 1 <= S w) by lia. rewrite !ts_run_iter by exact Hw. f_equal. rewrite Hinit.
      apply (run_rel (fun (a1 : option T1 * T1) (a2 : option T2 * T2) =>
                        R (snd a1) (snd a2) /\ opt_rel R (fst a1) (fst a2))).
      + intros s [rm1 v1] [rm2 v2] [Hv Hrm]. cbn [fst snd] in *. unfold feat_cb. cbn [fst snd].
        rewrite (Hpre s Hv), Hemit. f_equal.
        destruct rm1 as [r1|], rm2 as [r2|]; cbn [opt_rel] in Hrm; try contradiction;
          [apply Hpost; exact Hrm|apply Hpost0].
      + apply (Forall2_mapi R); [exact HF|].
        intros i a b Ha Hb Hab. cbn [fst snd]. split; [exact Hab|].
        unfold removed. destruct (i <? S w - 1); [exact I|].
        pose proof (Forall2_nth_error _ _ _ HF (i - (S w - 1))) as Hn. unfold opt_rel.
        destruct (nth_error xs1 (i - (S w - 1))), (nth_error xs2 (i - (S w - 1))); exact Hn.
  Qed.
End RunRel.

(* one series, two dictionaries *)
Section OneSeries.
  Context {A : Type} {NA : Num A} {T1 T2 : Type} (D1 : IsNone T1 A) (D2 : IsNone T2 A).
  Local Notation SV := (same_view D1 D2).

  Theorem mom_same_view (emit : @mom A -> A) xs1 xs2 w body :
    SameView D1 D2 xs1 xs2 -> ts_run (mom_feat (DT := D1) emit) body w xs1 = ts_run (mom_feat (DT := D2) emit) body w xs2.
  Proof.
    apply (ts_run_rel (R := SV)); try reflexivity; cbn [f_pre f_post mom_feat].
    - intros s a b E. unfold mom_pre. rewrite (sv_not_none E). destruct (not_none b) eqn:Hb; [|reflexivity].
      rewrite (sv_unwrap E Hb). reflexivity.
    - intros s a b E. unfold mom_post. rewrite (sv_not_none E). destruct (not_none b) eqn:Hb; [|reflexivity].
      rewrite (sv_unwrap E Hb). reflexivity.
  Qed.

  Theorem ewm_same_view w0 mp xs1 xs2 w body :
    SameView D1 D2 xs1 xs2 -> ts_run (ts_vewm_f (DT := D1) w0 mp) body w xs1 = ts_run (ts_vewm_f (DT := D2) w0 mp) body w xs2.
  Proof.
    apply (ts_run_rel (R := SV)); try reflexivity; cbn [f_pre f_post ts_vewm_f].
    - intros s a b E. unfold ewm_pre. rewrite (sv_not_none E). destruct (not_none b) eqn:Hb; [|reflexivity].
      rewrite (sv_unwrap E Hb). reflexivity.
    - intros s a b E. unfold ewm_post. rewrite (sv_not_none E). destruct (not_none b) eqn:Hb; [|reflexivity].
      rewrite (sv_unwrap E Hb). reflexivity.
  Qed.

  Theorem wma_same_view w0 mp xs1 xs2 w body :
    SameView D1 D2 xs1 xs2 -> ts_run (ts_vwma_f (DT := D1) w0 mp) body w xs1 = ts_run (ts_vwma_f (DT := D2) w0 mp) body w xs2.
  Proof.
    apply (ts_run_rel (R := SV)); try reflexivity; cbn [f_pre f_post ts_vwma_f].
    - intros s a b E. unfold wma_pre. rewrite (sv_not_none E). destruct (not_none b) eqn:Hb; [|reflexivity].
      rewrite (sv_unwrap E Hb). reflexivity.
    - intros s a b E. unfold wma_post. rewrite (sv_not_none E). destruct (not_none b) eqn:Hb; [|reflexivity].
      rewrite (sv_unwrap E Hb). reflexivity.
  Qed.

  Theorem zscore_same_view mp xs1 xs2 w body :
    SameView D1 D2 xs1 xs2 -> ts_vzscore (DT := D1) body w mp xs1 = ts_vzscore (DT := D2) body w mp xs2.
  Proof.
    unfold ts_vzscore. apply (ts_run_rel (R := SV)); try reflexivity; cbn [f_pre f_post ts_vzscore_f].
    - intros s a b E. unfold zs_pre. rewrite (sv_not_none E). destruct (not_none b) eqn:Hb; [|reflexivity].
      rewrite (sv_unwrap E Hb). reflexivity.
    - intros s a b E. unfold zs_post. rewrite (sv_not_none E). destruct (not_none b) eqn:Hb; [|reflexivity].
      rewrite (sv_unwrap E Hb). reflexivity.
  Qed.

  (* the five time-trend regressions share the accumulator; `emit` is arbitrary *)
  Theorem trend_same_view (emit : @tr_st A -> A) xs1 xs2 w body :
    SameView D1 D2 xs1 xs2 -> ts_run (tr_feat (DT := D1) emit) body w xs1 = ts_run (tr_feat (DT := D2) emit) body w xs2.
  Proof.
    apply (ts_run_rel (R := SV)); try reflexivity; cbn [f_pre f_post tr_feat].
    - intros s a b E. unfold tr_pre. rewrite (sv_not_none E). destruct (not_none b) eqn:Hb; [|reflexivity].
      rewrite (sv_unwrap E Hb). reflexivity.
    - intros s a b E. unfold tr_post. rewrite (sv_not_none E). destruct (not_none b) eqn:Hb; [|reflexivity].
      rewrite (sv_unwrap E Hb). reflexivity.
  Qed.
End OneSeries.

(* two series, each with its own pair of dictionaries *)
Section TwoSeries.
  Context {A : Type} {NA : Num A} {T1 T2 U1 U2 : Type}
          (D1 : IsNone T1 A) (D2 : IsNone T2 A) (E1 : IsNone U1 A) (E2 : IsNone U2 A).
  Definition pair_view (p : T1 * T2) (q : U1 * U2) : Prop :=
    same_view D1 E1 (fst p) (fst q) /\ same_view D2 E2 (snd p) (snd q).

  Lemma both_view p q : pair_view p q -> both (D1 := D1) (D2 := D2) p = both (D1 := E1) (D2 := E2) q.
  Proof. intros [Ha Hb]. unfold both. rewrite (sv_not_none Ha), (sv_not_none Hb). reflexivity. Qed.
  Lemma both_unwrap p q : pair_view p q -> both (D1 := E1) (D2 := E2) q = true ->
    unwrap (fst p) = unwrap (fst q) /\ unwrap (snd p) = unwrap (snd q).
  Proof.
    intros [Ha Hb] H. unfold both in H. apply andb_prop in H. destruct H as [H1 H2].
    split; [apply (sv_unwrap Ha H1)|apply (sv_unwrap Hb H2)].
  Qed.

  Lemma csum_pre_view s p q : pair_view p q -> csum_pre (D1 := D1) (D2 := D2) s p = csum_pre (D1 := E1) (D2 := E2) s q.
  Proof.
    intros H. unfold csum_pre. rewrite (both_view H). destruct (both q) eqn:Hq; [|reflexivity].
    destruct (both_unwrap H Hq) as [-> ->]. reflexivity.
  Qed.
  Lemma csum_post_view s p q :
    pair_view p q -> csum_post (D1 := D1) (D2 := D2) s (Some p) = csum_post (D1 := E1) (D2 := E2) s (Some q).
  Proof.
    intros H. unfold csum_post. rewrite (both_view H). destruct (both q) eqn:Hq; [|reflexivity].
    destruct (both_unwrap H Hq) as [-> ->]. reflexivity.
  Qed.

  (* ts_vcov, ts_vcorr, ts_vregx_alpha, ts_vregx_beta, ts_vregx_all: any emit function of the cross sums *)
  Theorem csum_same_view {O} (emit : @csum A -> O) xs ys xs' ys' w body :
    SameView D1 E1 xs xs' -> SameView D2 E2 ys ys' ->
    ts_run2 (csum_feat (D1 := D1) (D2 := D2) emit) body w xs ys =
    ts_run2 (csum_feat (D1 := E1) (D2 := E2) emit) body w xs' ys'.
  Proof.
    intros HX HY. pose proof (Forall2_combine HX HY) as HZ. fold pair_view in HZ.
    assert (Hrun : forall b, ts_run (csum_feat (D1 := D1) (D2 := D2) emit) b w (combine xs ys) =
                             ts_run (csum_feat (D1 := E1) (D2 := E2) emit) b w (combine xs' ys')).
    { intros b. apply (ts_run_rel (R := pair_view)); try reflexivity; [| |exact HZ]; cbn [f_pre f_post csum_feat].
      - intros s p q H. apply csum_pre_view. exact H.
      - intros s p q H. apply csum_post_view. exact H. }
    assert (Hbw : bad_window w xs = bad_window w xs') by (unfold bad_window; rewrite (Forall2_len HX); reflexivity).
    unfold ts_run2. destruct body.
    - unfold rolling2_apply_to. rewrite (Forall2_len HX), (Forall2_len HY).
      destruct (length ys' <? length xs'); [reflexivity|]. exact (Hrun true).
    - rewrite !rolling2_apply_default_unfold, Hbw. destruct (bad_window w xs'); [reflexivity|]. exact (Hrun false).
  Qed.
End TwoSeries.

(* ---- the window-index driver -------------------------------------------------------------------------- *)
Section IdxRel.
  Context {T1 T2 St O : Type} (R : T1 -> T2 -> Prop).
  Variable cb1 : St -> option nat * nat * T1 -> res (St * O).
  Variable cb2 : St -> option nat * nat * T2 -> res (St * O).
  Hypothesis Hcb : forall s st e a b, R a b -> cb1 s (st, e, a) = cb2 s (st, e, b).

  Theorem idx_run_rel xs1 xs2 w body s0 :
    Forall2 R xs1 xs2 -> idx_run body w cb1 s0 xs1 = idx_run body w cb2 s0 xs2.
  Proof.
    intros HF. unfold idx_run. f_equal. destruct w as [|w].
    - destruct HF as [|a b r1 r2 Hab HF]; [destruct body; reflexivity|].
      unfold rolling_apply_idx_to, rolling_apply_idx_default, bad_window. cbn [Nat.eqb length andb negb].
      destruct body; reflexivity.
    - assert (Hw : 1 <= S w) by lia.
      assert (Hrun : forall w', run (lift_cb cb1) (Ok s0) (mapi (fun i v => (start_of w' i, i, v)) xs1) =
                                run (lift_cb cb2) (Ok s0) (mapi (fun i v => (start_of w' i, i, v)) xs2)).
      { intros w'.
        apply (run_rel (fun (a1 : option nat * nat * T1) (a2 : option nat * nat * T2) =>
                          fst a1 = fst a2 /\ R (snd a1) (snd a2))).
        - intros rs [[st1 e1] a] [[st2 e2] b] [Hse Hab]. cbn [fst snd] in *. injection Hse as -> ->.
          unfold lift_cb. destruct rs as [s|k]; [|reflexivity]. rewrite (Hcb s st2 e2 Hab). reflexivity.
        - apply (Forall2_mapi R); [exact HF|]. intros i a b _ _ Hab. cbn [fst snd]. split; [reflexivity|exact Hab]. }
      destruct body.
      + rewrite !rolling_apply_idx_to_eq by exact Hw. unfold args_to_idx. rewrite (Forall2_len HF), Hrun. reflexivity.
      + rewrite !rolling_apply_idx_default_eq by exact Hw. rewrite Hrun. reflexivity.
  Qed.
End IdxRel.

(* reading related series through uget *)
Lemma uget_rel {T1 T2} (R : T1 -> T2 -> Prop) xs1 xs2 i :
  Forall2 R xs1 xs2 ->
  match uget xs1 i, uget xs2 i with Ok a, Ok b => R a b | Panic k1, Panic k2 => k1 = k2 | _, _ => False end.
Proof.
  intros HF. unfold uget. pose proof (Forall2_nth_error _ _ _ HF i) as Hn.
  destruct (nth_error xs1 i), (nth_error xs2 i); try contradiction; [exact Hn|reflexivity].
Qed.

Section CmpFamily.
  Context {A : Type} {NA : Num A} {T1 T2 : Type} (D1 : IsNone T1 A) (D2 : IsNone T2 A).
  Local Notation SV := (same_view D1 D2).
  Variables (xs1 : list T1) (xs2 : list T2).
  Hypothesis HS : SameView D1 D2 xs1 xs2.
  Variable scmp : option A -> option A -> comparison.

  Lemma rescan_view cnt i m mi : rescan (DT := D1) scmp xs1 i cnt m mi = rescan (DT := D2) scmp xs2 i cnt m mi.
  Proof.
    revert i m mi. induction cnt as [|c IH]; intros i m mi; [reflexivity|]. cbn [rescan].
    pose proof (uget_rel i HS) as Hu. destruct (uget xs1 i) as [a|k1], (uget xs2 i) as [b|k2]; try contradiction;
      cbn [bind]; [|congruence].
    unfold same_view in Hu. rewrite Hu. destruct (takes (scmp (to_opt b) m)); apply IH.
  Qed.

  Lemma ext_step_view s st e a b : SV a b -> ext_step (DT := D1) scmp xs1 s st e a = ext_step (DT := D2) scmp xs2 s st e b.
  Proof.
    intros E. unfold ext_step. unfold same_view in E. rewrite E.
    match goal with |- (if ?c then _ else _) = _ => destruct c end; [|reflexivity].
    destruct st as [st|]; [|reflexivity].
    pose proof (uget_rel st HS) as Hu. destruct (uget xs1 st) as [a0|k1], (uget xs2 st) as [b0|k2]; try contradiction;
      cbn [bind]; [|congruence].
    unfold same_view in Hu. rewrite Hu, rescan_view. reflexivity.
  Qed.

  Lemma ext_post_view s st : ext_post (DT := D1) xs1 s st = ext_post (DT := D2) xs2 s st.
  Proof.
    unfold ext_post. destruct st as [st|]; [|reflexivity].
    pose proof (uget_rel st HS) as Hu. destruct (uget xs1 st) as [a0|k1], (uget xs2 st) as [b0|k2]; try contradiction;
      cbn [bind]; [|congruence].
    rewrite (sv_not_none Hu). reflexivity.
  Qed.

  Theorem ts_vext_same_view body w mp : ts_vext (DT := D1) scmp body w mp xs1 = ts_vext (DT := D2) scmp body w mp xs2.
  Proof.
    unfold ts_vext, cmp_window. rewrite (Forall2_len HS). apply (idx_run_rel (R := SV)); [|exact HS].
    intros s st e a b E. unfold vext_cb. rewrite (ext_step_view s st e E).
    destruct (ext_step scmp xs2 s st e b) as [s1|k]; cbn [bind]; [|reflexivity]. rewrite ext_post_view. reflexivity.
  Qed.
  Theorem ts_varg_same_view body w mp : ts_varg (DT := D1) scmp body w mp xs1 = ts_varg (DT := D2) scmp body w mp xs2.
  Proof.
    unfold ts_varg, cmp_window. rewrite (Forall2_len HS). apply (idx_run_rel (R := SV)); [|exact HS].
    intros s st e a b E. unfold varg_cb. rewrite (ext_step_view s st e E).
    destruct (ext_step scmp xs2 s st e b) as [s1|k]; cbn [bind]; [|reflexivity]. rewrite ext_post_view. reflexivity.
  Qed.
End CmpFamily.

Section RankFamily.
  Context {A : Type} {NA : Num A} {T1 T2 : Type} (D1 : IsNone T1 A) (D2 : IsNone T2 A) {B : Type} {NB : Num B}.
  Local Notation SV := (same_view D1 D2).
  Variables (xs1 : list T1) (xs2 : list T2).
  Hypothesis HS : SameView D1 D2 xs1 xs2.

  Lemma rank_loop_view (x : A) cnt i (rank : B) nrep :
    rank_loop (DT := D1) xs1 x i cnt rank nrep = rank_loop (DT := D2) xs2 x i cnt rank nrep.
  Proof.
    revert i rank nrep. induction cnt as [|c IH]; intros i rank nrep; [reflexivity|]. cbn [rank_loop].
    pose proof (uget_rel i HS) as Hu. destruct (uget xs1 i) as [a|k1], (uget xs2 i) as [b|k2]; try contradiction;
      cbn [bind]; [|congruence].
    rewrite (sv_not_none Hu). destruct (not_none b) eqn:Hb; [|apply IH]. rewrite (sv_unwrap Hu Hb).
    destruct (nltb (unwrap b) x); [apply IH|]. destruct (neqb (unwrap b) x); apply IH.
  Qed.

  Theorem ts_vrank_same_view body w mp pct rev :
    ts_vrank (DT := D1) (B := B) body w mp pct rev xs1 = ts_vrank (DT := D2) (B := B) body w mp pct rev xs2.
  Proof.
    unfold ts_vrank, cmp_window. rewrite (Forall2_len HS). apply (idx_run_rel (R := SV)); [|exact HS].
    intros n st e a b E. unfold vrank_cb. rewrite (sv_not_none E).
    assert (Hfirst :
      (if not_none b then
         do rr <- rank_loop (DT := D1) xs1 (unwrap a) (match st with Some s => s | None => 0 end)
                            (e - match st with Some s => s | None => 0 end) (none : B) 1;
         Ok (S n, fst rr, snd rr)
       else Ok (n, nnan, 1)) =
      (if not_none b then
         do rr <- rank_loop (DT := D2) xs2 (unwrap b) (match st with Some s => s | None => 0 end)
                            (e - match st with Some s => s | None => 0 end) (none : B) 1;
         Ok (S n, fst rr, snd rr)
       else Ok (n, nnan, 1))).
    { destruct (not_none b) eqn:Hb; [|reflexivity]. rewrite (sv_unwrap E Hb), rank_loop_view. reflexivity. }
    rewrite Hfirst. clear Hfirst.
    match goal with |- bind ?r _ = bind ?r _ => destruct r as [[[n1 rank] nrep]|k] end; cbn [bind]; [|reflexivity].
    destruct (min (length xs2) w - 1 <=? e); [|reflexivity].
    destruct st as [st|]; [|reflexivity].
    pose proof (uget_rel st HS) as Hu. destruct (uget xs1 st) as [a0|k1], (uget xs2 st) as [b0|k2]; try contradiction;
      cbn [bind]; [|congruence].
    rewrite (sv_not_none Hu). reflexivity.
  Qed.
End RankFamily.

Section MinMaxNormFamily.
  Context {A : Type} {NA : Num A} {T1 T2 : Type} (D1 : IsNone T1 A) (D2 : IsNone T2 A).
  Local Notation SV := (same_view D1 D2).
  Variables (xs1 : list T1) (xs2 : list T2).
  Hypothesis HS : SameView D1 D2 xs1 xs2.

  Lemma scan_max_view cnt i mx mxi : scan_max (DT := D1) xs1 i cnt mx mxi = scan_max (DT := D2) xs2 i cnt mx mxi.
  Proof.
    revert i mx mxi. induction cnt as [|c IH]; intros i mx mxi; [reflexivity|]. cbn [scan_max].
    pose proof (uget_rel i HS) as Hu. destruct (uget xs1 i) as [a|k1], (uget xs2 i) as [b|k2]; try contradiction;
      cbn [bind]; [|congruence].
    rewrite (sv_not_none Hu). destruct (not_none b) eqn:Hb; [|apply IH]. rewrite (sv_unwrap Hu Hb).
    destruct (nleb mx (unwrap b)); apply IH.
  Qed.
  Lemma scan_min_view cnt i mn mni : scan_min (DT := D1) xs1 i cnt mn mni = scan_min (DT := D2) xs2 i cnt mn mni.
  Proof.
    revert i mn mni. induction cnt as [|c IH]; intros i mn mni; [reflexivity|]. cbn [scan_min].
    pose proof (uget_rel i HS) as Hu. destruct (uget xs1 i) as [a|k1], (uget xs2 i) as [b|k2]; try contradiction;
      cbn [bind]; [|congruence].
    rewrite (sv_not_none Hu). destruct (not_none b) eqn:Hb; [|apply IH]. rewrite (sv_unwrap Hu Hb).
    destruct (nleb (unwrap b) mn); apply IH.
  Qed.
  Lemma scan_both_view cnt i mx mxi mn mni :
    scan_both (DT := D1) xs1 i cnt mx mxi mn mni = scan_both (DT := D2) xs2 i cnt mx mxi mn mni.
  Proof.
    revert i mx mxi mn mni. induction cnt as [|c IH]; intros i mx mxi mn mni; [reflexivity|]. cbn [scan_both].
    pose proof (uget_rel i HS) as Hu. destruct (uget xs1 i) as [a|k1], (uget xs2 i) as [b|k2]; try contradiction;
      cbn [bind]; [|congruence].
    rewrite (sv_not_none Hu). destruct (not_none b) eqn:Hb; [|apply IH]. rewrite (sv_unwrap Hu Hb).
    destruct (nleb mx (unwrap b)), (nleb (unwrap b) mn); apply IH.
  Qed.

  Theorem ts_vminmaxnorm_same_view tmin tmax body w mp :
    ts_vminmaxnorm (DT := D1) tmin tmax body w mp xs1 = ts_vminmaxnorm (DT := D2) tmin tmax body w mp xs2.
  Proof.
    unfold ts_vminmaxnorm. apply (idx_run_rel (R := SV)); [|exact HS].
    intros s st e a b E. unfold mmnorm_cb.
    assert (Hr : mm_research (DT := D1) tmin tmax xs1 s st e = mm_research (DT := D2) tmin tmax xs2 s st e).
    { unfold mm_research. destruct st as [st|]; [|reflexivity].
      destruct (mm_maxi s <? st), (mm_mini s <? st);
        [rewrite scan_both_view|rewrite scan_max_view|rewrite scan_min_view|]; reflexivity. }
    rewrite Hr. destruct (mm_research tmin tmax xs2 s st e) as [s1|k]; cbn [bind]; [|reflexivity].
    rewrite (sv_not_none E).
    assert (Hx : not_none b = true -> unwrap a = unwrap b) by (apply sv_unwrap; exact E).
    destruct (not_none b); [rewrite (Hx eq_refl)|].
    - match goal with |- (let '(s2, out) := ?p in _) = _ => destruct p as [s2 out] end.
      destruct st as [st|]; [|reflexivity].
      pose proof (uget_rel st HS) as Hu. destruct (uget xs1 st) as [a0|k1], (uget xs2 st) as [b0|k2]; try contradiction;
        cbn [bind]; [|congruence].
      rewrite (sv_not_none Hu). reflexivity.
    - destruct st as [st|]; [|reflexivity].
      pose proof (uget_rel st HS) as Hu. destruct (uget xs1 st) as [a0|k1], (uget xs2 st) as [b0|k2]; try contradiction;
        cbn [bind]; [|congruence].
      rewrite (sv_not_none Hu). reflexivity.
  Qed.
End MinMaxNormFamily.

(* ---- plain callbacks on the window-index driver (two-series residual statistics) ------------------------ *)
Section IdxPlainRel.
  Context {T1 T2 St O : Type} (R : T1 -> T2 -> Prop).
  Variable f1 : St -> option nat * nat * T1 -> St * O.
  Variable f2 : St -> option nat * nat * T2 -> St * O.
  Hypothesis Hf : forall s st e a b, R a b -> f1 s (st, e, a) = f2 s (st, e, b).

  Theorem idx_plain_rel xs1 xs2 w (body : bool) s0 :
    Forall2 R xs1 xs2 ->
    (if body then rolling_apply_idx_to w f1 s0 xs1 else rolling_apply_idx_default w f1 s0 xs1) =
    (if body then rolling_apply_idx_to w f2 s0 xs2 else rolling_apply_idx_default w f2 s0 xs2).
  Proof.
    intros HF. destruct w as [|w].
    - destruct HF as [|a b r1 r2 Hab HF]; [destruct body; reflexivity|].
      unfold rolling_apply_idx_to, rolling_apply_idx_default, bad_window. cbn [Nat.eqb length andb negb].
      destruct body; reflexivity.
    - assert (Hw : 1 <= S w) by lia.
      assert (Hrun : forall w', run f1 s0 (mapi (fun i v => (start_of w' i, i, v)) xs1) =
                                run f2 s0 (mapi (fun i v => (start_of w' i, i, v)) xs2)).
      { intros w'.
        apply (run_rel (fun (a1 : option nat * nat * T1) (a2 : option nat * nat * T2) =>
                          fst a1 = fst a2 /\ R (snd a1) (snd a2))).
        - intros s [[st1 e1] a] [[st2 e2] b] [Hse Hab]. cbn [fst snd] in *. injection Hse as -> ->.
          apply Hf. exact Hab.
        - apply (Forall2_mapi R); [exact HF|]. intros i a b _ _ Hab. cbn [fst snd]. split; [reflexivity|exact Hab]. }
      destruct body.
      + rewrite !rolling_apply_idx_to_eq by exact Hw. unfold args_to_idx. rewrite (Forall2_len HF), Hrun. reflexivity.
      + rewrite !rolling_apply_idx_default_eq by exact Hw. rewrite Hrun. reflexivity.
  Qed.
End IdxPlainRel.

Section ResidFamily.
  Context {A : Type} {NA : Num A} {T1 T2 U1 U2 : Type}
          (D1 : IsNone T1 A) (D2 : IsNone T2 A) (E1 : IsNone U1 A) (E2 : IsNone U2 A).
  Local Notation PV := (pair_view D1 D2 E1 E2).

  Lemma resid_of_view al be p q : PV p q -> resid_of (D1 := D1) (D2 := D2) al be p = resid_of (D1 := E1) (D2 := E2) al be q.
  Proof.
    intros H. unfold resid_of. rewrite (both_view H). destruct (both q) eqn:Hq; [|reflexivity].
    destruct (both_unwrap H Hq) as [-> ->]. reflexivity.
  Qed.

  (* ts_vregx_resid_mean / _std / _skew *)
  Theorem resid_same_view k xs ys xs' ys' w mp body :
    SameView D1 E1 xs xs' -> SameView D2 E2 ys ys' ->
    ts_vregx_resid (D1 := D1) (D2 := D2) k body w mp xs ys = ts_vregx_resid (D1 := E1) (D2 := E2) k body w mp xs' ys'.
  Proof.
    intros HX HY. pose proof (Forall2_combine HX HY) as HZ. fold (pair_view D1 D2 E1 E2) in HZ.
    assert (Hbw : bad_window w xs = bad_window w xs') by (unfold bad_window; rewrite (Forall2_len HX); reflexivity).
    unfold ts_vregx_resid. cbv zeta. rewrite !rolling2_apply_idx_default_unfold, Hbw. unfold rolling2_apply_idx_to.
    rewrite (Forall2_len HX), (Forall2_len HY).
    set (zs := combine xs ys) in *. set (zs' := combine xs' ys') in *.
    assert (Hcb : forall s st e p q, PV p q ->
              resid_cb (D1 := D1) (D2 := D2) k (mp_eff mp w 0) zs s (st, e, p) =
              resid_cb (D1 := E1) (D2 := E2) k (mp_eff mp w 0) zs' s (st, e, q)).
    { intros s st e p q H. unfold resid_cb. rewrite (csum_pre_view s H). f_equal.
      - unfold resid_post. destruct st as [j|]; [|reflexivity].
        pose proof (Forall2_nth_error _ _ _ HZ j) as Hn.
        destruct (nth_error zs j) as [p0|], (nth_error zs' j) as [q0|]; try contradiction; [|reflexivity].
        apply csum_post_view. exact Hn.
      - unfold resid_emit. destruct (mp_eff mp w 0 <=? c_n (csum_pre s q)); [|reflexivity]. cbv zeta.
        f_equal. apply (map_rel (R := PV)); [intros a b Hab; apply resid_of_view; exact Hab|].
        apply Forall2_seg. exact HZ. }
    pose proof (idx_plain_rel (R := PV) _ _ Hcb w body csum0 HZ) as Hrun.
    destruct body; [destruct (length ys' <? length xs'); [reflexivity|]|destruct (bad_window w xs'); [reflexivity|]];
      exact Hrun.
  Qed.
End ResidFamily.

(* ---- the window-slice driver (ts_vfdiff) ------------------------------------------------------------------ *)
Lemma exec_rel {St X1 X2 O} (R : X1 -> X2 -> Prop) (g1 : St -> X1 -> St * O) (g2 : St -> X2 -> St * O) :
  (forall s a b, R a b -> g1 s a = g2 s b) ->
  forall c1 c2, Forall2 (fun p q => fst p = fst q /\ R (snd p) (snd q)) c1 c2 ->
  forall s buf, exec g1 s c1 buf = exec g2 s c2 buf.
Proof.
  intros Hg c1 c2 HF. induction HF as [|[i a] [j b] r1 r2 [Hij Hab] _ IH]; intros s buf; [reflexivity|].
  cbn [fst snd] in *. subst j. cbn [exec]. rewrite (Hg s a b Hab). destruct (g2 s b) as [s' o]. apply IH.
Qed.

Section FdiffFamily.
  Context {A : Type} {NA : Num A} {T1 T2 : Type} (D1 : IsNone T1 A) (D2 : IsNone T2 A).
  Local Notation SV := (same_view D1 D2).

  Lemma vdot_view arr1 arr2 coef : SameView D1 D2 arr1 arr2 -> vdot (DT := D1) arr1 coef = vdot (DT := D2) arr2 coef.
  Proof.
    intros HS. unfold vdot.
    apply (fold_left_rel (R := fun (p : T1 * A) (q : T2 * A) => SV (fst p) (fst q) /\ snd p = snd q)).
    - intros s [a c] [b c'] [Hab Hc]. cbn [fst snd] in *. subst c'. rewrite (sv_not_none Hab).
      destruct (not_none b) eqn:Hb; [|reflexivity]. rewrite (sv_unwrap Hab Hb). reflexivity.
    - revert coef. induction HS as [|a b r1 r2 Hab _ IH]; intros [|c coef]; cbn [combine]; constructor; auto.
  Qed.

  Lemma vfdiff_cb_view d w mp u arr1 arr2 :
    SameView D1 D2 arr1 arr2 -> ts_vfdiff_cb (DT := D1) d w mp u arr1 = ts_vfdiff_cb (DT := D2) d w mp u arr2.
  Proof.
    intros HS. unfold ts_vfdiff_cb.
    assert (HFl : SameView D1 D2 (filter not_none arr1) (filter not_none arr2)).
    { apply (Forall2_filter (R := SV)); [intros a b E; apply (sv_not_none E)|exact HS]. }
    rewrite (Forall2_len HFl), (vdot_view _ HS), (vdot_view _ HFl). reflexivity.
  Qed.

  Theorem vfdiff_same_view d xs1 xs2 w mp body :
    SameView D1 D2 xs1 xs2 -> ts_vfdiff (DT := D1) body d w mp xs1 = ts_vfdiff (DT := D2) body d w mp xs2.
  Proof.
    intros HS. unfold ts_vfdiff, rolling_custom_to, rolling_custom_default. unfold bad_window.
    rewrite (Forall2_len HS). destruct body.
    - destruct ((w =? 0) && negb (length xs2 =? 0)); [reflexivity|]. f_equal.
      apply (exec_rel (SameView D1 D2)); [intros s a b H; apply vfdiff_cb_view; exact H|].
      induction (slices_to w (length xs2)) as [|[slot [st e]] l IH]; cbn [map]; constructor; [|exact IH].
      cbn [fst snd]. split; [reflexivity|apply Forall2_seg; exact HS].
    - destruct (w =? 0); [reflexivity|]. f_equal.
      apply (run_rel (SameView D1 D2)); [intros s a b H; apply vfdiff_cb_view; exact H|].
      induction (slices_iter w (length xs2)) as [|[st e] l IH]; cbn [map]; constructor; [|exact IH].
      apply Forall2_seg. exact HS.
  Qed.
End FdiffFamily.
