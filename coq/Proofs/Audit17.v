(* Proofs/Audit17.v — audit of property C17 (notes/C17.md, "Audit matrix"): what the clause-by-clause audit added.
     (1) DateTime +- TimeDelta: ONE closed form for every operand (order of the checks, which panic), sign-uniform in
         the months; x - d = x + (-d); the value of a month-free shift for EVERY d (x + floor(ns / unit)), which makes
         known-finding class 1 an arithmetic fact: the round trip succeeds IFF d is outside the class (both orders).
     (2) DateTime - DateTime: total description, antisymmetry, a - a, triangle, a - (a - b) = b, never in class 1.
     (3) TimeDelta + - * : the rejected inputs exactly (which check fails first), left identity, a - a, cancellation.
     (4) calendar months: add_months k then -k is the identity IFF the day was not clamped; composition; mixed durations.
     (5) Time: from_num_seconds_from_midnight, as_cr defined exactly on ..., +- total, no wrap-around at 24 h, the
         mirror inverse law, composition of shifts.
     (6) duration_trunc: rejected inputs exactly, idempotent, monotone, fixed points, months + fixed part.
   Axiom-free (Z, lia).                                                                                          *)
From Coq Require Import ZArith List Bool Lia.
From Tevec Require Import Base.Prelude Spec.Calendar Model.Time Proofs.Time Proofs.TimeCal Proofs.Calendar
     Proofs.TimeCal2 Proofs.Time3.
Local Open Scope Z_scope.

(* ================================================================================================ (1) *)
(* the common shape of DateTime + d and DateTime - d on non-NaT operands: months k (signed), then ns n *)
Definition dt_shift_spec (u : tunit) (x k n : Z) : res Z :=
  match as_cr u x with
  | None => Panic UnwrapNone                                   (* as_cr().unwrap(): outside chrono's range *)
  | Some c =>
    match (if k =? 0 then Some c else cr_add_months c k) with
    | None => Panic OtherPanic                                 (* `DateTime + Months` out of range *)
    | Some c1 =>
      match cr_add_ns c1 n with
      | None => Panic Overflow                                 (* `DateTime + TimeDelta` overflowed *)
      | Some r => from_cr u r
      end
    end
  end.

Lemma cr_sub_months_opp c k : cr_sub_months c (- k) = cr_add_months c k.
Proof. unfold cr_sub_months. rewrite Z.opp_involutive. reflexivity. Qed.

Theorem dt_add_closed_form u x d :
  dt_add u x d = if is_nat x || td_is_nat d then Ok NaT else dt_shift_spec u x (td_months d) (td_ns d).
Proof.
  unfold dt_add, dt_shift_spec. destruct (is_nat x); [reflexivity|]. destruct (td_is_nat d); [reflexivity|].
  cbn [negb andb orb]. destruct (as_cr u x) as [c|]; [|reflexivity]. cbn [unwrap bind].
  destruct (td_months d =? 0) eqn:E0; cbn [negb].
  - cbn [bind]. destruct (cr_add_ns c (td_ns d)); reflexivity.
  - apply Z.eqb_neq in E0. destruct (0 <? td_months d) eqn:Ep.
    + destruct (cr_add_months c (td_months d)); cbn [expect_other bind]; [|reflexivity].
      destruct (cr_add_ns _ _); reflexivity.
    + rewrite cr_sub_months_opp. destruct (cr_add_months c (td_months d)); cbn [expect_other bind]; [|reflexivity].
      destruct (cr_add_ns _ _); reflexivity.
Qed.

Theorem dt_sub_closed_form u x d :
  dt_sub u x d = if is_nat x || td_is_nat d then Ok NaT else dt_shift_spec u x (- td_months d) (- td_ns d).
Proof.
  unfold dt_sub, dt_shift_spec. destruct (is_nat x); [reflexivity|]. destruct (td_is_nat d); [reflexivity|].
  cbn [negb andb orb]. destruct (as_cr u x) as [c|]; [|reflexivity]. cbn [unwrap bind].
  replace (- td_months d =? 0) with (td_months d =? 0)
    by (destruct (td_months d =? 0) eqn:E; symmetry; [apply Z.eqb_eq; apply Z.eqb_eq in E|apply Z.eqb_neq; apply Z.eqb_neq in E]; lia).
  destruct (td_months d =? 0) eqn:E0; cbn [negb].
  - cbn [bind]. destruct (cr_add_ns c (- td_ns d)); reflexivity.
  - destruct (0 <? td_months d) eqn:Ep.
    + unfold cr_sub_months. destruct (cr_add_months c (- td_months d)); cbn [expect_other bind]; [|reflexivity].
      destruct (cr_add_ns _ _); reflexivity.
    + destruct (cr_add_months c (- td_months d)); cbn [expect_other bind]; [|reflexivity].
      destruct (cr_add_ns _ _); reflexivity.
Qed.

(* x - d = x + (-d) for EVERY date-time and every duration whose month count is an i32 (NaT included) *)
Theorem dt_sub_as_add_neg u x d :
  in_i32 (td_months d) = true -> dt_sub u x d = dt_add u x (td_neg d).
Proof.
  intros Hm. rewrite dt_sub_closed_form, dt_add_closed_form. unfold td_neg.
  destruct (td_is_nat d) eqn:En; cbn [negb].
  - rewrite En, !orb_true_r. reflexivity.
  - cbn [td_months td_ns]. replace (td_is_nat (mktd (- td_months d) (- td_ns d))) with false; [reflexivity|].
    symmetry. unfold td_is_nat. cbn [td_months]. apply Z.eqb_neq. apply in_i32_iff in Hm. unfold i32_min, i32_max in *. lia.
Qed.
Theorem dt_add_as_sub_neg u x d :
  in_i32 (td_months d) = true -> dt_add u x d = dt_sub u x (td_neg d).
Proof.
  intros Hm. rewrite dt_sub_closed_form, dt_add_closed_form. unfold td_neg.
  destruct (td_is_nat d) eqn:En; cbn [negb].
  - rewrite En, !orb_true_r. reflexivity.
  - cbn [td_months td_ns]. replace (td_is_nat (mktd (- td_months d) (- td_ns d))) with false.
    + rewrite !Z.opp_involutive. reflexivity.
    + symmetry. unfold td_is_nat. cbn [td_months]. apply Z.eqb_neq. apply in_i32_iff in Hm. unfold i32_min, i32_max in *. lia.
Qed.

(* the three panics of the shift, in source order, as an exact description of the rejected input *)
Theorem dt_shift_outcomes u x k n :
  (as_cr u x = None -> dt_shift_spec u x k n = Panic UnwrapNone)
  /\ (forall c, as_cr u x = Some c -> k <> 0 -> cr_add_months c k = None -> dt_shift_spec u x k n = Panic OtherPanic)
  /\ (forall c c1, as_cr u x = Some c -> (if k =? 0 then Some c else cr_add_months c k) = Some c1 ->
        cr_add_ns c1 n = None -> dt_shift_spec u x k n = Panic Overflow)
  /\ (forall c c1 r, as_cr u x = Some c -> (if k =? 0 then Some c else cr_add_months c k) = Some c1 ->
        cr_add_ns c1 n = Some r -> dt_shift_spec u x k n = from_cr u r).
Proof.
  unfold dt_shift_spec. repeat split.
  - intros ->. reflexivity.
  - intros c -> Hk Hm. apply Z.eqb_neq in Hk. rewrite Hk, Hm. reflexivity.
  - intros c c1 -> -> ->. reflexivity.
  - intros c c1 r -> -> ->. reflexivity.
Qed.

(* a month-free shift never raises the month panic; it panics with "overflowed" exactly when the shifted instant leaves
   chrono's date range *)
Theorem dt_add_monthfree_outcome u x d c :
  x <> NaT -> td_months d = 0 -> as_cr u x = Some c ->
  dt_add u x d =
    if date_in_range ((x * unit_ns u + td_ns d) / 1000000000 / SECS_PER_DAY)
    then from_cr u (cr_of_total_ns (x * unit_ns u + td_ns d)) else Panic Overflow.
Proof.
  intros Hx Hm Hc. rewrite dt_add_closed_form. apply is_nat_false in Hx. rewrite Hx, (td_months0_not_nat _ Hm).
  cbn [orb]. unfold dt_shift_spec. rewrite Hc, Hm. cbn [Z.eqb]. unfold cr_add_ns.
  destruct (as_cr_total _ _ _ Hc) as [-> _]. rewrite cr_total_of_total, cr_day_of_total.
  destruct (date_in_range _); reflexivity.
Qed.

(* the value of a month-free shift, for EVERY d (whole number of units or not): x + floor(ns / unit).  Both steps
   of the round trip floor toward the past; this is all there is to known-finding class 1 *)
Theorem dt_add_monthfree_value u x d y :
  x <> NaT -> td_months d = 0 -> dt_add u x d = Ok y -> y <> NaT -> y = x + td_ns d / unit_ns u.
Proof.
  intros Hx Hm H Hy. destruct (dt_add_monthfree _ _ _ _ Hm H Hx) as (c & r & Hc & Hr & Hf).
  apply as_cr_total in Hc. destruct Hc as [-> _]. apply cr_add_ns_inv in Hr. destruct Hr as [-> _].
  rewrite cr_total_of_total in Hf. apply from_cr_of_total_val in Hf; [|exact Hy]. subst y.
  pose proof (unit_ns_pos u). replace (x * unit_ns u + td_ns d) with (td_ns d + x * unit_ns u) by lia.
  rewrite Z.div_add by lia. lia.
Qed.
Theorem dt_sub_monthfree_value u x d y :
  x <> NaT -> td_months d = 0 -> dt_sub u x d = Ok y -> y <> NaT -> y = x + (- td_ns d) / unit_ns u.
Proof.
  intros Hx Hm H Hy. destruct (dt_sub_monthfree _ _ _ _ Hm H Hx) as (c & r & Hc & Hr & Hf).
  apply as_cr_total in Hc. destruct Hc as [-> _]. apply cr_add_ns_inv in Hr. destruct Hr as [-> _].
  rewrite cr_total_of_total in Hf. apply from_cr_of_total_val in Hf; [|exact Hy]. subst y.
  pose proof (unit_ns_pos u). replace (x * unit_ns u + - td_ns d) with (- td_ns d + x * unit_ns u) by lia.
  rewrite Z.div_add by lia. lia.
Qed.

(* floor(n / U) + floor(-n / U) is 0 when U | n and -1 otherwise *)
Lemma floor_neg_sum n U : 0 < U -> n / U + (- n) / U = if n mod U =? 0 then 0 else -1.
Proof.
  intros HU. destruct (n mod U =? 0) eqn:E.
  - apply Z.eqb_eq in E. rewrite (Z.div_opp_l_z n U) by lia. lia.
  - apply Z.eqb_neq in E. rewrite (Z.div_opp_l_nz n U) by lia. lia.
Qed.

(* class 1 is EXACTLY the set of month-free durations on which the law fails: given that the first step succeeds
   with a value, the second step returns x if and only if d is outside the class *)
Theorem inverse_law_iff_class1 u x d y :
  in_i64 x = true -> x <> NaT -> td_months d = 0 -> dt_add u x d = Ok y -> y <> NaT ->
  (dt_sub u y d = Ok x <-> kf_subunit u d = false).
Proof.
  intros Hx64 Hx Hm Ha Hy. split.
  - intros Hs. destruct (kf_subunit u d) eqn:Hk; [|reflexivity]. exfalso.
    pose proof (add_sub_class1_loses_one_unit u x d y x Hx Hm Hk Ha Hy Hs Hx). lia.
  - intros Hk. apply add_sub_inverse; assumption.
Qed.
(* the mirror image (x - d) + d, which the class also breaks, also by one unit *)
Theorem sub_add_class1_loses_one_unit u x d y z :
  x <> NaT -> td_months d = 0 -> kf_subunit u d = true ->
  dt_sub u x d = Ok y -> y <> NaT -> dt_add u y d = Ok z -> z <> NaT -> z = x - 1.
Proof.
  intros Hx Hm Hk Hs Hy Ha Hz.
  pose proof (dt_sub_monthfree_value u x d y Hx Hm Hs Hy) as Ey.
  pose proof (dt_add_monthfree_value u y d z Hy Hm Ha Hz) as Ez.
  pose proof (unit_ns_pos u) as HU. pose proof (floor_neg_sum (td_ns d) (unit_ns u) HU) as HF.
  unfold kf_subunit in Hk. apply negb_true_iff in Hk. rewrite Hk in HF. lia.
Qed.
Theorem inverse_law_iff_class1_mirror u x d y :
  in_i64 x = true -> x <> NaT -> td_months d = 0 -> dt_sub u x d = Ok y -> y <> NaT ->
  (dt_add u y d = Ok x <-> kf_subunit u d = false).
Proof.
  intros Hx64 Hx Hm Hs Hy. split.
  - intros Ha. destruct (kf_subunit u d) eqn:Hk; [|reflexivity]. exfalso.
    pose proof (sub_add_class1_loses_one_unit u x d y x Hx Hm Hk Hs Hy Ha Hx). lia.
  - intros Hk. apply sub_add_inverse; assumption.
Qed.
(* the class in arithmetic: whatever the two steps return, the round trip is x + (0 or -1) *)
Theorem round_trip_value u x d y z :
  x <> NaT -> td_months d = 0 -> dt_add u x d = Ok y -> y <> NaT -> dt_sub u y d = Ok z -> z <> NaT ->
  z = x + (if kf_subunit u d then -1 else 0).
Proof.
  intros Hx Hm Ha Hy Hs Hz.
  pose proof (dt_add_monthfree_value u x d y Hx Hm Ha Hy) as Ey.
  pose proof (dt_sub_monthfree_value u y d z Hy Hm Hs Hz) as Ez.
  pose proof (unit_ns_pos u) as HU. pose proof (floor_neg_sum (td_ns d) (unit_ns u) HU) as HF.
  unfold kf_subunit. destruct (td_ns d mod unit_ns u =? 0); cbn [negb]; lia.
Qed.

(* ================================================================================================ (2) *)
(* DateTime - DateTime on every pair of operands: NaT either side, else the two `unwrap`s, else the exact distance *)
Theorem dt_diff_closed_form u a b :
  dt_diff u a b =
    if is_nat a || is_nat b then Ok td_nat
    else match as_cr u a, as_cr u b with
         | Some _, Some _ => Ok (mktd 0 (instant_ns u a - instant_ns u b))
         | _, _ => Panic UnwrapNone
         end.
Proof.
  unfold dt_diff. destruct (is_nat a); [reflexivity|]. destruct (is_nat b); [reflexivity|]. cbn [negb andb orb].
  destruct (as_cr u a) as [ca|] eqn:Ea; [|reflexivity]. destruct (as_cr u b) as [cb|] eqn:Eb; [|reflexivity].
  cbn [unwrap bind]. destruct (as_cr_total _ _ _ Ea) as [-> _]. destruct (as_cr_total _ _ _ Eb) as [-> _].
  rewrite !cr_total_of_total. reflexivity.
Qed.
(* at the default unit the difference never panics *)
Corollary dt_diff_nano_total a b :
  a <> NaT -> b <> NaT -> dt_diff Nano a b = Ok (mktd 0 (a - b)).
Proof.
  intros Ha Hb. rewrite dt_diff_closed_form. apply is_nat_false in Ha. apply is_nat_false in Hb. rewrite Ha, Hb.
  cbn [orb]. unfold as_cr. rewrite Ha, Hb. unfold instant_ns. cbn [unit_ns]. rewrite !Z.mul_1_r. reflexivity.
Qed.
Lemma dt_diff_ok_inv u a b d :
  a <> NaT -> b <> NaT -> dt_diff u a b = Ok d ->
  (exists ca cb, as_cr u a = Some ca /\ as_cr u b = Some cb) /\ d = mktd 0 (instant_ns u a - instant_ns u b).
Proof.
  intros Ha Hb. rewrite dt_diff_closed_form. apply is_nat_false in Ha. apply is_nat_false in Hb. rewrite Ha, Hb.
  cbn [orb]. destruct (as_cr u a) as [ca|]; [|discriminate]. destruct (as_cr u b) as [cb|]; [|discriminate].
  intros [= <-]. split; [exists ca, cb; auto|reflexivity].
Qed.
Lemma dt_diff_ok_intro u a b ca cb :
  as_cr u a = Some ca -> as_cr u b = Some cb -> dt_diff u a b = Ok (mktd 0 (instant_ns u a - instant_ns u b)).
Proof.
  intros Ea Eb. rewrite dt_diff_closed_form.
  destruct (as_cr_total _ _ _ Ea) as [_ Ha]. destruct (as_cr_total _ _ _ Eb) as [_ Hb].
  apply is_nat_false in Ha. apply is_nat_false in Hb. rewrite Ha, Hb, Ea, Eb. reflexivity.
Qed.

Theorem dt_diff_antisym u a b d :
  a <> NaT -> b <> NaT -> dt_diff u a b = Ok d -> dt_diff u b a = Ok (td_neg d).
Proof.
  intros Ha Hb H. destruct (dt_diff_ok_inv _ _ _ _ Ha Hb H) as [(ca & cb & Ea & Eb) ->].
  rewrite (dt_diff_ok_intro _ _ _ _ _ Eb Ea). unfold td_neg, td_is_nat. cbn [td_months td_ns]. change (0 =? i32_min) with false.
  cbn [negb Z.opp]. do 2 f_equal. lia.
Qed.
Theorem dt_diff_self u a c : as_cr u a = Some c -> dt_diff u a a = Ok td_zero.
Proof. intros E. rewrite (dt_diff_ok_intro _ _ _ _ _ E E), Z.sub_diag. reflexivity. Qed.
Theorem dt_diff_triangle u a b c d1 d2 :
  a <> NaT -> b <> NaT -> c <> NaT -> dt_diff u a b = Ok d1 -> dt_diff u b c = Ok d2 ->
  dt_diff u a c = Ok (mktd 0 (td_ns d1 + td_ns d2)).
Proof.
  intros Ha Hb Hc H1 H2. destruct (dt_diff_ok_inv _ _ _ _ Ha Hb H1) as [(ca & cb & Ea & Eb) ->].
  destruct (dt_diff_ok_inv _ _ _ _ Hb Hc H2) as [(cb' & cc & _ & Ec) ->].
  rewrite (dt_diff_ok_intro _ _ _ _ _ Ea Ec). cbn [td_ns]. do 2 f_equal. lia.
Qed.
(* a difference of date-times of unit u is a whole number of units: never in known-finding class 1 *)
Theorem dt_diff_never_class1 u a b d :
  a <> NaT -> b <> NaT -> dt_diff u a b = Ok d -> kf_subunit u d = false /\ td_months d = 0.
Proof.
  intros Ha Hb H. destruct (dt_diff_ok_inv _ _ _ _ Ha Hb H) as [_ ->]. split; [|reflexivity].
  unfold kf_subunit, instant_ns. cbn [td_ns]. rewrite <- Z.mul_sub_distr_r, Z.mod_mul by (pose proof (unit_ns_pos u); lia).
  reflexivity.
Qed.
(* ... and a valid duration (inside chrono's Duration range) *)
Theorem dt_diff_valid u a b d :
  in_i64 a = true -> in_i64 b = true -> a <> NaT -> b <> NaT -> dt_diff u a b = Ok d -> td_valid d.
Proof.
  intros Ha64 Hb64 Ha Hb H. destruct (dt_diff_ok_inv _ _ _ _ Ha Hb H) as [(ca & cb & Ea & Eb) ->].
  pose proof (as_cr_range _ _ _ Ha64 Ea) as Ra. pose proof (as_cr_range _ _ _ Hb64 Eb) as Rb.
  destruct (as_cr_total _ _ _ Ea) as [-> _]. destruct (as_cr_total _ _ _ Eb) as [-> _].
  rewrite cr_day_of_total in Ra, Rb. unfold date_in_range in Ra, Rb.
  apply andb_true_iff in Ra. apply andb_true_iff in Rb. rewrite !Z.leb_le in Ra, Rb.
  unfold td_valid, instant_ns. cbn [td_months td_ns]. unfold i32_min, i32_max, DUR_MAX_NS, i64_max.
  unfold cr_min_day, cr_max_day, SECS_PER_DAY in *.
  set (A := a * unit_ns u) in *. set (B := b * unit_ns u) in *. clearbody A B.
  split; [lia|]. Z.div_mod_to_equations. lia.
Qed.
(* a - (a - b) = b: the other inverse law of the difference *)
Theorem diff_sub_inverse u a b d :
  in_i64 b = true -> a <> NaT -> b <> NaT -> dt_diff u a b = Ok d -> dt_sub u a d = Ok b.
Proof.
  intros Hb64 Ha Hb H. unfold dt_diff in H.
  rewrite (proj2 (is_nat_false a) Ha), (proj2 (is_nat_false b) Hb) in H. cbn [negb andb] in H.
  destruct (as_cr u a) as [ca|] eqn:Eca; [|discriminate].
  destruct (as_cr u b) as [cb|] eqn:Ecb; [|discriminate]. cbn [unwrap bind] in H. injection H as <-.
  assert (Hr : cr_add_ns ca (- (cr_total_ns ca - cr_total_ns cb)) = Some cb).
  { unfold cr_add_ns. replace (cr_total_ns ca + - (cr_total_ns ca - cr_total_ns cb)) with (cr_total_ns cb) by lia.
    destruct (as_cr_total _ _ _ Ecb) as [E _].
    assert (Hw : cr_wf cb) by (rewrite E; apply cr_of_total_wf).
    rewrite (cr_of_total_total _ Hw), (as_cr_range _ _ _ Hb64 Ecb). reflexivity. }
  rewrite (dt_sub_monthfree_intro u a (mktd 0 (cr_total_ns ca - cr_total_ns cb)) ca cb eq_refl Ha Eca Hr).
  apply as_cr_from_cr; assumption.
Qed.

(* ================================================================================================ (3) *)
(* TimeDelta + TimeDelta, - and * i32 on every pair of non-NaT operands: the value, or WHICH check fails first
   (the month arithmetic is evaluated before the Duration arithmetic: struct field order) *)
Theorem td_add_total a b :
  td_is_nat a = false -> td_is_nat b = false ->
  td_add a b =
    if negb (in_i32 (td_months a + td_months b)) then Panic Overflow
    else if negb (dur_in_range (td_ns a + td_ns b)) then Panic Overflow
    else Ok (mktd (td_months a + td_months b) (td_ns a + td_ns b)).
Proof.
  intros Ha Hb. unfold td_add, chk32, dur_chk. rewrite Ha, Hb. cbn [negb andb].
  destruct (in_i32 _); cbn [negb bind]; [|reflexivity]. destruct (dur_in_range _); reflexivity.
Qed.
Theorem td_sub_total a b :
  td_is_nat a = false -> td_is_nat b = false ->
  td_sub a b =
    if negb (in_i32 (td_months a - td_months b)) then Panic Underflow
    else if negb (dur_in_range (td_ns a - td_ns b)) then Panic Overflow
    else Ok (mktd (td_months a - td_months b) (td_ns a - td_ns b)).
Proof.
  intros Ha Hb. unfold td_sub, chk32s, dur_chk. rewrite Ha, Hb. cbn [negb andb].
  destruct (in_i32 _); cbn [negb bind]; [|reflexivity]. destruct (dur_in_range _); reflexivity.
Qed.
Theorem td_mul_total a k :
  td_is_nat a = false ->
  td_mul a k =
    if negb (in_i32 (td_months a * k)) then Panic Overflow
    else if (td_ns a * k / 1000000000 <=? i64_min) || (i64_max <=? td_ns a * k / 1000000000) then Panic Overflow
    else Ok (mktd (td_months a * k) (td_ns a * k)).
Proof.
  intros Ha. unfold td_mul, chk32, dur_mul. rewrite Ha. cbn [negb].
  destruct (in_i32 _); cbn [negb bind]; [|reflexivity]. destruct (_ || _); reflexivity.
Qed.
(* NaT operands: the result is NaT without any arithmetic being evaluated (no panic whatever the other operand) *)
Theorem td_ops_nat_total a b k :
  td_is_nat a = true \/ td_is_nat b = true ->
  td_add a b = Ok td_nat /\ td_sub a b = Ok td_nat /\ (td_is_nat a = true -> td_mul a k = Ok td_nat).
Proof.
  intros H. unfold td_add, td_sub, td_mul.
  destruct H as [H|H]; rewrite H; cbn [negb andb]; rewrite ?andb_false_r; repeat split; try reflexivity.
  intros ->. reflexivity.
Qed.
(* negation never panics; on a valid duration it is valid (Props: C17_td_inverse); the value on every operand *)
Theorem td_neg_total d :
  td_neg d = if td_is_nat d then d else mktd (- td_months d) (- td_ns d).
Proof. unfold td_neg. destruct (td_is_nat d); reflexivity. Qed.

(* the group laws the first version left implicit: left identity, a - a, cancellation, -(a + b) *)
Theorem td_zero_left a : td_valid a -> td_add td_zero a = Ok a.
Proof. intros H. rewrite td_add_comm. apply td_add_zero_r. exact H. Qed.
Theorem td_sub_self a : td_valid a -> td_sub a a = Ok td_zero.
Proof.
  intros H. rewrite td_sub_total by (apply td_valid_not_nat; exact H). rewrite !Z.sub_diag. reflexivity.
Qed.
Theorem td_add_cancel a b c r :
  td_is_nat a = false -> td_is_nat b = false -> td_is_nat c = false ->
  td_add a c = Ok r -> td_add b c = Ok r -> a = b.
Proof.
  intros Ha Hb Hc H1 H2. destruct (td_add_inv _ _ _ Ha Hc H1) as [E1 _]. destruct (td_add_inv _ _ _ Hb Hc H2) as [E2 _].
  rewrite E1 in E2. injection E2 as Em En. destruct a as [ma na], b as [mb nb]. cbn [td_months td_ns] in *. f_equal; lia.
Qed.
Theorem td_neg_add a b r :
  td_valid a -> td_valid b -> td_add a b = Ok r -> td_is_nat r = false ->
  td_add (td_neg a) (td_neg b) = Ok (td_neg r).
Proof.
  intros Ha Hb H Hr. pose proof (td_valid_not_nat _ Ha) as Na. pose proof (td_valid_not_nat _ Hb) as Nb.
  pose proof (td_add_valid a b r Na Nb H Hr) as Vr.
  destruct (td_add_inv _ _ _ Na Nb H) as [-> _].
  pose proof (td_neg_valid _ Ha) as Va'. pose proof (td_neg_valid _ Hb) as Vb'.
  rewrite td_add_total by (apply td_valid_not_nat; assumption).
  rewrite !td_neg_total, Na, Nb. rewrite td_neg_total in Va', Vb'. rewrite Na in Va'. rewrite Nb in Vb'.
  replace (td_is_nat (mktd (td_months a + td_months b) (td_ns a + td_ns b))) with false
    by (symmetry; apply td_valid_not_nat; exact Vr).
  cbn [td_months td_ns]. unfold td_valid in *. cbn [td_months td_ns] in *.
  replace (in_i32 (- td_months a + - td_months b)) with true
    by (symmetry; apply in_i32_iff; unfold i32_min, i32_max in *; lia).
  replace (dur_in_range (- td_ns a + - td_ns b)) with true
    by (symmetry; unfold dur_in_range; apply andb_true_iff; rewrite !Z.leb_le; lia).
  cbn [negb]. do 2 f_equal; lia.
Qed.

(* ================================================================================================ (4) *)
(* calendar months.  k months forward then k months back: year and month always come back, the day comes back
   clamped to the length of the TARGET month — so the round trip is the identity IFF no clamping happened *)
Theorem add_months_back y m d k :
  valid_civil (y, m, d) ->
  add_months (add_months (y, m, d) k) (- k)
  = (y, m, Z.min d (days_in_month ((y * 12 + (m - 1) + k) / 12) ((y * 12 + (m - 1) + k) mod 12 + 1))).
Proof.
  intros Hv. apply valid_civil_iff in Hv. unfold add_months. cbv zeta.
  set (t := y * 12 + (m - 1) + k).
  assert (E : t / 12 * 12 + (t mod 12 + 1 - 1) + - k = y * 12 + (m - 1)) by (subst t; Z.div_mod_to_equations; lia).
  rewrite E.
  assert (Hq : (y * 12 + (m - 1)) / 12 = y) by (Z.div_mod_to_equations; lia).
  assert (Hr : (y * 12 + (m - 1)) mod 12 + 1 = m) by (Z.div_mod_to_equations; lia).
  rewrite Hq, Hr. f_equal. lia.
Qed.
Theorem add_months_roundtrip_iff y m d k :
  valid_civil (y, m, d) ->
  (add_months (add_months (y, m, d) k) (- k) = (y, m, d)
   <-> d <= days_in_month ((y * 12 + (m - 1) + k) / 12) ((y * 12 + (m - 1) + k) mod 12 + 1)).
Proof.
  intros Hv. rewrite (add_months_back _ _ _ k Hv). split.
  - intros [= E]. lia.
  - intros H. f_equal. lia.
Qed.
Corollary add_months_roundtrip_day28 y m d k :
  valid_civil (y, m, d) -> d <= 28 -> add_months (add_months (y, m, d) k) (- k) = (y, m, d).
Proof.
  intros Hv Hd. apply add_months_roundtrip_iff; [exact Hv|].
  pose proof (dim_bounds ((y * 12 + (m - 1) + k) / 12) ((y * 12 + (m - 1) + k) mod 12 + 1)). lia.
Qed.
(* composition: year and month always compose; the day too when the start day exists in every month (<= 28) *)
Theorem add_months_compose y m d j k :
  valid_civil (y, m, d) ->
  fst (add_months (add_months (y, m, d) j) k) = fst (add_months (y, m, d) (j + k))
  /\ (d <= 28 -> add_months (add_months (y, m, d) j) k = add_months (y, m, d) (j + k)).
Proof.
  intros Hv. apply valid_civil_iff in Hv. unfold add_months. cbv zeta.
  set (t := y * 12 + (m - 1) + j).
  assert (E : t / 12 * 12 + (t mod 12 + 1 - 1) + k = y * 12 + (m - 1) + (j + k)) by (subst t; Z.div_mod_to_equations; lia).
  rewrite E. cbn [fst]. split; [reflexivity|]. intros Hd. f_equal.
  pose proof (dim_bounds (t / 12) (t mod 12 + 1)).
  set (t2 := y * 12 + (m - 1) + (j + k)). pose proof (dim_bounds (t2 / 12) (t2 mod 12 + 1)). lia.
Qed.

(* what must NOT be claimed: months do not obey the inverse law — 2000-01-31 + 1 month - 1 month = 2000-01-29 *)
Theorem month_add_sub_not_inverse :
  exists u x k y z, dt_add u x (mktd k 0) = Ok y /\ dt_sub u y (mktd k 0) = Ok z /\ z <> x /\ z <> NaT /\ y <> NaT.
Proof. exists Sec, 949276800, 1, 951782400, 949104000. vm_compute. repeat split; discriminate. Qed.

(* a chrono value is determined by its calendar fields *)
Lemma cr_of_fields c1 c2 :
  cr_civil c1 = cr_civil c2 -> cr_sod c1 = cr_sod c2 -> cr_nanos c1 = cr_nanos c2 -> c1 = c2.
Proof.
  intros Ec Es En. destruct c1 as [s1 n1], c2 as [s2 n2]. unfold cr_civil, cr_sod, cr_day in *.
  cbn [cr_secs cr_nanos] in *. subst n2. f_equal.
  assert (Ed : s1 / SECS_PER_DAY = s2 / SECS_PER_DAY).
  { rewrite <- (days_civil_days (s1 / SECS_PER_DAY)), <- (days_civil_days (s2 / SECS_PER_DAY)), Ec. reflexivity. }
  unfold SECS_PER_DAY in *. Z.div_mod_to_equations. lia.
Qed.
Lemma as_cr_injective u x z c : as_cr u x = Some c -> as_cr u z = Some c -> x = z.
Proof.
  intros Hx Hz. destruct (as_cr_total _ _ _ Hx) as [E1 _]. destruct (as_cr_total _ _ _ Hz) as [E2 _].
  assert (E : x * unit_ns u = z * unit_ns u) by (rewrite <- (cr_total_of_total (x * unit_ns u)), <- E1, E2; apply cr_total_of_total).
  pose proof (unit_ns_pos u). nia.
Qed.

(* ... and exactly when they do: the round trip DateTime + k months - k months returns x IFF the day of x exists in
   the target month (no end-of-month clamping) *)
Theorem month_add_sub_inverse_iff u x k y z c yr mo dd :
  x <> NaT -> k <> 0 -> k <> i32_min ->
  dt_add u x (mktd k 0) = Ok y -> y <> NaT -> dt_sub u y (mktd k 0) = Ok z -> z <> NaT ->
  as_cr u x = Some c -> cr_civil c = (yr, mo, dd) ->
  (z = x <-> dd <= days_in_month ((yr * 12 + (mo - 1) + k) / 12) ((yr * 12 + (mo - 1) + k) mod 12 + 1)).
Proof.
  intros Hx Hk Hk' Ha Hy Hs Hz Hc Hcv.
  destruct (dt_add_months_fields calendar_lawful u x k y Hx Hk Hk' Ha Hy) as (c0 & cy & Hc0 & Hcy & F1 & F2 & F3).
  rewrite Hc in Hc0. injection Hc0 as <-.
  destruct (dt_sub_months_fields calendar_lawful u y k z Hy Hk Hk' Hs Hz) as (cy0 & cz & Hcy0 & Hcz & G1 & G2 & G3).
  rewrite Hcy in Hcy0. injection Hcy0 as <-.
  pose proof (cr_civil_valid calendar_lawful c) as Hv. rewrite Hcv in Hv.
  rewrite F1, Hcv, (add_months_back _ _ _ k Hv) in G1.
  split.
  - intros ->. rewrite Hc in Hcz. injection Hcz as <-. rewrite Hcv in G1. injection G1 as G1. lia.
  - intros Hd. assert (cz = c).
    { apply cr_of_fields; [rewrite G1, Hcv; f_equal; lia|congruence|congruence]. }
    subst cz. symmetry. exact (as_cr_injective _ _ _ _ Hc Hcz).
Qed.

(* a duration with months AND a fixed part: the months are applied first (on the calendar), then the fixed part —
   the single operator equals the two operators in sequence, for every fixed part *)
Theorem dt_add_mixed_sequential u x k n y1 :
  x <> NaT -> k <> 0 -> k <> i32_min -> dt_add u x (mktd k 0) = Ok y1 -> y1 <> NaT ->
  dt_add u x (mktd k n) = dt_add u y1 (mktd 0 n).
Proof.
  intros Hx Hk Hk' H1 Hy1.
  assert (Nk : td_is_nat (mktd k 0) = false) by (unfold td_is_nat; cbn [td_months]; lia).
  assert (Nk' : td_is_nat (mktd k n) = false) by (unfold td_is_nat; cbn [td_months]; lia).
  rewrite dt_add_closed_form in H1. rewrite !dt_add_closed_form.
  rewrite (proj2 (is_nat_false x) Hx) in *. rewrite (proj2 (is_nat_false y1) Hy1). rewrite Nk in H1. rewrite Nk'.
  change (td_is_nat (mktd 0 n)) with false. cbn [orb td_months td_ns] in *.
  unfold dt_shift_spec in *. destruct (as_cr u x) as [c|] eqn:Ec; [|discriminate].
  replace (k =? 0) with false in * by lia. change (0 =? 0) with true.
  destruct (cr_add_months c k) as [c1|] eqn:E1; [|discriminate].
  destruct (cr_add_ns c1 0) as [r|] eqn:Er; [|discriminate].
  pose proof (cr_add_months_wf calendar_lawful _ _ _ (as_cr_wf _ _ _ Ec) E1) as Hw1.
  destruct (cr_add_ns_0 _ _ Hw1 Er) as [-> Hrange].
  destruct (cr_add_months_spec calendar_lawful _ _ _ E1) as (_ & _ & E3).
  assert (Hy : as_cr u y1 = Some c1).
  { apply from_cr_as_cr; try assumption. rewrite E3. apply (as_cr_unit_whole _ _ _ Ec). }
  rewrite Hy. reflexivity.
Qed.

(* ================================================================================================ (5) *)
(* Time constructors on EVERY i64 argument: the value is linear in the components, and the debug-build overflow
   checks fail in source order *)
Theorem time_from_hms_total h m s :
  time_from_hms h m s =
    if in_i64 (h * 3600) && in_i64 (m * 60) && in_i64 (h * 3600 + m * 60) && in_i64 (h * 3600 + m * 60 + s)
       && in_i64 ((h * 3600 + m * 60 + s) * 1000000000)
    then Ok ((h * 3600 + m * 60 + s) * 1000000000) else Panic Overflow.
Proof.
  unfold time_from_hms, chk64, SECS_PER_HOUR, SECS_PER_MINUTE, NANOS_PER_SEC.
  destruct (in_i64 (h * 3600)); cbn [bind andb]; [|reflexivity].
  destruct (in_i64 (m * 60)); cbn [bind andb]; [|reflexivity].
  destruct (in_i64 (h * 3600 + m * 60)); cbn [bind andb]; [|reflexivity].
  destruct (in_i64 (h * 3600 + m * 60 + s)); cbn [bind andb]; [|reflexivity].
  destruct (in_i64 _); reflexivity.
Qed.
Theorem time_ctor_linear h m s x t :
  (time_from_hms h m s = Ok t -> t = (h * 3600 + m * 60 + s) * 1000000000)
  /\ (time_from_hms_nano h m s x = Ok t -> t = (h * 3600 + m * 60 + s) * 1000000000 + x)
  /\ (time_from_hms_micro h m s x = Ok t -> t = (h * 3600 + m * 60 + s) * 1000000000 + x * 1000)
  /\ (time_from_hms_milli h m s x = Ok t -> t = (h * 3600 + m * 60 + s) * 1000000000 + x * 1000000)
  /\ (time_from_nsm h x = Ok t -> t = h * 1000000000 + x).
Proof.
  assert (L : forall t0, time_from_hms h m s = Ok t0 -> t0 = (h * 3600 + m * 60 + s) * 1000000000).
  { intros t0. rewrite time_from_hms_total. destruct (_ && _); [intros [= <-]; reflexivity|discriminate]. }
  repeat split.
  - apply L.
  - unfold time_from_hms_nano. destruct (time_from_hms h m s) as [t0|pk] eqn:E; try discriminate. cbn [bind].
    intros H. apply chk64_inv in H. pose proof (L _ eq_refl) as E0. lia.
  - unfold time_from_hms_micro, time_from_hms_sub, NANOS_PER_MICRO.
    destruct (time_from_hms h m s) as [t0|pk] eqn:E; try discriminate. cbn [bind].
    unfold chk64 at 1. destruct (in_i64 (x * 1000)); [|discriminate]. cbn [bind].
    intros H. apply chk64_inv in H. pose proof (L _ eq_refl) as E0. lia.
  - unfold time_from_hms_milli, time_from_hms_sub, NANOS_PER_MILLI.
    destruct (time_from_hms h m s) as [t0|pk] eqn:E; try discriminate. cbn [bind].
    unfold chk64 at 1. destruct (in_i64 (x * 1000000)); [|discriminate]. cbn [bind].
    intros H. apply chk64_inv in H. pose proof (L _ eq_refl) as E0. lia.
  - unfold time_from_nsm, NANOS_PER_SEC. unfold chk64 at 1. destruct (in_i64 (h * 1000000000)); [|discriminate].
    cbn [bind]. intros H. apply chk64_inv in H. tauto.
Qed.
(* from_num_seconds_from_midnight (time.rs:99-104; was compared only): on a second of the day and a sub-second part
   it reports hour = secs / 3600 ..., and it is from_hms_nano without the h/m/s split *)
Theorem time_from_nsm_getters secs n :
  0 <= secs < 86400 -> 0 <= n < 1000000000 ->
  exists t, time_from_nsm secs n = Ok t /\ t = secs * 1000000000 + n /\ 0 <= t < 86400000000000
    /\ time_hour t = Ok (secs / 3600) /\ time_minute t = Ok (secs / 60 mod 60) /\ time_second t = Ok (secs mod 60)
    /\ time_nanosecond t = Ok n.
Proof.
  intros Hs Hn. exists (secs * 1000000000 + n).
  assert (R : 0 <= secs * 1000000000 + n < 86400000000000) by lia.
  split.
  { unfold time_from_nsm, NANOS_PER_SEC. rewrite chk64_ok by (apply in_i64_iff; unfold i64_min, i64_max; lia).
    cbn [bind]. apply chk64_ok. apply in_i64_iff; unfold i64_min, i64_max; lia. }
  split; [reflexivity|]. split; [exact R|].
  unfold time_hour, time_minute, time_second, time_nanosecond. rewrite time_as_cr_in_range by exact R.
  cbn [unwrap bind fst snd].
  assert (E1 : (secs * 1000000000 + n) / 1000000000 = secs) by (Z.div_mod_to_equations; lia).
  assert (E2 : (secs * 1000000000 + n) mod 1000000000 = n) by (Z.div_mod_to_equations; lia).
  rewrite E1, E2. auto.
Qed.
Theorem time_from_nsm_is_hms_nano h m s n :
  hms_ok h m s -> 0 <= n < 1000000000 -> time_from_nsm (h * 3600 + m * 60 + s) n = time_from_hms_nano h m s n.
Proof.
  intros H Hn. rewrite (time_from_hms_nano_value h m s n H Hn). destruct H as (Hh & Hm & Hs).
  unfold time_from_nsm, NANOS_PER_SEC. rewrite chk64_ok by (apply in_i64_iff; unfold i64_min, i64_max; lia).
  cbn [bind]. apply chk64_ok. apply in_i64_iff; unfold i64_min, i64_max; lia.
Qed.

(* Time::as_cr is defined EXACTLY on: a non-negative value, or a negative whole number of seconds, whose whole
   seconds wrapped to u32 (`as u32`) fall below 86400.  (So every time of day; not NaT; no value in -(2^32-86400) s .. 0;
   but e.g. Time(2^32 s) reads as midnight: the wrap-around remark of the notes, now with its exact extent.) *)
Theorem time_as_cr_some_iff t :
  in_i64 t = true ->
  (time_as_cr t <> None
   <-> (0 <= t \/ Z.rem t 1000000000 = 0) /\ wrap_u32 (Z.quot t 1000000000) < 86400).
Proof.
  intros H64. apply in_i64_iff in H64. unfold i64_min, i64_max in H64.
  unfold time_as_cr, NANOS_PER_SEC, naive_time_opt.
  set (q := Z.quot t 1000000000). set (r := Z.rem t 1000000000).
  pose proof (Z.quot_rem' t 1000000000) as E. fold q r in E.
  assert (HW : 0 <= wrap_u32 q < 4294967296) by (unfold wrap_u32; apply Z.mod_pos_bound; lia).
  destruct (Z_le_gt_dec 0 t) as [Hp|Hn].
  - pose proof (Z.rem_bound_pos t 1000000000 Hp ltac:(lia)) as B. fold r in B.
    assert (Wr : wrap_u32 r = r) by (unfold wrap_u32; apply Z.mod_small; lia). rewrite Wr.
    replace (2000000000 <=? r) with false by lia. replace (1000000000 <=? r) with false by lia.
    cbn [andb]. rewrite !orb_false_r. destruct (Z.leb_spec 86400 (wrap_u32 q)).
    + split; [intros C; contradiction C; reflexivity|lia].
    + split; [intros _; split; [left; exact Hp|assumption]|discriminate].
  - pose proof (Z.rem_bound_pos_neg t 1000000000 ltac:(lia) ltac:(lia)) as B. fold r in B.
    destruct (Z.eq_dec r 0) as [R0|R0].
    + rewrite R0. change (wrap_u32 0) with 0. cbn [Z.leb Z.compare andb]. rewrite !orb_false_r.
      destruct (Z.leb_spec 86400 (wrap_u32 q)).
      * split; [intros C; contradiction C; reflexivity|lia].
      * split; [intros _; split; [right; reflexivity|assumption]|discriminate].
    + assert (Wr : wrap_u32 r = r + 4294967296) by (unfold wrap_u32; symmetry; apply (Z.mod_unique _ _ (-1)); lia).
      rewrite Wr. replace (2000000000 <=? r + 4294967296) with true by lia. rewrite orb_true_r. cbn [orb].
      split; [intros C; contradiction C; reflexivity|lia].
Qed.

(* Time + d and Time - d on EVERY pair of operands, checks in source order: NaT either side -> NaT; months -> panic;
   a fixed part beyond i64 nanoseconds -> NaT (silently); i64 overflow -> debug panic; else the exact sum *)
Theorem time_add_total t d :
  time_add t d =
    if is_nat t || td_is_nat d then Ok NaT
    else if negb (td_months d =? 0) then Panic OtherPanic
    else if negb (in_i64 (td_ns d)) then Ok NaT
    else if in_i64 (t + td_ns d) then Ok (t + td_ns d) else Panic Overflow.
Proof.
  unfold time_add, num_ns, chk64. destruct (is_nat t); [reflexivity|]. destruct (td_is_nat d); [reflexivity|].
  cbn [negb andb orb]. destruct (td_months d =? 0); cbn [negb]; [|reflexivity].
  destruct (in_i64 (td_ns d)); reflexivity.
Qed.
Theorem time_sub_total t d :
  time_sub t d =
    if is_nat t || td_is_nat d then Ok NaT
    else if negb (td_months d =? 0) then Panic OtherPanic
    else if negb (in_i64 (td_ns d)) then Ok NaT
    else if in_i64 (t - td_ns d) then Ok (t - td_ns d) else Panic Underflow.
Proof.
  unfold time_sub, num_ns, chk64s. destruct (is_nat t); [reflexivity|]. destruct (td_is_nat d); [reflexivity|].
  cbn [negb andb orb]. destruct (td_months d =? 0); cbn [negb]; [|reflexivity].
  destruct (in_i64 (td_ns d)); reflexivity.
Qed.
(* the shift is NOT modular: no wrap-around at 24 h.  The result is a time of day iff the plain sum is *)
Theorem time_add_in_day_iff t d y :
  t <> NaT -> td_months d = 0 -> in_i64 (td_ns d) = true -> time_add t d = Ok y ->
  y = t + td_ns d /\ (0 <= y < 86400000000000 <-> 0 <= t + td_ns d < 86400000000000).
Proof. intros Ht Hm Hd H. pose proof (time_add_inv t d y Ht Hm Hd H) as ->. split; [reflexivity|tauto]. Qed.
Theorem time_add_no_wrap :
  exists t d y, time_add t d = Ok y /\ 0 <= t < 86400000000000 /\ td_months d = 0 /\ ~ (0 <= y < 86400000000000)
                /\ time_as_cr y = None /\ time_hour y = Panic UnwrapNone.
Proof. exists 82800000000000, (mktd 0 7200000000000), 90000000000000. vm_compute. repeat split; try discriminate; intros [_ H]; discriminate H. Qed.
(* mirror inverse law and composition of shifts *)
Theorem time_sub_add_inverse t d y :
  in_i64 t = true -> t <> NaT -> td_months d = 0 -> in_i64 (td_ns d) = true ->
  time_sub t d = Ok y -> y <> NaT -> time_add y d = Ok t.
Proof.
  intros Ht64 Ht Hm Hd H Hy. rewrite time_sub_total in H. rewrite time_add_total.
  rewrite (proj2 (is_nat_false t) Ht), (td_months0_not_nat _ Hm), Hm, Hd in H. cbn [orb negb Z.eqb] in H.
  destruct (in_i64 (t - td_ns d)); [|discriminate]. injection H as <-.
  rewrite (proj2 (is_nat_false _) Hy), (td_months0_not_nat _ Hm), Hm, Hd. cbn [orb negb Z.eqb].
  replace (t - td_ns d + td_ns d) with t by lia. rewrite Ht64. reflexivity.
Qed.
Theorem time_add_compose t a b y z :
  t <> NaT -> td_months a = 0 -> td_months b = 0 -> in_i64 (td_ns a) = true -> in_i64 (td_ns b) = true ->
  in_i64 (td_ns a + td_ns b) = true ->
  time_add t a = Ok y -> y <> NaT -> time_add y b = Ok z ->
  time_add t (mktd 0 (td_ns a + td_ns b)) = Ok z.
Proof.
  intros Ht Ha Hb Ia Ib Iab H1 Hy H2.
  pose proof (time_add_inv t a y Ht Ha Ia H1) as ->. pose proof (time_add_inv _ b z Hy Hb Ib H2) as E.
  rewrite time_add_total in H2.
  rewrite (proj2 (is_nat_false _) Hy), (td_months0_not_nat _ Hb), Hb, Ib in H2. cbn [orb negb Z.eqb] in H2.
  destruct (in_i64 (t + td_ns a + td_ns b)) eqn:I; [|discriminate].
  rewrite time_add_exact; cbn [td_months td_ns]; try assumption; try reflexivity.
  - f_equal. lia.
  - rewrite Z.add_assoc. exact I.
Qed.

(* ================================================================================================ (6) *)
(* duration_trunc: the checks in source order, for EVERY duration (NaT duration included: its month count is negative) *)
Theorem dt_trunc_checks u x d :
  (is_nat x = true -> dt_trunc u x d = Ok x)
  /\ (x <> NaT -> as_cr u x = None -> dt_trunc u x d = Panic UnwrapNone)
  /\ (forall c, x <> NaT -> as_cr u x = Some c -> td_months d < 0 -> dt_trunc u x d = Panic OtherPanic).
Proof.
  unfold dt_trunc. repeat split.
  - intros ->. reflexivity.
  - intros Hx ->. rewrite (proj2 (is_nat_false x) Hx). reflexivity.
  - intros c Hx -> Hm. rewrite (proj2 (is_nat_false x) Hx). cbn [unwrap bind].
    replace (td_months d =? 0) with false by lia. replace (td_months d <? 0) with true by lia. reflexivity.
Qed.
(* month-free: the rejected input exactly — a duration <= 0 or beyond i64 nanoseconds, or an instant outside the i64
   nanosecond window (coarse units only): chrono's RoundingError, `expect("Rounding Error")` *)
Theorem dt_trunc_monthfree_rejects u x d c :
  x <> NaT -> td_months d = 0 -> as_cr u x = Some c ->
  td_ns d <= 0 \/ in_i64 (td_ns d) = false \/ in_i64 (instant_ns u x) = false ->
  dt_trunc u x d = Panic OtherPanic.
Proof.
  intros Hx Hm Ec H. unfold dt_trunc. rewrite (proj2 (is_nat_false x) Hx), Hm, Ec. cbn [Z.eqb negb unwrap bind].
  destruct (as_cr_total _ _ _ Ec) as [-> _]. unfold cr_duration_trunc, num_ns. rewrite cr_total_of_total.
  destruct (in_i64 (td_ns d)) eqn:I; [|reflexivity].
  destruct (Z.leb_spec (td_ns d) 0); [reflexivity|].
  destruct H as [H|[H|H]]; [lia|discriminate|]. unfold instant_ns in H. rewrite H. reflexivity.
Qed.
(* ... and on every other input it returns, with the value in closed form *)
Theorem dt_trunc_monthfree_total u x d c :
  x <> NaT -> td_months d = 0 -> as_cr u x = Some c ->
  0 < td_ns d -> in_i64 (td_ns d) = true -> in_i64 (instant_ns u x) = true ->
  dt_trunc u x d = from_cr u (cr_of_total_ns (td_ns d * (instant_ns u x / td_ns d))).
Proof.
  intros Hx Hm Ec Hd Hd64 HT. unfold dt_trunc. rewrite (proj2 (is_nat_false x) Hx), Hm, Ec. cbn [Z.eqb negb unwrap bind].
  destruct (as_cr_total _ _ _ Ec) as [-> _]. unfold cr_duration_trunc, num_ns. rewrite cr_total_of_total, Hd64.
  replace (td_ns d <=? 0) with false by lia. unfold instant_ns in *. rewrite HT.
  set (T := x * unit_ns u) in *. set (n := td_ns d) in *.
  pose proof (trunc_floor T n Hd) as HF. cbv zeta in HF.
  pose proof (Z.rem_bound_abs T n ltac:(lia)) as HB.
  apply in_i64_iff in HT. apply in_i64_iff in Hd64. unfold i64_min, i64_max in *.
  destruct (Z.rem T n =? 0) eqn:E0.
  - cbn [bind]. rewrite <- HF. reflexivity.
  - destruct (0 <? Z.rem T n) eqn:E1.
    + unfold cr_add_ns. rewrite cr_total_of_total, cr_day_of_total.
      replace (date_in_range _) with true.
      * cbn [expect_overflow bind]. rewrite <- HF. repeat f_equal; lia.
      * symmetry. unfold date_in_range, cr_min_day, cr_max_day, SECS_PER_DAY. apply andb_true_iff. rewrite !Z.leb_le.
        Z.div_mod_to_equations. lia.
    + unfold cr_add_ns. rewrite cr_total_of_total, cr_day_of_total.
      replace (date_in_range _) with true.
      * cbn [expect_overflow bind]. rewrite <- HF. repeat f_equal; lia.
      * symmetry. unfold date_in_range, cr_min_day, cr_max_day, SECS_PER_DAY. apply andb_true_iff. rewrite !Z.leb_le.
        Z.div_mod_to_equations. lia.
Qed.
(* what truncation must not change: it is idempotent, monotone, and fixes exactly the multiples of d *)
Theorem dt_trunc_idempotent u x d y y' :
  x <> NaT -> td_months d = 0 -> 0 < td_ns d -> td_ns d mod unit_ns u = 0 ->
  dt_trunc u x d = Ok y -> y <> NaT -> dt_trunc u y d = Ok y' -> y' <> NaT -> y' = y.
Proof.
  intros Hx Hm Hd Hk H1 Hy H2 Hy'.
  destruct (dt_trunc_monthfree_multiple u x d y Hx Hm Hd Hk H1 Hy) as [E1 _].
  destruct (dt_trunc_monthfree_multiple u y d y' Hy Hm Hd Hk H2 Hy') as [E2 _].
  assert (Q : td_ns d * (instant_ns u x / td_ns d) / td_ns d = instant_ns u x / td_ns d)
    by (rewrite Z.mul_comm; apply Z.div_mul; lia).
  rewrite E1, Q, <- E1 in E2.
  unfold instant_ns in E2. pose proof (unit_ns_pos u). nia.
Qed.
Theorem dt_trunc_monotone u x x' d y y' :
  x <> NaT -> x' <> NaT -> td_months d = 0 -> 0 < td_ns d ->
  dt_trunc u x d = Ok y -> y <> NaT -> dt_trunc u x' d = Ok y' -> y' <> NaT -> x <= x' -> y <= y'.
Proof.
  intros Hx Hx' Hm Hd H1 Hy H2 Hy' Hle.
  rewrite (dt_trunc_monthfree u x d y Hx Hm Hd H1 Hy), (dt_trunc_monthfree u x' d y' Hx' Hm Hd H2 Hy').
  pose proof (unit_ns_pos u) as HU. unfold instant_ns.
  apply Z.div_le_mono; [lia|]. apply Z.mul_le_mono_nonneg_l; [lia|]. apply Z.div_le_mono; [lia|]. nia.
Qed.
Theorem dt_trunc_fixed_iff u x d y :
  x <> NaT -> td_months d = 0 -> 0 < td_ns d -> td_ns d mod unit_ns u = 0 ->
  dt_trunc u x d = Ok y -> y <> NaT -> (y = x <-> instant_ns u x mod td_ns d = 0).
Proof.
  intros Hx Hm Hd Hk H Hy.
  destruct (dt_trunc_monthfree_multiple u x d y Hx Hm Hd Hk H Hy) as [E _].
  pose proof (unit_ns_pos u) as HU. pose proof (Z.div_mod (instant_ns u x) (td_ns d) ltac:(lia)) as DM.
  split.
  - intros ->. lia.
  - intros H0. assert (instant_ns u y = instant_ns u x) by lia. unfold instant_ns in *. nia.
Qed.
(* a duration with months (dividing 12) AND a fixed part: month truncation first, then the fixed part — equal to the
   two truncations in sequence whenever the intermediate date-time is a value in chrono's range (always at ns) *)
Theorem dt_trunc_mixed_sequential u x m n y1 cy :
  x <> NaT -> divides12 m -> n <> 0 -> dt_trunc u x (mktd m 0) = Ok y1 -> as_cr u y1 = Some cy ->
  dt_trunc u x (mktd m n) = dt_trunc u y1 (mktd 0 n).
Proof.
  intros Hx Hm Hn H1 Hcy. destruct (as_cr_total _ _ _ Hcy) as [_ Hy1].
  unfold dt_trunc in H1 |- *. rewrite (proj2 (is_nat_false x) Hx) in *. rewrite (proj2 (is_nat_false y1) Hy1).
  destruct (as_cr u x) as [c|] eqn:Ec; [|discriminate]. cbn [unwrap bind td_months td_ns] in *. cbv zeta in *.
  assert (Hm0 : (m =? 0) = false /\ (m <? 0) = false) by (destruct Hm as [->|[->|[->|[->|[->| ->]]]]]; auto).
  destruct Hm0 as [Hm1 Hm2]. rewrite Hm1, Hm2 in *. cbn [negb Z.eqb] in *.
  destruct (trunc_months c m) as [c1|] eqn:Et; [|discriminate]. cbn [bind] in *.
  change (num_ns 0) with (Some 0) in H1. cbv iota in H1.
  pose proof (trunc_months_spec calendar_lawful _ _ _ Hm Et) as HS.
  destruct (cr_civil c) as [[yr mo] dd]. destruct HS as (S1 & S2 & S3).
  assert (cy = c1).
  { apply (from_cr_as_cr_unique u c1 y1 cy); try assumption.
    - unfold cr_wf. rewrite S3. lia.
    - rewrite S3. apply Z.mod_0_l. pose proof (unit_ns_pos u). lia. }
  subst cy. rewrite Hcy. cbn [unwrap bind].
  unfold num_ns. destruct (in_i64 n); [|reflexivity]. destruct n; [contradiction Hn; reflexivity|reflexivity|reflexivity].
Qed.
