(* Proofs/Ols.v — real algebra of covariance / correlation / least squares over a list of observations:
   expansions in cross power sums, normal equations, uniqueness, minimality, perfect fit, and the
   power sums of the time-trend design t = 1..n.  No model code here.                               *)
From Coq Require Import Reals Lra Lia List Psatz.
From Tevec Require Import Base.Prelude Base.Num Base.XR Spec.Stats Spec.Ols.
Import ListNotations.
Local Open Scope R_scope.

Lemma sumP_cons f a b P : sumP f ((a, b) :: P) = f a b + sumP f P.
Proof. reflexivity. Qed.
Lemma sumP_app f P Q : sumP f (P ++ Q) = sumP f P + sumP f Q.
Proof. unfold sumP. rewrite map_app. apply sumR_app. Qed.
Lemma nP_cons p P : nP (p :: P) = nP P + 1.
Proof. unfold nP. cbn [length]. apply S_INR. Qed.
Lemma nP_nil : nP [] = 0.
Proof. reflexivity. Qed.
Lemma nP_nonneg P : 0 <= nP P.
Proof. apply pos_INR. Qed.

Lemma sumP_nonneg f P : (forall a b, 0 <= f a b) -> 0 <= sumP f P.
Proof.
  intros Hf. induction P as [|[a b] P IH]; [unfold sumP; cbn; lra|].
  rewrite sumP_cons. specialize (Hf a b). lra.
Qed.
Lemma sumP_zero f P : Forall (fun p => f (fst p) (snd p) = 0) P -> sumP f P = 0.
Proof.
  induction 1 as [|[a b] P Hp _ IH]; [reflexivity|].
  rewrite sumP_cons, IH. cbn [fst snd] in Hp. lra.
Qed.

(* ---- expansions in the cross power sums -------------------------------------------- *)
Lemma codev_expand ca cb P :
  sumP (fun a b => (a - ca) * (b - cb)) P = SAB P - cb * SA P - ca * SB P + nP P * ca * cb.
Proof.
  unfold SAB, SA, SB. induction P as [|[a b] P IH]; [unfold sumP, nP; cbn; ring|].
  rewrite !sumP_cons, nP_cons, IH. ring.
Qed.
Lemma sse_expand al be P :
  sse al be P = SAA P - 2 * al * SA P - 2 * be * SAB P + nP P * al ^ 2 + 2 * al * be * SB P + be ^ 2 * SBB P.
Proof.
  unfold sse, SAA, SAB, SA, SB, SBB. induction P as [|[a b] P IH]; [unfold sumP, nP; cbn; ring|].
  rewrite !sumP_cons, nP_cons, IH. ring.
Qed.
Lemma normal1_expand al be P :
  sumP (fun a b => a - al - be * b) P = SA P - nP P * al - be * SB P.
Proof.
  unfold SA, SB. induction P as [|[a b] P IH]; [unfold sumP, nP; cbn; ring|].
  rewrite !sumP_cons, nP_cons, IH. ring.
Qed.
Lemma normal2_expand al be P :
  sumP (fun a b => b * (a - al - be * b)) P = SAB P - al * SB P - be * SBB P.
Proof.
  unfold SAB, SB, SBB. induction P as [|[a b] P IH]; [unfold sumP, nP; cbn; ring|].
  rewrite !sumP_cons, IH. ring.
Qed.
(* the SSE at any other line, seen from (al, be) *)
Lemma sse_shift al be al' be' P :
  sse al' be' P = sse al be P
                  + 2 * (al - al') * sumP (fun a b => a - al - be * b) P
                  + 2 * (be - be') * sumP (fun a b => b * (a - al - be * b)) P
                  + sumP (fun _ b => ((al - al') + (be - be') * b) ^ 2) P.
Proof.
  unfold sse. induction P as [|[a b] P IH]; [unfold sumP; cbn; ring|].
  rewrite !sumP_cons, IH. ring.
Qed.

(* power sums of the two coordinates *)
Lemma psum1_fst P : psum 1 (map fst P) = SA P.
Proof.
  unfold SA. induction P as [|[a b] P IH]; [reflexivity|].
  cbn [map fst]. rewrite psum_cons, sumP_cons, IH. ring.
Qed.
Lemma psum2_fst P : psum 2 (map fst P) = SAA P.
Proof.
  unfold SAA. induction P as [|[a b] P IH]; [reflexivity|].
  cbn [map fst]. rewrite psum_cons, sumP_cons, IH. ring.
Qed.
Lemma psum1_snd P : psum 1 (map snd P) = SB P.
Proof.
  unfold SB. induction P as [|[a b] P IH]; [reflexivity|].
  cbn [map snd]. rewrite psum_cons, sumP_cons, IH. ring.
Qed.
Lemma psum2_snd P : psum 2 (map snd P) = SBB P.
Proof.
  unfold SBB. induction P as [|[a b] P IH]; [reflexivity|].
  cbn [map snd]. rewrite psum_cons, sumP_cons, IH. ring.
Qed.

(* E[x^2] - E[x]^2 is the population variance *)
Lemma popvar_from_sums (V : list R) :
  nR V <> 0 -> psum 2 V / nR V - (psum 1 V / nR V) ^ 2 = popvarR V.
Proof.
  intros Hn. unfold popvarR, cmom, meanR. rewrite devsum2_expand, <- psum_1. field. exact Hn.
Qed.
Lemma popvar_nonneg (V : list R) : 0 <= popvarR V.
Proof.
  unfold popvarR, cmom. pose proof (devsum2_nonneg (meanR V) V) as H.
  unfold nR. destruct V as [|x V]; [cbn [length INR]; unfold Rdiv; rewrite Rinv_0; lra|].
  apply Rmult_le_pos; [exact H|]. apply Rlt_le, Rinv_0_lt_compat, lt_0_INR. cbn. lia.
Qed.

(* ---- covariance ------------------------------------------------------------------------ *)
Lemma codev_from_sums P : nP P <> 0 -> SAB P - SA P * SB P / nP P = codev P.
Proof.
  intros Hn. unfold codev. rewrite codev_expand. unfold meanA, meanB. field. exact Hn.
Qed.

(* ---- least squares --------------------------------------------------------------------- *)
Lemma detB_nil : detB [] = 0.
Proof. unfold detB, SBB, SB, sumP, nP. cbn. ring. Qed.
Lemma detB_single p : detB [p] = 0.
Proof. destruct p as [a b]. unfold detB, SBB, SB, sumP, nP. cbn. ring. Qed.
Lemma det_nonzero_two P : detB P <> 0 -> (2 <= length P)%nat.
Proof.
  intros H. destruct P as [|p [|q P]]; [exfalso; apply H, detB_nil|exfalso; apply H, detB_single|].
  cbn [length]. lia.
Qed.
Lemma det_nonzero_n P : detB P <> 0 -> nP P <> 0.
Proof.
  intros H. apply det_nonzero_two in H. unfold nP. apply not_0_INR. lia.
Qed.

(* the determinant is n times the sum of squared deviations of the regressor: it vanishes exactly
   when the regressor has no spread *)
Lemma devB_expand c P :
  sumP (fun _ b => (b - c) ^ 2) P = SBB P - 2 * c * SB P + nP P * c ^ 2.
Proof.
  unfold SBB, SB. induction P as [|[a b] P IH]; [unfold sumP, nP; cbn; ring|].
  rewrite !sumP_cons, nP_cons, IH. ring.
Qed.
Lemma detB_devsum P : detB P = nP P * sumP (fun _ b => (b - meanB P) ^ 2) P.
Proof.
  destruct (Req_dec (nP P) 0) as [Hn|Hn].
  - assert (P = []) as E.
    { destruct P; [reflexivity|]. rewrite nP_cons in Hn. pose proof (nP_nonneg P). lra. }
    subst P. rewrite detB_nil, nP_nil. ring.
  - rewrite devB_expand. unfold detB, meanB. field. exact Hn.
Qed.
Lemma detB_nonneg P : 0 <= detB P.
Proof.
  rewrite detB_devsum. apply Rmult_le_pos; [apply nP_nonneg|].
  apply sumP_nonneg. intros _ b. apply pow2_ge_0.
Qed.
Lemma detB_constant_regressor c P : Forall (fun p => snd p = c) P -> detB P = 0.
Proof.
  intros H.
  assert (HB : SB P = nP P * c /\ SBB P = nP P * (c * c)).
  { unfold SB, SBB. induction H as [|[a b] P Hp _ [IH1 IH2]]; [unfold sumP, nP; cbn; split; ring|].
    cbn [snd] in Hp. subst b. rewrite !sumP_cons, nP_cons, IH1, IH2. split; ring. }
  destruct HB as [HB1 HB2]. unfold detB. rewrite HB1, HB2. ring.
Qed.

Lemma ols_normal_eqs P : detB P <> 0 -> normal_eqs (ols_alpha P) (ols_beta P) P.
Proof.
  intros HD. pose proof (det_nonzero_n P HD) as Hn. unfold normal_eqs.
  rewrite normal1_expand, normal2_expand. unfold ols_alpha, ols_beta. unfold detB in *.
  set (n := nP P) in *. set (sa := SA P). set (sb := SB P) in *. set (sab := SAB P). set (sbb := SBB P) in *.
  clearbody n sa sb sab sbb. split; field; split; assumption.
Qed.

Lemma ols_unique al be P :
  detB P <> 0 -> normal_eqs al be P -> al = ols_alpha P /\ be = ols_beta P.
Proof.
  intros HD [H1 H2]. pose proof (det_nonzero_n P HD) as Hn.
  rewrite normal1_expand in H1. rewrite normal2_expand in H2.
  unfold ols_alpha, ols_beta. unfold detB in *.
  set (n := nP P) in *. set (sa := SA P) in *. set (sb := SB P) in *. set (sab := SAB P) in *.
  set (sbb := SBB P) in *. clearbody n sa sb sab sbb.
  assert (Hsa : sa = n * al + be * sb) by lra.
  assert (Hsab : sab = al * sb + be * sbb) by lra.
  assert (Hbe : be = (n * sab - sa * sb) / (n * sbb - sb ^ 2)).
  { rewrite Hsa, Hsab. field. exact HD. }
  split; [|exact Hbe]. rewrite <- Hbe. rewrite Hsa. field. exact Hn.
Qed.

(* "least squares" without calculus: the solution of the normal equations minimises the SSE *)
Lemma ols_minimises P al' be' :
  detB P <> 0 -> sse (ols_alpha P) (ols_beta P) P <= sse al' be' P.
Proof.
  intros HD. destruct (ols_normal_eqs P HD) as [H1 H2].
  rewrite (sse_shift (ols_alpha P) (ols_beta P) al' be' P), H1, H2.
  pose proof (sumP_nonneg (fun _ b => ((ols_alpha P - al') + (ols_beta P - be') * b) ^ 2) P
                          ltac:(intros; apply pow2_ge_0)).
  lra.
Qed.

(* SSE at the optimum in the form the code uses: Saa - alpha Sa - beta Sab *)
Lemma sse_at_ols P :
  detB P <> 0 ->
  SAA P - ols_alpha P * SA P - ols_beta P * SAB P = sse (ols_alpha P) (ols_beta P) P.
Proof.
  intros HD. destruct (ols_normal_eqs P HD) as [H1 H2].
  rewrite normal1_expand in H1. rewrite normal2_expand in H2. rewrite sse_expand.
  set (al := ols_alpha P) in *. set (be := ols_beta P) in *. clearbody al be.
  replace (SAA P - 2 * al * SA P - 2 * be * SAB P + nP P * al ^ 2 + 2 * al * be * SB P + be ^ 2 * SBB P)
    with (SAA P - al * SA P - be * SAB P
          - al * (SA P - nP P * al - be * SB P) - be * (SAB P - al * SB P - be * SBB P)) by ring.
  rewrite H1, H2. ring.
Qed.

Lemma sse_nonneg al be P : 0 <= sse al be P.
Proof. apply sumP_nonneg. intros a b. apply pow2_ge_0. Qed.

(* the residuals of the fitted line sum to zero *)
Lemma resids_sum al be P : sumR (resids al be P) = sumP (fun a b => a - al - be * b) P.
Proof. unfold resids, sumP, resid. reflexivity. Qed.
Lemma resids_length al be P : length (resids al be P) = length P.
Proof. apply map_length. Qed.
Lemma ols_resid_mean_zero P : detB P <> 0 -> meanR (resids (ols_alpha P) (ols_beta P) P) = 0.
Proof.
  intros HD. unfold meanR. rewrite resids_sum. destruct (ols_normal_eqs P HD) as [-> _].
  unfold Rdiv. ring.
Qed.

(* a perfect linear window: the fit recovers the line and every residual vanishes *)
Lemma perfect_fit c d P :
  detB P <> 0 -> Forall (fun p => fst p = c + d * snd p) P ->
  ols_alpha P = c /\ ols_beta P = d /\ sse (ols_alpha P) (ols_beta P) P = 0 /\
  Forall (fun r => r = 0) (resids (ols_alpha P) (ols_beta P) P).
Proof.
  intros HD HL.
  assert (HN : normal_eqs c d P).
  { split; apply sumP_zero; eapply Forall_impl; [|exact HL| |exact HL]; cbn beta;
      intros [a b]; cbn [fst snd]; intros ->; ring. }
  destruct (ols_unique c d P HD HN) as [<- <-].
  split; [reflexivity|]. split; [reflexivity|]. split.
  - apply sumP_zero. eapply Forall_impl; [|exact HL]. intros [a b]. cbn [fst snd]. intros ->. ring.
  - unfold resids. apply Forall_map. eapply Forall_impl; [|exact HL].
    intros [a b]. unfold resid. cbn [fst snd]. intros ->. ring.
Qed.

(* ---- the time-trend design ------------------------------------------------------------- *)
Lemma trend_from_cons t x V : trend_from t (x :: V) = (x, INR t) :: trend_from (S t) V.
Proof. reflexivity. Qed.
Lemma trend_from_length t V : length (trend_from t V) = length V.
Proof. unfold trend_from. rewrite combine_length, map_length, seq_length. lia. Qed.
Lemma trend_nP t V : nP (trend_from t V) = nR V.
Proof. unfold nP, nR. rewrite trend_from_length. reflexivity. Qed.
Lemma nR_cons x V : nR (x :: V) = nR V + 1.
Proof. unfold nR. cbn [length]. apply S_INR. Qed.

Lemma trend_SA t V : SA (trend_from t V) = sumR V.
Proof.
  unfold SA. revert t; induction V as [|x V IH]; intros t; [reflexivity|].
  rewrite trend_from_cons, sumP_cons, IH. reflexivity.
Qed.
Lemma trend_SAA t V : SAA (trend_from t V) = psum 2 V.
Proof.
  unfold SAA. revert t; induction V as [|x V IH]; intros t; [reflexivity|].
  rewrite trend_from_cons, sumP_cons, IH, psum_cons. ring.
Qed.
Lemma trend_SAB t V : SAB (trend_from t V) = lwsum_from t V.
Proof.
  unfold SAB. revert t; induction V as [|x V IH]; intros t; [reflexivity|].
  rewrite trend_from_cons, sumP_cons, IH. cbn [lwsum_from]. ring.
Qed.
Lemma trend_SB t V : SB (trend_from t V) = nR V * INR t + nR V * (nR V - 1) / 2.
Proof.
  unfold SB. revert t; induction V as [|x V IH]; intros t; [unfold sumP, nR; cbn; field|].
  rewrite trend_from_cons, sumP_cons, IH, nR_cons, S_INR. field.
Qed.
Lemma trend_SBB t V :
  SBB (trend_from t V) =
  nR V * INR t ^ 2 + INR t * nR V * (nR V - 1) + (nR V - 1) * nR V * (2 * nR V - 1) / 6.
Proof.
  unfold SBB. revert t; induction V as [|x V IH]; intros t; [unfold sumP, nR; cbn; field|].
  rewrite trend_from_cons, sumP_cons, IH, nR_cons, S_INR. field.
Qed.
(* t = 1..n: sum t = n(n+1)/2, sum t^2 = n(n+1)(2n+1)/6 *)
Lemma trend_SB1 V : SB (trend_pairs V) = nR V * (nR V + 1) / 2.
Proof. unfold trend_pairs. rewrite trend_SB. cbn [INR]. field. Qed.
Lemma trend_SBB1 V : SBB (trend_pairs V) = nR V * (nR V + 1) * (2 * nR V + 1) / 6.
Proof. unfold trend_pairs. rewrite trend_SBB. cbn [INR]. field. Qed.
Lemma trend_det V : detB (trend_pairs V) = nR V ^ 2 * (nR V ^ 2 - 1) / 12.
Proof. unfold detB. rewrite trend_SB1, trend_SBB1. unfold trend_pairs. rewrite trend_nP. field. Qed.
Lemma trend_det_zero_iff V : detB (trend_pairs V) = 0 <-> (length V <= 1)%nat.
Proof.
  rewrite trend_det. unfold nR. split.
  - intros H. destruct (le_lt_dec (length V) 1) as [Hle|Hgt]; [exact Hle|exfalso].
    assert (Hx : 2 <= INR (length V)) by (apply (le_INR 2); lia).
    set (x := INR (length V)) in *. clearbody x.
    assert (H4 : 4 <= x ^ 2) by nra.
    assert (Hp : 0 < x ^ 2 * (x ^ 2 - 1)) by nra. lra.
  - intros H. destruct (length V) as [|[|k]]; [cbn; field|cbn; field|lia].
Qed.

(* a line over the ranks 1..n is a perfect linear window of the trend design *)
Lemma trend_line_from c d t n :
  Forall (fun p => fst p = c + d * snd p) (trend_from t (map (fun j => c + d * INR j) (seq t n))).
Proof.
  revert t; induction n as [|n IH]; intros t; [constructor|].
  cbn [seq map]. rewrite trend_from_cons. constructor; [reflexivity|apply IH].
Qed.

(* ---- singular exactly when the regressor is constant over the observations ----------------- *)
Lemma sumP_sq_zero (g : R -> R) P :
  sumP (fun _ b => g b ^ 2) P = 0 -> Forall (fun p => g (snd p) = 0) P.
Proof.
  induction P as [|[a b] P IH]; intros H; [constructor|].
  rewrite sumP_cons in H.
  pose proof (pow2_ge_0 (g b)) as H1.
  pose proof (sumP_nonneg (fun _ b => g b ^ 2) P ltac:(intros; apply pow2_ge_0)) as H2.
  constructor.
  - cbn [snd]. assert (E : g b ^ 2 = 0) by lra. apply Rsqr_0_uniq. unfold Rsqr. lra.
  - apply IH. lra.
Qed.
Lemma detB_zero_iff_constant P :
  detB P = 0 <-> Forall (fun p => snd p = meanB P) P.
Proof.
  split.
  - intros H. rewrite detB_devsum in H.
    destruct (Req_dec (nP P) 0) as [Hn|Hn].
    + destruct P; [constructor|]. rewrite nP_cons in Hn. pose proof (nP_nonneg P). lra.
    + assert (Hs : sumP (fun _ b => (b - meanB P) ^ 2) P = 0).
      { apply Rmult_integral in H. destruct H; [contradiction|assumption]. }
      apply (sumP_sq_zero (fun b => b - meanB P)) in Hs.
      eapply Forall_impl; [|exact Hs]. intros [a b]. cbn [snd]. lra.
  - apply detB_constant_regressor.
Qed.

(* ---- statistics of an all-zero residual list ---------------------------------------------- *)
Lemma zeros_sum (Z0 : list R) : Forall (fun r => r = 0) Z0 -> sumR Z0 = 0.
Proof. induction 1 as [|r Z0 Hr _ IH]; [reflexivity|]. cbn [sumR fold_right]. fold (sumR Z0). lra. Qed.
Lemma zeros_devsum2 (Z0 : list R) : Forall (fun r => r = 0) Z0 -> devsum 2 0 Z0 = 0.
Proof.
  unfold devsum. induction 1 as [|r Z0 Hr _ IH]; [reflexivity|].
  cbn [map sumR fold_right]. fold (sumR (map (fun x => (x - 0) ^ 2) Z0)). rewrite IH, Hr. ring.
Qed.
Lemma zeros_mean_popvar (Z0 : list R) :
  Forall (fun r => r = 0) Z0 -> meanR Z0 = 0 /\ popvarR Z0 = 0.
Proof.
  intros H. assert (Hm : meanR Z0 = 0) by (unfold meanR; rewrite zeros_sum by exact H; unfold Rdiv; ring).
  split; [exact Hm|]. unfold popvarR, cmom. rewrite Hm, zeros_devsum2 by exact H. unfold Rdiv. ring.
Qed.
Lemma zeros_stats (Z0 : list R) :
  Forall (fun r => r = 0) Z0 -> (2 <= length Z0)%nat ->
  agg_mean_spec Z0 = Some 0 /\ agg_std_spec Z0 = Some 0 /\
  ((3 <= length Z0)%nat -> agg_skew_spec Z0 = Some 0).
Proof.
  intros H Hn. destruct (zeros_mean_popvar Z0 H) as [Hm Hv]. pose proof EPS_pos as He.
  unfold agg_mean_spec, agg_std_spec, agg_skew_spec. rewrite Hm, Hv.
  replace (length Z0 =? 0)%nat with false by (symmetry; apply Nat.eqb_neq; lia).
  replace (length Z0 <? 2)%nat with false by (symmetry; apply Nat.ltb_ge; lia).
  split; [reflexivity|]. split.
  - destruct (Rle_dec 0 EPS); [reflexivity|lra].
  - intros H3. replace (length Z0 <? 3)%nat with false by (symmetry; apply Nat.ltb_ge; lia).
    destruct (Rle_dec 0 EPS); [reflexivity|lra].
Qed.
