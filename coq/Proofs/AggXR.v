(* Proofs/AggXR.v — the arithmetic aggregations at the proof instance XR = option R (exact reals + one
   absorbing NaN), for every null dictionary whose valid elements are real numbers (canonical nulls,
   DESIGN 5.4): the model's output equals the textbook statistic of the non-null elements.          *)
From Coq Require Import Reals Lra Lia List Permutation Bool.
From Tevec Require Import Base.Prelude Base.Num Base.XR Spec.Stats Spec.Stats2 Model.Agg Proofs.AggGeneric.
Import ListNotations.
Local Open Scope R_scope.
Set Implicit Arguments.

Notation idX := (fun x : XR => x).

(* ---- the real values of the non-null elements ---------------------------------------------------- *)
Section Canonical.
  (* A: the element's inner type; tof: its cast into the statistics' carrier (Number::f64) *)
  Context {A : Type} {T : Type} {DT : IsNone T A}.
  Variable tof : A -> XR.

  (* canonical nulls: a non-null element is a number *)
  Definition canonical (xs : list T) : Prop :=
    forall v, In v xs -> not_none v = true -> tof (unwrap v) <> None.
  Definition rvals (xs : list T) : list R :=
    flat_map (fun v => if not_none v then match tof (unwrap v) with Some r => [r] | None => [] end else []) xs.
  Definition nvalid (xs : list T) : nat := length (rvals xs).

  Lemma vals_rvals xs : canonical xs -> map tof (vals xs) = map Some (rvals xs).
  Proof.
    intros H. induction xs as [|v xs IH]; [reflexivity|].
    rewrite vals_cons. cbn [rvals flat_map]. fold (rvals xs).
    assert (IH' : map tof (vals xs) = map Some (rvals xs)).
    { apply IH. intros w Hw. apply H. right. exact Hw. }
    destruct (not_none v) eqn:E; [|exact IH'].
    pose proof (H v (or_introl eq_refl) E) as Hv. cbn [map]. destruct (tof (unwrap v)) as [r|]; [|contradiction].
    cbn [app map]. rewrite IH'. reflexivity.
  Qed.

  Lemma canonical_perm xs ys : Permutation xs ys -> canonical xs -> canonical ys.
  Proof. intros HP H v Hv. apply H. eapply Permutation_in; [apply Permutation_sym|]; eassumption. Qed.

  Lemma rvals_perm xs ys : Permutation xs ys -> Permutation (rvals xs) (rvals ys).
  Proof.
    unfold rvals. induction 1 as [|x l l' _ IH|x y l|l l' l'' _ IH1 _ IH2]; cbn [flat_map].
    - constructor.
    - apply Permutation_app_head, IH.
    - rewrite !app_assoc. apply Permutation_app_tail, Permutation_app_comm.
    - eapply Permutation_trans; eassumption.
  Qed.

  Lemma count_valid_nvalid xs : canonical xs -> count_valid xs = nvalid xs.
  Proof.
    intros H. rewrite count_valid_spec. unfold nvalid.
    rewrite <- (map_length tof), (vals_rvals H), map_length. reflexivity.
  Qed.
End Canonical.

(* f64 / f32: the float-like dictionary (NaN is the null) is canonical by construction, rvals = Stats.valid *)
Lemma canonical_float (xs : list XR) : canonical (DT := IsNoneXR) idX xs.
Proof. intros v _ Hv. destruct v; [discriminate|discriminate Hv]. Qed.
Lemma rvals_float (xs : list XR) : rvals (DT := IsNoneXR) idX xs = valid xs.
Proof.
  unfold rvals, valid. induction xs as [|v xs IH]; [reflexivity|]. cbn [flat_map]. rewrite IH.
  destruct v; reflexivity.
Qed.
(* Option<f64>: T = option XR; canonical = no Some(NaN) (DESIGN 5.4) *)
Definition IsNoneOptXR : IsNone (option XR) XR := IsNone_opt None.
(* i32 / i64 / Option<i32>: inner type Z, cast IZR; every integer series is canonical *)
Definition zR (z : Z) : XR := Some (IZR z).
Lemma canonical_int {T} {DT : IsNone T Z} (xs : list T) : canonical zR xs.
Proof. intros v _ _. discriminate. Qed.

(* ---- folds over a list of numbers ------------------------------------------------------------------ *)
Lemma sumR_cons x V : sumR (x :: V) = x + sumR V. Proof. reflexivity. Qed.
Lemma sumR_nil : sumR [] = 0. Proof. reflexivity. Qed.
Lemma psum_nil k : psum k [] = 0. Proof. reflexivity. Qed.

Lemma fold_add_some V a : fold_left (fun acc x : XR => nadd acc x) (map Some V) (Some a) = Some (a + sumR V).
Proof.
  revert a. induction V as [|x V IH]; intros a; cbn [map fold_left].
  - rewrite sumR_nil. f_equal. lra.
  - rewrite xadd_some, IH, sumR_cons. f_equal. ring.
Qed.

Lemma fold_mv V a b :
  fold_left (mv_step idX) (map Some V) (Some a, Some b) = (Some (a + psum 1 V), Some (b + psum 2 V)).
Proof.
  revert a b. induction V as [|x V IH]; intros a b; cbn [map fold_left].
  - rewrite !psum_nil. f_equal; f_equal; lra.
  - change (mv_step idX (Some a, Some b) (Some x)) with (Some (a + x), Some (b + x * x)).
    rewrite IH, !psum_cons. f_equal; f_equal; ring.
Qed.
Lemma fold_sk V a b c :
  fold_left (sk_step idX) (map Some V) (Some a, Some b, Some c)
  = (Some (a + psum 1 V), Some (b + psum 2 V), Some (c + psum 3 V)).
Proof.
  revert a b c. induction V as [|x V IH]; intros a b c; cbn [map fold_left].
  - rewrite !psum_nil. f_equal; [f_equal|]; f_equal; lra.
  - change (sk_step idX (Some a, Some b, Some c) (Some x)) with (Some (a + x), Some (b + x * x), Some (c + x * x * x)).
    rewrite IH, !psum_cons. f_equal; [f_equal|]; f_equal; ring.
Qed.
Lemma fold_ku V a b c d :
  fold_left (ku_step idX) (map Some V) (Some a, Some b, Some c, Some d)
  = (Some (a + psum 1 V), Some (b + psum 2 V), Some (c + psum 3 V), Some (d + psum 4 V)).
Proof.
  revert a b c d. induction V as [|x V IH]; intros a b c d; cbn [map fold_left].
  - rewrite !psum_nil. f_equal; [f_equal; [f_equal|]|]; f_equal; lra.
  - change (ku_step idX (Some a, Some b, Some c, Some d) (Some x))
      with (Some (a + x), Some (b + x * x), Some (c + x * x * x), Some (d + x * x * (x * x))).
    rewrite IH, !psum_cons. f_equal; [f_equal; [f_equal|]|]; f_equal; ring.
Qed.

(* the accumulating closures see an element only through its cast *)
Lemma fold_mv_tof {A} (tof : A -> XR) (l : list A) s :
  fold_left (mv_step tof) l s = fold_left (mv_step idX) (map tof l) s.
Proof. revert s. induction l as [|x l IH]; intros s; [reflexivity|]. cbn [map fold_left]. apply IH. Qed.
Lemma fold_sk_tof {A} (tof : A -> XR) (l : list A) s :
  fold_left (sk_step tof) l s = fold_left (sk_step idX) (map tof l) s.
Proof. revert s. induction l as [|x l IH]; intros s; [reflexivity|]. cbn [map fold_left]. apply IH. Qed.
Lemma fold_ku_tof {A} (tof : A -> XR) (l : list A) s :
  fold_left (ku_step tof) l s = fold_left (ku_step idX) (map tof l) s.
Proof. revert s. induction l as [|x l IH]; intros s; [reflexivity|]. cbn [map fold_left]. apply IH. Qed.

(* ---- real-number identities behind the closed forms -------------------------------------------------- *)
Section Identities.
  Variable V : list R.
  Let n := length V.
  Let S1 := psum 1 V.
  Let S2 := psum 2 V.
  Let S3 := psum 3 V.
  Let S4 := psum 4 V.

  Lemma meanR_psum : meanR V = S1 / INR n.
  Proof. unfold meanR, nR, S1. rewrite psum_1. reflexivity. Qed.

  Lemma popvar_id : n <> 0%nat -> S2 / INR n - (S1 / INR n) ^ 2 = popvarR V.
  Proof.
    intros Hn. unfold popvarR, cmom. rewrite meanR_psum, devsum2_expand. unfold nR. fold n S1 S2.
    assert (INR n <> 0) by (apply not_0_INR; exact Hn). field. assumption.
  Qed.

  Lemma sample_from_pop' : (2 <= n)%nat -> popvarR V * INR n / INR (n - 1) = samplevarR V.
  Proof.
    intros Hn. unfold popvarR, cmom, samplevarR, nR. fold n. rewrite minus_INR by lia. cbn [INR].
    assert (INR n <> 0) by (apply not_0_INR; lia).
    assert (INR n - 1 <> 0). { assert (2 <= INR n) by (apply (le_INR 2); lia). lra. }
    field. split; assumption.
  Qed.

  Lemma samplevar_nonneg' : (2 <= n)%nat -> 0 <= samplevarR V.
  Proof.
    intros Hn. unfold samplevarR. apply Rmult_le_pos; [apply devsum2_nonneg|].
    apply Rlt_le, Rinv_0_lt_compat. unfold nR. fold n.
    assert (2 <= INR n) by (apply (le_INR 2); lia). lra.
  Qed.

  (* skewness: m3/std^3 - 3 (m1/std) - (m1/std)^3 is the standardised third central moment *)
  Lemma skew_core (s : R) :
    n <> 0%nat -> s <> 0 -> s * s = popvarR V ->
    S3 / INR n / s ^ 3 - 3 * (S1 / INR n / s) - (S1 / INR n / s) ^ 3 = cmom 3 V / s ^ 3.
  Proof.
    intros Hn Hs Hvar. rewrite <- (popvar_id Hn) in Hvar.
    assert (Hn0 : INR n <> 0) by (apply not_0_INR; exact Hn).
    assert (HS2 : S2 = INR n * (s * s + (S1 / INR n) ^ 2)) by (rewrite Hvar; field; exact Hn0).
    unfold cmom. rewrite meanR_psum, devsum3_expand. unfold nR. fold n S1 S2 S3.
    rewrite HS2. field. split; assumption.
  Qed.

  (* kurtosis: (m4 - 4 m1 m3)/var^2 + 6 m1^2/var + 3 (m1^2/var)^2 is the standardised fourth central moment *)
  Lemma kurt_core (v : R) :
    n <> 0%nat -> v <> 0 -> v = popvarR V ->
    (S4 / INR n - 4 * (S1 / INR n) * (S3 / INR n)) / v ^ 2 + 6 * ((S1 / INR n) ^ 2 / v)
      + 3 * ((S1 / INR n) ^ 2 / v) ^ 2 = cmom 4 V / v ^ 2.
  Proof.
    intros Hn Hv Hvar. rewrite <- (popvar_id Hn) in Hvar.
    assert (Hn0 : INR n <> 0) by (apply not_0_INR; exact Hn).
    assert (HS2 : S2 = INR n * (v + (S1 / INR n) ^ 2)) by (rewrite Hvar; field; exact Hn0).
    unfold cmom. rewrite meanR_psum, devsum4_expand. unfold nR. fold n S1 S2 S3 S4.
    rewrite HS2. field. split; assumption.
  Qed.
End Identities.

Lemma devsum4_nonneg c l : 0 <= devsum 4 c l.
Proof.
  unfold devsum. induction l as [|a l IH]; [cbn; lra|].
  cbn [map]. rewrite sumR_cons.
  assert (0 <= (a - c) ^ 4). { replace ((a - c) ^ 4) with (((a - c) ^ 2) ^ 2) by ring. apply pow2_ge_0. }
  lra.
Qed.
Lemma devsum4_zero c l : devsum 4 c l = 0 -> devsum 2 c l = 0.
Proof.
  unfold devsum. induction l as [|a l IH]; [reflexivity|].
  cbn [map]. rewrite !sumR_cons. intros H.
  assert (H4 : 0 <= (a - c) ^ 4). { replace ((a - c) ^ 4) with (((a - c) ^ 2) ^ 2) by ring. apply pow2_ge_0. }
  pose proof (devsum4_nonneg c l) as Hr. unfold devsum in Hr.
  assert (Ha : (a - c) ^ 4 = 0) by lra.
  assert (Hl : sumR (map (fun x => (x - c) ^ 4) l) = 0) by lra.
  rewrite (IH Hl).
  assert (a - c = 0).
  { destruct (Req_dec (a - c) 0) as [E|E]; [exact E|]. exfalso. exact (pow_nonzero _ 4 E Ha). }
  replace (a - c) with 0 by assumption. ring.
Qed.
Lemma cmom4_pos V : (length V <> 0)%nat -> 0 < popvarR V -> 0 < cmom 4 V.
Proof.
  intros Hn Hv. unfold popvarR, cmom in *.
  assert (Hn0 : 0 < nR V) by (unfold nR; apply lt_0_INR; lia).
  assert (H2 : devsum 2 (meanR V) V <> 0).
  { intros E. rewrite E in Hv. unfold Rdiv in Hv. rewrite Rmult_0_l in Hv. lra. }
  assert (H4 : devsum 4 (meanR V) V <> 0) by (intros E; apply H2, devsum4_zero, E).
  pose proof (devsum4_nonneg (meanR V) V). apply Rdiv_lt_0_compat; lra.
Qed.

(* ---- closed forms of the single-series statistics ------------------------------------------------------ *)
Section ClosedForms.
  Context {A : Type} {NA : Num A} {T : Type} {DT : IsNone T A}.
  Variable tof : A -> XR.
  Variable xs : list T.
  Variable V : list R.
  Hypothesis HV : map tof (vals xs) = map Some V.
  Local Notation n := (length V).

  Lemma len_vals : length (vals xs) = n.
  Proof. rewrite <- (map_length tof), HV, map_length. reflexivity. Qed.

  Lemma INRn_neq0 : n <> 0%nat -> INR n <> 0. Proof. apply not_0_INR. Qed.

  (* vmean: the sum is accumulated in the inner type A and cast once *)
  Hypothesis Hsum : tof (fold_left (fun acc x : A => nadd acc x) (vals xs) nzero) = Some (sumR V).
  Lemma vmean_closed : vmean tof xs = if (n =? 0)%nat then None else Some (meanR V).
  Proof.
    unfold vmean. rewrite vfold_n_spec, len_vals. cbn [fst snd]. rewrite Hsum.
    destruct (n =? 0)%nat eqn:E.
    - apply Nat.eqb_eq in E. rewrite E. reflexivity.
    - apply Nat.eqb_neq in E. replace (1 <=? n)%nat with true by (symmetry; apply Nat.leb_le; lia).
      rewrite xofnat, xdiv_some by (apply INRn_neq0, E). reflexivity.
  Qed.

  (* vmean_var *)
  Lemma vmean_var_closed mp :
    vmean_var tof mp xs =
    if (n <? mp)%nat then (None, None)
    else if (n =? 0)%nat then (None, None)
    else if (n <? 2)%nat then (Some (meanR V), None)
    else if Rle_dec (popvarR V) EPS then (Some (meanR V), Some 0)
    else (Some (meanR V), Some (samplevarR V)).
  Proof.
    unfold vmean_var. rewrite vapply_n_spec, len_vals, fold_mv_tof, HV. cbn [fst snd].
    change (@nzero XR NumXR) with (Some 0). rewrite fold_mv, !Rplus_0_l. cbn [fst snd].
    destruct (n <? mp)%nat; [reflexivity|].
    destruct (n =? 0)%nat eqn:E0.
    - apply Nat.eqb_eq in E0. rewrite E0. cbn [Nat.ltb Nat.leb]. rewrite xofnat. cbn [INR].
      rewrite xdiv_zero. reflexivity.
    - apply Nat.eqb_neq in E0. rewrite xofnat, !xdiv_some by (apply INRn_neq0, E0).
      rewrite powi_some, xsub_some. rewrite (popvar_id V E0), <- (meanR_psum V).
      destruct (n <? 2)%nat eqn:E2; [reflexivity|]. apply Nat.ltb_ge in E2.
      change (@neps XR NumXR) with (Some EPS). change (@nzero XR NumXR) with (Some 0).
      cbn [nleb NumXR xleb]. destruct (Rle_dec (popvarR V) EPS); [reflexivity|].
      rewrite xofnat, xmul_some, xdiv_some by (apply not_0_INR; lia).
      rewrite (sample_from_pop' V) by exact E2. reflexivity.
  Qed.

  Lemma vvar_closed mp :
    vvar tof mp xs =
    if (n <? Nat.max mp 2)%nat then None
    else if Rle_dec (popvarR V) EPS then Some 0 else Some (samplevarR V).
  Proof.
    unfold vvar. rewrite vmean_var_closed.
    destruct (n <? mp)%nat eqn:E1.
    - apply Nat.ltb_lt in E1. replace (n <? Nat.max mp 2)%nat with true by (symmetry; apply Nat.ltb_lt; lia).
      reflexivity.
    - apply Nat.ltb_ge in E1. destruct (n =? 0)%nat eqn:E0.
      + apply Nat.eqb_eq in E0. replace (n <? Nat.max mp 2)%nat with true by (symmetry; apply Nat.ltb_lt; lia).
        reflexivity.
      + destruct (n <? 2)%nat eqn:E2.
        * apply Nat.ltb_lt in E2. replace (n <? Nat.max mp 2)%nat with true by (symmetry; apply Nat.ltb_lt; lia).
          reflexivity.
        * apply Nat.ltb_ge in E2. replace (n <? Nat.max mp 2)%nat with false by (symmetry; apply Nat.ltb_ge; lia).
          destruct (Rle_dec (popvarR V) EPS); reflexivity.
  Qed.

  Lemma vstd_closed mp :
    vstd tof mp xs =
    if (n <? Nat.max mp 2)%nat then None
    else if Rle_dec (popvarR V) EPS then Some 0 else Some (samplestdR V).
  Proof.
    unfold vstd. rewrite vvar_closed.
    destruct (n <? Nat.max mp 2)%nat eqn:E; [reflexivity|]. apply Nat.ltb_ge in E.
    destruct (Rle_dec (popvarR V) EPS).
    - rewrite xsqrt_some by lra. rewrite sqrt_0. reflexivity.
    - rewrite xsqrt_some by (apply (samplevar_nonneg' V); lia). reflexivity.
  Qed.

  (* vskew *)
  Lemma vskew_closed mp :
    vskew tof mp xs =
    if (n <? Nat.max mp 3)%nat then None
    else if Rle_dec (popvarR V) EPS then Some 0 else Some (skewR V).
  Proof.
    unfold vskew. rewrite vapply_n_spec, len_vals, fold_sk_tof, HV. cbn [fst snd].
    change (@nzero XR NumXR) with (Some 0). rewrite fold_sk, !Rplus_0_l.
    destruct (n <? mp)%nat eqn:E1.
    { apply Nat.ltb_lt in E1. replace (n <? Nat.max mp 3)%nat with true by (symmetry; apply Nat.ltb_lt; lia).
      reflexivity. }
    apply Nat.ltb_ge in E1.
    destruct (3 <=? n)%nat eqn:E3.
    2:{ apply Nat.leb_gt in E3. replace (n <? Nat.max mp 3)%nat with true by (symmetry; apply Nat.ltb_lt; lia).
        reflexivity. }
    apply Nat.leb_le in E3. replace (n <? Nat.max mp 3)%nat with false by (symmetry; apply Nat.ltb_ge; lia).
    assert (E0 : n <> 0%nat) by lia. assert (Hn0 : INR n <> 0) by (apply not_0_INR; exact E0).
    rewrite xofnat, !xdiv_some by exact Hn0.
    rewrite powi_some, xsub_some, (popvar_id V E0).
    change (@neps XR NumXR) with (Some EPS). cbn [nleb NumXR xleb].
    destruct (Rle_dec (popvarR V) EPS) as [Hle|Hgt].
    { cbn [nisnan neqb NumXR xisnan xeqb negb andb]. destruct (Req_EM_T 0 0); [reflexivity|contradiction]. }
    assert (Hpos : 0 < popvarR V) by (pose proof EPS_pos; lra).
    set (s := sqrt (popvarR V)).
    assert (Hs : 0 < s) by (apply sqrt_lt_R0; exact Hpos).
    assert (Hss : s * s = popvarR V) by (apply sqrt_sqrt; lra).
    rewrite xsqrt_some by lra. fold s.
    rewrite powi_some. rewrite !xdiv_some by (try apply pow_nonzero; lra).
    unfold three. cbn [nofZ NumXR]. rewrite xmul_some, powi_some, !xsub_some.
    rewrite (@skew_core V s E0 (Rgt_not_eq _ _ Hs) Hss).
    cbn [nisnan neqb NumXR xisnan xeqb negb andb].
    destruct (Req_EM_T (cmom 3 V / s ^ 3) 0) as [Ez|Enz]; cbn [negb andb].
    - f_equal. unfold skewR. change (cmom 2 V) with (popvarR V). fold s. rewrite Ez. ring.
    - rewrite !xofnat. rewrite xsqrt_some by apply pos_INR.
      rewrite xdiv_some by (apply not_0_INR; lia). rewrite xmul_some. f_equal.
      unfold skewR, nR. change (cmom 2 V) with (popvarR V). fold s.
      rewrite mult_INR, !minus_INR by lia. cbn [INR].
      assert (H3 : 3 <= INR n) by (pose proof (le_INR _ _ E3) as H3; cbn [INR] in H3; lra). field. lra.
  Qed.

  (* vkurt *)
  Lemma vkurt_closed mp :
    vkurt tof mp xs =
    if (n <? Nat.max mp 4)%nat then None
    else if Rle_dec (popvarR V) EPS then Some 0 else Some (kurtR V).
  Proof.
    unfold vkurt. rewrite vapply_n_spec, len_vals, fold_ku_tof, HV. cbn [fst snd].
    change (@nzero XR NumXR) with (Some 0). rewrite fold_ku, !Rplus_0_l.
    destruct (n <? mp)%nat eqn:E1.
    { apply Nat.ltb_lt in E1. replace (n <? Nat.max mp 4)%nat with true by (symmetry; apply Nat.ltb_lt; lia).
      reflexivity. }
    apply Nat.ltb_ge in E1.
    destruct (4 <=? n)%nat eqn:E4.
    2:{ apply Nat.leb_gt in E4. replace (n <? Nat.max mp 4)%nat with true by (symmetry; apply Nat.ltb_lt; lia).
        reflexivity. }
    apply Nat.leb_le in E4. replace (n <? Nat.max mp 4)%nat with false by (symmetry; apply Nat.ltb_ge; lia).
    assert (E0 : n <> 0%nat) by lia. assert (Hn0 : INR n <> 0) by (apply not_0_INR; exact E0).
    rewrite xofnat, !xdiv_some by exact Hn0.
    rewrite !powi_some, xsub_some, (popvar_id V E0).
    change (@neps XR NumXR) with (Some EPS). cbn [nleb NumXR xleb].
    destruct (Rle_dec (popvarR V) EPS) as [Hle|Hgt].
    { cbn [nisnan neqb NumXR xisnan xeqb negb andb]. destruct (Req_EM_T 0 0); [reflexivity|contradiction]. }
    assert (Hpos : 0 < popvarR V) by (pose proof EPS_pos; lra).
    set (pv := popvarR V) in *.
    assert (Hpv : pv <> 0) by lra.
    rewrite !powi_some. rewrite !xdiv_some by (try apply pow_nonzero; exact Hpv).
    unfold three, four, six. cbn [nofZ NumXR]. rewrite !powi_some, !xmul_some, xsub_some.
    rewrite !xdiv_some by (try apply pow_nonzero; exact Hpv). rewrite !xadd_some.
    rewrite (@kurt_core V pv E0 Hpv eq_refl).
    assert (Hr : cmom 4 V / pv ^ 2 <> 0).
    { apply Rgt_not_eq. apply Rdiv_lt_0_compat; [apply cmom4_pos; assumption|]. apply pow_lt. exact Hpos. }
    cbn [nisnan neqb NumXR xisnan xeqb negb andb].
    destruct (Req_EM_T (cmom 4 V / pv ^ 2) 0) as [Ez|_]; [contradiction|]. cbn [negb andb].
    change (@none XR NumXR) with (Some 1). rewrite !xofnat.
    assert (H4 : 4 <= INR n) by (pose proof (le_INR _ _ E4) as H4; cbn [INR] in H4; lra).
    assert (Hd : INR ((n - 2) * (n - 3)) <> 0) by (apply not_0_INR; nia).
    rewrite xdiv_some by exact Hd. rewrite xmul_some, xsub_some, xmul_some. f_equal.
    unfold kurtR, nR. change (cmom 2 V) with pv.
    rewrite (minus_INR (n * n) 1) by nia.
    rewrite !mult_INR, !minus_INR by lia. cbn [INR]. field. lra.
  Qed.
End ClosedForms.

(* ---- two series: pairwise-complete observations ------------------------------------------------------------ *)
Section TwoSeries.
  Context {A : Type} {T T2 : Type} {DT : IsNone T A} {DT2 : IsNone T2 A}.
  Variable tof : A -> XR.

  Definition rp (l : list (T * T2)) : list (R * R) :=
    flat_map (fun p => if not_none (fst p) && not_none (snd p)
                       then match tof (unwrap (fst p)), tof (unwrap (snd p)) with Some a, Some b => [(a, b)] | _, _ => [] end
                       else []) l.
  Definition rpairs (xs : list T) (ys : list T2) : list (R * R) := rp (combine xs ys).

  Definition canon_pairs (l : list (T * T2)) : Prop :=
    forall p, In p l -> (not_none (fst p) = true -> tof (unwrap (fst p)) <> None) /\ (not_none (snd p) = true -> tof (unwrap (snd p)) <> None).
  Lemma canon_pairs_combine xs ys : canonical tof xs -> canonical tof ys -> canon_pairs (combine xs ys).
  Proof.
    intros Hx Hy [a b] Hp. split; intros H.
    - apply Hx; [eapply in_combine_l; eassumption|exact H].
    - apply Hy; [eapply in_combine_r; eassumption|exact H].
  Qed.

  Lemma rp_perm l1 l2 : Permutation l1 l2 -> Permutation (rp l1) (rp l2).
  Proof.
    unfold rp. induction 1 as [|x l l' _ IH|x y l|l l' l'' _ IH1 _ IH2]; cbn [flat_map].
    - constructor.
    - apply Permutation_app_head, IH.
    - rewrite !app_assoc. apply Permutation_app_tail, Permutation_app_comm.
    - eapply Permutation_trans; eassumption.
  Qed.

  Lemma prodsum_cons a b P : prodsum ((a, b) :: P) = a * b + prodsum P. Proof. reflexivity. Qed.

  Lemma fold_corr l n0 a a2 b b2 c :
    canon_pairs l ->
    fold_left (corr_step tof) l (n0, Some a, Some a2, Some b, Some b2, Some c)
    = ((n0 + length (rp l))%nat, Some (a + psum 1 (xs_of (rp l))), Some (a2 + psum 2 (xs_of (rp l))),
       Some (b + psum 1 (ys_of (rp l))), Some (b2 + psum 2 (ys_of (rp l))), Some (c + prodsum (rp l))).
  Proof.
    revert n0 a a2 b b2 c. induction l as [|[u w] l IH]; intros n0 a a2 b b2 c Hc.
    - cbn [fold_left rp flat_map length xs_of ys_of map]. rewrite !psum_nil. unfold prodsum. cbn [map]. rewrite sumR_nil.
      rewrite Nat.add_0_r, !Rplus_0_r. reflexivity.
    - assert (Hc' : canon_pairs l) by (intros p Hp; apply Hc; right; exact Hp).
      destruct (Hc (u, w) (or_introl eq_refl)) as [Hu Hw]. cbn [fst snd] in Hu, Hw.
      cbn [fold_left]. unfold corr_step at 2. cbn [fst snd]. cbn [rp flat_map fst snd]. fold (rp l).
      destruct (not_none u) eqn:Eu; [destruct (not_none w) eqn:Ew|]; cbn [andb].
      + specialize (Hu eq_refl). specialize (Hw eq_refl).
        destruct (tof (unwrap u)) as [x|]; [|contradiction]. destruct (tof (unwrap w)) as [y|]; [|contradiction].
        rewrite !xmul_some, !xadd_some, IH by exact Hc'.
        cbn [app length xs_of ys_of map fst snd]. fold (xs_of (rp l)) (ys_of (rp l)).
        rewrite !psum_cons, prodsum_cons.
        f_equal; [f_equal; [f_equal; [f_equal; [f_equal; [lia|]|]|]|]|]; f_equal; ring.
      + cbn [app]. apply IH, Hc'.
      + cbn [app]. apply IH, Hc'.
  Qed.

  Lemma fold_cov l n0 a b c :
    canon_pairs l ->
    fold_left (cov_step tof) l (n0, Some a, Some b, Some c)
    = ((n0 + length (rp l))%nat, Some (a + psum 1 (xs_of (rp l))), Some (b + psum 1 (ys_of (rp l))),
       Some (c + prodsum (rp l))).
  Proof.
    revert n0 a b c. induction l as [|[u w] l IH]; intros n0 a b c Hc.
    - cbn [fold_left rp flat_map length xs_of ys_of map]. rewrite !psum_nil. unfold prodsum. cbn [map]. rewrite sumR_nil.
      rewrite Nat.add_0_r, !Rplus_0_r. reflexivity.
    - assert (Hc' : canon_pairs l) by (intros p Hp; apply Hc; right; exact Hp).
      destruct (Hc (u, w) (or_introl eq_refl)) as [Hu Hw]. cbn [fst snd] in Hu, Hw.
      cbn [fold_left]. unfold cov_step at 2. cbn [fst snd]. cbn [rp flat_map fst snd]. fold (rp l).
      destruct (not_none u) eqn:Eu; [destruct (not_none w) eqn:Ew|]; cbn [andb].
      + specialize (Hu eq_refl). specialize (Hw eq_refl).
        destruct (tof (unwrap u)) as [x|]; [|contradiction]. destruct (tof (unwrap w)) as [y|]; [|contradiction].
        rewrite !xmul_some, !xadd_some, IH by exact Hc'.
        cbn [app length xs_of ys_of map fst snd]. fold (xs_of (rp l)) (ys_of (rp l)).
        rewrite !psum_cons, prodsum_cons.
        f_equal; [f_equal; [f_equal; [lia|]|]|]; f_equal; ring.
      + cbn [app]. apply IH, Hc'.
      + cbn [app]. apply IH, Hc'.
  Qed.

  Variable xs : list T.
  Variable ys : list T2.
  Hypothesis Hx : canonical tof xs.
  Hypothesis Hy : canonical tof ys.
  Local Notation P := (rpairs xs ys).
  Local Notation n := (length (rpairs xs ys)).

  Lemma len_xs_of (l : list (R * R)) : length (xs_of l) = length l. Proof. apply map_length. Qed.
  Lemma len_ys_of (l : list (R * R)) : length (ys_of l) = length l. Proof. apply map_length. Qed.

  Lemma cov_identity (l : list (R * R)) :
    (2 <= length l)%nat ->
    (prodsum l - psum 1 (xs_of l) * psum 1 (ys_of l) / INR (length l)) / INR (length l - 1) = samplecovR l.
  Proof.
    intros Hn. unfold samplecovR. rewrite covsum_expand, !meanR_psum, len_xs_of, len_ys_of, <- !psum_1.
    rewrite minus_INR by lia. cbn [INR].
    assert (2 <= INR (length l)) by (apply (le_INR 2); lia). field. lra.
  Qed.

  Lemma vcov_closed mp :
    vcov tof mp xs ys = if (n <? Nat.max mp 2)%nat then None else Some (samplecovR P).
  Proof.
    unfold vcov. change (@nzero XR NumXR) with (Some 0).
    rewrite (fold_cov 0 0 0 0 (canon_pairs_combine Hx Hy)). fold (rpairs xs ys).
    rewrite !Rplus_0_l. cbn [plus].
    destruct (Nat.max mp 2 <=? n)%nat eqn:E.
    - apply Nat.leb_le in E. replace (n <? Nat.max mp 2)%nat with false by (symmetry; apply Nat.ltb_ge; lia).
      assert (Hn : (2 <= n)%nat) by lia.
      rewrite !xofnat, xmul_some, xdiv_some by (apply not_0_INR; lia).
      rewrite xsub_some, xdiv_some by (apply not_0_INR; lia). f_equal. apply cov_identity, Hn.
    - apply Nat.leb_gt in E. replace (n <? Nat.max mp 2)%nat with true by (symmetry; apply Nat.ltb_lt; lia).
      reflexivity.
  Qed.

  Lemma corr_identity (l : list (R * R)) :
    (length l <> 0)%nat ->
    prodsum l / INR (length l) - psum 1 (xs_of l) * psum 1 (ys_of l) / (INR (length l) * INR (length l))
    = popcovR l.
  Proof.
    intros Hn. unfold popcovR. rewrite covsum_expand, !meanR_psum, len_xs_of, len_ys_of, <- !psum_1.
    assert (INR (length l) <> 0) by (apply not_0_INR; exact Hn). field. assumption.
  Qed.

  Lemma vcorr_closed mp :
    vcorr_pearson tof mp xs ys =
    if (n <? Nat.max mp 2)%nat then None
    else if Rlt_dec EPS (popvarR (xs_of P)) then
           (if Rlt_dec EPS (popvarR (ys_of P)) then Some (corrR P) else None)
         else None.
  Proof.
    unfold vcorr_pearson. change (@nzero XR NumXR) with (Some 0).
    rewrite (fold_corr 0 0 0 0 0 0 (canon_pairs_combine Hx Hy)). fold (rpairs xs ys).
    rewrite !Rplus_0_l. cbn [plus].
    destruct (Nat.max mp 2 <=? n)%nat eqn:E.
    2:{ apply Nat.leb_gt in E. replace (n <? Nat.max mp 2)%nat with true by (symmetry; apply Nat.ltb_lt; lia).
        reflexivity. }
    apply Nat.leb_le in E. replace (n <? Nat.max mp 2)%nat with false by (symmetry; apply Nat.ltb_ge; lia).
    assert (E0 : n <> 0%nat) by lia. assert (Hn0 : INR n <> 0) by (apply not_0_INR; exact E0).
    rewrite xofnat, !xdiv_some by exact Hn0. rewrite !powi_some, !xsub_some.
    pose proof (popvar_id (xs_of P)) as Ha. pose proof (popvar_id (ys_of P)) as Hb.
    rewrite len_xs_of in Ha. rewrite len_ys_of in Hb. rewrite (Ha E0), (Hb E0).
    change (@neps XR NumXR) with (Some EPS). cbn [nltb NumXR xltb].
    destruct (Rlt_dec EPS (popvarR (xs_of P))) as [Ga|Ga]; [|reflexivity].
    destruct (Rlt_dec EPS (popvarR (ys_of P))) as [Gb|Gb]; [|reflexivity]. cbn [andb].
    pose proof EPS_pos as He.
    assert (Hprod : 0 < popvarR (xs_of P) * popvarR (ys_of P)) by (apply Rmult_lt_0_compat; lra).
    rewrite !xmul_some. rewrite xdiv_some by (apply Rmult_integral_contrapositive_currified; exact Hn0).
    rewrite xsub_some, xsqrt_some by lra.
    rewrite xdiv_some by (apply Rgt_not_eq, sqrt_lt_R0, Hprod).
    f_equal. unfold corrR. rewrite <- (corr_identity (rpairs xs ys) E0). reflexivity.
  Qed.
End TwoSeries.
