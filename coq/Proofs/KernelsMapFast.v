(* Proofs/KernelsMapFast.v — vrank_tr_fast = vrank_tr (the bind that evaluates its continuation once is the
   bind of Model/Kernels.v).  Axiom-free (no functional extensionality: a congruence lemma for tbind).    *)
From Coq Require Import ZArith Lia List.
From Tevec Require Import Base.Prelude Base.Num Model.Driver Model.Cmp Model.Kernels Model.SortCmp Model.Rank
     Model.KernelsMap Model.KernelSteps Model.KernelsMapFast.
Import ListNotations.

Lemma tbind1_eq {X Y} (m : tr X) (f : X -> tr Y) : tbind1 m f = tbind m f.
Proof. reflexivity. Qed.

Lemma tbind_ext {X Y} (m : tr X) (f g : X -> tr Y) : (forall x, f x = g x) -> tbind m f = tbind m g.
Proof. intros H. unfold tbind. destruct (snd m); [rewrite H|]; reflexivity. Qed.

Section RankFast.
  Context {A : Type} {NA : Num A} {T : Type} {DT : IsNone T A} {DX : IsNoneX T A}.
  Variables (pct : bool) (nn : nat) (xs : list T) (idx_sorted : list nat).

  Lemma write_run_fast_eq i (v : A) : forall js out,
    write_run_fast idx_sorted i v js out = write_run_tr idx_sorted i v js out.
  Proof.
    induction js as [|j r IH]; intros out; [reflexivity|].
    cbn [write_run_fast write_run_tr]. rewrite !tbind1_eq.
    apply tbind_ext. intros d. rewrite tbind1_eq. apply tbind_ext. intros slot.
    rewrite tbind1_eq. apply tbind_ext. intros o'. apply IH.
  Qed.

  Lemma fill_fast_eq (v : A) : forall is out, fill_fast idx_sorted v is out = fill_tr idx_sorted v is out.
  Proof.
    induction is as [|i r IH]; intros out; [reflexivity|].
    cbn [fill_fast fill_tr]. rewrite tbind1_eq. apply tbind_ext. intros slot.
    rewrite tbind1_eq. apply tbind_ext. intros o'. apply IH.
  Qed.

  Lemma rank_loop_fast_eq : forall is st,
    rank_loop_fast pct nn xs idx_sorted is st = KernelsMap.rank_loop_tr pct nn xs idx_sorted is st.
  Proof.
    induction is as [|i rest IH]; intros st; [reflexivity|].
    cbn [rank_loop_fast KernelsMap.rank_loop_tr]. rewrite tbind1_eq. apply tbind_ext. intros idx.
    rewrite tbind1_eq. apply tbind_ext. intros idx1.
    rewrite tbind1_eq. apply tbind_ext. intros v.
    rewrite tbind1_eq. apply tbind_ext. intros v1.
    destruct (is_none v1).
    { cbv zeta. rewrite tbind1_eq, write_run_fast_eq. reflexivity. }
    destruct (teqb v v1); [apply IH|].
    destruct (r_rep st =? 1)%nat.
    { rewrite tbind1_eq. apply tbind_ext. intros o. apply IH. }
    cbv zeta. rewrite tbind1_eq, write_run_fast_eq. apply tbind_ext. intros o. apply IH.
  Qed.

  Lemma rank_finish_fast_eq len r :
    rank_finish_fast pct nn idx_sorted len r = rank_finish_tr pct nn idx_sorted len r.
  Proof.
    destruct r as [st [idx|]]; cbn [rank_finish_fast rank_finish_tr]; [apply fill_fast_eq|].
    cbv zeta. rewrite tbind1_eq. apply tbind_ext. intros a. apply fill_fast_eq.
  Qed.
End RankFast.

Theorem vrank_tr_fast_eq {A : Type} {NA : Num A} {T : Type} {DT : IsNone T A} {DX : IsNoneX T A}
        (pct rev : bool) (xs : list T) :
  vrank_tr_fast pct rev xs = vrank_tr pct rev xs.
Proof.
  unfold vrank_tr_fast, vrank_tr. cbv zeta.
  destruct (length xs =? 0)%nat; [reflexivity|]. destruct (length xs =? 1)%nat; [reflexivity|].
  rewrite tbind1_eq. apply tbind_ext. intros i0. rewrite tbind1_eq. apply tbind_ext. intros v0.
  destruct (is_none v0); [reflexivity|]. rewrite tbind1_eq, rank_loop_fast_eq. apply tbind_ext. intros r.
  apply rank_finish_fast_eq.
Qed.

Theorem vrank_segs_fast_eq {A : Type} {NA : Num A} {T : Type} {DT : IsNone T A} {DX : IsNoneX T A}
        (pct rev : bool) (xs : list T) :
  vrank_segs_fast pct rev xs = vrank_segs pct rev xs.
Proof. unfold vrank_segs_fast, vrank_segs. rewrite vrank_tr_fast_eq. reflexivity. Qed.
