(* Proofs/Audit09Collect.v — audit of C09 (YA), the clause "collecting one with the trusted collectors returns
   a fully initialised container of exactly that length and never writes outside its allocation" for EVERY
   collector modelled in Model/Collect.v (the raw Vec / VecDeque / ndarray collectors, the default ones, the
   fallible ones, write_trust_iter), at every point of a consumption.  Axiom-free.
   Qualified names: Model.Driver and Model.Iter both define `exec`.                                     *)
From Tevec Require Import Base.Prelude Model.Iter Proofs.Iter Model.IterAudit.
From Tevec Require Model.Collect Proofs.Collect Model.Driver.
Local Open Scope nat_scope.

Lemma as_titer_exact s : wfb false s -> as_titer s = Model.Collect.exact_iter (elems s).
Proof.
  intros Hw. unfold as_titer, Model.Collect.exact_iter. rewrite (wfb_exact s Hw), (drain_elems s Hw). reflexivity.
Qed.

(* every backend's collect_from_trusted / collect_with_len, after every admissible script *)
Lemma collect_every_backend bk b cs s :
  (forall c, In c cs -> dir_ok (instr_back c) b) -> wfb b s ->
  Model.Collect.collect_from_trusted bk (as_titer (run_script cs s)) = Model.Driver.Done (drain (run_script cs s)).
Proof.
  intros Hc Hw. pose proof (wfb_front _ _ (run_script_wf b cs s Hc Hw)) as Hw'.
  rewrite (as_titer_exact _ Hw'), (drain_elems _ Hw'). apply Proofs.Collect.collect_from_trusted_exact.
Qed.

(* write_trust_iter into a buffer of `len` slots: Ok exactly when the buffer is empty, as long as the iterator,
   or the iterator has one item; with equal lengths slot k receives item k, once *)
Lemma write_status len s : wfb false s ->
  fst (Model.Collect.write_trust_iter len (as_titer s))
  = if orb (len =? 0) (orb (len =? length (elems s)) (length (elems s) =? 1))
    then Model.Collect.WOk else Model.Collect.WErr.
Proof. intros Hw. rewrite (as_titer_exact s Hw). apply Proofs.Collect.write_trust_iter_status. Qed.

Lemma write_equal_length (old : list (option val)) s : wfb false s -> length old = length (elems s) ->
  let r := Model.Collect.write_trust_iter (length old) (as_titer s) in
  fst r = Model.Collect.WOk /\ map fst (snd r) = seq 0 (length old) /\
  Model.Collect.apply_writes (snd r) old = map Some (elems s).
Proof.
  intros Hw Hl. cbv zeta. rewrite (as_titer_exact s Hw).
  exact (proj1 (Proofs.Collect.write_trust_iter_spec old (elems s)) Hl).
Qed.

(* iterators of TResult items (vcut): Ok(container of all items) when no item is an Err, else that Err -
   never a partly initialised container, on every backend *)
Lemma res_item_ok l : (forall v, In v l -> v <> VErr) -> map res_item l = map (@inl val unit) l.
Proof.
  induction l as [|v l IH]; intros H; [reflexivity|]. cbn [map]. f_equal.
  - destruct v; try reflexivity. exfalso. apply (H VErr); [left; reflexivity | reflexivity].
  - apply IH. intros u Hu. apply H. right. exact Hu.
Qed.

Lemma as_try_titer_exact s : wfb false s ->
  as_try_titer s = Model.Collect.exact_iter (map res_item (elems s)).
Proof.
  intros Hw. unfold as_try_titer, Model.Collect.exact_iter.
  rewrite (wfb_exact s Hw), (drain_elems s Hw), map_length. reflexivity.
Qed.

Lemma try_collect_no_err bk s : wfb false s -> (forall v, In v (elems s) -> v <> VErr) ->
  Model.Collect.try_collect_from_trusted bk (as_try_titer s)
  = Model.Collect.TOk (Model.Driver.Done (elems s)).
Proof.
  intros Hw Hn. rewrite (as_try_titer_exact s Hw), (res_item_ok _ Hn).
  apply Proofs.Collect.try_collect_trusted_ok.
Qed.

Lemma try_collect_first_err bk s xs rest : wfb false s -> elems s = xs ++ VErr :: rest ->
  (forall v, In v xs -> v <> VErr) ->
  Model.Collect.try_collect_from_trusted bk (as_try_titer s) = Model.Collect.TErr tt.
Proof.
  intros Hw He Hn. rewrite (as_try_titer_exact s Hw), He, map_app, (res_item_ok _ Hn). cbn [map res_item].
  apply Proofs.Collect.try_collect_trusted_err.
Qed.
