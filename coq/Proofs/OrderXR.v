(* Proofs/OrderXR.v — the order-statistic models at the proof instance XR = option R (None = null):
   sort_cmp / sort_cmp_rev are the orders "ascending (descending) on values, nulls last"; the sorted
   arrangement of a series is  map Some s ++ repeat None z  for THE sorted arrangement s of its valid
   elements (uniqueness of sorted permutations); floor / ceil facts.                               *)
From Coq Require Import Reals Lra Lia List Sorting Permutation ZArith Bool.
From Tevec Require Import Base.Prelude Base.Num Base.XR Spec.Stats Model.SortCmp Proofs.SortCmp.
Import ListNotations.
Local Open Scope R_scope.

(* ---- floor / ceil on XR --------------------------------------------------------------------- *)
Definition Rfloor (x : R) : Z := Int_part x.
Definition Rceil (x : R) : Z := (- Int_part (- x))%Z.
Global Instance NumFloorXR : NumFloor XR :=
  {| nfloorZ := fun a => match a with Some x => Rfloor x | None => 0%Z end;
     nceilZ := fun a => match a with Some x => Rceil x | None => 0%Z end |}.

Lemma Rfloor_spec x : IZR (Rfloor x) <= x < IZR (Rfloor x) + 1.
Proof. unfold Rfloor. destruct (base_Int_part x) as [H1 H2]. lra. Qed.
Lemma Rceil_spec x : IZR (Rceil x) - 1 < x <= IZR (Rceil x).
Proof. unfold Rceil. rewrite opp_IZR. destruct (base_Int_part (- x)) as [H1 H2]. lra. Qed.

Lemma Rfloor_unique x z : IZR z <= x < IZR z + 1 -> Rfloor x = z.
Proof.
  intros [H1 H2]. destruct (Rfloor_spec x) as [H3 H4].
  assert (Ha : (z < Rfloor x + 1)%Z) by (apply lt_IZR; rewrite plus_IZR; lra).
  assert (Hb : (Rfloor x < z + 1)%Z) by (apply lt_IZR; rewrite plus_IZR; lra).
  lia.
Qed.
Lemma Rceil_unique x z : IZR z - 1 < x <= IZR z -> Rceil x = z.
Proof.
  intros [H1 H2]. destruct (Rceil_spec x) as [H3 H4].
  assert (Ha : (z - 1 < Rceil x)%Z) by (apply lt_IZR; rewrite minus_IZR; lra).
  assert (Hb : (Rceil x - 1 < z)%Z) by (apply lt_IZR; rewrite minus_IZR; lra).
  lia.
Qed.
Lemma Rfloor_IZR z : Rfloor (IZR z) = z.
Proof. apply Rfloor_unique. lra. Qed.
Lemma Rceil_IZR z : Rceil (IZR z) = z.
Proof. apply Rceil_unique. lra. Qed.

(* either h is an integer (floor = ceil = h) or ceil = floor + 1 *)
Lemma floor_ceil_cases x :
  (IZR (Rfloor x) = x /\ Rceil x = Rfloor x) \/ (IZR (Rfloor x) < x /\ Rceil x = (Rfloor x + 1)%Z).
Proof.
  destruct (Rfloor_spec x) as [H1 H2].
  destruct (Req_dec (IZR (Rfloor x)) x) as [E|N].
  - left. split; [exact E|]. apply Rceil_unique. lra.
  - right. split; [lra|]. apply Rceil_unique. rewrite plus_IZR. lra.
Qed.

(* mirror: floor (L - x) = L - ceil x, ceil (L - x) = L - floor x for an integer L *)
Lemma Rfloor_mirror (L : Z) x : Rfloor (IZR L - x) = (L - Rceil x)%Z.
Proof. apply Rfloor_unique. rewrite minus_IZR. destruct (Rceil_spec x). lra. Qed.
Lemma Rceil_mirror (L : Z) x : Rceil (IZR L - x) = (L - Rfloor x)%Z.
Proof. apply Rceil_unique. rewrite minus_IZR. destruct (Rfloor_spec x). lra. Qed.

Lemma Rfloor_range x (L : Z) : 0 <= x <= IZR L -> (0 <= Rfloor x <= L)%Z.
Proof.
  intros [H0 HL]. destruct (Rfloor_spec x) as [H1 H2]. split.
  - assert (H : (-1 < Rfloor x)%Z) by (apply lt_IZR; lra). lia.
  - apply le_IZR. lra.
Qed.
Lemma Rceil_range x (L : Z) : 0 <= x <= IZR L -> (0 <= Rceil x <= L)%Z.
Proof.
  intros [H0 HL]. destruct (Rceil_spec x) as [H1 H2]. split.
  - apply le_IZR. lra.
  - assert (H : (Rceil x - 1 < L)%Z) by (apply lt_IZR; rewrite minus_IZR; lra). lia.
Qed.

(* ---- sort_cmp on XR --------------------------------------------------------------------------- *)
(* the order of the comparators: values ascending (rev: descending), nulls last *)
Definition xr_le (rev : bool) (a b : XR) : Prop :=
  match a, b with
  | Some x, Some y => if rev then y <= x else x <= y
  | Some _, None => True
  | None, None => True
  | None, Some _ => False
  end.

Lemma sort_cmp_some x y :
  sort_cmp (DT := IsNoneXR) (Some x) (Some y)
  = if Rlt_dec x y then Lt else if Req_EM_T x y then Eq else Gt.
Proof.
  unfold sort_cmp, to_opt, partial_cmp. cbn.
  destruct (Rlt_dec x y); [reflexivity|]. destruct (Req_EM_T x y); [reflexivity|].
  destruct (Rlt_dec y x); [reflexivity|]. lra.
Qed.
Lemma sort_cmp_rev_some x y :
  sort_cmp_rev (DT := IsNoneXR) (Some x) (Some y)
  = if Rlt_dec x y then Gt else if Req_EM_T x y then Eq else Lt.
Proof.
  unfold sort_cmp_rev, to_opt, partial_cmp. cbn.
  destruct (Rlt_dec x y); [reflexivity|]. destruct (Req_EM_T x y); [reflexivity|].
  destruct (Rlt_dec y x); [reflexivity|]. lra.
Qed.

Lemma cle_dir rev a b : cle (cmp_dir (DT := IsNoneXR) rev) a b = true <-> xr_le rev a b.
Proof.
  unfold cle, cmp_dir. destruct a as [x|], b as [y|]; destruct rev; cbn [xr_le];
    try rewrite sort_cmp_some; try rewrite sort_cmp_rev_some;
    try (cbn; intuition congruence).
  - destruct (Rlt_dec x y); [|destruct (Req_EM_T x y)]; split; intros H;
      try reflexivity; try discriminate; try lra.
  - destruct (Rlt_dec x y); [|destruct (Req_EM_T x y)]; split; intros H;
      try reflexivity; try discriminate; try lra.
Qed.

Lemma xr_le_total rev a b : xr_le rev a b \/ xr_le rev b a.
Proof. destruct a, b, rev; cbn; auto; lra. Qed.
Lemma xr_le_trans rev a b c : xr_le rev a b -> xr_le rev b c -> xr_le rev a c.
Proof. destruct a, b, c, rev; cbn; auto; try lra; tauto. Qed.
Lemma xr_le_antisym rev a b : xr_le rev a b -> xr_le rev b a -> a = b.
Proof. destruct a, b, rev; cbn; intros; try tauto; f_equal; lra. Qed.

Lemma cle_dir_total rev a b :
  cle (cmp_dir (DT := IsNoneXR) rev) a b = true \/ cle (cmp_dir (DT := IsNoneXR) rev) b a = true.
Proof. rewrite !cle_dir. apply xr_le_total. Qed.

(* ---- uniqueness of the sorted arrangement ------------------------------------------------------- *)
Section Unique.
  Context {X : Type} (le : X -> X -> Prop).
  Hypothesis le_trans : forall a b c, le a b -> le b c -> le a c.
  Hypothesis le_antisym : forall a b, le a b -> le b a -> a = b.
  Hypothesis le_refl : forall a, le a a.

  Lemma sorted_perm_unique l1 l2 : Sorted le l1 -> Sorted le l2 -> Permutation l1 l2 -> l1 = l2.
  Proof.
    intros H1 H2. apply Sorted_StronglySorted in H1; [|exact le_trans].
    apply Sorted_StronglySorted in H2; [|exact le_trans].
    revert l2 H2. induction H1 as [|a l1 Hs1 IH Hall1]; intros l2 H2 HP.
    - apply Permutation_nil in HP. subst. reflexivity.
    - destruct H2 as [|b l2 Hs2 Hall2].
      + apply Permutation_sym, Permutation_nil in HP. discriminate.
      + assert (a = b) as ->.
        { assert (Hin_b : In b (a :: l1)) by (apply Permutation_in with (b :: l2); [symmetry; exact HP|left; reflexivity]).
          assert (Hin_a : In a (b :: l2)) by (apply Permutation_in with (a :: l1); [exact HP|left; reflexivity]).
          rewrite Forall_forall in Hall1, Hall2.
          destruct Hin_b as [E|Hb]; [exact E|]. destruct Hin_a as [E|Ha]; [symmetry; exact E|].
          apply le_antisym; [apply Hall1; exact Hb|apply Hall2; exact Ha]. }
        f_equal. apply IH; [exact Hs2|]. apply Permutation_cons_inv with b. exact HP.
  Qed.
End Unique.

(* ---- the canonical sorted form of a series ------------------------------------------------------ *)
Definition rle (rev : bool) (x y : R) : Prop := if rev then y <= x else x <= y.
Definition nnull (xs : list XR) : nat := length xs - nv xs.

Lemma perm_valid_nulls xs : Permutation xs (map Some (valid xs) ++ repeat None (nnull xs)).
Proof.
  unfold nnull, nv. induction xs as [|[x|] xs IH].
  - reflexivity.
  - cbn [valid flat_map app map length]. fold (valid xs).
    replace (S (length xs) - S (length (valid xs)))%nat with (length xs - length (valid xs))%nat by lia.
    constructor. exact IH.
  - cbn [valid flat_map app length]. fold (valid xs).
    assert (Hle : (length (valid xs) <= length xs)%nat).
    { clear. induction xs as [|[y|] xs IH]; cbn; try fold (valid xs); lia. }
    replace (S (length xs) - length (valid xs))%nat with (S (length xs - length (valid xs))) by lia.
    cbn [repeat]. apply Permutation_cons_app. exact IH.
Qed.

Lemma nv_le_length xs : (nv xs <= length xs)%nat.
Proof. unfold nv. induction xs as [|[y|] xs IH]; cbn; try fold (valid xs); lia. Qed.

Lemma sorted_canon rev s z : Sorted (rle rev) s -> Sorted (xr_le rev) (map Some s ++ repeat None z).
Proof.
  intros Hs. induction Hs as [|a l Hl IH Hhd].
  - cbn. induction z as [|z IHz]; cbn; [constructor|].
    constructor; [exact IHz|]. destruct z; cbn; constructor. exact I.
  - cbn [map app]. constructor; [exact IH|].
    destruct Hhd as [|b l' Hab]; cbn.
    + destruct z; cbn; constructor. exact I.
    + constructor. unfold rle in Hab. cbn. exact Hab.
Qed.

Lemma sorted_cle_iff rev l :
  Sorted (fun a b => cle (cmp_dir (DT := IsNoneXR) rev) a b = true) l <-> Sorted (xr_le rev) l.
Proof.
  split; intros H; induction H as [|a l Hl IH Hhd]; constructor; try exact IH;
    destruct Hhd; constructor; apply cle_dir; assumption.
Qed.

(* THE theorem about the model of std's sort on a series: for any sorted arrangement s of the valid
   elements, the sorted series is s followed by the nulls *)
Lemma isort_canon rev xs s :
  Sorted (rle rev) s -> Permutation s (valid xs) ->
  isort (cmp_dir (DT := IsNoneXR) rev) xs = map Some s ++ repeat None (nnull xs).
Proof.
  intros Hs HP.
  apply (@sorted_perm_unique XR (xr_le rev)).
  - apply xr_le_trans.
  - apply xr_le_antisym.
  - apply sorted_cle_iff. apply isort_sorted. apply cle_dir_total.
  - apply sorted_canon. exact Hs.
  - rewrite isort_perm. rewrite (perm_valid_nulls xs) at 1.
    apply Permutation_app_tail. apply Permutation_map. symmetry. exact HP.
Qed.

(* descending arrangement = reverse of the ascending one *)
Lemma sorted_rev s : Sorted (rle false) s -> Sorted (rle true) (rev s).
Proof.
  intros Hs. apply Sorted_StronglySorted in Hs; [|intros a b c; unfold rle; lra].
  induction Hs as [|a l Hl IH Hall]; [constructor|].
  cbn [rev]. clear Hl.
  assert (Hall' : Forall (fun x => rle true x a) (rev l)).
  { rewrite Forall_forall in *. intros x Hx. apply in_rev in Hx. unfold rle. apply Hall. exact Hx. }
  revert IH Hall'. generalize (rev l). clear. intros l IH Hall.
  induction IH as [|b l Hl IH Hhd]; cbn.
  - repeat constructor.
  - inversion Hall as [|? ? Hb Hall']; subst. constructor; [apply IH; exact Hall'|].
    destruct Hhd; cbn; constructor; assumption.
Qed.

(* a sorted arrangement exists (so the theorems quantified over s are not vacuous) *)
Lemma sorted_exists rev (l : list R) : exists s, Sorted (rle rev) s /\ Permutation s l.
Proof.
  pose (cmp' := fun x y : R => if rev then (if Rle_dec y x then Lt else Gt) else (if Rle_dec x y then Lt else Gt)).
  exists (isort cmp' l). split; [|apply isort_perm].
  assert (Hiff : forall a b, cle cmp' a b = true <-> rle rev a b).
  { intros a b. unfold cle, cmp', rle. destruct rev.
    - destruct (Rle_dec b a); split; intros; try reflexivity; try assumption; try discriminate. contradiction.
    - destruct (Rle_dec a b); split; intros; try reflexivity; try assumption; try discriminate. contradiction. }
  assert (Hs : Sorted (fun a b => cle cmp' a b = true) (isort cmp' l)).
  { apply isort_sorted. intros a b. rewrite !Hiff. unfold rle. destruct rev; lra. }
  induction Hs as [|a l' Hl IH Hhd]; constructor; [exact IH|].
  destruct Hhd; constructor. apply Hiff. assumption.
Qed.
