(* Proofs/CastOrder.v — sort_cmp / sort_cmp_rev of Model/Cast.v are total preorders that order non-null
   values by the inner type's partial_cmp (resp. its reverse) and put nulls last in both directions.   *)
From Coq Require Import ZArith List Bool Lia.
From Tevec Require Import Base.Prelude Model.Cast Proofs.Cast.
Import ListNotations.
Local Open Scope Z_scope.

(* ------------------------------------------------------------------ *)
(* a partial comparison that is a total preorder on the values satisfying `ok` *)

Record good_cmp {A : Type} (ok : A -> bool) (pc : A -> A -> option comparison) : Prop := {
  gc_some : forall x y, ok x = true -> ok y = true -> exists c, pc x y = Some c;
  gc_refl : forall x, ok x = true -> pc x x = Some Eq;
  gc_anti : forall x y c, ok x = true -> ok y = true -> pc x y = Some c -> pc y x = Some (CompOpp c);
  gc_trans : forall x y z c1 c2, ok x = true -> ok y = true -> ok z = true ->
                                 pc x y = Some c1 -> pc y z = Some c2 -> c1 <> Gt -> c2 <> Gt ->
                                 exists c3, pc x z = Some c3 /\ c3 <> Gt;
}.

Arguments gc_some {A ok pc} _. Arguments gc_refl {A ok pc} _. Arguments gc_anti {A ok pc} _.
Arguments gc_trans {A ok pc} _.

Definition flip_pc {A} (pc : A -> A -> option comparison) (x y : A) : option comparison :=
  option_map CompOpp (pc x y).

Lemma CompOpp_ne_Gt c : CompOpp c <> Gt <-> c <> Lt.
Proof. destruct c; cbn; split; intros H; congruence. Qed.

Lemma good_flip {A} (ok : A -> bool) pc : good_cmp ok pc -> good_cmp ok (flip_pc pc).
Proof.
  intros G. unfold flip_pc. split.
  - intros x y Hx Hy. destruct (gc_some G x y Hx Hy) as [c ->]. eexists; reflexivity.
  - intros x Hx. rewrite (gc_refl G x Hx). reflexivity.
  - intros x y c Hx Hy H. destruct (pc x y) as [d|] eqn:E; [|discriminate]. injection H as <-.
    rewrite (gc_anti G x y d Hx Hy E). reflexivity.
  - intros x y z c1 c2 Hx Hy Hz H1 H2 N1 N2.
    destruct (pc x y) as [d1|] eqn:E1; [|discriminate]. injection H1 as <-.
    destruct (pc y z) as [d2|] eqn:E2; [|discriminate]. injection H2 as <-.
    (* x >= y >= z: use transitivity of <= on z, y, x *)
    pose proof (gc_anti G x y d1 Hx Hy E1) as A1. pose proof (gc_anti G y z d2 Hy Hz E2) as A2.
    destruct (gc_trans G z y x (CompOpp d2) (CompOpp d1) Hz Hy Hx A2 A1 N2 N1) as (c3 & E3 & N3).
    pose proof (gc_anti G z x c3 Hz Hx E3) as A3. rewrite A3. cbn. exists (CompOpp (CompOpp c3)). split; [reflexivity|].
    destruct c3; cbn; congruence.
Qed.

(* the comparison lifted to options, exactly the match of IsNone::sort_cmp *)
Definition ocmp {A} (pc : A -> A -> option comparison) (isn : A -> bool) (oa ob : option A) : comparison :=
  match oa, ob with
  | Some va, Some vb => match pc va vb with Some c => c | None => if isn va then Gt else Lt end
  | None, None => Eq
  | None, _ => Gt
  | _, None => Lt
  end.

Definition okopt {A} (ok : A -> bool) (o : option A) : bool := match o with Some x => ok x | None => true end.

Section OCmp.
  Context {A : Type} (ok : A -> bool) (pc : A -> A -> option comparison) (isn : A -> bool) (G : good_cmp ok pc).

  Lemma ocmp_refl o : okopt ok o = true -> ocmp pc isn o o = Eq.
  Proof. destruct o as [x|]; cbn; [|reflexivity]. intros H. rewrite (gc_refl G x H). reflexivity. Qed.

  Lemma ocmp_anti a b : okopt ok a = true -> okopt ok b = true -> ocmp pc isn b a = CompOpp (ocmp pc isn a b).
  Proof.
    destruct a as [x|], b as [y|]; cbn; intros Hx Hy; try reflexivity.
    destruct (gc_some G x y Hx Hy) as [c E]. rewrite E, (gc_anti G x y c Hx Hy E). reflexivity.
  Qed.

  Lemma ocmp_trans a b c :
    okopt ok a = true -> okopt ok b = true -> okopt ok c = true ->
    ocmp pc isn a b <> Gt -> ocmp pc isn b c <> Gt -> ocmp pc isn a c <> Gt.
  Proof.
    destruct a as [x|], b as [y|], c as [z|]; cbn; intros Hx Hy Hz H1 H2; try congruence.
    destruct (gc_some G x y Hx Hy) as [c1 E1]. destruct (gc_some G y z Hy Hz) as [c2 E2].
    rewrite E1 in H1. rewrite E2 in H2.
    destruct (gc_trans G x y z c1 c2 Hx Hy Hz E1 E2 H1 H2) as (c3 & E3 & N3). rewrite E3. exact N3.
  Qed.

  Lemma ocmp_values x y : ok x = true -> ok y = true ->
    exists c, pc x y = Some c /\ ocmp pc isn (Some x) (Some y) = c.
  Proof. intros Hx Hy. destruct (gc_some G x y Hx Hy) as [c E]. exists c. cbn. rewrite E. auto. Qed.

  Lemma ocmp_null_last y : ocmp pc isn None (Some y) = Gt /\ ocmp pc isn (Some y) None = Lt /\ ocmp pc isn None None = Eq.
  Proof. cbn. auto. Qed.
End OCmp.

(* the reverse comparator is ocmp of the flipped comparison *)
Definition ocmp_rev {A} (pc : A -> A -> option comparison) (isn : A -> bool) (oa ob : option A) : comparison :=
  match oa, ob with
  | Some va, Some vb => CompOpp (match pc va vb with Some c => c | None => if isn va then Lt else Gt end)
  | None, None => Eq
  | None, _ => Gt
  | _, None => Lt
  end.

Lemma ocmp_rev_flip {A} (pc : A -> A -> option comparison) isn oa ob :
  ocmp_rev pc isn oa ob = ocmp (flip_pc pc) isn oa ob.
Proof.
  destruct oa as [x|], ob as [y|]; cbn; try reflexivity. unfold flip_pc.
  destruct (pc x y); cbn; [reflexivity|]. destruct (isn x); reflexivity.
Qed.

(* ------------------------------------------------------------------ *)
(* the inner comparisons are good *)

Lemma Zcmp_good (ok : Z -> bool) : good_cmp ok (fun x y => Some (x ?= y)).
Proof.
  split.
  - intros; eexists; reflexivity.
  - intros x _. rewrite Z.compare_refl. reflexivity.
  - intros x y c _ _ H. injection H as <-. rewrite (Z.compare_antisym x y). reflexivity.
  - intros x y z c1 c2 _ _ _ H1 H2 N1 N2. injection H1 as <-. injection H2 as <-.
    exists (x ?= z). split; [reflexivity|].
    pose proof (proj1 (Z.compare_le_iff x y) N1). pose proof (proj1 (Z.compare_le_iff y z) N2).
    apply (proj2 (Z.compare_le_iff x z)). lia.
Qed.

Lemma bool_cmp_good (ok : bool -> bool) : good_cmp ok (fun x y => Some (bool_cmp x y)).
Proof.
  split.
  - intros; eexists; reflexivity.
  - intros [] _; reflexivity.
  - intros [] [] c _ _ H; injection H as <-; reflexivity.
  - intros [] [] [] c1 c2 _ _ _ H1 H2 N1 N2; injection H1 as <-; injection H2 as <-; cbn in *;
      eexists; split; try reflexivity; congruence.
Qed.

Lemma lex_refl a : lex_cmp a a = Eq.
Proof. induction a as [|x a IH]; cbn; [reflexivity|]. rewrite Z.compare_refl. exact IH. Qed.

Lemma lex_anti a : forall b, lex_cmp b a = CompOpp (lex_cmp a b).
Proof.
  induction a as [|x a IH]; intros [|y b]; cbn; try reflexivity.
  rewrite (Z.compare_antisym x y). destruct (x ?= y); cbn; auto.
Qed.

Lemma lex_trans a : forall b c, lex_cmp a b <> Gt -> lex_cmp b c <> Gt -> lex_cmp a c <> Gt.
Proof.
  induction a as [|x a IH]; intros [|y b] [|z c]; cbn; try congruence.
  destruct (x ?= y) eqn:E1; destruct (y ?= z) eqn:E2; intros H1 H2; try congruence.
  - apply Z.compare_eq in E1. apply Z.compare_eq in E2. subst. rewrite Z.compare_refl. eapply IH; eassumption.
  - apply Z.compare_eq in E1. subst. rewrite E2. congruence.
  - apply Z.compare_eq in E2. subst. rewrite E1. congruence.
  - assert (x ?= z = Lt) as ->; [|congruence].
    pose proof (proj1 (Z.compare_lt_iff x y) E1). pose proof (proj1 (Z.compare_lt_iff y z) E2).
    apply (proj2 (Z.compare_lt_iff x z)). lia.
Qed.

Lemma lex_good (ok : str -> bool) : good_cmp ok (fun x y => Some (lex_cmp x y)).
Proof.
  split.
  - intros; eexists; reflexivity.
  - intros x _. rewrite lex_refl. reflexivity.
  - intros x y c _ _ H. injection H as <-. rewrite lex_anti. reflexivity.
  - intros x y z c1 c2 _ _ _ H1 H2 N1 N2. injection H1 as <-. injection H2 as <-.
    eexists; split; [reflexivity|]. eapply lex_trans; eassumption.
Qed.

Section Order.
  Context {F : Type} (X : Ext F) (L : ExtLaws X).

  Definition b_ok (b : bt) (x : bval b) : bool := negb (b_is_none X b x).

  Lemma float_good : good_cmp (fun f : F => negb (fisnan X f)) (fcmp X).
  Proof.
    assert (Hf : forall f, negb (fisnan X f) = true -> feq X f f = true).
    { intros f H. unfold fisnan in H. rewrite negb_involutive in H. exact H. }
    split.
    - intros x y Hx Hy. apply (fcmp_some X L); auto.
    - intros x Hx. apply (fcmp_refl X L); auto.
    - intros x y c _ _ H. apply (fcmp_antisym X L). exact H.
    - intros x y z c1 c2 _ _ _. apply (fcmp_trans X L).
  Qed.

  Definition td_key (d : Z * Z) : str := [fst d; snd d].

  Lemma td_pcmp_lex (x y : Z * Z) : b_ok TD x = true -> b_pcmp X TD x y = Some (lex_cmp (td_key x) (td_key y)).
  Proof.
    unfold b_ok. cbn [b_is_none b_pcmp td_key lex_cmp]. intros Hx. rewrite Hx.
    destruct (fst x =? fst y) eqn:E; cbn [negb].
    - apply Z.eqb_eq in E. rewrite E, Z.compare_refl. destruct (snd x ?= snd y); reflexivity.
    - apply Z.eqb_neq in E. destruct (fst x ?= fst y) eqn:C; try reflexivity.
      apply Z.compare_eq in C. contradiction.
  Qed.

  Lemma td_good : good_cmp (b_ok TD) (b_pcmp X TD).
  Proof.
    split.
    - intros x y Hx _. rewrite td_pcmp_lex by exact Hx. eexists; reflexivity.
    - intros x Hx. rewrite td_pcmp_lex by exact Hx. rewrite lex_refl. reflexivity.
    - intros x y c Hx Hy. rewrite !td_pcmp_lex by assumption. intros H; injection H as <-.
      rewrite lex_anti. reflexivity.
    - intros x y z c1 c2 Hx Hy Hz. rewrite !td_pcmp_lex by assumption.
      intros H1 H2 N1 N2. injection H1 as <-. injection H2 as <-.
      eexists; split; [reflexivity|]. exact (lex_trans (td_key x) (td_key y) (td_key z) N1 N2).
  Qed.

  Lemma b_pcmp_good (b : bt) : good_cmp (b_ok b) (b_pcmp X b).
  Proof.
    destruct b as [[]| | | | |]; cbn [b_pcmp];
      try apply Zcmp_good; try apply bool_cmp_good; try apply lex_good; try apply td_good; apply float_good.
  Qed.

  (* ---------------------------------------------------------------- *)
  (* sort_cmp and sort_cmp_rev are the lifted comparisons on as_opt *)

  Lemma intlike_pcmp_some b (x y : bval b) : is_intlike b = true -> exists c, b_pcmp X b x y = Some c.
  Proof. destruct b as [[]| | | | |]; cbn; intros H; try discriminate; eexists; reflexivity. Qed.

  Lemma intlike_as_opt b (x : bval b) : is_intlike b = true -> as_opt X (Plain b) x = Some x.
  Proof. destruct b as [[]| | | | |]; cbn; intros H; try discriminate; reflexivity. Qed.

  Lemma sort_cmp_ocmp t (a b : val t) :
    sort_cmp X t a b = Ok (ocmp (b_pcmp X (base t)) (b_is_none X (base t)) (as_opt X t a) (as_opt X t b)).
  Proof.
    destruct t as [bb|bb]; cbn [sort_cmp base].
    - destruct (is_intlike bb) eqn:E.
      + rewrite !intlike_as_opt by exact E. cbn [ocmp].
        destruct (intlike_pcmp_some bb a b E) as [c ->]. reflexivity.
      + unfold ocmp. destruct (as_opt X (Plain bb) a), (as_opt X (Plain bb) b); reflexivity.
    - unfold ocmp. destruct (as_opt X (Opt bb) a), (as_opt X (Opt bb) b); reflexivity.
  Qed.

  Lemma sort_cmp_rev_ocmp t (a b : val t) :
    sort_cmp_rev X t a b = Ok (ocmp_rev (b_pcmp X (base t)) (b_is_none X (base t)) (as_opt X t a) (as_opt X t b)).
  Proof.
    unfold sort_cmp_rev, ocmp_rev. destruct (as_opt X t a), (as_opt X t b); reflexivity.
  Qed.

  Lemma canonical_okopt t (v : val t) : canonical X t v = true -> okopt (b_ok (base t)) (as_opt X t v) = true.
  Proof.
    destruct t as [b|b]; cbn [canonical as_opt base okopt]; unfold b_ok.
    - intros _. destruct (b_is_none X b v) eqn:E; cbn; [reflexivity|]. rewrite E. reflexivity.
    - destruct v as [x|]; cbn; auto.
  Qed.

  Lemma as_opt_none_iff t (v : val t) : as_opt X t v = None <-> is_none X t v = true.
  Proof. rewrite as_opt_to_opt. apply to_opt_none_iff. Qed.

  (* ---------------------------------------------------------------- *)
  (* the order theorems, for either comparator *)

  Definition le_res (r : res comparison) : Prop := r = Ok Lt \/ r = Ok Eq.

  Section Either.
    Variable cmp : forall t, @val F t -> @val F t -> res comparison.
    Variable pcf : forall b, @bval F b -> @bval F b -> option comparison.
    Hypothesis cmp_is : forall t a b, cmp t a b = Ok (ocmp (pcf (base t)) (b_is_none X (base t)) (as_opt X t a) (as_opt X t b)).
    Hypothesis pcf_good : forall b, good_cmp (b_ok b) (pcf b).

    Lemma either_refl t a : canonical X t a = true -> cmp t a a = Ok Eq.
    Proof. intros H. rewrite cmp_is. f_equal. eapply ocmp_refl; [apply pcf_good|]. apply canonical_okopt. exact H. Qed.

    Lemma either_anti t a b : canonical X t a = true -> canonical X t b = true ->
      exists c, cmp t a b = Ok c /\ cmp t b a = Ok (CompOpp c).
    Proof.
      intros Ha Hb. rewrite !cmp_is. eexists. split; [reflexivity|]. f_equal.
      eapply ocmp_anti; [apply pcf_good| |]; apply canonical_okopt; assumption.
    Qed.

    Lemma either_total t a b : canonical X t a = true -> canonical X t b = true ->
      le_res (cmp t a b) \/ le_res (cmp t b a).
    Proof.
      intros Ha Hb. destruct (either_anti t a b Ha Hb) as (c & E1 & E2). rewrite E1, E2. unfold le_res.
      destruct c; cbn; auto.
    Qed.

    Lemma either_trans t a b c : canonical X t a = true -> canonical X t b = true -> canonical X t c = true ->
      le_res (cmp t a b) -> le_res (cmp t b c) -> le_res (cmp t a c).
    Proof.
      intros Ha Hb Hc. rewrite !cmp_is. unfold le_res. intros H1 H2.
      assert (N : ocmp (pcf (base t)) (b_is_none X (base t)) (as_opt X t a) (as_opt X t c) <> Gt).
      { assert (N1 : ocmp (pcf (base t)) (b_is_none X (base t)) (as_opt X t a) (as_opt X t b) <> Gt).
        { destruct H1 as [H1|H1]; injection H1 as H1; rewrite H1; congruence. }
        assert (N2 : ocmp (pcf (base t)) (b_is_none X (base t)) (as_opt X t b) (as_opt X t c) <> Gt).
        { destruct H2 as [H2|H2]; injection H2 as H2; rewrite H2; congruence. }
        exact (ocmp_trans (b_ok (base t)) (pcf (base t)) (b_is_none X (base t)) (pcf_good (base t)) _ _ _
                          (canonical_okopt t a Ha) (canonical_okopt t b Hb) (canonical_okopt t c Hc) N1 N2). }
      destruct (ocmp (pcf (base t)) (b_is_none X (base t)) (as_opt X t a) (as_opt X t c));
        [right; reflexivity|left; reflexivity|exfalso; apply N; reflexivity].
    Qed.

    Lemma either_values t a b x y :
      canonical X t a = true -> canonical X t b = true ->
      to_opt X t a = Some x -> to_opt X t b = Some y ->
      exists c, pcf (base t) x y = Some c /\ cmp t a b = Ok c.
    Proof.
      intros Ha Hb Ea Eb. rewrite cmp_is, !as_opt_to_opt, Ea, Eb.
      pose proof (to_opt_some_nonnull X t a x Ha Ea) as Nx. pose proof (to_opt_some_nonnull X t b y Hb Eb) as Ny.
      destruct (ocmp_values (b_ok (base t)) (pcf (base t)) (b_is_none X (base t)) (pcf_good (base t)) x y) as (c & E & E').
      { unfold b_ok. rewrite Nx. reflexivity. } { unfold b_ok. rewrite Ny. reflexivity. }
      exists c. split; [exact E|]. f_equal. exact E'.
    Qed.

    Lemma either_nulls_last t a b :
      is_none X t a = true ->
      (is_none X t b = false -> cmp t a b = Ok Gt /\ cmp t b a = Ok Lt) /\
      (is_none X t b = true -> cmp t a b = Ok Eq).
    Proof.
      intros Ha. apply as_opt_none_iff in Ha. rewrite !cmp_is, Ha. split; intros Hb.
      - destruct (as_opt X t b) as [y|] eqn:E.
        + cbn. auto.
        + apply as_opt_none_iff in E. congruence.
      - apply as_opt_none_iff in Hb. rewrite Hb. reflexivity.
    Qed.
  End Either.

  Definition rev_pc (b : bt) := flip_pc (b_pcmp X b).

  Lemma sort_cmp_rev_is t a b :
    sort_cmp_rev X t a b = Ok (ocmp (rev_pc (base t)) (b_is_none X (base t)) (as_opt X t a) (as_opt X t b)).
  Proof. rewrite sort_cmp_rev_ocmp, ocmp_rev_flip. reflexivity. Qed.

  Lemma rev_pc_good b : good_cmp (b_ok b) (rev_pc b).
  Proof. apply good_flip. apply b_pcmp_good. Qed.
End Order.
