(* Proofs/TransPartition.v — C08 (null transparency) for vpartition (Model/Partition.v) at EVERY carrier, axiom-free.

   vpartition returns the kth + 1 first elements of the sorted series, padded with `T::none()`.  Read through the
   option view (null = NaN = None), the result is a function of the NON-NULL elements of the series only
   (`vpartition_by_valid`): by `isort_split` (Proofs/TransQuantile.v) the sorted series is the sorted non-null
   elements followed by the nulls, and a null taken from the series and a null taken from the padding have the same
   view.  Hence inserting nulls into a series does not change the option view of its partition.
   Hypothesis: `T::none()` returns a null (`tnone = Ok pad`, `is_none pad = true`) — without it (the integer types
   panic in `T::none()`) a short series panics where a longer one, needing no padding, does not.
   (varg_partition returns positions: it is positional, not transparent, and nothing is claimed for it.)        *)
From Coq Require Import List Bool Arith Lia ZArith.
From Tevec Require Import Base.Prelude Base.Num Model.NullView Model.SortCmp Model.Partition
     Proofs.SortCmp Proofs.TransQuantile Proofs.EncRank.
From Tevec Require Proofs.Partition.
Import ListNotations.

Section TransPartition.
  Context {A : Type} {NA : Num A} {T : Type} {DT : IsNone T A} {DX : IsNoneX T A}.

  Lemma view_all_null Z : all_null Z -> opt_view Z = repeat None (length Z).
  Proof.
    induction 1 as [|z Z Hz _ IH]; [reflexivity|]. cbn [opt_view map length repeat]. unfold to_opt at 1. rewrite Hz.
    f_equal. exact IH.
  Qed.
  Lemma view_app (l1 l2 : list T) : opt_view (l1 ++ l2) = opt_view l1 ++ opt_view l2.
  Proof. apply map_app. Qed.
  Lemma view_repeat_null pad m : is_none pad = true -> opt_view (repeat pad m) = repeat (@None A) m.
  Proof.
    intros H. induction m as [|m IH]; [reflexivity|]. cbn [repeat opt_view map]. unfold to_opt at 1. rewrite H.
    f_equal. exact IH.
  Qed.

  (* the option view of the partition, as a function of the non-null elements V of the series *)
  Definition part_of_valid (kth : nat) (sort rev : bool) (pad : T) (V : list T) : list (option A) :=
    let n := length V in
    let S0 := isort (cmp_dir rev) V in
    if (n =? kth + 1)%nat && negb sort then opt_view V else
    if (n <=? kth + 1)%nat then
      if negb sort then opt_view (pad_take (kth + 1) pad V)
      else opt_view S0 ++ repeat None (kth + 1 - n)
    else opt_view (if sort then isort (cmp_dir rev) (firstn (kth + 1) S0) else firstn (kth + 1) S0).

  Theorem vpartition_by_valid kth sort rev pad xs :
    tnone = Ok pad -> is_none pad = true ->
    res_opt_view (vpartition kth sort rev xs) = Ok (part_of_valid kth sort rev pad (filter not_none xs)).
  Proof.
    intros HT HP. unfold vpartition, part_of_valid, count_valid.
    set (V := filter not_none xs). set (n := length V).
    destruct ((n =? kth + 1)%nat && negb sort); [reflexivity|].
    rewrite (isort_split rev xs). fold V.
    set (S0 := isort (cmp_dir rev) V). set (Z := filter is_none xs).
    assert (HS0 : length S0 = n) by (unfold S0; rewrite isort_length; reflexivity).
    pose proof (filter_is_none_all_null xs) as HZ. fold Z in HZ.
    destruct (n <=? kth + 1)%nat eqn:En.
    - apply Nat.leb_le in En. destruct (negb sort).
      + rewrite HT. reflexivity.
      + destruct (length (S0 ++ Z) <? kth + 1)%nat eqn:El.
        * apply Nat.ltb_lt in El. rewrite HT. cbn [bind res_opt_view]. f_equal.
          rewrite Partition.pad_take_short by lia. rewrite app_length in El |- *.
          rewrite !view_app, (view_all_null _ HZ), (view_repeat_null _ _ HP), <- app_assoc, <- repeat_app.
          do 2 f_equal. lia.
        * apply Nat.ltb_ge in El. cbn [res_opt_view]. f_equal. rewrite app_length in El.
          rewrite firstn_app, (firstn_all2 (n := kth + 1) S0) by lia.
          rewrite view_app. f_equal. rewrite (view_all_null _ (all_null_firstn _ _ HZ)), firstn_length.
          f_equal. lia.
    - apply Nat.leb_gt in En. cbn [res_opt_view]. f_equal.
      rewrite firstn_app. replace (kth + 1 - length S0)%nat with 0%nat by lia. cbn [firstn]. rewrite app_nil_r.
      reflexivity.
  Qed.

  (* inserting nulls does not change the option view of the partition: every kth / sort / rev, every pattern *)
  Theorem vpartition_insert kth sort rev pad xs ys :
    tnone = Ok pad -> is_none pad = true -> NullInsert xs ys ->
    res_opt_view (vpartition kth sort rev ys) = res_opt_view (vpartition kth sort rev xs).
  Proof.
    intros HT HP HI. rewrite !(vpartition_by_valid _ _ _ pad) by assumption.
    rewrite (filter_valid_insert _ _ HI). reflexivity.
  Qed.
End TransPartition.
