(* Proofs/Mask4.v — C05: the plain rolling families (ts_sum .. ts_kurt, ts_ewm, ts_wma: the same closures with the
   never-null dictionary) on a null-free series have the mask of the null-aware families, with the valid count
   being the window length.  Corollaries of Proofs/Features.v plain_family_* and the masks of Mask.v / Mask2.v. *)
From Coq Require Import Reals Lra Lia List.
From Tevec Require Import Base.Prelude Base.Num Base.XR Spec.Stats Model.Driver Proofs.Driver
     Model.Features Proofs.Features Proofs.Fdiff Proofs.Mask Proofs.Mask2.
Import ListNotations.

(* ---- the plain families (never-null dictionary) on a null-free series: same mask, over the whole window --- *)
Lemma valid_map_Some (rs : list R) : valid (map Some rs) = rs.
Proof. induction rs as [|r rs IH]; [reflexivity|]. cbn [map]. change (valid (Some r :: map Some rs)) with (r :: valid (map Some rs)). rewrite IH. reflexivity. Qed.

Lemma plain_transfer {St} (Fp Fv : feat XR St XR) body (w : nat) (rs : list R) (M : list R -> bool) :
  ts_run Fp body w (map Some rs) = ts_run Fv body w (map Some rs) ->
  (exists out, ts_run Fv body w (map Some rs) = Done out /\ length out = length (map (@Some R) rs) /\
     forall i, i < length (map (@Some R) rs) ->
       exists o, nth_error out i = Some o /\ is_null o = M (valid (win w i (map Some rs)))) ->
  exists out, ts_run Fp body w (map Some rs) = Done out /\ length out = length rs /\
    forall i, i < length rs -> exists o, nth_error out i = Some o /\ is_null o = M (win w i rs).
Proof.
  intros E (out & H1 & H2 & H3). rewrite map_length in *. exists out. rewrite E.
  split; [exact H1|]. split; [exact H2|]. intros i Hi. destruct (H3 i Hi) as (o & Ho & Hn).
  exists o. split; [exact Ho|]. rewrite Hn, win_map, valid_map_Some. reflexivity.
Qed.

Theorem mask_plain_sum body (w : nat) mp (rs : list R) :
  1 <= w ->
  exists out, ts_run (ts_vsum_f (DT := IsNone_never) w mp) body w (map Some rs) = Done out /\
    length out = length rs /\
    forall i, i < length rs -> exists o, nth_error out i = Some o /\ is_null o = below (mp_eff mp w 0) (win w i rs).
Proof.
  intros Hw. apply (plain_transfer _ (ts_vsum_f (DT := IsNoneXR) w mp) body w rs (below (mp_eff mp w 0))).
  - apply plain_family_mom. exact Hw.
  - apply mask_vsum. exact Hw.
Qed.

Theorem mask_plain_mean body (w : nat) mp (rs : list R) :
  1 <= w ->
  exists out, ts_run (ts_vmean_f (DT := IsNone_never) w mp) body w (map Some rs) = Done out /\
    length out = length rs /\
    forall i, i < length rs ->
      exists o, nth_error out i = Some o /\
        is_null o = orb (below (mp_eff mp w 0) (win w i rs)) (below 1 (win w i rs)).
Proof.
  intros Hw. apply (plain_transfer _ (ts_vmean_f (DT := IsNoneXR) w mp) body w rs
                      (fun V => orb (below (mp_eff mp w 0) V) (below 1 V))).
  - apply plain_family_mom. exact Hw.
  - apply mask_vmean. exact Hw.
Qed.

Theorem mask_plain_var body (w : nat) mp (rs : list R) :
  1 <= w ->
  exists out, ts_run (ts_vvar_f (DT := IsNone_never) w mp) body w (map Some rs) = Done out /\
    length out = length rs /\
    forall i, i < length rs -> exists o, nth_error out i = Some o /\ is_null o = below (mp_eff mp w 2) (win w i rs).
Proof.
  intros Hw. apply (plain_transfer _ (ts_vvar_f (DT := IsNoneXR) w mp) body w rs (below (mp_eff mp w 2))).
  - apply plain_family_mom. exact Hw.
  - apply mask_vvar. exact Hw.
Qed.

Theorem mask_plain_std body (w : nat) mp (rs : list R) :
  1 <= w ->
  exists out, ts_run (ts_vstd_f (DT := IsNone_never) w mp) body w (map Some rs) = Done out /\
    length out = length rs /\
    forall i, i < length rs -> exists o, nth_error out i = Some o /\ is_null o = below (mp_eff mp w 2) (win w i rs).
Proof.
  intros Hw. apply (plain_transfer _ (ts_vstd_f (DT := IsNoneXR) w mp) body w rs (below (mp_eff mp w 2))).
  - apply plain_family_mom. exact Hw.
  - apply mask_vstd. exact Hw.
Qed.

Theorem mask_plain_skew body (w : nat) mp (rs : list R) :
  1 <= w ->
  exists out, ts_run (ts_vskew_f (DT := IsNone_never) w mp) body w (map Some rs) = Done out /\
    length out = length rs /\
    forall i, i < length rs -> exists o, nth_error out i = Some o /\ is_null o = below (mp_eff mp w 3) (win w i rs).
Proof.
  intros Hw. apply (plain_transfer _ (ts_vskew_f (DT := IsNoneXR) w mp) body w rs (below (mp_eff mp w 3))).
  - apply plain_family_mom. exact Hw.
  - apply mask_vskew. exact Hw.
Qed.

Theorem mask_plain_kurt body (w : nat) mp (rs : list R) :
  1 <= w ->
  exists out, ts_run (ts_vkurt_f (DT := IsNone_never) w mp) body w (map Some rs) = Done out /\
    length out = length rs /\
    forall i, i < length rs -> exists o, nth_error out i = Some o /\ is_null o = below (mp_eff mp w 4) (win w i rs).
Proof.
  intros Hw. apply (plain_transfer _ (ts_vkurt_f (DT := IsNoneXR) w mp) body w rs (below (mp_eff mp w 4))).
  - apply plain_family_mom. exact Hw.
  - apply mask_vkurt. exact Hw.
Qed.

Theorem mask_plain_ewm body (w : nat) mp (rs : list R) :
  1 <= w ->
  exists out, ts_run (ts_vewm_f (DT := IsNone_never) w mp) body w (map Some rs) = Done out /\
    length out = length rs /\
    forall i, i < length rs ->
      exists o, nth_error out i = Some o /\
        is_null o = orb (below (mp_eff mp w 0) (win w i rs)) (below 1 (win w i rs)).
Proof.
  intros Hw. apply (plain_transfer _ (ts_vewm_f (DT := IsNoneXR) w mp) body w rs
                      (fun V => orb (below (mp_eff mp w 0) V) (below 1 V))).
  - apply plain_family_ewm. exact Hw.
  - apply mask_vewm. exact Hw.
Qed.

Theorem mask_plain_wma body (w : nat) mp (rs : list R) :
  1 <= w ->
  exists out, ts_run (ts_vwma_f (DT := IsNone_never) w mp) body w (map Some rs) = Done out /\
    length out = length rs /\
    forall i, i < length rs ->
      exists o, nth_error out i = Some o /\
        is_null o = orb (below (mp_eff mp w 0) (win w i rs)) (below 1 (win w i rs)).
Proof.
  intros Hw. apply (plain_transfer _ (ts_vwma_f (DT := IsNoneXR) w mp) body w rs
                      (fun V => orb (below (mp_eff mp w 0) V) (below 1 V))).
  - apply plain_family_wma. exact Hw.
  - apply mask_vwma. exact Hw.
Qed.
