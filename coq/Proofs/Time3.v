(* Proofs/Time3.v — C17 extension X27: the pieces of the time arithmetic that were "only compared":
   Time::with_hour / with_minute / with_second / with_nanosecond, the components <-> Time bijection,
   TimeDelta / TimeDelta, the full set of scaling laws of TimeDelta * i32 (incl. NaT * k for every k),
   PartialOrd for TimeDelta.  Axiom-free (Z, bool only). *)
From Coq Require Import ZArith List Bool Lia ZifyBool.
From Tevec Require Import Base.Prelude Spec.Calendar Model.Time Proofs.Time.
Local Open Scope Z_scope.

(* ------------------------------------------------------------------ components <-> nanoseconds since midnight *)
Definition time_of_comp (h m s n : Z) : Z := (h * 3600 + m * 60 + s) * 1000000000 + n.
Definition comp_ok (h m s n : Z) : Prop := hms_ok h m s /\ 0 <= n < 1000000000.
Definition time_in_day (t : Z) : Prop := 0 <= t < 86400000000000.

Lemma comp_in_day h m s n : comp_ok h m s n -> time_in_day (time_of_comp h m s n).
Proof. intros ((Hh & Hm & Hs) & Hn). unfold time_in_day, time_of_comp. lia. Qed.

Lemma comp_split h m s n :
  comp_ok h m s n ->
  time_of_comp h m s n / 1000000000 = h * 3600 + m * 60 + s /\ time_of_comp h m s n mod 1000000000 = n.
Proof.
  intros ((Hh & Hm & Hs) & Hn). unfold time_of_comp.
  set (S0 := h * 3600 + m * 60 + s).
  split.
  - symmetry. apply (Z.div_unique _ _ S0 n); lia.
  - symmetry. apply (Z.mod_unique _ _ S0 n); lia.
Qed.

Lemma secs_split h m s :
  hms_ok h m s ->
  let S0 := h * 3600 + m * 60 + s in
  S0 mod 3600 = m * 60 + s /\ S0 / 3600 = h /\ S0 mod 60 = s /\ S0 / 60 = h * 60 + m /\ S0 / 60 mod 60 = m.
Proof.
  intros (Hh & Hm & Hs). cbv zeta.
  assert (E1 : (h * 3600 + m * 60 + s) mod 3600 = m * 60 + s).
  { symmetry. apply (Z.mod_unique _ _ h); lia. }
  assert (E2 : (h * 3600 + m * 60 + s) / 3600 = h).
  { symmetry. apply (Z.div_unique _ _ h (m * 60 + s)); lia. }
  assert (E3 : (h * 3600 + m * 60 + s) mod 60 = s).
  { symmetry. apply (Z.mod_unique _ _ (h * 60 + m)); lia. }
  assert (E4 : (h * 3600 + m * 60 + s) / 60 = h * 60 + m).
  { symmetry. apply (Z.div_unique _ _ (h * 60 + m) s); lia. }
  repeat split; try assumption.
  rewrite E4. symmetry. apply (Z.mod_unique _ _ h); lia.
Qed.

Lemma time_as_cr_comp h m s n :
  comp_ok h m s n -> time_as_cr (time_of_comp h m s n) = Some (h * 3600 + m * 60 + s, n).
Proof.
  intros H. rewrite time_as_cr_in_range by (apply comp_in_day; exact H).
  destruct (comp_split _ _ _ _ H) as [-> ->]. reflexivity.
Qed.

(* every time of day decomposes into valid components (the getters' values) *)
Lemma time_decompose t :
  time_in_day t ->
  let S0 := t / 1000000000 in
  comp_ok (S0 / 3600) (S0 / 60 mod 60) (S0 mod 60) (t mod 1000000000)
  /\ time_of_comp (S0 / 3600) (S0 / 60 mod 60) (S0 mod 60) (t mod 1000000000) = t.
Proof.
  intros Ht. unfold time_in_day in Ht. cbv zeta. unfold comp_ok, hms_ok, time_of_comp.
  pose proof (Z.div_mod t 1000000000 ltac:(lia)) as E0.
  pose proof (Z.mod_pos_bound t 1000000000 ltac:(lia)) as B0.
  set (S0 := t / 1000000000) in *. set (n := t mod 1000000000) in *.
  assert (HS : 0 <= S0 < 86400) by lia.
  pose proof (Z.div_mod S0 60 ltac:(lia)) as E1.
  pose proof (Z.mod_pos_bound S0 60 ltac:(lia)) as B1.
  set (M0 := S0 / 60) in *. set (s := S0 mod 60) in *.
  assert (HM : 0 <= M0 < 1440) by lia.
  pose proof (Z.div_mod M0 60 ltac:(lia)) as E2.
  pose proof (Z.mod_pos_bound M0 60 ltac:(lia)) as B2.
  assert (E3 : S0 / 3600 = M0 / 60).
  { subst M0. rewrite Z.div_div by lia. reflexivity. }
  rewrite E3. set (h := M0 / 60) in *. set (m := M0 mod 60) in *.
  repeat split; lia.
Qed.

Lemma time_getters_comp h m s n :
  comp_ok h m s n ->
  time_hour (time_of_comp h m s n) = Ok h /\ time_minute (time_of_comp h m s n) = Ok m
  /\ time_second (time_of_comp h m s n) = Ok s /\ time_nanosecond (time_of_comp h m s n) = Ok n.
Proof. intros [H Hn]. exact (time_getters h m s n _ H Hn eq_refl). Qed.

Lemma time_from_hms_nano_comp h m s n :
  comp_ok h m s n -> time_from_hms_nano h m s n = Ok (time_of_comp h m s n).
Proof. intros [H Hn]. exact (time_from_hms_nano_value h m s n H Hn). Qed.

(* ------------------------------------------------------------------ with_* : closed forms on components *)
Lemma time_with_hour_comp h0 m s n h :
  comp_ok h0 m s n -> 0 <= h < 24 ->
  time_with_hour (time_of_comp h0 m s n) h = Some (time_of_comp h m s n).
Proof.
  intros H Hh. unfold time_with_hour. rewrite (time_as_cr_comp _ _ _ _ H).
  replace (24 <=? h) with false by lia.
  destruct H as [H Hn]. destruct (secs_split _ _ _ H) as (E1 & _). rewrite E1.
  unfold time_from_cr, time_of_comp, NANOS_PER_SEC. cbn [fst snd]. f_equal; lia.
Qed.

Lemma time_with_minute_comp h m0 s n m :
  comp_ok h m0 s n -> 0 <= m < 60 ->
  time_with_minute (time_of_comp h m0 s n) m = Some (time_of_comp h m s n).
Proof.
  intros H Hm. unfold time_with_minute. rewrite (time_as_cr_comp _ _ _ _ H).
  replace (60 <=? m) with false by lia.
  destruct H as [H Hn]. destruct (secs_split _ _ _ H) as (_ & E2 & E3 & _). rewrite E2, E3.
  unfold time_from_cr, time_of_comp, NANOS_PER_SEC. cbn [fst snd]. f_equal; lia.
Qed.

Lemma time_with_second_comp h m s0 n s :
  comp_ok h m s0 n -> 0 <= s < 60 ->
  time_with_second (time_of_comp h m s0 n) s = Some (time_of_comp h m s n).
Proof.
  intros H Hs. unfold time_with_second. rewrite (time_as_cr_comp _ _ _ _ H).
  replace (60 <=? s) with false by lia.
  destruct H as [H Hn]. destruct (secs_split _ _ _ H) as (_ & _ & _ & E4 & _). rewrite E4.
  unfold time_from_cr, time_of_comp, NANOS_PER_SEC. cbn [fst snd]. f_equal; lia.
Qed.

(* also on the leap-second range of chrono (10^9 <= n < 2*10^9), which NaiveTime::with_nanosecond accepts on
   EVERY second: the result is then the raw sum, i.e. it spills into the next second *)
Lemma time_with_nanosecond_comp h m s n0 n :
  comp_ok h m s n0 -> 0 <= n < 2000000000 ->
  time_with_nanosecond (time_of_comp h m s n0) n = Some (time_of_comp h m s n).
Proof.
  intros H Hn'. unfold time_with_nanosecond. rewrite (time_as_cr_comp _ _ _ _ H).
  replace (2000000000 <=? n) with false by lia.
  unfold time_from_cr, time_of_comp, NANOS_PER_SEC. cbn [fst snd]. reflexivity.
Qed.

(* the statements in terms of the getters, for every time of day *)
Lemma time_with_hour_getters t h :
  time_in_day t -> 0 <= h < 24 ->
  exists t', time_with_hour t h = Some t' /\ time_in_day t'
    /\ time_hour t' = Ok h /\ time_minute t' = time_minute t /\ time_second t' = time_second t
    /\ time_nanosecond t' = time_nanosecond t.
Proof.
  intros Ht Hh. destruct (time_decompose t Ht) as [Hc E]. cbv zeta in Hc, E.
  set (h0 := t / 1000000000 / 3600) in *. set (m := t / 1000000000 / 60 mod 60) in *.
  set (s := t / 1000000000 mod 60) in *. set (n := t mod 1000000000) in *.
  assert (Hc' : comp_ok h m s n) by (destruct Hc as [(? & ? & ?) ?]; repeat split; lia).
  exists (time_of_comp h m s n). rewrite <- E at 1.
  split; [exact (time_with_hour_comp _ _ _ _ _ Hc Hh)|].
  split; [exact (comp_in_day _ _ _ _ Hc')|].
  destruct (time_getters_comp _ _ _ _ Hc') as (G1 & G2 & G3 & G4).
  destruct (time_getters_comp _ _ _ _ Hc) as (F1 & F2 & F3 & F4). rewrite E in F1, F2, F3, F4.
  rewrite G1, G2, G3, G4, F2, F3, F4. auto.
Qed.

Lemma time_with_minute_getters t m :
  time_in_day t -> 0 <= m < 60 ->
  exists t', time_with_minute t m = Some t' /\ time_in_day t'
    /\ time_hour t' = time_hour t /\ time_minute t' = Ok m /\ time_second t' = time_second t
    /\ time_nanosecond t' = time_nanosecond t.
Proof.
  intros Ht Hm. destruct (time_decompose t Ht) as [Hc E]. cbv zeta in Hc, E.
  set (h := t / 1000000000 / 3600) in *. set (m0 := t / 1000000000 / 60 mod 60) in *.
  set (s := t / 1000000000 mod 60) in *. set (n := t mod 1000000000) in *.
  assert (Hc' : comp_ok h m s n) by (destruct Hc as [(? & ? & ?) ?]; repeat split; lia).
  exists (time_of_comp h m s n). rewrite <- E at 1.
  split; [exact (time_with_minute_comp _ _ _ _ _ Hc Hm)|].
  split; [exact (comp_in_day _ _ _ _ Hc')|].
  destruct (time_getters_comp _ _ _ _ Hc') as (G1 & G2 & G3 & G4).
  destruct (time_getters_comp _ _ _ _ Hc) as (F1 & F2 & F3 & F4). rewrite E in F1, F2, F3, F4.
  rewrite G1, G2, G3, G4, F1, F3, F4. auto.
Qed.

Lemma time_with_second_getters t s :
  time_in_day t -> 0 <= s < 60 ->
  exists t', time_with_second t s = Some t' /\ time_in_day t'
    /\ time_hour t' = time_hour t /\ time_minute t' = time_minute t /\ time_second t' = Ok s
    /\ time_nanosecond t' = time_nanosecond t.
Proof.
  intros Ht Hs. destruct (time_decompose t Ht) as [Hc E]. cbv zeta in Hc, E.
  set (h := t / 1000000000 / 3600) in *. set (m := t / 1000000000 / 60 mod 60) in *.
  set (s0 := t / 1000000000 mod 60) in *. set (n := t mod 1000000000) in *.
  assert (Hc' : comp_ok h m s n) by (destruct Hc as [(? & ? & ?) ?]; repeat split; lia).
  exists (time_of_comp h m s n). rewrite <- E at 1.
  split; [exact (time_with_second_comp _ _ _ _ _ Hc Hs)|].
  split; [exact (comp_in_day _ _ _ _ Hc')|].
  destruct (time_getters_comp _ _ _ _ Hc') as (G1 & G2 & G3 & G4).
  destruct (time_getters_comp _ _ _ _ Hc) as (F1 & F2 & F3 & F4). rewrite E in F1, F2, F3, F4.
  rewrite G1, G2, G3, G4, F1, F2, F4. auto.
Qed.

Lemma time_with_nanosecond_getters t n :
  time_in_day t -> 0 <= n < 1000000000 ->
  exists t', time_with_nanosecond t n = Some t' /\ time_in_day t'
    /\ time_hour t' = time_hour t /\ time_minute t' = time_minute t /\ time_second t' = time_second t
    /\ time_nanosecond t' = Ok n.
Proof.
  intros Ht Hn. destruct (time_decompose t Ht) as [Hc E]. cbv zeta in Hc, E.
  set (h := t / 1000000000 / 3600) in *. set (m := t / 1000000000 / 60 mod 60) in *.
  set (s := t / 1000000000 mod 60) in *. set (n0 := t mod 1000000000) in *.
  assert (Hc' : comp_ok h m s n) by (destruct Hc as [(? & ? & ?) ?]; repeat split; lia).
  exists (time_of_comp h m s n). rewrite <- E at 1.
  split; [apply (time_with_nanosecond_comp _ _ _ _ _ Hc); lia|].
  split; [exact (comp_in_day _ _ _ _ Hc')|].
  destruct (time_getters_comp _ _ _ _ Hc') as (G1 & G2 & G3 & G4).
  destruct (time_getters_comp _ _ _ _ Hc) as (F1 & F2 & F3 & F4). rewrite E in F1, F2, F3, F4.
  rewrite G1, G2, G3, G4, F1, F2, F3. auto.
Qed.

(* closed forms on the raw value *)
Lemma time_with_values t :
  time_in_day t ->
  (forall h, 0 <= h < 24 -> time_with_hour t h = Some (t + (h - t / 3600000000000) * 3600000000000))
  /\ (forall m, 0 <= m < 60 -> time_with_minute t m = Some (t + (m - t / 60000000000 mod 60) * 60000000000))
  /\ (forall s, 0 <= s < 60 -> time_with_second t s = Some (t + (s - t / 1000000000 mod 60) * 1000000000))
  /\ (forall n, 0 <= n < 2000000000 -> time_with_nanosecond t n = Some (t + (n - t mod 1000000000))).
Proof.
  intros Ht. destruct (time_decompose t Ht) as [Hc E]. cbv zeta in Hc, E.
  assert (D1 : t / 3600000000000 = t / 1000000000 / 3600) by (rewrite Z.div_div by lia; reflexivity).
  assert (D2 : t / 60000000000 = t / 1000000000 / 60) by (rewrite Z.div_div by lia; reflexivity).
  rewrite D1, D2.
  set (h0 := t / 1000000000 / 3600) in *. set (m0 := t / 1000000000 / 60 mod 60) in *.
  set (s0 := t / 1000000000 mod 60) in *. set (n0 := t mod 1000000000) in *.
  repeat split; intros v Hv; rewrite <- E at 1.
  - rewrite (time_with_hour_comp _ _ _ _ _ Hc Hv). f_equal. rewrite <- E at 1. unfold time_of_comp. lia.
  - rewrite (time_with_minute_comp _ _ _ _ _ Hc Hv). f_equal. rewrite <- E at 1. unfold time_of_comp. lia.
  - rewrite (time_with_second_comp _ _ _ _ _ Hc Hv). f_equal. rewrite <- E at 1. unfold time_of_comp. lia.
  - rewrite (time_with_nanosecond_comp _ _ _ _ _ Hc Hv). f_equal. rewrite <- E at 1. unfold time_of_comp. lia.
Qed.

(* out-of-range components: None, whatever the time *)
Lemma time_with_out_of_range t :
  (forall h, 24 <= h -> time_with_hour t h = None)
  /\ (forall m, 60 <= m -> time_with_minute t m = None)
  /\ (forall s, 60 <= s -> time_with_second t s = None)
  /\ (forall n, 2000000000 <= n -> time_with_nanosecond t n = None).
Proof.
  unfold time_with_hour, time_with_minute, time_with_second, time_with_nanosecond.
  repeat split; intros v Hv; destruct (time_as_cr t) as [[secs frac]|]; try reflexivity.
  - replace (24 <=? v) with true by lia. reflexivity.
  - replace (60 <=? v) with true by lia. reflexivity.
  - replace (60 <=? v) with true by lia. reflexivity.
  - replace (2000000000 <=? v) with true by lia. reflexivity.
Qed.

(* a Time that is not a time of day for chrono (as_cr = None; in particular NaT): None, whatever the component *)
Lemma time_with_invalid t v :
  time_as_cr t = None ->
  time_with_hour t v = None /\ time_with_minute t v = None /\ time_with_second t v = None
  /\ time_with_nanosecond t v = None.
Proof.
  intros H. unfold time_with_hour, time_with_minute, time_with_second, time_with_nanosecond.
  rewrite H. auto.
Qed.

Lemma time_as_cr_nat : time_as_cr NaT = None.
Proof. vm_compute. reflexivity. Qed.

Lemma time_as_cr_negative t : - 4294880896000000000 <= t < 0 -> time_as_cr t = None.
Proof.
  intros Ht. unfold time_as_cr, NANOS_PER_SEC, naive_time_opt, wrap_u32.
  pose proof (Z.quot_rem' t 1000000000) as E.
  pose proof (Z.rem_bound_pos_neg t 1000000000 ltac:(lia) ltac:(lia)) as B.
  destruct (Z.eq_dec (Z.quot t 1000000000) 0) as [Q0|Q0].
  - (* -10^9 < t < 0: the sub-second part wraps around to >= 2*10^9 *)
    rewrite Q0 in *. assert (R : Z.rem t 1000000000 = t) by lia. rewrite R.
    replace (0 mod 4294967296) with 0 by reflexivity.
    assert (W : t mod 4294967296 = t + 4294967296).
    { symmetry. apply (Z.mod_unique _ _ (-1)); lia. }
    rewrite W. replace (2000000000 <=? t + 4294967296) with true by lia.
    rewrite orb_true_r. reflexivity.
  - (* whole seconds wrap around to >= 86400 (they re-enter the day only below -(2^32 - 86400) s) *)
    assert (Hq : - 4294880896 <= Z.quot t 1000000000 < 0) by lia.
    assert (W : Z.quot t 1000000000 mod 4294967296 = Z.quot t 1000000000 + 4294967296).
    { symmetry. apply (Z.mod_unique _ _ (-1)); lia. }
    rewrite W.
    replace (86400 <=? Z.quot t 1000000000 + 4294967296) with true by lia. reflexivity.
Qed.

(* the four with_* from midnight build exactly from_hms_nano, in every order of application we need: h, m, s, n *)
Definition obind {A B} (o : option A) (f : A -> option B) : option B :=
  match o with Some a => f a | None => None end.

Lemma time_with_compose h m s n :
  comp_ok h m s n ->
  obind (time_with_hour 0 h) (fun t1 => obind (time_with_minute t1 m) (fun t2 =>
    obind (time_with_second t2 s) (fun t3 => time_with_nanosecond t3 n))) = Some (time_of_comp h m s n)
  /\ time_from_hms_nano h m s n = Ok (time_of_comp h m s n).
Proof.
  intros H. split; [|exact (time_from_hms_nano_comp _ _ _ _ H)].
  destruct H as [(Hh & Hm & Hs) Hn].
  assert (C0 : comp_ok 0 0 0 0) by (repeat split; lia).
  change 0 with (time_of_comp 0 0 0 0) at 1.
  rewrite (time_with_hour_comp 0 0 0 0 h C0 Hh). cbn [obind].
  assert (C1 : comp_ok h 0 0 0) by (repeat split; lia).
  rewrite (time_with_minute_comp h 0 0 0 m C1 Hm). cbn [obind].
  assert (C2 : comp_ok h m 0 0) by (repeat split; lia).
  rewrite (time_with_second_comp h m 0 0 s C2 Hs). cbn [obind].
  assert (C3 : comp_ok h m s 0) by (repeat split; lia).
  apply (time_with_nanosecond_comp h m s 0 n C3). lia.
Qed.

(* any order: the four setters commute on a time of day *)
Lemma time_with_commute t h m :
  time_in_day t -> 0 <= h < 24 -> 0 <= m < 60 ->
  obind (time_with_hour t h) (fun t1 => time_with_minute t1 m)
  = obind (time_with_minute t m) (fun t1 => time_with_hour t1 h).
Proof.
  intros Ht Hh Hm. destruct (time_decompose t Ht) as [Hc E]. cbv zeta in Hc, E.
  set (h0 := t / 1000000000 / 3600) in *. set (m0 := t / 1000000000 / 60 mod 60) in *.
  set (s0 := t / 1000000000 mod 60) in *. set (n0 := t mod 1000000000) in *.
  rewrite <- E.
  rewrite (time_with_hour_comp _ _ _ _ _ Hc Hh), (time_with_minute_comp _ _ _ _ _ Hc Hm). cbn [obind].
  assert (C1 : comp_ok h m0 s0 n0) by (destruct Hc as [(? & ? & ?) ?]; repeat split; lia).
  assert (C2 : comp_ok h0 m s0 n0) by (destruct Hc as [(? & ? & ?) ?]; repeat split; lia).
  rewrite (time_with_minute_comp _ _ _ _ _ C1 Hm), (time_with_hour_comp _ _ _ _ _ C2 Hh). reflexivity.
Qed.

(* setting a component to the value it has is the identity; setting twice = setting the last *)
Lemma time_with_idempotent t h h' :
  time_in_day t -> 0 <= h < 24 -> 0 <= h' < 24 ->
  obind (time_with_hour t h) (fun t1 => time_with_hour t1 h') = time_with_hour t h'
  /\ time_with_hour t (t / 3600000000000) = Some t.
Proof.
  intros Ht Hh Hh'. destruct (time_decompose t Ht) as [Hc E]. cbv zeta in Hc, E.
  assert (D1 : t / 3600000000000 = t / 1000000000 / 3600) by (rewrite Z.div_div by lia; reflexivity).
  rewrite D1.
  set (h0 := t / 1000000000 / 3600) in *. set (m0 := t / 1000000000 / 60 mod 60) in *.
  set (s0 := t / 1000000000 mod 60) in *. set (n0 := t mod 1000000000) in *.
  split.
  - rewrite <- E. rewrite (time_with_hour_comp _ _ _ _ _ Hc Hh). cbn [obind].
    assert (C1 : comp_ok h m0 s0 n0) by (destruct Hc as [(? & ? & ?) ?]; repeat split; lia).
    rewrite (time_with_hour_comp _ _ _ _ _ C1 Hh'), (time_with_hour_comp _ _ _ _ _ Hc Hh'). reflexivity.
  - rewrite <- E at 1. rewrite (time_with_hour_comp h0 m0 s0 n0 h0 Hc); [rewrite E; reflexivity|].
    destruct Hc as [(? & ? & ?) ?]. lia.
Qed.

(* the leap-second range spills: with_nanosecond t n for 10^9 <= n < 2*10^9 is Some, but the value reports
   n - 10^9 in the NEXT second; at 23:59:59 it is not a time of day any more (getters panic) *)
Lemma time_with_nanosecond_leap t n :
  time_in_day t -> 1000000000 <= n < 2000000000 ->
  exists t', time_with_nanosecond t n = Some t' /\ t' = t / 1000000000 * 1000000000 + n
    /\ (t < 86399000000000 -> time_nanosecond t' = Ok (n - 1000000000)
                              /\ time_as_cr t' = Some (t / 1000000000 + 1, n - 1000000000))
    /\ (86399000000000 <= t -> time_as_cr t' = None /\ time_hour t' = Panic UnwrapNone).
Proof.
  intros Ht Hn. destruct (time_with_values t Ht) as (_ & _ & _ & V).
  exists (t / 1000000000 * 1000000000 + n).
  split; [rewrite V by lia; f_equal; pose proof (Z.div_mod t 1000000000 ltac:(lia)); lia|].
  split; [reflexivity|]. unfold time_in_day in Ht.
  pose proof (Z.div_mod t 1000000000 ltac:(lia)) as E0.
  pose proof (Z.mod_pos_bound t 1000000000 ltac:(lia)) as B0.
  set (S0 := t / 1000000000) in *.
  split.
  - intros Hlt. assert (HS : 0 <= S0 < 86399) by lia.
    assert (A : time_as_cr (S0 * 1000000000 + n) = Some (S0 + 1, n - 1000000000)).
    { rewrite time_as_cr_in_range by lia. f_equal. f_equal.
      - symmetry. apply (Z.div_unique _ _ (S0 + 1) (n - 1000000000)); lia.
      - symmetry. apply (Z.mod_unique _ _ (S0 + 1)); lia. }
    split; [|exact A]. unfold time_nanosecond. rewrite A. reflexivity.
  - intros Hge. assert (HS : S0 = 86399) by lia.
    assert (A : time_as_cr (S0 * 1000000000 + n) = None).
    { rewrite HS. unfold time_as_cr, NANOS_PER_SEC, naive_time_opt, wrap_u32.
      rewrite Z.quot_div_nonneg, Z.rem_mod_nonneg by lia.
      assert (Q : (86399 * 1000000000 + n) / 1000000000 = 86400).
      { symmetry. apply (Z.div_unique _ _ 86400 (n - 1000000000)); lia. }
      rewrite Q. reflexivity. }
    split; [exact A|]. unfold time_hour. rewrite A. reflexivity.
Qed.

(* ------------------------------------------------------------------ components <-> Time is a bijection *)
Lemma time_of_comp_injective h m s n h' m' s' n' :
  comp_ok h m s n -> comp_ok h' m' s' n' -> time_of_comp h m s n = time_of_comp h' m' s' n' ->
  h = h' /\ m = m' /\ s = s' /\ n = n'.
Proof.
  intros H H' E.
  destruct (time_getters_comp _ _ _ _ H) as (G1 & G2 & G3 & G4).
  destruct (time_getters_comp _ _ _ _ H') as (F1 & F2 & F3 & F4).
  rewrite E in G1, G2, G3, G4. rewrite G1 in F1. rewrite G2 in F2. rewrite G3 in F3. rewrite G4 in F4.
  injection F1 as ->. injection F2 as ->. injection F3 as ->. injection F4 as ->. auto.
Qed.

Lemma time_ctor_injective h m s n h' m' s' n' t :
  comp_ok h m s n -> comp_ok h' m' s' n' ->
  time_from_hms_nano h m s n = Ok t -> time_from_hms_nano h' m' s' n' = Ok t ->
  h = h' /\ m = m' /\ s = s' /\ n = n'.
Proof.
  intros H H' E E'. rewrite (time_from_hms_nano_comp _ _ _ _ H) in E.
  rewrite (time_from_hms_nano_comp _ _ _ _ H') in E'. injection E as <-. injection E' as E'.
  apply time_of_comp_injective; auto.
Qed.

Lemma time_ctor_onto t :
  time_in_day t ->
  exists h m s n, comp_ok h m s n /\ time_from_hms_nano h m s n = Ok t
    /\ time_hour t = Ok h /\ time_minute t = Ok m /\ time_second t = Ok s /\ time_nanosecond t = Ok n.
Proof.
  intros Ht. destruct (time_decompose t Ht) as [Hc E]. cbv zeta in Hc, E.
  eexists _, _, _, _. split; [exact Hc|].
  split; [rewrite (time_from_hms_nano_comp _ _ _ _ Hc), E; reflexivity|].
  pose proof (time_getters_comp _ _ _ _ Hc) as G. rewrite E in G. exact G.
Qed.

Lemma time_ctor_range h m s n t :
  comp_ok h m s n -> time_from_hms_nano h m s n = Ok t -> time_in_day t.
Proof.
  intros H E. rewrite (time_from_hms_nano_comp _ _ _ _ H) in E. injection E as <-.
  exact (comp_in_day _ _ _ _ H).
Qed.

(* getters then constructor = identity on times of day; constructor then getters = identity on components *)
Lemma time_getters_ctor_inverse t h m s n :
  time_in_day t -> time_hour t = Ok h -> time_minute t = Ok m -> time_second t = Ok s ->
  time_nanosecond t = Ok n -> comp_ok h m s n /\ time_from_hms_nano h m s n = Ok t.
Proof.
  intros Ht G1 G2 G3 G4. destruct (time_ctor_onto t Ht) as (h' & m' & s' & n' & Hc & E & F1 & F2 & F3 & F4).
  rewrite G1 in F1. rewrite G2 in F2. rewrite G3 in F3. rewrite G4 in F4.
  injection F1 as <-. injection F2 as <-. injection F3 as <-. injection F4 as <-. auto.
Qed.

(* ------------------------------------------------------------------ TimeDelta / TimeDelta *)
Lemma wrap_i32_id z : in_i32 z = true -> wrap_i32 z = z.
Proof.
  intros H. apply in_i32_iff in H. unfold i32_min, i32_max in H. unfold wrap_i32.
  rewrite Z.mod_small by lia. lia.
Qed.

Lemma wrap_i32_range z : in_i32 (wrap_i32 z) = true.
Proof.
  apply in_i32_iff. unfold wrap_i32, i32_min, i32_max.
  pose proof (Z.mod_pos_bound (z + 2147483648) 4294967296 ltac:(lia)). lia.
Qed.

Lemma td_div_nat a b : td_is_nat a = true \/ td_is_nat b = true -> td_div a b = Panic OtherPanic.
Proof. intros [H|H]; unfold td_div; rewrite H; [|rewrite andb_false_r]; reflexivity. Qed.

Lemma td_div_unrepresentable a b :
  td_is_nat a = false -> td_is_nat b = false -> in_i64 (td_ns a) = false \/ in_i64 (td_ns b) = false ->
  td_div a b = Panic UnwrapNone.
Proof.
  intros Ha Hb H. unfold td_div, num_ns. rewrite Ha, Hb. cbn [negb andb].
  destruct (in_i64 (td_ns a)) eqn:Ea; cbn [unwrap bind]; [|reflexivity].
  destruct H as [H|H]; [discriminate|]. rewrite H. reflexivity.
Qed.

(* a zero fixed part in the divisor: "attempt to divide by zero", ALSO when both operands have months
   (the nanosecond quotient is computed first): a pure-month duration can never be a divisor *)
Lemma td_div_zero a b :
  td_is_nat a = false -> td_is_nat b = false -> in_i64 (td_ns a) = true -> td_ns b = 0 ->
  td_div a b = Panic OtherPanic.
Proof.
  intros Ha Hb Hn Hz. unfold td_div, num_ns, i64_quot. rewrite Ha, Hb, Hn, Hz. reflexivity.
Qed.

Lemma td_div_min_neg1 a b :
  td_is_nat a = false -> td_is_nat b = false -> td_ns a = i64_min -> td_ns b = -1 ->
  td_div a b = Panic Overflow.
Proof.
  intros Ha Hb Hn Hz. unfold td_div, num_ns, i64_quot. rewrite Ha, Hb, Hn, Hz. reflexivity.
Qed.

(* the value: at least one operand month-free -> the truncating quotient of the nanoseconds, cast `as i32` *)
Lemma td_div_value a b :
  td_is_nat a = false -> td_is_nat b = false -> in_i64 (td_ns a) = true -> in_i64 (td_ns b) = true ->
  td_ns b <> 0 -> ~ (td_ns a = i64_min /\ td_ns b = -1) -> td_months a = 0 \/ td_months b = 0 ->
  td_div a b = Ok (wrap_i32 (Z.quot (td_ns a) (td_ns b))).
Proof.
  intros Ha Hb Hna Hnb Hz Hmin Hm. unfold td_div, num_ns, i64_quot. rewrite Ha, Hb, Hna, Hnb.
  cbn [negb andb unwrap bind].
  replace (td_ns b =? 0) with false by lia.
  replace ((td_ns a =? i64_min) && (td_ns b =? -1)) with false by lia.
  cbn [bind]. replace ((td_months a =? 0) || (td_months b =? 0)) with true by lia. reflexivity.
Qed.

(* both operands with months: the month quotient, provided the nanosecond quotient (as i32) agrees; else a panic *)
Lemma td_div_months a b :
  td_is_nat a = false -> td_is_nat b = false -> in_i64 (td_ns a) = true -> in_i64 (td_ns b) = true ->
  td_ns b <> 0 -> ~ (td_ns a = i64_min /\ td_ns b = -1) -> td_months a <> 0 -> td_months b <> 0 ->
  td_div a b = if Z.quot (td_months a) (td_months b) =? wrap_i32 (Z.quot (td_ns a) (td_ns b))
               then Ok (Z.quot (td_months a) (td_months b)) else Panic OtherPanic.
Proof.
  intros Ha Hb Hna Hnb Hz Hmin Hma Hmb. unfold td_div, num_ns, i64_quot. rewrite Ha, Hb, Hna, Hnb.
  cbn [negb andb unwrap bind].
  replace (td_ns b =? 0) with false by lia.
  replace ((td_ns a =? i64_min) && (td_ns b =? -1)) with false by lia.
  cbn [bind]. replace ((td_months a =? 0) || (td_months b =? 0)) with false by lia. reflexivity.
Qed.

(* division with remainder, truncating toward zero: a = q * b + r, |r| < |b|, r has the sign of a *)
Lemma td_div_trunc a b q :
  td_is_nat a = false -> td_is_nat b = false -> in_i64 (td_ns a) = true -> in_i64 (td_ns b) = true ->
  td_ns b <> 0 -> td_months a = 0 \/ td_months b = 0 ->
  in_i32 (Z.quot (td_ns a) (td_ns b)) = true ->
  td_div a b = Ok q ->
  exists r, td_ns a = q * td_ns b + r /\ Z.abs r < Z.abs (td_ns b) /\ 0 <= r * td_ns a.
Proof.
  intros Ha Hb Hna Hnb Hz Hm Hq H.
  assert (Hmin : ~ (td_ns a = i64_min /\ td_ns b = -1)).
  { intros [E1 E2]. rewrite E1, E2 in Hq. vm_compute in Hq. discriminate. }
  rewrite (td_div_value a b Ha Hb Hna Hnb Hz Hmin Hm), (wrap_i32_id _ Hq) in H. injection H as <-.
  exists (Z.rem (td_ns a) (td_ns b)).
  split; [rewrite Z.mul_comm; apply Z.quot_rem'|].
  split; [apply Z.rem_bound_abs; exact Hz|].
  apply Z.rem_sign_mul. exact Hz.
Qed.

Lemma td_mul_inv_full a k r :
  td_is_nat a = false -> td_mul a k = Ok r ->
  r = mktd (td_months a * k) (td_ns a * k) /\ in_i32 (td_months a * k) = true
  /\ i64_min < td_ns a * k / 1000000000 < i64_max.
Proof.
  intros Ha. unfold td_mul. rewrite Ha. cbn [negb].
  destruct (chk32 _) as [m|] eqn:Em; [|discriminate]. cbn [bind].
  unfold dur_mul. destruct (_ || _) eqn:Eo; [discriminate|]. cbn [bind]. intros [= <-].
  apply chk32_inv in Em. destruct Em as [-> Hm]. repeat split; try assumption; lia.
Qed.

Lemma td_mul_intro a k :
  td_is_nat a = false -> in_i32 (td_months a * k) = true ->
  i64_min < td_ns a * k / 1000000000 < i64_max ->
  td_mul a k = Ok (mktd (td_months a * k) (td_ns a * k)).
Proof.
  intros Ha Hm Hn. unfold td_mul, chk32, dur_mul. rewrite Ha, Hm. cbn [negb bind].
  replace ((td_ns a * k / 1000000000 <=? i64_min) || (i64_max <=? td_ns a * k / 1000000000)) with false by lia.
  reflexivity.
Qed.

(* (k * d) / d = k: for EVERY non-NaT d with a non-zero fixed part (with or without months) and every i32 k
   such that k * d exists, is not read as NaT, and has a fixed part that fits i64 nanoseconds *)
Lemma td_div_mul_cancel d k kd :
  td_is_nat d = false -> td_ns d <> 0 -> in_i64 (td_ns d) = true -> in_i32 k = true ->
  td_mul d k = Ok kd -> td_is_nat kd = false -> in_i64 (td_ns kd) = true ->
  td_div kd d = Ok k.
Proof.
  intros Hd Hz Hnd Hk Hmul Hkd Hnk.
  destruct (td_mul_inv_full _ _ _ Hd Hmul) as (E & Hm & _). subst kd. cbn [td_months td_ns] in *.
  assert (Q : Z.quot (td_ns d * k) (td_ns d) = k).
  { rewrite Z.mul_comm. apply Z.quot_mul. exact Hz. }
  assert (Hmin : ~ (td_ns d * k = i64_min /\ td_ns d = -1)).
  { intros [E1 E2]. rewrite E2 in E1. apply in_i32_iff in Hk. unfold i64_min, i32_min, i32_max in *. lia. }
  destruct (Z.eq_dec (td_months d) 0) as [M0|M0].
  - rewrite td_div_value; try assumption; cbn [td_months td_ns]; try tauto.
    rewrite Q, (wrap_i32_id _ Hk). reflexivity.
  - destruct (Z.eq_dec k 0) as [K0|K0].
    + subst k. rewrite td_div_value; try assumption; cbn [td_months td_ns]; try tauto.
      * rewrite Q. reflexivity.
      * left. lia.
    + rewrite td_div_months; try assumption; cbn [td_months td_ns]; try tauto; [|nia].
      rewrite Q, (wrap_i32_id _ Hk).
      assert (Qm : Z.quot (td_months d * k) (td_months d) = k).
      { rewrite Z.mul_comm. apply Z.quot_mul. exact M0. }
      rewrite Qm, Z.eqb_refl. reflexivity.
Qed.

(* d / d = 1 *)
Lemma td_div_self d :
  td_is_nat d = false -> td_ns d <> 0 -> in_i64 (td_ns d) = true -> td_div d d = Ok 1.
Proof.
  intros Hd Hz Hn.
  assert (Hmin : ~ (td_ns d = i64_min /\ td_ns d = -1)) by (unfold i64_min; lia).
  destruct (Z.eq_dec (td_months d) 0) as [M0|M0].
  - rewrite td_div_value; try assumption; try tauto. rewrite Z.quot_same by exact Hz. reflexivity.
  - rewrite td_div_months; try assumption. rewrite !Z.quot_same by assumption. reflexivity.
Qed.

(* month-free operands: the quotient is 0 exactly when |a| < |b|; sign rule *)
Lemma td_div_small a b :
  td_is_nat a = false -> td_is_nat b = false -> in_i64 (td_ns a) = true -> in_i64 (td_ns b) = true ->
  td_months a = 0 \/ td_months b = 0 -> Z.abs (td_ns a) < Z.abs (td_ns b) -> td_div a b = Ok 0.
Proof.
  intros Ha Hb Hna Hnb Hm Hlt.
  assert (Hz : td_ns b <> 0) by lia.
  assert (Hmin : ~ (td_ns a = i64_min /\ td_ns b = -1)) by (unfold i64_min; lia).
  rewrite td_div_value; try assumption.
  rewrite (proj2 (Z.quot_small_iff _ _ Hz) Hlt). reflexivity.
Qed.

(* ------------------------------------------------------------------ scaling laws, full set *)
Lemma td_mul_0 a : td_is_nat a = false -> td_mul a 0 = Ok td_zero.
Proof.
  intros Ha. rewrite td_mul_intro; try assumption; rewrite ?Z.mul_0_r; try reflexivity.
  unfold i64_min, i64_max. cbn. lia.
Qed.

Lemma td_mul_m1 a : td_valid a -> td_mul a (-1) = Ok (td_neg a).
Proof.
  intros Hv. pose proof (td_valid_not_nat _ Hv) as Hn. destruct Hv as [Hm Hd].
  rewrite td_mul_intro; try assumption.
  - unfold td_neg. rewrite Hn. cbn [negb]. f_equal. f_equal; lia.
  - apply in_i32_iff. unfold i32_min, i32_max in *. lia.
  - unfold DUR_MAX_NS, i64_min, i64_max in *. Z.div_mod_to_equations. lia.
Qed.

(* NaT * k = NaT for EVERY k, 0 included (it must not become the zero duration) *)
Lemma td_mul_nat_every_k a k :
  td_is_nat a = true -> td_mul a k = Ok td_nat /\ td_is_nat td_nat = true /\ td_nat <> td_zero.
Proof.
  intros Ha. split; [exact (td_mul_nat a k Ha)|]. split; [reflexivity|discriminate].
Qed.

(* (j + k) * d = j * d + k * d: when the right-hand side exists, the left-hand side does, and they are equal *)
Lemma td_mul_plus d j k dj dk r :
  td_is_nat d = false -> td_mul d j = Ok dj -> td_mul d k = Ok dk ->
  td_is_nat dj = false -> td_is_nat dk = false -> td_add dj dk = Ok r ->
  td_mul d (j + k) = Ok r.
Proof.
  intros Hd Hj Hk Ndj Ndk Hr.
  destruct (td_mul_inv_full _ _ _ Hd Hj) as (-> & _ & _).
  destruct (td_mul_inv_full _ _ _ Hd Hk) as (-> & _ & _).
  destruct (td_add_inv _ _ _ Ndj Ndk Hr) as (-> & Hm & Hn). cbn [td_months td_ns] in *.
  rewrite td_mul_intro; try assumption.
  - f_equal. f_equal; ring.
  - replace (td_months d * (j + k)) with (td_months d * j + td_months d * k) by ring. exact Hm.
  - replace (td_ns d * (j + k)) with (td_ns d * j + td_ns d * k) by ring.
    unfold dur_in_range, DUR_MAX_NS, i64_min, i64_max in *.
    set (X := td_ns d * j + td_ns d * k) in *. Z.div_mod_to_equations. lia.
Qed.

(* (j * k) * d = j * (k * d) *)
Lemma td_mul_mul d j k dk r :
  td_is_nat d = false -> td_mul d k = Ok dk -> td_is_nat dk = false -> td_mul dk j = Ok r ->
  td_mul d (j * k) = Ok r.
Proof.
  intros Hd Hk Ndk Hr.
  destruct (td_mul_inv_full _ _ _ Hd Hk) as (-> & _ & _).
  destruct (td_mul_inv_full _ _ _ Ndk Hr) as (-> & Hm & Hn). cbn [td_months td_ns] in *.
  rewrite td_mul_intro; try assumption.
  - f_equal. f_equal; ring.
  - replace (td_months d * (j * k)) with (td_months d * k * j) by ring. exact Hm.
  - replace (td_ns d * (j * k)) with (td_ns d * k * j) by ring. exact Hn.
Qed.

(* k * (a + b) = k * a + k * b: when the right-hand side exists (and a + b does), so does the left-hand side *)
Lemma td_mul_add_distr_full a b k ab ak bk r :
  td_is_nat a = false -> td_is_nat b = false -> td_add a b = Ok ab -> td_is_nat ab = false ->
  td_mul a k = Ok ak -> td_mul b k = Ok bk -> td_is_nat ak = false -> td_is_nat bk = false ->
  td_add ak bk = Ok r -> td_mul ab k = Ok r.
Proof.
  intros Ha Hb Hab Nab Hak Hbk Nak Nbk Hr.
  destruct (td_add_inv _ _ _ Ha Hb Hab) as (-> & _ & _).
  destruct (td_mul_inv_full _ _ _ Ha Hak) as (-> & _ & _).
  destruct (td_mul_inv_full _ _ _ Hb Hbk) as (-> & _ & _).
  destruct (td_add_inv _ _ _ Nak Nbk Hr) as (-> & Hm & Hn). cbn [td_months td_ns] in *.
  rewrite td_mul_intro; try assumption; cbn [td_months td_ns].
  - f_equal. f_equal; ring.
  - replace ((td_months a + td_months b) * k) with (td_months a * k + td_months b * k) by ring. exact Hm.
  - replace ((td_ns a + td_ns b) * k) with (td_ns a * k + td_ns b * k) by ring.
    unfold dur_in_range, DUR_MAX_NS, i64_min, i64_max in *.
    set (X := td_ns a * k + td_ns b * k) in *. Z.div_mod_to_equations. lia.
Qed.

(* the converse directions fail: the left-hand side can exist where the right-hand side panics *)
Lemma td_scale_converse_fails :
  (exists a b k ab, td_add a b = Ok ab /\ td_mul ab k = Ok td_zero /\ td_mul a k = Panic Overflow)
  /\ (exists d j k, td_mul d (j + k) = Ok td_zero /\ td_mul d j = Panic Overflow)
  /\ (exists d j k, td_mul d (j * k) = Ok td_zero /\ td_mul d k = Panic Overflow).
Proof.
  split; [exists (mktd i32_max 0), (mktd (- i32_max) 0), 2, td_zero; vm_compute; auto|].
  split; [exists (mktd i32_max 0), 2, (-2); vm_compute; auto|].
  exists (mktd i32_max 0), 0, 2; vm_compute; auto.
Qed.

(* a sufficient, purely arithmetic condition under which EVERY operation of the scaling laws succeeds:
   months and nanoseconds bounded so that the products stay inside i32 / chrono's Duration range *)
Definition td_bounded (B : Z) (d : tdelta) : Prop := Z.abs (td_months d) <= B /\ Z.abs (td_ns d) <= B * 1000000000.

Lemma td_mul_bounded B d k :
  0 <= B <= 1000000000 -> td_bounded B d -> Z.abs k * B <= 1000000000 ->
  td_mul d k = Ok (mktd (td_months d * k) (td_ns d * k)) /\ td_valid (mktd (td_months d * k) (td_ns d * k)).
Proof.
  intros HB [Hm Hn] Hk.
  assert (Hd : td_is_nat d = false) by (unfold td_is_nat, i32_min; lia).
  pose proof (Z.abs_nonneg k) as K0.
  assert (M : Z.abs (td_months d * k) <= 1000000000).
  { rewrite Z.abs_mul. pose proof (Z.mul_le_mono_nonneg_r _ _ (Z.abs k) K0 Hm). lia. }
  assert (N : Z.abs (td_ns d * k) <= 1000000000 * 1000000000).
  { rewrite Z.abs_mul. pose proof (Z.mul_le_mono_nonneg_r _ _ (Z.abs k) K0 Hn). lia. }
  split.
  - apply td_mul_intro; [exact Hd| |].
    + apply in_i32_iff. unfold i32_min, i32_max. lia.
    + unfold i64_min, i64_max. set (X := td_ns d * k) in *. Z.div_mod_to_equations. lia.
  - unfold td_valid, i32_min, i32_max, DUR_MAX_NS, i64_max. cbn [td_months td_ns]. lia.
Qed.

(* ------------------------------------------------------------------ PartialOrd for TimeDelta *)
Lemma td_cmp_nat_l a b : td_is_nat a = true -> td_partial_cmp a b = None.
Proof. intros H. unfold td_partial_cmp. rewrite H. reflexivity. Qed.

(* only the left operand is tested: every valid duration compares Greater than NaT (NaT has the least month count) *)
Lemma td_cmp_nat_r a b : td_valid a -> td_is_nat b = true -> td_partial_cmp a b = Some Gt.
Proof.
  intros Hv Hb. pose proof (td_valid_not_nat _ Hv) as Ha. destruct Hv as [Hm _].
  unfold td_partial_cmp, td_is_nat in *. rewrite Ha. cbn [negb].
  replace (td_months a =? td_months b) with false by lia. cbn [negb]. f_equal.
  apply Z.compare_gt_iff. lia.
Qed.

(* lexicographic on (months, ns) *)
Lemma td_cmp_lex a b :
  td_is_nat a = false ->
  td_partial_cmp a b = Some (match td_months a ?= td_months b with Eq => td_ns a ?= td_ns b | c => c end).
Proof.
  intros Ha. unfold td_partial_cmp. rewrite Ha. cbn [negb].
  destruct (Z.eqb_spec (td_months a) (td_months b)) as [E|E]; cbn [negb].
  - rewrite E, Z.compare_refl. reflexivity.
  - destruct (td_months a ?= td_months b) eqn:C; try reflexivity. apply Z.compare_eq in C. contradiction.
Qed.

Lemma td_cmp_monthfree a b :
  td_months a = 0 -> td_months b = 0 -> td_partial_cmp a b = Some (td_ns a ?= td_ns b).
Proof.
  intros Ha Hb. rewrite td_cmp_lex by (apply td_months0_not_nat; exact Ha). rewrite Ha, Hb. reflexivity.
Qed.

Lemma td_cmp_refl a : td_is_nat a = false -> td_partial_cmp a a = Some Eq.
Proof. intros Ha. rewrite td_cmp_lex by exact Ha. rewrite !Z.compare_refl. reflexivity. Qed.

Lemma td_cmp_eq a b : td_is_nat a = false -> td_partial_cmp a b = Some Eq -> a = b.
Proof.
  intros Ha. rewrite td_cmp_lex by exact Ha. intros [= H].
  destruct (td_months a ?= td_months b) eqn:C; try discriminate.
  apply Z.compare_eq in C. apply Z.compare_eq in H. destruct a as [am an], b as [bm bn]; cbn [td_months td_ns] in *. congruence.
Qed.

Lemma td_cmp_antisym a b :
  td_is_nat a = false -> td_is_nat b = false ->
  td_partial_cmp b a = option_map CompOpp (td_partial_cmp a b).
Proof.
  intros Ha Hb. rewrite !td_cmp_lex by assumption. cbn [option_map]. f_equal.
  rewrite (Z.compare_antisym (td_months a)), (Z.compare_antisym (td_ns a)).
  destruct (td_months a ?= td_months b); reflexivity.
Qed.

Lemma td_cmp_trans a b c :
  td_is_nat a = false -> td_is_nat b = false ->
  td_partial_cmp a b = Some Lt -> td_partial_cmp b c = Some Lt -> td_partial_cmp a c = Some Lt.
Proof.
  intros Ha Hb. rewrite !td_cmp_lex by assumption. intros H1 H2. f_equal.
  destruct (Z.compare_spec (td_months a) (td_months b)) as [A1|A1|A1]; try discriminate;
  destruct (Z.compare_spec (td_months b) (td_months c)) as [A2|A2|A2]; try discriminate;
  destruct (Z.compare_spec (td_months a) (td_months c)) as [A3|A3|A3]; try lia; try reflexivity.
  destruct (Z.compare_spec (td_ns a) (td_ns b)) as [B1|B1|B1]; try discriminate;
  destruct (Z.compare_spec (td_ns b) (td_ns c)) as [B2|B2|B2]; try discriminate;
  destruct (Z.compare_spec (td_ns a) (td_ns c)) as [B3|B3|B3]; try lia; reflexivity.
Qed.

(* the order is compatible with the group: translation invariant, reversed by negation *)
Lemma td_cmp_add_mono a b c ac bc :
  td_is_nat a = false -> td_is_nat b = false -> td_is_nat c = false ->
  td_add a c = Ok ac -> td_add b c = Ok bc -> td_is_nat ac = false ->
  td_partial_cmp ac bc = td_partial_cmp a b.
Proof.
  intros Ha Hb Hc Hac Hbc Nac.
  destruct (td_add_inv _ _ _ Ha Hc Hac) as (-> & _ & _).
  destruct (td_add_inv _ _ _ Hb Hc Hbc) as (-> & _ & _).
  rewrite !td_cmp_lex by assumption. cbn [td_months td_ns].
  rewrite !(Z.add_comm _ (td_months c)), !(Z.add_comm _ (td_ns c)), !Z.add_compare_mono_l. reflexivity.
Qed.

Lemma td_cmp_neg a b :
  td_valid a -> td_valid b -> td_partial_cmp (td_neg a) (td_neg b) = td_partial_cmp b a.
Proof.
  intros Va Vb. pose proof (td_valid_not_nat _ Va) as Ha. pose proof (td_valid_not_nat _ Vb) as Hb.
  pose proof (td_valid_not_nat _ (td_neg_valid _ Va)) as Ha'.
  rewrite !td_cmp_lex by assumption. unfold td_neg. rewrite Ha, Hb. cbn [negb td_months td_ns].
  rewrite !Z.compare_opp. reflexivity.
Qed.
