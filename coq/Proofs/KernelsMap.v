(* Proofs/KernelsMap.v — C10: index safety of `vrank` (checked, traced text of Model/KernelsMap.v), of
   `vpartition` / `varg_partition` and of `vquantile` / `vmedian`, at EVERY carrier (no law of the numeric class
   and no order law is used: `sort_unstable_by` enters only through "the result is a permutation of its input",
   which holds for the insertion-sort model whatever the comparator does).  Stdlib only, axiom-free.          *)
From Coq Require Import ZArith Lia List Permutation.
From Tevec Require Import Base.Prelude Base.Num Model.Driver Proofs.Driver Model.Cmp Model.Kernels Proofs.Kernels Proofs.Kernels2
     Model.SortCmp Proofs.SortCmp Model.Rank Model.Partition Model.Quantile Model.KernelsMap Model.NullView Proofs.TransQuantile.
Import ListNotations.

(* a traced computation whose accesses all satisfy P, that does not panic, and whose result satisfies Q *)
Definition tr_ok {X} (P : acc -> Prop) (m : tr X) (Q : X -> Prop) : Prop :=
  Forall P (fst m) /\ exists x, snd m = Ok x /\ Q x.

Lemma tr_ok_bind {X Y} (P : acc -> Prop) (m : tr X) (f : X -> tr Y) (Q : X -> Prop) (R : Y -> Prop) :
  tr_ok P m Q -> (forall x, Q x -> tr_ok P (f x) R) -> tr_ok P (tbind m f) R.
Proof.
  intros [H1 (x & Hx & HQ)] Hf. destruct (Hf x HQ) as [H2 (y & Hy & HR)]. unfold tr_ok, tbind.
  rewrite Hx. cbn [fst snd]. split; [apply Forall_app; split; assumption|]. exists y. split; assumption.
Qed.
Lemma tr_ok_ret {X} (P : acc -> Prop) (x : X) (Q : X -> Prop) : Q x -> tr_ok P (tret x) Q.
Proof. intros H. split; [constructor|]. exists x. split; [reflexivity|exact H]. Qed.
Lemma tr_ok_pure {X} (P : acc -> Prop) (r : res X) x (Q : X -> Prop) : r = Ok x -> Q x -> tr_ok P (tpure r) Q.
Proof. intros -> H. split; [constructor|]. exists x. split; [reflexivity|exact H]. Qed.
Lemma tr_ok_get {T} (P : acc -> Prop) view (xs : list T) i v (Q : T -> Prop) :
  P (AUget view i) -> nth_error xs i = Some v -> Q v -> tr_ok P (tget view xs i) Q.
Proof.
  intros HP Hv HQ. split; [repeat constructor; exact HP|]. exists v. split; [|exact HQ].
  cbn. unfold uget. rewrite Hv. reflexivity.
Qed.
Lemma tr_ok_set {X} (P : acc -> Prop) slot (v : X) out (Q : list (option X) -> Prop) :
  P (AUset slot) -> Q (uset slot v out) -> tr_ok P (tset slot v out) Q.
Proof. intros HP HQ. split; [repeat constructor; exact HP|]. eexists. split; [reflexivity|exact HQ]. Qed.

Lemma usub_ok a b : b <= a -> usub a b = Ok (a - b).
Proof. intros H. unfold usub. replace (b <=? a) with true by (symmetry; apply Nat.leb_le; exact H). reflexivity. Qed.

(* ---- vrank ------------------------------------------------------------------------------------------- *)
Section RankChk.
  Context {A : Type} {NA : Num A} {T : Type} {DT : IsNone T A} {DX : IsNoneX T A}.
  Variables (pct : bool) (nn : nat) (xs : list T) (p : list nat).
  Let len := length xs.
  Hypothesis Hplen : length p = len.
  Hypothesis Hpr : forall i, In i p -> i < len.
  (* view 0 = the series, every other view = idx_sorted: both have length len *)
  Let P := acc_ok len len.

  Lemma p_nth t : t < len -> nth_error p t = Some (nth t p 0) /\ nth t p 0 < len.
  Proof. intros H. split; [apply nth_error_nth'; lia|apply Hpr, nth_In; lia]. Qed.
  Lemma xs_at t : t < len -> exists v, nth_error xs (nth t p 0) = Some v.
  Proof. intros H. apply Proofs.Driver.nth_error_Some_lt. apply (p_nth t H). Qed.

  Lemma get_p t : t < len -> tr_ok P (tget 2 p t) (fun s => s = nth t p 0).
  Proof. intros H. destruct (p_nth t H) as [H1 H2]. eapply tr_ok_get; [cbn; exact H|exact H1|reflexivity]. Qed.

  Lemma write_run_tr_spec i (v : A) : i < len -> forall js out, (forall j, In j js -> j <= i) ->
    tr_ok P (write_run_tr p i v js out)
          (fun o => o = fold_left (fun o j => uset (nth (i - j) p 0) v o) js out).
  Proof.
    intros Hi. induction js as [|j r IH]; intros out Hjs; cbn [write_run_tr fold_left].
    - apply tr_ok_ret. reflexivity.
    - apply tr_ok_bind with (Q := fun d => d = i - j).
      { apply tr_ok_pure with (x := i - j); [apply usub_ok, Hjs; left; reflexivity|reflexivity]. }
      intros d ->. apply tr_ok_bind with (Q := fun s => s = nth (i - j) p 0); [apply get_p; lia|].
      intros s ->. apply tr_ok_bind with (Q := fun o => o = uset (nth (i - j) p 0) v out).
      { apply tr_ok_set; [cbn; apply (p_nth (i - j)); lia|reflexivity]. }
      intros o ->. apply IH. intros j' Hj'. apply Hjs. right. exact Hj'.
  Qed.

  Lemma fill_tr_spec (v : A) : forall is out, (forall i, In i is -> i < len) ->
    tr_ok P (fill_tr p v is out) (fun o => o = fold_left (fun o i => uset (nth i p 0) v o) is out).
  Proof.
    induction is as [|i r IH]; intros out His; cbn [fill_tr fold_left].
    - apply tr_ok_ret. reflexivity.
    - apply tr_ok_bind with (Q := fun s => s = nth i p 0); [apply get_p, His; left; reflexivity|].
      intros s ->. apply tr_ok_bind with (Q := fun o => o = uset (nth i p 0) v out).
      { apply tr_ok_set; [cbn; apply (p_nth i), His; left; reflexivity|reflexivity]. }
      intros o ->. apply IH. intros i' Hi'. apply His. right. exact Hi'.
  Qed.

  (* the invariant behind `i - j`: repeat_num <= i + 1 *)
  Lemma rank_loop_tr_spec : forall m i0 st, i0 + m < len -> r_rep st <= S i0 ->
    tr_ok P (rank_loop_tr pct nn xs p (seq i0 m) st)
          (fun r => r = Rank.rank_loop pct nn xs p (seq i0 m) st).
  Proof.
    induction m as [|m IH]; intros i0 st Hm Hrep; cbn [seq rank_loop_tr Rank.rank_loop].
    - apply tr_ok_ret. reflexivity.
    - destruct (xs_at i0 ltac:(lia)) as [v Hv]. destruct (xs_at (S i0) ltac:(lia)) as [v1 Hv1].
      apply tr_ok_bind with (Q := fun s => s = nth i0 p 0); [apply get_p; lia|]. intros idx ->.
      apply tr_ok_bind with (Q := fun s => s = nth (S i0) p 0); [apply get_p; lia|]. intros idx1 ->.
      apply tr_ok_bind with (Q := fun x => x = v).
      { eapply tr_ok_get; [cbn; apply (p_nth i0); lia|exact Hv|reflexivity]. }
      intros ? ->. apply tr_ok_bind with (Q := fun x => x = v1).
      { eapply tr_ok_get; [cbn; apply (p_nth (S i0)); lia|exact Hv1|reflexivity]. }
      intros ? ->. cbv zeta. unfold get_is_none, get_eq. rewrite Hv, Hv1.
      destruct (is_none v1).
      + eapply tr_ok_bind; [apply write_run_tr_spec; [lia|]|].
        * intros j Hj. apply in_seq in Hj. lia.
        * intros o ->. apply tr_ok_ret. reflexivity.
      + destruct (teqb v v1); [apply IH; cbn [r_rep]; lia|].
        destruct (r_rep st =? 1) eqn:E1.
        * eapply tr_ok_bind; [apply tr_ok_set with (Q := fun o => o = uset (nth i0 p 0) (rk_one pct nn (r_cur st)) (r_out st));
                               [cbn; apply (p_nth i0); lia|reflexivity]|].
          intros o ->. apply IH; cbn [r_rep]; lia.
        * eapply tr_ok_bind; [apply write_run_tr_spec; [lia|]|].
          -- intros j Hj. apply in_seq in Hj. lia.
          -- intros o ->. apply IH; cbn [r_rep]; lia.
  Qed.

  Lemma rank_loop_rep_bound : forall is st i0, r_rep st <= S i0 ->
    snd (Rank.rank_loop pct nn xs p is st) = None ->
    r_rep (fst (Rank.rank_loop pct nn xs p is st)) <= S i0 + length is.
  Proof.
    induction is as [|i rest IH]; intros st i0 Hrep Hn; cbn [Rank.rank_loop length] in *; [cbn [fst]; lia|].
    cbv zeta in *. destruct (get_is_none xs (nth (S i) p 0)); [discriminate|].
    destruct (get_eq xs (nth i p 0) (nth (S i) p 0)).
    - eapply Nat.le_trans; [apply (IH _ (S i0)); [cbn [r_rep]; lia|exact Hn]|lia].
    - destruct (r_rep st =? 1).
      + eapply Nat.le_trans; [apply (IH _ (S i0)); [cbn [r_rep]; lia|exact Hn]|lia].
      + eapply Nat.le_trans; [apply (IH _ (S i0)); [cbn [r_rep]; lia|exact Hn]|lia].
  Qed.

  Lemma rank_finish_tr_spec r : (snd r = None -> r_rep (fst r) <= len) ->
    tr_ok P (rank_finish_tr pct nn p len r) (fun o => o = rank_finish pct nn p len r).
  Proof.
    destruct r as [st [idx|]]; cbn [fst snd rank_finish_tr rank_finish]; intros Hr.
    - apply fill_tr_spec. intros i Hi. apply in_seq in Hi. lia.
    - specialize (Hr eq_refl). cbv zeta.
      apply tr_ok_bind with (Q := fun a => a = len - r_rep st).
      { eapply tr_ok_pure; [apply usub_ok; exact Hr|reflexivity]. }
      intros a ->. apply fill_tr_spec. intros i Hi. apply in_seq in Hi. lia.
  Qed.
End RankChk.

Section RankEntry.
  Context {A : Type} {NA : Num A} {T : Type} {DT : IsNone T A} {DX : IsNoneX T A}.

  (* every series (empty, single element, all null included), both flags: the checked text performs only
     in-bounds accesses of the series, of idx_sorted and of the output, never panics (no out-of-range read, no
     usize underflow in `i - j` / `len - repeat_num`), and returns the value of the model *)
  Theorem vrank_tr_spec pct rev (xs : list T) :
    tr_ok (acc_ok (length xs) (length xs)) (vrank_tr pct rev xs) (fun o => o = vrank pct rev xs).
  Proof.
    unfold vrank_tr, vrank. cbv zeta.
    destruct (length xs =? 0) eqn:E0; [apply tr_ok_ret; reflexivity|].
    destruct (length xs =? 1) eqn:E1.
    - apply Nat.eqb_eq in E1. destruct xs as [|x [|? ?]]; try discriminate.
      eapply tr_ok_bind; [eapply tr_ok_get with (v := x) (Q := fun y => y = x); [cbn; lia|reflexivity|reflexivity]|].
      intros ? ->. apply tr_ok_ret. reflexivity.
    - apply Nat.eqb_neq in E0. apply Nat.eqb_neq in E1.
      set (p := isort (cmp_idx (cmp_dir rev) xs) (seq 0 (length xs))).
      assert (Hplen : length p = length xs) by (unfold p; rewrite isort_length, seq_length; reflexivity).
      assert (Hpr : forall i, In i p -> i < length xs).
      { intros i Hi. unfold p in Hi. apply (Permutation_in _ (isort_perm _ _)) in Hi. apply in_seq in Hi. lia. }
      destruct (xs_at xs p Hplen Hpr 0 ltac:(lia)) as [v0 Hv0].
      eapply tr_ok_bind; [apply (get_p xs p Hplen Hpr 0); lia|]. intros ? ->.
      eapply tr_ok_bind; [eapply tr_ok_get with (Q := fun y => y = v0);
                          [cbn; apply (p_nth xs p Hplen Hpr 0); lia|exact Hv0|reflexivity]|].
      intros ? ->. unfold get_is_none. rewrite Hv0. destruct (is_none v0); [apply tr_ok_ret; reflexivity|].
      eapply tr_ok_bind; [apply (rank_loop_tr_spec pct (count_valid xs) xs p Hplen Hpr); cbn [r_rep]; lia|].
      intros r ->. apply (rank_finish_tr_spec pct (count_valid xs) xs p Hplen Hpr). intros Hn.
      eapply Nat.le_trans; [apply rank_loop_rep_bound with (i0 := 0); first [exact Hn|cbn [r_rep]; lia]|].
      rewrite seq_length. lia.
  Qed.

  Corollary vrank_tr_in_bounds pct rev (xs : list T) :
    Forall (acc_ok (length xs) (length xs)) (fst (vrank_tr pct rev xs)).
  Proof. exact (proj1 (vrank_tr_spec pct rev xs)). Qed.
  Corollary vrank_tr_value pct rev (xs : list T) : snd (vrank_tr pct rev xs) = Ok (vrank pct rev xs).
  Proof. destruct (vrank_tr_spec pct rev xs) as [_ (o & H & ->)]. exact H. Qed.
End RankEntry.

(* ---- vpartition / varg_partition --------------------------------------------------------------------- *)
Lemma In_firstn_ {X} (l : list X) m x : In x (firstn m l) -> In x l.
Proof.
  revert l; induction m as [|m IH]; intros l H; [destruct H|]. destruct l as [|a l]; [destruct H|].
  cbn in H. destruct H as [->|H]; [left; reflexivity|right; apply IH; exact H].
Qed.
Lemma pad_take_length {X} k1 (pad : X) l : length (pad_take k1 pad l) = k1.
Proof. unfold pad_take. rewrite firstn_length, app_length, repeat_length. lia. Qed.
Lemma In_pad_take {X} k1 (pad : X) l x : In x (pad_take k1 pad l) -> x = pad \/ In x l.
Proof.
  unfold pad_take. intros H. apply In_firstn_ in H. apply in_app_or in H.
  destruct H as [H|H]; [right; exact H|left; apply repeat_spec in H; exact H].
Qed.

Section PartChk.
  Context {A : Type} {NA : Num A} {T : Type} {DT : IsNone T A} {DX : IsNoneX T A}.

  Lemma count_valid_le (xs : list T) : count_valid xs <= length xs.
  Proof. apply count_valid_le_length. Qed.

  (* the index handed to `select_nth_unstable_by(kth)` is below the length of the vector it selects in *)
  Theorem partition_select_in_range kth (xs : list T) :
    (count_valid xs <=? kth + 1) = false ->
    kth < length (seq 0 (length xs)) /\ kth < length xs /\ kth + 1 <= length xs.
  Proof. intros H. apply Nat.leb_gt in H. pose proof (count_valid_le xs). rewrite seq_length. lia. Qed.

  (* `to_trust(kth + 1)`: the iterator yields exactly kth + 1 items, whatever the parameters *)
  Theorem varg_partition_length kth sort rev (xs : list T) : length (varg_partition kth sort rev xs) = kth + 1.
  Proof.
    unfold varg_partition. destruct (count_valid xs <=? kth + 1) eqn:E.
    - destruct (negb sort); apply pad_take_length.
    - destruct (partition_select_in_range kth xs E) as (_ & _ & H).
      rewrite map_length. destruct sort; rewrite ?isort_length, firstn_length, isort_length, seq_length; lia.
  Qed.

  (* every entry is the padding -1 or a valid index of the series *)
  Theorem varg_partition_in_range kth sort rev (xs : list T) :
    Forall (fun z => z = (-1)%Z \/ (0 <= z < Z.of_nat (length xs))%Z) (varg_partition kth sort rev xs).
  Proof.
    assert (Hseq : forall i, In i (isort (cmp_idx (cmp_dir rev) xs) (seq 0 (length xs))) -> i < length xs).
    { intros i Hi. apply (Permutation_in _ (isort_perm _ _)) in Hi. apply in_seq in Hi. lia. }
    apply Forall_forall. intros z Hz. unfold varg_partition in Hz.
    destruct (count_valid xs <=? kth + 1).
    - destruct (negb sort); apply In_pad_take in Hz; (destruct Hz as [->|Hz]; [left; reflexivity|right]).
      + unfold valid_idx in Hz. apply in_flat_map in Hz. destruct Hz as ([i v] & Hin & Hz).
        apply in_combine_l in Hin. apply in_seq in Hin. cbn [fst snd] in Hz.
        destruct (not_none v); [|destruct Hz]. destruct Hz as [<-|[]]. lia.
      + apply in_map_iff in Hz. destruct Hz as (i & <- & Hi). apply In_firstn_ in Hi. apply Hseq in Hi. lia.
    - right. apply in_map_iff in Hz. destruct Hz as (i & <- & Hi).
      assert (Hi' : In i (firstn (kth + 1) (isort (cmp_idx (cmp_dir rev) xs) (seq 0 (length xs))))).
      { destruct sort; [apply (Permutation_in _ (isort_perm _ _)) in Hi|]; exact Hi. }
      apply In_firstn_ in Hi'. apply Hseq in Hi'. lia.
  Qed.

  Theorem vpartition_length kth sort rev (xs : list T) l :
    vpartition kth sort rev xs = Ok l -> length l = kth + 1.
  Proof.
    unfold vpartition. pose proof (count_valid_le xs) as Hc.
    destruct ((count_valid xs =? kth + 1) && negb sort) eqn:E1.
    { apply andb_prop in E1. destruct E1 as [E1 _]. apply Nat.eqb_eq in E1. intros H. injection H as <-. exact E1. }
    destruct (count_valid xs <=? kth + 1) eqn:E2.
    - destruct (negb sort).
      + destruct tnone as [pad|pk]; cbn [bind]; [|discriminate]. intros H. injection H as <-. apply pad_take_length.
      + destruct (length (isort (cmp_dir rev) xs) <? kth + 1) eqn:E3.
        * destruct tnone as [pad|pk]; cbn [bind]; [|discriminate]. intros H. injection H as <-. apply pad_take_length.
        * apply Nat.ltb_ge in E3. intros H. injection H as <-. rewrite firstn_length. lia.
    - apply Nat.leb_gt in E2. intros H. injection H as <-.
      destruct sort; rewrite ?isort_length, firstn_length, isort_length; lia.
  Qed.

  (* the only panic is `T::none()` of a non-nullable element type, and only when padding is needed *)
  Theorem vpartition_ok kth sort rev (xs : list T) pad :
    tnone = Ok pad -> exists l, vpartition kth sort rev xs = Ok l /\ length l = kth + 1.
  Proof.
    intros Hp. assert (H : exists l, vpartition kth sort rev xs = Ok l).
    { unfold vpartition. rewrite Hp. cbn [bind].
      destruct ((count_valid xs =? kth + 1) && negb sort); [eauto|].
      destruct (count_valid xs <=? kth + 1); [|eauto]. destruct (negb sort); [eauto|].
      destruct (length (isort (cmp_dir rev) xs) <? kth + 1); eauto. }
    destruct H as [l Hl]. exists l. split; [exact Hl|apply (vpartition_length _ _ _ _ _ Hl)].
  Qed.
  Theorem vpartition_no_padding_ok kth sort rev (xs : list T) :
    kth + 1 <= count_valid xs -> exists l, vpartition kth sort rev xs = Ok l /\ length l = kth + 1.
  Proof.
    intros Hk. pose proof (count_valid_le xs) as Hc.
    assert (H : exists l, vpartition kth sort rev xs = Ok l).
    { unfold vpartition. destruct ((count_valid xs =? kth + 1) && negb sort) eqn:E1; [eauto|].
      destruct (count_valid xs <=? kth + 1) eqn:E2; [|eauto]. apply Nat.leb_le in E2.
      assert (En : count_valid xs = kth + 1) by lia.
      destruct sort; cbn [negb] in *.
      - replace (length (isort (cmp_dir rev) xs) <? kth + 1) with false; [eauto|].
        symmetry. apply Nat.ltb_ge. rewrite isort_length. lia.
      - rewrite En, Nat.eqb_refl in E1. discriminate. }
    destruct H as [l Hl]. exists l. split; [exact Hl|apply (vpartition_length _ _ _ _ _ Hl)].
  Qed.
End PartChk.

(* ---- vquantile / vmedian ------------------------------------------------------------------------------- *)
Section QuantChk.
  Context {A : Type} {NA : Num A} {NF : NumFloor A} {T : Type} {DT : IsNone T A}.

  (* the parameter range the code rejects: q outside [0, 1] (NaN included) is `Err`, never a panic *)
  Theorem vquantile_bad_q_any (q : A) m (xs : list T) :
    nleb nzero q && nleb q none = false -> vquantile q m xs = Ok None.
  Proof. intros H. unfold vquantile. rewrite H. reflexivity. Qed.

  (* `select_nth_unstable_by(j)` panics exactly when j is not below the length *)
  Lemma select_nth_ok cmp j (slc : list T) : j < length slc -> exists hm, select_nth cmp j slc = Ok hm.
  Proof.
    intros H. unfold select_nth. destruct (nth_error (isort cmp slc) j) eqn:E; [eauto|].
    apply nth_error_None in E. rewrite isort_length in E. lia.
  Qed.
  Lemma select_nth_panics cmp j (slc : list T) : length slc <= j -> select_nth cmp j slc = Panic OtherPanic.
  Proof.
    intros H. unfold select_nth. destruct (nth_error (isort cmp slc) j) eqn:E; [|reflexivity].
    assert (j < length (isort cmp slc)) by (apply nth_error_Some; congruence). rewrite isort_length in *. lia.
  Qed.

  (* under the carrier's index law ceil((n-1) q) <= n-1 the selected index is below the number of valid
     elements, hence below the length: no call panics, for every series (empty, all null, one element) *)
  Theorem vquantile_index_in_range : QIdxLaw (A := A) -> forall (q : A) (xs : list T),
    nleb nzero q && nleb q none = true -> 2 <= count_valid xs -> qsel_index q (count_valid xs) < length xs.
  Proof.
    intros HL q xs Hq Hn. pose proof (count_valid_le_length xs). specialize (HL q (count_valid xs) Hq Hn). lia.
  Qed.

  Theorem vquantile_never_panics : QIdxLaw (A := A) -> forall (q : A) m (xs : list T),
    exists r, vquantile q m xs = Ok r /\ (r = None <-> nleb nzero q && nleb q none = false).
  Proof.
    intros HL q m xs. destruct (vquantile_ok_in_range q m xs) as [r Hr].
    { intros H1 H2. apply HL; assumption. }
    exists r. split; [exact Hr|]. unfold vquantile in Hr.
    destruct (nleb nzero q && nleb q none); cbn [negb] in Hr.
    - split; [|discriminate]. intros ->. exfalso.
      destruct (count_valid xs =? 0); [discriminate|]. destruct (count_valid xs =? 1).
      { destruct (vfirst xs); discriminate. }
      destruct (nleb q nhalf).
      + destruct (select_nth sort_cmp _ xs) as [[hd mm]|pk]; cbn [bind] in Hr; [|discriminate].
        destruct (negb _) in Hr; discriminate.
      + destruct (select_nth sort_cmp_rev _ xs) as [[hd mm]|pk]; cbn [bind] in Hr; [|discriminate].
        destruct (negb _) in Hr; discriminate.
    - injection Hr as <-. split; reflexivity.
  Qed.

  Theorem vmedian_never_panics : QIdxLaw (A := A) ->
    nleb nzero (nhalf (A := A)) && nleb (nhalf (A := A)) none = true ->
    forall xs : list T, exists v, vmedian xs = Ok v.
  Proof.
    intros HL Hh xs. destruct (vquantile_never_panics HL nhalf Linear xs) as (r & Hr & Hn).
    unfold vmedian. rewrite Hr. cbn [bind]. destruct r as [v|]; [eauto|].
    destruct Hn as [Hn _]. specialize (Hn eq_refl). rewrite Hh in Hn. discriminate.
  Qed.
End QuantChk.
