(* Proofs/Audit16.v — the clause-by-clause audit of property C16 (notes/C16.md, "Audit matrix"): what the audit
   found missing and closed.  Integer statements over Z about Model/Time.v + Model/TimeAccess.v, axiom-free.

   (A) the 4 x 4 unit pairs as ONE closed form (no `finer` hypothesis), the rejected inputs exactly (which panic, when),
       the unimplemented!() arm unreachable;
   (B) what must NOT change: a valid date-time never becomes NaT by a unit change; conversions are monotone;
       coarsening composes (ns -> us -> s = ns -> s); coarsen-then-refine is NOT the identity (x - x mod ratio) and can
       overflow next to i64::MIN;
   (C) refining agrees with the calendar library too (the existing theorem covers coarsening only) — and where it does
       not (target ns, product outside i64: the library route yields NaT, into_unit panics in a debug build);
   (D) as_cr = None exactly on NaT and outside chrono's date range; the six calendar fields reconstruct the instant;
   (E) the conversions the model did not name: Default, From<NaiveDateTime / Option<NaiveDateTime> / NaiveDate>,
       From<Duration / Option<Duration>>, Cast<i64 / Option<i64> / DateTime<T>>;
   (F) NaT operands where the result type has no NaT (TimeDelta / TimeDelta, duration_trunc by a NaT duration);
       the converse of absorption is FALSE (valid operands can produce NaT): witnesses.                                *)
From Coq Require Import ZArith List Bool Lia.
From Tevec Require Import Base.Prelude Spec.Calendar Model.Time Proofs.Time Proofs.Calendar Model.TimeAccess
  Proofs.TimeAccess Proofs.TimeCal Proofs.TimeCal2 Proofs.Time3.
Local Open Scope Z_scope.

Ltac zdm := Z.div_mod_to_equations; lia.

(* ------------------------------------------------------------------ (A) all 16 pairs, one closed form *)
Lemma unit_trichotomy u t :
  (u = t /\ finer u t = false /\ finer t u = false)
  \/ (u <> t /\ finer u t = true /\ finer t u = false)
  \/ (u <> t /\ finer u t = false /\ finer t u = true).
Proof.
  destruct u, t;
    first [ left; repeat split; solve [reflexivity]
          | right; left; repeat split; solve [reflexivity | discriminate]
          | right; right; repeat split; solve [reflexivity | discriminate] ].
Qed.

Lemma unit_eqb_eq u t : unit_eqb u t = true <-> u = t.
Proof. destruct u, t; split; intros H; try reflexivity; discriminate H. Qed.

Lemma finer_neq u t : finer u t = true -> unit_eqb u t = false.
Proof. destruct u, t; intros H; try reflexivity; discriminate H. Qed.

Lemma not_finer_coarser u t : unit_eqb u t = false -> finer u t = false -> finer t u = true.
Proof. destruct u, t; intros H1 H2; try reflexivity; discriminate. Qed.

(* the specification of a unit change, for every pair: identity / NaT / checked multiplication / floor division *)
Definition conv_spec (u t : tunit) (x : Z) : res Z :=
  if unit_eqb u t then Ok x
  else if is_nat x then Ok NaT
  else if finer u t then chk64 (x * ratio u t)
  else Ok (x / ratio t u).

Theorem into_unit_closed_form u t x : into_unit u t x = conv_spec u t x.
Proof. destruct u, t; reflexivity. Qed.

(* the rejected inputs, exactly: the only panic is the debug-build multiplication overflow of a refining conversion *)
Theorem into_unit_panics_iff u t x k :
  into_unit u t x = Panic k <->
  (k = Overflow /\ finer u t = true /\ x <> NaT /\ in_i64 (x * ratio u t) = false).
Proof.
  rewrite into_unit_closed_form. unfold conv_spec, chk64. split.
  - destruct (unit_eqb u t); [discriminate|]. destruct (is_nat x) eqn:En; [discriminate|].
    destruct (finer u t); [|discriminate]. destruct (in_i64 _) eqn:Ei; [discriminate|].
    intros [= <-]. apply is_nat_false in En. auto.
  - intros (-> & Hf & Hx & Hi). apply is_nat_false in Hx.
    rewrite (finer_neq _ _ Hf), Hx, Hf, Hi. reflexivity.
Qed.

(* convert.rs:47 `unimplemented!()` is dead code: no pair of the four units reaches it *)
Corollary into_unit_never_unimplemented u t x : into_unit u t x <> Panic OtherPanic.
Proof. intros H. apply into_unit_panics_iff in H. destruct H as [H _]. discriminate H. Qed.

(* ... and total otherwise *)
Corollary into_unit_returns_iff u t x :
  (exists y, into_unit u t x = Ok y) <->
  (finer u t = true -> x <> NaT -> in_i64 (x * ratio u t) = true).
Proof.
  split.
  - intros [y Hy] Hf Hx. destruct (in_i64 (x * ratio u t)) eqn:Ei; [reflexivity|].
    assert (Hp : into_unit u t x = Panic Overflow) by (apply into_unit_panics_iff; auto).
    rewrite Hp in Hy. discriminate Hy.
  - intros H. destruct (into_unit u t x) as [y|k] eqn:E; [eauto|].
    apply into_unit_panics_iff in E. destruct E as (_ & Hf & Hx & Hi). rewrite (H Hf Hx) in Hi. discriminate Hi.
Qed.

(* ------------------------------------------------------------------ (B) what must not change *)
Lemma ratio_cases u t : finer u t = true -> ratio u t = 1000 \/ ratio u t = 1000000 \/ ratio u t = 1000000000.
Proof. destruct u, t; intros H; try discriminate H; vm_compute; auto. Qed.

(* a valid date-time never becomes NaT by a unit change: NaT comes out only if NaT went in *)
Theorem into_unit_nat_iff u t x : in_i64 x = true -> (into_unit u t x = Ok NaT <-> x = NaT).
Proof.
  intros Hi. split; [|intros ->; apply into_unit_nat].
  apply in_i64_iff in Hi. rewrite into_unit_closed_form. unfold conv_spec.
  destruct (unit_eqb u t) eqn:Eu; [intros [= ->]; reflexivity|].
  destruct (is_nat x) eqn:En; [intros _; apply is_nat_true; exact En|].
  apply is_nat_false in En. intros H. exfalso. unfold NaT, i64_min, i64_max in *.
  destruct (finer u t) eqn:Ef.
  - apply chk64_inv in H. destruct H as [H _]. destruct (ratio_cases _ _ Ef) as [R|[R|R]]; rewrite R in H; lia.
  - pose proof (not_finer_coarser _ _ Eu Ef) as Ef'. injection H as H.
    destruct (ratio_cases _ _ Ef') as [R|[R|R]]; rewrite R in H; zdm.
Qed.

(* conversions preserve the order of valid date-times (strictly when refining) *)
Theorem into_unit_monotone u t x x' y y' :
  x <> NaT -> x' <> NaT -> x <= x' -> into_unit u t x = Ok y -> into_unit u t x' = Ok y' ->
  y <= y' /\ (finer u t = true -> x < x' -> y < y').
Proof.
  intros Hx Hx' Hle. rewrite !into_unit_closed_form. unfold conv_spec.
  apply is_nat_false in Hx. apply is_nat_false in Hx'. rewrite Hx, Hx'.
  destruct (unit_eqb u t) eqn:Eu.
  - intros [= <-] [= <-]. split; [exact Hle|]. intros Hf. rewrite (finer_neq _ _ Hf) in Eu. discriminate Eu.
  - destruct (finer u t) eqn:Ef.
    + intros H1 H2. apply chk64_inv in H1. apply chk64_inv in H2. destruct H1 as [-> _]. destruct H2 as [-> _].
      pose proof (ratio_pos _ _ Ef). split; [nia|intros _ Hlt; nia].
    + intros [= <-] [= <-]. split; [|discriminate].
      pose proof (ratio_pos _ _ (not_finer_coarser _ _ Eu Ef)). apply Z.div_le_mono; lia.
Qed.

(* coarsening composes: ns -> us -> s is ns -> s (floor of a floor), for every chain of three units, NaT included *)
Theorem into_unit_coarsen_compose u t s x :
  finer t u = true -> finer s t = true -> in_i64 x = true ->
  (do y <- into_unit u t x; into_unit t s y) = into_unit u s x.
Proof.
  intros H1 H2 Hi. apply in_i64_iff in Hi. unfold i64_min, i64_max in Hi.
  destruct (is_nat x) eqn:En.
  - apply is_nat_true in En. subst x. rewrite !into_unit_nat. cbn [bind]. apply into_unit_nat.
  - apply is_nat_false in En.
    assert (H3 : finer s u = true) by (destruct u, t, s; try discriminate H1; try discriminate H2; reflexivity).
    rewrite (into_unit_coarsen u t x H1 En), (into_unit_coarsen u s x H3 En). cbn [bind].
    assert (Hy : x / ratio t u <> NaT).
    { unfold NaT, i64_min in *. destruct (ratio_cases _ _ H1) as [R|[R|R]]; rewrite R; zdm. }
    rewrite (into_unit_coarsen t s _ H2 Hy). f_equal.
    pose proof (ratio_pos _ _ H1). pose proof (ratio_pos _ _ H2).
    rewrite Z.div_div by lia. f_equal.
    destruct u, t, s; try discriminate H1; try discriminate H2; reflexivity.
Qed.

(* coarsen and refine back is NOT the identity: it clears the sub-unit part (toward the past), and — next to i64::MIN —
   the multiplication overflows *)
Theorem into_unit_coarsen_refine u t x :
  finer t u = true -> x <> NaT -> in_i64 x = true ->
  into_unit u t x = Ok (x / ratio t u) /\
  into_unit t u (x / ratio t u) = chk64 (x - x mod ratio t u).
Proof.
  intros Hf Hx Hi. split; [apply into_unit_coarsen; assumption|].
  apply in_i64_iff in Hi. unfold i64_min, i64_max in Hi.
  assert (Hy : x / ratio t u <> NaT).
  { unfold NaT, i64_min in *. destruct (ratio_cases _ _ Hf) as [R|[R|R]]; rewrite R; zdm. }
  rewrite into_unit_closed_form. unfold conv_spec.
  apply is_nat_false in Hy. rewrite (finer_neq _ _ Hf), Hy, Hf. f_equal.
  pose proof (ratio_pos _ _ Hf). rewrite Z.mod_eq by lia. lia.
Qed.

Corollary into_unit_coarsen_refine_identity_iff u t x :
  finer t u = true -> x <> NaT -> in_i64 x = true ->
  (into_unit t u (x / ratio t u) = Ok x <-> x mod ratio t u = 0).
Proof.
  intros Hf Hx Hi. destruct (into_unit_coarsen_refine u t x Hf Hx Hi) as [_ ->]. split.
  - intros H. apply chk64_inv in H. lia.
  - intros ->. rewrite Z.sub_0_r. apply chk64_ok. exact Hi.
Qed.

(* ------------------------------------------------------------------ (C) refining, exactly as the calendar library *)
Lemma date_in_range_iff d : date_in_range d = true <-> cr_min_day <= d <= cr_max_day.
Proof. unfold date_in_range. rewrite andb_true_iff, !Z.leb_le. tauto. Qed.

Theorem into_unit_refine_chrono u t x c :
  finer u t = true -> as_cr u x = Some c ->
  from_cr t c = Ok (if in_i64 (x * ratio u t) then x * ratio u t else NaT)
  /\ (t <> Nano -> in_i64 (x * ratio u t) = true).
Proof.
  intros Hf Hc. pose proof (as_cr_some_inv _ _ _ Hc) as (Hx & Hs & Hn).
  assert (Hr : u = Nano \/ date_in_range (cr_secs c / SECS_PER_DAY) = true).
  { unfold as_cr in Hc. apply is_nat_false in Hx. rewrite Hx in Hc. unfold cr_from_timestamp in Hc.
    destruct u; [right|right|right|left; reflexivity];
      (match type of Hc with (if ?b then _ else _) = _ => destruct b eqn:E end; [|discriminate Hc];
       injection Hc as <-; cbn [cr_secs]; exact E). }
  destruct Hr as [->|Hr]; [destruct t; discriminate Hf|].
  rewrite Hs in Hr. apply date_in_range_iff in Hr. unfold cr_min_day, cr_max_day, SECS_PER_DAY in Hr.
  destruct u, t; try discriminate Hf; unfold from_cr, ratio; cbn [per_sec unit_ns] in *; rewrite Hs, Hn;
    change (1000 / 1) with 1000; change (1000000 / 1) with 1000000; change (1000000000 / 1) with 1000000000;
    change (1000000 / 1000) with 1000; change (1000000000 / 1000) with 1000000;
    change (1000000000 / 1000000) with 1000.
  - (* s -> ms *) assert (E : in_i64 (x * 1000) = true) by (apply in_i64_iff; unfold i64_min, i64_max; zdm).
    rewrite E. split; [f_equal; zdm|reflexivity].
  - (* s -> us *) assert (E : in_i64 (x * 1000000) = true) by (apply in_i64_iff; unfold i64_min, i64_max; zdm).
    rewrite E. split; [f_equal; zdm|reflexivity].
  - (* s -> ns *) split; [|intros H; contradiction H; reflexivity].
    replace (x / 1 * 1000000000 + x mod 1 * 1000000000) with (x * 1000000000) by zdm. reflexivity.
  - (* ms -> us *) assert (E : in_i64 (x * 1000) = true) by (apply in_i64_iff; unfold i64_min, i64_max; zdm).
    rewrite E. split; [f_equal; zdm|reflexivity].
  - (* ms -> ns *) split; [|intros H; contradiction H; reflexivity].
    replace (x / 1000 * 1000000000 + x mod 1000 * 1000000) with (x * 1000000) by zdm. reflexivity.
  - (* us -> ns *) split; [|intros H; contradiction H; reflexivity].
    replace (x / 1000000 * 1000000000 + x mod 1000000 * 1000) with (x * 1000) by zdm. reflexivity.
Qed.

(* ... so the library route and into_unit agree whenever into_unit returns *)
Corollary into_unit_refine_as_chrono u t x c :
  finer u t = true -> as_cr u x = Some c -> in_i64 (x * ratio u t) = true -> from_cr t c = into_unit u t x.
Proof.
  intros Hf Hc Hi. destruct (into_unit_refine_chrono _ _ _ _ Hf Hc) as [-> _]. rewrite Hi.
  symmetry. apply into_unit_refine_ok; [exact Hf| |exact Hi]. apply (as_cr_some_inv _ _ _ Hc).
Qed.

(* ... and where they differ: only toward nanoseconds, outside the i64 range — the library route gives NaT, into_unit
   the debug-build overflow panic (a release build wraps) *)
Corollary into_unit_refine_chrono_differs u t x c :
  finer u t = true -> as_cr u x = Some c -> in_i64 (x * ratio u t) = false ->
  t = Nano /\ from_cr t c = Ok NaT /\ into_unit u t x = Panic Overflow.
Proof.
  intros Hf Hc Hi. destruct (into_unit_refine_chrono _ _ _ _ Hf Hc) as [E Hn]. rewrite Hi in E. repeat split.
  - destruct t; try reflexivity; (rewrite Hn in Hi by discriminate; discriminate Hi).
  - exact E.
  - apply into_unit_panics_iff. repeat split; try assumption. apply (as_cr_some_inv _ _ _ Hc).
Qed.

(* every pair at once: through the calendar library = into_unit whenever into_unit returns *)
Theorem into_unit_as_chrono_all_pairs u t x c y :
  as_cr u x = Some c -> in_i64 x = true -> into_unit u t x = Ok y -> from_cr t c = Ok y.
Proof.
  intros Hc Hi Hy. destruct (unit_trichotomy u t) as [(-> & _)|[(_ & Hf & _)|(_ & _ & Hf)]].
  - rewrite into_unit_same in Hy. injection Hy as <-. apply as_cr_from_cr; assumption.
  - pose proof (as_cr_some_inv _ _ _ Hc) as (Hx & _).
    destruct (into_unit_refine _ _ _ _ Hf Hx Hy) as [-> Hr].
    rewrite (into_unit_refine_as_chrono _ _ _ _ Hf Hc Hr). apply into_unit_refine_ok; assumption.
  - rewrite (into_unit_coarsen_chrono _ _ _ _ Hf Hc). exact Hy.
Qed.

(* ------------------------------------------------------------------ (D) as_cr: where it is None; the fields *)
Theorem as_cr_none_iff u x :
  as_cr u x = None <-> (x = NaT \/ (u <> Nano /\ date_in_range (x / per_sec u / SECS_PER_DAY) = false)).
Proof.
  unfold as_cr. destruct (is_nat x) eqn:En.
  - apply is_nat_true in En. split; auto.
  - apply is_nat_false in En. unfold cr_from_timestamp. destruct u; cbn [per_sec]; rewrite ?Z.div_1_r.
    + destruct (date_in_range (x / SECS_PER_DAY)) eqn:E.
      * split; [discriminate|]. intros [H|[_ H]]; [contradiction|discriminate H].
      * split; [intros _; right; split; [discriminate|reflexivity]|reflexivity].
    + destruct (date_in_range (x / 1000 / SECS_PER_DAY)) eqn:E.
      * split; [discriminate|]. intros [H|[_ H]]; [contradiction|discriminate H].
      * split; [intros _; right; split; [discriminate|reflexivity]|reflexivity].
    + destruct (date_in_range (x / 1000000 / SECS_PER_DAY)) eqn:E.
      * split; [discriminate|]. intros [H|[_ H]]; [contradiction|discriminate H].
      * split; [intros _; right; split; [discriminate|reflexivity]|reflexivity].
    + split; [discriminate|]. intros [H|[H _]]; [contradiction|contradiction H; reflexivity].
Qed.

(* the default unit: every i64 except NaT has a calendar value *)
Corollary as_cr_nano_none_iff x : as_cr Nano x = None <-> x = NaT.
Proof.
  rewrite as_cr_none_iff. split; [|auto]. intros [H|[H _]]; [exact H|contradiction H; reflexivity].
Qed.

(* the six getters (datetime.rs 272-340) of a valid date-time are a valid civil date and a time of day, and they
   RECONSTRUCT the instant: nothing but the sub-second part is lost, before 1970 as well *)
Theorem fields_reconstruct u x c :
  as_cr u x = Some c ->
  exists y m d,
    dt_field cr_year u x = Some y /\ dt_field cr_month u x = Some m /\ dt_field cr_dom u x = Some d
    /\ dt_field cr_hour u x = Some (cr_hour c) /\ dt_field cr_minute u x = Some (cr_minute c)
    /\ dt_field cr_second u x = Some (cr_second c)
    /\ valid_civil (y, m, d)
    /\ 0 <= cr_hour c < 24 /\ 0 <= cr_minute c < 60 /\ 0 <= cr_second c < 60 /\ 0 <= cr_nanos c < 1000000000
    /\ ((days_of_civil (y, m, d) * 86400 + cr_hour c * 3600 + cr_minute c * 60 + cr_second c) * 1000000000
        + cr_nanos c = instant_ns u x).
Proof.
  intros Hc. destruct (cr_civil c) as [[y m] d] eqn:E. exists y, m, d.
  destruct (as_cr_day_civil _ _ _ _ _ _ Hc E) as [Hv Hd].
  destruct (as_cr_instant _ _ _ Hc) as (Hi & Hs & Hn).
  unfold dt_field. rewrite Hc. cbn [option_map]. unfold cr_year, cr_month, cr_dom. rewrite E.
  repeat (split; [reflexivity|]). split; [exact Hv|].
  rewrite Hi, Hd. unfold cr_hour, cr_minute, cr_second. set (sd := cr_sod c) in *. clearbody sd.
  set (D := days_of_civil (y, m, d)). clearbody D. repeat split; try lia; zdm.
Qed.

(* ------------------------------------------------------------------ (E) conversions the model did not name *)
Theorem defaults_and_none :
  dt_default = NaT /\ td_is_nat td_default = true
  /\ is_nat time_default = false                            (* derive(Default) on Time(i64): midnight, not NaT *)
  /\ (forall u, from_opt_naive u None = Ok NaT)
  /\ td_is_nat (td_from_opt_dur None) = true
  /\ from_opt_i64 None = NaT /\ time_from_opt_i64 None = NaT /\ td_is_nat (td_from_opt_i64 None) = true.
Proof. repeat split. Qed.

Theorem from_some_is_plain :
  (forall u c, from_opt_naive u (Some c) = from_cr u c) /\ (forall u c, from_naive u c = from_cr u c)
  /\ (forall ns, td_from_opt_dur (Some ns) = mktd 0 ns /\ td_is_nat (td_from_dur ns) = false)
  /\ (forall v, time_from_opt_i64 (Some v) = v) /\ (forall v, from_opt_i64 (Some v) = v).
Proof. repeat split. Qed.

(* From<NaiveDate>: midnight of that day in the unit; at ns resolution NaT outside the i64 window *)
Theorem from_naive_date_value u day :
  from_naive_date u day =
  Ok (if unit_eqb u Nano && negb (in_i64 (day * 86400 * per_sec u)) then NaT else day * 86400 * per_sec u).
Proof.
  unfold from_naive_date, from_cr, SECS_PER_DAY. cbn [cr_secs cr_nanos].
  destruct u; cbn [unit_eqb andb per_sec]; f_equal; try (change (0 / 1000000) with 0; lia);
    try (change (0 / 1000) with 0; lia); try lia.
  rewrite Z.add_0_r. destruct (in_i64 (day * 86400 * 1000000000)); reflexivity.
Qed.

Theorem from_naive_date_fields u day x :
  date_in_range day = true -> from_naive_date u day = Ok x -> x <> NaT ->
  as_cr u x = Some (mkcr (day * SECS_PER_DAY) 0)
  /\ (exists y m d, civil_of_days day = (y, m, d)
       /\ dt_field cr_year u x = Some y /\ dt_field cr_month u x = Some m /\ dt_field cr_dom u x = Some d)
  /\ dt_field cr_hour u x = Some 0 /\ dt_field cr_minute u x = Some 0 /\ dt_field cr_second u x = Some 0.
Proof.
  intros Hr Hx Hn.
  assert (Hc : as_cr u x = Some (mkcr (day * SECS_PER_DAY) 0)).
  { apply from_cr_as_cr; [unfold cr_wf; cbn [cr_nanos]; lia | cbn [cr_nanos]; apply Z.mod_0_l; pose proof (unit_ns_pos u); lia
                         | unfold cr_day; cbn [cr_secs]; unfold SECS_PER_DAY; rewrite Z.div_mul by lia; exact Hr
                         | exact Hx | exact Hn]. }
  split; [exact Hc|]. unfold dt_field. rewrite Hc. cbn [option_map].
  unfold cr_year, cr_month, cr_dom, cr_civil, cr_hour, cr_minute, cr_second, cr_sod, cr_day. cbn [cr_secs].
  unfold SECS_PER_DAY. rewrite Z.div_mul, Z.mod_mul by lia.
  destruct (civil_of_days day) as [[y m] d]. split; [exists y, m, d; repeat split|repeat split].
Qed.

Theorem cast_views :
  (forall x, dt_cast_i64 x = x) /\ (forall x, dt_cast_opt_i64 x = into_opt_i64 x) /\ dt_cast_opt_i64 NaT = None
  /\ (forall u t x, dt_cast_unit u t x = into_unit u t x) /\ (forall u t, dt_cast_unit u t NaT = Ok NaT)
  /\ (forall t, time_cast_opt_i64 t = into_opt_i64 t) /\ time_cast_opt_i64 NaT = None.
Proof. repeat split. intros u t. apply into_unit_nat. Qed.

(* ------------------------------------------------------------------ (F) NaT where the result type has no NaT *)
Theorem td_div_nat_operand a b : td_is_nat a = true \/ td_is_nat b = true -> td_div a b = Panic OtherPanic.
Proof. apply td_div_nat. Qed.

(* duration_trunc by a NaT duration: the checks in source order — NaT date-time first (returns it), then
   `as_cr().unwrap()`, then `unimplemented!()` for the negative month count i32::MIN *)
Theorem dt_trunc_nat_duration u x d :
  td_is_nat d = true ->
  dt_trunc u x d = if is_nat x then Ok NaT
                   else match as_cr u x with None => Panic UnwrapNone | Some _ => Panic OtherPanic end.
Proof.
  intros Hd. unfold td_is_nat in Hd. apply Z.eqb_eq in Hd. unfold dt_trunc.
  destruct (is_nat x) eqn:En; [apply is_nat_true in En; subst x; reflexivity|].
  destruct (as_cr u x) as [c|]; cbn [unwrap bind]; [|reflexivity]. rewrite Hd. reflexivity.
Qed.

Theorem td_neg_nat_unchanged d : td_is_nat d = true -> td_neg d = d.
Proof. intros H. unfold td_neg. rewrite H. reflexivity. Qed.

(* the converse of absorption is FALSE: valid operands can produce NaT (months reaching i32::MIN exactly, a time of
   day reaching i64::MIN exactly, a nanosecond date-time leaving the i64 window) *)
Theorem nat_result_converse_refuted :
  (td_is_nat (mktd (-1) 0) = false /\ td_is_nat (mktd (-2147483647) 0) = false
   /\ td_add (mktd (-1) 0) (mktd (-2147483647) 0) = Ok td_nat)
  /\ (td_is_nat (mktd 2147483647 0) = false /\ td_sub (mktd (-1) 0) (mktd 2147483647 0) = Ok td_nat)
  /\ (td_is_nat (mktd (-1073741824) 0) = false /\ td_mul (mktd (-1073741824) 0) 2 = Ok td_nat)
  /\ (is_nat 0 = false /\ td_is_nat (mktd 0 i64_min) = false /\ time_add 0 (mktd 0 i64_min) = Ok NaT)
  /\ (is_nat i64_max = false /\ td_is_nat (mktd 0 1) = false /\ dt_add Nano i64_max (mktd 0 1) = Ok NaT).
Proof. vm_compute. repeat split. Qed.
