(* Proofs/Audit09.v — audit of property C09 (YA): fused behaviour after exhaustion, statements about EVERY
   model state (no well-formedness), rejected parameters described totally, adaptors on inputs consumed
   from either end, count / last / fold at every point of a consumption, is_empty / abs, and sources whose
   own size hint is inexact (Filter / FilterMap under TrustIter).  Stdlib only, axiom-free.          *)
From Tevec Require Import Base.Prelude Model.Iter Proofs.Iter Model.IterAudit.
Local Open Scope nat_scope.

(* ================================================================================================ *)
(* 1. every model state: lower bound = upper bound; TrustedLen::len() never panics                   *)
(* ================================================================================================ *)
Lemma hint_lower_is_upper : forall s, snd (size_hint s) = Some (fst (size_hint s)).
Proof.
  induction s; cbn [size_hint fst snd]; try reflexivity; try assumption.
  - destruct la, lb; cbn [fst snd]; try assumption; try reflexivity.
    rewrite IHs1, IHs2. reflexivity.
  - destruct (n =? 0) eqn:E; [reflexivity|]. cbn [fst snd]. rewrite IHs.
    destruct (fst (size_hint s) <? n) eqn:E2; f_equal;
      [apply Nat.ltb_lt in E2 | apply Nat.ltb_ge in E2]; lia.
  - rewrite IHs. reflexivity.
  - rewrite IHs1, IHs2. reflexivity.
Qed.

Lemma hint_pair s : size_hint s = (fst (size_hint s), Some (fst (size_hint s))).
Proof. rewrite <- hint_lower_is_upper. destruct (size_hint s); reflexivity. Qed.

Lemma tlen_total s : tlen s = Ok (fst (size_hint s)).
Proof. unfold tlen. rewrite hint_lower_is_upper. reflexivity. Qed.

Lemma tis_empty_total s : tis_empty s = Ok (fst (size_hint s) =? 0).
Proof. unfold tis_empty. rewrite tlen_total. reflexivity. Qed.

(* is_empty answers whether next() would return None *)
Lemma tis_empty_wf b s : wfb b s ->
  tis_empty s = Ok (match elems s with [] => true | _ => false end) /\
  (tis_empty s = Ok true <-> fst (next s) = None).
Proof.
  intros Hw. pose proof (wfb_front _ _ Hw) as Hf.
  rewrite tis_empty_total, (wfb_exact s Hf). cbn [fst].
  destruct (next s) as [o s'] eqn:E.
  destruct (nextd_sound false false s o s' (dir_front false) Hf E) as (Hs & _). unfold spec in Hs.
  cbn [fst]. destruct o as [x|].
  - rewrite Hs. cbn. split; [reflexivity|]. split; discriminate.
  - destruct Hs as [-> _]. cbn. split; [reflexivity|]. split; reflexivity.
Qed.

(* ================================================================================================ *)
(* 2. shift / vshift on EVERY state: never a panic, the announced length is preserved                *)
(* ================================================================================================ *)
Lemma shift_total n v s : exists s', shift n v s = Ok s' /\ size_hint s' = size_hint s.
Proof.
  unfold shift. rewrite tlen_total. cbn [bind]. set (len := fst (size_hint s)).
  assert (Hp : size_hint s = (len, Some len)) by apply hint_pair.
  destruct (len_le_nabs len n) eqn:Eg.
  { eexists. split; [reflexivity|]. rewrite Hp. reflexivity. }
  apply nabs_lt in Eg.
  destruct (0 <? n)%Z.
  { unfold usub. replace (n_abs n <=? len) with true by (symmetry; apply Nat.leb_le; lia).
    cbn [bind]. eexists. split; [reflexivity|]. rewrite Hp. reflexivity. }
  destruct (n <? 0)%Z.
  { eexists. split; [reflexivity|]. rewrite Hp. reflexivity. }
  eexists. split; reflexivity.
Qed.

Lemma vshift_total n v s : exists s', vshift n v s = Ok s' /\ size_hint s' = size_hint s.
Proof. apply shift_total. Qed.

(* the same adaptors on double-ended inputs: the result is again well formed for the same direction *)
Lemma shift_wfb b n v s : wfb b s ->
  exists s', shift n v s = Ok s' /\ wfb b s' /\ length (elems s') = length (elems s).
Proof.
  intros Hw. unfold shift. rewrite (tlen_exact s (wfb_front _ _ Hw)). cbn [bind].
  destruct (len_le_nabs (length (elems s)) n) eqn:Eg.
  { eexists. split; [reflexivity|]. cbn [wfb elems]. rewrite repeat_length. auto. }
  apply nabs_lt in Eg.
  destruct (0 <? n)%Z.
  { unfold usub. replace (n_abs n <=? length (elems s)) with true by (symmetry; apply Nat.leb_le; lia).
    cbn [bind]. eexists. split; [reflexivity|]. cbn [wfb elems].
    rewrite app_length, repeat_length, firstn_length. repeat split; try assumption; lia. }
  destruct (n <? 0)%Z.
  { eexists. split; [reflexivity|]. cbn [wfb elems].
    rewrite app_length, repeat_length, skipn_length. repeat split; try assumption; lia. }
  eexists. split; [reflexivity|]. cbn [wfb elems]. auto.
Qed.

(* ... in particular on an input that was consumed from either end before the adaptor was applied *)
Lemma shift_after_consumption n v s cs : wfb true s ->
  exists s', shift n v (consume cs s) = Ok s' /\ wfb true s' /\
             length (elems s') = length (elems (consume cs s)).
Proof. intros Hw. apply shift_wfb. apply consume_wf; [apply all_dirs_ok | exact Hw]. Qed.

Lemma vdiff_wfb n value xs : exists s', vdiff n value xs = Ok s' /\ wfb true s' /\ length (elems s') = length xs.
Proof.
  unfold vdiff. cbv zeta. destruct (len_le_nabs (length xs) n) eqn:Eg.
  { eexists. split; [reflexivity|]. cbn [wfb elems]. rewrite repeat_length. auto. }
  apply nabs_lt in Eg.
  destruct (0 <? n)%Z.
  { unfold usub. replace (n_abs n <=? length xs) with true by (symmetry; apply Nat.leb_le; lia).
    cbn [bind]. eexists. split; [reflexivity|]. cbn [wfb elems].
    rewrite app_length, repeat_length, !map_length, combine_length, firstn_length, skipn_length.
    repeat split; auto; lia. }
  eexists. split; [reflexivity|]. unfold lag_nonpos. cbn [wfb elems].
  rewrite app_length, repeat_length, !map_length, combine_length, skipn_length. repeat split; auto; lia.
Qed.

Lemma vpct_change_wfb n xs : exists s', vpct_change n xs = Ok s' /\ wfb true s' /\ length (elems s') = length xs.
Proof.
  unfold vpct_change. cbv zeta. destruct (len_le_nabs (length xs) n) eqn:Eg.
  { eexists. split; [reflexivity|]. cbn [wfb elems]. rewrite repeat_length. auto. }
  apply nabs_lt in Eg.
  destruct (0 <? n)%Z.
  { unfold usub. replace (n_abs n <=? length xs) with true by (symmetry; apply Nat.leb_le; lia).
    cbn [bind]. eexists. split; [reflexivity|]. cbn [wfb elems].
    rewrite !map_length, combine_length, app_length, repeat_length, firstn_length.
    repeat split; auto; lia. }
  eexists. split; [reflexivity|]. unfold lag_nonpos. cbn [wfb elems].
  rewrite app_length, repeat_length, !map_length, combine_length, skipn_length. repeat split; auto; lia.
Qed.

Lemma vcut_wfb b tmin tmax bins labels right add s s' : wfb b s ->
  vcut tmin tmax bins labels right add s = Some s' -> wfb b s' /\ length (elems s') = length (elems s).
Proof.
  intros Hw. unfold vcut.
  destruct add; [destruct (negb (length labels =? length bins + 1)) | destruct (negb (length labels + 1 =? length bins))];
    intros E; try discriminate; injection E as <-; cbn [wfb elems]; rewrite map_length; auto.
Qed.

Lemma mabs_wf b s : wfb b s -> wfb b (mabs s) /\ length (elems (mabs s)) = length (elems s) /\ mabs s = vabs s.
Proof. intros Hw. cbn [mabs wfb elems]. rewrite map_length. auto. Qed.

(* ================================================================================================ *)
(* 3. rejected parameters, totally                                                                  *)
(* ================================================================================================ *)
Lemma rolling_custom_iter_window0 xs : rolling_custom_iter 0 xs = Panic Underflow.
Proof. reflexivity. Qed.

Lemma rolling_wfb w xs : 1 <= w ->
  exists s', rolling_custom_iter w xs = Ok s' /\ wfb true s' /\ length (elems s') = length xs /\
             size_hint s' = (length xs, Some (length xs)).
Proof.
  intros Hw. unfold rolling_custom_iter, usub.
  replace (1 <=? w) with true by (symmetry; apply Nat.leb_le; exact Hw). cbn [bind].
  eexists. split; [reflexivity|]. cbn [wfb elems size_hint].
  rewrite !map_length, combine_length, app_length, repeat_length, !map_length, !seq_length.
  repeat split; auto; lia.
Qed.

Lemma vcut_rejects tmin tmax bins labels right add s :
  vcut tmin tmax bins labels right add s = None <->
  (if add then length labels <> length bins + 1 else length labels + 1 <> length bins).
Proof.
  unfold vcut. destruct add.
  - destruct (length labels =? length bins + 1) eqn:E; cbn [negb].
    + apply Nat.eqb_eq in E. split; [discriminate | intros H; contradiction].
    + apply Nat.eqb_neq in E. split; [intros _; exact E | reflexivity].
  - destruct (length labels + 1 =? length bins) eqn:E; cbn [negb].
    + apply Nat.eqb_eq in E. split; [discriminate | intros H; contradiction].
    + apply Nat.eqb_neq in E. split; [intros _; exact E | reflexivity].
Qed.

Lemma range_i_total a b st :
  (range_i a b st = Panic OtherPanic <-> range_empty a b st = false /\ st = 0%Z) /\
  (range_i a b st <> Panic OtherPanic -> range_i a b st = Ok (range_f a b st)).
Proof.
  unfold range_i, range_f. destruct (range_empty a b st); cbn [negb andb].
  - split; [split; [discriminate | intros [H _]; discriminate] | reflexivity].
  - destruct (st =? 0)%Z eqn:E.
    + apply Z.eqb_eq in E. split; [split; auto | intros H; contradiction].
    + apply Z.eqb_neq in E. split; [split; [discriminate | intros [_ H]; contradiction] | reflexivity].
Qed.

Lemma range_zero_step a b : elems (range_f a b 0) = [] /\ size_hint (range_f a b 0) = (0, Some 0).
Proof.
  unfold range_f, range_count, range_empty. cbn [Z.ltb Z.compare Z.eqb].
  destruct (a <=? b)%Z; cbn; auto.
Qed.

Lemma step_by_rejects n s : step_by n s = Panic AssertFail <-> n = 0.
Proof.
  unfold step_by. destruct (n =? 0) eqn:E.
  - apply Nat.eqb_eq in E. split; auto.
  - apply Nat.eqb_neq in E. split; [discriminate | intros H; contradiction].
Qed.

(* ================================================================================================ *)
(* 4. fused behaviour: once None came back, None keeps coming back and the hint stays (0, Some 0)    *)
(* ================================================================================================ *)
Definition instr_k (c : instr) : nat := match c with INext | INextBack => 0 | INth k | INthBack k => k end.

Lemma cut_nil c : cut c [] = [].
Proof. destruct c; cbn; try reflexivity; destruct k; reflexivity. Qed.

Lemma exec_fst b c s : dir_ok (instr_back c) b -> wfb b s ->
  fst (exec c s) = nth_error (if instr_back c then rev (elems s) else elems s) (instr_k c).
Proof.
  intros Hd Hw. destruct c; cbn [exec instr_back instr_k] in *.
  - exact (proj1 (nthd_closed false b 0 s Hd Hw)).
  - exact (proj1 (nthd_closed true b 0 s Hd Hw)).
  - exact (proj1 (nthd_closed false b k s Hd Hw)).
  - exact (proj1 (nthd_closed true b k s Hd Hw)).
Qed.

(* an instruction that returns None leaves nothing behind *)
Lemma exec_none_exhausts b c s : dir_ok (instr_back c) b -> wfb b s ->
  fst (exec c s) = None -> elems (snd (exec c s)) = [].
Proof.
  intros Hd Hw Hn. rewrite (exec_elems b c s Hd Hw). rewrite (exec_fst b c s Hd Hw) in Hn.
  apply nth_error_None in Hn.
  destruct c; cbn [instr_back instr_k cut] in *; rewrite ?rev_length in Hn.
  - apply skipn_all2. lia.
  - replace (length (elems s) - 1) with 0 by lia. reflexivity.
  - apply skipn_all2. lia.
  - replace (length (elems s) - S k) with 0 by lia. reflexivity.
Qed.

Lemma exhausted_exec b c s : dir_ok (instr_back c) b -> wfb b s -> elems s = [] ->
  fst (exec c s) = None /\ elems (snd (exec c s)) = [] /\ wfb b (snd (exec c s)).
Proof.
  intros Hd Hw He. split; [|split].
  - rewrite (exec_fst b c s Hd Hw), He. destruct (instr_back c); cbn [rev]; destruct (instr_k c); reflexivity.
  - rewrite (exec_elems b c s Hd Hw), He. apply cut_nil.
  - apply exec_sound; assumption.
Qed.

Lemma exhausted_script b : forall cs s, (forall c, In c cs -> dir_ok (instr_back c) b) -> wfb b s ->
  elems s = [] -> elems (run_script cs s) = [] /\ wfb b (run_script cs s).
Proof.
  induction cs as [|c cs IH]; intros s Hc Hw He; [auto|]. cbn [run_script].
  destruct (exhausted_exec b c s (Hc c (or_introl eq_refl)) Hw He) as (_ & He' & Hw').
  apply IH; auto. intros c' Hin. apply Hc. right. exact Hin.
Qed.

Lemma fused b c s cs c' :
  dir_ok (instr_back c) b -> (forall x, In x cs -> dir_ok (instr_back x) b) -> dir_ok (instr_back c') b ->
  wfb b s -> fst (exec c s) = None ->
  fst (exec c' (run_script cs (snd (exec c s)))) = None /\
  size_hint (run_script cs (snd (exec c s))) = (0, Some 0) /\
  drain (run_script cs (snd (exec c s))) = [].
Proof.
  intros Hd Hcs Hd' Hw Hn.
  pose proof (exec_none_exhausts b c s Hd Hw Hn) as He.
  pose proof (exec_sound b c s Hd Hw) as Hw1.
  destruct (exhausted_script b cs _ Hcs Hw1 He) as [He2 Hw2].
  split; [exact (proj1 (exhausted_exec b c' _ Hd' Hw2 He2))|].
  rewrite (wfb_exact _ (wfb_front _ _ Hw2)), (drain_elems _ (wfb_front _ _ Hw2)), He2. auto.
Qed.

(* the same for the consuming methods: after count / last / fold everything returns None *)
Lemma fold_leaves_exhausted {A} back b (f : A -> val -> A) acc s : dir_ok back b -> wfb b s ->
  size_hint (snd (fold_it back f acc s)) = (0, Some 0) /\ wfb b (snd (fold_it back f acc s)) /\
  (forall c, dir_ok (instr_back c) b -> fst (exec c (snd (fold_it back f acc s))) = None).
Proof.
  intros Hdir Hw. unfold fold_it.
  destruct (fold_n_sound back b f Hdir (S (length (elems s))) s acc Hw ltac:(lia)) as (_ & H2 & H3).
  split; [rewrite (wfb_exact _ (wfb_front _ _ H3)), H2; reflexivity|]. split; [exact H3|].
  intros c Hc. exact (proj1 (exhausted_exec b c _ Hc H3 H2)).
Qed.

(* ================================================================================================ *)
(* 5. count / last / fold at EVERY point of a consumption                                           *)
(* ================================================================================================ *)
Lemma count_after_script b cs s : (forall c, In c cs -> dir_ok (instr_back c) b) -> wfb b s ->
  size_hint (run_script cs s) = (fst (count_it (run_script cs s)), Some (fst (count_it (run_script cs s)))) /\
  fst (count_it (run_script cs s)) = length (fold_left (fun l c => cut c l) cs (elems s)).
Proof.
  intros Hc Hw. pose proof (wfb_front _ _ (run_script_wf b cs s Hc Hw)) as Hw'.
  destruct (count_it_sound _ Hw') as (H1 & H2 & _). split; [exact H2|].
  rewrite H1, (run_script_elems b cs s Hc Hw). reflexivity.
Qed.

Lemma last_after_script b cs s : (forall c, In c cs -> dir_ok (instr_back c) b) -> wfb b s ->
  fst (last_it (run_script cs s)) = nth_error (rev (fold_left (fun l c => cut c l) cs (elems s))) 0.
Proof.
  intros Hc Hw. pose proof (wfb_front _ _ (run_script_wf b cs s Hc Hw)) as Hw'.
  rewrite (proj1 (last_it_sound _ Hw')), (run_script_elems b cs s Hc Hw). reflexivity.
Qed.

Lemma fold_after_script {A} back b (f : A -> val -> A) acc cs s :
  dir_ok back b -> (forall c, In c cs -> dir_ok (instr_back c) b) -> wfb b s ->
  fst (fold_it back f acc (run_script cs s))
  = fold_left f (let l := fold_left (fun l c => cut c l) cs (elems s) in if back then rev l else l) acc.
Proof.
  intros Hd Hc Hw. pose proof (run_script_wf b cs s Hc Hw) as Hw'.
  rewrite (proj1 (fold_it_sound back b f acc _ Hd Hw')), (run_script_elems b cs s Hc Hw). reflexivity.
Qed.

(* counting from the back (rfold) gives the same number *)
Lemma rcount s : wfb true s -> fst (fold_it true (fun n (_ : val) => S n) 0 s) = fst (count_it s).
Proof.
  intros Hw. rewrite (proj1 (fold_it_sound true true _ 0 s (fun _ => eq_refl) Hw)).
  rewrite (proj1 (count_it_sound s (wfb_weaken _ Hw))), fold_left_count, rev_length. reflexivity.
Qed.

(* ================================================================================================ *)
(* 6. sources whose own hint is inexact: Filter / FilterMap, and what the library puts on top        *)
(* ================================================================================================ *)
Fixpoint f_wf (t : itf) : Prop :=
  match t with
  | FBase i | FFilterMap _ i => wfb false i
  | FPad _ i _ _ | FBox i => f_wf i
  | FTrust i len => len = length (f_elems i) /\ f_wf i
  end.

(* the top of the state announces its length exactly (a bare Filter does not) *)
Fixpoint f_trusted (t : itf) : Prop :=
  match t with
  | FBase _ | FPad _ _ _ _ | FTrust _ _ => True
  | FFilterMap _ _ => False
  | FBox i => f_trusted i
  end.

Definition f_spec (t : itf) (o : option val) (t' : itf) : Prop :=
  match o with
  | Some x => f_elems t = x :: f_elems t'
  | None => f_elems t = [] /\ f_elems t' = []
  end.

Lemma find_map_n_sound g : forall fuel i o i', wfb false i -> length (elems i) < fuel ->
  find_map_n g fuel i = (o, i') ->
  wfb false i' /\
  match o with
  | Some y => flat_map (fun x => opt_list (g x)) (elems i) = y :: flat_map (fun x => opt_list (g x)) (elems i')
  | None => flat_map (fun x => opt_list (g x)) (elems i) = [] /\ elems i' = []
  end.
Proof.
  induction fuel as [|fuel IH]; intros i o i' Hw Hl E; [lia|]. cbn [find_map_n] in E.
  destruct (next i) as [o1 i1] eqn:E1.
  destruct (nextd_sound false false i o1 i1 (dir_front false) Hw E1) as (Hs & Hw1 & _). unfold spec in Hs.
  destruct o1 as [x|].
  - destruct (g x) as [y|] eqn:Eg.
    + injection E as <- <-. split; [exact Hw1|]. rewrite Hs. cbn [flat_map]. rewrite Eg. reflexivity.
    + assert (Hl1 : length (elems i1) < fuel) by (rewrite Hs in Hl; cbn [length] in Hl; lia).
      destruct (IH i1 o i' Hw1 Hl1 E) as [Hw' Hr]. split; [exact Hw'|].
      rewrite Hs. cbn [flat_map]. rewrite Eg. cbn [opt_list app]. exact Hr.
  - injection E as <- <-. destruct Hs as [Hs1 Hs2]. split; [exact Hw1|]. rewrite Hs1. auto.
Qed.

Lemma f_next_sound : forall t o t', f_wf t -> f_next t = (o, t') ->
  f_spec t o t' /\ f_wf t' /\ (f_trusted t -> f_trusted t').
Proof.
  induction t as [i | g i | la t IH v n | t IH len | t IH]; intros o t' Hw E; cbn [f_next] in E.
  - destruct (next i) as [o1 i1] eqn:E1. injection E as <- <-.
    destruct (nextd_sound false false i o1 i1 (dir_front false) Hw E1) as (Hs & Hw1 & _).
    split; [exact Hs | split; [exact Hw1 | auto]].
  - destruct (find_map_n g (S (length (elems i))) i) as [o1 i1] eqn:E1. injection E as <- <-.
    destruct (find_map_n_sound g (S (length (elems i))) i o1 i1 Hw (Nat.lt_succ_diag_r _) E1) as [Hw1 Hr].
    split; [|split; [exact Hw1 | intros []]]. unfold f_spec. cbn [f_elems].
    destruct o1 as [y|]; [exact Hr|]. destruct Hr as [H1 H2]. rewrite H1, H2. auto.
  - destruct n as [|m].
    { injection E as <- <-. split; [|split; [exact Hw | auto]]. unfold f_spec. cbn [f_elems]. cbv zeta. auto. }
    destruct la.
    + cbn [f_wf] in Hw. destruct (IH _ _ Hw (surjective_pairing (f_next t))) as (Hs & Hw1 & _).
      destruct (f_next t) as [o1 t1]. cbn [fst snd] in *. unfold f_spec in Hs.
      destruct o1 as [x|]; injection E as <- <-; (split; [|split; [exact Hw1 | auto]]); unfold f_spec; cbn [f_elems]; cbv zeta.
      * rewrite Hs. cbn [firstn length app Nat.sub]. reflexivity.
      * destruct Hs as [Hs1 Hs2]. rewrite Hs1. cbn [firstn length app]. rewrite firstn_nil.
        cbn [length app]. rewrite !Nat.sub_0_r. reflexivity.
    + injection E as <- <-. split; [|split; [exact Hw | auto]]. unfold f_spec. cbn [f_elems]. cbv zeta.
      rewrite !firstn_nil. cbn [length app]. rewrite !Nat.sub_0_r. reflexivity.
  - destruct Hw as [Hlen Hw]. destruct (IH _ _ Hw (surjective_pairing (f_next t))) as (Hs & Hw1 & _).
    destruct (f_next t) as [o1 t1]. cbn [fst snd] in *. injection E as <- <-. split; [exact Hs|]. split; [|auto].
    cbn [f_wf]. split; [|exact Hw1]. unfold f_spec in Hs. destruct o1 as [x|].
    + rewrite Hlen, Hs. cbn. lia.
    + destruct Hs as [Hs1 Hs2]. rewrite Hlen, Hs1, Hs2. reflexivity.
  - cbn [f_wf] in Hw. destruct (IH _ _ Hw (surjective_pairing (f_next t))) as (Hs & Hw1 & Ht).
    destruct (f_next t) as [o1 t1]. cbn [fst snd] in *. injection E as <- <-.
    split; [exact Hs|]. split; [exact Hw1 | exact Ht].
Qed.

Lemma f_pad_length la t v n : length (f_elems (FPad la t v n)) = n.
Proof. cbn [f_elems]. cbv zeta. rewrite app_length, firstn_length, repeat_length. lia. Qed.

Lemma f_exact : forall t, f_wf t -> f_trusted t ->
  f_size_hint t = (length (f_elems t), Some (length (f_elems t))).
Proof.
  induction t as [i | g i | la t IH v n | t IH len | t IH]; intros Hw Ht.
  - apply wfb_exact. exact Hw.
  - destruct Ht.
  - cbn [f_size_hint]. rewrite f_pad_length. reflexivity.
  - destruct Hw as [-> _]. reflexivity.
  - apply IH; assumption.
Qed.

(* Filter's own hint: lower bound 0, upper bound the inner count - bounds that hold, not an exact length *)
Lemma filter_hint_is_a_bound g i : wfb false i ->
  f_size_hint (FFilterMap g i) = (0, Some (length (elems i))) /\
  length (f_elems (FFilterMap g i)) <= length (elems i).
Proof.
  intros Hw. cbn [f_size_hint f_elems]. rewrite (wfb_exact i Hw). split; [reflexivity|].
  induction (elems i) as [|x l IH]; [auto|]. cbn [flat_map]. rewrite app_length. cbn [length].
  destruct (g x); cbn [opt_list length]; lia.
Qed.

Lemma f_consume_wf : forall k t, f_wf t -> f_trusted t -> f_wf (f_consume k t) /\ f_trusted (f_consume k t).
Proof.
  induction k as [|k IH]; intros t Hw Ht; [auto|]. cbn [f_consume].
  destruct (f_next t) as [o t'] eqn:E. cbn [snd].
  destruct (f_next_sound t o t' Hw E) as (_ & Hw' & Ht'). apply IH; auto.
Qed.

Lemma f_drain_n_elems : forall fuel t, f_wf t -> length (f_elems t) < fuel -> f_drain_n fuel t = f_elems t.
Proof.
  induction fuel as [|fuel IH]; intros t Hw Hl; [lia|]. cbn [f_drain_n].
  destruct (f_next t) as [o t'] eqn:E. destruct (f_next_sound t o t' Hw E) as (Hs & Hw' & _).
  unfold f_spec in Hs. destruct o as [x|].
  - rewrite Hs. f_equal. apply IH; [exact Hw'|]. rewrite Hs in Hl. cbn [length] in Hl. lia.
  - destruct Hs as [-> _]. reflexivity.
Qed.

Lemma f_drain_elems t : f_wf t -> f_drain t = f_elems t.
Proof. intros Hw. apply f_drain_n_elems; [exact Hw | lia]. Qed.

(* the law of C09 over an inexact source, at every point of the consumption *)
Lemma f_hint_exact_consume k t : f_wf t -> f_trusted t ->
  f_size_hint (f_consume k t)
  = (length (f_drain (f_consume k t)), Some (length (f_drain (f_consume k t)))).
Proof.
  intros Hw Ht. destruct (f_consume_wf k t Hw Ht) as [Hw' Ht'].
  rewrite (f_drain_elems _ Hw'). apply f_exact; assumption.
Qed.

(* one call removes the first element of the abstract sequence *)
Lemma f_consume_elems : forall k t, f_wf t -> f_elems (f_consume k t) = skipn k (f_elems t).
Proof.
  induction k as [|k IH]; intros t Hw; [reflexivity|]. cbn [f_consume].
  destruct (f_next t) as [o t'] eqn:E. cbn [snd]. destruct (f_next_sound t o t' Hw E) as (Hs & Hw' & _).
  rewrite (IH t' Hw'). unfold f_spec in Hs. destruct o as [x|].
  - rewrite Hs. reflexivity.
  - destruct Hs as [-> ->]. destruct k; reflexivity.
Qed.

(* ---- the partitions as the code builds them vs the idealisation of Model/Iter.v ------------------- *)
Lemma flat_map_keep_valid xs : flat_map (fun x => opt_list (keep_valid x)) xs = filter not_none xs.
Proof.
  induction xs as [|x xs IH]; [reflexivity|]. cbn [flat_map filter]. unfold keep_valid at 1.
  destruct (not_none x); cbn [opt_list app]; rewrite IH; reflexivity.
Qed.

Lemma flat_map_keep_valid_idx (l : list (nat * val)) :
  flat_map (fun x => opt_list (keep_valid_idx x)) (map (fun p => VPair (VZ (Z.of_nat (fst p))) (snd p)) l)
  = map (fun p => VZ (Z.of_nat (fst p))) (filter (fun p => not_none (snd p)) l).
Proof.
  induction l as [|[k v] l IH]; [reflexivity|]. cbn [map flat_map filter fst snd keep_valid_idx].
  destruct (not_none v); cbn [opt_list app map fst]; rewrite IH; reflexivity.
Qed.

Lemma vpartition_f_elems kth sort xs : f_elems (vpartition_f kth sort xs) = elems (vpartition kth sort xs).
Proof.
  unfold vpartition_f, vpartition. cbv zeta.
  destruct (andb (count_valid xs =? kth + 1) (negb sort)).
  { cbn [f_elems elems]. apply flat_map_keep_valid. }
  destruct (count_valid xs <=? kth + 1); [|reflexivity].
  destruct (negb sort); cbn [f_elems elems]; cbv zeta; rewrite ?flat_map_keep_valid; reflexivity.
Qed.

Lemma varg_partition_f_elems kth sort xs :
  f_elems (varg_partition_f kth sort xs) = elems (varg_partition kth sort xs).
Proof.
  unfold varg_partition_f, varg_partition. cbv zeta.
  destruct (count_valid xs <=? kth + 1); [|reflexivity].
  destruct (negb sort); cbn [f_elems elems]; cbv zeta; [|reflexivity].
  rewrite flat_map_keep_valid_idx. reflexivity.
Qed.

Lemma vpartition_f_wf kth sort xs : f_wf (vpartition_f kth sort xs) /\ f_trusted (vpartition_f kth sort xs).
Proof.
  pose proof (vpartition_f_elems kth sort xs) as He. pose proof (proj2 (vpartition_wf kth sort xs)) as Hl.
  rewrite <- He in Hl. revert Hl. unfold vpartition_f. cbv zeta.
  destruct (andb (count_valid xs =? kth + 1) (negb sort)).
  { cbn [f_elems f_wf f_trusted wfb]. intros Hl. auto. }
  destruct (count_valid xs <=? kth + 1).
  { destruct (negb sort); cbn [f_wf f_trusted wfb]; intros Hl; rewrite f_pad_length; auto. }
  cbn [f_elems f_wf f_trusted wfb]. intros Hl. auto.
Qed.

Lemma varg_partition_f_wf kth sort xs :
  f_wf (varg_partition_f kth sort xs) /\ f_trusted (varg_partition_f kth sort xs).
Proof.
  pose proof (varg_partition_f_elems kth sort xs) as He. pose proof (proj2 (varg_partition_wf kth sort xs)) as Hl.
  rewrite <- He in Hl. revert Hl. unfold varg_partition_f. cbv zeta.
  destruct (count_valid xs <=? kth + 1).
  { destruct (negb sort); cbn [f_wf f_trusted wfb]; intros Hl; rewrite f_pad_length; auto. }
  cbn [f_elems f_wf f_trusted wfb]. intros Hl. auto.
Qed.

(* observational exactness of the idealisation: same hint and same remaining items at every point *)
Lemma consume_front_elems : forall k s, wfb false s -> elems (consume (repeat false k) s) = skipn k (elems s).
Proof.
  induction k as [|k IH]; intros s Hw; [reflexivity|]. cbn [repeat consume].
  destruct (nextd false s) as [o s'] eqn:E. cbn [snd].
  destruct (nextd_sound false false s o s' (dir_front false) Hw E) as (Hs & Hw' & _). unfold spec in Hs.
  rewrite (IH s' Hw'). destruct o as [x|].
  - rewrite Hs. reflexivity.
  - destruct Hs as [-> ->]. destruct k; reflexivity.
Qed.

Lemma f_observational k t s : f_wf t -> f_trusted t -> wfb false s -> f_elems t = elems s ->
  f_size_hint (f_consume k t) = size_hint (consume (repeat false k) s) /\
  f_drain (f_consume k t) = drain (consume (repeat false k) s).
Proof.
  intros Hw Ht Hs He. destruct (f_consume_wf k t Hw Ht) as [Hw' Ht'].
  pose proof (consume_wf false (repeat false k) s (fronts_ok false k) Hs) as Hs'.
  rewrite (f_exact _ Hw' Ht'), (wfb_exact _ Hs'), (f_drain_elems _ Hw'), (drain_elems _ Hs').
  rewrite (f_consume_elems k t Hw), (consume_front_elems k s Hs), He. auto.
Qed.

Lemma vpartition_f_observational k kth sort xs :
  f_size_hint (f_consume k (vpartition_f kth sort xs)) = size_hint (consume (repeat false k) (vpartition kth sort xs)) /\
  f_drain (f_consume k (vpartition_f kth sort xs)) = drain (consume (repeat false k) (vpartition kth sort xs)).
Proof.
  destruct (vpartition_f_wf kth sort xs) as [Hw Ht].
  exact (f_observational k _ _ Hw Ht (proj1 (vpartition_wf kth sort xs)) (vpartition_f_elems kth sort xs)).
Qed.

Lemma varg_partition_f_observational k kth sort xs :
  f_size_hint (f_consume k (varg_partition_f kth sort xs))
  = size_hint (consume (repeat false k) (varg_partition kth sort xs)) /\
  f_drain (f_consume k (varg_partition_f kth sort xs)) = drain (consume (repeat false k) (varg_partition kth sort xs)).
Proof.
  destruct (varg_partition_f_wf kth sort xs) as [Hw Ht].
  exact (f_observational k _ _ Hw Ht (proj1 (varg_partition_wf kth sort xs)) (varg_partition_f_elems kth sort xs)).
Qed.
