(* Proofs/Mask2.v — C05: the null mask of the remaining add-emit-remove families at XR, as corollaries of
   their closed forms: ts_vewm, ts_vwma (Proofs/Features.v), the time-trend regressions (Proofs/Trend.v),
   ts_vzscore (Proofs/Norm.v), ts_vcov / ts_vcorr / ts_vregx_* (Proofs/Binary.v).
   Every mask is "null iff the count of valid (pairwise-complete) observations of the window is below the
   effective min_periods, or the statistic is undefined on the window" with the undefinedness condition
   of DESIGN 5.6 written out per function.  Count-only masks are boolean equations, masks that involve a
   condition on reals are stated `is_null o = true <-> ...`.                                            *)
From Coq Require Import Reals Lra Lia List.
From Tevec Require Import Base.Prelude Base.Num Base.XR Spec.Stats Spec.Ols Model.Driver Proofs.Driver
     Model.Features Proofs.Sliding Proofs.Features Model.Binary Model.Reg Model.Norm Proofs.Ols
     Proofs.Binary Proofs.Trend Proofs.Norm Proofs.Mask.
Import ListNotations.

(* ---- generic ------------------------------------------------------------------------------------- *)
(* from "output i = F i" to "output i satisfies P i" *)
Lemma mask_transfer {O} (r : outcome O) (n : nat) (F : nat -> O) (P : nat -> O -> Prop) :
  (exists out, r = Done out /\ length out = n /\ forall i, i < n -> nth_error out i = Some (F i)) ->
  (forall i, i < n -> P i (F i)) ->
  exists out, r = Done out /\ length out = n /\
    forall i, i < n -> exists o, nth_error out i = Some o /\ P i o.
Proof.
  intros (out & H1 & H2 & H3) HP. exists out. split; [exact H1|]. split; [exact H2|].
  intros i Hi. exists (F i). split; [apply H3; exact Hi|apply HP; exact Hi].
Qed.

(* nullness of any option; is_null is its instance at R *)
Definition onull {X} (o : option X) : bool := match o with None => true | Some _ => false end.
Lemma is_null_onull (o : XR) : is_null o = onull o. Proof. reflexivity. Qed.

(* the min_periods gate in front of a value g: boolean form ... *)
Lemma gate_bool {X} (m n : nat) (g : option X) (u : bool) :
  (m <= n -> onull g = u) ->
  onull (if m <=? n then g else None) = orb (n <? m) u.
Proof.
  intros H. destruct (m <=? n) eqn:E.
  - apply Nat.leb_le in E. replace (n <? m) with false by (symmetry; apply Nat.ltb_ge; exact E).
    apply H. exact E.
  - apply Nat.leb_gt in E. replace (n <? m) with true by (symmetry; apply Nat.ltb_lt; exact E).
    reflexivity.
Qed.
(* ... and propositional form, for undefinedness conditions on reals *)
Lemma gate_prop {X} (m n : nat) (g : option X) (U : Prop) :
  (m <= n -> (onull g = true <-> U)) ->
  (onull (if m <=? n then g else None) = true <-> n < m \/ U).
Proof.
  intros H. destruct (m <=? n) eqn:E.
  - apply Nat.leb_le in E. rewrite (H E). split; [intros HU; right; exact HU|intros [Hlt|HU]; [exfalso; lia|exact HU]].
  - apply Nat.leb_gt in E. split; [intros _; left; exact E|reflexivity].
Qed.

Lemma valid_length_le (l : list XR) : length (valid l) <= length l.
Proof.
  induction l as [|[x|] l IH]; [apply le_n| |].
  - change (valid (Some x :: l)) with (x :: valid l). cbn [length]. lia.
  - change (valid (None :: l)) with (valid l). cbn [length]. lia.
Qed.

Lemma win_length_le' {X} w i (l : list X) : 1 <= w -> length (win w i l) <= w.
Proof. intros Hw. unfold win, wstart. rewrite firstn_length. lia. Qed.

Lemma valid_win_le w i (xs : list XR) : 1 <= w -> length (valid (win w i xs)) <= w.
Proof. intros Hw. pose proof (valid_length_le (win w i xs)). pose proof (win_length_le' w i xs Hw). lia. Qed.

(* ---- exponentially weighted mean ------------------------------------------------------------------ *)
(* DESIGN 5.6: the normalising denominator 1 - (1 - 2/w)^n vanishes only on a window without valid element
   (n <= w: for w = 1 the base is -1 and an even n >= 2 would also cancel, but a window of 1 holds <= 1) *)
Lemma ewm_undefined_iff (w n : nat) :
  1 <= w -> n <= w -> ((1 - (1 - 2 / INR w) ^ n = 0)%R <-> n = 0).
Proof.
  intros Hw Hn. split.
  - intros H. destruct n as [|k]; [reflexivity|]. exfalso.
    destruct (Nat.eq_dec w 1) as [->|Hw1].
    + assert (k = 0) by lia. subst k. cbn in H. lra.
    + assert (Hw2 : (2 <= INR w)%R) by (apply (le_INR 2); lia).
      set (q := (1 - 2 / INR w)%R) in *.
      assert (Hq : (0 <= q < 1)%R).
      { unfold q. assert (0 < 2 / INR w <= 1)%R; [|lra]. split.
        - apply Rdiv_lt_0_compat; lra.
        - apply (Rmult_le_reg_r (INR w)); [lra|]. unfold Rdiv. rewrite Rmult_assoc, Rinv_l by lra. lra. }
      assert (Hk : (q ^ k <= 1)%R).
      { rewrite <- (pow1 k). apply pow_incr. lra. }
      assert (Hk0 : (0 <= q ^ k)%R) by (apply pow_le; lra).
      cbn [pow] in H. nra.
  - intros ->. cbn. lra.
Qed.

Lemma ewm_entry body (w : nat) mp (xs : list XR) :
  1 <= w ->
  exists out, ts_run (ts_vewm_f w mp) body w xs = Done out /\ length out = length xs /\
    forall i, i < length xs ->
      nth_error out i =
      Some (let V := valid (win w i xs) in
            if mp_eff mp w 0 <=? length V then
              (if Req_EM_T (1 - (1 - 2 / INR w) ^ length V) 0 then None
               else Some (ewsum (1 - 2 / INR w) V * (2 / INR w) / (1 - (1 - 2 / INR w) ^ length V))%R)
            else None).
Proof.
  intros Hw. destruct (ewm_state_tracks_window w Hw mp body xs) as (out & H1 & H2 & H3).
  exists out. split; [exact H1|]. split; [exact H2|]. intros i Hi.
  destruct (nth_error xs i) as [v|] eqn:Hv; [|apply nth_error_None in Hv; lia].
  destruct (H3 i v Hv) as (s & Habs & Hn). rewrite Hn. f_equal.
  apply (ewm_emit_spec w Hw). exact Habs.
Qed.

Theorem mask_vewm body (w : nat) mp (xs : list XR) :
  1 <= w ->
  exists out, ts_run (ts_vewm_f w mp) body w xs = Done out /\ length out = length xs /\
    forall i, i < length xs ->
      exists o, nth_error out i = Some o /\
        is_null o = orb (below (mp_eff mp w 0) (valid (win w i xs))) (below 1 (valid (win w i xs))).
Proof.
  intros Hw. apply mask_transfer with (1 := ewm_entry body w mp xs Hw).
  intros i Hi. cbv zeta. unfold below. rewrite is_null_onull. apply gate_bool. intros _.
  pose proof (ewm_undefined_iff w (length (valid (win w i xs))) Hw (valid_win_le w i xs Hw)) as HU.
  destruct (Req_EM_T _ 0) as [E|E]; cbn [onull].
  - apply HU in E. rewrite E. reflexivity.
  - destruct (length (valid (win w i xs))) as [|k]; [exfalso; apply E, HU; reflexivity|reflexivity].
Qed.

(* ---- linearly weighted mean ----------------------------------------------------------------------- *)
Lemma wma_entry body (w : nat) mp (xs : list XR) :
  1 <= w ->
  exists out, ts_run (ts_vwma_f w mp) body w xs = Done out /\ length out = length xs /\
    forall i, i < length xs ->
      nth_error out i =
      Some (let V := valid (win w i xs) in
            if mp_eff mp w 0 <=? length V then (if length V =? 0 then None else Some (wmaR V)) else None).
Proof.
  intros Hw. destruct (wma_state_tracks_window mp body w xs Hw) as (out & H1 & H2 & H3).
  exists out. split; [exact H1|]. split; [exact H2|]. intros i Hi.
  destruct (nth_error xs i) as [v|] eqn:Hv; [|apply nth_error_None in Hv; lia].
  destruct (H3 i v Hv) as (s & Habs & Hn). rewrite Hn. f_equal. apply wma_emit_spec. exact Habs.
Qed.

Theorem mask_vwma body (w : nat) mp (xs : list XR) :
  1 <= w ->
  exists out, ts_run (ts_vwma_f w mp) body w xs = Done out /\ length out = length xs /\
    forall i, i < length xs ->
      exists o, nth_error out i = Some o /\
        is_null o = orb (below (mp_eff mp w 0) (valid (win w i xs))) (below 1 (valid (win w i xs))).
Proof.
  intros Hw. apply mask_transfer with (1 := wma_entry body w mp xs Hw).
  intros i Hi. cbv zeta. unfold below. rewrite is_null_onull. apply gate_bool. intros _.
  destruct (length (valid (win w i xs))) as [|k]; reflexivity.
Qed.

(* ---- the time-trend regressions: undefined exactly below two valid values -------------------------- *)
Lemma trend_null (V : list R) (f : R -> R -> R) : onull (ols_x (trend_pairs V) f) = (length V <? 2).
Proof.
  unfold ols_x. destruct (Req_EM_T (detB (trend_pairs V)) 0) as [E|E]; cbn [onull].
  - apply trend_det_zero_iff in E. symmetry. apply Nat.ltb_lt. lia.
  - symmetry. apply Nat.ltb_ge. destruct (le_lt_dec 2 (length V)) as [H|H]; [exact H|].
    exfalso. apply E. apply trend_det_zero_iff. lia.
Qed.

Lemma mask_trend (emit : nat -> @tr_st XR -> XR) (f : list R -> R -> R -> R) body (w : nat) mp (xs : list XR) :
  1 <= w ->
  (forall m s W, tr_abs s W ->
     emit m s = if m <=? length (valid W) then ols_x (trend_pairs (valid W)) (f (valid W)) else None) ->
  exists out, ts_run (tr_feat (emit (mp_eff mp w 0))) body w xs = Done out /\ length out = length xs /\
    forall i, i < length xs ->
      exists o, nth_error out i = Some o /\
        is_null o = orb (below (mp_eff mp w 0) (valid (win w i xs))) (below 2 (valid (win w i xs))).
Proof.
  intros Hw Hemit.
  apply mask_transfer with
    (F := fun i => (fun V => if mp_eff mp w 0 <=? length V then ols_x (trend_pairs V) (f V) else None)
                     (valid (win w i xs))).
  - apply (tr_entry (emit (mp_eff mp w 0))
             (fun V => if mp_eff mp w 0 <=? length V then ols_x (trend_pairs V) (f V) else None)); [exact Hw|].
    intros s W HA. apply Hemit. exact HA.
  - intros i Hi. unfold below. rewrite is_null_onull. apply gate_bool. intros _. apply trend_null.
Qed.

Theorem mask_vreg_slope body (w : nat) mp (xs : list XR) :
  1 <= w ->
  exists out, ts_run (ts_vreg_slope_f w mp) body w xs = Done out /\ length out = length xs /\
    forall i, i < length xs ->
      exists o, nth_error out i = Some o /\
        is_null o = orb (below (mp_eff mp w 0) (valid (win w i xs))) (below 2 (valid (win w i xs))).
Proof.
  intros Hw. apply (mask_trend emit_slope (fun _ _ be => be)); [exact Hw|].
  intros m s W HA. apply emit_slope_spec. exact HA.
Qed.

Theorem mask_vreg_intercept body (w : nat) mp (xs : list XR) :
  1 <= w ->
  exists out, ts_run (ts_vreg_intercept_f w mp) body w xs = Done out /\ length out = length xs /\
    forall i, i < length xs ->
      exists o, nth_error out i = Some o /\
        is_null o = orb (below (mp_eff mp w 0) (valid (win w i xs))) (below 2 (valid (win w i xs))).
Proof.
  intros Hw. apply (mask_trend emit_intercept (fun _ al _ => al)); [exact Hw|].
  intros m s W HA. apply emit_intercept_spec. exact HA.
Qed.

Theorem mask_vreg body (w : nat) mp (xs : list XR) :
  1 <= w ->
  exists out, ts_run (ts_vreg_f w mp) body w xs = Done out /\ length out = length xs /\
    forall i, i < length xs ->
      exists o, nth_error out i = Some o /\
        is_null o = orb (below (mp_eff mp w 0) (valid (win w i xs))) (below 2 (valid (win w i xs))).
Proof.
  intros Hw. apply (mask_trend emit_reg (fun V al be => al + be * nP (trend_pairs V))%R); [exact Hw|].
  intros m s W HA. apply emit_reg_spec. exact HA.
Qed.

Theorem mask_vtsf body (w : nat) mp (xs : list XR) :
  1 <= w ->
  exists out, ts_run (ts_vtsf_f w mp) body w xs = Done out /\ length out = length xs /\
    forall i, i < length xs ->
      exists o, nth_error out i = Some o /\
        is_null o = orb (below (mp_eff mp w 0) (valid (win w i xs))) (below 2 (valid (win w i xs))).
Proof.
  intros Hw. apply (mask_trend emit_tsf (fun V al be => al + be * (nP (trend_pairs V) + 1))%R); [exact Hw|].
  intros m s W HA. apply emit_tsf_spec. exact HA.
Qed.

Theorem mask_vreg_resid_mean body (w : nat) mp (xs : list XR) :
  1 <= w ->
  exists out, ts_run (ts_vreg_resid_mean_f w mp) body w xs = Done out /\ length out = length xs /\
    forall i, i < length xs ->
      exists o, nth_error out i = Some o /\
        is_null o = orb (below (mp_eff mp w 0) (valid (win w i xs))) (below 2 (valid (win w i xs))).
Proof.
  intros Hw.
  apply (mask_trend emit_resid_mean (fun V al be => sse al be (trend_pairs V) / nP (trend_pairs V))%R);
    [exact Hw|].
  intros m s W HA. apply emit_resid_mean_spec. exact HA.
Qed.

(* ---- z-score: null iff the current element is null, or below min_periods, or zero spread in the code's
   sense (population variance of the valid window <= EPS; this includes every window with one valid value) -- *)
Theorem mask_vzscore body (w : nat) mp (xs : list XR) :
  1 <= w ->
  exists out, ts_vzscore body w mp xs = Done out /\ length out = length xs /\
    forall i, i < length xs ->
      exists o, nth_error out i = Some o /\
        (is_null o = true <->
         nth_error xs i = Some None \/ length (valid (win w i xs)) < mp_eff mp w 0 \/
         (popvarR (valid (win w i xs)) <= EPS)%R).
Proof.
  intros Hw. apply mask_transfer with (1 := ts_vzscore_spec body w mp xs Hw).
  intros i Hi. destruct (nth_error xs i) as [[x|]|] eqn:Ev.
  - cbv zeta. rewrite is_null_onull.
    rewrite (gate_prop (mp_eff mp w 0) (length (valid (win w i xs))) _
               (popvarR (valid (win w i xs)) <= EPS)%R).
    + split; [intros H; right; exact H|intros [H|H]; [discriminate|exact H]].
    + intros _. destruct (Rlt_dec EPS (popvarR (valid (win w i xs)))) as [H|H]; cbn [onull].
      * split; [discriminate|intros H'; lra].
      * split; [intros _; lra|reflexivity].
  - cbn [is_null]. split; [intros _; left; reflexivity|reflexivity].
  - apply nth_error_None in Ev. lia.
Qed.

(* a window with a single valid value has zero spread: the z-score needs two *)
Lemma popvar_le_eps_single (V : list R) : length V <= 1 -> (popvarR V <= EPS)%R.
Proof.
  intros H. pose proof EPS_pos. destruct V as [|a [|b V]]; [| |cbn in H; lia].
  - unfold popvarR, cmom, devsum. cbn. lra.
  - rewrite popvar_single. lra.
Qed.

(* ---- two-series statistics over the pairwise-complete observations ------------------------------ *)
Theorem mask_vcov body (w : nat) mp (xs ys : list XR) :
  1 <= w -> length xs = length ys ->
  exists out, ts_run2 (ts_vcov_f w mp) body w xs ys = Done out /\ length out = length xs /\
    forall i, i < length xs ->
      exists o, nth_error out i = Some o /\
        is_null o = (length (pairs (win w i xs) (win w i ys)) <? mp_eff mp w 2).
Proof.
  intros Hw Hlen.
  apply mask_transfer with
    (F := fun i => (fun P => if mp_eff mp w 2 <=? length P then Some (cov_sample P) else None)
                     (pairs (win w i xs) (win w i ys))).
  - apply (csum_entry (emit_cov (mp_eff mp w 2))
             (fun P => if mp_eff mp w 2 <=? length P then Some (cov_sample P) else None));
      [exact Hw|exact Hlen|].
    intros s W HA. apply emit_cov_spec; [exact HA|apply mp_eff_ge].
  - intros i Hi. rewrite is_null_onull, (gate_bool _ _ _ false); [apply orb_false_r|reflexivity].
Qed.

Theorem mask_vcorr body (w : nat) mp (xs ys : list XR) :
  1 <= w -> length xs = length ys ->
  exists out, ts_run2 (ts_vcorr_f w mp) body w xs ys = Done out /\ length out = length xs /\
    forall i, i < length xs ->
      let P := pairs (win w i xs) (win w i ys) in
      exists o, nth_error out i = Some o /\
        (is_null o = true <->
         length P < mp_eff mp w 0 \/ (popvarR (map fst P) <= EPS)%R \/ (popvarR (map snd P) <= EPS)%R).
Proof.
  intros Hw Hlen.
  apply mask_transfer with
    (F := fun i => (fun P => if mp_eff mp w 0 <=? length P then
                       (if Rlt_dec EPS (popvarR (map fst P)) then
                          (if Rlt_dec EPS (popvarR (map snd P)) then Some (corrP P) else None)
                        else None)
                     else None) (pairs (win w i xs) (win w i ys)))
    (P := fun i o => let P := pairs (win w i xs) (win w i ys) in
            is_null o = true <->
            length P < mp_eff mp w 0 \/ (popvarR (map fst P) <= EPS)%R \/ (popvarR (map snd P) <= EPS)%R).
  - apply (csum_entry (emit_corr (mp_eff mp w 0))
             (fun P => if mp_eff mp w 0 <=? length P then
                         (if Rlt_dec EPS (popvarR (map fst P)) then
                            (if Rlt_dec EPS (popvarR (map snd P)) then Some (corrP P) else None)
                          else None)
                       else None)); [exact Hw|exact Hlen|].
    intros s W HA. apply emit_corr_spec. exact HA.
  - intros i Hi. cbv zeta. set (P := pairs (win w i xs) (win w i ys)).
    rewrite is_null_onull. apply gate_prop. intros _.
    destruct (Rlt_dec EPS (popvarR (map fst P))) as [Ha|Ha];
      [destruct (Rlt_dec EPS (popvarR (map snd P))) as [Hb|Hb]|]; cbn [onull].
    + split; [discriminate|intros [H|H]; lra].
    + split; [intros _; right; lra|reflexivity].
    + split; [intros _; left; lra|reflexivity].
Qed.

(* the regressions on a second series: undefined exactly when the normal equations are singular,
   detB P = n Sbb - Sb^2 = 0, i.e. the regressor is constant over the observations (Proofs/Ols.v
   detB_zero_iff_constant; includes n <= 1) *)
Lemma olsx_null (P : list (R * R)) (f : R -> R -> R) : onull (ols_x P f) = true <-> detB P = 0%R.
Proof.
  unfold ols_x. destruct (Req_EM_T (detB P) 0) as [E|E]; cbn [onull].
  - split; [intros _; exact E|reflexivity].
  - split; [discriminate|intros H; contradiction].
Qed.

Theorem mask_vregx_alpha body (w : nat) mp (xs ys : list XR) :
  1 <= w -> length xs = length ys ->
  exists out, ts_run2 (ts_vregx_alpha_f w mp) body w xs ys = Done out /\ length out = length xs /\
    forall i, i < length xs ->
      let P := pairs (win w i xs) (win w i ys) in
      exists o, nth_error out i = Some o /\
        (is_null o = true <-> length P < mp_eff mp w 0 \/ detB P = 0%R).
Proof.
  intros Hw Hlen.
  apply mask_transfer with
    (F := fun i => (fun P => if mp_eff mp w 0 <=? length P then ols_x P (fun al _ => al) else None)
                     (pairs (win w i xs) (win w i ys)))
    (P := fun i o => let P := pairs (win w i xs) (win w i ys) in
            is_null o = true <-> length P < mp_eff mp w 0 \/ detB P = 0%R).
  - apply (csum_entry (emit_regx_alpha (mp_eff mp w 0))
             (fun P => if mp_eff mp w 0 <=? length P then ols_x P (fun al _ => al) else None));
      [exact Hw|exact Hlen|].
    intros s W HA. apply emit_regx_alpha_spec. exact HA.
  - intros i Hi. cbv zeta. rewrite is_null_onull. apply gate_prop. intros _. apply olsx_null.
Qed.

Theorem mask_vregx_beta body (w : nat) mp (xs ys : list XR) :
  1 <= w -> length xs = length ys ->
  exists out, ts_run2 (ts_vregx_beta_f w mp) body w xs ys = Done out /\ length out = length xs /\
    forall i, i < length xs ->
      let P := pairs (win w i xs) (win w i ys) in
      exists o, nth_error out i = Some o /\
        (is_null o = true <-> length P < mp_eff mp w 0 \/ detB P = 0%R).
Proof.
  intros Hw Hlen.
  apply mask_transfer with
    (F := fun i => (fun P => if mp_eff mp w 0 <=? length P then ols_x P (fun _ be => be) else None)
                     (pairs (win w i xs) (win w i ys)))
    (P := fun i o => let P := pairs (win w i xs) (win w i ys) in
            is_null o = true <-> length P < mp_eff mp w 0 \/ detB P = 0%R).
  - apply (csum_entry (emit_regx_beta (mp_eff mp w 0))
             (fun P => if mp_eff mp w 0 <=? length P then ols_x P (fun _ be => be) else None));
      [exact Hw|exact Hlen|].
    intros s W HA. apply emit_regx_beta_spec. exact HA.
  - intros i Hi. cbv zeta. rewrite is_null_onull. apply gate_prop. intros _. apply olsx_null.
Qed.

(* ts_vregx_all emits (alpha, beta, SSE): the three components are null together *)
Theorem mask_vregx_all body (w : nat) mp (xs ys : list XR) :
  1 <= w -> length xs = length ys ->
  exists out, ts_run2 (ts_vregx_all_f w mp) body w xs ys = Done out /\ length out = length xs /\
    forall i, i < length xs ->
      let P := pairs (win w i xs) (win w i ys) in
      exists o, nth_error out i = Some o /\
        (is_null (fst (fst o)) = true <-> length P < mp_eff mp w 0 \/ detB P = 0%R) /\
        (is_null (snd (fst o)) = true <-> length P < mp_eff mp w 0 \/ detB P = 0%R) /\
        (is_null (snd o) = true <-> length P < mp_eff mp w 0 \/ detB P = 0%R).
Proof.
  intros Hw Hlen.
  apply mask_transfer with
    (F := fun i => (fun P => if mp_eff mp w 0 <=? length P then
                       (if Req_EM_T (detB P) 0 then (None, None, None)
                        else (Some (ols_alpha P), Some (ols_beta P),
                              Some (sse (ols_alpha P) (ols_beta P) P)))
                     else (None, None, None)) (pairs (win w i xs) (win w i ys)))
    (P := fun i (o : XR * XR * XR) => let P := pairs (win w i xs) (win w i ys) in
            (is_null (fst (fst o)) = true <-> length P < mp_eff mp w 0 \/ detB P = 0%R) /\
            (is_null (snd (fst o)) = true <-> length P < mp_eff mp w 0 \/ detB P = 0%R) /\
            (is_null (snd o) = true <-> length P < mp_eff mp w 0 \/ detB P = 0%R)).
  - apply (csum_entry (emit_regx_all (mp_eff mp w 0))
             (fun P => if mp_eff mp w 0 <=? length P then
                         (if Req_EM_T (detB P) 0 then (None, None, None)
                          else (Some (ols_alpha P), Some (ols_beta P),
                                Some (sse (ols_alpha P) (ols_beta P) P)))
                       else (None, None, None))); [exact Hw|exact Hlen|].
    intros s W HA. apply emit_regx_all_spec. exact HA.
  - intros i Hi. cbv zeta. set (P := pairs (win w i xs) (win w i ys)).
    destruct (mp_eff mp w 0 <=? length P) eqn:E.
    + apply Nat.leb_le in E. destruct (Req_EM_T (detB P) 0) as [D|D]; cbn [fst snd is_null].
      * repeat split; try (intros _; right; exact D); reflexivity.
      * repeat split; try discriminate; intros [H|H]; try (exfalso; lia); contradiction.
    + apply Nat.leb_gt in E. cbn [fst snd is_null].
      repeat split; try (intros _; left; exact E); reflexivity.
Qed.
