(* Proofs/Norm.v — tea-rolling/src/norm.rs at the proof instance XR = option R (float-like nulls):
   ts_vzscore = (x - mean) / sample-std of the valid window, null when x is null, below min_periods, or the
   population variance is <= EPS ("zero spread").                                                        *)
From Coq Require Import Reals Lra Lia List.
From Tevec Require Import Base.Prelude Base.Num Base.XR Spec.Stats Model.Driver Proofs.Driver
     Model.Features Proofs.Sliding Proofs.Features Model.Cmp Model.Norm.
Import ListNotations.
Local Open Scope R_scope.

(* ---- z-score ------------------------------------------------------------------------------------ *)
Definition enc_cur (v : XR) : option XR := match v with Some r => Some (Some r) | None => None end.

Definition zs_abs (s : @zs XR) (l : list XR) : Prop :=
  z_n s = nv l /\ z_s1 s = Some (psum 1 (valid l)) /\ z_s2 s = Some (psum 2 (valid l)) /\
  (forall l' v, l = l' ++ [v] -> z_cur s = enc_cur v).

Lemma zs_abs_init : zs_abs zs0 [].
Proof.
  unfold zs_abs, zs0, nv, psum. cbn. repeat split; try reflexivity.
  intros l' v H. destruct l'; discriminate.
Qed.

Lemma zs_abs_pre s l v : zs_abs s l -> zs_abs (zs_pre s v) (l ++ [v]).
Proof.
  intros (Hn & H1 & H2 & _). unfold zs_pre, not_none.
  destruct v as [r|]; cbn [is_none IsNoneXR IsNone_float nisnan NumXR xisnan negb unwrap].
  - unfold zs_abs, nv. rewrite valid_app. cbn [valid flat_map app z_n z_s1 z_s2 z_cur].
    rewrite H1, H2, !xmul_some, !xadd_some, !psum_app, !psum_single, app_length, Hn.
    unfold nv. cbn [length]. repeat split; try (f_equal; ring); try lia.
    intros l' v' E. apply app_inj_tail in E. destruct E as [_ <-]. reflexivity.
  - unfold zs_abs, nv. rewrite valid_app. cbn [valid flat_map app z_n z_s1 z_s2 z_cur]. rewrite app_nil_r.
    repeat split; try assumption.
    intros l' v' E. apply app_inj_tail in E. destruct E as [_ <-]. reflexivity.
Qed.

Lemma zs_abs_post s x l : zs_abs s (x :: l) -> zs_abs (zs_post s (Some x)) l.
Proof.
  intros (Hn & H1 & H2 & Hc). unfold zs_post, not_none.
  assert (Hc' : forall t, forall l' v, l = l' ++ [v] -> z_cur t = z_cur s -> z_cur t = enc_cur v).
  { intros t l' v E Et. rewrite Et. apply (Hc (x :: l')). rewrite E. reflexivity. }
  destruct x as [r|]; cbn [is_none IsNoneXR IsNone_float nisnan NumXR xisnan negb unwrap].
  - unfold zs_abs, nv in *. cbn [valid flat_map app] in *. fold (valid l) in *.
    cbn [z_n z_s1 z_s2 z_cur].
    rewrite H1, H2, !xmul_some, !xsub_some, !psum_cons, Hn. cbn [length].
    repeat split; try (f_equal; ring); try lia.
    intros l' v E. apply (Hc' s l' v E). reflexivity.
  - unfold zs_abs, nv in *. cbn [valid flat_map app] in *. fold (valid l) in *.
    repeat split; try assumption. intros l' v E. apply (Hc' s l' v E). reflexivity.
Qed.

(* a one-element list has zero population variance *)
Lemma popvar_single a : popvarR [a] = 0.
Proof. unfold popvarR, cmom, devsum, meanR, sumR, nR. cbn. field. Qed.

Lemma zs_emit_spec mp s W l' v :
  zs_abs s W -> W = l' ++ [v] ->
  zs_emit mp s =
  match v with
  | None => None
  | Some x =>
      let V := valid W in
      if (mp <=? length V)%nat then
        (if Rlt_dec EPS (popvarR V) then Some ((x - meanR V) / samplestdR V) else None)
      else None
  end.
Proof.
  intros (Hn & H1 & H2 & Hc) HW. unfold zs_emit. rewrite (Hc l' v HW).
  destruct v as [x|]; [|reflexivity]. cbn [enc_cur]. cbv zeta.
  set (V := valid W). set (n := length V).
  assert (Hnv : z_n s = n) by exact Hn. rewrite Hnv.
  destruct (mp <=? n)%nat; [|reflexivity].
  assert (Hx : In x V).
  { unfold V. rewrite HW, valid_app. apply in_or_app. right. left. reflexivity. }
  assert (Hn1 : (1 <= n)%nat) by (unfold n; destruct V; [contradiction|cbn; lia]).
  assert (HnR : INR n <> 0) by (apply not_0_INR; lia).
  rewrite H1, H2, xofnat. fold V. rewrite !xdiv_some by exact HnR. rewrite powi_some, xsub_some.
  pose proof (popvar_identity W) as HPI. fold V in HPI. fold n in HPI. rewrite HPI by lia.
  change neps with (Some EPS). cbn [nltb NumXR xltb].
  destruct (Rlt_dec EPS (popvarR V)) as [Hgt|Hle]; [|reflexivity].
  assert (Hn2 : (2 <= n)%nat).
  { destruct (Nat.eq_dec n 1) as [E1|]; [|lia]. exfalso.
    unfold n in E1. destruct V as [|a [|b V']]; try discriminate.
    rewrite popvar_single in Hgt. pose proof EPS_pos. lra. }
  rewrite xofnat, xmul_some, xdiv_some by (apply not_0_INR; lia).
  pose proof (sample_from_pop W) as HSP. fold V in HSP. fold n in HSP. rewrite HSP by lia.
  pose proof (samplevar_nonneg W) as Hnn. fold V in Hnn. fold n in Hnn. specialize (Hnn Hn2).
  rewrite xsqrt_some by exact Hnn. rewrite xsub_some.
  assert (Hpos : 0 < samplevarR V).
  { rewrite <- HSP by lia.
    pose proof EPS_pos. apply Rmult_lt_0_compat; [apply Rmult_lt_0_compat; [lra|apply lt_0_INR; lia]|].
    apply Rinv_0_lt_compat. apply lt_0_INR. lia. }
  rewrite xdiv_some; [unfold samplestdR, meanR, nR; rewrite psum_1; reflexivity|]. unfold samplestdR.
  pose proof (sqrt_lt_R0 _ Hpos). lra.
Qed.

Theorem ts_vzscore_spec body (w : nat) (mp : option nat) (xs : list XR) :
  (1 <= w)%nat ->
  exists out, ts_vzscore body w mp xs = Done out /\ length out = length xs /\
    forall i, (i < length xs)%nat ->
      nth_error out i =
      Some (match nth_error xs i with
            | Some (Some x) =>
                let V := valid (win w i xs) in
                if (mp_eff mp w 0 <=? length V)%nat then
                  (if Rlt_dec EPS (popvarR V) then Some ((x - meanR V) / samplestdR V) else None)
                else None
            | _ => None
            end).
Proof.
  intros Hw.
  destruct (sliding_ts_run (ts_vzscore_f w mp) zs_abs zs_abs_init zs_abs_pre zs_abs_post
              (fun s => eq_refl) w Hw xs body) as (out & H1 & H2 & H3).
  exists out. split; [exact H1|]. split; [exact H2|]. intros i Hi.
  destruct (nth_error xs i) as [v|] eqn:Hv; [|apply nth_error_None in Hv; lia].
  destruct (H3 i v Hv) as (s & Habs & Hout). rewrite Hout. f_equal.
  (* the window ends with the current element *)
  assert (HW : win w i xs = seg (wstart w i) i xs ++ [v]).
  { rewrite win_seg. apply seg_snoc; [unfold wstart; lia|exact Hv]. }
  cbn [f_emit ts_vzscore_f]. rewrite (zs_emit_spec (mp_eff mp w 0) s _ _ v Habs HW).
  destruct v; reflexivity.
Qed.

(* ---- min-max normalisation: the closed form of the emitted value -------------------------------- *)
(* greatest / least element of a non-empty list of reals (0 on the empty list) *)
Definition lmaxR (l : list R) : R := match l with [] => 0 | a :: r => fold_left Rmax r a end.
Definition lminR (l : list R) : R := match l with [] => 0 | a :: r => fold_left Rmin r a end.

(* once the cached maximum and minimum are those of the valid window, the value emitted for a valid current
   element x is (x - min) / (max - min), null when max = min or below min_periods *)
Lemma mmnorm_emit_closed (mp n : nat) (x mx mn : R) :
  (if (mp <=? n)%nat && negb (neqb (Some mx) (Some mn))
   then ndiv (nsub (Some x) (Some mn)) (nsub (Some mx) (Some mn)) else nnan) =
  if (mp <=? n)%nat then (if Req_EM_T mx mn then None else Some ((x - mn) / (mx - mn))) else None.
Proof.
  destruct (mp <=? n)%nat; [|reflexivity]. cbn [andb neqb NumXR xeqb].
  destruct (Req_EM_T mx mn) as [E|E]; [reflexivity|]. cbn [negb].
  rewrite !xsub_some, xdiv_some by lra. reflexivity.
Qed.
