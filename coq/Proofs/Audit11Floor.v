(* Proofs/Audit11Floor.v — audit of C11: `f64::floor` / `f64::ceil` as executed by the correspondence run
   (Run/RunC11.v f64_floor / f64_ceil, the NumRound instance of Coq's binary64) ARE the mathematical floor / ceiling
   of the real value, for every finite float; NaN and the infinities are returned unchanged.
   Through Flocq's specification of IEEE 754 (Prim2B / B2R) and Proofs/QIdxFloat.v (f64_floorZ_spec, nofnat_f64_exact). *)
From Coq Require Import Reals Lra Lia ZArith List Floats Bool.
From Flocq Require Import Core BinarySingleNaN.
From Flocq Require PrimFloat.
From Tevec Require Import Base.Prelude Base.Num Base.F64 Proofs.RoundSum.
From Tevec Require Proofs.QIdxFloat Run.RunC11.
Local Open Scope R_scope.

Module FPx := Flocq.IEEE754.PrimFloat.

Lemma floorZ_same x : Run.RunC11.f64_floorZ x = Proofs.QIdxFloat.f64_floorZ x.
Proof. reflexivity. Qed.

(* an integer below 2^53 in magnitude converts exactly *)
Lemma f64_ofZ_exact (z : Z) : (Z.abs z < 2 ^ 53)%Z -> ffin (f64_ofZ z) = true /\ f2r (f64_ofZ z) = IZR z.
Proof.
  intros H. destruct (Z.ltb_spec z 0) as [Hn|Hp].
  - assert (E : f64_ofZ z = (- f64_ofZ (- z))%float).
    { unfold f64_ofZ. rewrite Z.abs_opp.
      replace (z <? 0)%Z with true by (symmetry; apply Z.ltb_lt; lia).
      replace (- z <? 0)%Z with false by (symmetry; apply Z.ltb_ge; lia). reflexivity. }
    rewrite E, ffin_opp, f2r_opp.
    destruct (Proofs.QIdxFloat.nofnat_f64_exact (Z.to_nat (- z))) as [F V]; [rewrite Z2Nat.id; lia|].
    unfold nofnat in F, V. cbn [nofZ NumF64] in F, V. rewrite Z2Nat.id in F, V by lia.
    split; [exact F|]. rewrite V, opp_IZR. ring.
  - destruct (Proofs.QIdxFloat.nofnat_f64_exact (Z.to_nat z)) as [F V]; [rewrite Z2Nat.id; lia|].
    unfold nofnat in F, V. cbn [nofZ NumF64] in F, V. rewrite Z2Nat.id in F, V by lia. split; assumption.
Qed.

(* what the representation of a finite float says about its real value *)
Lemma repr_facts (x : float) : ffin x = true ->
  match Prim2SF x with
  | S754_zero _ => f2r x = 0
  | S754_finite s m e =>
      ((0 <= e)%Z -> f2r x = IZR (if s then - (Zpos m * 2 ^ e) else Zpos m * 2 ^ e)) /\
      ((e < 0)%Z -> Rabs (f2r x) < IZR (2 ^ 52))
  | _ => False
  end.
Proof.
  rewrite ffin_equiv. unfold f2r. rewrite <- FPx.B2SF_Prim2B.
  destruct (FPx.Prim2B x) as [s|s| |s m e Hb]; cbn [B2SF B2R is_finite]; try discriminate; intros _; [reflexivity|].
  split.
  - intros He. unfold F2R. cbn [Fnum Fexp]. rewrite <- (IZR_Zpower radix2) by exact He. rewrite <- mult_IZR.
    change (radix2 : Z) with 2%Z. destruct s; cbn [cond_Zopp]; f_equal; lia.
  - intros He.
    (* mantissa below 2^53 *)
    assert (Hm : (Zpos m < 2 ^ 53)%Z).
    { unfold bounded in Hb. apply andb_prop in Hb. destruct Hb as [Hc _]. unfold canonical_mantissa in Hc.
      apply Zeq_bool_eq in Hc. rewrite Zpos_digits2_pos in Hc.
      pose proof (Zdigits_correct radix2 (Zpos m)) as [_ Hd]. rewrite Z.abs_eq in Hd by lia.
      unfold SpecFloat.fexp in Hc.
      assert (Hle : (Zdigits radix2 (Z.pos m) <= 53)%Z) by (unfold FloatOps.prec in Hc; lia).
      eapply Z.lt_le_trans; [exact Hd|]. change (radix2 : Z) with 2%Z. apply Z.pow_le_mono_r; lia. }
    unfold F2R. cbn [Fnum Fexp]. rewrite Rabs_mult, <- abs_IZR.
    assert (Ha : Z.abs (cond_Zopp s (Z.pos m)) = Z.pos m) by (destruct s; reflexivity). rewrite Ha.
    rewrite (Rabs_pos_eq (bpow radix2 e)) by apply bpow_ge_0.
    assert (Hb1 : bpow radix2 e <= bpow radix2 (-1)) by (apply bpow_le; lia).
    assert (Hb0 : 0 < bpow radix2 e) by apply bpow_gt_0.
    assert (Hm' : IZR (Z.pos m) < IZR (2 ^ 53)) by (apply IZR_lt, Hm).
    assert (Hmp : 0 < IZR (Z.pos m)) by (apply IZR_lt; lia).
    apply Rlt_le_trans with (IZR (2 ^ 53) * bpow radix2 e).
    + apply Rmult_lt_compat_r; assumption.
    + apply Rle_trans with (IZR (2 ^ 53) * bpow radix2 (-1)).
      * apply Rmult_le_compat_l; [apply IZR_le; lia|exact Hb1].
      * change (bpow radix2 (-1)) with (/ 2). change (2 ^ 53)%Z with (2 * 2 ^ 52)%Z. rewrite mult_IZR. lra.
Qed.

Lemma floor_abs_bound (r : R) (k : Z) : Rabs r < IZR k -> (Z.abs (Zfloor r) <= k)%Z.
Proof.
  intros H. pose proof (Zfloor_lb r) as L. pose proof (Zfloor_ub r) as U.
  assert (Hk : 0 < IZR k) by (pose proof (Rabs_pos r); lra).
  apply Rabs_def2 in H. destruct H as [H1 H2].
  assert (A : (Zfloor r < k)%Z) by (apply lt_IZR; lra).
  assert (B : (- k - 1 < Zfloor r)%Z) by (apply lt_IZR; rewrite minus_IZR, opp_IZR; lra).
  lia.
Qed.

Theorem f64_floor_spec (x : float) : ffin x = true ->
  ffin (Run.RunC11.f64_floor x) = true /\ f2r (Run.RunC11.f64_floor x) = IZR (Zfloor (f2r x)).
Proof.
  intros Hf. pose proof (Proofs.QIdxFloat.f64_floorZ_spec x Hf) as Hz. rewrite <- floorZ_same in Hz.
  pose proof (repr_facts x Hf) as HR. unfold Run.RunC11.f64_floor.
  assert (Hdef : Run.RunC11.f64_floorZ x =
                 match Prim2SF x with
                 | S754_finite s m e =>
                     if (0 <=? e)%Z then (if s then - (Zpos m * 2 ^ e) else Zpos m * 2 ^ e)%Z
                     else let d := (2 ^ (- e))%Z in if s then (- ((Zpos m + d - 1) / d))%Z else (Zpos m / d)%Z
                 | _ => 0%Z end) by reflexivity.
  set (z := Run.RunC11.f64_floorZ x) in *.
  destruct (Prim2SF x) as [s|s| |s m e]; try contradiction.
  - split; [exact Hf|]. rewrite HR. symmetry. f_equal. apply (Zfloor_IZR 0).
  - destruct HR as [HR1 HR2]. destruct (Z.leb_spec 0 e) as [He|He].
    + split; [exact Hf|]. rewrite (HR1 He). rewrite Zfloor_IZR. reflexivity.
    + assert (Hb : (Z.abs z < 2 ^ 53)%Z).
      { rewrite Hz. pose proof (floor_abs_bound (f2r x) (2 ^ 52) (HR2 He)). lia. }
      destruct (Z.eqb_spec z 0) as [E0|E0].
      * rewrite <- Hz, E0. destruct s.
        -- split; [reflexivity|]. change neg_zero with (- zero)%float. rewrite f2r_opp, f2r_zero. ring.
        -- split; [reflexivity|]. apply f2r_zero.
      * destruct (f64_ofZ_exact z Hb) as [F V]. split; [exact F|]. rewrite V, Hz. reflexivity.
Qed.

(* NaN and the infinities are returned as they are *)
Theorem f64_floor_nonfinite (x : float) : ffin x = false -> Run.RunC11.f64_floor x = x \/ Prim2SF x = S754_zero true \/ Prim2SF x = S754_zero false.
Proof.
  intros Hf. unfold Run.RunC11.f64_floor. destruct (Prim2SF x) eqn:E; try (left; reflexivity).
  exfalso. rewrite ffin_equiv in Hf. rewrite <- FPx.B2SF_Prim2B in E.
  destruct (FPx.Prim2B x); cbn [B2SF is_finite] in *; discriminate.
Qed.

Theorem f64_ceil_spec (x : float) : ffin x = true ->
  ffin (Run.RunC11.f64_ceil x) = true /\ f2r (Run.RunC11.f64_ceil x) = IZR (Zceil (f2r x)).
Proof.
  intros Hf. unfold Run.RunC11.f64_ceil.
  destruct (f64_floor_spec (- x)%float) as [F V]; [rewrite ffin_opp; exact Hf|].
  rewrite ffin_opp, f2r_opp. split; [exact F|]. rewrite V, f2r_opp. unfold Zceil. rewrite opp_IZR. reflexivity.
Qed.
