(* Proofs/IdxRun.v — the positional invariant rule for callbacks run by the window-index drivers
   (rolling_apply_idx, both bodies) in the Ok/Panic monad (Model/Cmp.v: lift_cb, seal, idx_run).
   If a predicate `Pre k s` ("state before step k") holds initially and every step from a state satisfying
   it succeeds, re-establishes it for k+1 and produces an output satisfying `Out k`, then the whole call
   returns (no panic, every slot written) and output k satisfies `Out k` — for every series.
   Stdlib only, axiom-free.                                                                        *)
From Tevec Require Import Base.Prelude Model.Driver Proofs.Driver Model.Cmp.

Lemma skipn_cons_nth {T} k (xs : list T) v l :
  skipn k xs = v :: l -> nth_error xs k = Some v /\ skipn (S k) xs = l.
Proof.
  revert xs; induction k as [|k IH]; intros xs H.
  - destruct xs as [|x xs]; [discriminate|]. cbn in H. injection H as -> ->. split; reflexivity.
  - destruct xs as [|x xs]; [discriminate|]. cbn [skipn] in H. apply IH in H. exact H.
Qed.

Lemma collect_map_Ok {O} (l : list O) : collect (map Ok l) = Ok l.
Proof. induction l as [|a l IH]; [reflexivity|]. cbn. rewrite IH. reflexivity. Qed.

Lemma firstn_S_nth {X} (l : list X) k a : nth_error l k = Some a -> firstn (S k) l = firstn k l ++ [a].
Proof.
  revert l; induction k as [|k IH]; intros l H; destruct l as [|b l]; try discriminate; cbn in *.
  - injection H as ->. reflexivity.
  - f_equal. apply IH. exact H.
Qed.

Section IdxRun.
  Context {T St O : Type}.
  Variable cb : St -> option nat * nat * T -> res (St * O).
  Variable xs : list T.
  Variable sf : nat -> option nat.          (* the start index the driver passes at step k *)
  Variable Pre : nat -> St -> Prop.
  Variable Out : nat -> O -> Prop.
  Hypothesis step : forall k v s, nth_error xs k = Some v -> Pre k s ->
    exists s' o, cb s (sf k, k, v) = Ok (s', o) /\ Pre (S k) s' /\ Out k o.

  Lemma run_lift_from : forall l k s, skipn k xs = l -> Pre k s ->
    exists outs,
      run (lift_cb cb) (Ok s)
          (map (fun p => (sf (fst p), fst p, snd p)) (combine (seq k (length l)) l)) = map Ok outs /\
      length outs = length l /\
      forall j o, nth_error outs j = Some o -> Out (k + j) o.
  Proof.
    induction l as [|v l IH]; intros k s Hl HP.
    - exists []. cbn. split; [reflexivity|]. split; [reflexivity|]. intros j o H. destruct j; discriminate.
    - destruct (@skipn_cons_nth T k xs v l Hl) as [Hv Hl'].
      destruct (step k v s Hv HP) as (s' & o & Hcb & HP' & HO).
      destruct (IH (S k) s' Hl' HP') as (outs & Hrun & Hlen & Hout).
      exists (o :: outs). cbn [length seq combine map run fst snd lift_cb]. rewrite Hcb.
      cbn [map]. rewrite Hrun. split; [reflexivity|]. split; [cbn; f_equal; exact Hlen|].
      intros j o' Hj. destruct j as [|j].
      + cbn in Hj. injection Hj as <-. rewrite Nat.add_0_r. exact HO.
      + cbn in Hj. replace (k + S j) with (S k + j) by lia. apply Hout. exact Hj.
  Qed.

  Lemma run_lift_all s0 : Pre 0 s0 ->
    exists outs,
      run (lift_cb cb) (Ok s0) (mapi (fun i v => (sf i, i, v)) xs) = map Ok outs /\
      length outs = length xs /\
      forall j o, nth_error outs j = Some o -> Out j o.
  Proof.
    intros HP. destruct (run_lift_from xs 0 s0 eq_refl HP) as (outs & H1 & H2 & H3).
    exists outs. split; [|split; [exact H2|exact H3]].
    unfold mapi. exact H1.
  Qed.

  (* the state between the steps: after k steps it satisfies Pre k *)
  Lemma state_lift s0 : Pre 0 s0 -> forall k, k <= length xs ->
    exists s, state_after (lift_cb cb) (Ok s0) (firstn k (mapi (fun i v => (sf i, i, v)) xs)) = Ok s /\
              Pre k s.
  Proof.
    intros HP0. induction k as [|k IH]; intros Hk.
    - exists s0. split; [reflexivity|exact HP0].
    - destruct IH as (s & Hs & HP); [lia|].
      destruct (nth_error_Some_lt xs k) as [v Hv]; [lia|].
      assert (Ha : nth_error (mapi (fun i v => (sf i, i, v)) xs) k = Some (sf k, k, v))
        by (rewrite nth_error_mapi, Hv; reflexivity).
      rewrite (firstn_S_nth _ _ _ Ha), state_after_app, Hs. cbn [state_after fst lift_cb].
      destruct (step k v s Hv HP) as (s' & o & Hcb & HP' & _). rewrite Hcb. cbn [fst].
      exists s'. split; [reflexivity|exact HP'].
  Qed.
End IdxRun.

(* both bodies: the start index passed at step k is start_of (driver window) k, where the two-phase body
   clamps the window to the length once more *)
Definition eff_window (body : bool) (w len : nat) : nat := if body then Nat.min w len else w.

Theorem idx_run_spec {T St O} (cb : St -> option nat * nat * T -> res (St * O)) (xs : list T)
        (body : bool) (w : nat) (Pre : nat -> St -> Prop) (Out : nat -> O -> Prop) (s0 : St) :
  1 <= w ->
  Pre 0 s0 ->
  (forall k v s, nth_error xs k = Some v -> Pre k s ->
     exists s' o, cb s (start_of (eff_window body w (length xs)) k, k, v) = Ok (s', o) /\
                  Pre (S k) s' /\ Out k o) ->
  exists outs, idx_run body w cb s0 xs = Done outs /\ length outs = length xs /\
               forall j o, nth_error outs j = Some o -> Out j o.
Proof.
  intros Hw H0 Hstep.
  destruct (run_lift_all cb xs (start_of (eff_window body w (length xs))) Pre Out Hstep s0 H0)
    as (outs & Hrun & Hlen & Hout).
  exists outs. split; [|split; [exact Hlen|exact Hout]].
  unfold idx_run. destruct body; cbn [eff_window] in Hrun.
  - rewrite rolling_apply_idx_to_eq by exact Hw. unfold args_to_idx. rewrite Hrun.
    cbn [seal]. rewrite collect_map_Ok. reflexivity.
  - rewrite rolling_apply_idx_default_eq by exact Hw. rewrite Hrun.
    cbn [seal]. rewrite collect_map_Ok. reflexivity.
Qed.
