(* Proofs/Audit20Float.v — C20 audit, binary64: the carrier-generic theorems of Proofs/Audit20.v instantiated at Coq's
   primitive `float` with the dictionaries the correspondence run executes (Run/RunC20.v).  The order laws of
   PrimFloat.ltb come from Proofs/CmpOrdFloat.v (FloatAxioms.{ltb,leb,eqb}_spec).                          *)
From Coq Require Import ZArith List Bool Floats Lia.
From Tevec Require Import Base.Prelude Model.MapOps Spec.MapOps Proofs.MapOps.
From Tevec Require Import Base.Num Base.F64 Model.Features Model.SortCmp Model.Quantile Model.Rank Model.Agg
     Model.HalfLife Model.Composite Spec.ExtremaOrd Proofs.CmpOrdFloat Proofs.HalfLifeProbes Proofs.Audit20.
From Tevec Require Run.RunC20 Run.RunC12.
Import ListNotations.

Lemma f64_nan_is_nan : nisnan (nnan : float) = true.
Proof. reflexivity. Qed.

(* ---- winsorize at binary64: every element type (any dictionary over float), method, parameter ---- *)
Section WinsorizeF64.
  Context {T : Type} {DT : IsNone T float}.

  Theorem winsorize_binary64 (m : wmethod) (p : option float) (xs : list T) (r : list float) :
    winsorize (NF := Run.RunC12.NumFloorF64) m p xs = Ok (Some r) ->
    length r = length xs /\
    (forall i x, nth_error xs i = Some x -> Num.is_none x = true -> nth_error r i = Some nan) /\
    exists lo hi,
      (forall i x, nth_error xs i = Some x ->
         exists y, nth_error r i = Some y /\ is_nan y = is_nan (tcast x) /\
           (y = tcast x \/ (is_nan (tcast x) = false /\ (((tcast x <? lo)%float = true /\ y = lo) \/ ((hi <? tcast x)%float = true /\ y = hi))))) /\
      ((is_nan lo = false -> is_nan hi = false -> (hi <? lo)%float = false) ->
       forall i j x x', nth_error xs i = Some x -> nth_error xs j = Some x' ->
         is_nan (tcast x) = false -> is_nan (tcast x') = false -> (tcast x' <? tcast x)%float = false ->
         exists y y', nth_error r i = Some y /\ nth_error r j = Some y' /\ (y' <? y)%float = false /\
                      (is_nan lo = false -> (y <? lo)%float = false) /\ (is_nan hi = false -> (hi <? y)%float = false)).
  Proof.
    intros Hr. split; [apply (winsorize_returns m p xs r Hr)|].
    split; [intros i x Hi Hx; exact (winsorize_keeps_nulls m p xs r f64_nan_is_nan Hr i x Hi Hx)|].
    destruct (winsorize_shape m p xs) as [(k & E)|[(_ & E)|[E|(lo & hi & E)]]]; rewrite E in Hr; try discriminate.
    - injection Hr as <-. exists nan, nan. split.
      + intros i x Hi. exists (tcast x). unfold iter_cast. rewrite nth_error_map, Hi.
        split; [reflexivity|]. split; [reflexivity|left; reflexivity].
      + intros _ i j x x' Hi Hj Hx Hx' Hle. exists (tcast x), (tcast x'). unfold iter_cast. rewrite !nth_error_map, Hi, Hj.
        split; [reflexivity|]. split; [reflexivity|]. split; [exact Hle|]. split; intros H; discriminate H.
    - injection Hr as <-. exists lo, hi. split.
      + intros i x Hi. exists (clipA lo hi (tcast x)). unfold iter_cast. rewrite !nth_error_map, Hi. split; [reflexivity|].
        destruct (clipA_cases lo hi (tcast x)) as [Hn Hc]. split; [exact Hn|].
        destruct Hc as [Hc|(Hx & [(_ & Hc & Hy)|(_ & Hc & Hy)])]; [left; exact Hc|right|right]; (split; [exact Hx|]); auto.
      + intros Hlh i j x x' Hi Hj Hx Hx' Hle.
        exists (clipA lo hi (tcast x)), (clipA lo hi (tcast x')). unfold iter_cast. rewrite !nth_error_map, Hi, Hj.
        split; [reflexivity|]. split; [reflexivity|].
        split; [apply (clipA_monotone ordlaws_F64); assumption|apply (clipA_contained ordlaws_F64); assumption].
  Qed.
End WinsorizeF64.

(* ---- half_life at binary64, on the dictionaries of the run: f64 (NaN null) and Option<f64> ---- *)
Theorem half_life_binary64_f64 (mp : option nat) (xs : list float) :
  exists r, half_life_exec (DT := IsNoneF64) Run.RunC20.mF mp xs = Some (Ok r) /\
            r <= length xs - 1 /\ (r = 0 <-> length xs < 2).
Proof. apply (half_life_exec_total_any Run.RunC20.mF f64_nan_is_nan mp nan xs); reflexivity. Qed.

Theorem half_life_binary64_opt (mp : option nat) (xs : list (option float)) :
  exists r, half_life_exec (DT := IsNoneOptF64) Run.RunC20.mO mp xs = Some (Ok r) /\
            r <= length xs - 1 /\ (r = 0 <-> length xs < 2).
Proof. apply (half_life_exec_total_any Run.RunC20.mO f64_nan_is_nan mp None xs); reflexivity. Qed.

(* the i32 rendering of the run: T::none() panics *)
Theorem half_life_binary64_i32 (mp : option nat) (xs : list float) :
  half_life_exec (DT := Run.RunC20.Dn20) Run.RunC20.mN mp xs
  = if length xs =? 0 then Some (Ok 0) else Some (Panic OtherPanic).
Proof. apply half_life_exec_none_panics_any. reflexivity. Qed.
