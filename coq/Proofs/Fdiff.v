(* Proofs/Fdiff.v — plain ts_fdiff at XR: output i = sum_k (-1)^k C(d,k) x_{i-k} over the window. *)
From Coq Require Import Reals Lra Lia List.
From Tevec Require Import Base.Prelude Base.Num Base.XR Spec.Stats Model.Driver Proofs.Driver
     Model.Features Model.Fdiff.
Import ListNotations.
Local Open Scope R_scope.

(* generalised binomial coefficient over R: prod_{i=j}^{j+k-1} (d-i)/(i+1) *)
Fixpoint binomR_from (d : R) (j k : nat) : R :=
  match k with O => 1 | S k' => ((d - INR j) / INR (S j)) * binomR_from d (S j) k' end.
Definition binomR (d : R) (k : nat) : R := binomR_from d 0 k.

(* weight of the k-th most recent element *)
Definition fdiff_weight (d : R) (k : nat) : R := binomR d k * (-1) ^ k.
(* the from-scratch fractional difference of a window (oldest element first) *)
Definition fdiffR (d : R) (l : list R) : R :=
  sumR (map (fun p => fst p * fdiff_weight d (snd p)) (combine l (rev (seq 0 (length l))))).

Lemma binom_from_some d j k : binom_from (Some d) j k = Some (binomR_from d j k).
Proof.
  revert j; induction k as [|k IH]; intros j; cbn [binom_from binomR_from]; [reflexivity|].
  rewrite IH, !xofnat, xsub_some. rewrite xdiv_some by (apply not_0_INR; lia).
  rewrite xmul_some. reflexivity.
Qed.

Lemma sign_pow w : (if Nat.even w then 1 else -1) = (-1) ^ w.
Proof.
  destruct (Nat.even w) eqn:E.
  - apply Nat.even_spec in E. destruct E as [m ->]. rewrite pow_1_even. reflexivity.
  - assert (Ho : Nat.odd w = true) by (rewrite <- Nat.negb_even, E; reflexivity).
    apply Nat.odd_spec in Ho. destruct Ho as [m ->].
    replace (2 * m + 1)%nat with (S (2 * m)) by lia. rewrite pow_1_odd. reflexivity.
Qed.

Lemma rev_seq_S w : rev (seq 0 (S w)) = w :: rev (seq 0 w).
Proof. rewrite seq_S, rev_app_distr. reflexivity. Qed.

Lemma coef_go_spec d w :
  coef_go (Some d) (Some ((-1) ^ w)) (rev (seq 0 w))
  = map (fun v => Some (fdiff_weight d v)) (rev (seq 0 w)).
Proof.
  induction w as [|w IH]; [reflexivity|].
  rewrite rev_seq_S. cbn [coef_go map]. unfold binom. rewrite binom_from_some.
  cbn [nneg NumXR xlift1]. rewrite xmul_some.
  replace (- (-1) ^ S w) with ((-1) ^ w) by (cbn [pow]; ring).
  rewrite IH. reflexivity.
Qed.

Lemma fdiff_coef_spec d w :
  fdiff_coef (Some d) w = map (fun v => Some (fdiff_weight d v)) (rev (seq 0 w)).
Proof.
  unfold fdiff_coef.
  replace (if Nat.even w then none else nneg none) with (Some ((-1) ^ w)).
  - apply coef_go_spec.
  - rewrite <- sign_pow. destruct (Nat.even w); cbn; f_equal; ring.
Qed.

Lemma skipn_rev_seq {Y} (f : nat -> Y) w m :
  (m <= w)%nat -> skipn (w - m) (map f (rev (seq 0 w))) = map f (rev (seq 0 m)).
Proof.
  intros Hm. replace w with (m + (w - m))%nat at 2 by lia.
  rewrite seq_app, rev_app_distr, map_app, skipn_app.
  rewrite map_length, rev_length, seq_length, Nat.sub_diag. cbn [skipn].
  rewrite skipn_all2 by (rewrite map_length, rev_length, seq_length; lia). reflexivity.
Qed.

Lemma dot_some (g : nat -> R) (l : list R) : forall (ks : list nat) (a : R),
  fold_left (fun acc (vc : XR * XR) => nadd acc (nmul (fst vc) (snd vc)))
            (combine (map Some l) (map (fun v => Some (g v)) ks)) (Some a)
  = Some (a + sumR (map (fun p => fst p * g (snd p)) (combine l ks))).
Proof.
  induction l as [|x l IH]; intros ks a; [cbn; f_equal; ring|].
  destruct ks as [|k ks]; [cbn; f_equal; ring|].
  cbn [map combine fold_left fst snd]. rewrite xmul_some, xadd_some, IH.
  cbn [sumR fold_right map fst snd]. f_equal.
  fold (sumR (map (fun p : R * nat => fst p * g (snd p)) (combine l ks))). ring.
Qed.

Lemma win_map {X Y} (f : X -> Y) w i (l : list X) : win w i (map f l) = map f (win w i l).
Proof. unfold win. rewrite skipn_map, firstn_map. reflexivity. Qed.

Lemma win_length_le {X} w i (l : list X) : (1 <= w)%nat -> (length (win w i l) <= w)%nat.
Proof. intros Hw. unfold win, wstart. rewrite firstn_length. lia. Qed.

Lemma ts_fdiff_cb_spec d w (l : list R) :
  (length l <= w)%nat ->
  snd (ts_fdiff_cb (Some d) w (fun x : XR => x) tt (map Some l)) = Some (fdiffR d l).
Proof.
  intros Hl. unfold ts_fdiff_cb. cbn [snd]. rewrite map_length, fdiff_coef_spec.
  rewrite skipn_rev_seq by exact Hl. unfold dot. change nzero with (Some 0).
  rewrite (dot_some (fdiff_weight d) l (rev (seq 0 (length l))) 0). unfold fdiffR. f_equal. ring.
Qed.

Lemma run_stateless {X O} (f : unit -> X -> unit * O) (args : list X) :
  run f tt args = map (fun a => snd (f tt a)) args.
Proof.
  induction args as [|a r IH]; [reflexivity|]. cbn [run map].
  destruct (f tt a) as [u o] eqn:E. destruct u. cbn [snd]. f_equal. exact IH.
Qed.

Theorem ts_fdiff_spec body d (w : nat) (rs : list R) :
  (1 <= w)%nat ->
  exists out, ts_fdiff body (Some d) w (fun x : XR => x) (map Some rs) = Done out /\
    length out = length rs /\
    forall i, (i < length rs)%nat -> nth_error out i = Some (Some (fdiffR d (win w i rs))).
Proof.
  intros Hw.
  exists (map (fun a => snd (ts_fdiff_cb (Some d) w (fun x : XR => x) tt a)) (windows w (map Some rs))).
  split; [|split].
  - unfold ts_fdiff. destruct body.
    + rewrite rolling_custom_to_eq by exact Hw. rewrite run_stateless. reflexivity.
    + rewrite rolling_custom_default_eq by exact Hw. rewrite run_stateless. reflexivity.
  - unfold windows. rewrite !map_length, seq_length. reflexivity.
  - intros i Hi. unfold windows. rewrite map_map, nth_error_map, nth_error_seq, map_length.
    replace (i <? length rs)%nat with true by (symmetry; apply Nat.ltb_lt; exact Hi).
    cbn [option_map plus]. rewrite win_map, ts_fdiff_cb_spec by (apply win_length_le; exact Hw).
    reflexivity.
Qed.
