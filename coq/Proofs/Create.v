(* Proofs/Create.v — lemmas about Model/Create.v: the Linspace iterator, trusted collection,
   range / linspace at Z.  Stdlib only, axiom-free. *)
From Tevec Require Import Base.Prelude Model.Driver Proofs.Driver Model.Create.
Set Implicit Arguments.

(* ------------------------------------------------------------------------------------------ *)
(* trusted collection: slots 0..hint-1 each written exactly once, in order                     *)

Lemma fill_from_app {A} (items : list A) : forall (pre : list (option A)) (n : nat),
  fill_from (length pre) items (pre ++ repeat None (length items + n))
  = pre ++ map Some items ++ repeat None n.
Proof.
  induction items as [|x r IH]; intros pre n; [reflexivity|].
  cbn [fill_from length plus repeat map app].
  rewrite set_nth_app.
  specialize (IH (pre ++ [Some x]) n).
  rewrite app_length in IH. cbn [length] in IH. rewrite Nat.add_1_r in IH.
  rewrite <- app_assoc in IH. cbn [app] in IH. rewrite IH.
  rewrite <- app_assoc. reflexivity.
Qed.

Lemma fill_from_exact {A} (items : list A) :
  fill_from 0 items (repeat None (length items)) = map Some items.
Proof.
  pose proof (fill_from_app items [] 0) as H. cbn [length app] in H.
  rewrite Nat.add_0_r in H. rewrite H. cbn [repeat]. apply app_nil_r.
Qed.

Lemma assume_init_app_None {A} (l : list A) (rest : list (option A)) :
  assume_init (map Some l ++ None :: rest) = None.
Proof. induction l as [|a l IH]; [reflexivity|]. cbn. rewrite IH. reflexivity. Qed.

(* right hint: the items, in order *)
Lemma collect_trusted_exact {A} (items : list A) :
  collect_trusted (length items) items = Done items.
Proof.
  unfold collect_trusted. rewrite Nat.ltb_irrefl, fill_from_exact.
  unfold finish. rewrite assume_init_map_Some. reflexivity.
Qed.

(* whatever the hint: a completed collection never reorders, drops or invents an item *)
Lemma collect_trusted_done {A} hint (items out : list A) :
  collect_trusted hint items = Done out -> out = items /\ hint = length items.
Proof.
  unfold collect_trusted. destruct (hint <? length items) eqn:E; [discriminate|].
  apply Nat.ltb_ge in E.
  replace hint with (length items + (hint - length items)) by lia.
  pose proof (fill_from_app items [] (hint - length items)) as H. cbn [length app] in H.
  rewrite H. unfold finish.
  destruct (hint - length items) as [|k] eqn:Ek.
  - cbn [repeat]. rewrite app_nil_r, assume_init_map_Some. intros [= <-]. split; [reflexivity|lia].
  - cbn [repeat]. rewrite assume_init_app_None. discriminate.
Qed.

(* hint too large: the tail of the buffer is exposed uninitialised (never Done) *)
Lemma collect_trusted_long_hint {A} hint (items : list A) :
  length items < hint ->
  collect_trusted hint items = Uninit (map Some items ++ repeat None (hint - length items)).
Proof.
  intros Hlt. unfold collect_trusted.
  replace (hint <? length items) with false by (symmetry; apply Nat.ltb_ge; lia).
  pose proof (fill_from_app items [] (hint - length items)) as H. cbn [length app] in H.
  replace (length items + (hint - length items)) with hint in H by lia. rewrite H.
  unfold finish. destruct (hint - length items) as [|k] eqn:Ek; [lia|].
  cbn [repeat]. rewrite assume_init_app_None. reflexivity.
Qed.

(* ------------------------------------------------------------------------------------------ *)
(* the Linspace iterator, for any Number dictionary                                            *)
Section Linspace.
  Context {A : Type} (N : num_ops A).

  Definition elem_at (a st : A) (k : nat) : A := n_add N a (n_mul N st (n_of_usize N k)).

  (* abstraction: the items a Linspace still has to yield, front to back *)
  Definition ls_to_list (s : linspace A) : list A :=
    map (elem_at (ls_start s) (ls_step s)) (seq (ls_index s) (ls_len s - ls_index s)).

  Lemma ls_next_spec (s : linspace A) :
    match ls_to_list s with
    | [] => ls_next N s = (None, s)
    | x :: r => exists s', ls_next N s = (Some x, s') /\ ls_to_list s' = r
    end.
  Proof.
    unfold ls_to_list, ls_next. destruct s as [a st i n]. cbn [ls_start ls_step ls_index ls_len].
    destruct (n <=? i) eqn:E.
    - apply Nat.leb_le in E. replace (n - i) with 0 by lia. reflexivity.
    - apply Nat.leb_gt in E. replace (n - i) with (S (n - S i)) by lia.
      cbn [seq map]. eexists. split; [reflexivity|]. reflexivity.
  Qed.

  Lemma ls_next_back_spec (s : linspace A) :
    ls_to_list s = [] /\ ls_next_back N s = (None, s)
    \/ exists r x s', ls_to_list s = r ++ [x] /\ ls_next_back N s = (Some x, s') /\ ls_to_list s' = r.
  Proof.
    unfold ls_to_list, ls_next_back. destruct s as [a st i n]. cbn [ls_start ls_step ls_index ls_len].
    destruct (n <=? i) eqn:E.
    - apply Nat.leb_le in E. left. replace (n - i) with 0 by lia. split; reflexivity.
    - apply Nat.leb_gt in E. right.
      exists (map (elem_at a st) (seq i (n - 1 - i))), (elem_at a st (n - 1)). eexists.
      split; [|split; [reflexivity|reflexivity]].
      replace (n - i) with (S (n - 1 - i)) by lia. rewrite seq_S, map_app. cbn [map].
      replace (i + (n - 1 - i)) with (n - 1) by lia. reflexivity.
  Qed.

  Lemma ls_size_hint_spec (s : linspace A) :
    ls_index s <= ls_len s -> ls_size_hint s = Ok (length (ls_to_list s)).
  Proof.
    intros H. unfold ls_size_hint, usub, ls_to_list. rewrite map_length, seq_length.
    replace (ls_index s <=? ls_len s) with true by (symmetry; apply Nat.leb_le; exact H). reflexivity.
  Qed.

  (* the invariant index <= len is kept by both ends *)
  Lemma ls_next_inv s : ls_index s <= ls_len s -> ls_index (snd (ls_next N s)) <= ls_len (snd (ls_next N s)).
  Proof.
    unfold ls_next. destruct (ls_len s <=? ls_index s) eqn:E; cbn; [auto|]. apply Nat.leb_gt in E. lia.
  Qed.
  Lemma ls_next_back_inv s :
    ls_index s <= ls_len s -> ls_index (snd (ls_next_back N s)) <= ls_len (snd (ls_next_back N s)).
  Proof.
    unfold ls_next_back. destruct (ls_len s <=? ls_index s) eqn:E; cbn; [auto|]. apply Nat.leb_gt in E. lia.
  Qed.

  (* a double-ended consumption script against the abstract deque *)
  Fixpoint deque_script {X} (sc : list bool) (l : list X) : list (option X * nat) :=
    match sc with
    | [] => []
    | true :: r => match l with
                   | [] => (None, 0) :: deque_script r []
                   | x :: t => (Some x, length t) :: deque_script r t
                   end
    | false :: r => match rev l with
                    | [] => (None, 0) :: deque_script r []
                    | x :: t => (Some x, length t) :: deque_script r (rev t)
                    end
    end.

  Lemma ls_script_spec (sc : list bool) : forall s,
    ls_index s <= ls_len s ->
    ls_script N sc s = map (fun p => (fst p, Ok (snd p))) (deque_script sc (ls_to_list s)).
  Proof.
    induction sc as [|d sc IH]; intros s Hinv; [reflexivity|].
    cbn [ls_script]. destruct d.
    - pose proof (ls_next_spec s) as Hn. pose proof (ls_next_inv s Hinv) as Hi.
      cbn [deque_script]. destruct (ls_to_list s) as [|x r] eqn:El.
      + rewrite Hn in *. cbn [snd] in Hi. cbn [map fst snd]. rewrite IH by exact Hi.
        rewrite ls_size_hint_spec by exact Hinv. rewrite El. reflexivity.
      + destruct Hn as (s' & Hn & Hl). rewrite Hn in *. cbn [snd] in Hi. cbn [map fst snd].
        rewrite IH by exact Hi. rewrite ls_size_hint_spec by exact Hi. rewrite Hl. reflexivity.
    - pose proof (ls_next_back_inv s Hinv) as Hi. cbn [deque_script].
      destruct (ls_next_back_spec s) as [[El Hn]|(r & x & s' & El & Hn & Hl)].
      + rewrite Hn in *. cbn [snd] in Hi. rewrite El. cbn [rev map fst snd].
        rewrite IH by exact Hi. rewrite ls_size_hint_spec by exact Hinv. rewrite El. reflexivity.
      + rewrite Hn in *. cbn [snd] in Hi. rewrite El, rev_app_distr. cbn [rev app map fst snd].
        rewrite rev_involutive, rev_length.
        rewrite IH by exact Hi. rewrite ls_size_hint_spec by exact Hi. rewrite Hl. reflexivity.
  Qed.

  (* `for v in iter`: with enough fuel the loop yields exactly to_list and ends exhausted *)
  Lemma ls_drain_spec (fuel : nat) : forall s,
    ls_len s - ls_index s <= fuel ->
    fst (ls_drain N fuel s) = ls_to_list s /\ fst (ls_next N (snd (ls_drain N fuel s))) = None.
  Proof.
    induction fuel as [|f IH]; intros s Hf.
    - cbn [ls_drain fst snd]. unfold ls_to_list, ls_next. replace (ls_len s - ls_index s) with 0 by lia.
      replace (ls_len s <=? ls_index s) with true by (symmetry; apply Nat.leb_le; lia). split; reflexivity.
    - cbn [ls_drain]. pose proof (ls_next_spec s) as Hn.
      destruct (ls_to_list s) as [|x r] eqn:El.
      + rewrite Hn. cbn [fst snd]. split; [reflexivity|]. rewrite Hn. reflexivity.
      + destruct Hn as (s' & Hn & Hl). rewrite Hn.
        assert (Hf' : ls_len s' - ls_index s' <= f).
        { revert Hn. unfold ls_next. destruct (ls_len s <=? ls_index s) eqn:E; [discriminate|].
          intros [= _ <-]. cbn. apply Nat.leb_gt in E. lia. }
        destruct (IH s' Hf') as [H1 H2]. destruct (ls_drain N f s') as [l s'']. cbn [fst snd] in *.
        rewrite H1, Hl. split; [reflexivity|exact H2].
  Qed.

  (* a fresh Linspace of length n collected by any backend: the n elements, in order *)
  Lemma collect_ls_fresh (trusted : bool) (a st : A) (n : nat) :
    collect_ls N trusted (LS a st 0 n) = Done (map (elem_at a st) (seq 0 n)).
  Proof.
    unfold collect_ls. unfold ls_size_hint, usub. cbn [ls_len ls_index Nat.leb]. rewrite Nat.sub_0_r.
    destruct (ls_drain_spec (fuel := n) (LS a st 0 n)) as [H _]; [cbn; lia|].
    cbn [ls_len] . rewrite H. unfold ls_to_list. cbn [ls_start ls_step ls_index ls_len].
    rewrite !Nat.sub_0_r. destruct trusted; [|reflexivity].
    set (l := map _ _). replace n with (length l) at 1 by (unfold l; rewrite map_length, seq_length; reflexivity).
    apply collect_trusted_exact.
  Qed.
End Linspace.

(* ------------------------------------------------------------------------------------------ *)
(* range at Z                                                                                  *)
Local Open Scope Z_scope.

(* x lies strictly before b in the direction of step *)
Definition before (step x b : Z) : Prop := if 0 <? step then x < b else b < x.

(* the arithmetic progression a, a+step, ... (n terms) *)
Definition progression (a step : Z) (n : nat) : list Z :=
  map (fun k => a + step * Z.of_nat k) (seq 0 n).

Lemma elem_at_Z sg a st k : elem_at (z_ops sg) a st k = a + st * Z.of_nat k.
Proof. reflexivity. Qed.

Lemma progression_elem_at sg a st n : map (elem_at (z_ops sg) a st) (seq 0 n) = progression a st n.
Proof. reflexivity. Qed.

(* counting lemma for positive span and step: the truncated quotient, plus one when a remainder is left *)
Lemma count_pos (span step : Z) (k : nat) :
  0 < span -> 0 < step ->
  let q := Z.quot span step in
  let rest := span - q * step in
  (Z.of_nat k < (if andb (negb (rest =? 0)) (Bool.eqb (0 <? rest) (0 <? step)) then q + 1 else q)
   <-> step * Z.of_nat k < span).
Proof.
  intros Hs Hst q rest. subst q rest.
  rewrite Z.quot_div_nonneg by lia.
  pose proof (Z.div_mod span step ltac:(lia)) as Hdm.
  pose proof (Z.mod_pos_bound span step Hst) as Hb.
  set (q := span / step) in *. set (r := span mod step) in *.
  replace (span - q * step) with r by lia.
  replace (0 <? step) with true by (symmetry; apply Z.ltb_lt; lia).
  destruct (r =? 0) eqn:Er; cbn [negb andb].
  - apply Z.eqb_eq in Er. split; intros H; nia.
  - apply Z.eqb_neq in Er. replace (0 <? r) with true by (symmetry; apply Z.ltb_lt; lia).
    cbn [Bool.eqb]. split; intros H; nia.
Qed.

Lemma count_neg (span step : Z) (k : nat) :
  span < 0 -> step < 0 ->
  let q := Z.quot span step in
  let rest := span - q * step in
  (Z.of_nat k < (if andb (negb (rest =? 0)) (Bool.eqb (0 <? rest) (0 <? step)) then q + 1 else q)
   <-> span < step * Z.of_nat k).
Proof.
  intros Hs Hst q rest. subst q rest.
  pose proof (@count_pos (- span) (- step) k ltac:(lia) ltac:(lia)) as H. cbv zeta in H.
  rewrite Z.quot_opp_opp in H by lia.
  set (q := Z.quot span step) in *.
  replace (- span - q * - step) with (- (span - q * step)) in H by ring.
  set (rest := span - q * step) in *.
  assert (Hr : rest <= 0).
  { subst rest q. pose proof (Z.quot_rem' span step) as Hqr.
    pose proof (Z.rem_nonpos span step ltac:(lia) ltac:(lia)). lia. }
  replace (0 <? step) with false by (symmetry; apply Z.ltb_ge; lia).
  replace (0 <? - step) with true in H by (symmetry; apply Z.ltb_lt; lia).
  replace (0 <? rest) with false by (symmetry; apply Z.ltb_ge; lia).
  replace (- rest =? 0) with (rest =? 0) in H by (destruct (Z.eqb_spec rest 0), (Z.eqb_spec (- rest) 0); lia).
  destruct (rest =? 0) eqn:Er; cbn [negb andb Bool.eqb] in *.
  - rewrite H. lia.
  - apply Z.eqb_neq in Er. replace (0 <? - rest) with true in H by (symmetry; apply Z.ltb_lt; lia).
    cbn [Bool.eqb] in H. rewrite H. lia.
Qed.

(* signed integer range: the count produced by the (repaired) code is characterised exactly *)
Lemma range_new_Z_signed (a b step : Z) :
  step <> 0 ->
  exists n : nat,
    range_new (z_ops true) a b step = Ok (LS a step 0%nat n) /\
    forall k : nat, (k < n)%nat <-> before step (a + step * Z.of_nat k) b.
Proof.
  intros Hstep. unfold range_new, gtb, geb, before.
  cbn [z_ops n_zero n_one n_ltb n_leb n_eqb n_sub n_div n_mul n_add n_ceil n_to_usize bind].
  destruct (0 <? step) eqn:Epos.
  - apply Z.ltb_lt in Epos. destruct (b <=? a) eqn:Eba.
    + apply Z.leb_le in Eba. exists 0%nat. split; [reflexivity|]. intros k. split; [lia|]. nia.
    + apply Z.leb_gt in Eba.
      replace (step =? 0) with false by (symmetry; apply Z.eqb_neq; lia). cbn [bind].
      set (q := Z.quot (b - a) step). set (rest := b - a - q * step).
      set (steps := if (negb (rest =? 0) && Bool.eqb (0 <? rest) true)%bool then q + 1 else q).
      assert (Hq : 0 <= q) by (subst q; apply Z.quot_pos; lia).
      assert (Hs : 0 <= steps) by (subst steps; destruct (andb _ _); lia).
      replace (steps <? 0) with false by (symmetry; apply Z.ltb_ge; lia). cbn [bind].
      exists (Z.to_nat steps). split; [reflexivity|]. intros k.
      pose proof (@count_pos (b - a) step k ltac:(lia) Epos) as H. cbv zeta in H.
      fold q in H. fold rest in H. replace (0 <? step) with true in H by (symmetry; apply Z.ltb_lt; lia).
      fold steps in H. split; intros Hk.
      * assert (Z.of_nat k < steps) by lia. apply H in H0. lia.
      * assert (step * Z.of_nat k < b - a) by lia. apply H in H0. lia.
  - apply Z.ltb_ge in Epos. assert (Hneg : step < 0) by lia. destruct (a <=? b) eqn:Eab.
    + apply Z.leb_le in Eab. exists 0%nat. split; [reflexivity|]. intros k. split; [lia|]. nia.
    + apply Z.leb_gt in Eab.
      replace (step =? 0) with false by (symmetry; apply Z.eqb_neq; lia). cbn [bind].
      set (q := Z.quot (b - a) step). set (rest := b - a - q * step).
      set (steps := if (negb (rest =? 0) && Bool.eqb (0 <? rest) false)%bool then q + 1 else q).
      assert (Hq : 0 <= q).
      { subst q. rewrite <- Z.quot_opp_opp by lia. apply Z.quot_pos; lia. }
      assert (Hs : 0 <= steps) by (subst steps; destruct (andb _ _); lia).
      replace (steps <? 0) with false by (symmetry; apply Z.ltb_ge; lia). cbn [bind].
      exists (Z.to_nat steps). split; [reflexivity|]. intros k.
      pose proof (@count_neg (b - a) step k ltac:(lia) Hneg) as H. cbv zeta in H.
      fold q in H. fold rest in H. replace (0 <? step) with false in H by (symmetry; apply Z.ltb_ge; lia).
      fold steps in H. split; intros Hk.
      * assert (Z.of_nat k < steps) by lia. apply H in H0. lia.
      * assert (b - a < step * Z.of_nat k) by lia. apply H in H0. lia.
Qed.

(* unsigned types: same statement for non-negative arguments and a positive step; in particular
   the unsigned subtractions of the repaired code never underflow *)
Lemma range_new_Z_unsigned (a b step : Z) :
  0 <= a -> 0 <= b -> 0 < step ->
  exists n : nat,
    range_new (z_ops false) a b step = Ok (LS a step 0%nat n) /\
    forall k : nat, (k < n)%nat <-> a + step * Z.of_nat k < b.
Proof.
  intros Ha Hb Hstep.
  destruct (@range_new_Z_signed a b step ltac:(lia)) as (n & Hr & Hk).
  exists n. split.
  - rewrite <- Hr. unfold range_new, gtb, geb.
    cbn [z_ops n_zero n_one n_ltb n_leb n_eqb n_sub n_div n_mul n_add n_ceil n_to_usize bind].
    replace (0 <? step) with true by (symmetry; apply Z.ltb_lt; lia).
    destruct (b <=? a) eqn:Eba; [reflexivity|]. apply Z.leb_gt in Eba.
    replace (b <? a) with false by (symmetry; apply Z.ltb_ge; lia). cbn [bind].
    replace (step =? 0) with false by (symmetry; apply Z.eqb_neq; lia). cbn [bind].
    set (q := Z.quot (b - a) step).
    assert (Hq : q * step <= b - a).
    { subst q. rewrite Z.quot_div_nonneg by lia. pose proof (Z.mul_div_le (b - a) step Hstep). lia. }
    replace (b - a <? q * step) with false by (symmetry; apply Z.ltb_ge; lia). reflexivity.
  - intros k. rewrite Hk. unfold before. replace (0 <? step) with true by (symmetry; apply Z.ltb_lt; lia).
    reflexivity.
Qed.

(* the code before the repair loses the last element / panics: witnesses *)
Lemma range_old_loses_last :
  create_range_old (z_ops true) (Some 0) 5 (Some 2) = Done [0; 2]
  /\ create_range_old (z_ops true) (Some 5) 0 (Some (-2)) = Done [5; 3]
  /\ create_range_old (z_ops true) (Some 3) 0 (Some 1) = Panicked Overflow.
Proof. vm_compute. auto. Qed.

(* ------------------------------------------------------------------------------------------ *)
(* linspace at Z *)
Lemma linspace_new_Z_signed (a b : Z) (n : nat) :
  linspace_new (z_ops true) a b n
  = Ok (LS a (if (1 <? n)%nat then Z.quot (b - a) (Z.of_nat (n - 1)) else 0) 0%nat n).
Proof.
  unfold linspace_new. cbn [z_ops n_zero n_sub n_div n_of_usize bind].
  destruct (1 <? n)%nat eqn:E; [|reflexivity]. apply Nat.ltb_lt in E.
  replace (Z.of_nat (n - 1) =? 0) with false by (symmetry; apply Z.eqb_neq; lia). reflexivity.
Qed.

Lemma linspace_new_Z_unsigned (a b : Z) (n : nat) :
  a <= b ->
  linspace_new (z_ops false) a b n = linspace_new (z_ops true) a b n.
Proof.
  intros Hab. unfold linspace_new. cbn [z_ops n_zero n_sub n_div n_of_usize bind].
  replace (b <? a) with false by (symmetry; apply Z.ltb_ge; lia). reflexivity.
Qed.

(* ------------------------------------------------------------------------------------------ *)
(* Vec1Create::range / linspace at Z, through the collector of any backend                     *)
Definition dflt (d : Z) (o : option Z) : Z := match o with Some v => v | None => d end.

Lemma create_range_Z_signed (trusted : bool) (start : option Z) (e : Z) (step : option Z) :
  let a := dflt 0 start in
  let st := dflt 1 step in
  st <> 0 ->
  exists n : nat,
    create_range (z_ops true) trusted start e step = Done (progression a st n) /\
    forall k : nat, (k < n)%nat <-> before st (a + st * Z.of_nat k) e.
Proof.
  cbv zeta. intros Hst.
  destruct (@range_new_Z_signed (dflt 0 start) e (dflt 1 step) Hst) as (n & Hr & Hk).
  exists n. split; [|exact Hk].
  unfold create_range. cbn [z_ops n_zero n_one].
  change (match start with Some v => v | None => 0 end) with (dflt 0 start).
  change (match step with Some v => v | None => 1 end) with (dflt 1 step).
  change (NumOps 0 1 Z.add _ Z.mul _ _ Z.of_nat _ Z.ltb Z.leb Z.eqb) with (z_ops true).
  rewrite Hr. apply collect_ls_fresh.
Qed.

Lemma create_range_Z_unsigned (trusted : bool) (start : option Z) (e : Z) (step : option Z) :
  let a := dflt 0 start in
  let st := dflt 1 step in
  0 <= a -> 0 <= e -> 0 < st ->
  exists n : nat,
    create_range (z_ops false) trusted start e step = Done (progression a st n) /\
    forall k : nat, (k < n)%nat <-> a + st * Z.of_nat k < e.
Proof.
  cbv zeta. intros Ha He Hst.
  destruct (@range_new_Z_unsigned (dflt 0 start) e (dflt 1 step) Ha He Hst) as (n & Hr & Hk).
  exists n. split; [|exact Hk].
  unfold create_range. cbn [z_ops n_zero n_one].
  change (match start with Some v => v | None => 0 end) with (dflt 0 start).
  change (match step with Some v => v | None => 1 end) with (dflt 1 step).
  change (NumOps 0 1 Z.add _ Z.mul _ _ Z.of_nat _ Z.ltb Z.leb Z.eqb) with (z_ops false).
  rewrite Hr. apply collect_ls_fresh.
Qed.

(* membership form: exactly the terms of the progression that lie strictly before the end *)
Lemma progression_In (a st : Z) (n : nat) (x : Z) :
  In x (progression a st n) <-> exists k : nat, (k < n)%nat /\ x = a + st * Z.of_nat k.
Proof.
  unfold progression. rewrite in_map_iff. split.
  - intros (k & <- & Hin). apply in_seq in Hin. exists k. split; [lia|reflexivity].
  - intros (k & Hk & ->). exists k. split; [reflexivity|]. apply in_seq. lia.
Qed.

Lemma progression_length a st n : length (progression a st n) = n.
Proof. unfold progression. rewrite map_length, seq_length. reflexivity. Qed.

Lemma progression_nth a st n k :
  (k < n)%nat -> nth_error (progression a st n) k = Some (a + st * Z.of_nat k).
Proof.
  intros Hk. unfold progression. rewrite nth_error_map, nth_error_seq.
  replace (k <? n)%nat with true by (symmetry; apply Nat.ltb_lt; exact Hk). reflexivity.
Qed.

Lemma create_range_Z_members (trusted : bool) (start : option Z) (e : Z) (step : option Z) :
  let a := dflt 0 start in
  let st := dflt 1 step in
  st <> 0 ->
  exists out, create_range (z_ops true) trusted start e step = Done out /\
    forall x, In x out <-> exists k : nat, x = a + st * Z.of_nat k /\ before st x e.
Proof.
  cbv zeta. intros Hst.
  destruct (@create_range_Z_signed trusted start e step Hst) as (n & Hr & Hk).
  eexists. split; [exact Hr|]. intros x. rewrite progression_In. split.
  - intros (k & Hlt & ->). exists k. split; [reflexivity|]. apply Hk. exact Hlt.
  - intros (k & -> & Hb). exists k. split; [apply Hk; exact Hb|reflexivity].
Qed.

Lemma create_range_Z_empty (trusted : bool) (start : option Z) (e : Z) (step : option Z) :
  let a := dflt 0 start in
  let st := dflt 1 step in
  st <> 0 -> ~ before st a e ->
  create_range (z_ops true) trusted start e step = Done [].
Proof.
  cbv zeta. intros Hst Hnb.
  destruct (@create_range_Z_signed trusted start e step Hst) as (n & Hr & Hk).
  destruct n as [|n]; [exact Hr|]. exfalso. apply Hnb.
  specialize (Hk 0%nat). rewrite Z.mul_0_r, Z.add_0_r in Hk. apply Hk. lia.
Qed.

Definition lin_step (a b : Z) (n : nat) : Z :=
  if (1 <? n)%nat then Z.quot (b - a) (Z.of_nat (n - 1)) else 0.

Lemma create_linspace_Z_signed (trusted : bool) (start : option Z) (e : Z) (n : nat) :
  create_linspace (z_ops true) trusted start e n
  = Done (progression (dflt 0 start) (lin_step (dflt 0 start) e n) n).
Proof.
  unfold create_linspace. cbn [z_ops n_zero].
  change (match start with Some v => v | None => 0 end) with (dflt 0 start).
  change (NumOps 0 1 Z.add _ Z.mul _ _ Z.of_nat _ Z.ltb Z.leb Z.eqb) with (z_ops true).
  rewrite linspace_new_Z_signed. apply collect_ls_fresh.
Qed.

Lemma create_linspace_Z_unsigned (trusted : bool) (start : option Z) (e : Z) (n : nat) :
  dflt 0 start <= e ->
  create_linspace (z_ops false) trusted start e n
  = Done (progression (dflt 0 start) (lin_step (dflt 0 start) e n) n).
Proof.
  intros Hle. unfold create_linspace. cbn [z_ops n_zero].
  change (match start with Some v => v | None => 0 end) with (dflt 0 start).
  change (NumOps 0 1 Z.add _ Z.mul _ _ Z.of_nat _ Z.ltb Z.leb Z.eqb) with (z_ops false).
  rewrite linspace_new_Z_unsigned by exact Hle. rewrite linspace_new_Z_signed. apply collect_ls_fresh.
Qed.

(* shape of an integer linspace: n terms, first = a, constant step; last = b when n-1 divides b-a *)
Lemma linspace_Z_shape (a b : Z) (n : nat) :
  let out := progression a (lin_step a b n) n in
  length out = n /\
  ((1 <= n)%nat -> nth_error out 0 = Some a) /\
  (forall k x y, nth_error out k = Some x -> nth_error out (S k) = Some y -> y - x = lin_step a b n) /\
  ((2 <= n)%nat -> (Z.of_nat (n - 1) | b - a) -> nth_error out (n - 1) = Some b).
Proof.
  cbv zeta. split; [apply progression_length|]. split; [|split].
  - intros Hn. rewrite progression_nth by lia. f_equal. cbn. ring.
  - intros k x y Hx Hy.
    assert (Hk : (S k < n)%nat).
    { rewrite <- (progression_length a (lin_step a b n) n). apply nth_error_Some. congruence. }
    rewrite progression_nth in Hx, Hy by lia. injection Hx as <-. injection Hy as <-. lia.
  - intros Hn [c Hc]. rewrite progression_nth by lia. f_equal. unfold lin_step.
    replace (1 <? n)%nat with true by (symmetry; apply Nat.ltb_lt; lia).
    rewrite Hc, Z.quot_mul by lia. lia.
Qed.
