(* Proofs/Create.v — lemmas about Model/Create.v *)
From Tevec Require Import Base.Prelude Model.Driver Model.Create.
Set Implicit Arguments.

Lemma placeholder_true : True. Proof. exact I. Qed.
