(* Proofs/Audit18.v — the clause-by-clause audit of property C18 (notes/C18.md, "Audit matrix"): what the audit
   found missing and closed.  Statements over Z / lists about Model/Parse.v and Model/ParseDT.v, axiom-free.

   (A) the unit table: exactly the ten tokens (case-sensitive), what each contributes;
   (B) the scanner on a WELL-FORMED string is the checked fold over its terms — the range hypotheses of C18_wellformed
       are exactly what the code rejects: `parse (render ts) = finish (run ts)` or Err when a number / product / running
       sum leaves its range (with the order of checks: the number first, then the accumulator);
   (C) sign runs and other two-non-digit heads are always Err; Debug / Display text of Time and TimeDelta is never a
       duration;
   (D) date-time text: strftime panics exactly outside chrono's range; whenever strftime(None) returns, parsing the text
       (rule list, and the format given explicitly) returns the instant — no hypothesis on the year or the fields; at the
       default unit (ns) for EVERY non-NaT i64; NaT renders as "NaT" under every format, "NaT" is rejected by every rule,
       and no valid date-time renders as "NaT" under a listed format;
   (E) Time::parse with an explicit format (the model the property lacked): HH:MM:SS[.f] texts give the time of day; the
       leap second 23:59:60 is ACCEPTED and yields a Time of one whole day, on which every getter panics.          *)
From Coq Require Import List ZArith Lia Bool.
From Tevec Require Import Base.Prelude Model.Parse Spec.DurationC18 Proofs.Parse.
From Tevec Require Import Spec.CalendarC18 Model.ParseDT Proofs.CalendarC18 Proofs.ParseDT.
From Tevec Require Import Proofs.ParseRejects Proofs.ParseWs Proofs.ParseDT2.
From Tevec Require Model.Time.
Import ListNotations.
Local Open Scope Z_scope.

Ltac zdm := Z.div_mod_to_equations; lia.

(* ================================================================== (A) the unit table *)
Theorem unit_of_iff s u : unit_of s = Some u <-> s = unit_str u.
Proof. split; [apply unit_of_inv|intros ->; apply unit_of_str]. Qed.

Theorem unit_str_injective u v : unit_str u = unit_str v -> u = v.
Proof. destruct u, v; intros H; try reflexivity; discriminate H. Qed.

(* a unit token is 1 or 2 lower-case ASCII letters; nothing else is a unit (upper case included) *)
Theorem unit_of_some_shape s u : unit_of s = Some u ->
  (1 <= length s <= 2)%nat /\ Forall (fun c => 97 <= c <= 122) s.
Proof.
  intros H. apply unit_of_inv in H. subst s.
  destruct u; cbn [unit_str length]; (split; [lia|repeat constructor; lia]).
Qed.

(* what one term contributes: number * scale, into the component of its unit *)
Theorem unit_table t :
  (t_months t, t_secs t, t_nsecs t) =
  match t_unit t with
  | Uns | Uus | Ums => (0, 0, tval t * unit_scale (t_unit t))
  | Us | Um | Uh | Ud | Uw => (0, tval t * unit_scale (t_unit t), 0)
  | Umo | Uy => (tval t * unit_scale (t_unit t), 0, 0)
  end
  /\ unit_scale Uns = 1 /\ unit_scale Uus = 1000 /\ unit_scale Ums = 1000000
  /\ unit_scale Us = 1 /\ unit_scale Um = 60 /\ unit_scale Uh = 3600 /\ unit_scale Ud = 86400 /\ unit_scale Uw = 604800
  /\ unit_scale Umo = 1 /\ unit_scale Uy = 12.
Proof.
  split; [|repeat split]. unfold t_months, t_secs, t_nsecs.
  destruct (t_unit t); cbn [unit_scale]; rewrite ?Z.mul_1_r; reflexivity.
Qed.

(* ================================================================== (B) well-formed strings: the checked fold *)
(* one step of the scanner on a term: `parse::<i64>()` (range of the number), then the closure of the unit *)
Definition step_term (a : accs) (t : term) : option accs :=
  if in_i64 (tval t) then apply_unit (t_unit t) (tval t) a else None.

Fixpoint run_terms (a : accs) (ts : list term) : option accs :=
  match ts with
  | [] => Some a
  | t :: r => match step_term a t with Some a' => run_terms a' r | None => None end
  end.

Definition run_result (o : option accs) : pres := match o with Some a => finish a | None => PErr end.

Lemma digits_val_lower ds : forall acc, Forall digit ds -> 0 <= acc ->
  acc <= fold_left (fun a c => a * 10 + (c - 48)) ds acc.
Proof.
  induction ds as [|c r IH]; intros acc H Ha; [cbn; lia|].
  inversion H as [|? ? Hc Hr]; subst. cbn [fold_left]. pose proof (digit_range _ Hc).
  specialize (IH (acc * 10 + (c - 48)) Hr ltac:(lia)). lia.
Qed.

(* a rendered number outside i64 is rejected by i64::from_str *)
Lemma parse_i64_term_none t : wf_term t -> in_i64 (tval t) = false ->
  parse_i64 (sign_str (t_sign t) ++ t_digits t) = None.
Proof.
  intros [Hne Hd] Hr. unfold tval in *. destruct (t_digits t) as [|d ds] eqn:Ed; [contradiction|].
  destruct (t_sign t) as [[|]|]; cbn [sign_str app]; unfold parse_i64.
  - rewrite Z.eqb_refl. rewrite digits_val_spec by exact Hd. unfold dval in *. rewrite Hr. reflexivity.
  - change (43 =? 45) with false. rewrite Z.eqb_refl. rewrite digits_val_spec by exact Hd.
    unfold dval in *. rewrite Hr. reflexivity.
  - inversion Hd as [|? ? Hc ?]; subst. pose proof (digit_range _ Hc) as Hc'.
    replace (d =? 45) with false by (symmetry; apply Z.eqb_neq; lia).
    replace (d =? 43) with false by (symmetry; apply Z.eqb_neq; lia).
    rewrite digits_val_spec by exact Hd. unfold dval in *. rewrite Hr. reflexivity.
Qed.

(* a term whose number or accumulator step fails, whatever follows it *)
Lemma scan_term_fail : forall pre c0 dr u a post fuel,
  Forall digit dr ->
  (parse_i64 (c0 :: dr) = None \/ exists n, parse_i64 (c0 :: dr) = Some n /\ apply_unit u n a = None) ->
  (post = [] \/ exists c1 more, post = c1 :: more /\ is_alpha c1 = false) ->
  (length (dr ++ unit_str u ++ post) < fuel)%nat ->
  scan fuel (pre ++ (c0 :: dr) ++ unit_str u ++ post) (dr ++ unit_str u ++ post) (S (length pre)) (length pre) a
  = PErr.
Proof.
  intros pre c0 dr u a post fuel Hd Hfail Hpost Hf.
  destruct (scan_digits dr fuel (pre ++ (c0 :: dr) ++ unit_str u ++ post) (unit_str u ++ post)
                        (S (length pre)) (length pre) a Hd Hf) as [f2 [Hf2 E]].
  rewrite E. clear E Hf.
  destruct f2 as [|f2]; [lia|].
  replace (S (length pre) + length dr)%nat with (length pre + length (c0 :: dr))%nat by (cbn [length]; lia).
  destruct (unit_str_head u) as [u1 [ur [Eu Hu1]]].
  pose proof (slice_mid pre (c0 :: dr) (unit_str u ++ post)) as ESl.
  set (s := pre ++ (c0 :: dr) ++ unit_str u ++ post) in *.
  replace (unit_str u ++ post) with (u1 :: ur ++ post) by (rewrite Eu; reflexivity).
  cbn [scan]. rewrite Hu1.
  replace (length pre + length (c0 :: dr) =? 0)%nat with false
    by (symmetry; apply Nat.eqb_neq; cbn [length]; lia).
  cbn [negb andb]. rewrite ESl.
  destruct Hfail as [Hn|[n [Hn Ha]]]; rewrite Hn; [reflexivity|].
  assert (EL : exists r2 p2 s2, unit_loop u1 (ur ++ post) (S (length pre + length (c0 :: dr))) (length pre) []
                                = (unit_str u, r2, p2, s2)).
  { clear -Eu Hpost. destruct Hpost as [->|[c1 [more [-> Hc1]]]].
    - rewrite app_nil_r. destruct u; cbn [unit_str] in Eu; inversion Eu; subst; cbn; do 3 eexists; reflexivity.
    - assert (EC : forall p st un, unit_loop c1 more p st un = (un, more, p, st))
        by (intros; destruct more; cbn [unit_loop]; rewrite Hc1; reflexivity).
      destruct u; cbn [unit_str] in Eu; inversion Eu; subst; cbn [app unit_loop];
        repeat (match goal with |- context [is_alpha ?z] => change (is_alpha z) with true end;
                cbn [app unit_loop]);
        rewrite EC; do 3 eexists; reflexivity. }
  destruct EL as [r2 [p2 [s2 EL]]]. rewrite EL, unit_of_str, Ha. rewrite Eu at 1. reflexivity.
Qed.

Lemma render_terms_cons_shape t ts : wf_term t -> Forall wf_term ts ->
  exists c0 dr post,
    sign_str (t_sign t) ++ t_digits t = c0 :: dr /\ Forall digit dr
    /\ render_terms (t :: ts) = (c0 :: dr) ++ unit_str (t_unit t) ++ post
    /\ post = render_terms ts
    /\ (post = [] \/ exists c1 more, post = c1 :: more /\ is_alpha c1 = false).
Proof.
  intros Hw Hws. destruct (number_shape _ Hw) as [c0 [dr [E [Hd _]]]].
  exists c0, dr, (render_terms ts). split; [exact E|]. split; [exact Hd|]. split.
  - change (render_terms (t :: ts)) with (render_term t ++ render_terms ts).
    unfold render_term. rewrite app_assoc, E, <- app_assoc. reflexivity.
  - split; [reflexivity|]. destruct ts as [|t2 ts2]; [left; reflexivity|right].
    inversion Hws as [|? ? Hw2 _]; subst.
    destruct (render_terms_head _ ts2 Hw2) as [c1 [more [E2 Hc1]]]. eauto.
Qed.

Lemma scan_terms_run : forall ts t pre a fuel,
  Forall wf_term (t :: ts) ->
  (length (tl (render_terms (t :: ts))) < fuel)%nat ->
  scan fuel (pre ++ render_terms (t :: ts)) (tl (render_terms (t :: ts))) (S (length pre)) (length pre) a
  = run_result (run_terms a (t :: ts)).
Proof.
  induction ts as [|t2 ts IH]; intros t pre a fuel Hw Hf.
  - (* last term *)
    inversion Hw as [|? ? Hwt _]; subst.
    destruct (render_terms_cons_shape t [] Hwt ltac:(constructor)) as (c0 & dr & post & E & Hd & ER & Ep & Hpost).
    cbn [render_terms flat_map] in Ep. subst post.
    cbn [run_terms]. unfold step_term.
    destruct (in_i64 (tval t)) eqn:Ei.
    + pose proof (parse_i64_term _ Hwt Ei) as Hn. rewrite E in Hn.
      destruct (apply_unit (t_unit t) (tval t) a) as [a1|] eqn:Ea.
      * cbn [run_result]. rewrite ER in *. rewrite app_nil_r in *. cbn [app tl] in Hf |- *.
        change (c0 :: dr ++ unit_str (t_unit t)) with ((c0 :: dr) ++ unit_str (t_unit t)).
        eapply scan_term_last; eassumption.
      * cbn [run_result]. rewrite ER in *. cbn [app tl] in Hf |- *.
        change (c0 :: dr ++ unit_str (t_unit t) ++ []) with ((c0 :: dr) ++ unit_str (t_unit t) ++ []).
        apply scan_term_fail; [exact Hd|right; eauto|left; reflexivity|exact Hf].
    + pose proof (parse_i64_term_none _ Hwt Ei) as Hn. rewrite E in Hn.
      cbn [run_result]. rewrite ER in *. cbn [app tl] in Hf |- *.
      change (c0 :: dr ++ unit_str (t_unit t) ++ []) with ((c0 :: dr) ++ unit_str (t_unit t) ++ []).
      apply scan_term_fail; [exact Hd|left; exact Hn|left; reflexivity|exact Hf].
  - inversion Hw as [|? ? Hwt Hw2]; subst.
    destruct (render_terms_cons_shape t (t2 :: ts) Hwt Hw2) as (c0 & dr & post & E & Hd & ER & Ep & Hpost).
    destruct Hpost as [Hp|[c1 [more [Hp Hc1]]]].
    { exfalso. subst post. inversion Hw2 as [|? ? Hwt2 _]; subst.
      destruct (render_terms_head _ ts Hwt2) as [c1 [more [E2 _]]]. rewrite E2 in Hp. discriminate Hp. }
    cbn [run_terms]. unfold step_term.
    destruct (in_i64 (tval t)) eqn:Ei.
    + pose proof (parse_i64_term _ Hwt Ei) as Hn. rewrite E in Hn.
      destruct (apply_unit (t_unit t) (tval t) a) as [a1|] eqn:Ea.
      * rewrite ER in *. rewrite Hp in *. cbn [app tl] in Hf |- *.
        destruct (scan_term_more pre c0 dr (t_unit t) _ a _ c1 more fuel Hd Hn Ea Hc1 Hf) as [f2 [Hf2 Es]].
        cbn [app] in Es. rewrite Es.
        specialize (IH t2 (pre ++ (c0 :: dr) ++ unit_str (t_unit t)) a1 f2 Hw2).
        rewrite <- Ep in IH. cbn [tl] in IH. rewrite <- app_assoc in IH. cbn [app] in IH.
        rewrite <- app_assoc in IH. cbn [app]. apply IH. exact Hf2.
      * cbn [run_result]. rewrite ER in *. cbn [app tl] in Hf |- *.
        change (c0 :: dr ++ unit_str (t_unit t) ++ post) with ((c0 :: dr) ++ unit_str (t_unit t) ++ post).
        apply scan_term_fail; [exact Hd|right; eauto|right; eauto|exact Hf].
    + pose proof (parse_i64_term_none _ Hwt Ei) as Hn. rewrite E in Hn.
      cbn [run_result]. rewrite ER in *. cbn [app tl] in Hf |- *.
      change (c0 :: dr ++ unit_str (t_unit t) ++ post) with ((c0 :: dr) ++ unit_str (t_unit t) ++ post).
      apply scan_term_fail; [exact Hd|left; exact Hn|right; eauto|exact Hf].
Qed.

(* the scanner on a well-formed string, completely: no range hypothesis *)
Theorem parse_wellformed_run ts :
  Forall wf_term ts -> parse (render_terms ts) = run_result (run_terms (mk_accs 0 0 0) ts).
Proof.
  intros Hw. destruct ts as [|t ts]; [reflexivity|].
  inversion Hw as [|? ? Hwt _]; subst.
  destruct (render_terms_head _ ts Hwt) as [c1 [more [E _]]].
  unfold parse. pose proof (fun fuel => scan_terms_run ts t [] (mk_accs 0 0 0) fuel Hw) as H. cbn [app length] in H.
  rewrite E in *. cbn [tl] in H. rewrite scan_first. apply H. cbn [length]. lia.
Qed.

(* consequences: a well-formed string never denotes anything but the sum of its terms, and it is rejected exactly
   when the checked fold fails or chrono's Duration range is left *)
Corollary parse_wellformed_ok_iff ts m ns :
  Forall wf_term ts ->
  (parse (render_terms ts) = POk m ns <->
   exists a, run_terms (mk_accs 0 0 0) ts = Some a /\ finish a = POk m ns).
Proof.
  intros Hw. rewrite (parse_wellformed_run ts Hw). split.
  - destruct (run_terms _ ts) as [a|]; [eauto|discriminate].
  - intros [a [-> H]]. exact H.
Qed.

Corollary parse_wellformed_err_iff ts :
  Forall wf_term ts ->
  (parse (render_terms ts) = PErr <->
   run_terms (mk_accs 0 0 0) ts = None \/ exists a, run_terms (mk_accs 0 0 0) ts = Some a /\ finish a = PErr).
Proof.
  intros Hw. rewrite (parse_wellformed_run ts Hw). split.
  - destruct (run_terms _ ts) as [a|]; [right; eauto|left; reflexivity].
  - intros [->|[a [-> H]]]; [reflexivity|exact H].
Qed.

(* a number that does not fit an i64 anywhere in a well-formed string: Err (the "overflowing numbers" of the quantifier) *)
Lemma run_terms_app a ts1 ts2 :
  run_terms a (ts1 ++ ts2) = match run_terms a ts1 with Some a' => run_terms a' ts2 | None => None end.
Proof.
  revert a. induction ts1 as [|t r IH]; intros a; [reflexivity|].
  cbn [app run_terms]. destruct (step_term a t); [apply IH|reflexivity].
Qed.

Theorem parse_number_overflow_err ts1 t ts2 :
  Forall wf_term (ts1 ++ t :: ts2) -> in_i64 (tval t) = false -> parse (render_terms (ts1 ++ t :: ts2)) = PErr.
Proof.
  intros Hw Hi. rewrite (parse_wellformed_run _ Hw), run_terms_app.
  destruct (run_terms _ ts1); [|reflexivity]. cbn [run_terms]. unfold step_term. rewrite Hi. reflexivity.
Qed.

(* one term: the exact acceptance condition per unit class *)
Theorem parse_single_term t :
  wf_term t ->
  parse (render_term t) =
  if in_i64 (tval t)
  then match apply_unit (t_unit t) (tval t) (mk_accs 0 0 0) with Some a => finish a | None => PErr end
  else PErr.
Proof.
  intros Hw. replace (render_term t) with (render_terms [t]) by (cbn; apply app_nil_r).
  rewrite (parse_wellformed_run [t]) by (constructor; [exact Hw|constructor]).
  cbn [run_terms]. unfold step_term. destruct (in_i64 (tval t)); [|reflexivity].
  destruct (apply_unit _ _ _); reflexivity.
Qed.

(* ================================================================== (C) two non-digit characters at the head *)
(* the first character is never looked at; if it is not a digit and the second is not a digit either, the slice
   handed to i64::from_str is that one character: Err.  "--1d", "+-1d", "ab", " -1d", every Debug rendering *)
Theorem parse_two_nondigit_head c1 c2 r :
  is_digit c1 = false -> is_digit c2 = false -> parse (c1 :: c2 :: r) = PErr.
Proof.
  intros H1 H2. unfold parse. cbn [length]. rewrite scan_first. cbn [scan]. rewrite H2.
  cbn [Nat.eqb negb andb]. unfold slice. cbn [Nat.leb length andb].
  unfold seg. cbn [skipn firstn Nat.sub]. unfold parse_i64.
  destruct (c1 =? 45) eqn:E1; [reflexivity|]. destruct (c1 =? 43) eqn:E2; [reflexivity|].
  cbn [digits_val]. rewrite H1. reflexivity.
Qed.

Corollary parse_sign_run_rejected s1 s2 r :
  (s1 = 43 \/ s1 = 45) -> (s2 = 43 \/ s2 = 45) -> parse (s1 :: s2 :: r) = PErr.
Proof. intros [->| ->] [->| ->]; apply parse_two_nondigit_head; reflexivity. Qed.

(* Debug / Display of the time types never round-trips through TimeDelta::parse: the texts start with "Ti" *)
Theorem debug_text_is_not_a_duration :
  (forall t, parse (time_debug t) = PErr) /\ (forall t, parse (time_display t) = PErr)
  /\ (forall m ns, parse (td_debug m ns) = PErr) /\ parse nat_str = PErr.
Proof.
  repeat split; intros; try (apply parse_two_nondigit_head; reflexivity).
Qed.

Theorem time_display_is_debug t : time_display t = time_debug t.
Proof. reflexivity. Qed.

(* ================================================================== (D) date-time text *)
Theorem strftime_panics_iff u items x k :
  dt_format u items x = Panic k <-> (x <> i64_min /\ fields_of_instant u x = None /\ k = UnwrapNone).
Proof.
  unfold dt_format. destruct (x =? i64_min) eqn:E.
  - apply Z.eqb_eq in E. split; [discriminate|]. intros [H _]. contradiction.
  - apply Z.eqb_neq in E. destruct (fields_of_instant u x) as [f|].
    + split; [discriminate|]. intros (_ & H & _). discriminate H.
    + split; [intros [= <-]; auto|]. intros (_ & _ & ->). reflexivity.
Qed.

Theorem strftime_returns u items x :
  dt_format u items x = Ok (if x =? i64_min then nat_str
                            else match fields_of_instant u x with Some f => render items f | None => [] end)
  \/ dt_format u items x = Panic UnwrapNone.
Proof.
  unfold dt_format. destruct (x =? i64_min); [left; reflexivity|].
  destruct (fields_of_instant u x); [left|right]; reflexivity.
Qed.

Lemma fmt_k_1 : fmt_k 1 = fmt_default.
Proof. reflexivity. Qed.

(* whenever strftime(None) returns a text for a non-NaT date-time, both ways of parsing return the instant: no
   hypothesis on the year, the fields or the sub-second part — the default format can express every instant *)
Theorem strftime_default_parse_back u x text :
  unit_code u -> in_i64 x = true -> x <> i64_min ->
  dt_format u fmt_default x = Ok text ->
  parse_with u fmt_default text = Some x /\ dt_parse u text = Some x.
Proof.
  intros Hu Hx Hn H. unfold dt_format in H.
  replace (x =? i64_min) with false in H by (symmetry; apply Z.eqb_neq; exact Hn).
  destruct (fields_of_instant u x) as [f|] eqn:Ef; [|discriminate H]. injection H as <-.
  destruct (dt_full_roundtrip u 1 x f Hu ltac:(lia) Hx Hn Ef) as (_ & H2 & H3).
  - discriminate.
  - discriminate.
  - cbn [In]. intros [H|[H|[H|[H|[]]]]]; discriminate H.
  - rewrite fmt_k_1 in *. auto.
Qed.

(* Debug of a date-time = strftime(None) ("NaT" for NaT): so Debug text parses back as well *)
Theorem debug_parse_back u x text :
  unit_code u -> in_i64 x = true -> x <> i64_min -> dt_debug u x = Ok text -> dt_parse u text = Some x.
Proof. intros Hu Hx Hn H. apply (strftime_default_parse_back u x text Hu Hx Hn H). Qed.

(* the default unit: every i64 nanosecond timestamp lies inside chrono's years (1677..2262) *)
Definition ns_day_check (z : Z) : bool :=
  let '(y, _, _) := civil_from_days z in (cr_min_year <=? y) && (y <=? cr_max_year).

Lemma ns_days_sweep : all_from (Z.to_nat 213506) (-106753) ns_day_check = true.
Proof. vm_compute. reflexivity. Qed.

Lemma fields_of_instant_nano x : in_i64 x = true -> exists f, fields_of_instant 3 x = Some f.
Proof.
  intros Hx. apply in_i64_iff in Hx. unfold i64_min, i64_max in Hx.
  unfold fields_of_instant. change (per_sec 3) with 1000000000.
  set (days := x / 1000000000 / 86400).
  assert (Hd : -106753 <= days < -106753 + Z.of_nat (Z.to_nat 213506)) by (subst days; rewrite Z2Nat.id by lia; zdm).
  pose proof (all_from_spec _ _ _ ns_days_sweep days Hd) as Hc. unfold ns_day_check in Hc.
  destruct (civil_from_days days) as [[y m] d]. rewrite Hc. eauto.
Qed.

Theorem strftime_nano_total x :
  in_i64 x = true -> x <> i64_min ->
  exists text, dt_format 3 fmt_default x = Ok text /\ dt_parse 3 text = Some x /\ dt_debug 3 x = Ok text.
Proof.
  intros Hx Hn. destruct (fields_of_instant_nano x Hx) as [f Hf].
  assert (H : dt_format 3 fmt_default x = Ok (render fmt_default f)).
  { unfold dt_format. replace (x =? i64_min) with false by (symmetry; apply Z.eqb_neq; exact Hn).
    rewrite Hf. reflexivity. }
  exists (render fmt_default f). split; [exact H|]. split; [|exact H].
  apply (strftime_default_parse_back 3 x _ ltac:(unfold unit_code; auto) Hx Hn H).
Qed.

(* NaT and text *)
Theorem nat_text :
  (forall u items, dt_format u items i64_min = Ok nat_str) /\ (forall u, dt_debug u i64_min = Ok nat_str)
  /\ (forall u, dt_parse u nat_str = None)
  /\ (forall u k, (k < 11)%nat -> parse_with u (fmt_k k) nat_str = None)
  /\ (forall u, parse_with u fmt_default nat_str = None).
Proof.
  split; [reflexivity|]. split; [reflexivity|]. split; [intros u; vm_compute; reflexivity|].
  split; [|intros u; vm_compute; reflexivity].
  intros u k Hk. do 11 (destruct k as [|k]; [vm_compute; reflexivity|]). lia.
Qed.

Lemma fixed_digits_head_dg w v : exists c r, fixed_digits (S w) v = c :: r /\ dg c.
Proof.
  pose proof (fixed_digits_dg (S w) v) as H. pose proof (fixed_digits_length (S w) v) as L.
  destruct (fixed_digits (S w) v) as [|c r]; [discriminate L|]. inversion H; subst. eauto.
Qed.

Lemma render_year_head y : exists c r, render_year y = c :: r /\ c <> 78.
Proof.
  unfold render_year. destruct ((0 <=? y) && (y <=? 9999)).
  - destruct (fixed_digits_head_dg 3 y) as [c [r [E Hc]]]. exists c, r. split; [exact E|].
    apply dg_range in Hc. lia.
  - eexists _, _. split; [reflexivity|]. destruct (y <? 0); lia.
Qed.

(* no valid date-time renders as "NaT" under a listed format (or the default one): the text tells NaT apart *)
Theorem listed_text_is_not_nat k f : render (fmt_k k) f <> nat_str.
Proof.
  assert (HY : forall rest, render (IY :: rest) f <> nat_str).
  { intros rest. unfold render. cbn [flat_map render_item].
    destruct (render_year_head (f_y f)) as [c [r [E Hc]]]. rewrite E. cbn [app]. unfold nat_str. congruence. }
  assert (HD : forall rest, render (Iday :: rest) f <> nat_str).
  { intros rest. unfold render. cbn [flat_map render_item].
    destruct (fixed_digits_head_dg 1 (f_d f)) as [c [r [E Hc]]]. rewrite E. cbn [app]. unfold nat_str.
    apply dg_range in Hc. intros [= H _]. lia. }
  do 11 (destruct k as [|k]; [first [apply HY|apply HD]|]).
  unfold fmt_k, rules. cbn [nth]. destruct k; apply HY.
Qed.

Theorem strftime_nat_iff u k x : dt_format u (fmt_k k) x = Ok nat_str <-> x = i64_min.
Proof.
  split.
  - unfold dt_format. destruct (x =? i64_min) eqn:E; [intros _; apply Z.eqb_eq; exact E|].
    destruct (fields_of_instant u x) as [f|]; [|discriminate]. intros [= H]. exfalso. exact (listed_text_is_not_nat k f H).
  - intros ->. reflexivity.
Qed.

(* ================================================================== (E) Time::parse with an explicit format *)
Definition tfields (h m s ns : Z) : dtf := mk_dtf 0 0 0 h m s ns.

Theorem time_parse_hms h m s :
  0 <= h <= 23 -> 0 <= m <= 59 -> 0 <= s <= 59 ->
  time_parse_with fmt_hms (render fmt_hms (tfields h m s 0)) = Some ((h * 3600 + m * 60 + s) * giga)
  /\ time_parse_with fmt_hms_compact (render fmt_hms_compact (tfields h m s 0)) = Some ((h * 3600 + m * 60 + s) * giga).
Proof.
  intros Hh Hm Hs. unfold time_parse_with, fmt_hms, fmt_hms_compact, render, parsed0, colon, tfields.
  cbn [flat_map render_item app f_h f_mi f_s].
  repeat (rewrite <- app_assoc; cbn [app]).
  split;
    repeat (cbn [parse_items];
            first [ rewrite pi_lit | rewrite pi_H by lia | rewrite pi_M by lia | rewrite pi_S by lia ]);
    unfold to_naive_time; cbn [p_h p_mi p_s p_ns];
    replace (s =? 60) with false by (symmetry; apply Z.eqb_neq; lia); f_equal; try (unfold giga; lia).
Qed.

Theorem time_parse_hms_frac h m s ns :
  0 <= h <= 23 -> 0 <= m <= 59 -> 0 <= s <= 59 -> 0 <= ns <= 999999999 ->
  time_parse_with fmt_hms_f (render fmt_hms_f (tfields h m s ns)) = Some ((h * 3600 + m * 60 + s) * giga + ns).
Proof.
  intros Hh Hm Hs Hn. unfold time_parse_with, fmt_hms_f, render, parsed0, colon, dot, tfields.
  cbn [flat_map render_item app f_h f_mi f_s f_ns].
  repeat (rewrite <- app_assoc; cbn [app]).
  repeat (cbn [parse_items];
          first [ rewrite pi_lit | rewrite pi_H by lia | rewrite pi_M by lia | rewrite pi_S by lia
                | rewrite pi_f by lia ]).
  unfold to_naive_time. cbn [p_h p_mi p_s p_ns].
  replace (s =? 60) with false by (symmetry; apply Z.eqb_neq; lia). f_equal; try (unfold giga; lia).
Qed.

(* the leap second: accepted, and the value is out of the day — Time(86_400 * 10^9) for 23:59:60 — on which every
   Timelike getter panics (as_cr() is None, then unwrap) *)
Theorem time_parse_leap_second :
  time_parse_with fmt_hms [50;51;58;53;57;58;54;48] = Some 86400000000000
  /\ time_parse_with fmt_hms_compact [50;51;53;57;54;48] = Some 86400000000000
  /\ Time.time_as_cr 86400000000000 = None
  /\ Time.time_hour 86400000000000 = Panic UnwrapNone /\ Time.time_second 86400000000000 = Panic UnwrapNone
  /\ Time.time_with_hour 86400000000000 0 = None.
Proof. vm_compute. repeat split. Qed.

(* ================================================================== (B') the range premises of C18_wellformed are NECESSARY *)
Definition acc_in_range (a : accs) : Prop :=
  in_i32 (a_months a) = true /\ in_i64 (a_secs a) = true /\ in_i64 (a_nsecs a) = true.

Definition acc_sum (a : accs) (ts : list term) : accs :=
  mk_accs (a_nsecs a + sumf t_nsecs ts) (a_secs a + sumf t_secs ts) (a_months a + sumf t_months ts).

Lemma step_term_inv a t a' :
  acc_in_range a -> step_term a t = Some a' -> term_in_range t /\ a' = acc_plus a t /\ acc_in_range a'.
Proof.
  unfold step_term. destruct (in_i64 (tval t)) eqn:Ev; [|discriminate].
  unfold term_in_range, acc_plus, t_months, t_secs, t_nsecs, acc_in_range.
  destruct a as [an asx am]; cbn [a_nsecs a_secs a_months]. intros (Hm & Hs & Hn).
  destruct (t_unit t); cbn [apply_unit unit_scale a_nsecs a_secs a_months]; unfold add_i64, add_i32;
    repeat match goal with |- context [if ?b then _ else _] => destruct b eqn:? end;
    cbn [option_map]; try discriminate; intros [= <-]; cbn [a_nsecs a_secs a_months];
    rewrite ?Z.mul_1_r in *;
    (split; [repeat split; auto|]); (split; [f_equal; lia|]); repeat split; auto.
Qed.

Lemma acc_sum_cons a t l : acc_sum (acc_plus a t) l = acc_sum a (t :: l).
Proof. unfold acc_sum, acc_plus, sumf. cbn [a_nsecs a_secs a_months fold_right]. f_equal; lia. Qed.

Lemma acc_sum_nil a : acc_sum a [] = a.
Proof. destruct a. unfold acc_sum, sumf. cbn. f_equal; lia. Qed.

Lemma run_terms_inv : forall ts a a',
  acc_in_range a -> run_terms a ts = Some a' ->
  Forall term_in_range ts /\ a' = acc_sum a ts
  /\ forall k, (k <= length ts)%nat -> acc_in_range (acc_sum a (firstn k ts)).
Proof.
  induction ts as [|t r IH]; intros a a' Ha H.
  - cbn in H. injection H as <-. split; [constructor|]. split; [symmetry; apply acc_sum_nil|].
    intros k _. destruct k; cbn [firstn]; rewrite acc_sum_nil; exact Ha.
  - cbn [run_terms] in H. destruct (step_term a t) as [a1|] eqn:E; [|discriminate].
    destruct (step_term_inv a t a1 Ha E) as (Ht & -> & Ha1).
    destruct (IH _ _ Ha1 H) as (Hr & -> & Hp).
    split; [constructor; assumption|]. split; [apply acc_sum_cons|].
    intros k Hk. destruct k as [|k]; [cbn [firstn]; rewrite acc_sum_nil; exact Ha|].
    cbn [firstn]. rewrite <- acc_sum_cons. apply Hp. cbn [length] in Hk. lia.
Qed.

Lemma duration_new_range s n s' n' : duration_new s n = Some (s', n') ->
  cr_min_secs <= s <= cr_max_secs /\ n < giga
  /\ (s = cr_max_secs -> n <= cr_max_nanos) /\ (s = cr_min_secs -> cr_min_nanos <= n).
Proof.
  unfold duration_new.
  destruct (Z.ltb_spec s cr_min_secs); [discriminate|]. destruct (Z.gtb_spec s cr_max_secs); [discriminate|].
  destruct (Z.geb_spec n giga); [discriminate|].
  destruct (Z.eqb_spec s cr_max_secs); destruct (Z.gtb_spec n cr_max_nanos);
    destruct (Z.eqb_spec s cr_min_secs); destruct (Z.ltb_spec n cr_min_nanos); cbn; try discriminate;
    intros _; repeat split; try lia; intros; try lia;
    unfold cr_max_secs, cr_min_secs in *; lia.
Qed.

(* converse of finish_ok *)
Lemma finish_range N S M m t : finish (mk_accs N S M) = POk m t ->
  - cr_max_secs <= S <= cr_max_secs /\ - (i64_max * 1000000) <= S * giga + N <= i64_max * 1000000.
Proof.
  unfold finish. cbn [a_nsecs a_secs a_months].
  destruct (duration_new S 0) as [[s1 n1]|] eqn:E1; [|discriminate].
  pose proof (duration_new_range _ _ _ _ E1) as (R1 & _ & _ & R4).
  apply duration_new_inv in E1. destruct E1 as [-> ->].
  pose proof (Z.div_mod N giga ltac:(unfold giga; lia)) as HD.
  pose proof (Z.mod_pos_bound N giga ltac:(unfold giga; lia)) as HB.
  replace (0 + N mod giga) with (N mod giga) by lia.
  destruct (Z.geb_spec (N mod giga) giga); [lia|].
  destruct (duration_new (S + N / giga) (N mod giga)) as [[s2 n2]|] eqn:E2; [|discriminate].
  pose proof (duration_new_range _ _ _ _ E2) as (Q1 & _ & Q3 & Q4). intros _.
  unfold giga, cr_min_secs, cr_max_secs, cr_min_nanos, cr_max_nanos, i64_max in *.
  split; [split; [|lia]|].
  - destruct (Z.eq_dec S (-9223372036854776)) as [->|]; [specialize (R4 eq_refl); lia|lia].
  - destruct (Z.eq_dec (S + N / 1000000000) 9223372036854775) as [e|];
      destruct (Z.eq_dec (S + N / 1000000000) (-9223372036854776)) as [e'|];
      try specialize (Q3 e); try specialize (Q4 e'); lia.
Qed.

Lemma acc_in_range_zero : acc_in_range (mk_accs 0 0 0).
Proof. repeat split. Qed.

Lemma parse_ok_ranges ts m ns :
  Forall wf_term ts -> parse (render_terms ts) = POk m ns ->
  (Forall term_in_range ts /\ partial_sums_in_range ts /\ total_in_range ts)
  /\ m = sumf t_months ts /\ ns = fixed_ns ts.
Proof.
  intros Hw H. rewrite (parse_wellformed_run ts Hw) in H.
  destruct (run_terms (mk_accs 0 0 0) ts) as [a|] eqn:E; [|discriminate H]. cbn [run_result] in H.
  destruct (run_terms_inv _ _ _ acc_in_range_zero E) as (Hr & -> & Hp).
  unfold acc_sum in H. cbn [a_nsecs a_secs a_months] in H. rewrite !Z.add_0_l in H.
  pose proof (finish_range _ _ _ _ _ H) as [T1 T2]. apply finish_inv in H. cbn [a_nsecs a_secs a_months] in H.
  split; [|exact H]. split; [exact Hr|]. split; [|split; [exact T1|exact T2]].
  intros k Hk. specialize (Hp k Hk). unfold acc_in_range, acc_sum in Hp. cbn [a_nsecs a_secs a_months] in Hp.
  rewrite !Z.add_0_l in Hp. exact Hp.
Qed.

(* the premises of C18_wellformed are exactly the acceptance condition of a well-formed string *)
Theorem parse_wellformed_iff ts :
  Forall wf_term ts ->
  (parse (render_terms ts) = POk (sumf t_months ts) (fixed_ns ts)
   <-> (Forall term_in_range ts /\ partial_sums_in_range ts /\ total_in_range ts))
  /\ (parse (render_terms ts) = PErr
      <-> ~ (Forall term_in_range ts /\ partial_sums_in_range ts /\ total_in_range ts)).
Proof.
  intros Hw. split; split.
  - intros H. apply (parse_ok_ranges ts _ _ Hw H).
  - intros (H1 & H2 & H3). apply wellformed_sum; assumption.
  - intros H (H1 & H2 & H3). rewrite (wellformed_sum ts Hw H1 H2 H3) in H. discriminate H.
  - intros Hn. destruct (parse_ok_or_err (render_terms ts)) as [[m [ns H]]|H]; [|exact H].
    exfalso. apply Hn. apply (parse_ok_ranges ts m ns Hw H).
Qed.
