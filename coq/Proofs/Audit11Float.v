(* Proofs/Audit11Float.v — audit of C11, binary64 instances (Coq's primitive `float`, NumF64 / IsNoneF64 of Base/F64.v:
   the execution instance the correspondence run evaluates).
     - extrema / first arg-extrema of f64 and Option<f64> series through the weak-order theorems of Proofs/Audit11.v and
       `ordlaws_F64` (Proofs/CmpOrdFloat.v; +0 / -0 are equivalent, not equal);
     - permutation invariance of vmin / vmax holds up to `==` and is REFUTED bitwise ([+0; -0] vs [-0; +0]);
     - Number::min_with / max_with with NaN operands; nullness below the thresholds; n_add folds = the vsum fold, so the
       rounding bound (R2) of Proofs/RoundSum.v is a bound for accumulating with Number::n_add;
     - Kahan's step at binary64 (a witness that the compensation is effective);  f64::floor as modelled in Run/RunC11.v.
   Axioms: the stdlib's specification of the primitive floats (FloatAxioms.*_spec), Reals axioms where f2r occurs. *)
From Coq Require Import ZArith List Floats Bool Lia Permutation Reals.
From Tevec Require Import Base.Prelude Base.Num Base.F64 Spec.ExtremaOrd Model.Agg Model.AggNumber
     Proofs.AggGeneric Proofs.AggOrder Proofs.Audit11.
From Tevec Require Proofs.CmpOrdFloat Proofs.Audit13 Proofs.RoundSum Run.RunC11.
Import ListNotations.
Set Implicit Arguments.

Definition ordlaws_F64 : OrdLaws float := Proofs.CmpOrdFloat.ordlaws_F64.

(* f64 series: a valid element is not NaN by the definition of the dictionary *)
Lemma valid_ok_f64 (xs : list float) : valid_ok (DT := IsNoneF64) xs.
Proof.
  intros v _ Hv. unfold num_ok. unfold not_none in Hv. cbn [is_none unwrap IsNoneF64 IsNone_float] in *.
  destruct (nisnan v); [discriminate|reflexivity].
Qed.
(* Option<f64> series: canonical nulls (no Some(NaN)) is exactly valid_ok *)
Lemma valid_ok_optf64_iff (xs : list (option float)) :
  valid_ok (DT := IsNoneOptF64) xs <-> (forall x, In (Some x) xs -> is_nan x = false).
Proof.
  split.
  - intros H x Hx. exact (H (Some x) Hx eq_refl).
  - intros H [x|] Hv Hn; [exact (H x Hv)|discriminate].
Qed.

Section Extrema64.
  Context {T : Type} {DT : IsNone T float}.
  Variable xs : list T.
  Hypothesis Hok : valid_ok xs.

  Theorem vmin_vmax_binary64 :
    match vmin xs with
    | None => vals xs = []
    | Some m => In m (vals xs) /\ forall x, In x (vals xs) -> (x <? m)%float = false
    end /\
    match vmax xs with
    | None => vals xs = []
    | Some m => In m (vals xs) /\ forall x, In x (vals xs) -> (m <? x)%float = false
    end.
  Proof. split; [exact (vmin_ord ordlaws_F64 Hok)|exact (vmax_ord ordlaws_F64 Hok)]. Qed.

  Theorem vargmin_vargmax_binary64 :
    match vargmin xs with
    | None => vals xs = []
    | Some i => exists v, nth_error xs i = Some v /\ not_none v = true /\
        (forall j w, nth_error xs j = Some w -> not_none w = true -> (unwrap w <? unwrap v)%float = false) /\
        (forall j w, j < i -> nth_error xs j = Some w -> not_none w = true -> (unwrap v <? unwrap w)%float = true)
    end /\
    match vargmax xs with
    | None => vals xs = []
    | Some i => exists v, nth_error xs i = Some v /\ not_none v = true /\
        (forall j w, nth_error xs j = Some w -> not_none w = true -> (unwrap v <? unwrap w)%float = false) /\
        (forall j w, j < i -> nth_error xs j = Some w -> not_none w = true -> (unwrap w <? unwrap v)%float = true)
    end.
  Proof. split; [exact (vargmin_ord ordlaws_F64 Hok)|exact (vargmax_ord ordlaws_F64 Hok)]. Qed.

  Theorem vmin_vmax_perm_binary64 (ys : list T) : Permutation xs ys ->
    match vmin xs, vmin ys with
    | None, None => True | Some a, Some b => (a =? b)%float = true | _, _ => False end /\
    match vmax xs, vmax ys with
    | None, None => True | Some a, Some b => (a =? b)%float = true | _, _ => False end.
  Proof. intros HP. exact (vmin_vmax_perm_ord ordlaws_F64 Hok HP). Qed.
End Extrema64.

(* ... and NOT bit for bit: the fold keeps the FIRST of two equivalent values *)
Theorem vmin_perm_bitwise_refuted :
  exists xs ys : list float, Permutation xs ys /\
    vmin (DT := IsNoneF64) xs <> vmin (DT := IsNoneF64) ys /\ vmax (DT := IsNoneF64) xs <> vmax (DT := IsNoneF64) ys.
Proof.
  exists [0%float; (-0)%float], [(-0)%float; 0%float]. split; [apply perm_swap|].
  split; intros H; apply (f_equal (fun o => match o with Some m => (1 / m <? 0)%float | None => false end)) in H;
    vm_compute in H; discriminate.
Qed.

(* ---- min_with / max_with ---------------------------------------------------------------------------------- *)
Lemma f64_lt_nan_l (a b : float) : nisnan a = true -> nltb a b = false.
Proof.
  cbn [nisnan nltb NumF64]. intros H. apply Proofs.Audit13.f64_is_nan_iff in H.
  rewrite FloatAxioms.ltb_spec, H. reflexivity.
Qed.
Lemma f64_lt_nan_r (a b : float) : nisnan b = true -> nltb a b = false.
Proof.
  cbn [nisnan nltb NumF64]. intros H. apply Proofs.Audit13.f64_is_nan_iff in H.
  rewrite FloatAxioms.ltb_spec, H. unfold SFltb, SFcompare. destruct (Prim2SF a) as [ | [|] | | [|] ? ?]; reflexivity.
Qed.
Theorem min_max_with_binary64 (s o : float) :
  (is_nan o = true -> min_with s o = s /\ max_with s o = s) /\
  (is_nan s = true -> min_with s o = s /\ max_with s o = s) /\
  (is_nan s = false -> is_nan o = false ->
     (s <? min_with s o)%float = false /\ (o <? min_with s o)%float = false /\
     (max_with s o <? s)%float = false /\ (max_with s o <? o)%float = false) /\
  (min_with s o = s \/ min_with s o = o) /\ (max_with s o = s \/ max_with s o = o).
Proof.
  destruct (min_max_with_nan f64_lt_nan_l f64_lt_nan_r s o) as [H1 H2].
  split; [exact H1|]. split; [exact H2|]. split; [intros Hs Ho; exact (min_max_with_ord ordlaws_F64 Hs Ho)|].
  split.
  - destruct (min_with_cases s o) as [[_ H]|[_ H]]; [right|left]; exact H.
  - destruct (max_with_cases s o) as [[_ H]|[_ H]]; [right|left]; exact H.
Qed.

(* ---- nullness below the thresholds, at binary64, for f64 / Option<f64> / integer element types ---------------- *)
Theorem null_below_binary64 {A} {NA : Num A} {T} {DT : IsNone T A} (tof : A -> float) (mp : nat) (xs : list T) :
  (count_valid xs = 0 -> vsum xs = None /\ is_nan (vmean tof xs) = true /\ vmin xs = None /\ vmax xs = None /\
                         vargmin xs = None /\ vargmax xs = None /\ vfirst xs = None /\ vlast xs = None) /\
  (count_valid xs < Nat.max mp 2 -> is_nan (vvar tof mp xs) = true /\ is_nan (vstd tof mp xs) = true) /\
  (count_valid xs < Nat.max mp 3 -> is_nan (vskew tof mp xs) = true) /\
  (count_valid xs < Nat.max mp 4 -> is_nan (vkurt tof mp xs) = true).
Proof.
  destruct (null_below_single (NF := NumF64) tof eq_refl mp xs) as (H0 & H2 & H3 & H4).
  split; [|split; [|split]].
  - intros E. destruct (H0 E) as (a & b & c & d & e & f & g & h). rewrite b. repeat split; assumption.
  - intros E. destruct (H2 E) as [a b]. rewrite a, b. split; reflexivity.
  - intros E. rewrite (H3 E). reflexivity.
  - intros E. rewrite (H4 E). reflexivity.
Qed.
Theorem null_below_two_binary64 {A} {T T2} {DT : IsNone T A} {DT2 : IsNone T2 A} (tof : A -> float) (mp : nat)
    (xs : list T) (ys : list T2) :
  npairs xs ys < Nat.max mp 2 ->
  is_nan (vcov tof mp xs ys) = true /\ is_nan (vcorr_pearson tof mp xs ys) = true.
Proof. intros H. destruct (null_below_two (NF := NumF64) tof mp xs ys H) as [a b]. rewrite a, b. split; reflexivity. Qed.

(* ---- accumulating with Number::n_add IS the vsum fold: the rounding bound (R2) applies to it ------------------ *)
Theorem n_add_fold_binary64 (xs : list float) :
  n_add_fold (DN := IsNoneF64) zero xs
  = (Proofs.RoundSum.ffold zero (Proofs.RoundSum.fvals xs), length (Proofs.RoundSum.fvals xs)).
Proof. rewrite (n_add_fold_spec (DN := IsNoneF64) unwrap_id_float). reflexivity. Qed.

Local Open Scope R_scope.
Theorem n_add_fold_binary64_error (xs : list float) :
  Proofs.RoundSum.ffin (fst (n_add_fold (DN := IsNoneF64) zero xs)) = true ->
  Rabs (Proofs.RoundSum.f2r (fst (n_add_fold (DN := IsNoneF64) zero xs)) - Spec.Stats.sumR (Proofs.RoundSum.rvals64 xs))
  <= Proofs.RoundSum.gam Proofs.RoundSum.u64 (length (Proofs.RoundSum.rvals64 xs)) * Proofs.RoundSum.sumabs (Proofs.RoundSum.rvals64 xs).
Proof.
  rewrite n_add_fold_binary64. cbn [fst]. intros Hf. unfold Proofs.RoundSum.rvals64. rewrite map_length.
  apply Proofs.RoundSum.round_sum_fold, Hf.
Qed.
Local Close Scope R_scope.

(* ---- Kahan's step at binary64: the compensated sum of [1; 2^-53; 2^-53] is 1 + 2^-52, the plain fold returns 1 ----- *)
Theorem kh_fold_binary64_witness :
  fst (kh_fold [1; 0x1p-53; 0x1p-53]%float) = 0x1.0000000000001p+0%float /\
  fold_left PrimFloat.add [1; 0x1p-53; 0x1p-53]%float zero = 1%float /\
  is_nan (fst (kh_fold [1; nan; 2]%float)) = true /\ is_nan (snd (kh_fold [1; nan; 2]%float)) = true.
Proof. repeat split; vm_compute; reflexivity. Qed.

(* one Kahan step, operation by operation (what the model — and the code — computes at binary64) *)
Theorem kh_sum_binary64 (s v c : float) :
  kh_sum s v c = ((s + (v - c))%float, (((s + (v - c)) - s) - (v - c))%float).
Proof. reflexivity. Qed.

(* ---- f64::floor / ceil as modelled in Run/RunC11.v ---------------------------------------------------------------- *)
Theorem f64_floor_shape (x : float) :
  match Prim2SF x with
  | S754_finite s m e =>
      if (0 <=? e)%Z then Run.RunC11.f64_floor x = x
      else Run.RunC11.f64_floor x =
           (if (Run.RunC11.f64_floorZ x =? 0)%Z then (if s then neg_zero else zero) else f64_ofZ (Run.RunC11.f64_floorZ x))
  | _ => Run.RunC11.f64_floor x = x       (* NaN, +-inf, +-0 *)
  end /\ Run.RunC11.f64_ceil x = (- Run.RunC11.f64_floor (- x))%float.
Proof.
  split; [|reflexivity]. unfold Run.RunC11.f64_floor. destruct (Prim2SF x) as [ | | | s m e]; try reflexivity.
  destruct (0 <=? e)%Z; reflexivity.
Qed.
