(* Proofs/Driver.v — lemmas about Model/Driver.v.  Stdlib only, axiom-free. *)
From Tevec Require Import Base.Prelude Model.Driver.


(* ---- generic: flat_map of singleton-producing functions over seq --- *)
Lemma flat_map_single {X Y} (h : X -> list Y) (k : X -> Y) (l : list X) :
  (forall x, In x l -> h x = [k x]) -> flat_map h l = map k l.
Proof.
  induction l as [|a l IH]; intros H; [reflexivity|]. cbn [flat_map map].
  rewrite (H a (or_introl eq_refl)). cbn. f_equal. apply IH. intros x Hx. apply H. right. exact Hx.
Qed.

Lemma flat_map_ext_in {X Y} (f g : X -> list Y) (l : list X) :
  (forall x, In x l -> f x = g x) -> flat_map f l = flat_map g l.
Proof.
  induction l as [|a l IH]; intros H; [reflexivity|]. cbn [flat_map].
  rewrite (H a (or_introl eq_refl)). f_equal. apply IH. intros x Hx. apply H. right. exact Hx.
Qed.

Lemma flat_map_map {X Y Z} (f : Y -> list Z) (g : X -> Y) (l : list X) :
  flat_map f (map g l) = flat_map (fun x => f (g x)) l.
Proof. induction l as [|a l IH]; [reflexivity|]. cbn. f_equal. exact IH. Qed.

Lemma seq_shift_n a k n : seq (k + a) n = map (fun x => x + a) (seq k n).
Proof.
  revert k; induction n as [|n IH]; intros k; [reflexivity|]. cbn [seq map]. f_equal.
  change (S (k + a)) with (S k + a). apply IH.
Qed.

Lemma nth_error_Some_lt {T} (xs : list T) i : i < length xs -> exists v, nth_error xs i = Some v.
Proof.
  intros H. destruct (nth_error xs i) eqn:E; [eauto|]. apply nth_error_None in E. lia.
Qed.

(* ---- the removed argument ------------------------------------------ *)
Section RemoveAdd.
  Context {T : Type}.

  (* what the iterator body reports as removed at position i *)
  Definition removed (w : nat) (xs : list T) (i : nat) : option T :=
    if i <? w - 1 then None else nth_error xs (i - (w - 1)).
  (* what the two-phase body reports (window clamped to the length first) *)
  Definition removed_to (w : nat) (xs : list T) (i : nat) : option T :=
    removed (Nat.min w (length xs)) xs i.

  Lemma args_iter_nth w (xs : list T) i v :
    1 <= w -> nth_error xs i = Some v ->
    nth_error (args_iter w xs) i = Some (removed w xs i, v).
  Proof.
    intros Hw Hv. unfold args_iter, removed. rewrite nth_error_combine, Hv.
    rewrite nth_error_app, repeat_length, nth_error_repeat.
    destruct (i <? w - 1) eqn:E; [reflexivity|].
    rewrite nth_error_map.
    assert (Hi : i < length xs) by (apply nth_error_Some; congruence).
    destruct (nth_error_Some_lt xs (i - (w - 1))) as [u Hu]; [lia|]. rewrite Hu. reflexivity.
  Qed.

  Lemma args_iter_length w (xs : list T) : 1 <= w -> length (args_iter w xs) = length xs.
  Proof.
    intros _. unfold args_iter. rewrite combine_length, app_length, repeat_length, map_length. lia.
  Qed.

  (* both bodies perform exactly one call per position, in increasing order, carrying x_i *)
  Lemma args_iter_mapi w (xs : list T) :
    1 <= w -> args_iter w xs = mapi (fun i v => (removed w xs i, v)) xs.
  Proof.
    intros Hw. apply nth_error_ext. intros i. rewrite nth_error_mapi.
    destruct (nth_error xs i) eqn:E.
    - cbn. apply args_iter_nth; assumption.
    - cbn. apply nth_error_None. rewrite args_iter_length by exact Hw. apply nth_error_None. exact E.
  Qed.

  Lemma calls_to_spec w (xs : list T) :
    1 <= w -> calls_to w xs = mapi (fun i v => (i, (removed_to w xs i, v))) xs.
  Proof.
    intros Hw. rewrite <- flat_map_positions.
    unfold calls_to, removed_to. set (len := length xs). set (w' := Nat.min w len).
    destruct (w' =? 0) eqn:E0.
    { apply Nat.eqb_eq in E0. assert (len = 0) by lia.
      subst len. destruct xs; [reflexivity|cbn in *; lia]. }
    apply Nat.eqb_neq in E0.
    assert (Hsplit : seq 0 len = seq 0 (w' - 1) ++ seq (w' - 1) (len - (w' - 1))).
    { rewrite <- seq_app. f_equal. lia. }
    rewrite Hsplit, flat_map_app. f_equal.
    - apply flat_map_ext_in. intros i Hi. apply in_seq in Hi. unfold removed.
      replace (i <? w' - 1) with true by (symmetry; apply Nat.ltb_lt; lia). reflexivity.
    - replace (seq (w' - 1) (len - (w' - 1)))
        with (map (fun x => x + (w' - 1)) (seq 0 (len - (w' - 1))))
        by (rewrite <- seq_shift_n; reflexivity).
      rewrite flat_map_map.
      apply flat_map_ext_in. intros st Hst. apply in_seq in Hst. unfold removed.
      replace (st + (w' - 1) <? w' - 1) with false by (symmetry; apply Nat.ltb_ge; lia).
      replace (st + (w' - 1) - (w' - 1)) with st by lia.
      destruct (nth_error_Some_lt xs st) as [u Hu]; [fold len; lia|]. rewrite Hu. reflexivity.
  Qed.

  (* the two bodies report the same removed element except at the last position when w > len *)
  Lemma removed_to_eq w (xs : list T) i :
    i < length xs -> (w <= length xs \/ S i < length xs) -> removed_to w xs i = removed w xs i.
  Proof.
    intros Hi Hc. unfold removed_to, removed.
    destruct (Nat.le_gt_cases w (length xs)) as [Hle|Hgt].
    - rewrite Nat.min_l by exact Hle. reflexivity.
    - rewrite Nat.min_r by lia. destruct Hc as [Hc|Hc]; [lia|].
      replace (i <? length xs - 1) with true by (symmetry; apply Nat.ltb_lt; lia).
      replace (i <? w - 1) with true by (symmetry; apply Nat.ltb_lt; lia). reflexivity.
  Qed.
End RemoveAdd.

(* ---- output buffer ------------------------------------------------- *)
Lemma set_nth_app {O} (done : list (option O)) c rest (v : O) :
  set_nth (length done) v (done ++ c :: rest) = done ++ Some v :: rest.
Proof. induction done as [|d done IH]; [reflexivity|]. cbn. f_equal. exact IH. Qed.

Lemma assume_init_map_Some {O} (l : list O) : assume_init (map Some l) = Some l.
Proof. induction l as [|a l IH]; [reflexivity|]. cbn. rewrite IH. reflexivity. Qed.

Section ExecLemmas.
  Context {St X O : Type}.
  Variable g : St -> X -> St * O.

  Lemma exec_in_order (args : list X) : forall s (done : list O) n,
    exec g s (combine (seq (length done) (length args)) args)
         (map Some done ++ repeat None (length args + n))
    = map Some (done ++ run g s args) ++ repeat None n.
  Proof.
    induction args as [|a args IH]; intros s done n.
    - cbn. rewrite app_nil_r. reflexivity.
    - cbn [length seq combine exec run plus repeat]. destruct (g s a) as [s' o] eqn:E.
      replace (set_nth (length done) o (map Some done ++ None :: repeat None (length args + n)))
        with (map Some done ++ Some o :: repeat None (length args + n))
        by (symmetry; rewrite <- (map_length Some done); apply set_nth_app).
      specialize (IH s' (done ++ [o]) n).
      rewrite app_length in IH. cbn [length] in IH. rewrite Nat.add_1_r in IH.
      rewrite map_app in IH. cbn [map] in IH. rewrite <- app_assoc in IH. cbn [app] in IH.
      rewrite IH. rewrite <- app_assoc. reflexivity.
  Qed.

  (* slots 0,1,..,len-1 in order => every slot written exactly once, result = the run in order *)
  Lemma finish_exec_in_order (args : list X) s :
    finish (exec g s (combine (seq 0 (length args)) args) (repeat None (length args)))
    = Done (run g s args).
  Proof.
    pose proof (exec_in_order args s [] 0) as H. cbn [length map app] in H.
    rewrite Nat.add_0_r in H. rewrite H. cbn [repeat]. rewrite app_nil_r.
    unfold finish. rewrite assume_init_map_Some. reflexivity.
  Qed.
End ExecLemmas.

Lemma mapi_slot_combine {X Y} (h : nat -> X -> Y) (xs : list X) :
  mapi (fun i v => (i, h i v)) xs = combine (seq 0 (length (mapi h xs))) (mapi h xs).
Proof.
  apply nth_error_ext. intros i.
  rewrite nth_error_mapi, nth_error_combine, nth_error_seq, mapi_length, nth_error_mapi.
  destruct (i <? length xs) eqn:E.
  - destruct (nth_error xs i); reflexivity.
  - apply Nat.ltb_ge in E. apply nth_error_None in E. rewrite E. reflexivity.
Qed.

Lemma bad_window_false {T} w (xs : list T) : 1 <= w -> bad_window w xs = false.
Proof. intros Hw. unfold bad_window. replace (w =? 0) with false by (symmetry; apply Nat.eqb_neq; lia). reflexivity. Qed.

(* ---- entry points: remove/add form --------------------------------- *)
Section EntryLemmas.
  Context {T St O : Type}.

  Definition args_to (w : nat) (xs : list T) : list (option T * T) :=
    mapi (fun i v => (removed_to w xs i, v)) xs.

  Lemma rolling_apply_to_eq w (f : St -> option T * T -> St * O) s0 xs :
    1 <= w -> rolling_apply_to w f s0 xs = Done (run f s0 (args_to w xs)).
  Proof.
    intros Hw. unfold rolling_apply_to. rewrite bad_window_false by exact Hw.
    rewrite calls_to_spec by exact Hw.
    rewrite (mapi_slot_combine (fun i v => (removed_to w xs i, v))).
    fold (args_to w xs). set (A := args_to w xs).
    replace (repeat None (length xs)) with (repeat (@None O) (length A))
      by (f_equal; apply mapi_length).
    apply finish_exec_in_order.
  Qed.

  Lemma rolling_apply_default_eq w (f : St -> option T * T -> St * O) s0 xs :
    1 <= w -> rolling_apply_default w f s0 xs
              = Done (run f s0 (mapi (fun i v => (removed w xs i, v)) xs)).
  Proof.
    intros Hw. unfold rolling_apply_default. rewrite bad_window_false by exact Hw.
    rewrite args_iter_mapi by exact Hw. reflexivity.
  Qed.
End EntryLemmas.

(* ---- window-index form ---------------------------------------------- *)
Definition start_of (w i : nat) : option nat := if i <? w - 1 then None else Some (i - (w - 1)).

Section IdxLemmas.
  Context {T St O : Type}.

  Lemma args_iter_idx_mapi w (xs : list T) :
    1 <= w -> args_iter_idx w xs = mapi (fun i v => (start_of w i, i, v)) xs.
  Proof.
    intros Hw. unfold args_iter_idx. apply nth_error_ext. intros i.
    rewrite nth_error_map, nth_error_combine, nth_error_seq, nth_error_combine, nth_error_mapi.
    rewrite nth_error_app, repeat_length, nth_error_repeat, nth_error_map, nth_error_seq.
    destruct (i <? length xs) eqn:E.
    - apply Nat.ltb_lt in E. destruct (nth_error_Some_lt xs i E) as [v Hv]. rewrite Hv.
      unfold start_of. destruct (i <? w - 1) eqn:E2; [reflexivity|].
      replace (i - (w - 1) <? length xs) with true by (symmetry; apply Nat.ltb_lt; lia).
      reflexivity.
    - apply Nat.ltb_ge in E. apply nth_error_None in E. rewrite E. reflexivity.
  Qed.

  Lemma calls_to_idx_spec w (xs : list T) :
    1 <= w ->
    calls_to_idx w xs = mapi (fun i v => (i, (start_of (Nat.min w (length xs)) i, i, v))) xs.
  Proof.
    intros Hw. rewrite <- flat_map_positions.
    unfold calls_to_idx. set (len := length xs). set (w' := Nat.min w len).
    destruct (w' =? 0) eqn:E0.
    { apply Nat.eqb_eq in E0. assert (len = 0) by lia.
      subst len. destruct xs; [reflexivity|cbn in *; lia]. }
    apply Nat.eqb_neq in E0.
    assert (Hsplit : seq 0 len = seq 0 (w' - 1) ++ seq (w' - 1) (len - (w' - 1))).
    { rewrite <- seq_app. f_equal. lia. }
    rewrite Hsplit, flat_map_app. f_equal.
    - apply flat_map_ext_in. intros i Hi. apply in_seq in Hi. unfold start_of.
      replace (i <? w' - 1) with true by (symmetry; apply Nat.ltb_lt; lia). reflexivity.
    - replace (seq (w' - 1) (len - (w' - 1)))
        with (map (fun x => x + (w' - 1)) (seq 0 (len - (w' - 1))))
        by (rewrite <- seq_shift_n; reflexivity).
      rewrite flat_map_map.
      apply flat_map_ext_in. intros st Hst. apply in_seq in Hst. unfold start_of.
      replace (st + (w' - 1) <? w' - 1) with false by (symmetry; apply Nat.ltb_ge; lia).
      replace (st + (w' - 1) - (w' - 1)) with st by lia. reflexivity.
  Qed.

  Lemma start_of_min_eq w len i :
    i < len -> (w <= len \/ S i < len) -> start_of (Nat.min w len) i = start_of w i.
  Proof.
    intros Hi Hc. unfold start_of.
    destruct (Nat.le_gt_cases w len) as [Hle|Hgt].
    - rewrite Nat.min_l by exact Hle. reflexivity.
    - rewrite Nat.min_r by lia. destruct Hc as [Hc|Hc]; [lia|].
      replace (i <? len - 1) with true by (symmetry; apply Nat.ltb_lt; lia).
      replace (i <? w - 1) with true by (symmetry; apply Nat.ltb_lt; lia). reflexivity.
  Qed.

  Definition args_to_idx (w : nat) (xs : list T) : list (option nat * nat * T) :=
    mapi (fun i v => (start_of (Nat.min w (length xs)) i, i, v)) xs.

  Lemma rolling_apply_idx_to_eq w (f : St -> option nat * nat * T -> St * O) s0 xs :
    1 <= w -> rolling_apply_idx_to w f s0 xs = Done (run f s0 (args_to_idx w xs)).
  Proof.
    intros Hw. unfold rolling_apply_idx_to. rewrite bad_window_false by exact Hw.
    rewrite calls_to_idx_spec by exact Hw.
    rewrite (mapi_slot_combine (fun i v => (start_of (Nat.min w (length xs)) i, i, v))).
    fold (args_to_idx w xs). set (A := args_to_idx w xs).
    replace (repeat None (length xs)) with (repeat (@None O) (length A))
      by (f_equal; apply mapi_length).
    apply finish_exec_in_order.
  Qed.

  Lemma rolling_apply_idx_default_eq w (f : St -> option nat * nat * T -> St * O) s0 xs :
    1 <= w -> rolling_apply_idx_default w f s0 xs
              = Done (run f s0 (mapi (fun i v => (start_of w i, i, v)) xs)).
  Proof.
    intros Hw. unfold rolling_apply_idx_default. rewrite bad_window_false by exact Hw.
    rewrite args_iter_idx_mapi by exact Hw. reflexivity.
  Qed.
End IdxLemmas.

(* ---- window-slice form ---------------------------------------------- *)
Lemma slices_iter_spec w len :
  1 <= w -> slices_iter w len = map (fun i => (wstart w i, S i)) (seq 0 len).
Proof.
  intros Hw. unfold slices_iter. apply nth_error_ext. intros i.
  rewrite !nth_error_map, nth_error_combine, !nth_error_seq, nth_error_app, repeat_length,
    nth_error_repeat, nth_error_seq.
  unfold wstart. destruct (i <? len) eqn:E; [|reflexivity]. apply Nat.ltb_lt in E.
  destruct (i <? w - 1) eqn:E2.
  - apply Nat.ltb_lt in E2. cbn -[Nat.sub Nat.add]. f_equal. f_equal; lia.
  - apply Nat.ltb_ge in E2.
    replace (i - (w - 1) <? len) with true by (symmetry; apply Nat.ltb_lt; lia).
    cbn -[Nat.sub Nat.add]. f_equal. f_equal; lia.
Qed.

Lemma slices_to_spec w len :
  1 <= w -> slices_to w len = map (fun i => (i, (wstart w i, S i))) (seq 0 len).
Proof.
  intros Hw. unfold slices_to. set (w' := Nat.min w len).
  destruct (w' =? 0) eqn:E0.
  { apply Nat.eqb_eq in E0. assert (len = 0) by lia. subst len. reflexivity. }
  apply Nat.eqb_neq in E0.
  assert (Hsplit : seq 0 len = seq 0 (w' - 1) ++ seq (w' - 1) (len - (w' - 1))).
  { rewrite <- seq_app. f_equal. lia. }
  rewrite Hsplit, map_app. f_equal.
  - apply map_ext_in. intros i Hi. apply in_seq in Hi. unfold wstart. f_equal. f_equal; lia.
  - replace (seq (w' - 1) (len - (w' - 1)))
      with (map (fun x => x + (w' - 1)) (seq 0 (len - (w' - 1))))
      by (rewrite <- seq_shift_n; reflexivity).
    rewrite map_map. apply map_ext_in. intros st Hst. apply in_seq in Hst. unfold wstart.
    f_equal. f_equal; lia.
Qed.

Section SliceLemmas.
  Context {T St O : Type}.

  Definition windows (w : nat) (xs : list T) : list (list T) :=
    map (fun i => win w i xs) (seq 0 (length xs)).

  Lemma rolling_custom_default_eq w (f : St -> list T -> St * O) s0 xs :
    1 <= w -> rolling_custom_default w f s0 xs = Done (run f s0 (windows w xs)).
  Proof.
    intros Hw. unfold rolling_custom_default.
    replace (w =? 0) with false by (symmetry; apply Nat.eqb_neq; lia).
    rewrite slices_iter_spec by exact Hw. rewrite map_map. reflexivity.
  Qed.

  Lemma rolling_custom_to_eq w (f : St -> list T -> St * O) s0 xs :
    1 <= w -> rolling_custom_to w f s0 xs = Done (run f s0 (windows w xs)).
  Proof.
    intros Hw. unfold rolling_custom_to. rewrite bad_window_false by exact Hw.
    rewrite slices_to_spec by exact Hw. rewrite map_map.
    replace (map (fun x => let '(slot, (st, e)) := (x, (wstart w x, S x)) in (slot, seg st e xs))
                 (seq 0 (length xs)))
      with (combine (seq 0 (length (windows w xs))) (windows w xs)).
    - set (A := windows w xs).
      replace (repeat None (length xs)) with (repeat (@None O) (length A))
        by (f_equal; unfold A, windows; rewrite map_length, seq_length; reflexivity).
      apply finish_exec_in_order.
    - unfold windows. rewrite map_length, seq_length.
      apply nth_error_ext. intros i.
      rewrite nth_error_combine, !nth_error_map, nth_error_seq.
      destruct (i <? length xs); reflexivity.
  Qed.
End SliceLemmas.

(* ---- what the removed argument is ----------------------------------- *)
Lemma removed_spec {T} w (xs : list T) i :
  1 <= w -> i < length xs ->
  (w - 1 <= i -> removed w xs i = nth_error xs (i - (w - 1)) /\ removed w xs i <> None) /\
  (i < w - 1 -> removed w xs i = None).
Proof.
  intros Hw Hi. unfold removed. split; intros H.
  - replace (i <? w - 1) with false by (symmetry; apply Nat.ltb_ge; lia). split; [reflexivity|].
    destruct (nth_error_Some_lt xs (i - (w - 1))) as [u Hu]; [lia|]. congruence.
  - replace (i <? w - 1) with true by (symmetry; apply Nat.ltb_lt; lia). reflexivity.
Qed.

Lemma removed_to_spec {T} w (xs : list T) i :
  1 <= w -> i < length xs ->
  (w - 1 <= i -> removed_to w xs i = nth_error xs (i - (w - 1))) /\
  (i < Nat.min w (length xs) - 1 -> removed_to w xs i = None).
Proof.
  intros Hw Hi. split; intros H.
  - rewrite removed_to_eq by lia. apply removed_spec; assumption.
  - unfold removed_to, removed.
    replace (i <? Nat.min w (length xs) - 1) with true by (symmetry; apply Nat.ltb_lt; lia).
    reflexivity.
Qed.

(* ---- output placement ------------------------------------------------ *)
Lemma run_placement {St X O} (g : St -> X -> St * O) s0 (args : list X) i a :
  nth_error args i = Some a ->
  nth_error (run g s0 args) i = Some (snd (g (state_after g s0 (firstn i args)) a)).
Proof. apply run_nth. Qed.

(* ---- the two bodies agree for add-emit-remove callbacks ------------- *)
Section BodiesAgree.
  Context {T St O : Type}.
  Variable pre : St -> T -> St.          (* add the new element *)
  Variable emit : St -> O.               (* compute the output  *)
  Variable post : St -> option T -> St.  (* remove the window-start element *)
  Definition aer (s : St) (a : option T * T) : St * O :=
    let s1 := pre s (snd a) in (post s1 (fst a), emit s1).

  Lemma run_aer_last_removed_irrelevant s (A : list (option T * T)) r1 r2 v :
    run aer s (A ++ [(r1, v)]) = run aer s (A ++ [(r2, v)]).
  Proof. rewrite !run_app. f_equal. Qed.

  Lemma args_to_vs_iter w (xs : list T) :
    1 <= w ->
    args_to w xs = mapi (fun i v => (removed w xs i, v)) xs \/
    exists A r1 r2 v, args_to w xs = A ++ [(r1, v)] /\
                      mapi (fun i v => (removed w xs i, v)) xs = A ++ [(r2, v)].
  Proof.
    intros Hw. destruct (Nat.le_gt_cases w (length xs)) as [Hle|Hgt].
    - left. unfold args_to. apply mapi_ext. intros i v Hv. f_equal.
      apply removed_to_eq; [apply nth_error_Some; congruence|left; exact Hle].
    - destruct xs as [|x0 xs'] using rev_ind; [left; reflexivity|]. clear IHxs'. right.
      set (xs := xs' ++ [x0]) in *.
      exists (firstn (length xs') (args_to w xs)),
             (removed_to w xs (length xs')), (removed w xs (length xs')), x0.
      assert (Hlen : length xs = S (length xs')) by (unfold xs; rewrite app_length; cbn; lia).
      assert (Hx0 : nth_error xs (length xs') = Some x0).
      { unfold xs. rewrite nth_error_app2, Nat.sub_diag by lia. reflexivity. }
      split.
      + apply nth_error_ext. intros i. unfold args_to.
        rewrite nth_error_mapi, nth_error_app, firstn_length, mapi_length, nth_error_firstn,
          nth_error_mapi.
        replace (Nat.min (length xs') (length xs)) with (length xs') by lia.
        destruct (i <? length xs') eqn:E; [reflexivity|]. apply Nat.ltb_ge in E.
        destruct (i - length xs') as [|j] eqn:Ej.
        * assert (i = length xs') by lia. subst i. rewrite Hx0. reflexivity.
        * assert (Hn : nth_error xs i = None) by (apply nth_error_None; lia).
          rewrite Hn. cbn. destruct j; reflexivity.
      + apply nth_error_ext. intros i. unfold args_to.
        rewrite nth_error_mapi, nth_error_app, firstn_length, mapi_length, nth_error_firstn,
          nth_error_mapi.
        replace (Nat.min (length xs') (length xs)) with (length xs') by lia.
        destruct (i <? length xs') eqn:E.
        * apply Nat.ltb_lt in E. destruct (nth_error xs i) eqn:Ei; [|reflexivity]. cbn.
          rewrite removed_to_eq by lia. reflexivity.
        * apply Nat.ltb_ge in E. destruct (i - length xs') as [|j] eqn:Ej.
          -- assert (i = length xs') by lia. subst i. rewrite Hx0. reflexivity.
          -- assert (Hn : nth_error xs i = None) by (apply nth_error_None; lia).
             rewrite Hn. cbn. destruct j; reflexivity.
  Qed.

  Lemma rolling_apply_bodies_agree w s0 (xs : list T) :
    1 <= w -> rolling_apply_to w aer s0 xs = rolling_apply_default w aer s0 xs.
  Proof.
    intros Hw. rewrite rolling_apply_to_eq, rolling_apply_default_eq by exact Hw. f_equal.
    destruct (args_to_vs_iter w xs Hw) as [->|(A & r1 & r2 & v & -> & ->)]; [reflexivity|].
    apply run_aer_last_removed_irrelevant.
  Qed.
End BodiesAgree.

(* index form: same statement; the callback may read the series at [start, end] only after emitting *)
Section BodiesAgreeIdx.
  Context {T St O : Type}.
  Variable pre : St -> nat -> T -> St.
  Variable emit : St -> O.
  Variable post : St -> option nat -> St.
  Definition aer_idx (s : St) (a : option nat * nat * T) : St * O :=
    let '(st, e, v) := a in let s1 := pre s e v in (post s1 st, emit s1).

  Lemma rolling_apply_idx_bodies_agree_le w s0 (xs : list T) :
    1 <= w <= length xs ->
    rolling_apply_idx_to w aer_idx s0 xs = rolling_apply_idx_default w aer_idx s0 xs.
  Proof.
    intros [Hw Hle]. rewrite rolling_apply_idx_to_eq, rolling_apply_idx_default_eq by exact Hw.
    f_equal. f_equal. unfold args_to_idx. rewrite Nat.min_l by exact Hle. reflexivity.
  Qed.
End BodiesAgreeIdx.

(* ---- empty input ------------------------------------------------------------------------ *)
Lemma empty_to {T St O} w (f : St -> option T * T -> St * O) s0 : rolling_apply_to w f s0 [] = Done [].
Proof.
  unfold rolling_apply_to, bad_window. cbn [length Nat.eqb negb]. rewrite Bool.andb_false_r.
  unfold calls_to. cbn [length]. rewrite Nat.min_0_r. reflexivity.
Qed.
Lemma empty_default {T St O} w (f : St -> option T * T -> St * O) s0 :
  rolling_apply_default w f s0 [] = Done [].
Proof.
  unfold rolling_apply_default, bad_window. cbn [length Nat.eqb negb]. rewrite Bool.andb_false_r.
  unfold args_iter. rewrite combine_nil. reflexivity.
Qed.

(* =========================================================================================== *)
(* X12: every window, INCLUDING 0 - total characterisations; the two-series entry points        *)
(* =========================================================================================== *)
Lemma bad_window_true_iff {T} w (xs : list T) : bad_window w xs = true <-> w = 0 /\ xs <> [].
Proof.
  unfold bad_window. destruct w as [|w]; destruct xs as [|x xs]; cbn; split; intros H;
    try discriminate; try (destruct H; congruence); try reflexivity.
  split; [reflexivity|discriminate].
Qed.

Lemma bad_window_cases {T} w (xs : list T) :
  (bad_window w xs = true /\ w = 0 /\ xs <> []) \/ (bad_window w xs = false /\ (1 <= w \/ xs = [])).
Proof.
  destruct (bad_window w xs) eqn:Hb.
  - left. split; [reflexivity|]. apply bad_window_true_iff. exact Hb.
  - right. split; [reflexivity|]. destruct w as [|w]; [|left; lia]. right.
    destruct xs as [|x xs]; [reflexivity|]. discriminate Hb.
Qed.

Section Total.
  Context {T St O : Type}.

  Lemma empty_idx_to w (f : St -> option nat * nat * T -> St * O) s0 : rolling_apply_idx_to w f s0 [] = Done [].
  Proof.
    unfold rolling_apply_idx_to, bad_window. cbn [length Nat.eqb negb]. rewrite Bool.andb_false_r.
    unfold calls_to_idx. cbn [length]. rewrite Nat.min_0_r. reflexivity.
  Qed.
  Lemma empty_idx_default w (f : St -> option nat * nat * T -> St * O) s0 :
    rolling_apply_idx_default w f s0 [] = Done [].
  Proof.
    unfold rolling_apply_idx_default, bad_window. cbn [length Nat.eqb negb]. rewrite Bool.andb_false_r.
    reflexivity.
  Qed.
  Lemma empty_custom_to w (f : St -> list T -> St * O) s0 : rolling_custom_to w f s0 [] = Done [].
  Proof.
    unfold rolling_custom_to, bad_window. cbn [length Nat.eqb negb]. rewrite Bool.andb_false_r.
    unfold slices_to. rewrite Nat.min_0_r. reflexivity.
  Qed.

  (* remove/add form *)
  Lemma rolling_apply_default_total w (f : St -> option T * T -> St * O) s0 xs :
    rolling_apply_default w f s0 xs =
    if bad_window w xs then Panicked AssertFail
    else Done (run f s0 (mapi (fun i v => (removed w xs i, v)) xs)).
  Proof.
    destruct (bad_window_cases w xs) as [(Hb & _)|(Hb & [Hw| ->])]; rewrite Hb.
    - unfold rolling_apply_default. rewrite Hb. reflexivity.
    - apply rolling_apply_default_eq; exact Hw.
    - apply empty_default.
  Qed.

  Lemma rolling_apply_to_total w (f : St -> option T * T -> St * O) s0 xs :
    rolling_apply_to w f s0 xs =
    if bad_window w xs then Panicked AssertFail else Done (run f s0 (args_to w xs)).
  Proof.
    destruct (bad_window_cases w xs) as [(Hb & _)|(Hb & [Hw| ->])]; rewrite Hb.
    - unfold rolling_apply_to. rewrite Hb. reflexivity.
    - apply rolling_apply_to_eq; exact Hw.
    - apply empty_to.
  Qed.

  (* window-index form *)
  Lemma rolling_apply_idx_default_total w (f : St -> option nat * nat * T -> St * O) s0 xs :
    rolling_apply_idx_default w f s0 xs =
    if bad_window w xs then Panicked AssertFail
    else Done (run f s0 (mapi (fun i v => (start_of w i, i, v)) xs)).
  Proof.
    destruct (bad_window_cases w xs) as [(Hb & _)|(Hb & [Hw| ->])]; rewrite Hb.
    - unfold rolling_apply_idx_default. rewrite Hb. reflexivity.
    - apply rolling_apply_idx_default_eq; exact Hw.
    - apply empty_idx_default.
  Qed.

  Lemma rolling_apply_idx_to_total w (f : St -> option nat * nat * T -> St * O) s0 xs :
    rolling_apply_idx_to w f s0 xs =
    if bad_window w xs then Panicked AssertFail else Done (run f s0 (args_to_idx w xs)).
  Proof.
    destruct (bad_window_cases w xs) as [(Hb & _)|(Hb & [Hw| ->])]; rewrite Hb.
    - unfold rolling_apply_idx_to. rewrite Hb. reflexivity.
    - apply rolling_apply_idx_to_eq; exact Hw.
    - apply empty_idx_to.
  Qed.

  (* window-slice form: the returned path computes `window - 1` first (underflow for window 0, also on
     an empty series); the caller-buffer path asserts *)
  Lemma rolling_custom_default_total w (f : St -> list T -> St * O) s0 xs :
    rolling_custom_default w f s0 xs =
    if w =? 0 then Panicked Underflow else Done (run f s0 (windows w xs)).
  Proof.
    destruct w as [|w]; [reflexivity|]. cbn [Nat.eqb]. apply rolling_custom_default_eq. lia.
  Qed.

  Lemma rolling_custom_to_total w (f : St -> list T -> St * O) s0 xs :
    rolling_custom_to w f s0 xs =
    if bad_window w xs then Panicked AssertFail else Done (run f s0 (windows w xs)).
  Proof.
    destruct (bad_window_cases w xs) as [(Hb & _)|(Hb & [Hw| ->])]; rewrite Hb.
    - unfold rolling_custom_to. rewrite Hb. reflexivity.
    - apply rolling_custom_to_eq; exact Hw.
    - apply empty_custom_to.
  Qed.
End Total.

(* the two bodies agree for add-emit-remove callbacks at EVERY window (0: the same assertion, or the
   same empty result) *)
Lemma rolling_apply_bodies_agree_total {T St O} (pre : St -> T -> St) (emit : St -> O)
      (post : St -> option T -> St) w s0 (xs : list T) :
  rolling_apply_to w (aer pre emit post) s0 xs = rolling_apply_default w (aer pre emit post) s0 xs.
Proof.
  destruct (bad_window_cases w xs) as [(Hb & _)|(Hb & [Hw| ->])].
  - unfold rolling_apply_to, rolling_apply_default. rewrite Hb. reflexivity.
  - apply rolling_apply_bodies_agree; exact Hw.
  - rewrite empty_to, empty_default. reflexivity.
Qed.

Lemma rolling_apply_idx_bodies_agree_total {T St O} (pre : St -> nat -> T -> St) (emit : St -> O)
      (post : St -> option nat -> St) w s0 (xs : list T) :
  w <= length xs ->
  rolling_apply_idx_to w (aer_idx pre emit post) s0 xs
  = rolling_apply_idx_default w (aer_idx pre emit post) s0 xs.
Proof.
  intros Hle. destruct (bad_window_cases w xs) as [(Hb & _)|(Hb & [Hw| ->])].
  - unfold rolling_apply_idx_to, rolling_apply_idx_default. rewrite Hb. reflexivity.
  - apply rolling_apply_idx_bodies_agree_le. lia.
  - rewrite empty_idx_to, empty_idx_default. reflexivity.
Qed.

Section TwoLemmas.
  Context {T1 T2 St O : Type}.

  (* the window check of the returned path looks at the FIRST series only; once it passes, the same
     check on the zipped series passes too *)
  Lemma bad_window_combine w (xs : list T1) (ys : list T2) :
    bad_window w xs = false -> bad_window w (combine xs ys) = false.
  Proof.
    unfold bad_window. destruct w as [|w]; [|reflexivity]. destruct xs as [|x xs]; [reflexivity|discriminate].
  Qed.

  Lemma bad_window_combine_le w (xs : list T1) (ys : list T2) :
    length xs <= length ys -> bad_window w (combine xs ys) = bad_window w xs.
  Proof. intros H. unfold bad_window. rewrite combine_length, Nat.min_l by exact H. reflexivity. Qed.

  (* ... and they differ exactly in the corner the model used to get wrong *)
  Lemma bad_window_combine_differs w (xs : list T1) (ys : list T2) :
    bad_window w (combine xs ys) <> bad_window w xs <-> w = 0 /\ xs <> [] /\ ys = [].
  Proof.
    unfold bad_window. destruct w as [|w]; [|cbn; split; [congruence|intros (H & _); discriminate]].
    destruct xs as [|x xs]; [cbn; split; [congruence|intros (_ & H & _); congruence]|].
    destruct ys as [|y ys]; cbn; split; try congruence.
    - intros _. repeat split; discriminate.
    - intros (_ & _ & H). discriminate.
  Qed.

  (* the start iterator of the code counts to len SELF; the zip cuts it at the shorter series *)
  Lemma args_iter_idx2_eq w (xs : list T1) (ys : list T2) :
    args_iter_idx2 w xs ys = args_iter_idx w (combine xs ys).
  Proof.
    unfold args_iter_idx2, args_iter_idx. f_equal. f_equal.
    assert (Hlen : length (combine xs ys) <= length xs) by (rewrite combine_length; lia).
    remember (combine xs ys) as zs eqn:Hz. clear Hz.
    apply nth_error_ext. intros i. rewrite !nth_error_combine.
    destruct (nth_error zs i) as [p|] eqn:E; [|reflexivity].
    assert (Hi : i < length zs) by (apply nth_error_Some; congruence).
    assert (Hi2 : i < length xs) by lia.
    rewrite !nth_error_app, !repeat_length, !nth_error_repeat, !nth_error_map, !nth_error_seq.
    destruct (i <? w - 1); [reflexivity|].
    replace (i - (w - 1) <? length xs) with true by (symmetry; apply Nat.ltb_lt; lia).
    replace (i - (w - 1) <? length zs) with true by (symmetry; apply Nat.ltb_lt; lia).
    reflexivity.
  Qed.

  (* past the window check the returned paths are the one-series iterator bodies over the zipped series *)
  Lemma rolling2_apply_default_unfold w (f : St -> option (T1 * T2) * (T1 * T2) -> St * O) s0 xs ys :
    rolling2_apply_default w f s0 xs ys =
    if bad_window w xs then Panicked AssertFail else rolling_apply_default w f s0 (combine xs ys).
  Proof.
    unfold rolling2_apply_default, rolling_apply_default. destruct (bad_window w xs) eqn:Hb; [reflexivity|].
    rewrite bad_window_combine by exact Hb. reflexivity.
  Qed.

  Lemma rolling2_apply_idx_default_unfold w (f : St -> option nat * nat * (T1 * T2) -> St * O) s0 xs ys :
    rolling2_apply_idx_default w f s0 xs ys =
    if bad_window w xs then Panicked AssertFail else rolling_apply_idx_default w f s0 (combine xs ys).
  Proof.
    unfold rolling2_apply_idx_default, rolling_apply_idx_default. destruct (bad_window w xs) eqn:Hb; [reflexivity|].
    rewrite bad_window_combine by exact Hb. rewrite args_iter_idx2_eq. reflexivity.
  Qed.

  Lemma rolling2_apply_default_pos w (f : St -> option (T1 * T2) * (T1 * T2) -> St * O) s0 xs ys :
    1 <= w -> rolling2_apply_default w f s0 xs ys = rolling_apply_default w f s0 (combine xs ys).
  Proof. intros Hw. rewrite rolling2_apply_default_unfold, bad_window_false by exact Hw. reflexivity. Qed.

  Lemma rolling2_apply_idx_default_pos w (f : St -> option nat * nat * (T1 * T2) -> St * O) s0 xs ys :
    1 <= w -> rolling2_apply_idx_default w f s0 xs ys = rolling_apply_idx_default w f s0 (combine xs ys).
  Proof. intros Hw. rewrite rolling2_apply_idx_default_unfold, bad_window_false by exact Hw. reflexivity. Qed.

  (* ... and also whenever the second series is not shorter (the two window checks then coincide) *)
  Lemma rolling2_apply_default_le w (f : St -> option (T1 * T2) * (T1 * T2) -> St * O) s0 xs ys :
    length xs <= length ys -> rolling2_apply_default w f s0 xs ys = rolling_apply_default w f s0 (combine xs ys).
  Proof.
    intros Hle. rewrite rolling2_apply_default_unfold. destruct (bad_window w xs) eqn:Hb; [|reflexivity].
    unfold rolling_apply_default. rewrite bad_window_combine_le, Hb by exact Hle. reflexivity.
  Qed.

  Lemma rolling2_apply_idx_default_le w (f : St -> option nat * nat * (T1 * T2) -> St * O) s0 xs ys :
    length xs <= length ys ->
    rolling2_apply_idx_default w f s0 xs ys = rolling_apply_idx_default w f s0 (combine xs ys).
  Proof.
    intros Hle. rewrite rolling2_apply_idx_default_unfold. destruct (bad_window w xs) eqn:Hb; [|reflexivity].
    unfold rolling_apply_idx_default. rewrite bad_window_combine_le, Hb by exact Hle. reflexivity.
  Qed.

  (* window 0 on a non-empty first series: the assertion, WHATEVER the second series (also empty) *)
  Lemma rolling2_apply_default_window0 (f : St -> option (T1 * T2) * (T1 * T2) -> St * O) s0 xs ys :
    xs <> [] -> rolling2_apply_default 0 f s0 xs ys = Panicked AssertFail.
  Proof.
    intros H. unfold rolling2_apply_default.
    replace (bad_window 0 xs) with true by (symmetry; apply bad_window_true_iff; auto). reflexivity.
  Qed.
  Lemma rolling2_apply_idx_default_window0 (f : St -> option nat * nat * (T1 * T2) -> St * O) s0 xs ys :
    xs <> [] -> rolling2_apply_idx_default 0 f s0 xs ys = Panicked AssertFail.
  Proof.
    intros H. unfold rolling2_apply_idx_default.
    replace (bad_window 0 xs) with true by (symmetry; apply bad_window_true_iff; auto). reflexivity.
  Qed.

  (* ---- total characterisations, every window, every pair of lengths ---- *)
  Lemma rolling2_apply_default_total w (f : St -> option (T1 * T2) * (T1 * T2) -> St * O) s0 xs ys :
    rolling2_apply_default w f s0 xs ys =
    if bad_window w xs then Panicked AssertFail
    else Done (run f s0 (mapi (fun i v => (removed w (combine xs ys) i, v)) (combine xs ys))).
  Proof.
    rewrite rolling2_apply_default_unfold. destruct (bad_window w xs) eqn:Hb; [reflexivity|].
    rewrite rolling_apply_default_total, bad_window_combine by exact Hb. reflexivity.
  Qed.

  Lemma rolling2_apply_to_total w (f : St -> option (T1 * T2) * (T1 * T2) -> St * O) s0 xs ys :
    rolling2_apply_to w f s0 xs ys =
    if length ys <? length xs then Panicked AssertFail
    else if bad_window w xs then Panicked AssertFail
    else Done (run f s0 (args_to w (combine xs ys))).
  Proof.
    unfold rolling2_apply_to. destruct (length ys <? length xs) eqn:E; [reflexivity|].
    apply Nat.ltb_ge in E. rewrite rolling_apply_to_total, bad_window_combine_le by exact E. reflexivity.
  Qed.

  Lemma rolling2_apply_idx_default_total w (f : St -> option nat * nat * (T1 * T2) -> St * O) s0 xs ys :
    rolling2_apply_idx_default w f s0 xs ys =
    if bad_window w xs then Panicked AssertFail
    else Done (run f s0 (mapi (fun i v => (start_of w i, i, v)) (combine xs ys))).
  Proof.
    rewrite rolling2_apply_idx_default_unfold. destruct (bad_window w xs) eqn:Hb; [reflexivity|].
    rewrite rolling_apply_idx_default_total, bad_window_combine by exact Hb. reflexivity.
  Qed.

  Lemma rolling2_apply_idx_to_total w (f : St -> option nat * nat * (T1 * T2) -> St * O) s0 xs ys :
    rolling2_apply_idx_to w f s0 xs ys =
    if length ys <? length xs then Panicked AssertFail
    else if bad_window w xs then Panicked AssertFail
    else Done (run f s0 (args_to_idx w (combine xs ys))).
  Proof.
    unfold rolling2_apply_idx_to. destruct (length ys <? length xs) eqn:E; [reflexivity|].
    apply Nat.ltb_ge in E. rewrite rolling_apply_idx_to_total, bad_window_combine_le by exact E. reflexivity.
  Qed.

  Lemma rolling2_custom_default_total w (f : St -> list T1 * list T2 -> St * O) s0 xs ys :
    rolling2_custom_default w f s0 xs ys =
    if length ys <? length xs then Panicked AssertFail
    else if w =? 0 then Panicked Underflow
    else Done (run f s0 (map (fun i => (win w i xs, win w i ys)) (seq 0 (length xs)))).
  Proof.
    unfold rolling2_custom_default. destruct (length ys <? length xs); [reflexivity|].
    destruct w as [|w]; [reflexivity|]. cbn [Nat.eqb].
    rewrite slices_iter_spec by lia. rewrite map_map. do 2 f_equal.
    all: try (apply map_ext; intros i; rewrite !win_seg; reflexivity).
  Qed.

  (* ---- the first failing check, in the order of the code; a run that passes them all returns a fully
          initialised output (never `Uninit`) of the stated length ---- *)
  Lemma rolling2_apply_default_by_check w (f : St -> option (T1 * T2) * (T1 * T2) -> St * O) s0 xs ys :
    match check2_default w xs ys with
    | Some g => rolling2_apply_default w f s0 xs ys = Panicked (guard_kind g)
    | None => exists l, rolling2_apply_default w f s0 xs ys = Done l
                        /\ length l = Nat.min (length xs) (length ys)
    end.
  Proof.
    rewrite rolling2_apply_default_total. unfold check2_default. destruct (bad_window w xs); [reflexivity|].
    eexists. split; [reflexivity|]. rewrite run_length, mapi_length, combine_length. reflexivity.
  Qed.

  Lemma rolling2_apply_idx_default_by_check w (f : St -> option nat * nat * (T1 * T2) -> St * O) s0 xs ys :
    match check2_default w xs ys with
    | Some g => rolling2_apply_idx_default w f s0 xs ys = Panicked (guard_kind g)
    | None => exists l, rolling2_apply_idx_default w f s0 xs ys = Done l
                        /\ length l = Nat.min (length xs) (length ys)
    end.
  Proof.
    rewrite rolling2_apply_idx_default_total. unfold check2_default. destruct (bad_window w xs); [reflexivity|].
    eexists. split; [reflexivity|]. rewrite run_length, mapi_length, combine_length. reflexivity.
  Qed.

  Lemma rolling2_apply_to_by_check w (f : St -> option (T1 * T2) * (T1 * T2) -> St * O) s0 xs ys :
    match check2_to w xs ys with
    | Some g => rolling2_apply_to w f s0 xs ys = Panicked (guard_kind g)
    | None => exists l, rolling2_apply_to w f s0 xs ys = Done l /\ length l = length xs
    end.
  Proof.
    rewrite rolling2_apply_to_total. unfold check2_to. destruct (length ys <? length xs) eqn:E; [reflexivity|].
    destruct (bad_window w xs); [reflexivity|]. apply Nat.ltb_ge in E.
    eexists. split; [reflexivity|]. unfold args_to. rewrite run_length, mapi_length, combine_length. lia.
  Qed.

  Lemma rolling2_apply_idx_to_by_check w (f : St -> option nat * nat * (T1 * T2) -> St * O) s0 xs ys :
    match check2_to w xs ys with
    | Some g => rolling2_apply_idx_to w f s0 xs ys = Panicked (guard_kind g)
    | None => exists l, rolling2_apply_idx_to w f s0 xs ys = Done l /\ length l = length xs
    end.
  Proof.
    rewrite rolling2_apply_idx_to_total. unfold check2_to. destruct (length ys <? length xs) eqn:E; [reflexivity|].
    destruct (bad_window w xs); [reflexivity|]. apply Nat.ltb_ge in E.
    eexists. split; [reflexivity|]. unfold args_to_idx. rewrite run_length, mapi_length, combine_length. lia.
  Qed.

  Lemma rolling2_custom_default_by_check w (f : St -> list T1 * list T2 -> St * O) s0 xs ys :
    match check2_custom w xs ys with
    | Some g => rolling2_custom_default w f s0 xs ys = Panicked (guard_kind g)
    | None => exists l, rolling2_custom_default w f s0 xs ys = Done l /\ length l = length xs
    end.
  Proof.
    rewrite rolling2_custom_default_total. unfold check2_custom. destruct (length ys <? length xs); [reflexivity|].
    destruct (w =? 0); [reflexivity|].
    eexists. split; [reflexivity|]. rewrite run_length, map_length, seq_length. reflexivity.
  Qed.

  (* the two checks that can stop a two-series entry point, spelled out *)
  Lemma check2_default_spec w (xs : list T1) (ys : list T2) :
    (check2_default w xs ys = Some GWindow <-> w = 0 /\ xs <> []) /\
    (check2_default w xs ys = None <-> 1 <= w \/ xs = []).
  Proof.
    unfold check2_default. destruct (bad_window_cases w xs) as [(Hb & H0 & Hx)|(Hb & H)]; rewrite Hb.
    - split; split; try tauto; try discriminate. intros [H|H]; [lia|contradiction].
    - split; split; try tauto; try discriminate. intros (H0 & Hx). destruct H; [lia|contradiction].
  Qed.

  Lemma check2_to_spec w (xs : list T1) (ys : list T2) :
    (check2_to w xs ys = Some GShorter <-> length ys < length xs) /\
    (check2_to w xs ys = Some GWindow <-> length xs <= length ys /\ w = 0 /\ xs <> []) /\
    (check2_to w xs ys = None <-> length xs <= length ys /\ (1 <= w \/ xs = [])).
  Proof.
    unfold check2_to. destruct (length ys <? length xs) eqn:E.
    - apply Nat.ltb_lt in E. repeat split; try tauto; try discriminate; intros; lia.
    - apply Nat.ltb_ge in E.
      destruct (bad_window_cases w xs) as [(Hb & H0 & Hx)|(Hb & H)]; rewrite Hb.
      + repeat split; try tauto; try discriminate; try lia. intros (_ & [H|H]); [lia|contradiction].
      + repeat split; try tauto; try discriminate; try lia. intros (_ & H0 & Hx). destruct H; [lia|contradiction].
  Qed.
End TwoLemmas.

(* two series, add-emit-remove callback: the bodies agree at every window whenever the second series is
   not shorter (when it is, the index body asserts and the iterator body stops early) *)
Lemma rolling2_apply_bodies_agree {T1 T2 St O} (pre : St -> T1 * T2 -> St) (emit : St -> O)
      (post : St -> option (T1 * T2) -> St) w s0 (xs : list T1) (ys : list T2) :
  length xs <= length ys ->
  rolling2_apply_to w (aer pre emit post) s0 xs ys = rolling2_apply_default w (aer pre emit post) s0 xs ys.
Proof.
  intros Hle. unfold rolling2_apply_to.
  replace (length ys <? length xs) with false by (symmetry; apply Nat.ltb_ge; exact Hle).
  rewrite rolling2_apply_default_unfold. destruct (bad_window w xs) eqn:Hb.
  - unfold rolling_apply_to. rewrite bad_window_combine_le, Hb by exact Hle. reflexivity.
  - apply rolling_apply_bodies_agree_total.
Qed.

Lemma rolling2_apply_idx_bodies_agree {T1 T2 St O} (pre : St -> nat -> T1 * T2 -> St) (emit : St -> O)
      (post : St -> option nat -> St) w s0 (xs : list T1) (ys : list T2) :
  w <= length xs <= length ys ->
  rolling2_apply_idx_to w (aer_idx pre emit post) s0 xs ys
  = rolling2_apply_idx_default w (aer_idx pre emit post) s0 xs ys.
Proof.
  intros [Hw Hle]. unfold rolling2_apply_idx_to.
  replace (length ys <? length xs) with false by (symmetry; apply Nat.ltb_ge; exact Hle).
  rewrite rolling2_apply_idx_default_unfold. destruct (bad_window w xs) eqn:Hb.
  - unfold rolling_apply_idx_to. rewrite bad_window_combine_le, Hb by exact Hle. reflexivity.
  - apply rolling_apply_idx_bodies_agree_total. rewrite combine_length. lia.
Qed.

(* a shorter second series: the index body refuses, the iterator body yields one result per zipped pair *)
Lemma rolling2_shorter_second {T1 T2 St O} w (f : St -> option (T1 * T2) * (T1 * T2) -> St * O) s0
      (xs : list T1) (ys : list T2) :
  length ys < length xs -> 1 <= w ->
  rolling2_apply_to w f s0 xs ys = Panicked AssertFail /\
  exists l, rolling2_apply_default w f s0 xs ys = Done l /\ length l = length ys.
Proof.
  intros Hlt Hw. split.
  - unfold rolling2_apply_to. replace (length ys <? length xs) with true by (symmetry; apply Nat.ltb_lt; exact Hlt).
    reflexivity.
  - rewrite rolling2_apply_default_total, bad_window_false by exact Hw.
    eexists. split; [reflexivity|]. rewrite run_length, mapi_length, combine_length. lia.
Qed.
