(* Proofs/Audit08.v — audit of property C08 (notes/C08.md, "Audit matrix"): what the clause-by-clause audit added.
     (1) the MECHANISM (iter_traits.rs vfold / vfold_n / vapply_n): for an ARBITRARY callback the null-skipping folds
         are functions of the unwrapped valid elements, hence invariant under re-encoding and under null insertion —
         every aggregation written with them inherits both laws (the per-function theorems are instances);
     (2) the null-aware boolean aggregations vany / vall (agg.rs:168, 200), which no C08 theorem named;
     (3) the masked family n_vsum_filter / n_sum_filter / vmean_filter (tea-agg/src/lib.rs:26-99): data AND mask
         re-encoded independently; transparent to inserted observations whose flag is null / false or whose value is null;
     (4) what insertion DOES change, exactly: length, count_none and the count of the null value grow by the number of
         inserted nulls, count_valid + count_none = length stays true;
     (6) re-encoding and insertion composed, for the whole aggregation family at once;
     (7) the canonical-null assumption (DESIGN 5.4) is necessary: Some(NaN) is not the same null.
   Axiom-free, every carrier (no law of the numeric class).                                                        *)
From Coq Require Import Lia List Bool Arith.
From Tevec Require Import Base.Prelude Base.Num Model.Agg Model.NullView Proofs.AggGeneric Proofs.ViewBase Proofs.NullView.
Import ListNotations.
Set Implicit Arguments.

(* ================================================================================================ (1) *)
Section Mechanism.
  Context {A T1 T2 : Type} (D1 : IsNone T1 A) (D2 : IsNone T2 A).

  (* vfold_n / vapply_n: the callback receives the unwrapped value; ANY callback, any accumulator type *)
  Theorem vfold_n_same_view {U} (f : U -> A -> U) init xs1 xs2 :
    SameView D1 D2 xs1 xs2 -> vfold_n (DT := D1) f init xs1 = vfold_n (DT := D2) f init xs2.
  Proof. intros H. rewrite !vfold_n_spec, (vals_same_view H). reflexivity. Qed.
  Theorem vapply_n_same_view {U} (f : U -> A -> U) init xs1 xs2 :
    SameView D1 D2 xs1 xs2 -> vapply_n (DT := D1) f init xs1 = vapply_n (DT := D2) f init xs2.
  Proof. apply vfold_n_same_view. Qed.

  (* vfold: the callback receives the ELEMENT (it may call unwrap / to_opt itself); two callbacks that agree on
     elements with equal option views give equal folds *)
  Theorem vfold_same_view {U} (f1 : U -> T1 -> U) (f2 : U -> T2 -> U) init xs1 xs2 :
    (forall acc a b, same_view D1 D2 a b -> not_none b = true -> f1 acc a = f2 acc b) ->
    SameView D1 D2 xs1 xs2 -> vfold (DT := D1) f1 init xs1 = vfold (DT := D2) f2 init xs2.
  Proof.
    intros Hf H. unfold vfold. revert init. induction H as [|a b r1 r2 Hab _ IH]; intros init; [reflexivity|].
    cbn [fold_left]. rewrite (sv_not_none Hab). destruct (not_none b) eqn:E; [rewrite (Hf init a b Hab E)|]; apply IH.
  Qed.
End Mechanism.

Section MechanismInsert.
  Context {A T : Type} {D : IsNone T A}.
  Theorem vfold_n_insert {U} (f : U -> A -> U) init (xs ys : list T) :
    NullInsert xs ys -> vfold_n f init ys = vfold_n f init xs.
  Proof. intros H. rewrite !vfold_n_spec, (vals_null_insert H). reflexivity. Qed.
  Theorem vapply_n_insert {U} (f : U -> A -> U) init (xs ys : list T) :
    NullInsert xs ys -> vapply_n f init ys = vapply_n f init xs.
  Proof. apply vfold_n_insert. Qed.
  Lemma valid_elems_insert (xs ys : list T) : NullInsert xs ys -> valid_elems ys = valid_elems xs.
  Proof.
    induction 1 as [|x xs ys _ IH|v xs ys Hv _ IH]; [reflexivity| |]; unfold valid_elems in *; cbn [filter].
    - rewrite IH. reflexivity.
    - unfold not_none at 1. rewrite Hv. cbn [negb]. exact IH.
  Qed.
  Theorem vfold_insert {U} (f : U -> T -> U) init (xs ys : list T) :
    NullInsert xs ys -> vfold f init ys = vfold f init xs.
  Proof. intros H. rewrite !vfold_spec, (valid_elems_insert H). reflexivity. Qed.
  Lemma insert_length (xs ys : list T) : NullInsert xs ys -> length xs <= length ys.
  Proof. induction 1; cbn [length]; lia. Qed.
  (* insertion never shortens, and the inserted elements are all nulls: what it changes, exactly *)
  Theorem insert_counts (xs ys : list T) :
    NullInsert xs ys ->
    length xs <= length ys
    /\ count_valid ys = count_valid xs
    /\ count_none ys = count_none xs + (length ys - length xs)
    /\ count_valid ys + count_none ys = length ys.
  Proof.
    intros H. pose proof (count_valid_plus_none xs) as P1. pose proof (count_valid_plus_none ys) as P2.
    assert (HV : count_valid ys = count_valid xs) by (rewrite !count_valid_spec, (vals_null_insert H); reflexivity).
    pose proof (insert_length H) as HL.
    repeat split; lia.
  Qed.
End MechanismInsert.

(* counting the NULL value counts the nulls: it grows with the insertion (whereas counting a non-null value is
   transparent, C08_transparent_aggregations) *)
Section CountNull.
  Context {A : Type} {NA : Num A} {T : Type} {D : IsNone T A}.
  Theorem vcount_null_is_count_none (nl : T) xs : is_none nl = true -> vcount_value nl xs = count_none xs.
  Proof. intros H. unfold vcount_value, count_none, not_none. rewrite H. reflexivity. Qed.
  Theorem vcount_null_insert (nl : T) (xs ys : list T) :
    is_none nl = true -> NullInsert xs ys -> vcount_value nl ys = vcount_value nl xs + (length ys - length xs).
  Proof.
    intros Hn H. rewrite !(vcount_null_is_count_none _ _ Hn). destruct (insert_counts H) as (_ & _ & E & _). exact E.
  Qed.
End CountNull.

(* ================================================================================================ (2) *)
Section BoolAggs.
  Context {T1 T2 : Type} (D1 : IsNone T1 bool) (D2 : IsNone T2 bool).
  Theorem vany_same_view xs1 xs2 : SameView D1 D2 xs1 xs2 -> vany (DB := D1) xs1 = vany (DB := D2) xs2.
  Proof. intros H. rewrite !vany_spec, (vals_same_view H). reflexivity. Qed.
  Theorem vall_same_view xs1 xs2 : SameView D1 D2 xs1 xs2 -> vall (DB := D1) xs1 = vall (DB := D2) xs2.
  Proof. intros H. rewrite !vall_spec, (vals_same_view H). reflexivity. Qed.
  Theorem vany_insert (xs ys : list T1) : NullInsert xs ys -> vany (DB := D1) ys = vany (DB := D1) xs.
  Proof. intros H. rewrite !vany_spec, (vals_null_insert H). reflexivity. Qed.
  Theorem vall_insert (xs ys : list T1) : NullInsert xs ys -> vall (DB := D1) ys = vall (DB := D1) xs.
  Proof. intros H. rewrite !vall_spec, (vals_null_insert H). reflexivity. Qed.
  (* a series of nulls only: vany = false, vall = true (the fold's initial values) — nulls are neither true nor false *)
  Theorem bool_aggs_all_null (xs : list T1) : (forall v, In v xs -> is_none v = true) -> vany (DB := D1) xs = false /\ vall (DB := D1) xs = true.
  Proof.
    intros H. rewrite vany_spec, vall_spec. assert (E : vals xs = []).
    { induction xs as [|v xs IH]; [reflexivity|]. rewrite vals_cons. unfold not_none. rewrite (H v (or_introl eq_refl)).
      cbn [negb]. apply IH. intros w Hw. apply H. right. exact Hw. }
    rewrite E. split; reflexivity.
  Qed.
End BoolAggs.

(* ================================================================================================ (3) *)
(* the masked family.  An observation (value, flag) is SELECTED when the flag is present, valid and true *)
Definition mask_keep {U} {DU : IsNone U bool} (f : U) : bool := not_none f && unwrap f.
Definition mask_zs {T U} {DU : IsNone U bool} (zs : list (T * U)) : list T :=
  flat_map (fun p : T * U => if not_none (snd p) then (if (unwrap (snd p) : bool) then [fst p] else []) else []) zs.
(* inserting observations that do not count: flag null, flag false, or value null (with any flag) *)
Inductive MaskInsert {T U A} {D : IsNone T A} {DU : IsNone U bool} : list (T * U) -> list (T * U) -> Prop :=
| mi_nil : MaskInsert [] []
| mi_keep p zs zs' : MaskInsert zs zs' -> MaskInsert (p :: zs) (p :: zs')
| mi_skip p zs zs' : mask_keep (snd p) && not_none (fst p) = false -> MaskInsert zs zs' -> MaskInsert zs (p :: zs').

Section Masked.
  Context {A : Type} {NA : Num A} {F : Type} {NF : Num F}.
  Variable tof : A -> F.

  Lemma mask_filter_zs {T U} {DU : IsNone U bool} (xs : list T) (mask : list U) :
    mask_filter xs mask = mask_zs (combine xs mask).
  Proof. reflexivity. Qed.
  Lemma mask_zs_cons {T U} {DU : IsNone U bool} (p : T * U) zs :
    mask_zs (p :: zs) = if mask_keep (snd p) then fst p :: mask_zs zs else mask_zs zs.
  Proof. unfold mask_zs, mask_keep. cbn [flat_map]. destruct (not_none (snd p)); [destruct (unwrap (snd p))|]; reflexivity. Qed.

  (* re-encoding: data and mask independently (f64 data with an Option<bool> mask, Option data with a bool mask ...) *)
  Lemma mask_zs_same_view {T1 T2 U1 U2} (D1 : IsNone T1 A) (D2 : IsNone T2 A) (E1 : IsNone U1 bool) (E2 : IsNone U2 bool)
        xs1 xs2 m1 m2 :
    SameView D1 D2 xs1 xs2 -> SameView E1 E2 m1 m2 ->
    vals (DT := D1) (mask_zs (DU := E1) (combine xs1 m1)) = vals (DT := D2) (mask_zs (DU := E2) (combine xs2 m2)).
  Proof.
    intros HX HM. pose proof (Forall2_combine HX HM) as HZ.
    induction HZ as [|p q r1 r2 [Hp Hq] _ IH]; [reflexivity|].
    rewrite !mask_zs_cons. unfold mask_keep. rewrite (sv_not_none Hq).
    destruct (not_none (snd q)) eqn:Eq; cbn [andb]; [|exact IH].
    rewrite (sv_unwrap Hq Eq). destruct (unwrap (snd q)); [|exact IH].
    rewrite !vals_cons, (sv_not_none Hp). destruct (not_none (fst q)) eqn:Ep; [|exact IH].
    rewrite (sv_unwrap Hp Ep), IH. reflexivity.
  Qed.
  Theorem masked_same_view {T1 T2 U1 U2} (D1 : IsNone T1 A) (D2 : IsNone T2 A) (E1 : IsNone U1 bool) (E2 : IsNone U2 bool)
        xs1 xs2 m1 m2 mp :
    SameView D1 D2 xs1 xs2 -> SameView E1 E2 m1 m2 ->
    n_vsum_filter (DT := D1) (DU := E1) xs1 m1 = n_vsum_filter (DT := D2) (DU := E2) xs2 m2
    /\ n_sum_filter (DT := D1) (DU := E1) xs1 m1 = n_sum_filter (DT := D2) (DU := E2) xs2 m2
    /\ vmean_filter (DT := D1) (DU := E1) tof mp xs1 m1 = vmean_filter (DT := D2) (DU := E2) tof mp xs2 m2.
  Proof.
    intros HX HM. pose proof (mask_zs_same_view HX HM) as HV.
    assert (E : n_vsum_filter (DT := D1) (DU := E1) xs1 m1 = n_vsum_filter (DT := D2) (DU := E2) xs2 m2).
    { unfold n_vsum_filter. rewrite !vfold_n_spec, !mask_filter_zs, HV. reflexivity. }
    split; [exact E|]. unfold n_sum_filter, vmean_filter. rewrite E. split; reflexivity.
  Qed.

  (* transparency: observations that are not selected, or whose value is null, may be inserted anywhere *)
  Lemma mask_zs_insert {T U} {DT : IsNone T A} {DU : IsNone U bool} (zs zs' : list (T * U)) :
    MaskInsert zs zs' -> vals (mask_zs zs') = vals (mask_zs zs).
  Proof.
    induction 1 as [|p zs zs' _ IH|p zs zs' Hp _ IH]; [reflexivity| |].
    - rewrite !mask_zs_cons. destruct (mask_keep (snd p)); [rewrite !vals_cons, IH; reflexivity|exact IH].
    - rewrite mask_zs_cons. destruct (mask_keep (snd p)); cbn [andb] in Hp; [|exact IH].
      rewrite vals_cons, Hp. exact IH.
  Qed.
  Theorem masked_insert {T U} {DT : IsNone T A} {DU : IsNone U bool} (xs xs' : list T) (m m' : list U) mp :
    MaskInsert (combine xs m) (combine xs' m') ->
    n_vsum_filter xs' m' = n_vsum_filter xs m /\ n_sum_filter xs' m' = n_sum_filter xs m
    /\ vmean_filter tof mp xs' m' = vmean_filter tof mp xs m.
  Proof.
    intros H. pose proof (mask_zs_insert H) as HV.
    assert (E : n_vsum_filter xs' m' = n_vsum_filter xs m).
    { unfold n_vsum_filter. rewrite !vfold_n_spec, !mask_filter_zs, HV. reflexivity. }
    split; [exact E|]. unfold n_sum_filter, vmean_filter. rewrite E. split; reflexivity.
  Qed.
  (* an all-true mask selects everything: the masked family is then the plain valid family *)
  Theorem masked_all_true {T} (xs : list T) :
    mask_filter (DU := IsNone_plain) xs (map (fun _ => true) xs) = xs.
  Proof.
    rewrite mask_filter_zs. induction xs as [|x xs IH]; [reflexivity|]. cbn [map combine]. rewrite mask_zs_cons.
    cbn. rewrite IH. reflexivity.
  Qed.
End Masked.

(* ================================================================================================ (6) *)
(* re-encoding and insertion composed, the whole family at once (the first version listed eight of them) *)
Section Composed.
  Context {A : Type} {NA : Num A} {T1 T2 : Type} (D1 : IsNone T1 A) (D2 : IsNone T2 A) {F : Type} {NF : Num F}.
  Variable tof : A -> F.
  Theorem across_encodings_full (xs : list T1) (xs' ys : list T2) :
    SameView D1 D2 xs xs' -> NullInsert xs' ys ->
    vals ys = vals xs /\
    count_valid ys = count_valid xs /\ vsum ys = vsum xs /\ vmean tof ys = vmean tof xs /\
    vmin ys = vmin xs /\ vmax ys = vmax xs /\
    option_map unwrap (vfirst ys) = option_map unwrap (vfirst xs) /\
    option_map unwrap (vlast ys) = option_map unwrap (vlast xs) /\
    (forall mp, vmean_var tof mp ys = vmean_var tof mp xs /\ vvar tof mp ys = vvar tof mp xs /\
                vstd tof mp ys = vstd tof mp xs /\ vskew tof mp ys = vskew tof mp xs /\
                vkurt tof mp ys = vkurt tof mp xs) /\
    (forall (v1 : T1) (v2 : T2), same_view D1 D2 v1 v2 -> not_none v1 = true -> vcount_value v2 ys = vcount_value v1 xs) /\
    (forall {U} (f : U -> A -> U) init, vfold_n f init ys = vfold_n f init xs).
  Proof.
    intros HS HI.
    assert (HV : vals ys = vals xs) by (rewrite (vals_null_insert HI); symmetry; apply vals_same_view; exact HS).
    split; [exact HV|].
    split; [apply count_valid_vals; exact HV|]. split; [apply vsum_vals; exact HV|]. split; [apply vmean_vals; exact HV|].
    split; [apply vmin_vals; exact HV|]. split; [apply vmax_vals; exact HV|].
    split; [apply vfirst_vals; exact HV|]. split; [apply vlast_vals; exact HV|].
    split.
    { intros mp. split; [apply vmean_var_vals; exact HV|]. split; [apply vvar_vals; exact HV|].
      split; [apply vstd_vals; exact HV|]. split; [apply vskew_vals; exact HV|apply vkurt_vals; exact HV]. }
    split.
    { intros v1 v2 E Hn. apply vcount_value_vals; [exact HV| |exact Hn].
      unfold same_view in *. symmetry. exact E. }
    intros U f init. rewrite !vfold_n_spec, HV. reflexivity.
  Qed.
End Composed.

(* ================================================================================================ (7) *)
(* canonical nulls only (DESIGN 5.4): on a carrier with a NaN, Some(NaN) in an optional series is NOT the same null as
   NaN in a float series — the views differ and so do the aggregations *)
Section NonCanonical.
  Context {A : Type} {NA : Num A}.
  Hypothesis Hnan : nisnan (nnan : A) = true.
  Theorem some_nan_not_same_view : ~ same_view (IsNone_float (A := A)) IsNone_option nnan (Some nnan).
  Proof. unfold same_view, to_opt. cbn [is_none unwrap IsNone_float IsNone_option]. rewrite Hnan. discriminate. Qed.
  Theorem some_nan_counts_as_valid :
    count_valid (DT := IsNone_float (A := A)) [nnan] = 0 /\ count_valid (DT := IsNone_option (A := A)) [Some nnan] = 1
    /\ vsum (DT := IsNone_float (A := A)) [nnan] = None /\ vsum (DT := IsNone_option (A := A)) [Some nnan] = Some (nadd nzero nnan).
  Proof.
    unfold count_valid, vsum, vfold_n, not_none. cbn [fold_left is_none unwrap IsNone_float IsNone_option].
    rewrite Hnan. cbn. auto.
  Qed.
End NonCanonical.
