(* Proofs/Mask3.v — C05: length / no-panic / empty-input and the null mask of the index-form and slice-form
   families: ts_vmin, ts_vmax, ts_vargmin, ts_vargmax (integer carrier, any null dictionary, axiom-free),
   ts_vrank, ts_vminmaxnorm, ts_vregx_resid_{mean,std,skew}, ts_fdiff, ts_vfdiff (carrier XR).
   Corollaries of the closed forms of Proofs/Cmp.v, RollRank.v, MinMax.v, Resid.v, Fdiff.v.            *)
From Coq Require Import ZArith Reals Lra Lia List Bool.
From Tevec Require Import Base.Prelude Base.Num Base.XR Spec.Stats Spec.Ols Spec.Extrema Model.Driver
     Proofs.Driver Model.Features Model.Cmp Model.Norm Model.Binary Model.Reg Model.Fdiff Proofs.IdxRun
     Proofs.Cmp Proofs.RollRank Proofs.Norm Proofs.MinMax Proofs.Ols Proofs.Binary Proofs.Resid Proofs.Fdiff
     Proofs.Mask Proofs.Mask2.
Import ListNotations.

(* ---- empty series: every index-form entry point returns the empty result, whatever the window (also 0),
   for every carrier and null dictionary — nothing is evaluated, no `window - 1` underflow ------------- *)
Lemma idx_run_empty {T St O} body w (cb : St -> option nat * nat * T -> res (St * O)) s0 :
  idx_run body w cb s0 [] = Done [].
Proof. destruct body, w; reflexivity. Qed.

Section EmptyCmp.
  Context {A : Type} `{NA : Num A} {T : Type} `{DT : IsNone T A}.
  Lemma ts_vmin_empty body w mp : ts_vmin body w mp (@nil T) = Done [].
  Proof. apply idx_run_empty. Qed.
  Lemma ts_vmax_empty body w mp : ts_vmax body w mp (@nil T) = Done [].
  Proof. apply idx_run_empty. Qed.
  Lemma ts_vargmin_empty body w mp : ts_vargmin body w mp (@nil T) = Done [].
  Proof. apply idx_run_empty. Qed.
  Lemma ts_vargmax_empty body w mp : ts_vargmax body w mp (@nil T) = Done [].
  Proof. apply idx_run_empty. Qed.
  Lemma ts_vrank_empty {B : Type} `{NB : Num B} body w mp pct rev :
    ts_vrank (B := B) body w mp pct rev (@nil T) = Done [].
  Proof. apply idx_run_empty. Qed.
  Lemma ts_vminmaxnorm_empty (tmin tmax : A) body w mp :
    ts_vminmaxnorm tmin tmax body w mp (@nil T) = Done [].
  Proof. apply idx_run_empty. Qed.
End EmptyCmp.

Lemma ts_vregx_resid_empty {A : Type} `{NA : Num A} {T1 : Type} {D1 : IsNone T1 A} {T2 : Type}
      {D2 : IsNone T2 A} k body w mp (ys : list T2) :
  ts_vregx_resid k body w mp (@nil T1) ys = Done [].
Proof. destruct body, w; reflexivity. Qed.

(* a window of 0 over a non-empty series is rejected by the driver's assert (the cmp family clamps the window
   to the length first, so this is the only way its driver sees 0) *)
Lemma idx_run_window0 {T St O} body (cb : St -> option nat * nat * T -> res (St * O)) s0 (xs : list T) :
  1 <= length xs -> idx_run body 0 cb s0 xs = Panicked AssertFail.
Proof. intros H. destruct xs as [|x xs]; [cbn in H; lia|]. destruct body; reflexivity. Qed.

(* ---- extrema and arg-extrema: integer carrier, any null dictionary; axiom-free ---------------------- *)
Lemma list_min_null (V : list Z) : onull (list_min V) = (length V <? 1).
Proof. destruct V as [|x r]; [reflexivity|]. cbn [list_min]. destruct (list_min r); reflexivity. Qed.
Lemma list_max_null (V : list Z) : onull (list_max V) = (length V <? 1).
Proof. destruct V as [|x r]; [reflexivity|]. cbn [list_max]. destruct (list_max r); reflexivity. Qed.

Lemma last_pos_some (m : Z) (W : list (option Z)) : In (Some m) W -> exists j, last_pos m W = Some j.
Proof.
  induction W as [|a r IH]; intros Hin; [contradiction|]. cbn [last_pos].
  destruct (last_pos m r) as [j|] eqn:E; [exists (S j); reflexivity|].
  destruct Hin as [->|Hin]; [rewrite Z.eqb_refl; exists 0; reflexivity|].
  destruct (IH Hin) as (j & Hj). discriminate.
Qed.

Lemma argmin_null (W : list (option Z)) : onull (argmin_spec W) = (length (validZ W) <? 1).
Proof.
  unfold argmin_spec. destruct (list_min (validZ W)) as [m|] eqn:E.
  - destruct (list_min_sound _ _ E) as [Hin _]. pose proof Hin as Hin'. apply In_validZ in Hin'.
    destruct (last_pos_some m W Hin') as (j & ->). cbn [option_map onull].
    destruct (validZ W); [contradiction|reflexivity].
  - apply list_min_none in E. rewrite E. reflexivity.
Qed.
Lemma argmax_null (W : list (option Z)) : onull (argmax_spec W) = (length (validZ W) <? 1).
Proof.
  unfold argmax_spec. destruct (list_max (validZ W)) as [m|] eqn:E.
  - destruct (list_max_sound _ _ E) as [Hin _]. pose proof Hin as Hin'. apply In_validZ in Hin'.
    destruct (last_pos_some m W Hin') as (j & ->). cbn [option_map onull].
    destruct (validZ W); [contradiction|reflexivity].
  - apply list_max_none in E. rewrite E. reflexivity.
Qed.

(* DESIGN 5.3: the effective min_periods of this family, and when it is the property's  mp or w/2 *)
Lemma cmp_mp_value {T} mp w (xs : list T) :
  cmp_mp mp (cmp_window w xs) = match mp with Some m => m | None => Nat.min (length xs) w / 2 end.
Proof. destruct mp; reflexivity. Qed.
Lemma cmp_mp_stable {T} mp w (xs : list T) :
  (mp <> None \/ w <= length xs) ->
  cmp_mp mp (cmp_window w xs) = match mp with Some m => m | None => w / 2 end.
Proof.
  intros H. destruct mp as [m|]; [reflexivity|]. destruct H as [H|H]; [contradiction|].
  unfold cmp_mp, cmp_window. rewrite Nat.min_r by exact H. reflexivity.
Qed.

Section MaskCmp.
  Context {T : Type} {DT : IsNone T Z}.

  Theorem mask_vmin body w mp (xs : list T) :
    1 <= w -> 1 <= length xs ->
    exists out, ts_vmin body w mp xs = Done out /\ length out = length xs /\
      forall i, i < length xs ->
        exists o, nth_error out i = Some o /\
          onull o = orb (length (validZ (win w i (map to_opt xs))) <? cmp_mp mp (cmp_window w xs))
                        (length (validZ (win w i (map to_opt xs))) <? 1).
  Proof.
    intros Hw Hl. apply mask_transfer with (1 := ts_vmin_spec body w mp xs Hw Hl).
    intros i Hi. cbv zeta. apply gate_bool. intros _. apply list_min_null.
  Qed.

  Theorem mask_vmax body w mp (xs : list T) :
    1 <= w -> 1 <= length xs ->
    exists out, ts_vmax body w mp xs = Done out /\ length out = length xs /\
      forall i, i < length xs ->
        exists o, nth_error out i = Some o /\
          onull o = orb (length (validZ (win w i (map to_opt xs))) <? cmp_mp mp (cmp_window w xs))
                        (length (validZ (win w i (map to_opt xs))) <? 1).
  Proof.
    intros Hw Hl. apply mask_transfer with (1 := ts_vmax_spec body w mp xs Hw Hl).
    intros i Hi. cbv zeta. apply gate_bool. intros _. apply list_max_null.
  Qed.

  Theorem mask_vargmin body w mp (xs : list T) :
    1 <= w -> 1 <= length xs ->
    exists out, ts_vargmin body w mp xs = Done out /\ length out = length xs /\
      forall i, i < length xs ->
        exists o, nth_error out i = Some o /\
          onull o = orb (length (validZ (win w i (map to_opt xs))) <? cmp_mp mp (cmp_window w xs))
                        (length (validZ (win w i (map to_opt xs))) <? 1).
  Proof.
    intros Hw Hl. apply mask_transfer with (1 := ts_vargmin_spec body w mp xs Hw Hl).
    intros i Hi. cbv zeta. apply gate_bool. intros _. apply argmin_null.
  Qed.

  Theorem mask_vargmax body w mp (xs : list T) :
    1 <= w -> 1 <= length xs ->
    exists out, ts_vargmax body w mp xs = Done out /\ length out = length xs /\
      forall i, i < length xs ->
        exists o, nth_error out i = Some o /\
          onull o = orb (length (validZ (win w i (map to_opt xs))) <? cmp_mp mp (cmp_window w xs))
                        (length (validZ (win w i (map to_opt xs))) <? 1).
  Proof.
    intros Hw Hl. apply mask_transfer with (1 := ts_vargmax_spec body w mp xs Hw Hl).
    intros i Hi. cbv zeta. apply gate_bool. intros _. apply argmax_null.
  Qed.

  (* length / no panic / no unwritten slot for every series, the empty one included, every window >= 1
     (window > len included: the clamp), both bodies *)
  Theorem extrema_total body w mp (xs : list T) :
    1 <= w ->
    (exists out, ts_vmin body w mp xs = Done out /\ length out = length xs) /\
    (exists out, ts_vmax body w mp xs = Done out /\ length out = length xs) /\
    (exists out, ts_vargmin body w mp xs = Done out /\ length out = length xs) /\
    (exists out, ts_vargmax body w mp xs = Done out /\ length out = length xs).
  Proof.
    intros Hw. destruct xs as [|x xs'] eqn:Exs.
    - rewrite ts_vmin_empty, ts_vmax_empty, ts_vargmin_empty, ts_vargmax_empty.
      repeat split; exists []; split; reflexivity.
    - rewrite <- Exs. assert (Hl : 1 <= length xs) by (rewrite Exs; cbn; lia).
      destruct (ts_vmin_spec body w mp xs Hw Hl) as (o1 & A1 & B1 & _).
      destruct (ts_vmax_spec body w mp xs Hw Hl) as (o2 & A2 & B2 & _).
      destruct (ts_vargmin_spec body w mp xs Hw Hl) as (o3 & A3 & B3 & _).
      destruct (ts_vargmax_spec body w mp xs Hw Hl) as (o4 & A4 & B4 & _).
      repeat split; [exists o1|exists o2|exists o3|exists o4]; split; assumption.
  Qed.

  (* ---- rolling rank (output in XR): null iff the current element is null or the valid count of the window
     (current element included) is below the effective min_periods ---- *)
  Definition null_at {X} (l : list (option X)) (i : nat) : bool :=
    match nth_error l i with Some (Some _) => false | _ => true end.

  Theorem mask_vrank body w mp pct rev (xs : list T) :
    1 <= w -> 1 <= length xs ->
    exists out, ts_vrank (B := XR) body w mp pct rev xs = Done out /\ length out = length xs /\
      forall i, i < length xs ->
        exists o, nth_error out i = Some o /\
          is_null o = orb (null_at (map to_opt xs) i)
                          (length (validZ (win w i (map to_opt xs))) <? cmp_mp mp (cmp_window w xs)).
  Proof.
    intros Hw Hl. apply mask_transfer with (1 := ts_vrank_spec body w mp pct rev xs Hw Hl).
    intros i Hi. unfold null_at. destruct (nth_error (map to_opt xs) i) as [[x|]|] eqn:Ev; [|reflexivity..].
    cbv zeta. cbn [orb].
    assert (HW : win w i (map to_opt xs) = seg (wstart w i) i (map to_opt xs) ++ [Some x]).
    { rewrite win_seg. apply seg_snoc; [unfold wstart; lia|exact Ev]. }
    rewrite HW, validZ_app, app_length. cbn [validZ flat_map app length]. rewrite Nat.add_1_r.
    rewrite is_null_onull, (gate_bool _ _ _ false); [apply orb_false_r|reflexivity].
  Qed.

  Theorem rank_total body w mp pct rev (xs : list T) :
    1 <= w -> exists out, ts_vrank (B := XR) body w mp pct rev xs = Done out /\ length out = length xs.
  Proof.
    intros Hw. destruct xs as [|x xs'] eqn:Exs.
    - rewrite ts_vrank_empty. exists []. split; reflexivity.
    - rewrite <- Exs. assert (Hl : 1 <= length xs) by (rewrite Exs; cbn; lia).
      destruct (ts_vrank_spec body w mp pct rev xs Hw Hl) as (o & A1 & B1 & _).
      exists o. split; assumption.
  Qed.
End MaskCmp.

(* ---- min-max normalisation: null iff the current element is null, below min_periods, or zero spread
   (greatest = least valid element of the window; includes every window with one valid value) ---------- *)
Theorem mask_vminmaxnorm (lo hi : R) body (w : nat) mp (xs : list XR) :
  1 <= w -> (forall r, In (Some r) xs -> (lo <= r <= hi)%R) ->
  exists out, ts_vminmaxnorm (Some lo) (Some hi) body w mp xs = Done out /\ length out = length xs /\
    forall i, i < length xs ->
      exists o, nth_error out i = Some o /\
        (is_null o = true <->
         nth_error xs i = Some None \/ length (valid (win w i xs)) < mp_eff mp w 0 \/
         lmaxR (valid (win w i xs)) = lminR (valid (win w i xs))).
Proof.
  intros Hw Hb. apply mask_transfer with (1 := ts_vminmaxnorm_spec lo hi body w mp xs Hw Hb).
  intros i Hi. destruct (nth_error xs i) as [[x|]|] eqn:Ev.
  - cbv zeta. rewrite is_null_onull.
    rewrite (gate_prop (mp_eff mp w 0) (length (valid (win w i xs))) _
               (lmaxR (valid (win w i xs)) = lminR (valid (win w i xs)))).
    + split; [intros H; right; exact H|intros [H|H]; [discriminate|exact H]].
    + intros _. destruct (Req_EM_T (lmaxR (valid (win w i xs))) (lminR (valid (win w i xs)))) as [H|H];
        cbn [onull].
      * split; [intros _; exact H|reflexivity].
      * split; [discriminate|intros H'; contradiction].
  - cbn [is_null]. split; [intros _; left; reflexivity|reflexivity].
  - apply nth_error_None in Ev. lia.
Qed.

(* ---- residual statistics of the regression on a second series: null iff below min_periods, singular
   normal equations, or (skewness only) fewer than 3 observations ------------------------------------ *)
Lemma rstat_null k (V : list R) :
  2 <= length V -> (onull (rstat_spec k V) = true <-> k = RSkew /\ length V < 3).
Proof.
  intros H2. destruct k; cbn [rstat_spec].
  - unfold agg_mean_spec. replace (length V =? 0) with false by (symmetry; apply Nat.eqb_neq; lia).
    cbn [onull]. split; [discriminate|intros [E _]; discriminate].
  - unfold agg_std_spec. replace (length V <? 2) with false by (symmetry; apply Nat.ltb_ge; lia).
    destruct (Rle_dec _ _); cbn [onull]; (split; [discriminate|intros [E _]; discriminate]).
  - unfold agg_skew_spec. destruct (length V <? 3) eqn:E.
    + apply Nat.ltb_lt in E. cbn [onull]. split; [intros _; split; [reflexivity|exact E]|reflexivity].
    + apply Nat.ltb_ge in E. destruct (Rle_dec _ _); cbn [onull];
        (split; [discriminate|intros [_ E']; exfalso; lia]).
Qed.

Theorem mask_vregx_resid k body (w : nat) mp (xs ys : list XR) :
  1 <= w -> length xs = length ys ->
  exists out, ts_vregx_resid k body w mp xs ys = Done out /\ length out = length xs /\
    forall i, i < length xs ->
      let P := pairs (win w i xs) (win w i ys) in
      exists o, nth_error out i = Some o /\
        (is_null o = true <->
         length P < mp_eff mp w 0 \/ detB P = 0%R \/ (k = RSkew /\ length P < 3)).
Proof.
  intros Hw Hlen.
  apply mask_transfer with (1 := resid_entry k body w mp xs ys Hw Hlen)
    (P := fun i o => let P := pairs (win w i xs) (win w i ys) in
            is_null o = true <->
            length P < mp_eff mp w 0 \/ detB P = 0%R \/ (k = RSkew /\ length P < 3)).
  intros i Hi. cbv zeta. set (P := pairs (win w i xs) (win w i ys)). unfold resid_stat_x.
  rewrite is_null_onull. apply gate_prop. intros _.
  destruct (Req_EM_T (detB P) 0) as [D|D].
  - cbn [onull]. split; [intros _; left; exact D|reflexivity].
  - pose proof (det_nonzero_two P D) as H2.
    rewrite rstat_null by (rewrite resids_length; exact H2). rewrite resids_length.
    split; [intros H; right; exact H|intros [H|H]; [contradiction|exact H]].
Qed.

(* ---- fractional difference ------------------------------------------------------------------------ *)
(* plain ts_fdiff on a null-free series: one output per input, none of them null *)
Theorem mask_fdiff body d (w : nat) (rs : list R) :
  1 <= w ->
  exists out, ts_fdiff body (Some d) w (fun x : XR => x) (map Some rs) = Done out /\
    length out = length rs /\
    forall i, i < length rs -> exists o, nth_error out i = Some o /\ is_null o = false.
Proof.
  intros Hw. apply mask_transfer with (1 := ts_fdiff_spec body d w rs Hw).
  intros i Hi. reflexivity.
Qed.

(* ts_vfdiff: the weighted sum over the valid elements is never null; the only nulls are the mask *)
Lemma filter_not_none_length (arr : list XR) : length (filter not_none arr) = length (valid arr).
Proof.
  induction arr as [|[x|] arr IH]; [reflexivity| |].
  - change (filter not_none (Some x :: arr)) with (Some x :: filter not_none arr).
    change (valid (Some x :: arr)) with (x :: valid arr). cbn [length]. rewrite IH. reflexivity.
  - change (filter not_none (None :: arr)) with (filter (@not_none XR XR IsNoneXR) arr).
    change (valid (None :: arr)) with (valid arr). exact IH.
Qed.

Lemma vdot_some (g : nat -> R) (arr : list XR) : forall (ks : list nat) (a : R),
  exists r,
    fold_left (fun acc (vc : XR * XR) =>
                 if not_none (fst vc) then nadd acc (nmul (unwrap (fst vc)) (snd vc)) else acc)
              (combine arr (map (fun v => Some (g v)) ks)) (Some a) = Some r.
Proof.
  induction arr as [|x arr IH]; intros ks a; [exists a; reflexivity|].
  destruct ks as [|k ks]; [exists a; reflexivity|].
  cbn [map combine fold_left fst snd]. destruct x as [x|].
  - change (not_none (Some x)) with true. cbv iota.
    change (unwrap (Some x)) with (Some x). rewrite xmul_some, xadd_some. apply IH.
  - change (not_none (@None R)) with false. cbv iota. apply IH.
Qed.

Lemma vdot_not_null d (arr : list XR) n : is_null (vdot arr (fdiff_coef (Some d) n)) = false.
Proof.
  unfold vdot. rewrite fdiff_coef_spec. change (@nzero XR NumXR) with (Some 0%R).
  destruct (vdot_some (fdiff_weight d) arr (rev (seq 0 n)) 0%R) as (r & ->). reflexivity.
Qed.

Lemma ts_vfdiff_cb_null d w m (arr : list XR) :
  m <= w ->
  is_null (snd (ts_vfdiff_cb (Some d) w m tt arr)) = (length (valid arr) <? m).
Proof.
  intros Hm. unfold ts_vfdiff_cb. cbn [snd]. rewrite filter_not_none_length.
  destruct (length (valid arr) =? w) eqn:E.
  - apply Nat.eqb_eq in E. rewrite vdot_not_null. symmetry. apply Nat.ltb_ge. lia.
  - destruct (m <=? length (valid arr)) eqn:E2.
    + apply Nat.leb_le in E2. rewrite vdot_not_null. symmetry. apply Nat.ltb_ge. exact E2.
    + apply Nat.leb_gt in E2. symmetry. apply Nat.ltb_lt. exact E2.
Qed.

Theorem mask_vfdiff body d (w : nat) mp (xs : list XR) :
  1 <= w ->
  exists out, ts_vfdiff body (Some d) w mp xs = Done out /\ length out = length xs /\
    forall i, i < length xs ->
      exists o, nth_error out i = Some o /\
        is_null o = below (mp_eff mp w 0) (valid (win w i xs)).
Proof.
  intros Hw.
  exists (map (fun a => snd (ts_vfdiff_cb (Some d) w (mp_eff mp w 0) tt a)) (windows w xs)).
  split; [|split].
  - unfold ts_vfdiff. destruct body.
    + rewrite rolling_custom_to_eq by exact Hw. rewrite run_stateless. reflexivity.
    + rewrite rolling_custom_default_eq by exact Hw. rewrite run_stateless. reflexivity.
  - unfold windows. rewrite !map_length, seq_length. reflexivity.
  - intros i Hi. eexists. split.
    + unfold windows. rewrite map_map, nth_error_map, nth_error_seq.
      replace (i <? length xs) with true by (symmetry; apply Nat.ltb_lt; exact Hi).
      cbn [option_map plus]. reflexivity.
    + unfold below. apply ts_vfdiff_cb_null. unfold mp_eff. lia.
Qed.

(* ---- DESIGN 5.3 corollaries: with an explicit min_periods (any length), or an omitted one and len >= w,
   the threshold of the extrema / rank family is the property's `min_periods or floor(w/2)` ------------- *)
Section MaskCmpStable.
  Context {T : Type} {DT : IsNone T Z}.

  Corollary mask_vmin_stable body w mp (xs : list T) :
    1 <= w -> 1 <= length xs -> (mp <> None \/ w <= length xs) ->
    exists out, ts_vmin body w mp xs = Done out /\ length out = length xs /\
      forall i, i < length xs ->
        exists o, nth_error out i = Some o /\
          onull o = orb (length (validZ (win w i (map to_opt xs))) <? match mp with Some m => m | None => w / 2 end)
                        (length (validZ (win w i (map to_opt xs))) <? 1).
  Proof. intros Hw Hl Hs. rewrite <- (cmp_mp_stable mp w xs Hs). apply mask_vmin; assumption. Qed.

  Corollary mask_vmax_stable body w mp (xs : list T) :
    1 <= w -> 1 <= length xs -> (mp <> None \/ w <= length xs) ->
    exists out, ts_vmax body w mp xs = Done out /\ length out = length xs /\
      forall i, i < length xs ->
        exists o, nth_error out i = Some o /\
          onull o = orb (length (validZ (win w i (map to_opt xs))) <? match mp with Some m => m | None => w / 2 end)
                        (length (validZ (win w i (map to_opt xs))) <? 1).
  Proof. intros Hw Hl Hs. rewrite <- (cmp_mp_stable mp w xs Hs). apply mask_vmax; assumption. Qed.

  Corollary mask_vargmin_stable body w mp (xs : list T) :
    1 <= w -> 1 <= length xs -> (mp <> None \/ w <= length xs) ->
    exists out, ts_vargmin body w mp xs = Done out /\ length out = length xs /\
      forall i, i < length xs ->
        exists o, nth_error out i = Some o /\
          onull o = orb (length (validZ (win w i (map to_opt xs))) <? match mp with Some m => m | None => w / 2 end)
                        (length (validZ (win w i (map to_opt xs))) <? 1).
  Proof. intros Hw Hl Hs. rewrite <- (cmp_mp_stable mp w xs Hs). apply mask_vargmin; assumption. Qed.

  Corollary mask_vargmax_stable body w mp (xs : list T) :
    1 <= w -> 1 <= length xs -> (mp <> None \/ w <= length xs) ->
    exists out, ts_vargmax body w mp xs = Done out /\ length out = length xs /\
      forall i, i < length xs ->
        exists o, nth_error out i = Some o /\
          onull o = orb (length (validZ (win w i (map to_opt xs))) <? match mp with Some m => m | None => w / 2 end)
                        (length (validZ (win w i (map to_opt xs))) <? 1).
  Proof. intros Hw Hl Hs. rewrite <- (cmp_mp_stable mp w xs Hs). apply mask_vargmax; assumption. Qed.

  Corollary mask_vrank_stable body w mp pct rev (xs : list T) :
    1 <= w -> 1 <= length xs -> (mp <> None \/ w <= length xs) ->
    exists out, ts_vrank (B := XR) body w mp pct rev xs = Done out /\ length out = length xs /\
      forall i, i < length xs ->
        exists o, nth_error out i = Some o /\
          is_null o = orb (null_at (map to_opt xs) i)
                          (length (validZ (win w i (map to_opt xs))) <? match mp with Some m => m | None => w / 2 end).
  Proof. intros Hw Hl Hs. rewrite <- (cmp_mp_stable mp w xs Hs). apply mask_vrank; assumption. Qed.
End MaskCmpStable.

(* the empty-series statements of the index-form entry points, collected *)
Lemma index_form_empty (A : Type) (NA : Num A) (T : Type) (DT : IsNone T A) (body : bool) (w : nat)
      (mp : option nat) :
  ts_vmin body w mp (@nil T) = Done [] /\ ts_vmax body w mp (@nil T) = Done [] /\
  ts_vargmin body w mp (@nil T) = Done [] /\ ts_vargmax body w mp (@nil T) = Done [] /\
  (forall (B : Type) (NB : Num B) (pct rev : bool), ts_vrank (B := B) body w mp pct rev (@nil T) = Done []) /\
  (forall tmin tmax : A, ts_vminmaxnorm tmin tmax body w mp (@nil T) = Done []) /\
  (forall (T2 : Type) (D2 : IsNone T2 A) (k : rstat) (ys : list T2),
      ts_vregx_resid k body w mp (@nil T) ys = Done []).
Proof.
  split; [apply ts_vmin_empty|]. split; [apply ts_vmax_empty|]. split; [apply ts_vargmin_empty|].
  split; [apply ts_vargmax_empty|]. split; [intros B NB pct rev; apply ts_vrank_empty|].
  split; [intros tmin tmax; apply ts_vminmaxnorm_empty|]. intros T2 D2 k ys. apply ts_vregx_resid_empty.
Qed.
