(* Proofs/Iter.v — lemmas about the iterator-state model (property C09). *)
From Tevec Require Import Base.Prelude Model.Iter.
Set Implicit Arguments.
Local Open Scope nat_scope.

(* every model state has an upper bound (no unbounded source is a node of its own) *)
Lemma size_hint_upper_some : forall s, exists u, snd (size_hint s) = Some u.
Proof.
  induction s; cbn [size_hint fst snd]; eauto.
  - destruct IHs1 as [u1 H1], IHs2 as [u2 H2]. destruct la, lb; cbn [fst snd]; eauto.
    rewrite H1, H2. cbn. eauto.
  - destruct IHs as [u H]. destruct (n =? 0); cbn [snd]; eauto.
    rewrite H. destruct (u <? n); eauto.
  - destruct IHs as [u H]. rewrite H. cbn. eauto.
  - destruct IHs1 as [u1 H1], IHs2 as [u2 H2]. rewrite H1, H2. cbn. eauto.
Qed.
